//go:build verif

// C09 — decoders accept only canonical encodings of members of the intended
// group.  Every decoder under test is run on valid encodings, on every
// single-bit alteration of them and on crafted hostile strings of the exact
// format length; each execution is judged by an independent big-integer
// reference (package c09ref): an ACCEPTED string must re-serialise to itself
// in the same form, its decoded coordinates must satisfy the curve equation
// and, where the library relies on it, [r]P = O; a REJECTED string must not be
// one the reference finds valid.
package c09

import (
	"hash/fnv"
	"math/big"
	"os"
	"testing"

	"github.com/cloudflare/circl/internal/zzverif/lib"
	"github.com/cloudflare/circl/internal/zzverif/ref/c09ref"
)

func TestMain(m *testing.M) { lib.Main(m) }

func repoRoot() string {
	if v := os.Getenv("VERIF_REPO"); v != "" {
		return v
	}
	return "/repo"
}

// tc is one byte string presented to a decoder.
type tc struct {
	class string
	data  []byte
	prime []byte // optional: a valid encoding decoded into the receiver first (used receiver)
}

type tcs []tc

func (l *tcs) add(class string, data []byte) { *l = append(*l, tc{class, lib.Clone(data), nil}) }

// addPrimed: the string is additionally decoded into a receiver that holds
// the valid value it was derived from.
func (l *tcs) addPrimed(class string, data, prime []byte) {
	*l = append(*l, tc{class, lib.Clone(data), lib.Clone(prime)})
}

// allFlips appends every single-bit alteration of v.
func (l *tcs) allFlips(class string, v []byte) {
	for i := 0; i < 8*len(v); i++ {
		*l = append(*l, tc{class, lib.FlipBit(v, i), nil})
	}
}

// sampled reports whether the (costly, reference-guarding) part of the oracle
// runs for this input: one string in `oneIn`.  The choice depends on the
// bytes only.
func sampled(in []byte, oneIn uint64) bool {
	if oneIn <= 1 {
		return true
	}
	h := fnv.New64a()
	h.Write(in)
	return h.Sum64()%oneIn == 0
}

func viol(class, entry, sub, mon string, kv ...any) {
	key := "C09:" + class + ":" + entry
	if sub != "" {
		key += ":" + sub
	}
	lib.Violation(key, mon, lib.D(kv...))
}

// randBelow returns a uniform integer in [0, n).
func randBelow(r *lib.Rng, n *big.Int) *big.Int {
	b := r.Bytes((n.BitLen()+7)/8 + 8)
	v := new(big.Int).SetBytes(b)
	return v.Mod(v, n)
}

// edgeScalars are the multipliers every group workload starts with.
func edgeScalars(order *big.Int) []*big.Int {
	one := big.NewInt(1)
	return []*big.Int{
		big.NewInt(0), big.NewInt(1), big.NewInt(2), big.NewInt(3),
		new(big.Int).Sub(order, one), new(big.Int).Sub(order, big.NewInt(2)),
		new(big.Int).Rsh(order, 1), new(big.Int).Add(new(big.Int).Rsh(order, 1), one),
	}
}

var _ = c09ref.BE
