//go:build verif

package c20

import (
	"bytes"
	"go/scanner"
	"go/token"
	"os"
	"path/filepath"
	"sort"
	"strconv"
	"strings"
	"sync"
	"sync/atomic"
	"testing"

	"github.com/cloudflare/circl/abe/cpabe/tkn20"
	"github.com/cloudflare/circl/internal/zzverif/lib"
	"github.com/cloudflare/circl/internal/zzverif/ref/abepol"
)

// TestVerifABEObjectReuse: histories on ONE Attributes / Policy / key object.
// A key is a function of the attribute set it was generated for, not of the
// Attributes variable: the caller refills that variable (FromMap) for the next
// user, mutates the map it passed in, re-parses a Policy variable after
// encrypting - and every key and ciphertext produced earlier must keep its
// encoding and its verdict.  Decrypting does not change the key either:
// repeated decryptions (successful and refused ones interleaved, several
// policies) give the same results and leave the key's encoding unchanged.
func TestVerifABEObjectReuse(t *testing.T) {
	const rmon = "TestVerifABEObjectReuse"
	lib.Mandatory("reuse:attributes-refilled", "reuse:key-used-again", "reuse:policy-reparsed")
	var msk tkn20.SystemSecretKey
	var pk tkn20.PublicKey
	dirp := repoRoot() + "/abe/cpabe/tkn20/testdata/"
	rd := func(n string) []byte {
		b, err := os.ReadFile(dirp + n)
		if err != nil {
			t.Fatalf("harness: %v", err)
		}
		return b
	}
	if err := msk.UnmarshalBinary(rd("secretKey")); err != nil {
		t.Fatalf("harness: golden secretKey: %v", err)
	}
	if err := pk.UnmarshalBinary(rd("publicKey")); err != nil {
		t.Fatalf("harness: golden publicKey: %v", err)
	}
	type pcase struct {
		text string
		node *abepol.Node
	}
	leaf := func(l, v string) *abepol.Node { return &abepol.Node{K: abepol.Leaf, Label: l, Value: v} }
	and := func(a, b *abepol.Node) *abepol.Node { return &abepol.Node{K: abepol.And, L: a, R: b} }
	or := func(a, b *abepol.Node) *abepol.Node { return &abepol.Node{K: abepol.Or, L: a, R: b} }
	not := func(a *abepol.Node) *abepol.Node { return &abepol.Node{K: abepol.Not, L: a} }
	pols := []pcase{
		{"a:1", leaf("a", "1")},
		{"(a:0 or a:1) and (b:0 or b:1)", and(or(leaf("a", "0"), leaf("a", "1")), or(leaf("b", "0"), leaf("b", "1")))},
		{"a:1 and b:1", and(leaf("a", "1"), leaf("b", "1"))},
		{"a:1 or (b:1 and c:1)", or(leaf("a", "1"), and(leaf("b", "1"), leaf("c", "1")))},
		{"not a:0 and b:1", and(not(leaf("a", "0")), leaf("b", "1"))},
		{"(a:1 or b:0) and not c:2", and(or(leaf("a", "1"), leaf("b", "0")), not(leaf("c", "2")))},
	}
	sets := []abepol.Assign{
		{"a": "1", "b": "1"}, {"a": "1"}, {"b": "1", "c": "1"}, {"a": "0", "b": "0", "c": "2"}, {"a": "1", "b": "1", "c": "1"}, {"c": "0"},
	}
	msg := []byte("reuse")
	// ciphertexts, with the Policy variable re-parsed after every encryption
	cts := make([][]byte, len(pols))
	var pol tkn20.Policy
	for i, p := range pols {
		if err := pol.FromString(p.text); err != nil {
			lib.Violation("C20:parse-error:Policy.FromString", rmon, lib.D("policy", p.text, "err", err))
			return
		}
		ct, err := pk.Encrypt(lib.NewRng("c20/reuse/enc", i), pol, msg)
		if err != nil {
			lib.Violation("C20:encrypt-error:PublicKey.Encrypt", rmon, lib.D("policy", p.text, "err", err))
			return
		}
		cts[i] = ct
		keep := lib.Clone(ct)
		// the same variable now holds another policy
		_ = pol.FromString(pols[(i+1)%len(pols)].text)
		if !lib.Eq(ct, keep) {
			lib.Violation("C20:ciphertext-tied-to-policy-object:PublicKey.Encrypt", rmon, lib.D("policy", p.text))
		}
		lib.Count("reuse:policy-reparsed")
	}
	// one Policy object through every way of (re)filling it - FromString,
	// ExtractFromCiphertext - with String(), Equal and Satisfaction used in
	// between: after each refill the object must print, compare and judge
	// exactly like a fresh object filled the same way
	{
		lib.Mandatory("reuse:policy-object-refilled")
		var one tkn20.Policy
		for step := 0; step < 3*len(pols); step++ {
			i := (step * 2) % len(pols)
			var fresh tkn20.Policy
			var e1, e2 error
			how := "FromString"
			if step%3 == 1 {
				how = "ExtractFromCiphertext"
				e1, e2 = one.ExtractFromCiphertext(cts[i]), fresh.ExtractFromCiphertext(cts[i])
			} else {
				e1, e2 = one.FromString(pols[i].text), fresh.FromString(pols[i].text)
			}
			if e1 != nil || e2 != nil {
				lib.Violation("C20:policy-object-reuse:"+how, rmon, lib.D("policy", pols[i].text, "err_reused", e1, "err_fresh", e2))
				break
			}
			lib.Count("reuse:policy-object-refilled")
			s1, s2 := one.String(), fresh.String()
			same := s1 == s2 && one.Equal(&fresh) && fresh.Equal(&one)
			for _, a := range sets {
				same = same && one.Satisfaction(toAttrs(a)) == fresh.Satisfaction(toAttrs(a))
			}
			if !same {
				lib.Violation("C20:policy-object-reuse:"+how, rmon, lib.D("policy", pols[i].text, "reused_object_prints", s1, "fresh_object_prints", s2,
					"history", "the object was printed and judged under its previous contents before being refilled"))
				break
			}
		}
	}
	// the randomness source may deliver its octets in short pieces: Encrypt,
	// KeyGen and Setup must produce exactly what they produce from the same
	// octets delivered whole
	{
		lib.Mandatory("reuse:short-read-randomness")
		var p0 tkn20.Policy
		_ = p0.FromString(pols[1].text)
		// (one byte string per call: lib.Rng itself is not a byte stream, a read
		// of 3 octets consumes a whole word)
		rb := [3][]byte{lib.NewRng("c20/reuse/short", 0).Bytes(1 << 16), lib.NewRng("c20/reuse/short", 1).Bytes(1 << 16), lib.NewRng("c20/reuse/short", 2).Bytes(1 << 18)}
		c1, e1 := pk.Encrypt(bytes.NewReader(rb[0]), p0, msg)
		c2, e2 := pk.Encrypt(&lib.ShortReader{R: bytes.NewReader(rb[0])}, p0, msg)
		var a0 tkn20.Attributes
		a0.FromMap(map[string]string{"a": "1", "b": "1"})
		k1, e3 := msk.KeyGen(bytes.NewReader(rb[1]), a0)
		k2, e4 := msk.KeyGen(&lib.ShortReader{R: bytes.NewReader(rb[1])}, a0)
		kb1, _ := k1.MarshalBinary()
		kb2, _ := k2.MarshalBinary()
		lib.Count("reuse:short-read-randomness")
		if e1 != nil || e2 != nil || e3 != nil || e4 != nil || !lib.Eq(c1, c2) || !lib.Eq(kb1, kb2) {
			lib.Violation("C20:result-depends-on-how-the-randomness-is-delivered:tkn20", rmon, lib.D("encrypt_same", lib.Eq(c1, c2), "keygen_same", lib.Eq(kb1, kb2),
				"errs", []any{e1, e2, e3, e4}))
		}
		if lib.Thorough() {
			p1, s1, _ := tkn20.Setup(bytes.NewReader(rb[2]))
			p2, s2, _ := tkn20.Setup(&lib.ShortReader{R: bytes.NewReader(rb[2])})
			a, _ := p1.MarshalBinary()
			b, _ := p2.MarshalBinary()
			c, _ := s1.MarshalBinary()
			d, _ := s2.MarshalBinary()
			if !lib.Eq(a, b) || !lib.Eq(c, d) {
				lib.Violation("C20:result-depends-on-how-the-randomness-is-delivered:tkn20.Setup", rmon, lib.D())
			}
		}
	}
	// keys, all generated through ONE Attributes variable and ONE map
	var at tkn20.Attributes
	m := map[string]string{}
	keys := make([]tkn20.AttributeKey, len(sets))
	encs := make([][]byte, len(sets))
	for i, a := range sets {
		for k := range m {
			delete(m, k)
		}
		for k, v := range a {
			m[k] = v
		}
		at.FromMap(m)
		k, err := msk.KeyGen(lib.NewRng("c20/reuse/keygen", i), at)
		if err != nil {
			lib.Violation("C20:keygen-error:SystemSecretKey.KeyGen", rmon, lib.D("attrs", a.String(), "err", err))
			return
		}
		keys[i] = k
		encs[i], _ = k.MarshalBinary()
		// the caller scribbles over its map and refills the variable
		m["a"] = "scribble"
		m["zz"] = "x"
		at.FromMap(map[string]string{"q": "r"})
		lib.Count("reuse:attributes-refilled")
		if now, _ := keys[i].MarshalBinary(); !lib.Eq(now, encs[i]) {
			lib.Violation("C20:key-tied-to-attributes-object:SystemSecretKey.KeyGen", rmon, lib.D("attrs", a.String()))
		}
	}
	// a COPY of a key value (AttributeKey is passed and stored by value) is
	// reloaded with another key's encoding: the copy is then that other key,
	// and the key it was copied from is what it was
	for i := range keys {
		j := (i + 1) % len(keys)
		slot := keys[i]
		if err := slot.UnmarshalBinary(lib.Clone(encs[j])); err != nil {
			lib.Violation("C20:decode-error:AttributeKey.UnmarshalBinary:into-a-copy-of-another-key", rmon, lib.D("attrs", sets[j].String(), "err", err))
			continue
		}
		lib.Count("reuse:key-copy-reloaded")
		slotNow, _ := slot.MarshalBinary()
		origNow, _ := keys[i].MarshalBinary()
		if !lib.Eq(slotNow, encs[j]) {
			lib.Violation("C20:decode-into-used-differs:AttributeKey.UnmarshalBinary", rmon, lib.D("loaded", sets[j].String(), "previous_content", sets[i].String()))
		}
		if !lib.Eq(origNow, encs[i]) {
			lib.Violation("C20:key-changed-by-reloading-a-copy:AttributeKey.UnmarshalBinary", rmon, lib.D("key", sets[i].String(), "copy_reloaded_with", sets[j].String()))
			// restore, so that the passes below judge the keys themselves
			var fresh tkn20.AttributeKey
			if fresh.UnmarshalBinary(lib.Clone(encs[i])) == nil {
				keys[i] = fresh
			}
		}
	}
	// every key against every ciphertext, three passes over the same key objects
	for pass := 0; pass < 3; pass++ {
		for ki := range keys {
			for pi, p := range pols {
				exp := abepol.Eval(p.node, sets[ki])
				lib.CaseS("reuse", p.text, sets[ki].String())
				lib.Count("reuse:key-used-again")
				pt, err, pn := tryDecrypt(&keys[ki], cts[pi], "tkn20.AttributeKey.Decrypt:reuse")
				if pn != nil {
					lib.Violation("C20:panic:AttributeKey.Decrypt:reused-key", rmon, lib.D("policy", p.text, "attrs", sets[ki].String(), "pass", pass, "panic", pn.Value))
					continue
				}
				if (err == nil) != exp {
					lib.Violation("C20:"+dir(exp)+":AttributeKey.Decrypt:reused-key", rmon,
						lib.D("policy", p.text, "attrs", sets[ki].String(), "pass", pass, "expected", exp, "err", err))
					continue
				}
				if exp && !lib.Eq(pt, msg) {
					lib.Violation("C20:wrong-plaintext:AttributeKey.Decrypt:reused-key", rmon, lib.D("policy", p.text, "attrs", sets[ki].String(), "pass", pass))
				}
			}
			if now, _ := keys[ki].MarshalBinary(); !lib.Eq(now, encs[ki]) {
				lib.Violation("C20:key-changed-by-decrypting:AttributeKey.Decrypt", rmon, lib.D("attrs", sets[ki].String(), "pass", pass))
				encs[ki] = now
			}
		}
	}
}

// TestVerifABEOddValues: attribute values a policy text can never name - the
// empty string, blanks, a trailing blank, non-ASCII look-alikes, a very long
// value - and the empty label.  Such an attribute is PRESENT with a value
// different from every policy value: it satisfies no positive leaf on its
// label and every negated one.  Decrypt, CouldDecrypt and Satisfaction must
// follow the stated semantics for them as for ordinary values.
func TestVerifABEOddValues(t *testing.T) {
	const omon = "TestVerifABEOddValues"
	lib.Mandatory("odd-values:cases", "odd-values:empty-string-value")
	var msk tkn20.SystemSecretKey
	var pk tkn20.PublicKey
	dirp := repoRoot() + "/abe/cpabe/tkn20/testdata/"
	rd := func(n string) []byte {
		b, err := os.ReadFile(dirp + n)
		if err != nil {
			t.Fatalf("harness: %v", err)
		}
		return b
	}
	if err := msk.UnmarshalBinary(rd("secretKey")); err != nil {
		t.Fatalf("harness: golden secretKey: %v", err)
	}
	if err := pk.UnmarshalBinary(rd("publicKey")); err != nil {
		t.Fatalf("harness: golden publicKey: %v", err)
	}
	leaf := func(l, v string) *abepol.Node { return &abepol.Node{K: abepol.Leaf, Label: l, Value: v} }
	and := func(a, b *abepol.Node) *abepol.Node { return &abepol.Node{K: abepol.And, L: a, R: b} }
	or := func(a, b *abepol.Node) *abepol.Node { return &abepol.Node{K: abepol.Or, L: a, R: b} }
	not := func(a *abepol.Node) *abepol.Node { return &abepol.Node{K: abepol.Not, L: a} }
	pols := []struct {
		text string
		node *abepol.Node
	}{
		{"not a:1", not(leaf("a", "1"))},
		{"a:1", leaf("a", "1")},
		{"b:1 and not a:1", and(leaf("b", "1"), not(leaf("a", "1")))},
		{"not (a:1 or b:2)", not(or(leaf("a", "1"), leaf("b", "2")))},
		{"a:1 or not a:2", or(leaf("a", "1"), not(leaf("a", "2")))},
		{"tier_2:free_plan or not tier_2:x", or(leaf("tier_2", "free_plan"), not(leaf("tier_2", "x")))},
	}
	long := make([]byte, 300)
	for i := range long {
		long[i] = 'v'
	}
	// leaf values on both sides of 256 octets (one-octet length fields)
	lv := func(n int) string {
		b := make([]byte, n)
		for i := range b {
			b[i] = byte('a' + i%26)
		}
		return string(b)
	}
	// labels and values that BEGIN with an operator word (a lexer deciding on
	// a prefix would split them)
	for _, kw := range []struct {
		text string
		node *abepol.Node
	}{
		{"ring:or2", leaf("ring", "or2")},
		{"not not0:off", not(leaf("not0", "off"))},
		{"and1:x or or2:y", or(leaf("and1", "x"), leaf("or2", "y"))},
		{"android:1 and order:nothing", and(leaf("android", "1"), leaf("order", "nothing"))},
		{"not_before:and_then or orange:not9", or(leaf("not_before", "and_then"), leaf("orange", "not9"))},
	} {
		pols = append(pols, kw)
	}
	for _, n := range []int{255, 256, 257, 600} {
		pols = append(pols, struct {
			text string
			node *abepol.Node
		}{"w:" + lv(n) + " or b:7", or(leaf("w", lv(n)), leaf("b", "7"))})
	}
	sets := []abepol.Assign{
		{"w": lv(255)}, {"w": lv(256)}, {"w": lv(257)}, {"w": lv(600), "a": "1"}, {"b": "7"},
		{"ring": "or2"}, {"not0": "off"}, {"not0": "on"}, {"and1": "x"}, {"or2": "y"}, {"android": "1", "order": "nothing"}, {"orange": "not9"}, {"not_before": "and_then"},
		{"a": ""}, {"a": "", "b": "1"}, {"a": "", "b": ""}, {"a": " "}, {"a": "1 "}, {"a": " 1"}, {"a": "１"}, {"a": string(long)},
		{"a": "1", "b": ""}, {"": "1"}, {"a": "1"}, {"a": "2", "b": "1"}, {"tier_2": ""}, {"tier_2": "free_plan"}, {},
	}
	// attribute LABELS the library itself uses internally (string literals of
	// its sources that look like labels - the reserved label of the
	// Boneh-Katz transform among them): a caller's attribute set may contain
	// them like any other label
	for _, l := range sourceLabels("abe/cpabe/tkn20", "abe/cpabe/tkn20/internal/tkn", "abe/cpabe/tkn20/internal/dsl") {
		sets = append(sets, abepol.Assign{"a": "2", "b": "1", l: "x"}, abepol.Assign{"a": "1", l: ""})
		lib.Count("odd:library-literal-as-attribute-label")
	}
	// many parenthesised groups side by side are not nesting
	{
		var sb strings.Builder
		const groups = 10001
		for i := 0; i < groups; i++ {
			if i > 0 {
				sb.WriteString(" or ")
			}
			sb.WriteString("(a:1)")
		}
		var flat tkn20.Policy
		var ferr error
		if pn := lib.Try("Policy.FromString:flat", nil, func() { ferr = flat.FromString(sb.String()) }); pn != nil || ferr != nil {
			lib.Violation("C20:parse-error:Policy.FromString:many-groups-side-by-side", omon, lib.D("policy", "(a:1) or (a:1) or ... ("+strconv.Itoa(groups)+" groups, nesting depth 1)", "err", ferr))
		} else {
			lib.Count("odd:flat-policy-of-10001-groups")
			var at tkn20.Attributes
			at.FromMap(map[string]string{"a": "1"})
			if !flat.Satisfaction(at) {
				lib.Violation("C20:rejects-satisfied:Policy.Satisfaction:many-groups-side-by-side", omon, lib.D("groups", groups))
			}
		}
	}
	cts := make([][]byte, len(pols))
	for i, p := range pols {
		var pol tkn20.Policy
		if err := pol.FromString(p.text); err != nil {
			lib.Violation("C20:parse-error:Policy.FromString", omon, lib.D("policy", p.text, "err", err))
			return
		}
		ct, err := pk.Encrypt(lib.NewRng("c20/odd/enc", i), pol, []byte("odd"))
		if err != nil {
			lib.Violation("C20:encrypt-error:PublicKey.Encrypt", omon, lib.D("policy", p.text, "err", err))
			return
		}
		cts[i] = ct
	}
	lib.Par(len(sets), func(si int) {
		a := sets[si]
		m := map[string]string{}
		empty := false
		for k, v := range a {
			m[k] = v
			if v == "" {
				empty = true
			}
		}
		var at tkn20.Attributes
		at.FromMap(m)
		key, err := msk.KeyGen(lib.NewRng("c20/odd/keygen", si), at)
		if err != nil {
			lib.Violation("C20:keygen-error:SystemSecretKey.KeyGen", omon, lib.D("attrs", a.String(), "err", err))
			return
		}
		for pi, p := range pols {
			exp := abepol.Eval(p.node, a)
			lib.CaseS("odd-values", p.text, a.String())
			lib.Count("odd-values:cases")
			if empty {
				lib.Count("odd-values:empty-string-value")
			}
			var pol tkn20.Policy
			_ = pol.FromString(p.text)
			if got := pol.Satisfaction(at); got != exp {
				lib.Violation("C20:"+dir(exp)+":Policy.Satisfaction:odd-attribute-value", omon, lib.D("policy", p.text, "attrs", a.String(), "expected", exp, "observed", got))
			}
			if got := at.CouldDecrypt(cts[pi]); got != exp {
				lib.Violation("C20:"+dir(exp)+":Attributes.CouldDecrypt:odd-attribute-value", omon, lib.D("policy", p.text, "attrs", a.String(), "expected", exp, "observed", got))
			}
			pt, err, pn := tryDecrypt(&key, cts[pi], "tkn20.AttributeKey.Decrypt:odd-values")
			if pn != nil {
				lib.Violation("C20:panic:AttributeKey.Decrypt:odd-attribute-value", omon, lib.D("policy", p.text, "attrs", a.String(), "panic", pn.Value))
				continue
			}
			if (err == nil) != exp || (exp && !lib.Eq(pt, []byte("odd"))) {
				lib.Violation("C20:"+dir(exp)+":AttributeKey.Decrypt:odd-attribute-value", omon, lib.D("policy", p.text, "attrs", a.String(), "expected", exp, "err", err))
			}
		}
	})
}

// TestVerifABEConcurrent: one PublicKey, one Policy object and one
// AttributeKey are used by 8 goroutines at once (Encrypt with the shared
// policy, then Decrypt / CouldDecrypt with the shared key).  Every ciphertext
// must decrypt under the satisfying key to its own message and be refused by
// the non-satisfying one - exactly as when produced one after the other.
func TestVerifABEConcurrent(t *testing.T) {
	const cmon = "TestVerifABEConcurrent"
	lib.Mandatory("concurrent:encryptions", "concurrent:decryptions")
	var msk tkn20.SystemSecretKey
	var pk tkn20.PublicKey
	dirp := repoRoot() + "/abe/cpabe/tkn20/testdata/"
	rd := func(n string) []byte {
		b, err := os.ReadFile(dirp + n)
		if err != nil {
			t.Fatalf("harness: %v", err)
		}
		return b
	}
	if err := msk.UnmarshalBinary(rd("secretKey")); err != nil {
		t.Fatalf("harness: golden secretKey: %v", err)
	}
	if err := pk.UnmarshalBinary(rd("publicKey")); err != nil {
		t.Fatalf("harness: golden publicKey: %v", err)
	}
	for pi, ptxt := range []string{"(a:1 or b:2) and not c:3", "a:1"} {
		var pol tkn20.Policy
		if err := pol.FromString(ptxt); err != nil {
			t.Fatalf("harness: %v", err)
		}
		var good, bad tkn20.Attributes
		good.FromMap(map[string]string{"a": "1", "c": "4"})
		bad.FromMap(map[string]string{"a": "2", "b": "1", "c": "4"})
		kGood, err1 := msk.KeyGen(lib.NewRng("c20/conc/k", 2*pi), good)
		kBad, err2 := msk.KeyGen(lib.NewRng("c20/conc/k", 2*pi+1), bad)
		if err1 != nil || err2 != nil {
			t.Fatalf("harness: keygen %v %v", err1, err2)
		}
		const workers, per = 8, 3
		cts := make([][]byte, workers*per)
		errs := make([]error, workers*per)
		for round := 0; round < lib.Scale(2, 10); round++ {
			var wg sync.WaitGroup
			for w := 0; w < workers; w++ {
				w := w
				wg.Add(1)
				go func() {
					defer wg.Done()
					for j := 0; j < per; j++ {
						i := w*per + j
						cts[i], errs[i] = pk.Encrypt(lib.NewRng("c20/conc/enc", round*1000+pi*100+i), pol, []byte{byte(i), 0xAB})
					}
				}()
			}
			wg.Wait()
			lib.CountN("concurrent:encryptions", workers*per)
			var reported int32
			for w := 0; w < workers; w++ {
				w := w
				wg.Add(1)
				go func() {
					defer wg.Done()
					for j := 0; j < per; j++ {
						i := w*per + j
						if errs[i] != nil {
							if atomic.CompareAndSwapInt32(&reported, 0, 1) {
								lib.Violation("C20:encrypt-error:PublicKey.Encrypt:concurrent", cmon, lib.D("policy", ptxt, "err", errs[i]))
							}
							continue
						}
						pt, err := kGood.Decrypt(cts[i])
						_, errB := kBad.Decrypt(cts[i])
						okS := good.CouldDecrypt(cts[i])
						if (err != nil || !lib.Eq(pt, []byte{byte(i), 0xAB}) || errB == nil || !okS) && atomic.CompareAndSwapInt32(&reported, 0, 1) {
							lib.Violation("C20:rejects-satisfied:AttributeKey.Decrypt:ciphertext-made-while-other-goroutines-encrypt", cmon,
								lib.D("policy", ptxt, "goroutines", workers, "err", err, "unsatisfying_key_decrypts", errB == nil, "could_decrypt", okS, "ct", cts[i]))
						}
					}
				}()
			}
			wg.Wait()
			lib.CountN("concurrent:decryptions", workers*per)
			lib.CaseS("concurrent", ptxt, string(rune('0'+round)))
		}
	}
}

func toAttrs(a abepol.Assign) tkn20.Attributes {
	var at tkn20.Attributes
	at.FromMap(map[string]string(a))
	return at
}

// sourceLabels: string literals of the non-test sources of the given packages
// of the tree under test that have the shape of an attribute label (3..64
// octets, no blanks, no format verbs, no colon).
func sourceLabels(rels ...string) []string {
	root := os.Getenv("VERIF_REPO")
	if root == "" {
		root = "/repo"
	}
	seen := map[string]bool{}
	var out []string
	for _, rel := range rels {
		files, _ := filepath.Glob(filepath.Join(root, rel, "*.go"))
		for _, f := range files {
			if strings.HasSuffix(f, "_test.go") {
				continue
			}
			src, err := os.ReadFile(f)
			if err != nil {
				continue
			}
			var sc scanner.Scanner
			fs := token.NewFileSet()
			sc.Init(fs.AddFile(f, fs.Base(), len(src)), src, nil, 0)
			for {
				_, tok, lit := sc.Scan()
				if tok == token.EOF {
					break
				}
				if tok != token.STRING {
					continue
				}
				v, err := strconv.Unquote(lit)
				if err != nil || len(v) < 3 || len(v) > 64 || strings.ContainsAny(v, " \t\n%:()/.") || seen[v] {
					continue
				}
				seen[v] = true
				out = append(out, v)
			}
		}
	}
	sort.Strings(out)
	return out
}
