//go:build verif

package c17

import (
	"sync"
	"sync/atomic"
	"testing"

	"github.com/cloudflare/circl/group"
	"github.com/cloudflare/circl/internal/zzverif/lib"
	"github.com/cloudflare/circl/secretsharing"
)

// TestVerifSSConcurrentDealer: "every qualified share set recovers the
// secret" also when the shares are dealt to several parties at the same time:
// one SecretSharing value (threshold 12, so that an evaluation takes a while)
// deals shares for distinct identifiers from 8 goroutines; every share must
// equal the one dealt sequentially for that identifier, verify against the
// commitment, and any t+1 of them recover the secret.
func TestVerifSSConcurrentDealer(t *testing.T) {
	const mon = "TestVerifSSConcurrentDealer"
	const G, T, perG = 8, 12, 24
	lib.Mandatory("ss-concurrent:shares")
	for _, g := range []group.Group{group.P256, group.Ristretto255} {
		name := g.(interface{ String() string }).String()
		for round := 0; round < lib.Scale(3, 30); round++ {
			r := lib.NewRng("c17/ss-conc/"+name, round)
			secret := g.RandomScalar(r)
			secb, _ := secret.MarshalBinary()
			ss := secretsharing.New(lib.NewRng("c17/ss-conc/poly/"+name, round), T, secret)
			com := ss.CommitSecret()
			// sequential reference
			want := make([][]byte, G*perG)
			for i := range want {
				sh := ss.ShareWithID(g.NewScalar().SetUint64(uint64(i + 1)))
				want[i], _ = sh.Value.MarshalBinary()
			}
			got := make([]secretsharing.Share, G*perG)
			var wg sync.WaitGroup
			start := make(chan struct{})
			for w := 0; w < G; w++ {
				wg.Add(1)
				go func(w int) {
					defer wg.Done()
					<-start
					for j := 0; j < perG; j++ {
						i := w*perG + j
						got[i] = ss.ShareWithID(g.NewScalar().SetUint64(uint64(i + 1)))
					}
				}(w)
			}
			close(start)
			wg.Wait()
			lib.CaseS("ss-concurrent", name, string(rune('0'+round%10)))
			var bad int32
			for i := range got {
				b, _ := got[i].Value.MarshalBinary()
				lib.Count("ss-concurrent:shares")
				if !lib.Eq(b, want[i]) || !secretsharing.Verify(T, got[i], com) {
					atomic.AddInt32(&bad, 1)
				}
			}
			rec, err := secretsharing.Recover(T, got[5:5+T+1])
			var rb []byte
			if err == nil {
				rb, _ = rec.MarshalBinary()
			}
			if bad > 0 || err != nil || !lib.Eq(rb, secb) {
				lib.Violation("C17:qualified-set-wrong-secret:secretsharing:dealt-concurrently", mon,
					lib.D("group", name, "threshold", T, "goroutines", G, "shares_differing_from_sequential_dealing", bad, "recover_err", err, "recovered_ok", lib.Eq(rb, secb)))
				return
			}
		}
	}
}
