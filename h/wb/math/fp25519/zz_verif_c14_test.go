//go:build verif

package fp25519

import (
	"testing"

	"github.com/cloudflare/circl/internal/zzverif/lib"
)

// TestVerifC14DispatchFlag records which multiplication back-end this
// process really dispatches to (evidence for C14: the configurations of the
// transcript program took different paths) and checks that the flag is what
// the configuration name promises - a mismatch would mean the transcripts of
// two "different" configurations came from the same code.
func TestVerifC14DispatchFlag(t *testing.T) {
	backend := vc14Backend()
	lib.Flag("fp25519.backend", backend)
	lib.CaseS("fp25519.backend", lib.Cfg(), backend)
	lib.Count("c14/flag/fp25519.backend=" + backend)
	want := map[string]string{
		"default": "asm-bmi2adx", "noavx2": "asm-bmi2adx",
		"nobmi2": "asm-legacy", "noadx": "asm-legacy", "alloff": "asm-legacy",
		"purego": "generic",
	}[lib.Cfg()]
	if want != "" && want != backend {
		// harness self-check, not a property violation
		t.Fatalf("configuration %s runs fp25519 back-end %s, expected %s (CPU without BMI2/ADX?)", lib.Cfg(), backend, want)
	}
	// one multiplication so the journal / counters show the path was live
	var x, y, z Elt
	x[0], y[0] = 3, 5
	Mul(&z, &x, &y)
	if z[0] != 15 {
		t.Fatalf("3*5 = %v", z)
	}
}
