//go:build verif

// C12 white-box monitor of Kyber's Z_q helpers (q = 3329): exhaustive over the
// domains stated in their comments, against plain integer arithmetic.
package common

import (
	"testing"

	"github.com/cloudflare/circl/internal/zzverif/lib"
)

const vc12Mon = "TestVerifC12KyberField"

func vc12Viol(key string, kv ...any) { lib.Violation("C12:"+key, vc12Mon, lib.D(kv...)) }

func vc12Mod(x int64, q int64) int64 { x %= q; if x < 0 { x += q }; return x }

func TestVerifC12KyberField(t *testing.T) {
	const q = 3329
	if Q != q {
		t.Fatal("kyber: Q is not 3329")
	}
	lib.Mandatory("kyber:montReduce", "kyber:toMont", "kyber:barrettReduce", "kyber:barrettReduce:returns-q", "kyber:csubq", "kyber:montReduce:negative-result")
	// 2^16 * rinv = 1 mod q
	rinv := int64(0)
	for k := int64(1); k < q; k++ {
		if (k<<16)%q == 1 {
			rinv = k
		}
	}
	// montReduce: all -2^15 q <= x < 2^15 q  ->  -q < y < q, y = x 2^-16 mod q
	lo, hi := -(int64(q) << 15), int64(q)<<15
	span := int(hi - lo)
	const parts = 256
	lib.Par(parts, func(k int) {
		neg := 0
		bad := 0
		for x := lo + int64(k)*int64(span)/parts; x < lo+int64(k+1)*int64(span)/parts; x++ {
			y := int64(montReduce(int32(x)))
			if y < 0 {
				neg++
			}
			if y <= -q || y >= q || vc12Mod(y, q) != vc12Mod(x%q*rinv, q) {
				if bad < 3 {
					vc12Viol("wrong-residue:kyber.montReduce", "x", x, "got", y)
				}
				bad++
			}
		}
		lib.CountN("kyber:montReduce", int(int64(k+1)*int64(span)/parts-int64(k)*int64(span)/parts))
		lib.CountN("kyber:montReduce:negative-result", neg)
		lib.CountN("evaluations", span/parts)
	})
	lib.DistinctS("kyber.montReduce", "exhaustive [-2^15 q, 2^15 q)")
	// toMont, barrettReduce: every int16; csubq: every x >= -29439
	retq := 0
	for xi := -32768; xi <= 32767; xi++ {
		x := int16(xi)
		y := int64(toMont(x))
		if y <= -q || y >= q || vc12Mod(y, q) != vc12Mod(int64(xi)<<16, q) {
			vc12Viol("wrong-residue:kyber.toMont", "x", xi, "got", y)
		}
		lib.Count("kyber:toMont")
		b := int64(barrettReduce(x))
		wantQ := xi < 0 && xi%q == 0 // documented: q is returned exactly for negative multiples of q
		switch {
		case b < 0 || b > q || vc12Mod(b, q) != vc12Mod(int64(xi), q):
			vc12Viol("wrong-residue:kyber.barrettReduce", "x", xi, "got", b)
		case (b == q) != wantQ:
			vc12Viol("doc-mismatch:kyber.barrettReduce-returns-q", "x", xi, "got", b)
		}
		if b == q {
			retq++
		}
		lib.Count("kyber:barrettReduce")
		if xi >= -29439 {
			g := int64(csubq(x))
			w := int64(xi)
			if w >= q {
				w -= q
			}
			if g != w {
				vc12Viol("wrong-value:kyber.csubq", "x", xi, "got", g, "want", w)
			}
			lib.Count("kyber:csubq")
		}
		lib.CountN("evaluations", 3)
	}
	lib.CountN("kyber:barrettReduce:returns-q", retq)
	lib.DistinctS("kyber.toMont/barrettReduce/csubq", "exhaustive int16")
}
