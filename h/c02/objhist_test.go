//go:build verif

package c02

import (
	"encoding"
	"runtime"
	"sync"
	"sync/atomic"
	"testing"

	"github.com/cloudflare/circl/internal/zzverif/lib"
	"github.com/cloudflare/circl/sign"
	"github.com/cloudflare/circl/sign/bls"
	"github.com/cloudflare/circl/sign/schemes"
)

// TestVerifObjectHistories: key objects that are related (a private key and
// the public key objects handed out with it or by its Public()) are put
// through histories in which one of them is re-used as the receiver of
// UnmarshalBinary for another key.  Afterwards every *other* object must
// still be the key it was: same encoding, honest signatures verify under the
// matching key and only under it, deterministic signatures unchanged.
func TestVerifObjectHistories(t *testing.T) {
	lib.Mandatory("objhist:cases", "objhist:pk-reloaded", "objhist:sk-reloaded")
	n := lib.Scale(3, 40)
	for _, s := range schemes.All() {
		for i := 0; i < n; i++ {
			objHistory(s, i)
		}
	}
}

func objHistory(s sign.Scheme, i int) {
	name := s.Name()
	r := lib.NewRng("c02/objhist/"+name, i)
	seedA, seedB := r.Bytes(s.SeedSize()), r.Bytes(s.SeedSize())
	msg := r.Bytes(1 + r.Intn(48))
	lib.Case([]byte("objhist"), []byte(name), seedA, seedB, msg)
	lib.Count("objhist:cases")
	var opts *sign.SignatureOpts
	bad := func(class string, kv ...any) {
		d := lib.D(kv...)
		d["scheme"] = name
		d["seedA"] = lib.Hex(seedA)
		d["seedB"] = lib.Hex(seedB)
		d["msg"] = lib.Hex(msg)
		lib.Violation("C02:"+class+":"+name, "TestVerifObjectHistories", d)
	}
	if p := lib.Try("objhist:"+name, seedA, func() {
		pkB, skB := s.DeriveKey(seedB)
		encPkB, _ := pkB.MarshalBinary()
		encSkB, _ := skB.MarshalBinary()
		sigB := s.Sign(skB, msg, opts)

		for variant := 0; variant < 4; variant++ {
			pkA, skA := s.DeriveKey(seedA)
			encPkA, _ := pkA.MarshalBinary()
			encSkA, _ := skA.MarshalBinary()
			sigA1 := s.Sign(skA, msg, opts)
			sigA2 := s.Sign(skA, msg, opts)
			deterministic := lib.Eq(sigA1, sigA2)
			pubA, _ := skA.Public().(sign.PublicKey)
			freshA, err := s.UnmarshalBinaryPublicKey(lib.Clone(encPkA))
			if err != nil {
				bad("honest-rejected:own-public-key-refused", "err", err)
				return
			}
			switch variant {
			case 0, 1:
				// reload one of the public key objects that came with skA
				obj := pkA
				if variant == 1 {
					obj = pubA
				}
				u, ok := obj.(encoding.BinaryUnmarshaler)
				if !ok || obj == nil {
					continue
				}
				if err := u.UnmarshalBinary(lib.Clone(encPkB)); err != nil {
					bad("honest-rejected:reload-public-key-refused", "err", err)
					continue
				}
				lib.Count("objhist:pk-reloaded")
				// the reloaded object is key B now
				if e, _ := obj.MarshalBinary(); !lib.Eq(e, encPkB) {
					bad("key-object-corrupted:reloaded-public-key-encoding", "variant", variant)
				}
				if !s.Verify(obj, msg, sigB, nil) {
					bad("honest-rejected:reloaded-public-key", "variant", variant)
				}
				if s.Verify(obj, msg, sigA1, nil) {
					bad("accept-altered:reloaded-public-key-accepts-old-key", "variant", variant)
				}
				// ... and the private key it came with is still key A
				if e, _ := skA.MarshalBinary(); !lib.Eq(e, encSkA) {
					bad("key-object-corrupted:private-key-encoding-after-public-reload", "variant", variant)
				}
				if p2, ok := skA.Public().(sign.PublicKey); ok && variant == 0 {
					if e, _ := p2.MarshalBinary(); !lib.Eq(e, encPkA) {
						bad("key-object-corrupted:Public()-after-public-reload", "variant", variant)
					}
				}
				sigA3 := s.Sign(skA, msg, opts)
				if deterministic && !lib.Eq(sigA3, sigA1) {
					bad("key-object-corrupted:signature-changes-after-public-reload", "variant", variant)
				}
				if !s.Verify(freshA, msg, sigA3, nil) {
					bad("honest-rejected:private-key-after-public-reload", "variant", variant)
				}
			case 2, 3:
				// reload the private key object; the public key objects handed
				// out before are still key A
				u, ok := skA.(encoding.BinaryUnmarshaler)
				if !ok {
					continue
				}
				if err := u.UnmarshalBinary(lib.Clone(encSkB)); err != nil {
					bad("honest-rejected:reload-private-key-refused", "err", err)
					continue
				}
				lib.Count("objhist:sk-reloaded")
				if variant == 3 {
					_ = s.Sign(skA, msg, opts) // use it as key B first
				}
				for which, obj := range []sign.PublicKey{pkA, pubA} {
					if obj == nil {
						continue
					}
					if e, _ := obj.MarshalBinary(); !lib.Eq(e, encPkA) {
						bad("key-object-corrupted:public-key-encoding-after-private-reload", "variant", variant, "which", which)
					}
					if !s.Verify(obj, msg, sigA1, nil) {
						bad("honest-rejected:public-key-after-private-reload", "variant", variant, "which", which)
					}
					if s.Verify(obj, msg, sigB, nil) {
						bad("accept-altered:public-key-after-private-reload-accepts-new-key", "variant", variant, "which", which)
					}
				}
				sig := s.Sign(skA, msg, opts)
				if !s.Verify(pkB, msg, sig, nil) {
					bad("honest-rejected:reloaded-private-key", "variant", variant)
				}
				if p2, ok := skA.Public().(sign.PublicKey); ok {
					if e, _ := p2.MarshalBinary(); !lib.Eq(e, encPkB) {
						bad("key-object-corrupted:Public()-of-reloaded-private-key", "variant", variant)
					}
				}
			}
			lib.Eval()
		}
	}); p != nil {
		bad("panic:object-history", "panic", p.Value)
	}
}

// TestVerifFirstUseConcurrent: the first uses of a freshly unmarshalled
// private key are released from several goroutines at once.  Every public
// key obtained must be the matching one and every signature must verify
// under it.  (Values only; the race-detector oracle over this workload is
// C11's.)
func TestVerifFirstUseConcurrent(t *testing.T) {
	lib.Mandatory("first-use:rounds", "first-use:rounds-with-overlap")
	for _, s := range schemes.All() {
		firstUseScheme(s)
	}
	firstUseBLS[bls.G1]("bls-G1")
	firstUseBLS[bls.G2]("bls-G2")
}

const fuG = 8

// release runs f(0..fuG-1) concurrently behind a barrier and reports whether
// at least two calls were in flight together.
func release(f func(g int)) {
	var wg sync.WaitGroup
	var ready, inflight, high int32
	start := make(chan struct{})
	for g := 0; g < fuG; g++ {
		wg.Add(1)
		go func(g int) {
			defer wg.Done()
			atomic.AddInt32(&ready, 1)
			<-start
			n := atomic.AddInt32(&inflight, 1)
			for {
				h := atomic.LoadInt32(&high)
				if n <= h || atomic.CompareAndSwapInt32(&high, h, n) {
					break
				}
			}
			f(g)
			atomic.AddInt32(&inflight, -1)
		}(g)
	}
	for atomic.LoadInt32(&ready) < fuG {
		runtime.Gosched()
	}
	close(start)
	wg.Wait()
	lib.Count("first-use:rounds")
	lib.CountN("evaluations", fuG)
	if high >= 2 {
		lib.Count("first-use:rounds-with-overlap")
	}
}

func firstUseScheme(s sign.Scheme) {
	name := s.Name()
	rounds := lib.Scale(40, 600)
	r := lib.NewRng("c02/firstuse/"+name, 0)
	pk, sk := s.DeriveKey(r.Bytes(s.SeedSize()))
	encPk, _ := pk.MarshalBinary()
	encSk, _ := sk.MarshalBinary()
	msg := r.Bytes(33)
	lib.CaseS("first-use", name)
	for it := 0; it < rounds; it++ {
		skU, err := s.UnmarshalBinaryPrivateKey(lib.Clone(encSk))
		pkU, err2 := s.UnmarshalBinaryPublicKey(lib.Clone(encPk))
		if err != nil || err2 != nil {
			lib.Violation("C02:honest-rejected:own-key-refused:"+name, "TestVerifFirstUseConcurrent", lib.D("err", err, "err2", err2))
			return
		}
		var pubs, sigs [fuG][]byte
		var oks [fuG]bool
		release(func(g int) {
			if p := lib.Try("first-use:"+name, encSk, func() {
				if g%2 == 0 {
					if p, ok := skU.Public().(sign.PublicKey); ok {
						pubs[g], _ = p.MarshalBinary()
					}
					sigs[g] = s.Sign(skU, msg, nil)
				} else {
					sigs[g] = s.Sign(skU, msg, nil)
					if p, ok := skU.Public().(sign.PublicKey); ok {
						pubs[g], _ = p.MarshalBinary()
					}
				}
				oks[g] = s.Verify(pkU, msg, sigs[g], nil)
			}); p != nil {
				lib.Violation("C02:panic:concurrent-first-use:"+name, "TestVerifFirstUseConcurrent", lib.D("panic", p.Value))
			}
		})
		for g := 0; g < fuG; g++ {
			if pubs[g] != nil && !lib.Eq(pubs[g], encPk) {
				lib.Violation("C02:key-object-corrupted:concurrent-first-use-wrong-public-key:"+name, "TestVerifFirstUseConcurrent",
					lib.D("round", it, "goroutine", g, "got", pubs[g]))
				return
			}
			if !oks[g] || !s.Verify(pk, msg, sigs[g], nil) {
				lib.Violation("C02:honest-rejected:concurrent-first-use:"+name, "TestVerifFirstUseConcurrent",
					lib.D("round", it, "goroutine", g, "sig", sigs[g]))
				return
			}
		}
	}
}

func firstUseBLS[K bls.KeyGroup](name string) {
	rounds := lib.Scale(40, 600)
	r := lib.NewRng("c02/firstuse/"+name, 0)
	k0, _ := bls.KeyGen[K](r.Bytes(32), nil, nil)
	encSk, _ := k0.MarshalBinary()
	encPk, _ := k0.PublicKey().MarshalBinary()
	msg := r.Bytes(33)
	lib.CaseS("first-use", name)
	for it := 0; it < rounds; it++ {
		sk := new(bls.PrivateKey[K])
		if err := sk.UnmarshalBinary(lib.Clone(encSk)); err != nil {
			lib.Violation("C02:honest-rejected:own-key-refused:"+name, "TestVerifFirstUseConcurrent", lib.D("err", err))
			return
		}
		var pubs [fuG][]byte
		var oks [fuG]bool
		release(func(g int) {
			if p := lib.Try("first-use:"+name, encSk, func() {
				pub := sk.PublicKey()
				if g%2 == 1 {
					if p2, ok := sk.Public().(*bls.PublicKey[K]); ok {
						pub = p2
					}
				}
				pubs[g], _ = pub.MarshalBinary()
				oks[g] = bls.Verify(pub, msg, bls.Sign(sk, msg))
			}); p != nil {
				lib.Violation("C02:panic:concurrent-first-use:"+name, "TestVerifFirstUseConcurrent", lib.D("panic", p.Value))
			}
		})
		for g := 0; g < fuG; g++ {
			if !lib.Eq(pubs[g], encPk) {
				lib.Violation("C02:key-object-corrupted:concurrent-first-use-wrong-public-key:"+name, "TestVerifFirstUseConcurrent",
					lib.D("round", it, "goroutine", g, "got", pubs[g]))
				return
			}
			if !oks[g] {
				lib.Violation("C02:honest-rejected:concurrent-first-use:"+name, "TestVerifFirstUseConcurrent", lib.D("round", it, "goroutine", g))
				return
			}
		}
	}
}
