//go:build verif

package goldilocks

import (
	"testing"

	"github.com/cloudflare/circl/internal/zzverif/lib"
)

func TestMain(m *testing.M) { lib.Main(m) }
