//go:build verif

package c15

import (
	"fmt"
	"testing"
	"unsafe"

	"github.com/cloudflare/circl/internal/sha3"
	"github.com/cloudflare/circl/internal/zzverif/lib"
	"github.com/cloudflare/circl/internal/zzverif/ref/keccak"
	"github.com/cloudflare/circl/simd/keccakf1600"
)

const permCanary = 0xC0DEC0DEC0DEC0DE

// setCanaries fills every word of backing that is neither part of the
// permutation state a[off:off+nState] nor one of the struct's two bookkeeping
// words (offset, turbo - right after the nA-word array) with a canary.
func setCanaries(backing []uint64, idx, nA, off, nState int) []int {
	var ix []int
	for k := range backing {
		rel := k - idx
		if rel >= off && rel < off+nState {
			continue
		}
		if rel == nA || rel == nA+1 {
			continue
		}
		backing[k] = permCanary
		ix = append(ix, k)
	}
	return ix
}

func canariesIntact(backing []uint64, ix []int) bool {
	for _, k := range ix {
		if backing[k] != permCanary {
			return false
		}
	}
	return true
}

// structured lane values for permutation states
func permLane(r *lib.Rng, mode int) uint64 {
	switch mode {
	case 0:
		return 0
	case 1:
		return ^uint64(0)
	case 2:
		return r.EdgeLimb(0)
	case 3:
		return uint64(1) << uint(r.Intn(64))
	default:
		return r.U64()
	}
}

// TestVerifPermute: the 2- and 4-way Keccak permutations equal the scalar
// reference on each lane (turbo = 12 rounds and full), and so does the scalar
// sha3.KeccakF1600 they fall back to.
func TestVerifPermute(t *testing.T) {
	const mon = "TestVerifPermute"
	lib.Flag("keccakf1600.IsEnabledX4", keccakf1600.IsEnabledX4())
	lib.Flag("keccakf1600.IsEnabledX2", keccakf1600.IsEnabledX2())
	simd := keccakf1600.IsEnabledX4() && lib.Cfg() != "purego"
	lib.Flag("x4-uses-avx2", simd)
	lib.Mandatory("permute:x4", "permute:x2", "permute:scalar", "permute:x4:turbo", "permute:x4:full",
		"permute:x4:align=0", "permute:x4:align=1", "permute:x4:align=2", "permute:x4:align=3",
		"permute:x2:align=0", "permute:x2:align=1", "permute:x2:align=2", "permute:x2:align=3",
		"permute:x4:single-lane-differs", "permute:x4:repeated", "permute:x4:canaries-set")
	if simd {
		lib.Mandatory("permute:x4:avx2")
	} else {
		lib.Mandatory("permute:x4:scalar-fallback")
	}
	n := scale(20000, 400000)
	lib.Par(n, func(i int) {
		r := lib.NewRng("c15/permute", i)
		turbo := i%2 == 0
		nr := 24
		if turbo {
			nr = 12
		}
		reps := 1 + (i/8)%3
		mode := r.Intn(6)
		// ---- scalar
		{
			var a, b [25]uint64
			for j := range a {
				a[j] = permLane(r, mode)
				if mode == 5 && j != i%25 {
					a[j] = 0
				}
			}
			b = a
			in := a
			p := lib.Try("sha3.KeccakF1600", nil, func() { sha3.KeccakF1600(&a, turbo) })
			keccak.KeccakP(&b, nr)
			lib.Eval()
			lib.Count("permute:scalar")
			if p != nil || a != b {
				lib.Violation("C15:wrong-permutation:sha3.KeccakF1600", mon, lib.D("turbo", turbo, "in", fmt.Sprintf("%016x", in), "got", fmt.Sprintf("%016x", a), "want", fmt.Sprintf("%016x", b)))
			}
		}
		// ---- x4, at each 8-byte alignment modulo 32
		{
			align := (i / 2) % 4
			backing := make([]uint64, 140)
			base := uintptr(unsafe.Pointer(&backing[0]))
			idx := 0
			for (int((base+uintptr(8*idx))&31) >> 3) != align {
				idx++
			}
			st := (*keccakf1600.StateX4)(unsafe.Pointer(&backing[idx]))
			if unsafe.Sizeof(*st) > uintptr(8*(len(backing)-idx)) {
				panic("StateX4 larger than expected")
			}
			var a []uint64
			if p := lib.Try("keccakf1600.StateX4.Initialize", nil, func() { a = st.Initialize(turbo) }); p != nil || len(a) != 100 {
				lib.Violation("C15:panic:keccakf1600.StateX4.Initialize", mon, lib.D("align", align))
				return
			}
			if uintptr(unsafe.Pointer(&a[0]))&31 != 0 {
				lib.Count("permute:x4:buffer-not-32-byte-aligned")
			}
			off4 := int((uintptr(unsafe.Pointer(&a[0])) - uintptr(unsafe.Pointer(&backing[idx]))) / 8)
			var can4 []int
			if unsafe.Sizeof(*st) == 8*(103+2) {
				can4 = setCanaries(backing, idx, 103, off4, 100)
				lib.Count("permute:x4:canaries-set")
			}
			var lanes [4][25]uint64
			odd := r.Intn(4)
			for l := 0; l < 4; l++ {
				for j := 0; j < 25; j++ {
					v := permLane(r, mode)
					if mode == 5 {
						// only one instance differs from the all-zero state: catches lane mix-ups
						v = 0
						if l == odd {
							v = r.U64()
						}
					}
					lanes[l][j] = v
					a[4*j+l] = v
				}
			}
			if mode == 5 {
				lib.Count("permute:x4:single-lane-differs")
			}
			in := append([]uint64(nil), a...)
			p := lib.Try("keccakf1600.StateX4.Permute", nil, func() {
				for k := 0; k < reps; k++ {
					st.Permute()
				}
			})
			lib.Eval()
			lib.Count("permute:x4")
			lib.Count(fmt.Sprintf("permute:x4:align=%d", align))
			if turbo {
				lib.Count("permute:x4:turbo")
			} else {
				lib.Count("permute:x4:full")
			}
			if reps > 1 {
				lib.Count("permute:x4:repeated")
			}
			if simd {
				lib.Count("permute:x4:avx2")
			} else {
				lib.Count("permute:x4:scalar-fallback")
			}
			if p != nil {
				lib.Violation("C15:panic:keccakf1600.StateX4.Permute", mon, lib.D("align", align, "turbo", turbo, "panic", p.Value))
				return
			}
			if !canariesIntact(backing, can4) || (can4 != nil && backing[idx+103] != uint64(off4)) {
				lib.Violation("C15:out-of-bounds-write:keccakf1600.StateX4.Permute", mon, lib.D("align", align, "turbo", turbo))
			}
			for l := 0; l < 4; l++ {
				for k := 0; k < reps; k++ {
					keccak.KeccakP(&lanes[l], nr)
				}
				for j := 0; j < 25; j++ {
					if a[4*j+l] != lanes[l][j] {
						lib.Violation("C15:wrong-permutation:keccakf1600.StateX4.Permute", mon, lib.D("turbo", turbo, "align", align, "reps", reps, "lane", l, "word", j,
							"in(interleaved)", fmt.Sprintf("%016x", in), "got", fmt.Sprintf("%016x", a[4*j+l]), "want", fmt.Sprintf("%016x", lanes[l][j])))
						return
					}
				}
			}
		}
		// ---- x2
		{
			align := (i / 2) % 4
			backing := make([]uint64, 80)
			base := uintptr(unsafe.Pointer(&backing[0]))
			idx := 0
			for (int((base+uintptr(8*idx))&31) >> 3) != align {
				idx++
			}
			st := (*keccakf1600.StateX2)(unsafe.Pointer(&backing[idx]))
			if unsafe.Sizeof(*st) > uintptr(8*(len(backing)-idx)) {
				panic("StateX2 larger than expected")
			}
			var a []uint64
			if p := lib.Try("keccakf1600.StateX2.Initialize", nil, func() { a = st.Initialize(turbo) }); p != nil || len(a) != 50 {
				lib.Violation("C15:panic:keccakf1600.StateX2.Initialize", mon, lib.D("align", align))
				return
			}
			off2 := int((uintptr(unsafe.Pointer(&a[0])) - uintptr(unsafe.Pointer(&backing[idx]))) / 8)
			var can2 []int
			if unsafe.Sizeof(*st) == 8*(53+2) {
				can2 = setCanaries(backing, idx, 53, off2, 50)
			}
			var lanes [2][25]uint64
			odd := r.Intn(2)
			for l := 0; l < 2; l++ {
				for j := 0; j < 25; j++ {
					v := permLane(r, mode)
					if mode == 5 {
						v = 0
						if l == odd {
							v = r.U64()
						}
					}
					lanes[l][j] = v
					a[2*j+l] = v
				}
			}
			in := append([]uint64(nil), a...)
			p := lib.Try("keccakf1600.StateX2.Permute", nil, func() {
				for k := 0; k < reps; k++ {
					st.Permute()
				}
			})
			lib.Eval()
			lib.Count("permute:x2")
			lib.Count(fmt.Sprintf("permute:x2:align=%d", align))
			if p != nil {
				lib.Violation("C15:panic:keccakf1600.StateX2.Permute", mon, lib.D("align", align, "turbo", turbo, "panic", p.Value))
				return
			}
			if !canariesIntact(backing, can2) || (can2 != nil && backing[idx+53] != uint64(off2)) {
				lib.Violation("C15:out-of-bounds-write:keccakf1600.StateX2.Permute", mon, lib.D("align", align, "turbo", turbo))
			}
			for l := 0; l < 2; l++ {
				for k := 0; k < reps; k++ {
					keccak.KeccakP(&lanes[l], nr)
				}
				for j := 0; j < 25; j++ {
					if a[2*j+l] != lanes[l][j] {
						lib.Violation("C15:wrong-permutation:keccakf1600.StateX2.Permute", mon, lib.D("turbo", turbo, "align", align, "reps", reps, "lane", l, "word", j,
							"in(interleaved)", fmt.Sprintf("%016x", in), "got", fmt.Sprintf("%016x", a[2*j+l]), "want", fmt.Sprintf("%016x", lanes[l][j])))
						return
					}
				}
			}
		}
	})
}
