#!/bin/bash
# usage: seedbatch.sh CNN [extra checks comma separated] [base dir, default /tmp/seeds]
# evaluates <base>/seed-cNN-* that have no eval.json yet and prints a summary line per seed
id=$1; low=$(echo $id | tr A-Z a-z); extra=$2; base=${3:-/tmp/seeds}
for d in $base/seed-$low-*; do
  [ -f $d/meta.json ] || continue
  [ -f $d/eval.json ] && [ -z "$FORCE" ] && continue
  checks=$id; [ -n "$extra" ] && checks=$id,$extra
  python3 /verif/tools/seedeval.py $d --checks $checks > $d/eval.out 2>&1
  python3 - "$d" <<'P'
import json,sys
try:
    e=json.load(open(sys.argv[1]+'/eval.json'))
    print(e['seed'],'demo_valid=',e.get('demo_valid'),' '.join('%s:%s(%d keys) %s'%(c,'CAUGHT' if v['caught'] else 'missed exit=%d'%v['exit'],v['n_keys'],v['keys'][:3]) for c,v in e['checks'].items()), e.get('error',''))
except Exception as ex:
    print(sys.argv[1],'EVAL ERROR',ex)
P
done
