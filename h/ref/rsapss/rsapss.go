//go:build verif

// Package rsapss is an independent model of RSASSA-PSS (RFC 8017 sections
// 5.2.2, 8.1.2, 9.1, B.2.1) over math/big with an arbitrary-size public
// exponent, of HKDF (RFC 5869) over crypto/hmac, and of the public-key
// augmentation of draft-amjad-cfrg-partially-blind-rsa.  It shares no code
// with circl.
package rsapss

import (
	"crypto"
	"crypto/hmac"
	"encoding/binary"
	"errors"
	"math/big"
)

// MGF1 (RFC 8017 B.2.1).
func MGF1(h crypto.Hash, seed []byte, n int) []byte {
	var out []byte
	for c := uint32(0); len(out) < n; c++ {
		d := h.New()
		d.Write(seed)
		var cb [4]byte
		binary.BigEndian.PutUint32(cb[:], c)
		d.Write(cb[:])
		out = d.Sum(out)
	}
	return out[:n]
}

func mPrimeHash(h crypto.Hash, mHash, salt []byte) []byte {
	d := h.New()
	d.Write(make([]byte, 8))
	d.Write(mHash)
	d.Write(salt)
	return d.Sum(nil)
}

// Encode is EMSA-PSS-ENCODE (RFC 8017 9.1.1) on an already hashed message.
func Encode(h crypto.Hash, mHash, salt []byte, emBits int) ([]byte, error) {
	hLen := h.Size()
	emLen := (emBits + 7) / 8
	if len(mHash) != hLen {
		return nil, errors.New("rsapss: mHash length")
	}
	if emLen < hLen+len(salt)+2 {
		return nil, errors.New("rsapss: encoding error")
	}
	H := mPrimeHash(h, mHash, salt)
	db := make([]byte, emLen-hLen-1)
	db[len(db)-len(salt)-1] = 0x01
	copy(db[len(db)-len(salt):], salt)
	mask := MGF1(h, H, len(db))
	for i := range db {
		db[i] ^= mask[i]
	}
	db[0] &= byte(0xff >> uint(8*emLen-emBits))
	em := append(db, H...)
	return append(em, 0xbc), nil
}

// SaltAuto makes VerifyEM accept any salt length (the behaviour of
// crypto/rsa.PSSSaltLengthAuto): the salt is what follows the first 0x01.
const SaltAuto = -1 << 30

// VerifyEM is EMSA-PSS-VERIFY (RFC 8017 9.1.2); true = consistent.
func VerifyEM(h crypto.Hash, mHash, em []byte, emBits, sLen int) bool {
	hLen := h.Size()
	emLen := (emBits + 7) / 8
	if len(em) != emLen || len(mHash) != hLen {
		return false
	}
	if sLen != SaltAuto && emLen < hLen+sLen+2 {
		return false
	}
	if emLen < hLen+2 {
		return false
	}
	if em[emLen-1] != 0xbc {
		return false
	}
	maskedDB := em[:emLen-hLen-1]
	H := em[emLen-hLen-1 : emLen-1]
	unused := uint(8*emLen - emBits)
	if unused > 0 && maskedDB[0]>>(8-unused) != 0 {
		return false
	}
	mask := MGF1(h, H, len(maskedDB))
	db := make([]byte, len(maskedDB))
	for i := range db {
		db[i] = maskedDB[i] ^ mask[i]
	}
	db[0] &= byte(0xff >> unused)
	if sLen == SaltAuto {
		i := 0
		for i < len(db) && db[i] == 0 {
			i++
		}
		if i == len(db) || db[i] != 0x01 {
			return false
		}
		sLen = len(db) - i - 1
	}
	ps := emLen - hLen - sLen - 2
	for _, b := range db[:ps] {
		if b != 0 {
			return false
		}
	}
	if db[ps] != 0x01 {
		return false
	}
	salt := db[len(db)-sLen:]
	return hmac.Equal(mPrimeHash(h, mHash, salt), H)
}

// Verify is RSASSA-PSS-VERIFY (RFC 8017 8.1.2) with public key (N, e); the
// signature must have exactly k = ceil(bits(N)/8) octets and represent an
// integer in [0, N-1] (RSAVP1 step 1).
func Verify(h crypto.Hash, N, e *big.Int, mHash, sig []byte, sLen int) bool {
	k := (N.BitLen() + 7) / 8
	if len(sig) != k {
		return false
	}
	s := new(big.Int).SetBytes(sig)
	if s.Cmp(N) >= 0 {
		return false
	}
	m := new(big.Int).Exp(s, e, N)
	emBits := N.BitLen() - 1
	emLen := (emBits + 7) / 8
	if m.BitLen() > 8*emLen {
		return false
	}
	return VerifyEM(h, mHash, m.FillBytes(make([]byte, emLen)), emBits, sLen)
}

// SignEM is RSASP1 on an encoded message followed by I2OSP: EM^d mod N as k octets.
func SignEM(N, d *big.Int, em []byte) []byte {
	k := (N.BitLen() + 7) / 8
	s := new(big.Int).Exp(new(big.Int).SetBytes(em), d, N)
	return s.FillBytes(make([]byte, k))
}

// HKDF (RFC 5869): extract-then-expand, n output octets.
func HKDF(h crypto.Hash, secret, salt, info []byte, n int) []byte {
	if len(salt) == 0 {
		salt = make([]byte, h.Size())
	}
	ext := hmac.New(h.New, salt)
	ext.Write(secret)
	prk := ext.Sum(nil)
	var out, t []byte
	for c := byte(1); len(out) < n; c++ {
		m := hmac.New(h.New, prk)
		m.Write(t)
		m.Write(info)
		m.Write([]byte{c})
		t = m.Sum(nil)
		out = append(out, t...)
	}
	return out[:n]
}

// AugmentedExponent is the metadata-derived public exponent of the partially
// blind RSA draft (section "Public Key Augmentation"):
//
//	lambda_len = modulus_len / 2, hkdf_len = lambda_len + 16
//	hkdf_input = "key" || info || 0x00, hkdf_salt = int_to_bytes(n, modulus_len)
//	expanded = HKDF(IKM = hkdf_input, salt = hkdf_salt, info = "PBRSA", L = hkdf_len)
//	first lambda_len octets, top two bits cleared, lowest bit set.
func AugmentedExponent(h crypto.Hash, N *big.Int, info []byte) *big.Int {
	modLen := (N.BitLen() + 7) / 8
	lambdaBits := N.BitLen() / 2
	lambdaLen := lambdaBits / 8
	ikm := append(append([]byte("key"), info...), 0)
	salt := N.FillBytes(make([]byte, modLen))
	okm := HKDF(h, ikm, salt, []byte("PBRSA"), (lambdaBits+128)/8)
	b := append([]byte(nil), okm[:lambdaLen]...)
	b[0] &= 0x3f
	b[lambdaLen-1] |= 0x01
	return new(big.Int).SetBytes(b)
}

// EncodeMessageMetadata is "msg" || I2OSP(len(info), 4) || info || msg.
func EncodeMessageMetadata(msg, info []byte) []byte {
	out := []byte("msg")
	var l [4]byte
	binary.BigEndian.PutUint32(l[:], uint32(len(info)))
	out = append(out, l[:]...)
	out = append(out, info...)
	return append(out, msg...)
}
