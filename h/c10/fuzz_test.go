//go:build verif

package c10

// Coverage-guided tier (thorough only): Go's native fuzzing engine drives the
// same registry.  One fuzz target; the first argument selects the entry point,
// the second is the byte string.  The corpus starts from the encoders' outputs.
// A panic is NOT recovered here: the engine records the input, minimises it and
// writes it to testdata/fuzz/FuzzVerifC10/ under the working directory, from
// where vcheck picks it up, re-runs it and reports it under the entry's name.

import (
	"encoding/json"
	"os"
	"path/filepath"
	"sort"
	"sync"
	"testing"
)

func fuzzEntries() []entry {
	var groups []string
	for g := range registry {
		groups = append(groups, g)
	}
	sort.Strings(groups)
	var all []entry
	for _, g := range groups {
		all = append(all, registry[g]...)
	}
	return all
}

var fuzzSerial sync.Mutex

func FuzzVerifC10(f *testing.F) {
	all := fuzzEntries()
	names := make([]string, len(all))
	for i, e := range all {
		names[i] = e.name
		for k, s := range e.seeds {
			if k < 2 {
				f.Add(uint16(i), s)
			}
		}
	}
	if dir := os.Getenv("VERIF_OUT"); dir != "" {
		b, _ := json.Marshal(names)
		_ = os.WriteFile(filepath.Join(dir, "fuzz-entries.json"), b, 0o644)
	}
	f.Fuzz(func(t *testing.T, sel uint16, data []byte) {
		e := all[int(sel)%len(all)]
		if e.fixed > 0 && len(data) != e.fixed {
			return
		}
		if len(data) > 1<<16 {
			return
		}
		if e.serial {
			fuzzSerial.Lock()
			defer fuzzSerial.Unlock()
		}
		e.f(data)
	})
}
