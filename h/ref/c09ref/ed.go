//go:build verif

package c09ref

import "math/big"

// ---------------------------------------------------------------- Ed448 (RFC 8032 5.2)

var (
	Ed448P     = new(big.Int).Sub(new(big.Int).Sub(new(big.Int).Lsh(big1, 448), new(big.Int).Lsh(big1, 224)), big1)
	Ed448Order = new(big.Int).Sub(new(big.Int).Lsh(big1, 446), bi("13818066809895115352007386748515426880336692474882178609894547503885"))
	Ed448F     = NewFld(Ed448P, false)
	Ed448      = &ECurve{F: Ed448F, A: Ed448F.Int(1), D: Ed448F.Int(-39081)}
	Ed448G     = EPt{
		X: Ed448F.FromBig(bi("224580040295924300187604334099896036246789641632564134246125461686950415467406032909029192869357953282578032075146446173674602635247710"), big0),
		Y: Ed448F.FromBig(bi("298819210078481492676017930443930673437544040154080242095928241372331506189835876003536878655418784733982303233503462500531545062832660"), big0),
	}
)

// Ed448Decode is RFC 8032 5.2.3 on a 57-byte string.
func Ed448Decode(in []byte) (EPt, string) {
	if len(in) != 57 {
		return EPt{}, "length"
	}
	if in[56]&0x7F != 0 {
		return EPt{}, "last-byte-low-bits"
	}
	sign := uint(in[56] >> 7)
	y := FromLE(in[:56])
	if y.Cmp(Ed448P) >= 0 {
		return EPt{}, "coordinate-out-of-range"
	}
	f := Ed448F
	ye := El{y, new(big.Int)}
	yy := f.Sqr(ye)
	u := f.Sub(yy, f.One())
	v := f.Sub(f.Mul(Ed448.D, yy), f.One())
	x2 := f.Mul(u, f.Inv(v))
	x, ok := f.Sqrt(x2)
	if !ok {
		return EPt{}, "not-on-curve"
	}
	if x.A.Sign() == 0 && sign == 1 {
		return EPt{}, "x-zero-sign-bit"
	}
	if x.A.Bit(0) != sign {
		x = f.Neg(x)
	}
	return EPt{x, ye}, ""
}

// Ed448Encode is RFC 8032 5.2.2.
func Ed448Encode(p EPt) []byte {
	out := make([]byte, 57)
	copy(out, LE(p.Y.A, 56))
	out[56] = byte(p.X.A.Bit(0)) << 7
	return out
}

// ---------------------------------------------------------------- FourQ

var (
	FourQP = new(big.Int).Sub(new(big.Int).Lsh(big1, 127), big1)
	FourQN = bi("0x0029cbc14e5e0a72f05397829cbc14e5dfbd004dfe0f79992fb2540ec7768ce7")
	FourQF = NewFld(FourQP, true)
	FourQ  = &ECurve{F: FourQF, A: FourQF.Int(-1),
		D: FourQF.FromBig(bi("4205857648805777768770"), bi("125317048443780598345676279555970305165"))}
	FourQG = EPt{
		X: FourQF.FromBig(bi("0x1A3472237C2FB305286592AD7B3833AA"), bi("0x1E1F553F2878AA9C96869FB360AC77F6")),
		Y: FourQF.FromBig(bi("0x0E3FEE9BA120785AB924A2462BCBB287"), bi("0x6E1C4AF8630E024249A7C344844C8B5C")),
	}
	FourQCofactor = big.NewInt(392)
)

// FourQSign is 1 when x is "negative": bit 126 of x0, or of x1 when x0 = 0.
func FourQSign(x El) uint {
	if x.A.Sign() != 0 {
		return x.A.Bit(126)
	}
	return x.B.Bit(126)
}

// FourQDecode is the FourQ point decoding (Costello-Longa, FourQlib): 32
// bytes = y0 (16 bytes LE, bit 127 clear) || y1 (16 bytes LE, bit 127 = sign
// of x); both canonical (< p).
func FourQDecode(in []byte) (EPt, string) {
	if len(in) != 32 {
		return EPt{}, "length"
	}
	if in[15]&0x80 != 0 {
		return EPt{}, "y0-bit-127-set"
	}
	sign := uint(in[31] >> 7)
	y0 := FromLE(in[:16])
	b := append([]byte(nil), in[16:]...)
	b[15] &= 0x7F
	y1 := FromLE(b)
	if y0.Cmp(FourQP) >= 0 || y1.Cmp(FourQP) >= 0 {
		return EPt{}, "coordinate-equals-p"
	}
	f := FourQF
	y := El{y0, y1}
	yy := f.Sqr(y)
	u := f.Sub(yy, f.One())
	v := f.Add(f.Mul(FourQ.D, yy), f.One())
	if f.IsZero(v) {
		return EPt{}, "not-on-curve"
	}
	x, ok := f.Sqrt(f.Mul(u, f.Inv(v)))
	if !ok {
		return EPt{}, "not-on-curve"
	}
	if f.IsZero(x) && sign == 1 {
		return EPt{}, "x-zero-sign-bit"
	}
	if FourQSign(x) != sign {
		x = f.Neg(x)
	}
	return EPt{x, y}, ""
}

func FourQEncode(p EPt) []byte {
	out := append(LE(p.Y.A, 16), LE(p.Y.B, 16)...)
	out[31] |= byte(FourQSign(p.X)) << 7
	return out
}

// FourQShared is Diffie-Hellman with cofactor clearing: [k mod N]([392]P);
// ok is false when the peer key does not decode or the result is the identity.
func FourQShared(secret, public []byte) ([]byte, bool) {
	p, why := FourQDecode(public)
	if why != "" {
		return nil, false
	}
	q := FourQ.Mul(FourQCofactor, p)
	if FourQ.IsIdentity(q) {
		return nil, false
	}
	k := FromLE(secret)
	k.Mod(k, FourQN)
	s := FourQ.Mul(k, q)
	if FourQ.IsIdentity(s) {
		return nil, false
	}
	return FourQEncode(s), true
}
