//go:build verif

package p434

import (
	"testing"

	"github.com/cloudflare/circl/internal/zzverif/lib"
)

func TestMain(m *testing.M) { lib.Main(m) }
