#!/bin/bash
# usage: seedbatch.sh CNN [extra checks comma separated]  -- evaluates /tmp/seeds/seed-cNN-* and prints a summary
id=$1; low=$(echo $id | tr A-Z a-z); extra=$2
for d in /tmp/seeds/seed-$low-*; do
  [ -f $d/meta.json ] || continue
  checks=$id; [ -n "$extra" ] && checks=$id,$extra
  python3 /verif/tools/seedeval.py $d --checks $checks > $d/eval.out 2>&1
  python3 - "$d" <<'P'
import json,sys
try:
    e=json.load(open(sys.argv[1]+'/eval.json'))
    print(e['seed'],'demo_valid=',e.get('demo_valid'),' '.join('%s:%s(%d keys) %s'%(c,'CAUGHT' if v['caught'] else 'missed exit=%d'%v['exit'],v['n_keys'],v['keys'][:3]) for c,v in e['checks'].items()), e.get('error',''))
except Exception as ex:
    print(sys.argv[1],'EVAL ERROR',ex)
P
done
