//go:build verif

// C03 — ML-KEM and Kyber compute exactly the functions of FIPS 203 / Kyber
// round 3.  This file validates the reference model ref/mlkem itself (a
// failing oracle makes the run inconclusive, never "violated").
package c03

import (
	"bytes"
	"compress/gzip"
	"crypto/sha256"
	"encoding/hex"
	"encoding/json"
	"fmt"
	"io"
	"os"
	"testing"

	"github.com/cloudflare/circl/internal/nist"
	"github.com/cloudflare/circl/internal/zzverif/lib"
	ref "github.com/cloudflare/circl/internal/zzverif/ref/mlkem"
)

func TestMain(m *testing.M) { lib.Main(m) }

const repoTestdata = "/repo/kem/mlkem/testdata"

func testdataDir() string {
	if v := os.Getenv("VERIF_REPO"); v != "" {
		// mutant runs: the vectors are not part of what is mutated, but keep
		// reading them from the tree under test if present
		if _, err := os.Stat(v + "/kem/mlkem/testdata"); err == nil {
			return v + "/kem/mlkem/testdata"
		}
	}
	return repoTestdata
}

type hexBytes []byte

func (b *hexBytes) UnmarshalJSON(data []byte) error {
	var s string
	if err := json.Unmarshal(data, &s); err != nil {
		return err
	}
	v, err := hex.DecodeString(s)
	*b = v
	return err
}

func readGz(t *testing.T, path string, v any) {
	raw, err := os.ReadFile(path)
	if err != nil {
		t.Fatal(err)
	}
	zr, err := gzip.NewReader(bytes.NewReader(raw))
	if err != nil {
		t.Fatal(err)
	}
	buf, err := io.ReadAll(zr)
	if err != nil {
		t.Fatal(err)
	}
	if err := json.Unmarshal(buf, v); err != nil {
		t.Fatal(err)
	}
}

func paramsByACVPName(n string) *ref.Params {
	switch n {
	case "ML-KEM-512":
		return ref.P512
	case "ML-KEM-768":
		return ref.P768
	case "ML-KEM-1024":
		return ref.P1024
	}
	return nil
}

// The reference's algebra: Algorithm 9/10 against the defining CRT map,
// MultiplyNTTs against the schoolbook product, Compress/Decompress against
// the rational definition.
func TestVerifSelfCheckRefAlgebra(t *testing.T) {
	// 17 is a primitive 256th root of unity
	if ref.Mod(pow(17, 128)) != ref.Q-1 || ref.Mod(pow(17, 256)) != 1 {
		t.Fatal("zeta is not a primitive 256-th root of unity")
	}
	if 128*3303%ref.Q != 1 {
		t.Fatal("3303 != 128^-1")
	}
	r := lib.NewRng("c03/selfcheck/algebra", 0)
	rnd := func() ref.Poly {
		var f ref.Poly
		for i := range f {
			f[i] = r.Intn(ref.Q)
		}
		return f
	}
	for it := 0; it < 40; it++ {
		f, g := rnd(), rnd()
		if it == 0 {
			f = ref.Poly{}
			f[255] = 1 // X^255
			g = ref.Poly{}
			g[1] = 1 // X : product must be -1
		}
		fh := ref.NTT(f)
		if fh != ref.NTTByDefinition(f) {
			t.Fatal("reference NTT differs from its definition")
		}
		if ref.InvNTT(fh) != f {
			t.Fatal("reference InvNTT is not the inverse of NTT")
		}
		want := ref.MulSchoolbook(f, g)
		if got := ref.InvNTT(ref.MulNTT(fh, ref.NTT(g))); got != want {
			t.Fatal("reference MultiplyNTTs differs from the schoolbook product")
		}
		if it == 0 && (want[0] != ref.Q-1) {
			t.Fatal("X^255 * X != -1")
		}
	}
	// Compress_d(x) = round(2^d x / q) mod 2^d, Decompress_d(y) = round(q y / 2^d),
	// decided with exact rationals: round(a/b) = the unique n with 2|a - n b| <= b, ties up.
	for _, d := range []int{1, 4, 5, 10, 11} {
		for x := 0; x < ref.Q; x++ {
			c := ref.Compress(x, d)
			a, b := x<<uint(d), ref.Q
			n := nearest(a, b)
			if c != n%(1<<uint(d)) {
				t.Fatalf("reference Compress_%d(%d) = %d, want %d", d, x, c, n%(1<<uint(d)))
			}
			// |Decompress(Compress(x)) - x| mod+- q <= round(q/2^(d+1))  (FIPS 203 section 4.2.1)
			y := ref.Decompress(c, d)
			diff := ref.Mod(y - x)
			if diff > ref.Q/2 {
				diff = ref.Q - diff
			}
			if diff > nearest(ref.Q, 1<<uint(d+1)) {
				t.Fatalf("reference Decompress_%d(Compress(%d)) too far", d, x)
			}
		}
		for y := 0; y < 1<<uint(d); y++ {
			if ref.Decompress(y, d) != nearest(ref.Q*y, 1<<uint(d)) {
				t.Fatalf("reference Decompress_%d(%d)", d, y)
			}
			if ref.Compress(ref.Decompress(y, d), d) != y {
				t.Fatalf("reference Compress_%d(Decompress(%d)) != id", d, y)
			}
		}
	}
	// ByteEncode / ByteDecode are inverse
	for _, d := range []int{1, 4, 5, 10, 11, 12} {
		var f ref.Poly
		for i := range f {
			if d == 12 {
				f[i] = r.Intn(ref.Q)
			} else {
				f[i] = r.Intn(1 << uint(d))
			}
		}
		b := ref.ByteEncode(&f, d)
		if len(b) != 32*d || ref.ByteDecode(b, d) != f {
			t.Fatalf("reference ByteEncode_%d/ByteDecode", d)
		}
	}
}

func pow(b, e int) int {
	r := 1
	for i := 0; i < e; i++ {
		r = r * b % ref.Q
	}
	return r
}

// nearest integer to a/b with ties rounded up (a >= 0, b > 0).
func nearest(a, b int) int {
	n := a / b
	if 2*(a-n*b) >= b {
		n++
	}
	return n
}

// NIST ACVP vectors (the files shipped in the repository).
func TestVerifSelfCheckACVP(t *testing.T) {
	dir := testdataDir()
	type group struct {
		TgID         int      `json:"tgId"`
		TestType     string   `json:"testType"`
		ParameterSet string   `json:"parameterSet"`
		Function     string   `json:"function"`
		Dk           hexBytes `json:"dk"`
		Tests        []struct {
			TcID int      `json:"tcId"`
			Z    hexBytes `json:"z"`
			D    hexBytes `json:"d"`
			Ek   hexBytes `json:"ek"`
			M    hexBytes `json:"m"`
			C    hexBytes `json:"c"`
			K    hexBytes `json:"k"`
			Dk   hexBytes `json:"dk"`
		} `json:"tests"`
	}
	type file struct {
		TestGroups []group `json:"testGroups"`
	}
	n := 0
	for _, sub := range []string{"keyGen", "encapDecap"} {
		var prompt, expected file
		readGz(t, dir+"/ML-KEM-"+sub+"-FIPS203/prompt.json.gz", &prompt)
		readGz(t, dir+"/ML-KEM-"+sub+"-FIPS203/expectedResults.json.gz", &expected)
		type res struct{ ek, dk, c, k []byte }
		exp := map[int]res{}
		for _, g := range expected.TestGroups {
			for _, tc := range g.Tests {
				exp[tc.TcID] = res{tc.Ek, tc.Dk, tc.C, tc.K}
			}
		}
		for _, g := range prompt.TestGroups {
			p := paramsByACVPName(g.ParameterSet)
			if p == nil {
				t.Fatalf("unknown parameter set %q", g.ParameterSet)
			}
			for _, tc := range g.Tests {
				e, ok := exp[tc.TcID]
				if !ok {
					t.Fatalf("no expected result for tcId %d", tc.TcID)
				}
				switch {
				case sub == "keyGen" && g.TestType == "AFT":
					ek, dk, _ := p.KeyGen(tc.D, tc.Z)
					if !lib.Eq(ek, e.ek) || !lib.Eq(dk, e.dk) {
						t.Fatalf("reference KeyGen differs from ACVP tcId %d", tc.TcID)
					}
					if !p.CheckEk(ek) || !p.CheckDk(dk) {
						t.Fatalf("reference key checks refuse ACVP key tcId %d", tc.TcID)
					}
				case sub == "encapDecap" && g.TestType == "AFT":
					K, c := p.Encaps(tc.Ek, tc.M)
					if !lib.Eq(K, e.k) || !lib.Eq(c, e.c) {
						t.Fatalf("reference Encaps differs from ACVP tcId %d", tc.TcID)
					}
				case sub == "encapDecap" && g.TestType == "VAL":
					K, _, _ := p.Decaps(g.Dk, tc.C)
					if !lib.Eq(K, e.k) {
						t.Fatalf("reference Decaps differs from ACVP tcId %d", tc.TcID)
					}
				default:
					t.Fatalf("unknown ACVP group type %s/%s", sub, g.TestType)
				}
				n++
			}
		}
	}
	if n < 150 {
		t.Fatalf("only %d ACVP cases", n)
	}
	lib.CountN("selfcheck:acvp-cases", n)
}

// The NIST PQCgenKAT_kem files of the round-3 reference implementation and of
// its "standard" (ML-KEM) branch, regenerated with the reference model (the
// AES-CTR DRBG of internal/nist only supplies the seeds) and compared by
// SHA-256 with the published digests (the constants are those recorded in
// /repo/kem/kyber/kat_test.go, "computed from reference implementation").
func TestVerifSelfCheckKAT(t *testing.T) {
	kats := []struct {
		name string
		p    *ref.Params
		ml   bool
		want string
	}{
		{"Kyber1024", ref.P1024, false, "89248f2f33f7f4f7051729111f3049c409a933ec904aedadf035f30fa5646cd5"},
		{"Kyber768", ref.P768, false, "a1e122cad3c24bc51622e4c242d8b8acbcd3f618fee4220400605ca8f9ea02c2"},
		{"Kyber512", ref.P512, false, "e9c2bd37133fcb40772f81559f14b1f58dccd1c816701be9ba6214d43baf4547"},
		{"Kyber512", ref.P512, true, "a30184edee53b3b009356e1e31d7f9e93ce82550e3c622d7192e387b0cc84f2e"},
		{"Kyber768", ref.P768, true, "729367b590637f4a93c68d5e4a4d2e2b4454842a52c9eec503e3a0d24cb66471"},
		{"Kyber1024", ref.P1024, true, "3fba7327d0320cb6134badf2a1bcb963a5b3c0026c7dece8f00d6a6155e47b33"},
	}
	for _, kat := range kats {
		var seed [48]byte
		for i := range seed {
			seed[i] = byte(i)
		}
		f := sha256.New()
		g := nist.NewDRBG(&seed)
		fmt.Fprintf(f, "# %s\n\n", kat.name)
		for i := 0; i < 100; i++ {
			g.Fill(seed[:])
			fmt.Fprintf(f, "count = %d\n", i)
			fmt.Fprintf(f, "seed = %X\n", seed)
			g2 := nist.NewDRBG(&seed)
			kseed := make([]byte, 64)
			eseed := make([]byte, 32)
			if kat.ml {
				g2.Fill(kseed)
			} else {
				g2.Fill(kseed[:32])
				g2.Fill(kseed[32:])
			}
			g2.Fill(eseed)
			var pk, sk, ct, ss, ss2 []byte
			if kat.ml {
				pk, sk, _ = kat.p.KeyGen(kseed[:32], kseed[32:])
				ss, ct = kat.p.Encaps(pk, eseed)
				ss2, _, _ = kat.p.Decaps(sk, ct)
			} else {
				pk, sk, _ = kat.p.R3KeyGen(kseed[:32], kseed[32:])
				ss, ct = kat.p.R3Encaps(pk, eseed)
				ss2, _, _ = kat.p.R3Decaps(sk, ct)
			}
			if !lib.Eq(ss, ss2) {
				t.Fatalf("reference %s (ml=%v): decapsulation does not invert encapsulation", kat.name, kat.ml)
			}
			fmt.Fprintf(f, "pk = %X\n", pk)
			fmt.Fprintf(f, "sk = %X\n", sk)
			fmt.Fprintf(f, "ct = %X\n", ct)
			fmt.Fprintf(f, "ss = %X\n\n", ss)
		}
		if got := fmt.Sprintf("%x", f.Sum(nil)); got != kat.want {
			t.Fatalf("reference %s (ml=%v): KAT digest %s, want %s", kat.name, kat.ml, got, kat.want)
		}
		lib.Count("selfcheck:kat-files")
	}
}
