//go:build verif

// C20 white-box monitor (compiled into package tkn20): looks at the
// negation normal form and the monotone circuit the policy parser builds,
// treating every leaf as an independent variable (all 2^leaves valuations),
// and at the binary encoding of policies.
package tkn20

import (
	"fmt"
	"testing"

	"github.com/cloudflare/circl/abe/cpabe/tkn20/internal/tkn"
	pairing "github.com/cloudflare/circl/ecc/bls12381"
	"github.com/cloudflare/circl/internal/zzverif/lib"
	"github.com/cloudflare/circl/internal/zzverif/ref/abepol"
)

const vc20Mon = "TestVerifC20PolicyWB"

var vc20Alphabets = []abepol.Alphabet{
	{Labels: []string{"a", "b", "c"}, Values: []string{"x", "y", "z"}},
	{Labels: []string{"and_", "Or", "notary"}, Values: []string{"0", "00", "_"}},
}

// vc20Circuit evaluates the gates as documented in formula.go (n gates, input
// wires 0..n, output wire 2n, every gate sets wire Out from In0, In1) without
// using any circl code.
func vc20Circuit(gates []tkn.Gate, in []bool) (res bool, ok bool) {
	n := len(gates)
	if len(in) != n+1 {
		return false, false
	}
	by := map[int]tkn.Gate{}
	for _, g := range gates {
		if _, dup := by[g.Out]; dup {
			return false, false
		}
		by[g.Out] = g
	}
	depth := 0
	var ev func(w int) bool
	ev = func(w int) bool {
		depth++
		if depth > 10000 {
			ok = false
			return false
		}
		if w >= 0 && w <= n {
			return in[w]
		}
		g, found := by[w]
		if !found {
			ok = false
			return false
		}
		a, b := ev(g.In0), ev(g.In1)
		switch g.Class {
		case tkn.Andgate:
			return a && b
		case tkn.Orgate:
			return a || b
		}
		ok = false
		return false
	}
	ok = true
	res = ev(2 * n)
	return res, ok
}

func vc20One(idx int, maxLeaves int) {
	al := vc20Alphabets[idx%len(vc20Alphabets)]
	node := abepol.Gen(lib.NewRng("c20wb/formula", idx), al, maxLeaves)
	text := abepol.Print(node, lib.NewRng("c20wb/print", idx))
	lits := abepol.Literals(node)
	L := len(lits)
	lib.CaseS("wb", text)
	lib.Count(fmt.Sprintf("wb-leaves-%d", L))

	var pol Policy
	var err error
	if p := lib.Try("tkn20.Policy.FromString", []byte(text), func() { err = pol.FromString(text) }); p != nil {
		lib.Violation("C20:panic:Policy.FromString", vc20Mon, lib.D("policy", text, "panic", p.Value, "frame", p.TopFrame()))
		return
	}
	if err != nil {
		lib.Violation("C20:parse-error:Policy.FromString", vc20Mon, lib.D("policy", text, "err", err))
		return
	}
	tp := &pol.policy

	// 1. negation normal form: wire i is the i-th leaf of the text with the
	// polarity De Morgan gives it
	if len(tp.Inputs) != L || len(tp.F.Gates) != L-1 {
		lib.Violation("C20:nnf-mismatch:dsl.Run:shape", vc20Mon, lib.D("policy", text, "leaves", L, "wires", len(tp.Inputs), "gates", len(tp.F.Gates)))
		return
	}
	for i, w := range tp.Inputs {
		if w.Label != lits[i].Label || w.RawValue != lits[i].Value {
			lib.Violation("C20:nnf-mismatch:dsl.Run:wire-order", vc20Mon, lib.D("policy", text, "wire", i, "expected", lits[i].Label+":"+lits[i].Value, "observed", w.Label+":"+w.RawValue))
			return
		}
		if w.Positive != lits[i].Positive {
			lib.Violation("C20:nnf-mismatch:dsl.Run:leaf-polarity", vc20Mon, lib.D("policy", text, "wire", i, "leaf", w.Label+":"+w.RawValue, "expected_positive", lits[i].Positive, "observed_positive", w.Positive))
			return
		}
		if !lits[i].Positive {
			lib.Count("wb-negated-literal")
		}
	}

	// 2. policy encoding round trip (before Satisfaction reorders the gates)
	enc, err := tp.MarshalBinary()
	if err != nil {
		lib.Violation("C20:roundtrip:tkn.Policy.MarshalBinary", vc20Mon, lib.D("policy", text, "err", err))
	} else {
		var back tkn.Policy
		var uerr error
		if p := lib.Try("tkn.Policy.UnmarshalBinary", enc, func() { uerr = back.UnmarshalBinary(enc) }); p != nil {
			lib.Violation("C20:panic:tkn.Policy.UnmarshalBinary:honest", vc20Mon, lib.D("policy", text, "enc", enc, "panic", p.Value))
		} else if uerr != nil {
			lib.Violation("C20:roundtrip:tkn.Policy.UnmarshalBinary", vc20Mon, lib.D("policy", text, "enc", enc, "err", uerr))
		} else {
			enc2, _ := back.MarshalBinary()
			if !back.Equal(tp) || !tp.Equal(&back) || !lib.Eq(enc, enc2) || back.String() != tp.String() {
				lib.Violation("C20:roundtrip:tkn.Policy.UnmarshalBinary", vc20Mon, lib.D("what", "not equal after round trip", "policy", text, "enc", enc, "printed", back.String()))
			}
			lib.Count("wb-policy-marshal-roundtrip")
		}
	}

	// 3. the circuit, leaves as independent variables.  The wires are
	// relabelled w0, w1, ... so that the attribute set can switch each wire on
	// and off individually through the real matching code.
	rel := tkn.Policy{F: tkn.Formula{Gates: append([]tkn.Gate(nil), tp.F.Gates...)}}
	for i, w := range tp.Inputs {
		w.Label = fmt.Sprintf("w%d", i)
		rel.Inputs = append(rel.Inputs, w)
	}
	one := &pairing.Scalar{}
	one.SetUint64(1)
	gatesAsParsed := append([]tkn.Gate(nil), tp.F.Gates...)
	in := make([]bool, L)
	for bits := uint64(0); bits < 1<<uint(L); bits++ {
		want := abepol.EvalLiterals(node, bits)
		attrs := tkn.Attributes{}
		for i := range rel.Inputs {
			in[i] = bits>>uint(i)&1 == 1
			if !in[i] {
				// half of the switched-off wires: label absent; the other
				// half: label present with the value that does not match
				if (bits+uint64(i))%2 == 0 {
					continue
				}
				v := &pairing.Scalar{}
				v.Set(rel.Inputs[i].Value)
				if rel.Inputs[i].Positive {
					v.Add(v, one)
				}
				attrs[rel.Inputs[i].Label] = tkn.Attribute{Value: v}
				continue
			}
			v := &pairing.Scalar{}
			v.Set(rel.Inputs[i].Value)
			if !rel.Inputs[i].Positive {
				v.Add(v, one)
			}
			attrs[rel.Inputs[i].Label] = tkn.Attribute{Value: v}
		}
		lib.Eval()
		if got, ok := vc20Circuit(gatesAsParsed, in); !ok {
			lib.Violation("C20:nnf-mismatch:dsl.Run:malformed-circuit", vc20Mon, lib.D("policy", text, "gates", fmt.Sprint(gatesAsParsed)))
			return
		} else if got != want {
			lib.Violation("C20:nnf-mismatch:dsl.Run:gates", vc20Mon, lib.D("policy", text, "gates", fmt.Sprint(gatesAsParsed), "leaf_valuation_bits", bits, "expected", want, "observed", got))
			return
		}
		var serr error
		if p := lib.Try("tkn.Policy.Satisfaction", []byte(text), func() { _, serr = rel.Satisfaction(&attrs) }); p != nil {
			lib.Violation("C20:panic:tkn.Policy.Satisfaction", vc20Mon, lib.D("policy", text, "leaf_valuation_bits", bits, "panic", p.Value, "frame", p.TopFrame()))
			return
		}
		if (serr == nil) != want {
			k := "accepts-unsatisfied"
			if want {
				k = "rejects-satisfied"
			}
			lib.Violation("C20:"+k+":tkn.Policy.Satisfaction:independent-leaves", vc20Mon, lib.D("policy", text, "leaf_valuation_bits", bits, "expected", want, "err", serr))
			return
		}
		if want {
			lib.Count("wb-valuation-satisfied")
		} else {
			lib.Count("wb-valuation-unsatisfied")
		}
	}
	// the gates may have been reordered by Satisfaction; the circuit must be the same function
	for bits := uint64(0); bits < 1<<uint(L); bits++ {
		for i := range in {
			in[i] = bits>>uint(i)&1 == 1
		}
		got, ok := vc20Circuit(rel.F.Gates, in)
		if !ok || got != abepol.EvalLiterals(node, bits) {
			lib.Violation("C20:nnf-mismatch:tkn.Formula.toposort:changed-function", vc20Mon, lib.D("policy", text, "before", fmt.Sprint(gatesAsParsed), "after", fmt.Sprint(rel.F.Gates)))
			break
		}
	}
	if fmt.Sprint(gatesAsParsed) != fmt.Sprint(rel.F.Gates) {
		lib.Count("wb-toposort-reordered-gates")
	}
}

func TestVerifC20PolicyWB(t *testing.T) {
	lib.Mandatory("wb-negated-literal", "wb-policy-marshal-roundtrip", "wb-valuation-satisfied", "wb-valuation-unsatisfied",
		"wb-leaves-1", "wb-leaves-7", "wb-leaves-9", "wb-toposort-reordered-gates")
	n := lib.Scale(4000, 150000)
	lib.Par(n, func(i int) {
		max := 7
		if i%4 == 0 {
			max = 9
		}
		vc20One(i, max)
	})
}
