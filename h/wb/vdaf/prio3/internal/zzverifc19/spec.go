//go:build verif

package zzverifc19

import (
	"fmt"
	"math/big"
	"math/bits"
)

// Spec is the harness's own description of one Prio3 instance: how a valid
// measurement is encoded (draft-13 section 7.4), what it contributes to the
// aggregate, and how to read the aggregate circl returns.
type Spec[M, A any] struct {
	Type      string // count | sum | sumvec | histogram | mhcv
	Label     string // parameters, for witnesses
	AlgID     uint32
	F         *Field
	Ctx       []byte
	MeasLen   int
	OutLen    int
	JointRand bool
	Enc       func(M) []*big.Int  // encoding of a valid measurement
	Out       func(M) []*big.Int  // its contribution to the aggregate, as integers
	Agg       func(*A) []*big.Int // aggregate returned by Unshard
	Desc      func(M) string
	Trunc     func(enc []*big.Int) []*big.Int // truncate(encoding) mod p (used for raw encodings)
}

func bi(x uint64) *big.Int { return new(big.Int).SetUint64(x) }

// BitsLE returns the n low bits of x, least significant first.
func BitsLE(x *big.Int, n int) []*big.Int {
	out := make([]*big.Int, n)
	for i := 0; i < n; i++ {
		out[i] = big.NewInt(int64(x.Bit(i)))
	}
	return out
}

// JoinLE is sum 2^i v[i] mod p.
func (f *Field) JoinLE(v []*big.Int) *big.Int {
	acc := new(big.Int)
	for i := len(v) - 1; i >= 0; i-- {
		acc.Lsh(acc, 1)
		acc.Add(acc, v[i])
		acc.Mod(acc, f.P)
	}
	return acc
}

func u64Agg(a *uint64) []*big.Int { return []*big.Int{bi(*a)} }
func vecAgg(a *[]uint64) []*big.Int {
	out := make([]*big.Int, len(*a))
	for i, x := range *a {
		out[i] = bi(x)
	}
	return out
}

func b2i(b bool) int64 {
	if b {
		return 1
	}
	return 0
}

// SpecCount: Prio3Count, Field64, encoding [m].
func SpecCount(ctx []byte) *Spec[bool, uint64] {
	return &Spec[bool, uint64]{
		Type: "count", Label: "count", AlgID: 1, F: F64, Ctx: ctx, MeasLen: 1, OutLen: 1,
		Enc:   func(m bool) []*big.Int { return []*big.Int{big.NewInt(b2i(m))} },
		Out:   func(m bool) []*big.Int { return []*big.Int{big.NewInt(b2i(m))} },
		Agg:   u64Agg,
		Desc:  func(m bool) string { return fmt.Sprint(m) },
		Trunc: func(e []*big.Int) []*big.Int { return e },
	}
}

// SumBits and SumOffset are draft-13 section 7.4.2: bits = bitlen(max),
// offset = 2^bits - 1 - max.
func SumBits(max uint64) int { return bits.Len64(max) }
func SumOffset(max uint64) *big.Int {
	o := new(big.Int).Lsh(big.NewInt(1), uint(SumBits(max)))
	o.Sub(o, big.NewInt(1))
	return o.Sub(o, bi(max))
}

// SpecSum: Prio3Sum, Field64, encoding bits(m) || bits(m + offset).
func SpecSum(max uint64, ctx []byte) *Spec[uint64, uint64] {
	nb := SumBits(max)
	off := SumOffset(max)
	return &Spec[uint64, uint64]{
		Type: "sum", Label: fmt.Sprintf("sum(max=%d)", max), AlgID: 2, F: F64, Ctx: ctx, MeasLen: 2 * nb, OutLen: 1,
		Enc: func(m uint64) []*big.Int {
			e := BitsLE(bi(m), nb)
			return append(e, BitsLE(new(big.Int).Add(bi(m), off), nb)...)
		},
		Out:   func(m uint64) []*big.Int { return []*big.Int{bi(m)} },
		Agg:   u64Agg,
		Desc:  func(m uint64) string { return fmt.Sprint(m) },
		Trunc: func(e []*big.Int) []*big.Int { return []*big.Int{F64.JoinLE(e[:nb])} },
	}
}

// SpecSumVec: Prio3SumVec, Field128, encoding bits(m[0]) || bits(m[1]) ...
func SpecSumVec(length, nbits, chunk uint, ctx []byte) *Spec[[]uint64, []uint64] {
	return &Spec[[]uint64, []uint64]{
		Type: "sumvec", Label: fmt.Sprintf("sumvec(length=%d,bits=%d,chunk=%d)", length, nbits, chunk), AlgID: 3, F: F128, Ctx: ctx,
		MeasLen: int(length * nbits), OutLen: int(length), JointRand: length*nbits > 0, // one joint-randomness element per gadget call
		Enc: func(m []uint64) []*big.Int {
			var e []*big.Int
			for _, x := range m {
				e = append(e, BitsLE(bi(x), int(nbits))...)
			}
			return e
		},
		Out: func(m []uint64) []*big.Int {
			out := make([]*big.Int, len(m))
			for i, x := range m {
				out[i] = bi(x)
			}
			return out
		},
		Agg:  vecAgg,
		Desc: func(m []uint64) string { return fmt.Sprint(m) },
		Trunc: func(e []*big.Int) []*big.Int {
			out := make([]*big.Int, length)
			for i := range out {
				out[i] = F128.JoinLE(e[uint(i)*nbits : uint(i+1)*nbits])
			}
			return out
		},
	}
}

// SpecHistogram: Prio3Histogram, Field128, one-hot encoding.
func SpecHistogram(length, chunk uint, ctx []byte) *Spec[uint64, []uint64] {
	oneHot := func(m uint64) []*big.Int {
		e := make([]*big.Int, length)
		for i := range e {
			e[i] = big.NewInt(b2i(uint64(i) == m))
		}
		return e
	}
	return &Spec[uint64, []uint64]{
		Type: "histogram", Label: fmt.Sprintf("histogram(length=%d,chunk=%d)", length, chunk), AlgID: 4, F: F128, Ctx: ctx,
		MeasLen: int(length), OutLen: int(length), JointRand: length > 0,
		Enc: oneHot, Out: oneHot, Agg: vecAgg,
		Desc:  func(m uint64) string { return fmt.Sprint(m) },
		Trunc: func(e []*big.Int) []*big.Int { return e },
	}
}

// SpecMHCV: Prio3MultihotCountVec, Field128, encoding m || bits(offset + weight).
func SpecMHCV(length, maxWeight, chunk uint, ctx []byte) *Spec[[]bool, []uint64] {
	nb := bits.Len64(uint64(maxWeight))
	off := SumOffset(uint64(maxWeight))
	hot := func(m []bool) []*big.Int {
		e := make([]*big.Int, len(m))
		for i := range e {
			e[i] = big.NewInt(b2i(m[i]))
		}
		return e
	}
	return &Spec[[]bool, []uint64]{
		Type: "mhcv", Label: fmt.Sprintf("mhcv(length=%d,maxweight=%d,chunk=%d)", length, maxWeight, chunk), AlgID: 5, F: F128, Ctx: ctx,
		MeasLen: int(length) + nb, OutLen: int(length), JointRand: true,
		Enc: func(m []bool) []*big.Int {
			e := hot(m)
			w := int64(0)
			for _, b := range m {
				w += b2i(b)
			}
			return append(e, BitsLE(new(big.Int).Add(off, big.NewInt(w)), nb)...)
		},
		Out: hot, Agg: vecAgg,
		Desc: func(m []bool) string {
			s := ""
			for _, b := range m {
				s += fmt.Sprint(b2i(b))
			}
			return s
		},
		Trunc: func(e []*big.Int) []*big.Int { return e[:length] },
	}
}

// RawSpec turns a spec into the spec of the same instance driven through the
// Raw wrapper: a "measurement" is the byte encoding of an arbitrary vector of
// MeasLen field elements.
func RawSpec[M, A any](s *Spec[M, A]) *Spec[[]byte, A] {
	dec := func(b []byte) []*big.Int {
		v, ok := s.F.DecVec(b)
		if !ok {
			panic("zzverifc19: raw encoding is not canonical")
		}
		return v
	}
	return &Spec[[]byte, A]{
		Type: s.Type, Label: s.Label + "/raw", AlgID: s.AlgID, F: s.F, Ctx: s.Ctx,
		MeasLen: s.MeasLen, OutLen: s.OutLen, JointRand: s.JointRand,
		Enc:   dec,
		Out:   func(b []byte) []*big.Int { return s.Trunc(dec(b)) },
		Agg:   s.Agg,
		Desc:  func(b []byte) string { return VecStr(dec(b)) },
		Trunc: s.Trunc,
	}
}
