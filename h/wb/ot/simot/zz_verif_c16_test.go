//go:build verif

package simot

// C16 (white box) — the keys of the 1-out-of-2 OT: the receiver's key equals
// the sender's key of the chosen message, differs from the other one, the two
// sender keys differ, and the receiver's key does not open the other
// ciphertext.

import (
	"bytes"
	"testing"

	"github.com/cloudflare/circl/group"
	"github.com/cloudflare/circl/internal/zzverif/lib"
)

const vc16Mon = "TestVerifC16SimOTKeys"

func TestVerifC16SimOTKeys(t *testing.T) {
	lib.Mandatory("simot-wb:keys-checked", "simot-wb:other-ciphertext-refused")
	type vc16Group struct {
		name string
		g    group.Group
	}
	gs := []vc16Group{{"ristretto255", group.Ristretto255}, {"P256", group.P256}, {"P384", group.P384}, {"P521", group.P521}}
	per := lib.Scale(60, 300)
	lib.Par(len(gs)*per, func(ci int) {
		gg := gs[ci%len(gs)]
		i := ci / len(gs)
		r := lib.NewRng("c16/simot-wb/"+gg.name, i)
		choice := i % 2
		l := r.Intn(101)
		m0, m1 := r.Bytes(l), r.Bytes(l)
		if r.Intn(5) == 0 {
			m1 = lib.Clone(m0)
		}
		base := lib.D("group", gg.name, "choice", choice, "m0", m0, "m1", m1)
		lib.Case([]byte("simot-wb"), []byte(gg.name), []byte{byte(choice)}, m0, m1)
		var s Sender
		var rc Receiver
		var e0, e1 []byte
		var err error
		if p := lib.Try("simot.rounds(wb):"+gg.name, append(lib.Clone(m0), m1...), func() {
			A := s.InitSender(gg.g, m0, m1, i)
			B := rc.Round1Receiver(gg.g, choice, i, A)
			e0, e1 = s.Round2Sender(B)
			err = rc.Round3Receiver(e0, e1, choice)
		}); p != nil {
			lib.Violation("C16:panic:simot.rounds:"+p.Class(), vc16Mon, lib.D("group", gg.name, "panic", p.Value, "frame", p.TopFrame()))
			return
		}
		ks := [2][]byte{s.k0, s.k1}
		es := [2][]byte{e0, e1}
		ms := [2][]byte{m0, m1}
		base["k0"], base["k1"], base["kR"] = lib.Hex(s.k0), lib.Hex(s.k1), lib.Hex(rc.kR)
		if err != nil || !bytes.Equal(rc.mc, ms[choice]) {
			base["err"] = lib.D("err", err)["err"]
			lib.Violation("C16:ot-wrong-message:simot.Round3Receiver", vc16Mon, base)
			return
		}
		if len(rc.kR) != keyLength || len(s.k0) != keyLength || len(s.k1) != keyLength {
			lib.Violation("C16:ot-key-length:simot", vc16Mon, base)
		}
		if !bytes.Equal(rc.kR, ks[choice]) {
			lib.Violation("C16:ot-key-mismatch:simot:receiver-key-is-not-the-chosen-key", vc16Mon, base)
		}
		if bytes.Equal(rc.kR, ks[1-choice]) {
			lib.Violation("C16:ot-other-message:simot:receiver-key-equals-unchosen-key", vc16Mon, base)
		}
		if bytes.Equal(s.k0, s.k1) {
			lib.Violation("C16:ot-other-message:simot:sender-keys-equal", vc16Mon, base)
		}
		if bytes.Equal(s.k0, make([]byte, keyLength)) || bytes.Equal(s.k1, make([]byte, keyLength)) {
			lib.Violation("C16:ot-key-zero:simot", vc16Mon, base)
		}
		lib.Count("simot-wb:keys-checked")
		// the key the receiver derived against the other ciphertext
		if pt, derr := aesDecGCM(rc.kR, es[1-choice]); derr == nil {
			base["decrypted"] = lib.Hex(pt)
			lib.Violation("C16:ot-other-message:simot.Round3Receiver", vc16Mon, base)
		} else {
			lib.Count("simot-wb:other-ciphertext-refused")
		}
		// and it does open the chosen one
		if pt, derr := aesDecGCM(rc.kR, es[choice]); derr != nil || !bytes.Equal(pt, ms[choice]) {
			lib.Violation("C16:ot-wrong-message:simot.Round3Receiver", vc16Mon, base)
		}
	})
}
