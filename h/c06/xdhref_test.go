//go:build verif

// Reference model of RFC 7748 X25519 / X448 over math/big, written from the
// RFC text (section 5: decodeScalar, decodeUCoordinate, the Montgomery ladder
// pseudo-code, encodeUCoordinate).  It shares nothing with circl.
package c06

import (
	"crypto/sha256"
	"crypto/sha512"
	"hash"
	"io"
	"math/big"

	"golang.org/x/crypto/hkdf"
)

type xcurve struct {
	name  string
	size  int      // bytes
	bits  int      // 255 / 448
	p     *big.Int // field prime
	a24   *big.Int // (A-2)/4
	A     *big.Int // Montgomery coefficient
	base  []byte   // encoded base point u
	order *big.Int // order of the base point (prime)
	cof   int64    // cofactor of the curve
}

func bi(s string) *big.Int {
	v, ok := new(big.Int).SetString(s, 0)
	if !ok {
		panic("bad integer constant " + s)
	}
	return v
}

func pow2(n uint) *big.Int { return new(big.Int).Lsh(big.NewInt(1), n) }

var (
	c25519 = func() *xcurve {
		c := &xcurve{name: "x25519", size: 32, bits: 255, cof: 8}
		c.p = new(big.Int).Sub(pow2(255), big.NewInt(19))
		c.a24 = big.NewInt(121665)
		c.A = big.NewInt(486662)
		c.base = make([]byte, 32)
		c.base[0] = 9
		c.order = new(big.Int).Add(pow2(252), bi("27742317777372353535851937790883648493"))
		return c
	}()
	c448 = func() *xcurve {
		c := &xcurve{name: "x448", size: 56, bits: 448, cof: 4}
		c.p = new(big.Int).Sub(new(big.Int).Sub(pow2(448), pow2(224)), big.NewInt(1))
		c.a24 = big.NewInt(39081)
		c.A = big.NewInt(156326)
		c.base = make([]byte, 56)
		c.base[0] = 5
		c.order = new(big.Int).Sub(pow2(446), bi("0x8335dc163bb124b65129c96fde933d8d723a70aadc873d6d54a7bb0d"))
		return c
	}()
)

// leInt decodes little-endian bytes.
func leInt(b []byte) *big.Int {
	r := make([]byte, len(b))
	for i := range b {
		r[len(b)-1-i] = b[i]
	}
	return new(big.Int).SetBytes(r)
}

// leBytes encodes v (< 2^(8n)) as n little-endian bytes.
func leBytes(v *big.Int, n int) []byte {
	be := v.Bytes()
	if len(be) > n {
		panic("leBytes: value too large")
	}
	out := make([]byte, n)
	for i := range be {
		out[i] = be[len(be)-1-i]
	}
	return out
}

// decodeScalar is RFC 7748 section 5 decodeScalar25519 / decodeScalar448.
func (c *xcurve) decodeScalar(k []byte) *big.Int {
	b := append([]byte(nil), k...)
	if c.size == 32 {
		b[0] &= 248
		b[31] &= 127
		b[31] |= 64
	} else {
		b[0] &= 252
		b[55] |= 128
	}
	return leInt(b)
}

// decodeU is decodeUCoordinate: mask the unused bits of the last byte
// (X25519: bit 255) and accept non-canonical values by reducing mod p.
func (c *xcurve) decodeU(u []byte) *big.Int {
	b := append([]byte(nil), u...)
	if c.bits%8 != 0 {
		b[len(b)-1] &= byte(1<<(uint(c.bits)%8)) - 1
	}
	v := leInt(b)
	return v.Mod(v, c.p)
}

// ladder is the pseudo-code of RFC 7748 section 5 for an already decoded
// scalar k and u-coordinate u (0 <= u < p); it returns x_2 * z_2^(p-2) mod p.
// All intermediate values are kept in [0, p): differences get p added, and
// products are reduced by Euclidean division (QuoRem of a non-negative value).
func (c *xcurve) ladder(k, u *big.Int) *big.Int {
	p := c.p
	x1 := new(big.Int).Set(u)
	x2 := big.NewInt(1)
	z2 := big.NewInt(0)
	x3 := new(big.Int).Set(u)
	z3 := big.NewInt(1)
	swap := uint(0)
	A, AA, B, BB, E, C, D, DA, CB, t, q := new(big.Int), new(big.Int), new(big.Int), new(big.Int), new(big.Int),
		new(big.Int), new(big.Int), new(big.Int), new(big.Int), new(big.Int), new(big.Int)
	// r = a*b mod p for 0 <= a, b
	mulmod := func(r, a, b *big.Int) {
		t.Mul(a, b)
		q.QuoRem(t, p, r)
	}
	// r = a - b mod p for a, b in [0, p)
	submod := func(r, a, b *big.Int) {
		r.Sub(a, b)
		if r.Sign() < 0 {
			r.Add(r, p)
		}
	}
	for i := c.bits - 1; i >= 0; i-- {
		kt := k.Bit(i)
		swap ^= kt
		if swap == 1 {
			x2, x3 = x3, x2
			z2, z3 = z3, z2
		}
		swap = kt

		A.Add(x2, z2)
		mulmod(AA, A, A)
		submod(B, x2, z2)
		mulmod(BB, B, B)
		submod(E, AA, BB)
		C.Add(x3, z3)
		submod(D, x3, z3)
		mulmod(DA, D, A)
		mulmod(CB, C, B)
		// x_3 = (DA + CB)^2
		x3.Add(DA, CB)
		mulmod(x3, x3, x3)
		// z_3 = x_1 * (DA - CB)^2
		submod(z3, DA, CB)
		mulmod(z3, z3, z3)
		mulmod(z3, x1, z3)
		// x_2 = AA * BB
		mulmod(x2, AA, BB)
		// z_2 = E * (AA + a24 * E)
		z2.Mul(c.a24, E)
		z2.Add(z2, AA)
		mulmod(z2, E, z2)
	}
	if swap == 1 {
		x2, x3 = x3, x2
		z2, z3 = z3, z2
	}
	e := new(big.Int).Sub(p, big.NewInt(2))
	zi := new(big.Int).Exp(z2, e, p)
	r := new(big.Int).Mul(x2, zi)
	return r.Mod(r, p)
}

// X is the RFC 7748 function X25519(k, u) / X448(k, u) on encodings.
func (c *xcurve) X(k, u []byte) []byte {
	return leBytes(c.ladder(c.decodeScalar(k), c.decodeU(u)), c.size)
}

// onCurve reports whether u (decoded) is the u-coordinate of a point of the
// curve (true) or only of its quadratic twist (false).
func (c *xcurve) onCurve(u *big.Int) bool {
	// v^2 = u^3 + A u^2 + u
	t := new(big.Int).Mul(u, u)
	t.Add(t, new(big.Int).Mul(c.A, u))
	t.Add(t, big.NewInt(1))
	t.Mul(t, u)
	t.Mod(t, c.p)
	return big.Jacobi(t, c.p) != -1
}

func allZero(b []byte) bool {
	var v byte
	for _, x := range b {
		v |= x
	}
	return v == 0
}

// ---- DHKEM(X25519/X448) ExtractAndExpand of RFC 9180 section 4.1, used to
// check that the HPKE KEMs feed exactly the RFC 7748 value into their KDF.

type dhkem struct {
	id      uint16
	h       func() hash.Hash
	nsecret int
}

var (
	dhkemX25519 = dhkem{0x0020, sha256.New, 32}
	dhkemX448   = dhkem{0x0021, sha512.New, 64}
)

func (d dhkem) extractAndExpand(dh, kemContext []byte) []byte {
	suite := []byte{'K', 'E', 'M', byte(d.id >> 8), byte(d.id)}
	ikm := append([]byte("HPKE-v1"), suite...)
	ikm = append(ikm, "eae_prk"...)
	ikm = append(ikm, dh...)
	prk := hkdf.Extract(d.h, ikm, nil)
	info := []byte{byte(d.nsecret >> 8), byte(d.nsecret)}
	info = append(info, "HPKE-v1"...)
	info = append(info, suite...)
	info = append(info, "shared_secret"...)
	info = append(info, kemContext...)
	out := make([]byte, d.nsecret)
	if _, err := io.ReadFull(hkdf.Expand(d.h, prk, info), out); err != nil {
		panic(err)
	}
	return out
}
