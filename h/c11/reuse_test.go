//go:build verif

// C11(a), key objects: decoding into a previously USED object must give the
// same behaviour as decoding into a fresh one (stale caches, partially
// overwritten state), and calls must not change operands other than their
// receiver.
package c11

import (
	"crypto"
	"encoding"
	"github.com/cloudflare/circl/ecc/bls12381"
	"github.com/cloudflare/circl/ecc/goldilocks"
	"reflect"
	"testing"

	"github.com/cloudflare/circl/dh/csidh"
	"github.com/cloudflare/circl/group"
	"github.com/cloudflare/circl/internal/zzverif/lib"
	"github.com/cloudflare/circl/kem"
	"github.com/cloudflare/circl/kem/frodo/frodo640shake"
	"github.com/cloudflare/circl/kem/kyber/kyber768"
	"github.com/cloudflare/circl/kem/mlkem/mlkem1024"
	"github.com/cloudflare/circl/kem/mlkem/mlkem512"
	"github.com/cloudflare/circl/kem/mlkem/mlkem768"
	"github.com/cloudflare/circl/math/polynomial"
	"github.com/cloudflare/circl/oprf"
	"github.com/cloudflare/circl/secretsharing"
	"github.com/cloudflare/circl/sign"
	"github.com/cloudflare/circl/sign/bls"
	"github.com/cloudflare/circl/sign/dilithium/mode3"
	"github.com/cloudflare/circl/sign/eddilithium2"
	"github.com/cloudflare/circl/sign/eddilithium3"
	"github.com/cloudflare/circl/sign/mldsa/mldsa44"
	"github.com/cloudflare/circl/sign/mldsa/mldsa65"
	"github.com/cloudflare/circl/sign/mldsa/mldsa87"
	tssrsa "github.com/cloudflare/circl/tss/rsa"
	"github.com/cloudflare/circl/xof/k12"
)

const monReuse = "TestVerifReuse"

// siblingProbe asks the key object (or the object inside an adapter) for its
// Public() result and returns a function that reports what that result looks
// like *now*: its encoding and what it does (deterministic encapsulation for
// KEM keys, the verdict on a signature made before for signature keys).  Nil
// if the object has no Public().
func siblingProbe(k any) func() []byte {
	obj := k
	if w, ok := k.(interface{ inner() any }); ok {
		obj = w.inner()
	}
	m := reflect.ValueOf(obj).MethodByName("Public")
	if !m.IsValid() || m.Type().NumIn() != 0 || m.Type().NumOut() != 1 {
		return nil
	}
	pub := m.Call(nil)[0].Interface()
	if pub == nil {
		return nil
	}
	msg := []byte("c11 sibling probe")
	var sig []byte
	if sk, ok := obj.(sign.PrivateKey); ok {
		sig = sk.Scheme().Sign(sk, msg, nil)
	}
	return func() []byte {
		var out []byte
		if mb, ok := pub.(encoding.BinaryMarshaler); ok {
			b, _ := mb.MarshalBinary()
			out = append(out, b...)
		}
		if p, ok := pub.(kem.PublicKey); ok {
			sch := p.Scheme()
			ct, ss, _ := sch.EncapsulateDeterministically(p, make([]byte, sch.EncapsulationSeedSize()))
			out = append(append(out, ct...), ss...)
		}
		if p, ok := pub.(sign.PublicKey); ok && sig != nil {
			if p.Scheme().Verify(p, msg, sig, nil) {
				out = append(out, 1)
			} else {
				out = append(out, 0)
			}
		}
		return out
	}
}

// reloadInto loads enc into obj through its own decoder (UnmarshalBinary or
// Unpack taking a byte slice); false if it has none.
func reloadInto(obj any, enc []byte) (done bool, err error) {
	v := reflect.ValueOf(obj)
	for _, name := range []string{"UnmarshalBinary", "Unpack"} {
		m := v.MethodByName(name)
		if !m.IsValid() || m.Type().NumIn() != 1 || m.Type().In(0) != reflect.TypeOf([]byte(nil)) {
			continue
		}
		if name == "Unpack" {
			// Unpack panics on a wrong length by contract: only exact encodings are passed
		}
		out := m.Call([]reflect.Value{reflect.ValueOf(lib.Clone(enc))})
		if len(out) == 1 && !out[0].IsNil() {
			if e, ok := out[0].Interface().(error); ok {
				return true, e
			}
		}
		return true, nil
	}
	return false, nil
}

// probeOwner: used holds A.  Its Public() result is reloaded with the public
// key of B; afterwards used must still encode to encA and behave like a fresh
// decode of A.  Returns true when a violation was reported.
func probeOwner(what string, used, fresh binKey, encA, encB []byte, use func(k any) []byte) bool {
	obj := any(used)
	if w, ok := obj.(interface{ inner() any }); ok {
		obj = w.inner()
	}
	m := reflect.ValueOf(obj).MethodByName("Public")
	if !m.IsValid() || m.Type().NumIn() != 0 || m.Type().NumOut() != 1 {
		return false
	}
	// B's public key bytes, and the reference behaviour of A, from the fresh object
	if err := fresh.UnmarshalBinary(encB); err != nil {
		return false
	}
	fobj := any(fresh)
	if w, ok := fobj.(interface{ inner() any }); ok {
		fobj = w.inner()
	}
	fm := reflect.ValueOf(fobj).MethodByName("Public")
	if !fm.IsValid() {
		return false
	}
	pubB, ok := fm.Call(nil)[0].Interface().(encoding.BinaryMarshaler)
	if !ok || pubB == nil {
		return false
	}
	pkB, err := pubB.MarshalBinary()
	if err != nil {
		return false
	}
	if err := fresh.UnmarshalBinary(encA); err != nil {
		return false
	}
	want := use(fresh)
	pubA := m.Call(nil)[0].Interface()
	if pubA == nil || reflect.ValueOf(pubA).Kind() != reflect.Ptr {
		return false
	}
	var done bool
	if pn := lib.Try("reload-handed-out-public-key:"+what, pkB, func() { done, err = reloadInto(pubA, pkB) }); pn != nil || !done || err != nil {
		return false
	}
	lib.Count("reuse:handed-out-public-key-reloaded")
	mu, _ := used.MarshalBinary()
	if !lib.Eq(mu, encA) {
		reuseViol(what, "owner-changed-by-reloading-handed-out-object", "stage", "marshal", "got", mu, "want", encA)
		return true
	}
	if got := use(used); !lib.Eq(got, want) {
		reuseViol(what, "owner-changed-by-reloading-handed-out-object", "stage", "use", "after_reload", got, "fresh_object", want, "encA", encA, "pkB", pkB)
		return true
	}
	return false
}

func reuseViol(what, class string, kv ...any) {
	lib.Violation("C11:"+class+":"+what, monReuse, lib.D(kv...))
}

type binKey interface {
	encoding.BinaryMarshaler
	encoding.BinaryUnmarshaler
}

// reuseBin: unmarshal encoding B into an object that held (and used) A; the
// object must then marshal to B and behave (use) like a fresh decode of B.
func reuseBin(what string, used, fresh binKey, encA, encB []byte, use func(k any) []byte) {
	lib.Case([]byte(what), encA, encB)
	lib.Count("reuse:" + what)
	if err := used.UnmarshalBinary(encA); err != nil {
		reuseViol(what, "own-encoding-refused", "err", err)
		return
	}
	_ = use(used) // fill every cache with A's data
	// the other direction: the object handed out by Public() is loaded with
	// ANOTHER key by its holder; the private key it came from must not notice
	if probeOwner(what, used, fresh, encA, encB, use) {
		return
	}
	// objects handed out by the used object while it held A (Public()) are
	// separate values: reloading the object must not change them
	probe := siblingProbe(used)
	var before []byte
	if probe != nil {
		before = probe()
	}
	if err := used.UnmarshalBinary(encB); err != nil {
		reuseViol(what, "own-encoding-refused", "err", err)
		return
	}
	if probe != nil {
		lib.Count("reuse:sibling-probes")
		if after := probe(); !lib.Eq(before, after) {
			reuseViol(what, "handed-out-object-changed-by-reload", "before", before, "after", after, "encA", encA, "encB", encB)
		}
	}
	if err := fresh.UnmarshalBinary(encB); err != nil {
		reuseViol(what, "own-encoding-refused", "err", err)
		return
	}
	mu, _ := used.MarshalBinary()
	if !lib.Eq(mu, encB) {
		reuseViol(what, "decode-into-used-differs", "stage", "marshal", "got", mu, "want", encB)
		return
	}
	if a, b := use(used), use(fresh); !lib.Eq(a, b) {
		reuseViol(what, "decode-into-used-differs", "stage", "use", "used_object", a, "fresh_object", b, "encA", encA, "encB", encB)
		return
	}
	// crafted encodings: B with its first 32 octets (a seed / rho field in
	// most key formats) replaced by zeros - equal to the same field of a
	// never-used object - and by A's: a decoder that skips work when a field
	// "has not changed" then skips it for the wrong object.  Decoded into a
	// never-used object and into the used one; both must encode the same and
	// hand out the same public key.  (Decoders with a consistency check may
	// refuse the crafted string: both must refuse alike.)
	if len(encB) >= 64 && len(encA) >= 32 {
		for vi, head := range [][]byte{make([]byte, 32), encA[:32]} {
			crafted := lib.Clone(encB)
			copy(crafted, head)
			if lib.Eq(crafted, encB) {
				continue
			}
			// only for library key types handed in directly (the harness's own
			// adapter types carry configuration a zero value lacks)
			if _, adapter := fresh.(interface{ inner() any }); adapter || reflect.TypeOf(fresh).Elem().Kind() != reflect.Struct {
				break
			}
			neverUsed := reflect.New(reflect.TypeOf(fresh).Elem()).Interface().(binKey)
			var e1, e2 error
			var m1, m2, p1, p2 []byte
			if pn := lib.Try("reuse:crafted:"+what, crafted, func() {
				e1, e2 = used.UnmarshalBinary(lib.Clone(crafted)), neverUsed.UnmarshalBinary(lib.Clone(crafted))
				if e1 != nil || e2 != nil {
					return
				}
				m1, _ = used.MarshalBinary()
				m2, _ = neverUsed.MarshalBinary()
				if pr := handedOutPublic(used); pr != nil {
					p1, p2 = pr, handedOutPublic(neverUsed)
				}
			}); pn != nil {
				break
			}
			lib.Count("reuse:crafted-encodings")
			if (e1 == nil) != (e2 == nil) || !lib.Eq(m1, m2) || !lib.Eq(p1, p2) {
				reuseViol(what, "decode-into-used-differs", "stage", "crafted-encoding", "variant", []string{"first 32 octets zero", "first 32 octets of A"}[vi],
					"err_used", e1, "err_never_used", e2, "same_encoding", lib.Eq(m1, m2), "same_public_key", lib.Eq(p1, p2), "encA", encA, "crafted", crafted)
				break
			}
		}
		// leave the objects holding B again
		_ = used.UnmarshalBinary(encB)
	}
}

// handedOutPublic marshals what Public() of the key object returns (nil if
// there is no such method or it cannot be marshalled).
func handedOutPublic(k any) []byte {
	obj := k
	if w, ok := k.(interface{ inner() any }); ok {
		obj = w.inner()
	}
	m := reflect.ValueOf(obj).MethodByName("Public")
	if !m.IsValid() || m.Type().NumIn() != 0 || m.Type().NumOut() != 1 {
		return nil
	}
	pub := m.Call(nil)[0].Interface()
	if mb, ok := pub.(encoding.BinaryMarshaler); ok {
		b, _ := mb.MarshalBinary()
		return b
	}
	return nil
}

func TestVerifReuse(t *testing.T) {
	lib.Mandatory("reuse:handed-out-public-key-reloaded", "reuse:mlkem768.PrivateKey", "reuse:oprf.PrivateKey", "reuse:csidh.PublicKey")
	n := lib.Scale(12, 600)
	for i := 0; i < n; i++ {
		r := lib.NewRng("c11/reuse", i)
		msg := r.Bytes(20)
		// ---- ML-KEM / Kyber / Frodo key objects (Unpack into used object)
		{
			pkA, skA := mlkem768.NewKeyFromSeed(r.Bytes(64))
			pkB, skB := mlkem768.NewKeyFromSeed(r.Bytes(64))
			a, _ := skA.MarshalBinary()
			b, _ := skB.MarshalBinary()
			es := r.Bytes(32)
			ct := make([]byte, mlkem768.CiphertextSize)
			ss := make([]byte, mlkem768.SharedKeySize)
			pkB.EncapsulateTo(ct, ss, es)
			reuseBin("mlkem768.PrivateKey", &mlkemSK768{}, &mlkemSK768{}, a, b, func(k any) []byte {
				sk := &k.(*mlkemSK768).k
				out := make([]byte, mlkem768.SharedKeySize)
				sk.DecapsulateTo(out, ct)
				p, _ := sk.Public().MarshalBinary()
				return append(out, p...)
			})
			pa, _ := pkA.MarshalBinary()
			pb, _ := pkB.MarshalBinary()
			reuseBin("mlkem768.PublicKey", &mlkemPK768{}, &mlkemPK768{}, pa, pb, func(k any) []byte {
				pk := &k.(*mlkemPK768).k
				c := make([]byte, mlkem768.CiphertextSize)
				s := make([]byte, mlkem768.SharedKeySize)
				pk.EncapsulateTo(c, s, es)
				return append(c, s...)
			})
		}
		{
			_, skA := mlkem512.NewKeyFromSeed(r.Bytes(64))
			pkB, skB := mlkem512.NewKeyFromSeed(r.Bytes(64))
			a, _ := skA.MarshalBinary()
			b, _ := skB.MarshalBinary()
			ct := make([]byte, mlkem512.CiphertextSize)
			ss := make([]byte, mlkem512.SharedKeySize)
			pkB.EncapsulateTo(ct, ss, r.Bytes(32))
			reuseBin("mlkem512.PrivateKey", unp(func(b []byte, k *mlkem512.PrivateKey) error { return k.Unpack(b) }), unp(func(b []byte, k *mlkem512.PrivateKey) error { return k.Unpack(b) }), a, b, func(k any) []byte {
				sk := &k.(*unpacker[mlkem512.PrivateKey]).k
				out := make([]byte, mlkem512.SharedKeySize)
				sk.DecapsulateTo(out, ct)
				return out
			})
		}
		{
			_, skA := mlkem1024.NewKeyFromSeed(r.Bytes(64))
			pkB, skB := mlkem1024.NewKeyFromSeed(r.Bytes(64))
			a, _ := skA.MarshalBinary()
			b, _ := skB.MarshalBinary()
			ct := make([]byte, mlkem1024.CiphertextSize)
			ss := make([]byte, mlkem1024.SharedKeySize)
			pkB.EncapsulateTo(ct, ss, r.Bytes(32))
			reuseBin("mlkem1024.PrivateKey", unp(func(b []byte, k *mlkem1024.PrivateKey) error { return k.Unpack(b) }), unp(func(b []byte, k *mlkem1024.PrivateKey) error { return k.Unpack(b) }), a, b, func(k any) []byte {
				sk := &k.(*unpacker[mlkem1024.PrivateKey]).k
				out := make([]byte, mlkem1024.SharedKeySize)
				sk.DecapsulateTo(out, ct)
				return out
			})
		}
		{
			_, skA := kyber768.NewKeyFromSeed(r.Bytes(64))
			pkB, skB := kyber768.NewKeyFromSeed(r.Bytes(64))
			a, _ := skA.MarshalBinary()
			b, _ := skB.MarshalBinary()
			ct := make([]byte, kyber768.CiphertextSize)
			ss := make([]byte, kyber768.SharedKeySize)
			pkB.EncapsulateTo(ct, ss, r.Bytes(32))
			unpk := func(b []byte, k *kyber768.PrivateKey) error { k.Unpack(b); return nil }
			reuseBin("kyber768.PrivateKey", unp(unpk), unp(unpk), a, b, func(k any) []byte {
				sk := &k.(*unpacker[kyber768.PrivateKey]).k
				out := make([]byte, kyber768.SharedKeySize)
				sk.DecapsulateTo(out, ct)
				return out
			})
		}
		if i%4 == 0 {
			fs := frodo640shake.Scheme()
			_, skA0 := fs.DeriveKeyPair(r.Bytes(fs.SeedSize()))
			pkB0, skB0 := fs.DeriveKeyPair(r.Bytes(fs.SeedSize()))
			a, _ := skA0.MarshalBinary()
			b, _ := skB0.MarshalBinary()
			ct, _, _ := fs.EncapsulateDeterministically(pkB0, r.Bytes(fs.EncapsulationSeedSize()))
			unpk := func(b []byte, k *frodo640shake.PrivateKey) error { k.Unpack(b); return nil }
			reuseBin("frodo640shake.PrivateKey", unp(unpk), unp(unpk), a, b, func(k any) []byte {
				sk := &k.(*unpacker[frodo640shake.PrivateKey]).k
				out := make([]byte, frodo640shake.SharedKeySize)
				sk.DecapsulateTo(out, ct)
				return out
			})
		}
		// ---- signature keys with UnmarshalBinary on the object
		{
			var sA, sB [32]byte
			copy(sA[:], r.Bytes(32))
			copy(sB[:], r.Bytes(32))
			{
				pkA, skA := mldsa65.NewKeyFromSeed(&sA)
				pkB, skB := mldsa65.NewKeyFromSeed(&sB)
				sig := make([]byte, mldsa65.SignatureSize)
				_ = mldsa65.SignTo(skB, msg, nil, false, sig)
				reuseBin("mldsa65.PublicKey", &mldsa65.PublicKey{}, &mldsa65.PublicKey{}, pkA.Bytes(), pkB.Bytes(), func(k any) []byte {
					return b2(mldsa65.Verify(k.(*mldsa65.PublicKey), msg, nil, sig))
				})
				reuseBin("mldsa65.PrivateKey", &mldsa65.PrivateKey{}, &mldsa65.PrivateKey{}, skA.Bytes(), skB.Bytes(), func(k any) []byte {
					s := make([]byte, mldsa65.SignatureSize)
					_ = mldsa65.SignTo(k.(*mldsa65.PrivateKey), msg, nil, false, s)
					p := k.(*mldsa65.PrivateKey).Public().(*mldsa65.PublicKey).Bytes()
					return append(s, p...)
				})
			}
			{
				pkA, skA := mldsa44.NewKeyFromSeed(&sA)
				pkB, skB := mldsa44.NewKeyFromSeed(&sB)
				sig := make([]byte, mldsa44.SignatureSize)
				_ = mldsa44.SignTo(skB, msg, nil, false, sig)
				reuseBin("mldsa44.PublicKey", &mldsa44.PublicKey{}, &mldsa44.PublicKey{}, pkA.Bytes(), pkB.Bytes(), func(k any) []byte {
					return b2(mldsa44.Verify(k.(*mldsa44.PublicKey), msg, nil, sig))
				})
				reuseBin("mldsa44.PrivateKey", &mldsa44.PrivateKey{}, &mldsa44.PrivateKey{}, skA.Bytes(), skB.Bytes(), func(k any) []byte {
					s := make([]byte, mldsa44.SignatureSize)
					_ = mldsa44.SignTo(k.(*mldsa44.PrivateKey), msg, nil, false, s)
					return s
				})
			}
			{
				pkA, skA := mldsa87.NewKeyFromSeed(&sA)
				pkB, skB := mldsa87.NewKeyFromSeed(&sB)
				sig := make([]byte, mldsa87.SignatureSize)
				_ = mldsa87.SignTo(skB, msg, nil, false, sig)
				reuseBin("mldsa87.PublicKey", &mldsa87.PublicKey{}, &mldsa87.PublicKey{}, pkA.Bytes(), pkB.Bytes(), func(k any) []byte {
					return b2(mldsa87.Verify(k.(*mldsa87.PublicKey), msg, nil, sig))
				})
				reuseBin("mldsa87.PrivateKey", &mldsa87.PrivateKey{}, &mldsa87.PrivateKey{}, skA.Bytes(), skB.Bytes(), func(k any) []byte {
					s := make([]byte, mldsa87.SignatureSize)
					_ = mldsa87.SignTo(k.(*mldsa87.PrivateKey), msg, nil, false, s)
					return s
				})
			}
			{
				pkA, skA := mode3.NewKeyFromSeed(&sA)
				pkB, skB := mode3.NewKeyFromSeed(&sB)
				sig := make([]byte, mode3.SignatureSize)
				mode3.SignTo(skB, msg, sig)
				reuseBin("mode3.PublicKey", &mode3.PublicKey{}, &mode3.PublicKey{}, pkA.Bytes(), pkB.Bytes(), func(k any) []byte {
					return b2(mode3.Verify(k.(*mode3.PublicKey), msg, sig))
				})
				reuseBin("mode3.PrivateKey", &mode3.PrivateKey{}, &mode3.PrivateKey{}, skA.Bytes(), skB.Bytes(), func(k any) []byte {
					s := make([]byte, mode3.SignatureSize)
					mode3.SignTo(k.(*mode3.PrivateKey), msg, s)
					return s
				})
			}
			{
				pkA, skA := eddilithium2.NewKeyFromSeed(&sA)
				pkB, skB := eddilithium2.NewKeyFromSeed(&sB)
				sig := make([]byte, eddilithium2.SignatureSize)
				eddilithium2.SignTo(skB, msg, sig)
				reuseBin("eddilithium2.PublicKey", &eddilithium2.PublicKey{}, &eddilithium2.PublicKey{}, pkA.Bytes(), pkB.Bytes(), func(k any) []byte {
					return b2(eddilithium2.Verify(k.(*eddilithium2.PublicKey), msg, sig))
				})
				reuseBin("eddilithium2.PrivateKey", &eddilithium2.PrivateKey{}, &eddilithium2.PrivateKey{}, skA.Bytes(), skB.Bytes(), func(k any) []byte {
					s := make([]byte, eddilithium2.SignatureSize)
					eddilithium2.SignTo(k.(*eddilithium2.PrivateKey), msg, s)
					return s
				})
			}
			{
				var tA, tB [eddilithium3.SeedSize]byte
				copy(tA[:], r.Bytes(len(tA)))
				copy(tB[:], r.Bytes(len(tB)))
				pkA, skA := eddilithium3.NewKeyFromSeed(&tA)
				pkB, skB := eddilithium3.NewKeyFromSeed(&tB)
				sig := make([]byte, eddilithium3.SignatureSize)
				eddilithium3.SignTo(skB, msg, sig)
				reuseBin("eddilithium3.PublicKey", &eddilithium3.PublicKey{}, &eddilithium3.PublicKey{}, pkA.Bytes(), pkB.Bytes(), func(k any) []byte {
					return b2(eddilithium3.Verify(k.(*eddilithium3.PublicKey), msg, sig))
				})
				reuseBin("eddilithium3.PrivateKey", &eddilithium3.PrivateKey{}, &eddilithium3.PrivateKey{}, skA.Bytes(), skB.Bytes(), func(k any) []byte {
					s := make([]byte, eddilithium3.SignatureSize)
					eddilithium3.SignTo(k.(*eddilithium3.PrivateKey), msg, s)
					return s
				})
			}
		}
		// ---- BLS, OPRF: lazily cached public key inside the private key
		reuseBLS[bls.G1]("bls.PrivateKey[G1]", r, msg)
		reuseBLS[bls.G2]("bls.PrivateKey[G2]", r, msg)
		for _, su := range []oprf.Suite{oprf.SuiteRistretto255, oprf.SuiteP256, oprf.SuiteP384, oprf.SuiteP521} {
			kA, _ := oprf.DeriveKey(su, oprf.BaseMode, r.Bytes(32), nil)
			kB, _ := oprf.DeriveKey(su, oprf.BaseMode, r.Bytes(32), nil)
			a, _ := kA.MarshalBinary()
			b, _ := kB.MarshalBinary()
			reuseBin("oprf.PrivateKey", &oprfSK{su: su}, &oprfSK{su: su}, a, b, func(k any) []byte {
				sk := &k.(*oprfSK).k
				p, _ := sk.Public().MarshalBinary()
				o, _ := oprf.NewServer(su, sk).FullEvaluate(msg)
				return append(p, o...)
			})
		}
		// ---- OPRF public keys: one object decodes keys of different suites in
		// turn (a server talking to clients of several suites)
		{
			sus := []oprf.Suite{oprf.SuiteRistretto255, oprf.SuiteP256, oprf.SuiteP384, oprf.SuiteP521}
			var usedPK oprf.PublicKey
			for step := 0; step < 6; step++ {
				su := sus[(step*3+i)%len(sus)]
				k, _ := oprf.DeriveKey(su, oprf.BaseMode, r.Bytes(32), nil)
				enc, _ := k.Public().MarshalBinary()
				var freshPK oprf.PublicKey
				e1, e2 := usedPK.UnmarshalBinary(su, lib.Clone(enc)), freshPK.UnmarshalBinary(su, lib.Clone(enc))
				var m1, m2 []byte
				if e1 == nil {
					m1, _ = usedPK.MarshalBinary()
				}
				if e2 == nil {
					m2, _ = freshPK.MarshalBinary()
				}
				lib.Count("reuse:oprf.PublicKey-across-suites")
				if (e1 == nil) != (e2 == nil) || !lib.Eq(m1, m2) {
					reuseViol("oprf.PublicKey.UnmarshalBinary", "decode-into-used-differs", "suite", su.Identifier(), "err_used", e1, "err_fresh", e2, "encoding", enc, "used_reencodes_to", m1)
					break
				}
			}
		}
		// ---- CSIDH
		if i%6 == 0 {
			var prvA, prvB csidh.PrivateKey
			_ = csidh.GeneratePrivateKey(&prvA, r)
			_ = csidh.GeneratePrivateKey(&prvB, r)
			var pubA, pubB csidh.PublicKey
			csidh.GeneratePublicKey(&pubA, &prvA, r)
			csidh.GeneratePublicKey(&pubB, &prvB, r)
			var ea, eb [csidh.PublicKeySize]byte
			pubA.Export(ea[:])
			pubB.Export(eb[:])
			lib.Case([]byte("csidh.PublicKey"), ea[:], eb[:])
			lib.Count("reuse:csidh.PublicKey")
			var used, fresh csidh.PublicKey
			used.Import(ea[:])
			used.Import(eb[:])
			fresh.Import(eb[:])
			var ou, of [csidh.PublicKeySize]byte
			used.Export(ou[:])
			fresh.Export(of[:])
			if ou != of {
				reuseViol("csidh.PublicKey.Import", "decode-into-used-differs", "got", ou[:], "want", of[:])
			}
			// GeneratePublicKey into an object that already holds another key: the
			// receiver's previous value must not enter the result
			{
				gen := pubA // holds A's public key
				csidh.GeneratePublicKey(&gen, &prvB, r)
				var og [csidh.PublicKeySize]byte
				gen.Export(og[:])
				lib.Count("reuse:csidh.GeneratePublicKey-into-used")
				if og != eb {
					reuseViol("csidh.GeneratePublicKey", "decode-into-used-differs", "stage", "public key generated into an object that held another key", "got", og[:], "want", eb[:])
				}
			}
			// DeriveSecret must not change its operands and be repeatable
			var s1, s2 [64]byte
			var before, after [csidh.PublicKeySize]byte
			fresh.Export(before[:])
			ok1 := csidh.DeriveSecret(&s1, &fresh, &prvA, lib.NewRng("c11/csidh", 1))
			fresh.Export(after[:])
			ok2 := csidh.DeriveSecret(&s2, &fresh, &prvA, lib.NewRng("c11/csidh", 2))
			if before != after {
				reuseViol("csidh.DeriveSecret", "operand-changed", "pub_before", before[:], "pub_after", after[:])
			}
			if ok1 != ok2 || s1 != s2 {
				reuseViol("csidh.DeriveSecret", "repeat-differs", "first", s1[:], "second", s2[:])
			}
			// both parties agree
			var s3 [64]byte
			var pa csidh.PublicKey
			pa.Import(ea[:])
			csidh.DeriveSecret(&s3, &pa, &prvB, lib.NewRng("c11/csidh", 3))
			if s1 != s3 {
				reuseViol("csidh.DeriveSecret", "parties-disagree", "a", s1[:], "b", s3[:])
			}
			var pe, pu csidh.PrivateKey
			var xa, xb [csidh.PrivateKeySize]byte
			prvA.Export(xa[:])
			prvB.Export(xb[:])
			pu.Import(xa[:])
			pu.Import(xb[:])
			pe.Import(xb[:])
			var o1, o2 [csidh.PrivateKeySize]byte
			pu.Export(o1[:])
			pe.Export(o2[:])
			if o1 != o2 {
				reuseViol("csidh.PrivateKey.Import", "decode-into-used-differs", "got", o1[:], "want", o2[:])
			}
		}
		// ---- threshold RSA key share (cached exponent)
		if i%3 == 0 {
			key := loadRSAKey("plain-1024")
			sa, err := tssrsa.Deal(lib.NewRng("c11/reuse/tss", i), 3, 2, key, true)
			if err != nil {
				t.Fatal(err)
			}
			sb, _ := tssrsa.Deal(lib.NewRng("c11/reuse/tss", i+100000), 3, 2, key, i%2 == 0)
			a, _ := sa[0].MarshalBinary()
			b, _ := sb[1].MarshalBinary()
			digest, _ := tssrsa.PadHash(&tssrsa.PKCS1v15Padder{}, crypto.SHA256, &key.PublicKey, msg)
			reuseBin("tss/rsa.KeyShare", &tssrsa.KeyShare{}, &tssrsa.KeyShare{}, a, b, func(k any) []byte {
				s, err := k.(*tssrsa.KeyShare).Sign(nil, &key.PublicKey, digest, false)
				if err != nil {
					return []byte("ERR " + err.Error())
				}
				o, _ := s.MarshalBinary()
				return o
			})
		}
		if i%4 == 0 {
			k12Independence(r)
		}
		// ---- variable-length scalar decoders: a receiver that held a full-width
		// value is loaded from an input of every length, and must equal a fresh
		// receiver loaded from the same input (short inputs leave no stale words)
		for _, n := range []int{0, 1, 7, 8, 9, 31, 32, 33, 47, 48, 49, 55, 56, 57, 64, 113, 114, 120, r.Intn(121)} {
			in := r.Bytes(n)
			var used, fresh goldilocks.Scalar
			used.FromBytes(r.Bytes(56))
			used.FromBytes(in)
			fresh.FromBytes(in)
			lib.Count("reuse:scalar-receiver-prefilled")
			if used != fresh {
				reuseViol("goldilocks.Scalar.FromBytes", "decode-into-used-differs", "input", in, "used_receiver", used[:], "fresh_receiver", fresh[:])
			}
			if n <= 64 {
				var bu, bf bls12381.Scalar
				bu.SetBytes(r.Bytes(32))
				bu.SetBytes(in)
				bf.SetBytes(in)
				ub, _ := bu.MarshalBinary()
				fb, _ := bf.MarshalBinary()
				if !lib.Eq(ub, fb) || bu.IsEqual(&bf) != 1 {
					reuseViol("bls12381.Scalar.SetBytes", "decode-into-used-differs", "input", in, "used_receiver", ub, "fresh_receiver", fb)
				}
			}
		}
		// ---- polynomial / secret sharing: constructors copy their arguments
		for _, g := range []group.Group{group.P256, group.Ristretto255} {
			cs := []group.Scalar{g.RandomScalar(r), g.RandomScalar(r), g.RandomScalar(r)}
			x := g.RandomScalar(r)
			p := polynomial.New(cs)
			y0, _ := p.Evaluate(x).MarshalBinary()
			cs[1].SetUint64(7) // modify the argument afterwards
			c1 := p.Coefficient(1)
			c1.SetUint64(9) // modify a returned object
			y1, _ := p.Evaluate(x).MarshalBinary()
			lib.Case([]byte("polynomial"), y0)
			if !lib.Eq(y0, y1) {
				reuseViol("polynomial.New/Coefficient", "aliased-argument-or-result", "before", y0, "after", y1)
			}
			// every degree from the constant polynomial up: evaluating hands out a
			// fresh scalar, overwriting it must not change the polynomial
			for deg := 0; deg <= 3; deg++ {
				cd := make([]group.Scalar, deg+1)
				for j := range cd {
					cd[j] = g.RandomScalar(r)
				}
				pd := polynomial.New(cd)
				v0, _ := pd.Evaluate(x).MarshalBinary()
				pd.Evaluate(x).SetUint64(uint64(11 + deg))
				pd.Coefficient(uint(deg)).SetUint64(3)
				v1, _ := pd.Evaluate(x).MarshalBinary()
				lib.Count("reuse:polynomial-result-overwritten")
				if !lib.Eq(v0, v1) {
					reuseViol("polynomial.Evaluate", "aliased-argument-or-result", "degree", deg, "before", v0, "after", v1)
				}
				// threshold deg sharing: overwriting one share leaves later shares alone
				sec := g.RandomScalar(r)
				secb, _ := sec.MarshalBinary()
				sd := secretsharing.New(lib.NewRng("c11/ss-deg", i*10+deg), uint(deg), sec)
				first := sd.Share(uint(deg) + 2)
				for _, sh := range first {
					sh.Value.SetUint64(1)
					sh.ID.SetUint64(99)
				}
				again := sd.Share(uint(deg) + 2)
				if rec, err := secretsharing.Recover(uint(deg), again[:deg+1]); err != nil {
					reuseViol("secretsharing", "recover-failed", "err", err)
				} else if rb, _ := rec.MarshalBinary(); !lib.Eq(rb, secb) {
					reuseViol("secretsharing.Share", "aliased-argument-or-result", "threshold", deg, "secret", secb, "recovered", rb)
				}
			}
			// Lagrange form: evaluated AT the interpolation nodes, at zero and
			// elsewhere; results are overwritten, the node / value lists given to
			// the constructor are overwritten afterwards
			{
				const nn = 4
				xs, ys := make([]group.Scalar, nn), make([]group.Scalar, nn)
				for j := range xs {
					xs[j], ys[j] = g.NewScalar().SetUint64(uint64(j+2)), g.RandomScalar(r)
				}
				lp := polynomial.NewLagrangePolynomial(xs, ys)
				at := []group.Scalar{g.NewScalar(), g.RandomScalar(r)}
				for j := range xs {
					at = append(at, g.NewScalar().SetUint64(uint64(j+2)))
				}
				var before [][]byte
				for _, a := range at {
					b, _ := lp.Evaluate(a).MarshalBinary()
					before = append(before, b)
				}
				for j, a := range at {
					lp.Evaluate(a).SetUint64(uint64(1000 + j)) // the result is the caller's
				}
				for j := range xs {
					xs[j].SetUint64(uint64(50 + j))
					ys[j].SetUint64(uint64(60 + j))
				}
				lib.Count("reuse:lagrange-results-and-arguments-overwritten")
				for j, a := range at {
					now, _ := lp.Evaluate(a).MarshalBinary()
					if !lib.Eq(now, before[j]) {
						ab, _ := a.MarshalBinary()
						reuseViol("polynomial.LagrangePolynomial.Evaluate", "aliased-argument-or-result", "at", ab, "before", before[j], "after", now)
						break
					}
				}
			}
			// ShareWithID: the identifier is an operand; one counter scalar is
			// re-used for several calls (and overwritten afterwards), and the ID
			// of a share is overwritten: neither reaches the other one, and the
			// earlier shares still recover the secret
			{
				sec := g.RandomScalar(r)
				secb, _ := sec.MarshalBinary()
				sw := secretsharing.New(lib.NewRng("c11/ss-id", i), 2, sec)
				id := g.NewScalar()
				var shs []secretsharing.Share
				var ids [][]byte
				for j := 1; j <= 4; j++ {
					id.SetUint64(uint64(10 + j))
					ib, _ := id.MarshalBinary()
					ids = append(ids, ib)
					shs = append(shs, sw.ShareWithID(id))
				}
				id.SetUint64(777)
				lib.Count("reuse:share-with-id-counter-reused")
				okIDs := true
				for j, sh := range shs {
					b, _ := sh.ID.MarshalBinary()
					okIDs = okIDs && lib.Eq(b, ids[j])
				}
				var rec group.Scalar
				var rerr error
				pn := lib.Try("secretsharing.Recover:after-id-reuse", secb, func() { rec, rerr = secretsharing.Recover(2, shs[:3]) })
				var rb []byte
				if pn == nil && rerr == nil {
					rb, _ = rec.MarshalBinary()
				}
				if !okIDs || pn != nil || rerr != nil || !lib.Eq(rb, secb) {
					reuseViol("secretsharing.ShareWithID", "aliased-argument-or-result", "share_ids_kept", okIDs, "recover_panicked", pn != nil, "err", rerr, "recovered_ok", lib.Eq(rb, secb))
				}
				id2 := g.NewScalar().SetUint64(5)
				sh := sw.ShareWithID(id2)
				sh.ID.SetUint64(6)
				ib, _ := id2.MarshalBinary()
				want, _ := g.NewScalar().SetUint64(5).MarshalBinary()
				if !lib.Eq(ib, want) {
					reuseViol("secretsharing.ShareWithID", "operand-modified", "what", "writing to the share's ID changed the caller's identifier")
				}
			}
			secret := g.RandomScalar(r)
			sb, _ := secret.MarshalBinary()
			ss := secretsharing.New(lib.NewRng("c11/ss", i), 1, secret)
			sh0 := ss.Share(3)
			secret.SetUint64(1)
			sh0[0].Value.SetUint64(5)
			sh0[0].ID.SetUint64(5)
			sh1 := ss.Share(3)
			rec, err := secretsharing.Recover(1, sh1[:2])
			if err != nil {
				reuseViol("secretsharing", "recover-failed", "err", err)
				continue
			}
			rb, _ := rec.MarshalBinary()
			lib.Case([]byte("secretsharing"), sb)
			if !lib.Eq(rb, sb) {
				reuseViol("secretsharing.New/Share", "aliased-argument-or-result", "secret", sb, "recovered", rb)
			}
		}
	}
}

// k12Independence: a cloned KangarooTwelve state and its original are
// independent objects whatever has been absorbed (more than one 8192-byte
// chunk puts data into the lane buffer of the parallel back-ends): after
// diverging writes each one returns the digest of its own input, equal to a
// fresh state fed the same bytes; Reset makes a used state equal to a fresh one.
func k12Independence(r *lib.Rng) {
	sum := func(parts ...[]byte) []byte {
		h := k12.NewDraft10([]byte("c11"))
		for _, p := range parts {
			_, _ = h.Write(p)
		}
		out := make([]byte, 32)
		_, _ = h.Read(out)
		return out
	}
	for _, n := range []int{0, 100, 8192, 8193, 9000, 3*8192 + 17, 5*8192 - 1, 9 * 8192} {
		prefix := r.Bytes(n)
		a, b := r.Bytes(1+r.Intn(20000)), r.Bytes(1+r.Intn(20000))
		h := k12.NewDraft10([]byte("c11"))
		_, _ = h.Write(prefix)
		c := h.Clone()
		_, _ = h.Write(a)
		_, _ = c.Write(b)
		outH, outC := make([]byte, 32), make([]byte, 32)
		_, _ = h.Read(outH)
		_, _ = c.Read(outC)
		lib.Case([]byte("k12-clone"), prefix[:min(len(prefix), 16)], a[:1], b[:1])
		lib.Count("reuse:k12-clone-diverged")
		if !lib.Eq(outH, sum(prefix, a)) || !lib.Eq(outC, sum(prefix, b)) {
			reuseViol("k12.State.Clone", "clone-not-independent", "prefix_len", n, "original_ok", lib.Eq(outH, sum(prefix, a)), "clone_ok", lib.Eq(outC, sum(prefix, b)))
		}
		// an abandoned state (no Read) is reset and re-used
		u := k12.NewDraft10([]byte("c11"))
		_, _ = u.Write(prefix)
		_, _ = u.Write(a[:len(a)/2])
		u.Reset()
		_, _ = u.Write(b)
		outU := make([]byte, 32)
		_, _ = u.Read(outU)
		if !lib.Eq(outU, sum(b)) {
			reuseViol("k12.State.Reset", "stale-state-after-reset", "abandoned_len", n+len(a)/2, "new_len", len(b))
		}
	}
}

func reuseBLS[K bls.KeyGroup](what string, r *lib.Rng, msg []byte) {
	kA, _ := bls.KeyGen[K](r.Bytes(32), nil, nil)
	kB, _ := bls.KeyGen[K](r.Bytes(32), nil, nil)
	a, _ := kA.MarshalBinary()
	b, _ := kB.MarshalBinary()
	reuseBin(what, new(bls.PrivateKey[K]), new(bls.PrivateKey[K]), a, b, func(k any) []byte {
		sk := k.(*bls.PrivateKey[K])
		p, _ := sk.PublicKey().MarshalBinary()
		return append(p, bls.Sign(sk, msg)...)
	})
}

// adapters giving Unpack-style keys the BinaryUnmarshaler shape
type unpacker[T any] struct {
	k  T
	f  func([]byte, *T) error
	mb func(*T) ([]byte, error)
}

func (u *unpacker[T]) UnmarshalBinary(b []byte) error { return u.f(b, &u.k) }
func (u *unpacker[T]) inner() any                     { return &u.k }
func (u *unpacker[T]) MarshalBinary() ([]byte, error) {
	return any(&u.k).(encoding.BinaryMarshaler).MarshalBinary()
}
func unp[T any](f func([]byte, *T) error) *unpacker[T] { return &unpacker[T]{f: f} }

type mlkemSK768 struct{ k mlkem768.PrivateKey }

func (u *mlkemSK768) UnmarshalBinary(b []byte) error { return u.k.Unpack(b) }
func (u *mlkemSK768) inner() any                     { return &u.k }
func (u *mlkemSK768) MarshalBinary() ([]byte, error) { return u.k.MarshalBinary() }

type mlkemPK768 struct{ k mlkem768.PublicKey }

func (u *mlkemPK768) UnmarshalBinary(b []byte) error { return u.k.Unpack(b) }
func (u *mlkemPK768) MarshalBinary() ([]byte, error) { return u.k.MarshalBinary() }

type oprfSK struct {
	su oprf.Suite
	k  oprf.PrivateKey
}

func (u *oprfSK) UnmarshalBinary(b []byte) error { return u.k.UnmarshalBinary(u.su, b) }
func (u *oprfSK) inner() any                     { return &u.k }
func (u *oprfSK) MarshalBinary() ([]byte, error) { return u.k.MarshalBinary() }
