//go:build verif && ((!purego && arm64) || (!purego && amd64))

// C12 white-box monitor of the P-384 field routines (assembly): operands in
// [0,p) placed in guard-page buffers, every aliasing pattern, results compared
// with math/big as residues and required to stay below p (the routines'
// operands must be < p, so their results have to be as well).
package p384

import (
	"math/big"
	"testing"
	"unsafe"

	bf "github.com/cloudflare/circl/internal/zzverif/ref/bigfield"

	"github.com/cloudflare/circl/internal/zzverif/lib"
)

const vc12Mon = "TestVerifC12P384Field"

func vc12E(p unsafe.Pointer) *fp384 { return (*fp384)(p) }

func vc12Viol(key string, kv ...any) { lib.Violation("C12:"+key, vc12Mon, lib.D(kv...)) }

func TestVerifC12P384Field(t *testing.T) {
	pm := bf.B("0xfffffffffffffffffffffffffffffffffffffffffffffffffffffffffffffffeffffffff0000000000000000ffffffff")
	if bf.FromLE(p[:]).Cmp(pm) != 0 {
		t.Fatal("p384: modulus differs from the oracle's")
	}
	lib.Flag("p384.hasBMI2", vc12HasBMI2())
	R := bf.Pow2(384)
	Rinv := new(big.Int).ModInverse(R, pm)
	R2 := bf.Mod(new(big.Int).Mul(R, R), pm)
	if bf.FromLE(r2[:]).Cmp(R2) != 0 {
		t.Fatal("p384: r2 is not R^2 mod p")
	}
	n := "p384"
	lib.Mandatory(n+":tuples", n+":add:wrapped", n+":add:sum-in[p,2^384)", n+":add:sum>=2^384", n+":sub:borrowed", n+":neg:zero", n+":inv:zero", n+":mul:x=y", n+":encode:unreduced-input")
	gen := &bf.Gen{P: pm, Bits: 384, C: 1 << 32, Extra: []*big.Int{
		bf.Mod(R, pm), R2, new(big.Int).Sub(pm, bf.Mod(R, pm)), bf.Pow2(383), bf.Pow2(128), bf.Pow2(96), bf.Pow2(32),
		new(big.Int).Sub(bf.Pow2(128), bf.Pow2(96)), new(big.Int).Rsh(pm, 1),
	}}
	pool := bf.NewGPool(sizeFp)
	le := func(v *big.Int) []byte { return bf.LE(v, sizeFp) }
	total := lib.Scale(20000, 2000000)
	bf.Chunks(total, 256, func(lo, hi int, c bf.Ctr) {
		m := pool.Get()
		defer pool.Put(m)
		for i := lo; i < hi; i++ {
			r := lib.NewRng("c12/p384", i)
			xv := gen.Draw(r)
			var yv *big.Int
			switch r.Intn(10) {
			case 0:
				yv = new(big.Int).Set(xv)
			case 1: // x + y = p +- d
				yv = bf.Mod(new(big.Int).Add(new(big.Int).Sub(pm, xv), big.NewInt(int64(r.Intn(5)-2))), pm)
			case 2: // x + y = 2^384 +- d (only representable when x > 2^384 - p)
				yv = new(big.Int).Sub(R, xv)
				yv.Add(yv, big.NewInt(int64(r.Intn(5)-2)))
				if yv.Sign() < 0 || yv.Cmp(pm) >= 0 {
					yv = gen.Draw(r)
				}
			case 3:
				yv = bf.Mod(new(big.Int).Add(xv, big.NewInt(int64(r.Intn(5)-2))), pm)
			case 4, 5: // x*y/R lands on 0, +-1, +-2, +-3: the final conditional subtraction decides
				if yv = gen.Partner(r, xv, R); yv == nil {
					yv = gen.Draw(r)
				}
			default:
				yv = gen.Draw(r)
			}
			pat := i % bf.NAlias
			an := bf.AliasName[pat]
			x, y, junk := le(xv), le(yv), r.Bytes(sizeFp)
			if !lib.Thorough() || i%8 == 0 {
				lib.Distinct([]byte(n), x, y, []byte{byte(pat)})
			}
			c.Add("evaluations", 10)
			c.Inc(n + ":tuples")
			in := append(append(lib.Clone(x), y...), byte(pat))
			pn := lib.Try("p384.field", in, func() {
				type binop struct {
					name string
					op   func(z, a, b unsafe.Pointer)
					f    func(a, b *big.Int) *big.Int
				}
				for _, o := range []binop{
					{"fp384Add", func(z, a, b unsafe.Pointer) { fp384Add(vc12E(z), vc12E(a), vc12E(b)) }, func(a, b *big.Int) *big.Int { return new(big.Int).Add(a, b) }},
					{"fp384Sub", func(z, a, b unsafe.Pointer) { fp384Sub(vc12E(z), vc12E(a), vc12E(b)) }, func(a, b *big.Int) *big.Int { return new(big.Int).Sub(a, b) }},
					{"fp384Mul", func(z, a, b unsafe.Pointer) { fp384Mul(vc12E(z), vc12E(a), vc12E(b)) }, func(a, b *big.Int) *big.Int {
						return new(big.Int).Mul(new(big.Int).Mul(a, b), Rinv)
					}},
				} {
					got, ye, clob := bf.Bin3B(pat, m, x, y, junk, o.op)
					yev := bf.FromLE(ye)
					raw := o.f(xv, yev)
					switch o.name {
					case "fp384Add":
						if raw.Cmp(pm) >= 0 {
							c.Inc(n + ":add:wrapped")
							if raw.Cmp(R) >= 0 {
								c.Inc(n + ":add:sum>=2^384")
							} else {
								c.Inc(n + ":add:sum-in[p,2^384)")
							}
						}
					case "fp384Sub":
						if raw.Sign() < 0 {
							c.Inc(n + ":sub:borrowed")
						}
					case "fp384Mul":
						if pat == bf.AliasXY || pat == bf.AliasZXY {
							c.Inc(n + ":mul:x=y")
						}
					}
					want := bf.Mod(raw, pm)
					g := bf.FromLE(got)
					if bf.Mod(g, pm).Cmp(want) != 0 {
						vc12Viol("wrong-residue:p384."+o.name, "x", x, "y", ye, "alias", an, "got", got, "want", le(want))
					} else if g.Cmp(pm) >= 0 {
						vc12Viol("unreduced-output:p384."+o.name, "x", x, "y", ye, "alias", an, "got", got)
					}
					if clob {
						vc12Viol("operand-modified:p384."+o.name, "x", x, "y", ye, "alias", an)
					}
				}
				alias := pat == bf.AliasZX || pat == bf.AliasZXY
				type unop struct {
					name string
					op   func(z, a unsafe.Pointer)
					f    func(a *big.Int) *big.Int
				}
				for _, o := range []unop{
					{"fp384Neg", func(z, a unsafe.Pointer) { fp384Neg(vc12E(z), vc12E(a)) }, func(a *big.Int) *big.Int { return new(big.Int).Neg(a) }},
					{"fp384Sqr", func(z, a unsafe.Pointer) { fp384Sqr(vc12E(z), vc12E(a)) }, func(a *big.Int) *big.Int { return new(big.Int).Mul(new(big.Int).Mul(a, a), Rinv) }},
					{"montEncode", func(z, a unsafe.Pointer) { montEncode(vc12E(z), vc12E(a)) }, func(a *big.Int) *big.Int { return new(big.Int).Mul(a, R) }},
					{"montDecode", func(z, a unsafe.Pointer) { montDecode(vc12E(z), vc12E(a)) }, func(a *big.Int) *big.Int { return new(big.Int).Mul(a, Rinv) }},
					{"fp384Inv", func(z, a unsafe.Pointer) { fp384Inv(vc12E(z), vc12E(a)) }, func(a *big.Int) *big.Int {
						// x = aR  ->  a^-1 R = R^2 / x ; x^(p-2) of zero is zero
						if a.Sign() == 0 {
							return new(big.Int)
						}
						return new(big.Int).Mul(R2, new(big.Int).ModInverse(a, pm))
					}},
				} {
					got, clob := bf.Un2B(alias, m, x, junk, o.op)
					want := bf.Mod(o.f(xv), pm)
					g := bf.FromLE(got)
					if bf.Mod(g, pm).Cmp(want) != 0 {
						vc12Viol("wrong-residue:p384."+o.name, "x", x, "alias", alias, "got", got, "want", le(want))
					} else if g.Cmp(pm) >= 0 {
						vc12Viol("unreduced-output:p384."+o.name, "x", x, "alias", alias, "got", got)
					}
					if clob {
						vc12Viol("operand-modified:p384."+o.name, "x", x)
					}
				}
				if xv.Sign() == 0 {
					c.Inc(n + ":neg:zero")
					c.Inc(n + ":inv:zero")
				}
				// fp384Cmov: exact
				for b := 0; b < 2; b++ {
					px, py := m.Buf[1], m.Buf[2]
					copy(px, x)
					copy(py, y)
					fp384Cmov(vc12E(bf.Ptr(px)), vc12E(bf.Ptr(py)), b)
					w := x
					if b == 1 {
						w = y
					}
					if !lib.Eq(px, w) || !lib.Eq(py, y) {
						vc12Viol("wrong-value:p384.fp384Cmov", "x", x, "y", y, "b", b, "got", lib.Clone(px))
					}
				}
				// SetBigInt / BigInt, and montEncode on what SetBigInt lets through unreduced ([p, 2^384))
				var e fp384
				bigIn := new(big.Int).Set(xv)
				switch r.Intn(4) {
				case 0:
					bigIn.Neg(bigIn).Sub(bigIn, big.NewInt(int64(r.Intn(3))))
				case 1:
					bigIn.Add(bigIn, new(big.Int).Lsh(pm, uint(1+r.Intn(70))))
				}
				e.SetBigInt(bigIn)
				if g := e.BigInt(); bf.Mod(g, pm).Cmp(bf.Mod(bigIn, pm)) != 0 || (bigIn.Sign() >= 0 && bigIn.BitLen() <= 384 && g.Cmp(bigIn) != 0) {
					vc12Viol("wrong-value:p384.fp384.SetBigInt", "in", bigIn.String(), "got", e[:])
				}
				if i%4 == 0 {
					uv := new(big.Int).Add(pm, new(big.Int).Mod(xv, new(big.Int).Sub(R, pm)))
					var u fp384
					u.SetBigInt(uv)
					if u.BigInt().Cmp(uv) == 0 { // stays unreduced: this is what IsOnCurve feeds to montEncode
						c.Inc(n + ":encode:unreduced-input")
						ux := le(uv)
						got, _ := bf.Un2B(alias, m, ux, junk, func(z, a unsafe.Pointer) { montEncode(vc12E(z), vc12E(a)) })
						g := bf.FromLE(got)
						want := bf.Mod(new(big.Int).Mul(uv, R), pm)
						if bf.Mod(g, pm).Cmp(want) != 0 {
							vc12Viol("wrong-residue:p384.montEncode:unreduced-input", "x", ux, "got", got, "want", le(want))
						} else if g.Cmp(pm) >= 0 {
							vc12Viol("unreduced-output:p384.montEncode:unreduced-input", "x", ux, "got", got)
						}
					}
				}
			})
			if pn != nil {
				vc12Viol("panic:p384.field", "x", x, "y", y, "alias", an, "panic", pn.Value, "frame", pn.TopFrame())
			}
			if i < 2 {
				lib.Sample(vc12Mon, lib.D("x", x, "y", y, "alias", an))
			}
		}
	})
}
