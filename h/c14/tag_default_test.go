//go:build verif && !purego

package c14

const buildPurego = false
