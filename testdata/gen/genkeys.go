// Command genkeys produces the fixed RSA test keys stored in ../rsa.
// It is run once, by hand; the checks only read the PEM files.
//
//	plain-<bits>.pem  two-prime keys from crypto/rsa (sizes incl. 2041 so that
//	                  emBits = modBits-1 is a multiple of 8 and the PSS encoded
//	                  message is one byte shorter than the modulus)
//	safe-<bits>.pem   moduli that are products of two safe primes
//	                  (tss/rsa.GenerateKey), required by partiallyblindrsa
package main

import (
	"crypto/rand"
	"crypto/rsa"
	"crypto/x509"
	"encoding/pem"
	"fmt"
	"os"
	"strconv"

	tss "github.com/cloudflare/circl/tss/rsa"
)

func write(name string, k *rsa.PrivateKey) {
	b := pem.EncodeToMemory(&pem.Block{Type: "RSA PRIVATE KEY", Bytes: x509.MarshalPKCS1PrivateKey(k)})
	if err := os.WriteFile(name, b, 0o644); err != nil {
		panic(err)
	}
	fmt.Println("wrote", name, k.N.BitLen())
}

func main() {
	kind, bits := os.Args[1], os.Args[2]
	n, _ := strconv.Atoi(bits)
	switch kind {
	case "plain":
		k, err := rsa.GenerateKey(rand.Reader, n)
		if err != nil {
			panic(err)
		}
		write("../rsa/plain-"+bits+".pem", k)
	case "safe":
		k, err := tss.GenerateKey(rand.Reader, n)
		if err != nil {
			panic(err)
		}
		write("../rsa/safe-"+bits+".pem", k)
	}
}
