//go:build verif

// C10 — no byte string makes a parser, verifier, opener or decapsulator panic.
//
// A registry of decoding entry points of the public API; each entry is a
// closure over one attacker-controlled byte string plus a seed corpus made by
// the matching encoder.  Oracle: recover() (panic => violation with the
// journaled input); a child that dies is reported by the orchestrator from the
// crash journal.
package c10

import (
	"sort"
	"testing"

	"github.com/cloudflare/circl/internal/zzverif/lib"
)

func TestMain(m *testing.M) { lib.Main(m) }

type entry struct {
	name  string
	seeds [][]byte
	f     func(b []byte)
	// fixed > 0: the entry point documents a panic for any other length, so
	// only inputs of exactly this length are presented.
	fixed int
	// max caps the number of inputs (slow entry points); 0 = no cap.
	max int
	// extra hostile inputs.
	extra [][]byte
	// must: hostile inputs that are never thinned out by max.
	must [][]byte
	// serial: the closure shares an object that is not promised to be safe
	// for concurrent use (a Prio3 instance holds a XOF state), so inputs are
	// presented one at a time.
	serial bool
}

var registry = map[string][]entry{}

func reg(group string, e entry) { registry[group] = append(registry[group], e) }

func runGroup(t *testing.T, group string) {
	es := registry[group]
	if len(es) == 0 {
		t.Fatalf("empty registry group %q", group)
	}
	lib.Mandatory("entries:" + group)
	for _, e := range es {
		e := e
		lib.Count("entries:" + group)
		r := lib.NewRng("c10/"+e.name, 0)
		var inputs [][]byte
		nfl := lib.Scale(256, 4096)
		for _, s := range e.seeds {
			for _, m := range lib.Mutations(r, s, nfl) {
				inputs = append(inputs, m.Data)
			}
			inputs = append(inputs, s)
			mi := magicInputs(s)
			sort.Slice(mi, func(i, j int) bool { return string(mi[i]) < string(mi[j]) })
			inputs = append(inputs, mi...)
		}
		inputs = append(inputs, e.extra...)
		inputs = append(inputs, []byte{}, nil)
		// inputs longer than 2^16 bytes whose 16-bit length-like fields are
		// at their maximum: length arithmetic done in uint16 wraps there
		if e.fixed == 0 {
			for _, s := range e.seeds[:1] {
				for _, total := range []int{65535 + 8, 65536 + len(s), 70000} {
					big := make([]byte, total)
					copy(big, s)
					for i := len(s); i < total; i++ {
						big[i] = 0xFF
					}
					inputs = append(inputs, big)
					lim := len(s)
					if lim > 48 {
						lim = 48
					}
					for o := 0; o+2 <= lim; o++ {
						c := lib.Clone(big)
						c[o], c[o+1] = 0xFF, 0xFF
						inputs = append(inputs, c)
					}
				}
			}
		}
		if e.fixed > 0 {
			var keep [][]byte
			for _, in := range inputs {
				if len(in) == e.fixed {
					keep = append(keep, in)
				}
			}
			for k := 0; k < lib.Scale(200, 5000); k++ {
				keep = append(keep, r.EdgeBytes(e.fixed, 0))
			}
			inputs = keep
		}
		max := e.max
		if max > 0 && lib.Thorough() {
			max *= 20
		}
		if max > 0 && len(inputs) > max {
			// deterministic thinning, keeping a spread of every class
			step := float64(len(inputs)) / float64(max)
			var keep [][]byte
			for k := 0; k < max; k++ {
				keep = append(keep, inputs[int(float64(k)*step)])
			}
			inputs = keep
		}
		inputs = append(inputs, e.must...)
		// nested formats: one length-prefixed element emptied / shortened /
		// lengthened with every enclosing prefix corrected (never thinned out)
		if e.fixed == 0 {
			for _, s := range e.seeds {
				rw := lib.LenPrefixRewrites(s, lib.Scale(96, 600))
				lib.CountN("len-prefix-rewrites", len(rw))
				inputs = append(inputs, rw...)
			}
		}
		var panics int64
		par := lib.Par
		if e.serial {
			par = func(n int, f func(int)) {
				for i := 0; i < n; i++ {
					f(i)
				}
			}
		}
		par(len(inputs), func(i int) {
			in := inputs[i]
			lib.Case([]byte(e.name), in)
			if p := lib.Try(e.name, in, func() { e.f(in) }); p != nil {
				lib.Count("panics")
				lib.Violation("C10:panic:"+e.name+":"+p.Class(), "TestVerif"+group,
					lib.D("entry", e.name, "input", in, "input_len", len(in), "panic", p.Value, "frame", p.TopFrame(), "stack", trimStack(p.Stack)))
				panics++
			}
		})
		lib.CountN("inputs:"+e.name, len(inputs))
	}
	names := make([]string, 0, len(es))
	for _, e := range es {
		names = append(names, e.name)
	}
	sort.Strings(names)
	lib.Sample("TestVerif"+group, map[string]any{"entry_points": names})
}

// magic holds the moduli and group orders of the library's curves and fields:
// decoders compare against them, and "equal to the modulus" is the input most
// likely to take an untested branch.
var magic = func() [][]byte {
	hexes := []string{
		"1000000000000000000000000000000014def9dea2f79cd65812631a5cf5d3ed",                                                                       // ed25519 / ristretto255 order
		"7fffffffffffffffffffffffffffffffffffffffffffffffffffffffffffffed",                                                                       // 2^255-19
		"3fffffffffffffffffffffffffffffffffffffffffffffffffffffff7cca23e9c44edb49aed63690216cc2728dc58f552378c292ab5844f3",                       // ed448 order
		"fffffffffffffffffffffffffffffffffffffffffffffffffffffffeffffffffffffffffffffffffffffffffffffffffffffffffffffffff",                       // 2^448-2^224-1
		"ffffffff00000000ffffffffffffffffbce6faada7179e84f3b9cac2fc632551",                                                                       // P-256 n
		"ffffffff00000001000000000000000000000000ffffffffffffffffffffffff",                                                                       // P-256 p
		"ffffffffffffffffffffffffffffffffffffffffffffffffc7634d81f4372ddf581a0db248b0a77aecec196accc52973",                                       // P-384 n
		"fffffffffffffffffffffffffffffffffffffffffffffffffffffffffffffffeffffffff0000000000000000ffffffff",                                       // P-384 p
		"01fffffffffffffffffffffffffffffffffffffffffffffffffffffffffffffffffffa51868783bf2f966b7fcc0148f709a5d03bb5c9b8899c47aebb6fb71e91386409", // P-521 n
		"01ffffffffffffffffffffffffffffffffffffffffffffffffffffffffffffffffffffffffffffffffffffffffffffffffffffffffffffffffffffffffffffffffffff", // P-521 p
		"73eda753299d7d483339d80809a1d80553bda402fffe5bfeffffffff00000001",                                                                       // BLS12-381 r
		"1a0111ea397fe69a4b1ba7b6434bacd764774b84f38512bf6730d2a0f6b0f6241eabfffeb153ffffb9feffffffffaaab",                                       // BLS12-381 p
		"7fffffffffffffffffffffffffffffff", // 2^127-1
		"ffffffff00000001",                 // prio3 Fp64
		"ffffffffffffffe40000000000000001", // prio3 Fp128
	}
	var out [][]byte
	for _, h := range hexes {
		be := lib.MustHex(h)
		for delta := -1; delta <= 1; delta++ {
			v := lib.Clone(be)
			// add delta (big endian)
			for i, d := len(v)-1, delta; i >= 0 && d != 0; i-- {
				n := int(v[i]) + d
				v[i] = byte(n)
				if n < 0 {
					d = -1
				} else if n > 255 {
					d = 1
				} else {
					d = 0
				}
			}
			le := make([]byte, len(v))
			for i := range v {
				le[len(v)-1-i] = v[i]
			}
			out = append(out, v, le)
		}
	}
	return out
}()

// magicInputs overwrites the head, the tail and (for short encodings) every
// aligned window of a valid encoding with each magic constant; constants
// followed by a zero byte cover the 57-byte Ed448 scalar form.
func magicInputs(valid []byte) [][]byte {
	var out [][]byte
	n := len(valid)
	for _, m := range magic {
		for _, c := range [][]byte{m, append(lib.Clone(m), 0)} {
			l := len(c)
			if l > n {
				continue
			}
			offs := map[int]bool{0: true, n - l: true}
			if n <= 256 {
				for o := 0; o+l <= n; o += l {
					offs[o] = true
				}
				for o := n - l; o >= 0; o -= l {
					offs[o] = true
				}
			}
			for o := range offs {
				v := lib.Clone(valid)
				copy(v[o:], c)
				out = append(out, v)
			}
		}
	}
	return out
}

func trimStack(s string) string {
	if len(s) > 1800 {
		return s[:1800]
	}
	return s
}

func seedBytes(stream string, i, n int) []byte { return lib.NewRng("c10/seed/"+stream, i).Bytes(n) }

func mb(m interface{ MarshalBinary() ([]byte, error) }) []byte {
	b, err := m.MarshalBinary()
	if err != nil {
		panic("harness: MarshalBinary of an honest object failed: " + err.Error())
	}
	return b
}
