#!/usr/bin/env python3
# Generates /verif/MANIFEST.json from the table below and tools/claimed.txt
# (one property id per line = the checks that are finished and registered).
import json, os
P = {
 "C01": ("relational runtime monitor over observed KEM calls (round trip, determinism, marshal round trip, altered-ciphertext sweeps incl. implicit-rejection dependence on z and ct)", "3.C01"),
 "C02": ("relational runtime monitor over observed sign/verify calls with alteration sweeps (truncations, extensions, bit flips, S+L, mode/context/key swaps, degenerate BLS values)", "3.C02"),
 "C03": ("online differential monitor against an independent FIPS 203 / Kyber r3 reference model; exhaustive sweeps of scalar helpers through white-box hooks", "3.C03"),
 "C04": ("online differential monitor against an independent FIPS 204 / Dilithium 3.1 reference model; exhaustive sweeps of rounding helpers", "3.C04"),
 "C05": ("online differential monitor against an independent RFC 8032 big-integer reference with three-valued verification expectation, plus crypto/ed25519", "3.C05"),
 "C06": ("online differential monitor against an RFC 7748 big-integer ladder and crypto/ecdh, operands in guard-page buffers, per CPU back-end", "3.C06"),
 "C07": ("online differential monitor against an independent RFC 9180 reference (key schedule observed through the marshalled context), mismatch matrix, PSK-rule matrix", "3.C07"),
 "C08": ("history monitor: generated operation histories stepped against a sequential HPKE context model; nonce inferred by trial decryption; offline check of nonce uniqueness over the event log", "3.C08"),
 "C09": ("decoder monitor: accepted strings judged by independent big-integer curve/subgroup oracles and re-serialisation equality; every-bit-flip and crafted non-member inputs", "3.C09"),
 "C10": ("panic/fault oracle over a registry of decoding entry points under structured hostile inputs; crash journal; checkptr build; race+ASan in thorough", "3.C10"),
 "C11": ("sequence/replay monitor with operand-preservation and global canary; 16-goroutine stress under the Go race detector with per-call sequential oracle", "3.C11"),
 "C12": ("online differential monitor of field/scalar operations against math/big on limb-edge operands with aliasing patterns, guard-page buffers, per CPU back-end", "3.C12"),
 "C13": ("online differential monitor of group operations against affine big-integer references; metamorphic pairing identities", "3.C13"),
 "C14": ("offline diff of per-operation digest logs recorded by the same seeded transcript in separate processes per build/CPU configuration", "3.C14"),
 "C15": ("history monitor of sponge Write/Read/Clone/Reset sequences against independent reference streams; Ascon differential + tamper sweep; lane-wise permutation check", "3.C15"),
 "C16": ("relational runtime monitor over OPRF/DLEQ/DL/qndleq/OT protocol runs with single-component alteration matrix and degenerate proofs", "3.C16"),
 "C17": ("runtime monitor enumerating (t,n) / (l,k) and share subsets with crypto/rsa and direct reconstruction as oracles", "3.C17"),
 "C18": ("runtime monitor of blind-RSA protocol runs with crypto/rsa.VerifyPSS as differential oracle for signatures and verifier verdicts", "3.C18"),
 "C19": ("runtime monitor of full Prio3 protocol runs against the directly computed aggregate, single-field alteration matrix, invalid-measurement injection, constructor grid", "3.C19"),
 "C20": ("runtime monitor of generated policy programs x attribute assignments against an independent evaluator of the stated semantics; ciphertext bit-flip sweep", "3.C20"),
}
here = os.path.dirname(os.path.dirname(os.path.abspath(__file__)))
claimed = [l.strip() for l in open(os.path.join(here, "tools/claimed.txt")) if l.strip() and not l.startswith("#")]
na_reason = {}
p = os.path.join(here, "tools/not_applicable.json")
if os.path.exists(p):
    na_reason = json.load(open(p))
checks = []
for pid in sorted(P):
    if pid not in claimed:
        continue
    tech, ref = P[pid]
    checks.append({
        "property_id": pid,
        "quick_cmd": f"./bin/vcheck {pid} --tier quick",
        "thorough_cmd": f"./bin/vcheck {pid} --tier thorough",
        "evidence_file": f"/verif/evidence/{pid}.json",
        "replay_cmd_template": "./bin/vcheck --replay {path}",
        "engine": "vcheck",
        "level_claimed": {
            "category": "exploration",
            "text": "Runtime monitoring: the real code is executed on seeded, edge-biased and hostile workloads while an oracle observes every execution (" + tech + "). The verdict is 'held on the executions observed' - the evidence file lists how many executions, which configurations and which rare branches were actually seen; it is not a proof over all inputs.",
            "design_ref": "DESIGN.md section " + ref,
        },
        "level_note": "Trusted: the Go toolchain and race detector, math/big, crypto/* and golang.org/x/crypto primitives used by the reference models, and the reference models themselves (self-validated against published vectors at run time; a failing self-check makes the run inconclusive). Paths the workload does not drive are not covered; arm64 back-ends cannot run here.",
        "technique": "runtime monitoring: " + tech,
    })
na = [{"property_id": pid, "reason": na_reason.get(pid, "monitor not finished in this session; not claimed (runtime monitoring applies, see DESIGN.md section " + P[pid][1] + ")")} for pid in sorted(P) if pid not in claimed]
m = {
 "version": 1,
 "setup_cmd": "cd /verif && GOFLAGS=-mod=mod GOPROXY=off GOSUMDB=off GOTOOLCHAIN=local go build -o bin/vcheck ./cmd/vcheck",
 "hooks": {
  "guard": "verif",
  "enable": "go test -c -vet=off -tags verif -overlay /verif/build/<ID>/overlay.json (monitor files live in /verif/h and are overlaid onto /repo at build time; /repo carries no hook code)",
  "baseline_off_cmd": "cd /repo && GOFLAGS=-mod=mod go test -json -vet=off -count=1 -timeout 25m ./...",
  "source_commits": [],
  "add_only": True,
 },
 "engines": [{"name": "vcheck", "path": "/verif/cmd/vcheck", "serves_properties": claimed,
              "kind_free_text": "orchestrator: overlays the monitors in /verif/h onto /repo's working tree, builds them per configuration (default, purego, -race, checkptr, -asan, GODEBUG cpu.* switches), runs them as child processes with a crash journal, merges their event/result files, runs offline checkers (race-report dedup, cross-configuration diff), filters known findings, writes evidence"}],
 "checks": checks,
 "not_applicable": na,
 "notes": "All checks: exit 0 held on everything observed, exit 1 + VIOLATION line, exit 2 + INCONCLUSIVE line (build failure of the harness against a modified tree, watchdog, mandatory counter zero). Known findings: /verif/known_findings.jsonl.",
}
json.dump(m, open(os.path.join(here, "MANIFEST.json"), "w"), indent=1)
print("claimed:", claimed)
