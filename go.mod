module verif

go 1.22
