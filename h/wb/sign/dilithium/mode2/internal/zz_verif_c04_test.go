//go:build verif

package internal

// C04 white-box monitors of one parameter set (this file is copied verbatim into the
// internal package of mldsa44/65/87 and dilithium mode2/3/5; the parameter set is
// taken from the package's own constants).
//
//   - decompose / makeHint / useHint / PolyDecompose / PolyMakeHint / PolyUseHint over
//     the whole domain [0,q) (x every r1, x {0,1}) against FIPS 204 Alg. 36-40
//   - LeqEta / LeGamma1 / W1 / hint packers over their whole coefficient domain at
//     every lane position, unpackers on arbitrary bytes
//   - ExpandA (scalar and x4), ExpandS, ExpandMask, SampleInBall (scalar and x4)
//   - unpackedSignature.Unpack verdict and contents on crafted encodings
//   - Sign_internal with chosen rnd / Verify_internal through internal.SignTo / Verify

import (
	"fmt"
	"io"
	"testing"

	"github.com/cloudflare/circl/internal/zzverif/lib"
	"github.com/cloudflare/circl/internal/zzverif/ref/mldsa"
	common "github.com/cloudflare/circl/sign/internal/dilithium"
)

const vc04Mon = "TestVerifC04Internal"

func vc04P(t *testing.T) *mldsa.Params {
	p := mldsa.ByName(Name)
	if p == nil {
		t.Fatalf("no reference parameter set %q", Name)
	}
	if p.K != K || p.L != L || p.Eta != Eta || p.Tau != Tau || p.Gamma1Bits != Gamma1Bits || p.Gamma2 != Gamma2 ||
		p.Omega != Omega || p.CTildeSize != CTildeSize || p.TRSize != TRSize || p.NIST != NIST ||
		p.SigSize() != SignatureSize || p.PKSize() != PublicKeySize || p.SKSize() != PrivateKeySize {
		// not t.Fatal: a changed constant in circl is a finding, not a broken oracle
		vc04Viol("parameter-mismatch", "params")
	}
	lib.Flag("scheme", Name)
	lib.Flag("x4", DeriveX4Available)
	return p
}

func vc04Viol(class, sub string, kv ...any) {
	d := lib.D(kv...)
	d["scheme"] = Name
	d["cfg"] = lib.Cfg()
	key := "C04:" + class + ":" + Name
	if sub != "" {
		key += ":" + sub
	}
	lib.Violation(key, vc04Mon, d)
}

func vc04ToRef(p *common.Poly) (o mldsa.Poly) {
	for i := range p {
		o[i] = int64(p[i] % common.Q)
	}
	return
}

func vc04SameModQ(p *common.Poly, want *mldsa.Poly) int {
	for i := range p {
		if int64(p[i]%common.Q) != want[i] {
			return i
		}
	}
	return -1
}

// ---------------------------------------------------------------- rounding

func TestVerifC04Rounding(t *testing.T) {
	p := vc04P(t)
	lib.Mandatory("decompose:checked", "decompose:corner-r1-wraps-to-0", "decompose:r0=-gamma2",
		"makeHint:checked", "makeHint:hint=1", "makeHint:z0=-gamma2,r1=0", "useHint:checked",
		"useHint:wrap-up", "useHint:wrap-down")
	const q = common.Q
	g2 := int64(Gamma2)
	m := p.M()
	nblocks := (q + 255) / 256
	lib.Par(nblocks, func(b int) {
		var vals, d0, d1 common.Poly
		n := 0
		for i := 0; i < 256; i++ {
			if v := b*256 + i; v < q {
				vals[i] = uint32(v)
				n++
			}
		}
		reported := map[string]bool{}
		local := map[string]int{}
		defer func() {
			for k, v := range local {
				lib.CountN(k, v)
			}
		}()
		report := func(fn string, kv ...any) {
			local["mismatches:"+fn]++
			if !reported[fn] {
				reported[fn] = true
				vc04Viol("rounding-mismatch", fn, kv...)
			}
		}
		PolyDecompose(&vals, &d0, &d1)
		var want0, want1 [256]int64
		for i := 0; i < n; i++ {
			a := vals[i]
			r1, r0 := mldsa.Decompose(g2, int64(a))
			want0[i], want1[i] = r0, r1
			a0, a1 := decompose(a)
			if int64(a0) != q+r0 || int64(a1) != r1 {
				report("decompose", "a", a, "circl_a0plusQ", a0, "circl_a1", a1, "fips204_r0", r0, "fips204_r1", r1)
			}
			if d0[i] != a0 || d1[i] != a1 {
				report("PolyDecompose", "a", a, "poly_a0plusQ", d0[i], "poly_a1", d1[i], "scalar_a0plusQ", a0, "scalar_a1", a1)
			}
			if r1 == 0 && r0 < 0 && int64(a) > g2 {
				local["decompose:corner-r1-wraps-to-0"]++
			}
			if r0 == -g2 {
				local["decompose:r0=-gamma2"]++
			}
		}
		lib.CountN("decompose:checked", n)

		// useHint (scalar helper) and PolyUseHint (what Verify runs), both hint values
		for s := uint32(0); s < 2; s++ {
			var hint, out common.Poly
			for i := range hint {
				hint[i] = (uint32(i) + s) & 1
			}
			PolyUseHint(&out, &vals, &hint)
			for i := 0; i < n; i++ {
				h := int64(hint[i])
				want := mldsa.UseHint(g2, h, int64(vals[i]))
				if int64(out[i]) != want {
					report("PolyUseHint", "r", vals[i], "hint", h, "circl", out[i], "fips204", want)
				}
				if got := useHint(vals[i], hint[i]); int64(got) != want {
					report("useHint-scalar", "r", vals[i], "hint", h, "circl", got, "fips204", want, "m", m)
				}
				if h == 1 && want1[i] == m-1 && want == 0 {
					local["useHint:wrap-up"]++
				}
				if h == 1 && want1[i] == 0 && want == m-1 {
					local["useHint:wrap-down"]++
				}
			}
		}
		lib.CountN("useHint:checked", 2*n)

		// makeHint(z0, r1): z0 = r0 - f (mod q) with r0 the low part belonging to r1 and
		// |f| <= gamma2, so r - f = r1*alpha + z0 (mod q) and the hint says whether the
		// high bits of r - f differ from r1.  Checked for every z0 whose centred value
		// lies in [-2 gamma2, 2 gamma2] (everything the signer can produce) and every r1.
		ones := 0
		for r1 := int64(0); r1 < m; r1++ {
			var p1, hp common.Poly
			for i := range p1 {
				p1[i] = uint32(r1)
			}
			pop := PolyMakeHint(&hp, &vals, &p1)
			sum := uint32(0)
			for i := 0; i < 256; i++ {
				sum += hp[i]
				if i >= n {
					continue
				}
				z0 := vals[i]
				got := makeHint(z0, uint32(r1))
				if hp[i] != got {
					report("PolyMakeHint", "z0", z0, "r1", r1, "poly", hp[i], "scalar", got)
				}
				v := mldsa.Cent(int64(z0))
				if v < -2*g2 || v > 2*g2 {
					local["makeHint:outside-precondition"]++
					continue
				}
				want := int64(0)
				if mldsa.HighBits(g2, r1*2*g2+int64(z0)) != r1 {
					want = 1
				}
				if int64(got) != want {
					report("makeHint", "z0", z0, "r1", r1, "circl", got, "fips204", want)
				}
				ones += int(want)
				if v == -g2 && r1 == 0 {
					local["makeHint:z0=-gamma2,r1=0"]++
				}
			}
			if pop != sum {
				report("PolyMakeHint-popcount", "pop", pop, "sum", sum)
			}
		}
		lib.CountN("makeHint:checked", n*int(m))
		lib.CountN("makeHint:hint=1", ones)
		lib.CountN("evaluations", n*(3+int(m)))
	})
	lib.DistinctS("rounding", Name, "all of [0,q) x r1 x {0,1}")
}

// ---------------------------------------------------------------- packing

func TestVerifC04Pack(t *testing.T) {
	p := vc04P(t)
	lib.Mandatory("pack:LeqEta", "pack:LeGamma1", "pack:W1", "hint:accepted", "hint:rejected")
	const q = common.Q
	// LeqEta: coefficients q+eta-t, t in [0,2eta]
	for s := 0; s < 2*Eta+1; s++ {
		var a common.Poly
		for i := range a {
			a[i] = uint32(q + Eta - (i+s)%(2*Eta+1))
		}
		ra := vc04ToRef(&a)
		want := mldsa.BitPack(&ra, Eta, Eta)
		got := make([]byte, PolyLeqEtaSize)
		PolyPackLeqEta(&a, got)
		var b common.Poly
		PolyUnpackLeqEta(&b, got)
		if !lib.Eq(got, want) || a != b {
			vc04Viol("pack-mismatch", "PolyPackLeqEta", "poly", fmt.Sprint(a), "circl", got, "fips204", want, "roundtrip", a == b)
		}
		lib.Count("pack:LeqEta")
		lib.CaseS("LeqEta", fmt.Sprint(s))
	}
	// LeGamma1: all 2*gamma1 values of (-gamma1, gamma1], every lane offset
	lanes := 4
	if Gamma1Bits == 19 {
		lanes = 2
	}
	M := 2 * Gamma1
	lib.Par(lanes*M/256, func(c int) {
		off, blk := c%lanes, c/lanes
		var a common.Poly
		var ra mldsa.Poly
		for i := range a {
			idx := (blk*256 + i + off) % M
			ra[i] = mldsa.Mod(int64(Gamma1-idx), q)
			a[i] = uint32(ra[i])
		}
		want := mldsa.BitPack(&ra, Gamma1-1, Gamma1)
		got := make([]byte, PolyLeGamma1Size)
		PolyPackLeGamma1(&a, got)
		var b common.Poly
		PolyUnpackLeGamma1(&b, got)
		if !lib.Eq(got, want) || a != b {
			vc04Viol("pack-mismatch", "PolyPackLeGamma1", "poly", fmt.Sprint(a), "circl", got, "fips204", want, "roundtrip", a == b)
		}
		lib.Count("pack:LeGamma1")
		lib.CaseS("LeGamma1", fmt.Sprint(c))
	})
	// W1
	m := int(p.M())
	for s := 0; s < 2*m; s++ {
		var a common.Poly
		for i := range a {
			if s < m {
				a[i] = uint32((i + s) % m)
			} else {
				a[i] = uint32((i*5 + s) % m)
			}
		}
		ra := vc04ToRef(&a)
		want := mldsa.SimpleBitPack(&ra, int64(m-1))
		g := lib.NewGuarded(PolyW1Size, true)
		PolyPackW1(&a, g.Buf)
		if !lib.Eq(g.Buf, want) {
			vc04Viol("pack-mismatch", "PolyPackW1", "poly", fmt.Sprint(a), "circl", lib.Clone(g.Buf), "fips204", want)
		}
		g.Free()
		lib.Count("pack:W1")
		lib.CaseS("W1", fmt.Sprint(s))
	}
	// unpackers on arbitrary bytes
	n := lib.Scale(300, 10000)
	lib.Par(n, func(ci int) {
		r := lib.NewRng("c04/wb/unpack/"+Name, ci)
		var a common.Poly
		buf := r.EdgeBytes(PolyLeGamma1Size, 0)
		PolyUnpackLeGamma1(&a, buf)
		want := mldsa.BitUnpack(buf, Gamma1-1, Gamma1)
		if i := vc04SameModQ(&a, &want); i >= 0 || a != vc04FromRef(&want) {
			vc04Viol("pack-mismatch", "PolyUnpackLeGamma1", "buf", buf, "i", i)
		}
		buf = r.EdgeBytes(PolyLeqEtaSize, 0)
		PolyUnpackLeqEta(&a, buf)
		want = mldsa.BitUnpack(buf, Eta, Eta)
		if i := vc04SameModQ(&a, &want); i >= 0 {
			vc04Viol("pack-mismatch", "PolyUnpackLeqEta", "buf", buf, "i", i)
		}
		lib.Case([]byte("unpack"), buf)
	})
	// hint packing: random weight-limited vectors, then hostile edits of the encoding
	n = lib.Scale(3000, 200000)
	lib.Par(n, func(ci int) {
		r := lib.NewRng("c04/wb/hint/"+Name, ci)
		var v VecK
		h := make([][mldsa.N]uint8, K)
		w := r.Intn(Omega + 1)
		if ci%7 == 0 {
			w = Omega
		}
		for c := 0; c < w; {
			i, j := r.Intn(K), r.Intn(256)
			if ci%5 == 0 {
				i = ci % K // everything in one polynomial
			}
			if ci%11 == 0 {
				j = lib.Pick(r, 0, 1, 254, 255, r.Intn(256))
			}
			if h[i][j] == 0 {
				h[i][j] = 1
				v[i][j] = 1
				c++
			} else if ci%11 == 0 {
				c++
			}
		}
		want := p.HintBitPack(h)
		got := make([]byte, Omega+K)
		for i := range got {
			got[i] = 0xA5 // PackHint must overwrite every byte
		}
		v.PackHint(got)
		if !lib.Eq(got, want) {
			vc04Viol("pack-mismatch", "VecK.PackHint", "circl", got, "fips204", want)
			return
		}
		buf := lib.Clone(want)
		class := "valid"
		for e := r.Intn(4); e > 0; e-- {
			class = "edited"
			switch r.Intn(5) {
			case 0:
				buf[r.Intn(len(buf))] = byte(r.Intn(256))
			case 1:
				buf[Omega+r.Intn(K)] = byte(lib.Pick(r, 0, 1, Omega-1, Omega, Omega+1, 255, r.Intn(256)))
			case 2:
				i := r.Intn(Omega - 1)
				buf[i], buf[i+1] = buf[i+1], buf[i]
			case 3:
				i := r.Intn(Omega - 1)
				buf[i+1] = buf[i]
			case 4:
				buf[Omega-1-r.Intn(4)] = byte(lib.Pick(r, 0, 1, 255))
			}
		}
		if ci%13 == 0 {
			class = "random"
			buf = r.EdgeBytes(Omega+K, uint64(Omega))
		}
		wh, wok := p.HintBitUnpack(buf)
		var u VecK
		var gok bool
		lib.Case([]byte("hint"), []byte(Name), buf)
		if pan := lib.Try("UnpackHint:"+Name, buf, func() { gok = u.UnpackHint(buf) }); pan != nil {
			vc04Viol("panic-decode", "VecK.UnpackHint", "buf", buf, "panic", pan.Value, "fips204_ok", wok)
			return
		}
		if gok != wok {
			vc04Viol("verdict-mismatch", "hint-encoding-"+class, "entry", "VecK.UnpackHint", "buf", buf, "circl", gok, "fips204", wok)
			return
		}
		if wok {
			lib.Count("hint:accepted")
			for i := 0; i < K; i++ {
				for j := 0; j < 256; j++ {
					if u[i][j] != uint32(wh[i][j]) {
						vc04Viol("decode-mismatch", "VecK.UnpackHint", "buf", buf, "i", i, "j", j)
						return
					}
				}
			}
		} else {
			lib.Count("hint:rejected")
		}
	})
}

func vc04FromRef(p *mldsa.Poly) (o common.Poly) {
	for i := range p {
		o[i] = uint32(p[i])
	}
	return
}

// ---------------------------------------------------------------- samplers

// TestVerifC04SamplerBoundary drives ExpandA's rejection sampler with inputs
// whose SHAKE128 stream contains the boundary candidates: a 23-bit value equal
// to q (must be rejected) or to q-1 (must be kept).  Such a candidate occurs
// in about 3 of 100 000 polynomials, so for one seed all 65 536 nonces are
// scanned with the reference sampler and the portable and the four-way
// sampler are then run on exactly the nonces that hit a boundary (plus the
// ones with the most rejections).
func TestVerifC04SamplerBoundary(t *testing.T) {
	lib.Mandatory("sampler:boundary-candidate-eq-q", "sampler:boundary-candidate-eq-q-1")
	rounds := lib.Scale(1, 6)
	for round := 0; round < rounds; round++ {
		r := lib.NewRng("c04/wb/sampler-boundary", round) // same seeds for all parameter sets
		var s32 [32]byte
		r.Read(s32[:])
		type hit struct {
			nonce    uint16
			q, qm1   bool
			rejected int
		}
		hits := make([][]hit, 16)
		lib.Par(16, func(w int) {
			for n := w; n < 65536; n += 16 {
				_, q, qm1, rej := mldsa.RejNTTPolyBoundary(append(lib.Clone(s32[:]), byte(n), byte(n>>8)))
				if q || qm1 || rej >= 8 {
					hits[w] = append(hits[w], hit{uint16(n), q, qm1, rej})
				}
			}
		})
		var all []hit
		for _, h := range hits {
			all = append(all, h...)
		}
		for i, h := range all {
			lib.Case([]byte("sampler-boundary"), []byte(Name), s32[:], []byte{byte(h.nonce), byte(h.nonce >> 8)})
			if h.q {
				lib.Count("sampler:boundary-candidate-eq-q")
			}
			if h.qm1 {
				lib.Count("sampler:boundary-candidate-eq-q-1")
			}
			if h.rejected >= 8 {
				lib.Count("sampler:many-rejections")
			}
			want := mldsa.RejNTTPoly(append(lib.Clone(s32[:]), byte(h.nonce), byte(h.nonce>>8)))
			var a common.Poly
			PolyDeriveUniform(&a, &s32, h.nonce)
			if a != vc04FromRef(&want) {
				vc04Viol("sampler-mismatch", "PolyDeriveUniform", "seed", s32[:], "nonce", h.nonce, "candidate_eq_q", h.q, "candidate_eq_q_minus_1", h.qm1)
			}
			if DeriveX4Available {
				var ps [4]*common.Poly
				var store [4]common.Poly
				var nonces [4]uint16
				for j := 0; j < 4; j++ {
					nonces[j] = all[(i+j*7)%len(all)].nonce
					ps[j] = &store[j]
				}
				nonces[i%4] = h.nonce
				PolyDeriveUniformX4(ps, &s32, nonces)
				for j := 0; j < 4; j++ {
					w := mldsa.RejNTTPoly(append(lib.Clone(s32[:]), byte(nonces[j]), byte(nonces[j]>>8)))
					if store[j] != vc04FromRef(&w) {
						vc04Viol("sampler-mismatch", "PolyDeriveUniformX4", "seed", s32[:], "nonces", fmt.Sprint(nonces), "lane", j, "boundary", true)
					}
				}
			}
		}
	}
}

func TestVerifC04Samplers(t *testing.T) {
	p := vc04P(t)
	lib.Mandatory("sampler:cases")
	n := lib.Scale(150, 5000)
	lib.Par(n, func(ci int) {
		r := lib.NewRng("c04/wb/sampler/"+Name, ci)
		lib.Count("sampler:cases")
		var s32 [32]byte
		var s64 [64]byte
		copy(s32[:], r.EdgeBytes(32, 0))
		copy(s64[:], r.EdgeBytes(64, 0))
		if ci > 8 {
			r.Read(s32[:])
			r.Read(s64[:])
		}
		nonce := uint16(lib.Pick(r, 0, 1, 255, 256, 257, 0xffff, 0xfffe, int(r.U32()&0xffff), K<<8|L))
		lib.Case([]byte("sampler"), []byte(Name), s32[:], s64[:], []byte{byte(nonce), byte(nonce >> 8)})
		nb := []byte{byte(nonce), byte(nonce >> 8)}
		var a common.Poly
		// RejNTTPoly
		PolyDeriveUniform(&a, &s32, nonce)
		want := mldsa.RejNTTPoly(append(lib.Clone(s32[:]), nb...))
		if a != vc04FromRef(&want) {
			vc04Viol("sampler-mismatch", "PolyDeriveUniform", "seed", s32[:], "nonce", nonce)
		}
		if DeriveX4Available {
			var ps [4]*common.Poly
			var store [4]common.Poly
			var nonces [4]uint16
			mask := r.Intn(16)
			if ci%3 == 0 {
				mask = 15
			}
			for j := 0; j < 4; j++ {
				nonces[j] = uint16(r.U32())
				if j == 0 {
					nonces[j] = nonce
				}
				if mask>>uint(j)&1 == 1 {
					ps[j] = &store[j]
				}
			}
			PolyDeriveUniformX4(ps, &s32, nonces)
			for j := 0; j < 4; j++ {
				w := mldsa.RejNTTPoly(append(lib.Clone(s32[:]), byte(nonces[j]), byte(nonces[j]>>8)))
				if ps[j] != nil && store[j] != vc04FromRef(&w) {
					vc04Viol("sampler-mismatch", "PolyDeriveUniformX4", "seed", s32[:], "nonces", fmt.Sprint(nonces), "lane", j, "mask", mask)
				}
				if ps[j] == nil && store[j] != (common.Poly{}) {
					vc04Viol("sampler-mismatch", "PolyDeriveUniformX4-wrote-nil-lane", "lane", j)
				}
			}
			lib.Count("sampler:x4")
		}
		// RejBoundedPoly
		PolyDeriveUniformLeqEta(&a, &s64, nonce)
		want = mldsa.RejBoundedPoly(Eta, append(lib.Clone(s64[:]), nb...))
		if i := vc04SameModQ(&a, &want); i >= 0 {
			vc04Viol("sampler-mismatch", "PolyDeriveUniformLeqEta", "seed", s64[:], "nonce", nonce, "i", i)
		}
		for i := range a {
			if a[i] < common.Q-Eta || a[i] > common.Q+Eta {
				vc04Viol("sampler-mismatch", "PolyDeriveUniformLeqEta-range", "seed", s64[:], "nonce", nonce, "i", i, "value", a[i])
				break
			}
		}
		// ExpandMask
		PolyDeriveUniformLeGamma1(&a, &s64, nonce)
		want = p.ExpandMaskPoly(s64[:], int(nonce))
		if a != vc04FromRef(&want) {
			vc04Viol("sampler-mismatch", "PolyDeriveUniformLeGamma1", "seed", s64[:], "nonce", nonce)
		}
		var y VecL
		VecLDeriveUniformLeGamma1(&y, &s64, nonce)
		wy := p.ExpandMask(s64[:], int(nonce))
		for i := 0; i < L; i++ {
			if y[i] != vc04FromRef(&wy[i]) {
				vc04Viol("sampler-mismatch", "VecLDeriveUniformLeGamma1", "seed", s64[:], "nonce", nonce, "i", i)
			}
		}
		// SampleInBall
		ct := lib.Clone(s64[:CTildeSize])
		PolyDeriveUniformBall(&a, ct)
		want = p.SampleInBall(ct)
		if a != vc04FromRef(&want) {
			vc04Viol("sampler-mismatch", "PolyDeriveUniformBall", "seed", ct)
		}
		nz := 0
		for _, c := range want {
			if c != 0 {
				nz++
			}
		}
		if nz != Tau {
			lib.Count("sampler:ball-weight-not-tau") // would be an oracle bug
		}
		if DeriveX4Available {
			var ps [4]*common.Poly
			var store [4]common.Poly
			mask := 1 + r.Intn(15)
			for j := 0; j < 4; j++ {
				store[j][0] = 12345 // must be overwritten
				if mask>>uint(j)&1 == 1 {
					ps[j] = &store[j]
				}
			}
			PolyDeriveUniformBallX4(ps, ct)
			for j := 0; j < 4; j++ {
				if ps[j] != nil && store[j] != vc04FromRef(&want) {
					vc04Viol("sampler-mismatch", "PolyDeriveUniformBallX4", "seed", ct, "lane", j, "mask", mask)
				}
			}
		}
		// ExpandA
		if ci%4 == 0 {
			var A Mat
			A.Derive(&s32)
			wA := p.ExpandA(s32[:])
			for i := 0; i < K; i++ {
				for j := 0; j < L; j++ {
					if A[i][j] != vc04FromRef(&wA[i][j]) {
						vc04Viol("sampler-mismatch", "Mat.Derive", "seed", s32[:], "i", i, "j", j)
					}
				}
			}
			lib.Count("sampler:ExpandA")
		}
	})
}

// ---------------------------------------------------------------- signature decoding, Sign_internal, Verify_internal

func vc04Msg(m []byte) func(io.Writer) {
	return func(w io.Writer) { _, _ = w.Write(m) }
}

func TestVerifC04SigDecode(t *testing.T) {
	p := vc04P(t)
	lib.Mandatory("unpack:accepted", "unpack:rejected", "unpack:accepted-at-norm-gamma1-beta-1",
		"unpack:rejected-at-norm-gamma1-beta", "internal-sign-match", "internal-verify:accept", "internal-verify:reject")
	n := lib.Scale(12, 300)
	var oracleErr error
	lib.Par(n, func(ci int) {
		r := lib.NewRng("c04/wb/sig/"+Name, ci)
		var seed [32]byte
		r.Read(seed[:])
		pkb, skb := p.KeyGen(seed[:])
		mprime := r.Bytes(r.Intn(200))
		var rnd [32]byte
		if ci%4 != 0 {
			r.Read(rnd[:])
		}
		var st mldsa.SignStats
		want := p.SignInternal(skb, mprime, rnd[:], &st)
		lib.CountN("ref-sign-attempts", st.Attempts)

		// Sign_internal with chosen rnd (for the Dilithium sets rnd must be ignored)
		pk, sk := NewKeyFromSeed(&seed)
		var skU PrivateKey
		var skArr [PrivateKeySize]byte
		copy(skArr[:], skb)
		skU.Unpack(&skArr)
		var pkU PublicKey
		var pkArr [PublicKeySize]byte
		copy(pkArr[:], pkb)
		pkU.Unpack(&pkArr)
		lib.Case([]byte("internal-sign"), []byte(Name), seed[:], mprime, rnd[:])
		for vi, k := range []*PrivateKey{sk, &skU} {
			got := make([]byte, SignatureSize)
			if pan := lib.Try("internal.SignTo:"+Name, mprime, func() { SignTo(k, vc04Msg(mprime), rnd, got) }); pan != nil {
				vc04Viol("sign-failed", "internal", "seed", seed[:], "panic", pan.Value)
				continue
			}
			if !lib.Eq(got, want) {
				vc04Viol("signature-mismatch", "hedged", "entry", "internal.SignTo", "seed", seed[:], "mprime", mprime, "rnd", rnd[:],
					"key_from", []string{"NewKeyFromSeed", "Unpack"}[vi], "circl", got, "fips204", want)
				continue
			}
			lib.Count("internal-sign-match")
		}

		crafted, err := mldsa.Craft(p, r, want)
		if err != nil {
			oracleErr = err
			return
		}
		crafted = append(crafted, mldsa.Crafted{Class: "honest", Sig: want})
		for _, c := range crafted {
			buf := c.Sig
			ct, z, h, dok := p.SigDecode(buf)
			wantOK := dok
			norm := int64(-1)
			if dok {
				for i := range z {
					if x := mldsa.InfNorm(z[i]); x > norm {
						norm = x
					}
				}
				wantOK = norm < p.Gamma1()-p.Beta()
			}
			var u unpackedSignature
			var gotOK bool
			lib.Case([]byte("unpack"), []byte(Name), buf)
			if pan := lib.Try("unpackedSignature.Unpack:"+Name+":"+c.Class, buf, func() { gotOK = u.Unpack(buf) }); pan != nil {
				vc04Viol("panic-decode", c.Class, "entry", "unpackedSignature.Unpack", "sig", buf, "panic", pan.Value)
				continue
			}
			if gotOK != wantOK {
				vc04Viol("verdict-mismatch", c.Class, "entry", "unpackedSignature.Unpack", "sig", buf, "sig_len", len(buf),
					"spec_sig_len", p.SigSize(), "circl", gotOK, "fips204", wantOK, "z_norm", norm, "bound", p.Gamma1()-p.Beta())
			} else if wantOK {
				lib.Count("unpack:accepted")
				if norm == p.Gamma1()-p.Beta()-1 {
					lib.Count("unpack:accepted-at-norm-gamma1-beta-1")
				}
				okc := lib.Eq(u.c[:], ct)
				for i := 0; i < L && okc; i++ {
					okc = u.z[i] == vc04FromRef(&z[i])
				}
				for i := 0; i < K && okc; i++ {
					for j := 0; j < 256; j++ {
						if u.hint[i][j] != uint32(h[i][j]) {
							okc = false
						}
					}
				}
				if !okc {
					vc04Viol("decode-mismatch", c.Class, "entry", "unpackedSignature.Unpack", "sig", buf)
				}
				// and packing it again gives the same bytes
				re := make([]byte, SignatureSize)
				u.Pack(re)
				if !lib.Eq(re, buf) {
					vc04Viol("pack-mismatch", "unpackedSignature.Pack", "sig", buf, "repacked", re)
				}
			} else {
				lib.Count("unpack:rejected")
				if dok && norm == p.Gamma1()-p.Beta() {
					lib.Count("unpack:rejected-at-norm-gamma1-beta")
				}
			}
			// Verify_internal
			wantV := p.VerifyInternal(pkb, mprime, buf)
			for vi, k := range []*PublicKey{pk, &pkU} {
				var gotV bool
				if pan := lib.Try("internal.Verify:"+Name+":"+c.Class, buf, func() { gotV = Verify(k, vc04Msg(mprime), buf) }); pan != nil {
					vc04Viol("panic-verify", c.Class, "entry", "internal.Verify", "sig", buf, "panic", pan.Value)
					continue
				}
				if gotV != wantV {
					vc04Viol("verdict-mismatch", c.Class, "entry", "internal.Verify", "pk", pkb, "mprime", mprime, "sig", buf,
						"key_from", []string{"NewKeyFromSeed", "Unpack"}[vi], "circl", gotV, "fips204", wantV)
				}
			}
			if wantV {
				lib.Count("internal-verify:accept")
			} else {
				lib.Count("internal-verify:reject")
			}
		}
	})
	if oracleErr != nil {
		t.Fatal(oracleErr)
	}
}
