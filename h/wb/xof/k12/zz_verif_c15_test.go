//go:build verif

// C15 (white box): KangarooTwelve must return the same, specified stream for
// every number of parallel lanes.  newDraft10(c, lanes) is driven with lanes
// in {1, 2, 4} through the same history + model monitor as the black-box
// subjects, with the message lengths placed on the boundaries of that lane
// count's buffer, and the internal cursor fields are checked against the
// model after every history step that can be observed from here.
package k12

import (
	"fmt"
	"testing"

	"github.com/cloudflare/circl/internal/zzverif/c15/hist"
	"github.com/cloudflare/circl/internal/zzverif/lib"
	"github.com/cloudflare/circl/internal/zzverif/ref/keccak"
	"github.com/cloudflare/circl/simd/keccakf1600"
)

type vc15Subj struct{ *State }

func vc15Clone(s hist.Subject) hist.Subject {
	c := s.(vc15Subj).State.Clone()
	return vc15Subj{&c}
}

// vc15Scale: thorough counts divided by 5 under ASan (fixed per tier and cfg).
func vc15Scale(q, t int) int {
	if lib.Cfg() == "asan" && t/5 >= q {
		t /= 5
	}
	return lib.Scale(q, t)
}

func TestVerifC15Lanes(t *testing.T) {
	const mon = "TestVerifC15Lanes"
	lib.Flag("keccakf1600.IsEnabledX4", keccakf1600.IsEnabledX4())
	lib.Flag("keccakf1600.IsEnabledX2", keccakf1600.IsEnabledX2())
	lib.Mandatory("histories", "op:clone", "op:reset", "k12wb:directed", "k12wb:lanes-agree", "k12wb:cursor-checked",
		"k12wb:lanes2:partial-buffer-then-write-spanning-two-buffers", "k12wb:lanes4:partial-buffer-then-write-spanning-two-buffers")
	for _, lanes := range []int{1, 2, 4} {
		pfx := fmt.Sprintf("k12.lanes%d", lanes)
		lib.Mandatory("histories:"+pfx, pfx+":tree", pfx+":S<8192(single-node)", pfx+":S=8192(single-node-full)", pfx+":S=8193(one-byte-leaf)",
			pfx+":write-crosses-first-chunk", pfx+":write-ends-first-chunk-exactly", pfx+":last-leaf-full",
			pfx+":customisation-crosses-first-chunk", pfx+":length-encode-crosses-first-chunk")
		if lanes > 1 {
			lib.Mandatory(pfx+":direct-multi-lane-absorb", pfx+":buffer-filled-then-absorbed")
			for j := 0; j < lanes; j++ {
				lib.Mandatory(fmt.Sprintf("%s:leftover-full-chunks-at-read=%d", pfx, j))
			}
		} else {
			lib.Mandatory(pfx + ":leaf-completed")
		}
	}
	customLens := []int{0, 1, 200, 8191, 8192, 8193}
	type dcase struct{ lanes, cl, ml int }
	var directed []dcase
	for _, lanes := range []int{1, 2, 4} {
		for _, cl := range customLens {
			for _, ml := range hist.K12Directed(cl, lanes) {
				directed = append(directed, dcase{lanes, cl, ml})
			}
		}
	}
	n := 2*len(directed) + vc15Scale(600, 40000)
	lib.Par(n, func(i int) {
		r := lib.NewRng("c15/k12wb/custom", i)
		lanes := []int{1, 2, 4}[i%3]
		cl := customLens[(i/3)%len(customLens)]
		if r.Intn(8) == 0 {
			cl = r.Intn(20000)
		}
		var force *int
		calm := false
		if i < 2*len(directed) {
			// each directed boundary twice: once undisturbed, once with events
			lanes, cl = directed[i/2].lanes, directed[i/2].cl
			force = &directed[i/2].ml
			calm = i%2 == 0
			lib.Count("k12wb:directed")
		}
		custom := r.Bytes(cl)
		keep := lib.Clone(custom)
		pfx := fmt.Sprintf("k12.lanes%d", lanes)
		sp := &hist.Spec{
			Mon: mon, Name: pfx, Param: custom, Rate: 168,
			New:   func() hist.Subject { s := newDraft10(custom, byte(lanes)); return vc15Subj{&s} },
			Clone: vc15Clone,
			Ref:   func(m []byte, n int) []byte { return keccak.K12(m, keep, n) },
			Lens:  hist.K12Lens(cl, lanes), Units: []int{8192, lanes * 8192}, MaxLen: 80000,
			Hook: hist.K12Hook(pfx, cl, lanes), Force: force, Calm: calm,
		}
		hist.Run(sp, "c15/k12wb", i)
	})

	// Metamorphic: the three lane counts agree with each other (and with the
	// reference) on the same message under different chunkings, and the
	// cursor fields hold the model's values while absorbing.
	m := vc15Scale(200, 6000)
	lib.Par(m, func(i int) {
		r := lib.NewRng("c15/k12wb/agree", i)
		cl := lib.Pick(r, 0, 0, 1, 200, 8191, 8192, 8193)
		custom := r.Bytes(cl)
		lens := hist.K12Lens(cl, 4)
		ml := lens[r.Intn(len(lens))]
		if r.Intn(4) == 0 {
			ml = r.Intn(80000)
		}
		// every third case: a partially filled lane buffer followed by one
		// write that completes it AND carries at least another full buffer
		fillThenDirect := i%3 == 0
		if fillThenDirect {
			ml = 9*chunkSize + r.Intn(chunkSize)
		}
		msg := r.Bytes(ml)
		on := lib.Pick(r, 16, 32, 64, 168, 169, 400)
		want := keccak.K12(msg, custom, on)
		lib.Case([]byte("k12wb:agree"), custom, msg)
		for _, lanes := range []int{1, 2, 4} {
			s := newDraft10(custom, byte(lanes))
			rest := msg
			absorbed := 0
			bad := false
			step := 0
			for len(rest) > 0 {
				w := lib.Pick(r, 1, 167, 168, 169, 8191, 8192, 8193, lanes*8192-1, lanes*8192, lanes*8192+1, 1+r.Intn(3*8192), len(rest))
				if fillThenDirect {
					switch step {
					case 0:
						w = chunkSize + 1 + r.Intn(chunkSize-1)
					case 1:
						w = len(rest)
						if lanes > 1 {
							lib.Count(fmt.Sprintf("k12wb:lanes%d:partial-buffer-then-write-spanning-two-buffers", lanes))
						}
					}
				}
				step++
				if w > len(rest) {
					w = len(rest)
				}
				if p := lib.Try(fmt.Sprintf("k12.lanes%d.Write", lanes), rest[:w], func() { s.Write(rest[:w]) }); p != nil {
					lib.Violation(fmt.Sprintf("C15:panic:k12.lanes%d.Write", lanes), mon, lib.D("custom", custom, "msg", msg, "panic", p.Value, "frame", p.TopFrame()))
					bad = true
					break
				}
				rest = rest[w:]
				absorbed += w
				// model of the cursor: first chunk countdown, then position in the lane buffer / leaf
				wantTodo := 0
				if absorbed < chunkSize {
					wantTodo = chunkSize - absorbed
				}
				if s.initialTodo != wantTodo {
					lib.Violation(fmt.Sprintf("C15:cursor-model:k12.lanes%d:initialTodo", lanes), mon, lib.D("absorbed", absorbed, "got", s.initialTodo, "want", wantTodo))
					bad = true
					break
				}
				if absorbed > chunkSize {
					past := absorbed - chunkSize
					var wantOff int
					var wantChunks uint
					if lanes == 1 {
						wantOff = past % chunkSize
						wantChunks = uint(past / chunkSize)
					} else {
						wantOff = past % (lanes * chunkSize)
						wantChunks = uint(past/(lanes*chunkSize)) * uint(lanes)
					}
					if s.offset != wantOff || s.chunk != wantChunks {
						lib.Violation(fmt.Sprintf("C15:cursor-model:k12.lanes%d:offset-chunk", lanes), mon,
							lib.D("absorbed", absorbed, "offset", s.offset, "want_offset", wantOff, "chunk", s.chunk, "want_chunk", wantChunks))
						bad = true
						break
					}
					lib.Count("k12wb:cursor-checked")
				}
			}
			if bad {
				continue
			}
			got := make([]byte, on)
			if p := lib.Try(fmt.Sprintf("k12.lanes%d.Read", lanes), nil, func() { s.Read(got) }); p != nil {
				lib.Violation(fmt.Sprintf("C15:panic:k12.lanes%d.Read", lanes), mon, lib.D("custom", custom, "msg", msg, "panic", p.Value, "frame", p.TopFrame()))
				continue
			}
			lib.Eval()
			if !lib.Eq(got, want) {
				lib.Violation(fmt.Sprintf("C15:wrong-output:k12.lanes%d", lanes), mon, lib.D("custom", custom, "msg", msg, "msg_len", ml, "got", got, "want", want))
				continue
			}
			lib.Count("k12wb:lanes-agree")
		}
	})
}
