//go:build verif

// C19 — soundness of the Count validity circuit itself (see sum).
package count

import (
	"fmt"
	"testing"

	"github.com/cloudflare/circl/internal/zzverif/lib"
	"github.com/cloudflare/circl/vdaf/prio3/internal/prio3"
	drv "github.com/cloudflare/circl/vdaf/prio3/internal/zzverifc19"
)

const vc19Mon = "TestVerifC19SoundnessCount"

func TestVerifC19SoundnessCount(t *testing.T) {
	lib.Mandatory("invalid-injected:honest-prover", "invalid-rejected:honest-prover", "raw-valid-accepted:count",
		"invalid:honest-prover:count:non-bit", "invalid:honest-prover:count:random-vector")
	shares := []uint8{2, 3, 4, 5, 9}
	if lib.Thorough() {
		shares = append(shares, 8, 16, 100, 255)
	}
	reps := lib.Scale(100, 400)
	type job struct {
		n uint8
		k int
	}
	var jobs []job
	for _, n := range shares {
		rp := reps
		if n > 16 {
			rp = reps / 10 // cost grows linearly with the number of aggregators
		}
		for k := 0; k < rp; k++ {
			jobs = append(jobs, job{n, k})
		}
	}
	lib.Par(len(jobs), func(i int) {
		n := jobs[i].n
		r := lib.NewRng(fmt.Sprintf("c19/wb/count/%d", n), jobs[i].k)
		ctx := r.Bytes(r.Intn(20))
		spec := drv.SpecCount(ctx)
		p, err := prio3.New(&drv.Raw[bool, uint64, *flpCount, Vec, Fp]{Inner: newFlpCount()}, spec.AlgID, n, ctx)
		if err != nil {
			t.Errorf("prio3.New on the wrapper: %v", err)
			return
		}
		drv.Soundness[bool, uint64, Vec, Fp](vc19Mon, r, &p, spec, drv.ValidCount, []bool{false, true}, drv.BadCount(r), nil)
	})
}
