//go:build verif

package c13

import (
	"crypto/elliptic"
	"math/big"
	"testing"

	"github.com/cloudflare/circl/internal/zzverif/lib"
	"github.com/cloudflare/circl/internal/zzverif/ref/c13ref"
)

func nistRef(c elliptic.Curve) *c13ref.WCurve {
	p := c.Params()
	return c13ref.NIST(p.Name, p.P, p.B, p.N, p.Gx, p.Gy)
}

// TestVerifSelfCheck validates the reference model itself: generators lie on
// their curves and have the stated prime order, cofactors are right, the
// NIST references agree with crypto/elliptic, the isogeny pair composes to
// [4], ristretto255 encoding reproduces RFC 9496's multiples of the generator.
func TestVerifSelfCheck(t *testing.T) {
	for _, c := range []*c13ref.WCurve{nistRef(elliptic.P256()), nistRef(elliptic.P384()), nistRef(elliptic.P521()), c13ref.BLSG1(), c13ref.BLSG2()} {
		if !c.N.ProbablyPrime(20) || !c.F.P.ProbablyPrime(20) {
			t.Fatalf("%s: p or n not prime", c.Name)
		}
		if !c.IsOnCurve(c.G) || c.G.Inf {
			t.Fatalf("%s: generator not on curve", c.Name)
		}
		if !c.Mul(c.N, c.G).Inf {
			t.Fatalf("%s: n*G != O", c.Name)
		}
		if !c.Eq(c.MulG(new(big.Int).Sub(c.N, big.NewInt(1))), c.Neg(c.G)) {
			t.Fatalf("%s: (n-1)*G != -G", c.Name)
		}
		// associativity / distributivity spot checks of the reference
		r := lib.NewRng("c13/self/"+c.Name, 0)
		for i := 0; i < 6; i++ {
			a := new(big.Int).SetBytes(r.Bytes(40))
			b := new(big.Int).SetBytes(r.Bytes(40))
			l := c.Add(c.MulG(a), c.MulG(b))
			rr := c.Mul(new(big.Int).Add(a, b), c.G)
			if !c.Eq(l, rr) || !c.IsOnCurve(l) {
				t.Fatalf("%s: aG+bG != (a+b)G in the reference", c.Name)
			}
			if !c.Eq(c.MulG(a), c.Mul(a, c.G)) {
				t.Fatalf("%s: table-based MulG differs from double-and-add", c.Name)
			}
		}
	}
	// NIST references against crypto/elliptic
	for _, sc := range []elliptic.Curve{elliptic.P256(), elliptic.P384(), elliptic.P521()} {
		c := nistRef(sc)
		r := lib.NewRng("c13/self/std/"+c.Name, 0)
		for i := 0; i < 25; i++ {
			a, _ := c13ref.GenScalar(r, c.N, (c.N.BitLen()+7)/8)
			b := new(big.Int).SetBytes(r.Bytes(70))
			pa, pb := c.MulG(a), c.MulG(b)
			x, y := sc.ScalarBaseMult(a.Bytes())
			if !sameXY(pa, x, y) {
				t.Fatalf("%s: reference k*G differs from crypto/elliptic for k=%x", c.Name, a)
			}
			if !pa.Inf && !pb.Inf {
				bx, by := sc.ScalarBaseMult(new(big.Int).Mod(b, c.N).Bytes())
				sx, sy := sc.Add(x, y, bx, by)
				if !sameXY(c.Add(pa, pb), sx, sy) {
					t.Fatalf("%s: reference Add differs from crypto/elliptic", c.Name)
				}
				dx, dy := sc.Double(x, y)
				if !sameXY(c.Double(pa), dx, dy) {
					t.Fatalf("%s: reference Double differs from crypto/elliptic", c.Name)
				}
				mx, my := sc.ScalarMult(x, y, new(big.Int).Mod(b, c.N).Bytes())
				if !sameXY(c.Mul(b, pa), mx, my) {
					t.Fatalf("%s: reference k*P differs from crypto/elliptic", c.Name)
				}
			}
		}
	}
	// cofactors of the BLS curves: h*P has order r for lifted P
	for _, cc := range []struct {
		c *c13ref.WCurve
		h *big.Int
	}{{c13ref.BLSG1(), blsH1}, {c13ref.BLSG2(), blsH2}} {
		pool := buildWPool(cc.c, "c13/self/lift/"+cc.c.Name, 0, 3, cc.h)
		for _, e := range pool {
			if e.Class != "lifted" {
				continue
			}
			if !cc.c.IsOnCurve(e.P) || e.P.Inf || !cc.c.Mul(cc.c.N, e.P).Inf {
				t.Fatalf("%s: cofactor-cleared lifted point is not of order r", cc.c.Name)
			}
		}
	}
	// Edwards curves
	for _, c := range []*c13ref.ECurve{c13ref.Ed25519(), c13ref.Ed448(), c13ref.Ed448Twist(), c13ref.FourQ()} {
		if !c.N.ProbablyPrime(20) || !c.F.P.ProbablyPrime(20) {
			t.Fatalf("%s: p or n not prime", c.Name)
		}
		if !c.IsOnCurve(c.G) || c.IsO(c.G) {
			t.Fatalf("%s: generator not on curve", c.Name)
		}
		if !c.IsO(c.Mul(c.N, c.G)) {
			t.Fatalf("%s: n*G != O", c.Name)
		}
		r := lib.NewRng("c13/self/"+c.Name, 0)
		hn := new(big.Int).Mul(c.N, big.NewInt(c.H))
		for i := 0; i < 6; i++ {
			a := new(big.Int).SetBytes(r.Bytes(40))
			b := new(big.Int).SetBytes(r.Bytes(40))
			l := c.MustAdd(c.MulG(a), c.MulG(b))
			if !c.Eq(l, c.Mul(new(big.Int).Add(a, b), c.G)) || !c.IsOnCurve(l) {
				t.Fatalf("%s: aG+bG != (a+b)G in the reference", c.Name)
			}
			if !c.Eq(c.MulG(a), c.Mul(a, c.G)) {
				t.Fatalf("%s: table-based MulG differs from double-and-add", c.Name)
			}
			if c.Name == "Ed448-twist" {
				continue // a=-1 is a non-square mod p448: the law is complete only on odd-order points
			}
			p := randomEPoint(c, r)
			if !c.IsO(c.Mul(hn, p)) {
				t.Fatalf("%s: h*n*P != O for a random curve point", c.Name)
			}
			if c.IsO(c.Mul(c.N, p)) && c.IsO(c.Mul(big.NewInt(c.H), p)) {
				t.Fatalf("%s: random point killed by both n and h", c.Name)
			}
		}
	}
	// RFC 8032 encodings of the base points
	ed := c13ref.Ed25519()
	if got := lib.Hex(encodeEd(ed.G, 32)); got != "5866666666666666666666666666666666666666666666666666666666666666" {
		t.Fatalf("Ed25519 base point encodes to %s", got)
	}
	g448 := c13ref.Ed448()
	if got := lib.Hex(encodeEd(g448.G, 57)); got != "14fa30f25b790898adc8d74e2c13bdfdc4397ce61cffd33ad7c2a0051e9c78874098a36c7373ea4b62c7c9563720768824bcb66e71463f6900" {
		t.Fatalf("Ed448 base point encodes to %s", got)
	}
	// the isogeny pair composes to [4], and lands on the twist
	tw := c13ref.Ed448Twist()
	r := lib.NewRng("c13/self/iso", 0)
	for i := 0; i < 8; i++ {
		k := new(big.Int).SetBytes(r.Bytes(60))
		p := g448.MulG(k)
		if g448.IsO(p) {
			continue
		}
		q, ok := c13ref.Iso4(g448, p)
		if !ok || !tw.IsOnCurve(q) {
			t.Fatalf("Iso4(Goldilocks point) is not on the twist")
		}
		if !tw.Eq(q, tw.MulG(k)) {
			t.Fatalf("Iso4 is not a homomorphism: phi(kG) != k phi(G)")
		}
		back, ok := c13ref.Iso4(tw, q)
		if !ok || !g448.Eq(back, g448.Mul(big.NewInt(4), p)) {
			t.Fatalf("dual(phi(P)) != 4P")
		}
	}
	// ristretto255 (RFC 9496 A.1)
	ri := c13ref.NewRistretto()
	want := []string{
		"0000000000000000000000000000000000000000000000000000000000000000",
		"e2f2ae0a6abc4e71a884a961c500515f58e30b6aa582dd8db6a65945e08d2d76",
		"6a493210f7499cd17fecb510ae0cea23a110e8d5b901f8acadd3095c73a3b919",
		"94741f5d5d52755ece4f23f044ee27d5d1ea1e2bd196b462166b16152a9d0259",
	}
	for k, w := range want {
		if got := lib.Hex(ri.Encode(ed.MulG(big.NewInt(int64(k))))); got != w {
			t.Fatalf("ristretto255 encoding of %d*B is %s, RFC 9496 says %s", k, got, w)
		}
	}
	// adding a 4-torsion point must not change the encoding (coset invariance)
	t4 := c13ref.EPoint{X: ri.SqrtM1, Y: ed.F.Zero()}
	if !ed.IsOnCurve(t4) {
		t.Fatalf("(sqrt(-1),0) is not on Ed25519")
	}
	for k := int64(1); k < 20; k++ {
		p := ed.MulG(big.NewInt(k * 977))
		if !lib.Eq(ri.Encode(p), ri.Encode(ed.MustAdd(p, t4))) {
			t.Fatalf("ristretto255 encoding is not invariant under the 4-torsion")
		}
	}
	lib.Count("selfcheck-passed")
	lib.CaseS("selfcheck")
}

func sameXY(p c13ref.WPoint, x, y *big.Int) bool {
	if p.Inf {
		return x.Sign() == 0 && y.Sign() == 0
	}
	return p.X.A.Cmp(x) == 0 && p.Y.A.Cmp(y) == 0
}

var (
	blsH1 = mustHexInt("396c8c005555e1568c00aaab0000aaab")
	blsH2 = mustHexInt("5d543a95414e7f1091d50792876a202cd91de4547085abaa68a205b2e5a7ddfa628f1cb4d9e82ef21537e293a6691ae1616ec6e786f0c70cf1c38e31c7238e5")
)

func mustHexInt(s string) *big.Int {
	v, ok := new(big.Int).SetString(s, 16)
	if !ok {
		panic("bad constant")
	}
	return v
}

// randomEPoint lifts a random y (any point of the curve, not only the
// prime-order subgroup).
func randomEPoint(c *c13ref.ECurve, r *lib.Rng) c13ref.EPoint {
	for {
		var y c13ref.El
		if c.F.Deg == 2 {
			y = c.F.New(new(big.Int).SetBytes(r.Bytes(40)), new(big.Int).SetBytes(r.Bytes(40)))
		} else {
			y = c.F.New(new(big.Int).SetBytes(r.Bytes(80)), nil)
		}
		p, ok := c.LiftY(y)
		if !ok {
			continue
		}
		if r.Bool() {
			p = c.Neg(p)
		}
		return p
	}
}

// encodeEd is the RFC 8032 point encoding (little-endian y, sign of x in the
// top bit of the last byte).
func encodeEd(p c13ref.EPoint, n int) []byte {
	b := c13ref.LE(p.Y.A, n)
	b[n-1] |= byte(p.X.A.Bit(0)) << 7
	return b
}
