//go:build verif && amd64 && !purego

// C14 white-box monitor of the AVX2 number-theoretic transforms of Kyber /
// ML-KEM against the portable ones, with a DIRECTED workload.
//
// The vectorised transforms keep their coefficients in 16-bit lanes and
// postpone modular reductions; whether a lane can wrap depends on how close a
// sum of same-signed terms gets to 2^15, which uniformly random polynomials
// never approach.  To aim inputs at those places, the assembly text of the
// CURRENT tree (amd64.s, embedded at build time) is run by a small interpreter
// for the instructions it uses, which shadows every lane with a 32-bit value
// and records, per VPADDW / VPSUBW instruction, the largest exact sum seen (a
// lane-overflow sanitizer).  A coordinate search over polynomials inside the
// documented input domain (|coefficient| <= q) then maximises that magnitude,
// instruction by instruction.  The interpreter only GENERATES inputs: the
// verdict on every input it proposes is the differential one - the real
// assembly routine and the portable routine must return the same polynomial.
package common

import (
	_ "embed"
	"fmt"
	"sort"
	"strconv"
	"strings"
	"sync"
	"testing"

	"github.com/cloudflare/circl/internal/zzverif/lib"
	"golang.org/x/sys/cpu"
)

//go:embed amd64.s
var vc14Asm string

const vq = 3329 // = Q, untyped

const (
	vcAdd = iota
	vcSub
	vcMullw
	vcMulhw
	vcSraw
	vcLoadP  // VMOVDQU off(AX), Y
	vcStoreP // VMOVDQU Y, off(AX)
	vcLoadT  // VMOVDQU off(CX), Y
	vcBcastT // VPBROADCASTW off(CX), Y
	vcBcastX // VPBROADCASTW X, Y
	vcMovImm // MOVL $imm, DX ; VMOVD DX, X  (folded)
	vcMov
	vcSlld16
	vcSrld16
	vcSrlq32
	vcBlendw
	vcBlendd
	vcSldup
	vcUnpckl
	vcUnpckh
	vcPerm
	vcNop
)

type vcIns struct {
	op         int
	a, b, d    int
	imm        int
	text       string
	line       int
	accumulate bool // VPADDW / VPSUBW
}

type vcProg struct {
	name string
	ins  []vcIns
	nacc int
}

func vcReg(s string) (int, bool) {
	if len(s) < 2 || (s[0] != 'Y' && s[0] != 'X') {
		return 0, false
	}
	n, err := strconv.Atoi(s[1:])
	return n, err == nil && n >= 0 && n < 16
}

func vcMem(s string) (off int, base string, ok bool) {
	i := strings.IndexByte(s, '(')
	if i < 0 || !strings.HasSuffix(s, ")") {
		return
	}
	base = s[i+1 : len(s)-1]
	if i > 0 {
		v, err := strconv.Atoi(s[:i])
		if err != nil {
			return
		}
		off = v
	}
	return off, base, base == "AX" || base == "CX"
}

func vcImm(s string) (int, bool) {
	if !strings.HasPrefix(s, "$") {
		return 0, false
	}
	v, err := strconv.ParseInt(s[1:], 0, 64)
	return int(v), err == nil
}

// vcParse turns the body of TEXT ·name into the interpreter's program; an
// instruction or operand form it does not know makes it give up (the
// directed workload is then skipped, nothing is judged).
func vcParse(src, name string) (*vcProg, error) {
	lines := strings.Split(src, "\n")
	start := -1
	for i, l := range lines {
		if strings.HasPrefix(l, "TEXT ·"+name+"(SB)") {
			start = i
			break
		}
	}
	if start < 0 {
		return nil, fmt.Errorf("no TEXT ·%s", name)
	}
	p := &vcProg{name: name}
	gpr := map[string]int{} // general registers loaded with an immediate
	cxIsTable := true
	for i := start + 1; i < len(lines); i++ {
		l := strings.TrimSpace(lines[i])
		if l == "" || strings.HasPrefix(l, "//") {
			continue
		}
		if strings.HasPrefix(l, "TEXT") {
			break
		}
		f := strings.Fields(strings.ReplaceAll(l, ",", " "))
		op, args := f[0], f[1:]
		in := vcIns{op: -1, text: l, line: i + 1}
		reg := func(k int) int {
			r, ok := vcReg(args[k])
			if !ok {
				in.op = -2
			}
			return r
		}
		switch op {
		case "RET":
			return p, nil
		case "MOVQ", "LEAQ":
			in.op = vcNop
		case "MOVL":
			v, ok := vcImm(args[0])
			if !ok || args[1] == "AX" {
				return nil, fmt.Errorf("line %d: %s", i+1, l)
			}
			gpr[args[1]] = v
			if args[1] == "CX" {
				cxIsTable = false
			}
			in.op = vcNop
		case "VMOVD":
			v, ok := gpr[args[0]]
			if !ok {
				return nil, fmt.Errorf("line %d: %s", i+1, l)
			}
			in.op, in.imm, in.d = vcMovImm, v, reg(1)
		case "VPBROADCASTW":
			if off, base, ok := vcMem(args[0]); ok && base == "CX" {
				if !cxIsTable {
					return nil, fmt.Errorf("line %d: CX no longer points to the table: %s", i+1, l)
				}
				in.op, in.imm, in.d = vcBcastT, off, reg(1)
			} else {
				in.op, in.a, in.d = vcBcastX, reg(0), reg(1)
			}
		case "VMOVDQU", "VMOVDQA":
			if off, base, ok := vcMem(args[0]); ok {
				in.imm, in.d = off, reg(1)
				in.op = vcLoadP
				if base == "CX" {
					if !cxIsTable {
						return nil, fmt.Errorf("line %d: CX no longer points to the table: %s", i+1, l)
					}
					in.op = vcLoadT
				}
			} else if off, base, ok := vcMem(args[1]); ok && base == "AX" {
				in.op, in.imm, in.a = vcStoreP, off, reg(0)
			} else {
				in.op, in.a, in.d = vcMov, reg(0), reg(1)
			}
		case "VPADDW", "VPSUBW", "VPMULLW", "VPMULHW", "VPUNPCKLQDQ", "VPUNPCKHQDQ":
			in.op = map[string]int{"VPADDW": vcAdd, "VPSUBW": vcSub, "VPMULLW": vcMullw, "VPMULHW": vcMulhw, "VPUNPCKLQDQ": vcUnpckl, "VPUNPCKHQDQ": vcUnpckh}[op]
			in.a, in.b, in.d = reg(0), reg(1), reg(2)
			in.accumulate = op == "VPADDW" || op == "VPSUBW"
		case "VPSRAW", "VPSLLD", "VPSRLD", "VPSRLQ":
			v, ok := vcImm(args[0])
			if !ok {
				return nil, fmt.Errorf("line %d: %s", i+1, l)
			}
			in.imm, in.a, in.d = v, reg(1), reg(2)
			switch {
			case op == "VPSRAW":
				in.op = vcSraw
			case op == "VPSLLD" && v == 16:
				in.op = vcSlld16
			case op == "VPSRLD" && v == 16:
				in.op = vcSrld16
			case op == "VPSRLQ" && v == 32:
				in.op = vcSrlq32
			}
		case "VPBLENDW", "VPBLENDD", "VPERM2I128":
			v, ok := vcImm(args[0])
			if !ok {
				return nil, fmt.Errorf("line %d: %s", i+1, l)
			}
			in.op = map[string]int{"VPBLENDW": vcBlendw, "VPBLENDD": vcBlendd, "VPERM2I128": vcPerm}[op]
			in.imm, in.a, in.b, in.d = v, reg(1), reg(2), reg(3) // a = second source (Intel), b = first
		case "VMOVSLDUP":
			in.op, in.a, in.d = vcSldup, reg(0), reg(1)
		}
		if in.op < 0 {
			return nil, fmt.Errorf("line %d: unsupported: %s", i+1, l)
		}
		if in.accumulate {
			in.b, in.a = in.b, in.a
			p.nacc++
		}
		p.ins = append(p.ins, in)
	}
	return nil, fmt.Errorf("no RET in %s", name)
}

// vcState is the register file: actual 16-bit lanes and their exact shadows.
type vcState struct {
	v   [16][16]int16
	w   [16][16]int32
	mem [N]int16
	// per accumulate instruction (in program order): largest |exact sum| and its lane
	peak     []int32
	peakLane []int
}

// vcRun interprets the program on st.mem.  upto < 0: whole program; else stop
// after the upto-th accumulate instruction (its peak is then up to date).
func (p *vcProg) vcRun(st *vcState, upto int) {
	if len(st.peak) != p.nacc {
		st.peak = make([]int32, p.nacc)
		st.peakLane = make([]int, p.nacc)
	}
	for i := range st.peak {
		st.peak[i] = 0
	}
	acc := 0
	for k := range p.ins {
		in := &p.ins[k]
		switch in.op {
		case vcNop:
		case vcAdd, vcSub:
			// Go operand order: VPSUBW a, b, d  =>  d = b - a
			var pk int32
			pl := 0
			for l := 0; l < 16; l++ {
				var w int32
				var v int16
				if in.op == vcAdd {
					w = st.w[in.b][l] + st.w[in.a][l]
					v = st.v[in.b][l] + st.v[in.a][l]
				} else {
					w = st.w[in.b][l] - st.w[in.a][l]
					v = st.v[in.b][l] - st.v[in.a][l]
				}
				m := w
				if m < 0 {
					m = -m
				}
				if m > pk {
					pk, pl = m, l
				}
				st.v[in.d][l] = v
				st.w[in.d][l] = int32(v) // from here on the lane holds what the CPU holds
			}
			st.peak[acc], st.peakLane[acc] = pk, pl
			if acc == upto {
				return
			}
			acc++
		case vcMullw:
			for l := 0; l < 16; l++ {
				x := int32(st.v[in.a][l]) * int32(st.v[in.b][l])
				st.v[in.d][l] = int16(x)
				st.w[in.d][l] = x
			}
		case vcMulhw:
			for l := 0; l < 16; l++ {
				x := int16((int32(st.v[in.a][l]) * int32(st.v[in.b][l])) >> 16)
				st.v[in.d][l], st.w[in.d][l] = x, int32(x)
			}
		case vcSraw:
			for l := 0; l < 16; l++ {
				x := st.v[in.a][l] >> uint(in.imm)
				st.v[in.d][l], st.w[in.d][l] = x, int32(x)
			}
		case vcLoadP:
			for l := 0; l < 16; l++ {
				x := st.mem[in.imm/2+l]
				st.v[in.d][l], st.w[in.d][l] = x, int32(x)
			}
		case vcStoreP:
			for l := 0; l < 16; l++ {
				st.mem[in.imm/2+l] = st.v[in.a][l]
			}
		case vcLoadT:
			for l := 0; l < 16; l++ {
				x := ZetasAVX2[in.imm/2+l]
				st.v[in.d][l], st.w[in.d][l] = x, int32(x)
			}
		case vcBcastT:
			x := ZetasAVX2[in.imm/2]
			for l := 0; l < 16; l++ {
				st.v[in.d][l], st.w[in.d][l] = x, int32(x)
			}
		case vcBcastX:
			x := st.v[in.a][0]
			for l := 0; l < 16; l++ {
				st.v[in.d][l], st.w[in.d][l] = x, int32(x)
			}
		case vcMovImm:
			st.v[in.d], st.w[in.d] = [16]int16{}, [16]int32{}
			st.v[in.d][0], st.v[in.d][1] = int16(uint16(in.imm)), int16(uint16(in.imm>>16))
			st.w[in.d][0], st.w[in.d][1] = int32(st.v[in.d][0]), int32(st.v[in.d][1])
		case vcMov:
			st.v[in.d], st.w[in.d] = st.v[in.a], st.w[in.a]
		case vcSlld16:
			sv, sw := st.v[in.a], st.w[in.a]
			for j := 0; j < 8; j++ {
				st.v[in.d][2*j+1], st.w[in.d][2*j+1] = sv[2*j], sw[2*j]
				st.v[in.d][2*j], st.w[in.d][2*j] = 0, 0
			}
		case vcSrld16:
			sv, sw := st.v[in.a], st.w[in.a]
			for j := 0; j < 8; j++ {
				st.v[in.d][2*j], st.w[in.d][2*j] = sv[2*j+1], sw[2*j+1]
				st.v[in.d][2*j+1], st.w[in.d][2*j+1] = 0, 0
			}
		case vcSrlq32:
			sv, sw := st.v[in.a], st.w[in.a]
			for j := 0; j < 4; j++ {
				st.v[in.d][4*j], st.w[in.d][4*j] = sv[4*j+2], sw[4*j+2]
				st.v[in.d][4*j+1], st.w[in.d][4*j+1] = sv[4*j+3], sw[4*j+3]
				st.v[in.d][4*j+2], st.w[in.d][4*j+2] = 0, 0
				st.v[in.d][4*j+3], st.w[in.d][4*j+3] = 0, 0
			}
		case vcBlendw:
			// dst lane = imm bit (lane mod 8) ? second source (a) : first source (b)
			av, aw, bv, bw := st.v[in.a], st.w[in.a], st.v[in.b], st.w[in.b]
			for l := 0; l < 16; l++ {
				if in.imm>>(uint(l)%8)&1 == 1 {
					st.v[in.d][l], st.w[in.d][l] = av[l], aw[l]
				} else {
					st.v[in.d][l], st.w[in.d][l] = bv[l], bw[l]
				}
			}
		case vcBlendd:
			av, aw, bv, bw := st.v[in.a], st.w[in.a], st.v[in.b], st.w[in.b]
			for l := 0; l < 16; l++ {
				if in.imm>>(uint(l)/2)&1 == 1 {
					st.v[in.d][l], st.w[in.d][l] = av[l], aw[l]
				} else {
					st.v[in.d][l], st.w[in.d][l] = bv[l], bw[l]
				}
			}
		case vcSldup:
			sv, sw := st.v[in.a], st.w[in.a]
			for j := 0; j < 4; j++ { // dwords 2j+1 <- 2j
				st.v[in.d][4*j], st.w[in.d][4*j] = sv[4*j], sw[4*j]
				st.v[in.d][4*j+1], st.w[in.d][4*j+1] = sv[4*j+1], sw[4*j+1]
				st.v[in.d][4*j+2], st.w[in.d][4*j+2] = sv[4*j], sw[4*j]
				st.v[in.d][4*j+3], st.w[in.d][4*j+3] = sv[4*j+1], sw[4*j+1]
			}
		case vcUnpckl, vcUnpckh:
			// VPUNPCKLQDQ a, b, d (Go order): per 128-bit half, d.q0 = b.q{0|1}, d.q1 = a.q{0|1}
			av, aw, bv, bw := st.v[in.a], st.w[in.a], st.v[in.b], st.w[in.b]
			o := 0
			if in.op == vcUnpckh {
				o = 4
			}
			for h := 0; h < 2; h++ {
				for j := 0; j < 4; j++ {
					st.v[in.d][8*h+j], st.w[in.d][8*h+j] = bv[8*h+o+j], bw[8*h+o+j]
					st.v[in.d][8*h+4+j], st.w[in.d][8*h+4+j] = av[8*h+o+j], aw[8*h+o+j]
				}
			}
		case vcPerm:
			// VPERM2I128 $imm, a, b, d (Go order): sources 0,1 = b.lo, b.hi; 2,3 = a.lo, a.hi
			av, aw, bv, bw := st.v[in.a], st.w[in.a], st.v[in.b], st.w[in.b]
			pick := func(sel int) (v [8]int16, w [8]int32) {
				sv, sw := &bv, &bw
				if sel&2 != 0 {
					sv, sw = &av, &aw
				}
				copy(v[:], sv[8*(sel&1):8*(sel&1)+8])
				copy(w[:], sw[8*(sel&1):8*(sel&1)+8])
				return
			}
			lv, lw := pick(in.imm & 3)
			hv, hw := pick(in.imm >> 4 & 3)
			if in.imm&0x88 != 0 {
				panic("vperm2i128 zeroing not modelled")
			}
			copy(st.v[in.d][:8], lv[:])
			copy(st.w[in.d][:8], lw[:])
			copy(st.v[in.d][8:], hv[:])
			copy(st.w[in.d][8:], hw[:])
		}
	}
}

func vc14Mod(x int16) int16 {
	y := int32(x) % vq
	if y < 0 {
		y += vq
	}
	return int16(y)
}

func vc14Same(a, b *Poly) bool {
	for i := range a {
		if vc14Mod(a[i]) != vc14Mod(b[i]) {
			return false
		}
	}
	return true
}

// TestVerifC14LaneSearch: see the file comment.
func TestVerifC14LaneSearch(t *testing.T) {
	const mon = "TestVerifC14LaneSearch"
	lib.Flag("c14.cpu.HasAVX2", cpu.X86.HasAVX2)
	if !cpu.X86.HasAVX2 {
		lib.Count("lane-search:no-avx2-in-this-configuration")
		return
	}
	lib.Mandatory("lane-search:inputs-judged")
	type kernel struct {
		name    string
		asm     func(*[N]int16)
		generic func(*Poly)
		bound   int32 // documented bound on the result
	}
	kernels := []kernel{
		{"invNttAVX2", invNttAVX2, (*Poly).invNTTGeneric, vq},
		{"nttAVX2", nttAVX2, (*Poly).nttGeneric, 7 * vq},
	}
	var reported sync.Map
	judge := func(k kernel, in *[N]int16, how string, peak int32, target string) {
		// the vectorised routines work on the "tangled" coefficient order:
		// invNtt takes tangled input, ntt returns tangled output
		var a, g Poly
		a, g = Poly(*in), Poly(*in)
		k.asm((*[N]int16)(&a))
		if k.name == "invNttAVX2" {
			g.Detangle()
		} else {
			a.Detangle()
		}
		k.generic(&g)
		lib.Count("lane-search:inputs-judged")
		lib.Count("lane-search:inputs-judged:" + k.name)
		over := false
		for i := range a {
			if int32(a[i]) > k.bound || int32(a[i]) < -k.bound {
				over = true
			}
		}
		if !vc14Same(&a, &g) || over {
			if _, dup := reported.LoadOrStore(k.name, true); !dup {
				inp := make([]int, N)
				for i := range in {
					inp[i] = int(in[i])
				}
				first := -1
				for i := range a {
					if vc14Mod(a[i]) != vc14Mod(g[i]) {
						first = i
						break
					}
				}
				lib.Violation("C14:diff:kyber."+k.name+"-vs-generic", mon, lib.D("input", fmt.Sprint(inp), "found_by", how, "target_instruction", target,
					"largest_exact_lane_sum", peak, "first_differing_coefficient", first, "result_exceeds_documented_bound", over))
			}
		}
	}
	for _, k := range kernels {
		k := k
		prog, err := vcParse(vc14Asm, k.name)
		if err != nil {
			lib.Note("C14 lane search: the interpreter does not understand %s (%v): directed workload skipped", k.name, err)
			lib.Count("lane-search:interpreter-gave-up")
			// still judge random inputs
			for i := 0; i < 200; i++ {
				r := lib.NewRng("c14/lane/random/"+k.name, i)
				var in [N]int16
				for j := range in {
					in[j] = int16(r.Intn(2*vq+1) - vq)
				}
				judge(k, &in, "random", 0, "")
			}
			continue
		}
		// ---- the interpreter must agree with the CPU before it is trusted as a guide
		agree := true
		base := make([][N]int16, 0, 64)
		for i := 0; i < 64 && agree; i++ {
			r := lib.NewRng("c14/lane/selfcheck/"+k.name, i)
			var in [N]int16
			for j := range in {
				switch i % 4 {
				case 0:
					in[j] = int16(r.Intn(2*vq+1) - vq)
				case 1:
					in[j] = int16(vq * (r.Intn(3) - 1))
				case 2:
					in[j] = int16(r.Intn(vq + 1))
				default:
					in[j] = int16(vq - r.Intn(40))
					if r.Bool() {
						in[j] = -in[j]
					}
				}
			}
			base = append(base, in)
			st := &vcState{mem: in}
			func() {
				defer func() {
					if recover() != nil {
						agree = false
					}
				}()
				prog.vcRun(st, -1)
			}()
			cpuOut := in
			k.asm(&cpuOut)
			if st.mem != cpuOut {
				agree = false
			}
			judge(k, &in, "structured-random", 0, "")
		}
		if !agree {
			lib.Note("C14 lane search: interpreter and CPU disagree on %s: directed workload skipped", k.name)
			lib.Count("lane-search:interpreter-gave-up")
			continue
		}
		lib.Count("lane-search:interpreter-agrees-with-cpu:" + k.name)
		// ---- baseline peaks per accumulate instruction
		peaks := make([]int32, prog.nacc)
		{
			st := &vcState{}
			for _, in := range base {
				st.mem = in
				prog.vcRun(st, -1)
				for i, p := range st.peak {
					if p > peaks[i] {
						peaks[i] = p
					}
				}
			}
		}
		// targets: accumulations that already exceed 1.5 q (sums of several
		// terms; the closing subtraction of a Montgomery or Barrett reduction
		// stays below q), largest first
		var targets []int
		for i, p := range peaks {
			if p > 3*vq/2 {
				targets = append(targets, i)
			}
		}
		sort.Slice(targets, func(a, b int) bool { return peaks[targets[a]] > peaks[targets[b]] })
		lib.CountN("lane-search:target-instructions:"+k.name, len(targets))
		evals := lib.Scale(6000, 200000)
		accIdx := make([]int, 0, prog.nacc) // accumulate ordinal -> instruction index
		for i, in := range prog.ins {
			if in.accumulate {
				accIdx = append(accIdx, i)
			}
		}
		var best sync.Map
		lib.Par(len(targets), func(ti int) {
			tg := targets[ti]
			r := lib.NewRng("c14/lane/climb/"+k.name, tg)
			st := &vcState{}
			// start from the base input with the largest peak at this target
			cur := base[0]
			var curPk int32 = -1
			for _, in := range base {
				st.mem = in
				prog.vcRun(st, tg)
				if st.peak[tg] > curPk {
					curPk, cur = st.peak[tg], in
				}
			}
			cands := []int16{vq, -vq, 0, vq - 1, 1 - vq, vq / 2, -vq / 2}
			for e := 0; e < evals; {
				j := r.Intn(N)
				old := cur[j]
				bestV, bestPk := old, curPk
				for c := 0; c < 12; c++ {
					var v int16
					if c < len(cands) && r.Intn(3) == 0 {
						v = cands[r.Intn(len(cands))]
					} else {
						v = int16(r.Intn(2*vq+1) - vq)
					}
					if v == old {
						continue
					}
					cur[j] = v
					st.mem = cur
					prog.vcRun(st, tg)
					e++
					if st.peak[tg] > bestPk {
						bestV, bestPk = v, st.peak[tg]
					}
				}
				cur[j], curPk = bestV, bestPk
				if curPk > 32767 {
					break
				}
			}
			lib.CountN("evaluations", evals)
			lib.Case([]byte("lane-search"), []byte(k.name), []byte{byte(tg), byte(tg >> 8)})
			best.Store(tg, curPk)
			if curPk > 32767 {
				lib.Count("lane-search:lane-overflow-reached-in-interpreter:" + k.name)
			}
			judge(k, &cur, "lane search on the interpreted assembly", curPk, prog.ins[accIdx[tg]].text+fmt.Sprintf(" (amd64.s:%d)", prog.ins[accIdx[tg]].line))
		})
		var top int32
		best.Range(func(_, v any) bool {
			if v.(int32) > top {
				top = v.(int32)
			}
			return true
		})
		lib.Sample(mon, lib.D("kernel", k.name, "accumulate_instructions", prog.nacc, "targets", len(targets), "largest_exact_lane_sum_reached", top, "evaluations_per_target", evals))
	}
}
