//go:build verif

// C12 white-box monitor of Dilithium's Z_q helpers (q = 8380417): exhaustive
// over the 32-bit domains, structured + sampled over the 2^55-element domain
// of montReduceLe2Q, against plain integer arithmetic.
package dilithium

import (
	"testing"

	"github.com/cloudflare/circl/internal/zzverif/lib"
)

const vc12Mon = "TestVerifC12DilithiumField"

func vc12Viol(key string, kv ...any) { lib.Violation("C12:"+key, vc12Mon, lib.D(kv...)) }

func TestVerifC12DilithiumField(t *testing.T) {
	const q = 8380417
	if Q != q {
		t.Fatal("dilithium: Q is not 8380417")
	}
	lib.Mandatory("dilithium:ReduceLe2Q", "dilithium:modQ", "dilithium:le2qModQ", "dilithium:power2round", "dilithium:montReduceLe2Q", "dilithium:montReduceLe2Q:top-of-domain")
	// ReduceLe2Q and modQ: every uint32
	const parts = 1024
	lib.Par(parts, func(k int) {
		bad := 0
		lo := uint64(k) << 22
		for x64 := lo; x64 < lo+(1<<22); x64++ {
			x := uint32(x64)
			y := ReduceLe2Q(x)
			if y >= 2*q || y%q != x%q {
				if bad < 3 {
					vc12Viol("wrong-residue:dilithium.ReduceLe2Q", "x", x, "got", y)
				}
				bad++
			}
			if m := modQ(x); m != x%q {
				if bad < 3 {
					vc12Viol("wrong-residue:dilithium.modQ", "x", x, "got", m)
				}
				bad++
			}
		}
		lib.CountN("dilithium:ReduceLe2Q", 1<<22)
		lib.CountN("dilithium:modQ", 1<<22)
		lib.CountN("evaluations", 2<<22)
	})
	lib.DistinctS("dilithium.ReduceLe2Q/modQ", "exhaustive uint32")
	// le2qModQ: every 0 <= x < 2q ; power2round: every 0 <= a < q
	lib.Par(64, func(k int) {
		for x := uint32(k); x < 2*q; x += 64 {
			if g := le2qModQ(x); g != x%q {
				vc12Viol("wrong-residue:dilithium.le2qModQ", "x", x, "got", g)
			}
			if x < q {
				a0q, a1 := power2round(x)
				a0 := int64(a0q) - q
				half := int64(1) << (D - 1)
				if int64(a1)<<D+a0 != int64(x) || a0 <= -half || a0 > half {
					vc12Viol("wrong-value:dilithium.power2round", "a", x, "a0+q", a0q, "a1", a1)
				}
			}
		}
	})
	lib.CountN("dilithium:le2qModQ", 2*q)
	lib.CountN("dilithium:power2round", q)
	lib.CountN("evaluations", 3*q)
	lib.DistinctS("dilithium.le2qModQ/power2round", "exhaustive")
	// montReduceLe2Q: x <= q 2^32 -> y <= 2q, y 2^32 = x mod q.
	// 2^32 * rinv = 1 mod q
	var rinv uint64
	{
		// q is prime: rinv = (2^32)^(q-2) mod q
		b, e, r := uint64(1<<32)%q, uint64(q-2), uint64(1)
		for ; e > 0; e >>= 1 {
			if e&1 == 1 {
				r = r * b % q
			}
			b = b * b % q
		}
		rinv = r
		if (r<<32)%q != 1 {
			t.Fatal("dilithium: self-check of 2^-32 mod q failed")
		}
	}
	maxx := uint64(q) << 32
	chk := func(x uint64) {
		y := montReduceLe2Q(x)
		if uint64(y) > 2*q || uint64(y)%q != (x%q)*rinv%q {
			vc12Viol("wrong-residue:dilithium.montReduceLe2Q", "x", x, "got", y)
		}
	}
	// (a) the whole top and bottom of the domain and a window round every multiple of 2^32 (2^21 values each)
	lib.Par(64, func(k int) {
		for d := uint64(k); d < 1<<21; d += 64 {
			chk(d)
			chk(maxx - d)
			lib.Count("dilithium:montReduceLe2Q:top-of-domain")
		}
	})
	// (b) all products a*b of the values the NTT really forms: a < 2q sampled on a grid, b a zeta-like value < q
	n := lib.Scale(8_000_000, 2_000_000_000)
	lib.Par(256, func(k int) {
		r := lib.NewRng("c12/dilithium/mont", k)
		for j := 0; j < n/256; j++ {
			var x uint64
			switch j & 3 {
			case 0:
				x = r.U64() % (maxx + 1)
			case 1:
				x = (r.U64() % (2 * q)) * (r.U64() % q) // a product as the NTT forms it (< 2q * q < q 2^32)
			case 2:
				x = (uint64(r.Intn(q+1)) << 32) | uint64(r.EdgeLimb(0)&0xffffffff)
				if x > maxx {
					x = maxx
				}
			default:
				x = r.EdgeLimb(q) % (maxx + 1)
			}
			chk(x)
		}
		lib.CountN("dilithium:montReduceLe2Q", n/256)
		lib.CountN("evaluations", n/256)
	})
	lib.DistinctS("dilithium.montReduceLe2Q", "top/bottom 2^21 + sampled")
}
