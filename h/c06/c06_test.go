//go:build verif

// C06 - X25519/X448 equal RFC 7748 on every input and flag exactly the
// all-zero results.  Reference-model oracle (math/big ladder, crypto/ecdh as
// a second oracle for X25519) evaluated on the same inputs as the real code,
// plus relations between observed calls (KeyGen vs Shared with the base point,
// insensitivity to clamped scalar bits and to bit 255 of the peer value, both
// parties agree).  All operands live in guard-page buffers.
package c06

import (
	"crypto/ecdh"
	"encoding/json"
	"math/big"
	"os"
	"runtime/debug"
	"strings"
	"sync/atomic"
	"testing"
	"unsafe"

	"github.com/cloudflare/circl/dh/x25519"
	"github.com/cloudflare/circl/dh/x448"
	"github.com/cloudflare/circl/internal/zzverif/lib"
	"golang.org/x/sys/cpu"
)

func TestMain(m *testing.M) { lib.Main(m) }

// ---------------------------------------------------------------- self-checks

func TestVerifSelfCheckRef(t *testing.T) {
	type kat struct{ k, u, out string }
	v25519 := []kat{
		{"a546e36bf0527c9d3b16154b82465edd62144c0ac1fc5a18506a2244ba449ac4", "e6db6867583030db3594c1a424b15f7c726624ec26b3353b10a903a6d0ab1c4c", "c3da55379de9c6908e94ea4df28d084f32eccf03491c71f754b4075577a28552"},
		{"4b66e9d4d1b4673c5ad22691957d6af5c11b6421e0ea01d42ca4169e7918ba0d", "e5210f12786811d3f4b7959d0538ae2c31dbe7106fc03c3efc4cd549c715a493", "95cbde9476e8907d7aade45cb4b873f88b595a68799fa152e6f8f7647aac7957"},
		// section 6.1
		{"77076d0a7318a57d3c16c17251b26645df4c2f87ebc0992ab177fba51db92c2a", "0900000000000000000000000000000000000000000000000000000000000000", "8520f0098930a754748b7ddcb43ef75a0dbf3a0d26381af4eba4a98eaa9b4e6a"},
		{"5dab087e624a8a4b79e17f8b83800ee66f3bb1292618b6fd1c2f8b27ff88e0eb", "0900000000000000000000000000000000000000000000000000000000000000", "de9edb7d7b7dc1b4d35b61c2ece435373f8343c85b78674dadfc7e146f882b4f"},
		{"77076d0a7318a57d3c16c17251b26645df4c2f87ebc0992ab177fba51db92c2a", "de9edb7d7b7dc1b4d35b61c2ece435373f8343c85b78674dadfc7e146f882b4f", "4a5d9d5ba4ce2de1728e3bf480350f25e07e21c947d19e3376f09b3c1e161742"},
		{"5dab087e624a8a4b79e17f8b83800ee66f3bb1292618b6fd1c2f8b27ff88e0eb", "8520f0098930a754748b7ddcb43ef75a0dbf3a0d26381af4eba4a98eaa9b4e6a", "4a5d9d5ba4ce2de1728e3bf480350f25e07e21c947d19e3376f09b3c1e161742"},
	}
	v448 := []kat{
		{"3d262fddf9ec8e88495266fea19a34d28882acef045104d0d1aae121700a779c984c24f8cdd78fbff44943eba368f54b29259a4f1c600ad3", "06fce640fa3487bfda5f6cf2d5263f8aad88334cbd07437f020f08f9814dc031ddbdc38c19c6da2583fa5429db94ada18aa7a7fb4ef8a086", "ce3e4ff95a60dc6697da1db1d85e6afbdf79b50a2412d7546d5f239fe14fbaadeb445fc66a01b0779d98223961111e21766282f73dd96b6f"},
		{"203d494428b8399352665ddca42f9de8fef600908e0d461cb021f8c538345dd77c3e4806e25f46d3315c44e0a5b4371282dd2c8d5be3095f", "0fbcc2f993cd56d3305b0b7d9e55d4c1a8fb5dbb52f8e9a1e9b6201b165d015894e56c4d3570bee52fe205e28a78b91cdfbde71ce8d157db", "884a02576239ff7a2f2f63b2db6a9ff37047ac13568e1e30fe63c4a7ad1b3ee3a5700df34321d62077e63633c575c1c954514e99da7c179d"},
		// section 6.2
		{"9a8f4925d1519f5775cf46b04b5800d4ee9ee8bae8bc5565d498c28dd9c9baf574a9419744897391006382a6f127ab1d9ac2d8c0a598726b", "0500000000000000000000000000000000000000000000000000000000000000000000000000000000000000000000000000000000000000", "9b08f7cc31b7e3e67d22d5aea121074a273bd2b83de09c63faa73d2c22c5d9bbc836647241d953d40c5b12da88120d53177f80e532c41fa0"},
		{"1c306a7ac2a0e2e0990b294470cba339e6453772b075811d8fad0d1d6927c120bb5ee8972b0d3e21374c9c921b09d1b0366f10b65173992d", "0500000000000000000000000000000000000000000000000000000000000000000000000000000000000000000000000000000000000000", "3eb7a829b0cd20f5bcfc0b599b6feccf6da4627107bdb0d4f345b43027d8b972fc3e34fb4232a13ca706dcb57aec3dae07bdc1c67bf33609"},
		{"9a8f4925d1519f5775cf46b04b5800d4ee9ee8bae8bc5565d498c28dd9c9baf574a9419744897391006382a6f127ab1d9ac2d8c0a598726b", "3eb7a829b0cd20f5bcfc0b599b6feccf6da4627107bdb0d4f345b43027d8b972fc3e34fb4232a13ca706dcb57aec3dae07bdc1c67bf33609", "07fff4181ac6cc95ec1c16a94a0f74d12da232ce40a77552281d282bb60c0b56fd2464c335543936521c24403085d59a449a5037514a879d"},
		{"1c306a7ac2a0e2e0990b294470cba339e6453772b075811d8fad0d1d6927c120bb5ee8972b0d3e21374c9c921b09d1b0366f10b65173992d", "9b08f7cc31b7e3e67d22d5aea121074a273bd2b83de09c63faa73d2c22c5d9bbc836647241d953d40c5b12da88120d53177f80e532c41fa0", "07fff4181ac6cc95ec1c16a94a0f74d12da232ce40a77552281d282bb60c0b56fd2464c335543936521c24403085d59a449a5037514a879d"},
	}
	for i, v := range v25519 {
		if got := c25519.X(lib.MustHex(v.k), lib.MustHex(v.u)); lib.Hex(got) != v.out {
			t.Fatalf("reference X25519 fails RFC 7748 vector %d: got %x", i, got)
		}
	}
	for i, v := range v448 {
		if got := c448.X(lib.MustHex(v.k), lib.MustHex(v.u)); lib.Hex(got) != v.out {
			t.Fatalf("reference X448 fails RFC 7748 vector %d: got %x", i, got)
		}
	}
	// iterated vectors (1 and 1000 iterations)
	var iterBad atomic.Value
	iter := func(c *xcurve, after1, after1000 string) {
		k := lib.Clone(c.base)
		u := lib.Clone(c.base)
		for i := 1; i <= 1000; i++ {
			r := c.X(k, u)
			u, k = k, r
			if i == 1 && lib.Hex(k) != after1 {
				iterBad.Store("reference " + c.name + " fails the 1-iteration vector: " + lib.Hex(k))
				return
			}
		}
		if lib.Hex(k) != after1000 {
			iterBad.Store("reference " + c.name + " fails the 1000-iteration vector: " + lib.Hex(k))
		}
	}
	done := make(chan struct{})
	go func() {
		defer close(done)
		iter(c448, "3f482c8a9f19b01e6c46ee9711d9dc14fd4bf67af30765c2ae2b846a4d23a8cd0db897086239492caf350b51f833868b9bc2b3bca9cf4113",
			"aa3b4749d55b9daf1e5b00288826c467274ce3ebbdd5c17b975e09d4af6c67cf10d087202db88286e2b79fceea3ec353ef54faa26e219f38")
	}()
	iter(c25519, "422c8e7a6227d7bca1350b3e2bb7279f7897b87bb6854b783c60e80311ae3079", "684cf59ba83309552800ef566f2f4d3c1c3887c49360e3875f2eb94d99532c51")

	// the vector files shipped with the repo (same RFC vectors + Wycheproof)
	type jkat struct{ Input, Output, Scalar string }
	for _, c := range []*xcurve{c25519, c448} {
		var ks []jkat
		raw, err := os.ReadFile("/repo/dh/" + c.name + "/testdata/rfc7748_kat_test.json")
		if err != nil {
			t.Fatalf("vector file: %v", err)
		}
		if err := json.Unmarshal(raw, &ks); err != nil || len(ks) == 0 {
			t.Fatalf("vector file: %v", err)
		}
		for i, v := range ks {
			if got := c.X(lib.MustHex(v.Scalar), lib.MustHex(v.Input)); lib.Hex(got) != v.Output {
				t.Fatalf("reference %s fails repo KAT %d", c.name, i)
			}
		}
	}
	type wyche struct {
		TcID                    int
		Public, Private, Shared string
	}
	var ws []wyche
	raw, err := os.ReadFile("/repo/dh/x25519/testdata/wycheproof_kat.json")
	if err != nil {
		t.Fatalf("wycheproof file: %v", err)
	}
	if err := json.Unmarshal(raw, &ws); err != nil || len(ws) < 50 {
		t.Fatalf("wycheproof file: %v (%d)", err, len(ws))
	}
	for _, v := range ws {
		if got := c25519.X(lib.MustHex(v.Private), lib.MustHex(v.Public)); lib.Hex(got) != v.Shared {
			t.Fatalf("reference x25519 fails Wycheproof tcId %d", v.TcID)
		}
	}

	// group structure constants used by the workload: the base point has the
	// stated prime order, the listed u are exactly the low-order ones.
	for _, c := range []*xcurve{c25519, c448} {
		b := leInt(c.base)
		if c.ladder(c.order, b).Sign() != 0 {
			t.Fatalf("%s: order * base != infinity", c.name)
		}
		if c.ladder(new(big.Int).Add(c.order, big.NewInt(1)), b).Cmp(b) != 0 {
			t.Fatalf("%s: (order+1) * base != base", c.name)
		}
		if !c.order.ProbablyPrime(32) || !c.p.ProbablyPrime(32) {
			t.Fatalf("%s: p or order not prime", c.name)
		}
		for _, u := range lowOrderU(c) {
			if !(c.ladder(big.NewInt(c.cof), u).Sign() == 0 || c.ladder(big.NewInt(c.cof/2), u).Sign() == 0) {
				t.Fatalf("%s: listed low-order u %v is not of low order", c.name, u)
			}
		}
	}

	// equality with crypto/ecdh X25519 on random and edge inputs
	n := lib.Scale(300, 3000)
	bad := make([]int, n)
	lib.Par(n, func(i int) {
		r := lib.NewRng("c06/selfcheck-ecdh", i)
		k := r.Bytes(32)
		u := r.Bytes(32)
		if i%3 == 1 {
			u = r.EdgeBytes(32, 19)
		}
		if i%3 == 2 {
			k = r.EdgeBytes(32, 19)
		}
		ref := c25519.X(k, u)
		out, kg, err := ecdhX25519(k, u)
		if err != nil {
			if !allZero(ref) {
				bad[i] = 1
			}
		} else if !lib.Eq(out, ref) {
			bad[i] = 1
		}
		if !lib.Eq(kg, c25519.X(k, c25519.base)) {
			bad[i] = 1
		}
	})
	for i, b := range bad {
		if b != 0 {
			t.Fatalf("reference X25519 differs from crypto/ecdh on self-check case %d", i)
		}
	}

	// RFC 9180 A.1.1 (DHKEM(X25519, HKDF-SHA256)) for the ExtractAndExpand helper
	skE := lib.MustHex("52c4a758a802cd8b936eceea314432798d5baf2d7e9235dc084ab1b9cfa2f736")
	pkR := lib.MustHex("3948cfe0ad1ddb695d780e59077195da6c56506b027329794ab02bca80815c4d")
	enc := lib.MustHex("37fda3567bdbd628e88668c3c8d7e97d1d1253b6d4ea6d44c150f741f1bf4431")
	if !lib.Eq(c25519.X(skE, c25519.base), enc) {
		t.Fatalf("RFC 9180 A.1.1: enc mismatch")
	}
	ss := dhkemX25519.extractAndExpand(c25519.X(skE, pkR), append(lib.Clone(enc), pkR...))
	if lib.Hex(ss) != "fe0e18c9f024ce43799ae393c7e8fe8fce9d218875e8227b0187c04e7d2ea1fc" {
		t.Fatalf("DHKEM ExtractAndExpand helper fails RFC 9180 A.1.1: %x", ss)
	}
	<-done
	if v := iterBad.Load(); v != nil {
		t.Fatalf("%s", v.(string))
	}
	lib.Count("selfcheck-ok")
}

func ecdhX25519(k, u []byte) (shared, pub []byte, err error) {
	priv, e := ecdh.X25519().NewPrivateKey(k)
	if e != nil {
		panic("crypto/ecdh refused a 32-byte private key: " + e.Error())
	}
	pk, e := ecdh.X25519().NewPublicKey(u)
	if e != nil {
		panic("crypto/ecdh refused a 32-byte public key: " + e.Error())
	}
	pub = priv.PublicKey().Bytes()
	shared, err = priv.ECDH(pk)
	return
}

// TestVerifConfig records which field back-end the configuration selected
// and refuses to go on if the switch the orchestrator asked for is not in
// effect (the run would prove nothing about that back-end).
func TestVerifConfig(t *testing.T) {
	lib.Flag("x86.HasBMI2", cpu.X86.HasBMI2)
	lib.Flag("x86.HasADX", cpu.X86.HasADX)
	lib.Flag("purego", buildPurego)
	be := "asm-bmi2-adx"
	switch {
	case buildPurego:
		be = "generic-go"
	case !(cpu.X86.HasBMI2 && cpu.X86.HasADX):
		be = "asm-legacy"
	}
	lib.Flag("field-backend", be)
	switch lib.Cfg() {
	case "nobmi2":
		if cpu.X86.HasBMI2 || buildPurego {
			t.Fatalf("configuration nobmi2 not in effect")
		}
	case "noadx":
		if cpu.X86.HasADX || buildPurego {
			t.Fatalf("configuration noadx not in effect")
		}
	case "purego":
		if !buildPurego {
			t.Fatalf("configuration purego not in effect")
		}
	case "default":
		if buildPurego {
			t.Fatalf("default configuration built with purego")
		}
		if be != "asm-bmi2-adx" {
			lib.Note("default configuration runs the legacy assembly: this CPU lacks BMI2 or ADX")
		}
	}
	lib.Count("backend:" + be)
}

// ---------------------------------------------------------------- curve API

// api binds a curve to the circl entry points; all operands are guard-page
// buffers cast to *Key.
type api struct {
	c      *xcurve
	shared func(out, k, u unsafe.Pointer) bool
	keygen func(pub, k unsafe.Pointer)
}

var (
	api25519 = &api{c25519,
		func(out, k, u unsafe.Pointer) bool {
			return x25519.Shared((*x25519.Key)(out), (*x25519.Key)(k), (*x25519.Key)(u))
		},
		func(pub, k unsafe.Pointer) { x25519.KeyGen((*x25519.Key)(pub), (*x25519.Key)(k)) }}
	api448 = &api{c448,
		func(out, k, u unsafe.Pointer) bool {
			return x448.Shared((*x448.Key)(out), (*x448.Key)(k), (*x448.Key)(u))
		},
		func(pub, k unsafe.Pointer) { x448.KeyGen((*x448.Key)(pub), (*x448.Key)(k)) }}
)

// guarded operand buffers are recycled (mmap/munmap of three pages per operand
// and call is needless kernel work on a shared machine); a buffer that was
// involved in a panic is not returned to the pool.
var gpool = map[[2]int]chan *lib.Guarded{}

func init() {
	for _, n := range []int{32, 56} {
		for _, e := range []int{0, 1} {
			gpool[[2]int{n, e}] = make(chan *lib.Guarded, 256)
		}
	}
}

func gget(n int, atEnd bool) *lib.Guarded {
	e := 0
	if atEnd {
		e = 1
	}
	select {
	case g := <-gpool[[2]int{n, e}]:
		return g
	default:
		return lib.NewGuarded(n, atEnd)
	}
}

func gput(g *lib.Guarded, n int, atEnd bool) {
	e := 0
	if atEnd {
		e = 1
	}
	select {
	case gpool[[2]int{n, e}] <- g:
	default:
		g.Free()
	}
}

// callShared runs Shared(out, k, u) on guarded operands; layout selects which
// side of each buffer touches the inaccessible page.
func (a *api) callShared(k, u []byte, layout int) (out []byte, ok bool, p *lib.Panic) {
	n := a.c.size
	gk := gget(n, layout&1 != 0)
	gu := gget(n, layout&2 != 0)
	gout := gget(n, layout&4 != 0)
	copy(gk.Buf, k)
	copy(gu.Buf, u)
	for i := range gout.Buf {
		gout.Buf[i] = 0xA5
	}
	in := append(lib.Clone(k), u...)
	debug.SetPanicOnFault(true) // per goroutine: guard-page faults become panics
	p = lib.Try(a.c.name+".Shared", in, func() { ok = a.shared(gout.Ptr(), gk.Ptr(), gu.Ptr()) })
	out = lib.Clone(gout.Buf)
	if p == nil {
		if !lib.Eq(gk.Buf, k) || !lib.Eq(gu.Buf, u) {
			lib.Count(a.c.name + ":shared-modified-an-input")
			lib.Violation("C06:operand-modified:"+a.c.name+".Shared", monX, lib.D("k", k, "u", u, "k_after", gk.Buf, "u_after", gu.Buf))
		}
		gput(gk, n, layout&1 != 0)
		gput(gu, n, layout&2 != 0)
		gput(gout, n, layout&4 != 0)
	}
	return
}

// callSharedAliased: Shared with the output written over the peer value
// (mode 1) or over the secret (mode 2).
func (a *api) callSharedAliased(k, u []byte, mode, layout int) (out []byte, ok bool, p *lib.Panic) {
	n := a.c.size
	gk := gget(n, layout&1 != 0)
	gu := gget(n, layout&2 != 0)
	copy(gk.Buf, k)
	copy(gu.Buf, u)
	gout := gu
	if mode == 2 {
		gout = gk
	}
	debug.SetPanicOnFault(true)
	p = lib.Try(a.c.name+".Shared(aliased)", append(lib.Clone(k), u...), func() { ok = a.shared(gout.Ptr(), gk.Ptr(), gu.Ptr()) })
	out = lib.Clone(gout.Buf)
	if p == nil {
		gput(gk, n, layout&1 != 0)
		gput(gu, n, layout&2 != 0)
	}
	return
}

func (a *api) callKeyGen(k []byte, layout int) (pub []byte, p *lib.Panic) {
	n := a.c.size
	gk := gget(n, layout&1 != 0)
	gout := gget(n, layout&4 != 0)
	copy(gk.Buf, k)
	for i := range gout.Buf {
		gout.Buf[i] = 0xA5
	}
	debug.SetPanicOnFault(true)
	p = lib.Try(a.c.name+".KeyGen", k, func() { a.keygen(gout.Ptr(), gk.Ptr()) })
	pub = lib.Clone(gout.Buf)
	if p == nil {
		gput(gk, n, layout&1 != 0)
		gput(gout, n, layout&4 != 0)
	}
	return
}

// ---------------------------------------------------------------- workload

type named struct {
	class string
	b     []byte
}

// lowOrderU lists the decoded (canonical) u-coordinates of the points of
// small order on the curve and its twist.
func lowOrderU(c *xcurve) []*big.Int {
	pm1 := new(big.Int).Sub(c.p, big.NewInt(1))
	if c.size == 32 {
		return []*big.Int{big.NewInt(0), big.NewInt(1),
			bi("325606250916557431795983626356110631294008115727848805560023387167927233504"),
			bi("39382357235489614581723060781553021112529911719440698176882885853963445705823"),
			pm1}
	}
	return []*big.Int{big.NewInt(0), big.NewInt(1), pm1}
}

func isLowOrder(c *xcurve, u *big.Int) bool {
	for _, l := range lowOrderU(c) {
		if l.Cmp(u) == 0 {
			return true
		}
	}
	return false
}

// lowOrderEncodings returns every byte string that decodes to a low-order u:
// canonical, +p aliases that fit, and (X25519) each with bit 255 set.
func lowOrderEncodings(c *xcurve) []named {
	var out []named
	lim := pow2(uint(c.bits))
	for _, u := range lowOrderU(c) {
		out = append(out, named{"low-order", leBytes(u, c.size)})
		al := new(big.Int).Add(u, c.p)
		if al.Cmp(lim) < 0 {
			out = append(out, named{"low-order-noncanonical", leBytes(al, c.size)})
		}
	}
	if c.size == 32 {
		for _, e := range append([]named(nil), out...) {
			b := lib.Clone(e.b)
			b[31] |= 0x80
			out = append(out, named{e.class + "-bit255", b})
		}
	}
	return out
}

func specialU(c *xcurve) []named {
	var out []named
	lim := pow2(uint(c.bits))
	add := func(class string, v *big.Int) {
		if v.Sign() < 0 || v.Cmp(lim) >= 0 {
			return
		}
		out = append(out, named{class, leBytes(v, c.size)})
	}
	big1 := big.NewInt(1)
	for i := int64(0); i <= 20; i++ {
		add("small", big.NewInt(i))
		add("p-minus-small", new(big.Int).Sub(c.p, big.NewInt(i)))
		add("p-plus-small", new(big.Int).Add(c.p, big.NewInt(i)))
		add("top-minus-small", new(big.Int).Sub(new(big.Int).Sub(lim, big1), big.NewInt(i)))
	}
	for _, u := range lowOrderU(c) {
		add("low-order", u)
		add("low-order-alias", new(big.Int).Add(u, c.p))
		add("low-order-neighbour", new(big.Int).Add(u, big1))
		add("low-order-neighbour", new(big.Int).Sub(u, big1))
		add("low-order-negated", new(big.Int).Mod(new(big.Int).Neg(u), c.p))
	}
	half := new(big.Int).Rsh(c.p, 1)
	add("half", half)
	add("half", new(big.Int).Add(half, big1))
	for _, e := range []uint{32, 63, 64, 127, 128, 192, 223, 224, 225, 252, 254, 255, 256, 320, 384, 446, 447} {
		if int(e) < c.bits {
			add("pow2", pow2(e))
			add("pow2-1", new(big.Int).Sub(pow2(e), big1))
		}
	}
	if c.size == 56 {
		// non-canonical range of X448 is [p, 2^448): p + r for r up to 2^224
		for _, e := range []uint{32, 64, 128, 192, 223} {
			add("p-plus-pow2", new(big.Int).Add(c.p, pow2(e)))
			add("p-plus-pow2", new(big.Int).Add(c.p, new(big.Int).Sub(pow2(e), big1)))
		}
		add("p-plus-2^224", new(big.Int).Add(c.p, pow2(224))) // = 2^448-1
		add("p-plus-2^224-1", new(big.Int).Add(c.p, new(big.Int).Sub(pow2(224), big1)))
	}
	if c.size == 32 {
		// every value again with the ignored bit 255 set (all-ones is among them)
		for _, e := range append([]named(nil), out...) {
			b := lib.Clone(e.b)
			b[31] |= 0x80
			out = append(out, named{e.class + "-bit255", b})
		}
	}
	// de-duplicate by encoding, keep first class
	seen := map[string]bool{}
	var ded []named
	for _, e := range out {
		if !seen[string(e.b)] {
			seen[string(e.b)] = true
			ded = append(ded, e)
		}
	}
	return ded
}

func specialScalars(c *xcurve) []named {
	n := c.size
	var out []named
	addI := func(class string, v *big.Int) {
		if v.Sign() < 0 || v.BitLen() > 8*n {
			return
		}
		out = append(out, named{class, leBytes(v, n)})
	}
	big1 := big.NewInt(1)
	top := pow2(uint(8 * n))
	addI("zero", big.NewInt(0))
	addI("one", big1)
	addI("clamped-bits-only", big.NewInt(c.cof-1))
	addI("cofactor", big.NewInt(c.cof))
	addI("all-ones", new(big.Int).Sub(top, big1))
	hi := uint(c.bits - 1) // bit forced to one by clamping (254 / 447)
	addI("forced-bit", pow2(hi))
	addI("forced-bit-minus-1", new(big.Int).Sub(pow2(hi), big1))
	addI("forced-bit-plus-cof", new(big.Int).Add(pow2(hi), big.NewInt(c.cof)))
	addI("max-clamped", new(big.Int).Sub(pow2(hi+1), big.NewInt(c.cof)))
	if n == 32 {
		addI("2^255-1", new(big.Int).Sub(pow2(255), big1))
		addI("bit255-only", pow2(255))
		addI("2^254-with-all-clamped-bits", new(big.Int).Add(new(big.Int).Add(pow2(254), pow2(255)), big.NewInt(7)))
	} else {
		addI("2^447-with-all-clamped-bits", new(big.Int).Add(pow2(447), big.NewInt(3)))
	}
	// multiples of the prime order: only cof/2 * order .. fit; h*order is the
	// curve order (X448: 4*order lies in the clamped range)
	for m := int64(1); m <= c.cof; m *= 2 {
		v := new(big.Int).Mul(c.order, big.NewInt(m))
		addI("order-multiple", v)
		addI("order-multiple-plus-cof", new(big.Int).Add(v, big.NewInt(c.cof)))
		addI("order-multiple-minus-cof", new(big.Int).Sub(v, big.NewInt(c.cof)))
	}
	return out
}

// scalar-is-curve-order: the clamped scalar is a multiple of the order of the
// whole curve group, so k*P is the point at infinity for every P on the curve.
func scalarKillsCurve(c *xcurve, k []byte) bool {
	h := new(big.Int).Mul(c.order, big.NewInt(c.cof))
	return new(big.Int).Mod(c.decodeScalar(k), h).Sign() == 0
}

func clampMask(c *xcurve) []int { // bit positions ignored or forced by decodeScalar
	if c.size == 32 {
		return []int{0, 1, 2, 254, 255}
	}
	return []int{0, 1, 447}
}

// sweepPairs: every single-bit scalar and every run of ones (each row of the
// precomputed base-point table and each ladder position in isolation) against
// the base point and a fixed random u; every single-bit u and every 2^i-1
// against a fixed random scalar.
func sweepPairs(c *xcurve) [][2]named {
	n := c.size
	r := lib.NewRng("c06/sweep/"+c.name, 0)
	ru := named{"random", r.Bytes(n)}
	rk := named{"random", r.Bytes(n)}
	base := named{"base", lib.Clone(c.base)}
	var out [][2]named
	run := make([]byte, n)
	for i := 0; i < 8*n; i++ {
		bit := make([]byte, n)
		bit[i/8] |= 1 << (uint(i) % 8)
		run[i/8] |= 1 << (uint(i) % 8)
		sb := named{"single-bit", bit}
		sr := named{"run-of-ones", lib.Clone(run)}
		out = append(out, [2]named{sb, base}, [2]named{sr, base}, [2]named{sb, ru}, [2]named{sr, ru},
			[2]named{rk, {"single-bit", bit}}, [2]named{rk, {"run-of-ones", lib.Clone(run)}})
	}
	return out
}

func genScalar(c *xcurve, r *lib.Rng, sp []named) named {
	n := c.size
	switch r.Intn(20) {
	case 0, 1, 2:
		return named{"edge-limbs", r.EdgeBytes(n, uint64(lib.Pick(r, 19, 38, 1, 8)))}
	case 3, 4:
		return sp[r.Intn(len(sp))]
	case 5, 6: // sparse
		b := make([]byte, n)
		for j := 0; j < 1+r.Intn(3); j++ {
			i := r.Intn(8 * n)
			b[i/8] |= 1 << (uint(i) % 8)
		}
		return named{"sparse", b}
	case 7: // dense
		b := make([]byte, n)
		for i := range b {
			b[i] = 0xFF
		}
		for j := 0; j < 1+r.Intn(3); j++ {
			i := r.Intn(8 * n)
			b[i/8] &^= 1 << (uint(i) % 8)
		}
		return named{"dense", b}
	case 8, 9: // near a multiple of the group order
		m := big.NewInt(int64(1 + r.Intn(int(c.cof))))
		v := new(big.Int).Mul(c.order, m)
		v.Add(v, big.NewInt(int64(r.Intn(33)-16)))
		if v.BitLen() > 8*n {
			v.Rsh(v, 1)
		}
		b := leBytes(v, n)
		if r.Bool() {
			for _, i := range clampMask(c) {
				if r.Bool() {
					b[i/8] ^= 1 << (uint(i) % 8)
				}
			}
		}
		return named{"near-order-multiple", b}
	default:
		return named{"random", r.Bytes(n)}
	}
}

func genU(c *xcurve, r *lib.Rng, sp []named) named {
	n := c.size
	switch r.Intn(20) {
	case 0, 1, 2, 3:
		if n == 32 {
			return named{"edge-limbs", r.EdgeBytes(n, uint64(lib.Pick(r, 19, 38)))}
		}
		return named{"edge-limbs", r.EdgeBytes(n, lib.Pick[uint64](r, 1, 2, 1<<32))}
	case 4, 5:
		return sp[r.Intn(len(sp))]
	case 6, 7: // a special value with one or two bits flipped
		b := lib.Clone(sp[r.Intn(len(sp))].b)
		for j := 0; j < 1+r.Intn(2); j++ {
			i := r.Intn(8 * n)
			b[i/8] ^= 1 << (uint(i) % 8)
		}
		return named{"special-bitflip", b}
	case 8, 9, 10: // around p: p +- r with r small, edge or (X448) up to 2^224
		var rr *big.Int
		switch r.Intn(3) {
		case 0:
			rr = big.NewInt(int64(r.Intn(64)))
		case 1:
			rr = leInt(r.EdgeBytes(28, 1))
		default:
			rr = leInt(r.Bytes(1 + r.Intn(28)))
		}
		v := new(big.Int)
		if r.Bool() {
			v.Add(c.p, rr)
		} else {
			v.Sub(c.p, rr)
		}
		lim := pow2(uint(8 * n))
		v.Mod(v, lim)
		if n == 32 && r.Bool() {
			v.Mod(v, pow2(255))
		}
		return named{"around-p", leBytes(v, n)}
	case 11: // top bits set
		b := r.Bytes(n)
		b[n-1] |= 0x80
		if r.Bool() {
			b[n-1] = 0xFF
			b[n-2] = 0xFF
		}
		return named{"top-bits-set", b}
	default:
		return named{"random", r.Bytes(n)}
	}
}

// ---------------------------------------------------------------- monitor: Shared / KeyGen vs the reference

var oracleBad int64

// flagCheck is the "flag is false exactly when the output is all zero" part.
// The input class separates the one known way to get a zero output from a
// peer value that is not of low order (scalar = order of the curve group).
func flagCheck(c *xcurve, mon string, k, u, out []byte, ok bool) {
	if ok == !allZero(out) {
		return
	}
	key := "C06:flag-false-on-nonzero-output:" + c.name + ".Shared"
	if ok {
		key = "C06:flag-true-on-zero-output:" + c.name + ".Shared"
	}
	if scalarKillsCurve(c, k) {
		key += ":scalar-is-curve-order"
	}
	lib.Violation(key, mon, lib.D("k", k, "u", u, "clamped_scalar", c.decodeScalar(k).String(), "u_low_order", isLowOrder(c, c.decodeU(u)), "observed", out, "ok", ok))
}

const monX = "TestVerifXDH"

func vio(c *xcurve, class, entry, input string, kv ...any) {
	key := "C06:" + class + ":" + c.name + "." + entry
	if input != "" {
		key += ":" + input
	}
	lib.Violation(key, monX, lib.D(kv...))
}

func TestVerifXDH(t *testing.T) {
	lib.Mandatory("selfcheck-ok")
	for _, a := range []*api{api25519, api448} {
		n := a.c.name
		lib.Mandatory(n+":pairs", n+":flag-false", n+":flag-true", n+":u-low-order", n+":u-noncanonical",
			n+":u-on-twist", n+":u-on-curve", n+":keygen-checked", n+":clamp-relation-checked",
			n+":scalar:zero", n+":scalar:all-ones", n+":cross-product-cases")
	}
	lib.Mandatory("x25519:u-bit255-set", "x25519:ecdh-compared", "x25519:ecdh-rejected", "x25519:bit255-relation-checked",
		"x448:scalar-is-curve-order")
	for _, a := range []*api{api25519, api448} {
		runXDH(a)
	}
	if oracleBad != 0 {
		t.Fatalf("reference model inconsistent with the group structure on %d cases (see notes)", oracleBad)
	}
}

func runXDH(a *api) {
	c := a.c
	spS := specialScalars(c)
	spU := specialU(c)
	cross := len(spS) * len(spU)
	sweep := sweepPairs(c)
	total := lib.Scale(4000, 400000)
	if total < cross+len(sweep)+1000 {
		total = cross + len(sweep) + 1000
	}
	lib.CountN(c.name+":cross-product-cases", cross)
	lib.CountN(c.name+":sweep-cases", len(sweep))
	lib.Par(total, func(i int) {
		var ks, us named
		if i < cross {
			ks, us = spS[i/len(spU)], spU[i%len(spU)]
		} else if i < cross+len(sweep) {
			ks, us = sweep[i-cross][0], sweep[i-cross][1]
		} else {
			r := lib.NewRng("c06/xdh/"+c.name, i)
			ks, us = genScalar(c, r, spS), genU(c, r, spU)
		}
		onePair(a, ks, us, i)
	})
}

func onePair(a *api, ks, us named, idx int) {
	c := a.c
	k, u := ks.b, us.b
	lib.Case([]byte(c.name), k, u)
	lib.Count(c.name + ":pairs")
	lib.Count(c.name + ":scalar:" + ks.class)
	lib.Count(c.name + ":u:" + us.class)
	layout := idx // alternate which side of each operand is guarded

	want := c.X(k, u)
	wantOK := !allZero(want)
	du := c.decodeU(u)
	masked := lib.Clone(u)
	if c.size == 32 {
		masked[31] &= 0x7f
		if u[31]&0x80 != 0 {
			lib.Count("x25519:u-bit255-set")
		}
	}
	if leInt(masked).Cmp(c.p) >= 0 {
		lib.Count(c.name + ":u-noncanonical")
	}
	low := isLowOrder(c, du)
	if low {
		lib.Count(c.name + ":u-low-order")
	}
	if c.onCurve(du) {
		lib.Count(c.name + ":u-on-curve")
	} else {
		lib.Count(c.name + ":u-on-twist")
	}
	kills := scalarKillsCurve(c, k)
	if kills {
		lib.Count(c.name + ":scalar-is-curve-order")
	}
	// the reference itself: zero output <=> low-order u, except when the
	// scalar is a multiple of the curve order (then every curve point dies).
	// A failure here is the oracle's, not circl's: the run is inconclusive.
	if !kills && wantOK == low {
		atomic.AddInt64(&oracleBad, 1)
		lib.Note("oracle inconsistent: %s k=%x u=%x ref=%x low=%v", c.name, k, u, want, low)
	}

	got, ok, p := a.callShared(k, u, layout)
	if p != nil {
		vio(c, "panic-"+panicClass(p), "Shared", "", "k", k, "u", u, "panic", p.Value, "frame", p.TopFrame(), "layout", layout&7)
		return
	}
	if !lib.Eq(got, want) {
		vio(c, "differs-from-rfc7748", "Shared", "", "k", k, "u", u, "scalar_class", ks.class, "u_class", us.class, "expected", want, "observed", got, "ok", ok)
	}
	if ok {
		lib.Count(c.name + ":flag-true")
	} else {
		lib.Count(c.name + ":flag-false")
	}
	flagCheck(c, monX, k, u, got, ok)
	// the same call with the output buffer being the peer's (in-place DH) or
	// the secret's array: result and flag must not depend on where it is written
	if idx%3 == 0 {
		for _, mode := range []int{1, 2} {
			ga, oka, pa := a.callSharedAliased(k, u, mode, layout)
			lib.Count(c.name + ":shared-output-aliases-an-input")
			if pa != nil {
				vio(c, "panic-"+panicClass(pa), "Shared", "aliased", "k", k, "u", u, "panic", pa.Value, "output_is", []string{"", "peer", "secret"}[mode])
				break
			}
			if !lib.Eq(ga, got) || oka != ok {
				vio(c, "result-depends-on-output-aliasing", "Shared", "", "k", k, "u", u, "output_is", []string{"", "peer", "secret"}[mode],
					"separate_output", got, "aliased_output", ga, "ok_separate", ok, "ok_aliased", oka)
				break
			}
		}
	}
	if idx < 2 {
		lib.Sample(monX, lib.D("curve", c.name, "k", k, "u", u, "shared", got, "ok", ok))
	}

	// crypto/ecdh as a second, independent oracle for X25519
	if c.size == 32 {
		eout, epub, err := ecdhX25519(k, u)
		lib.Count("x25519:ecdh-compared")
		if err != nil {
			lib.Count("x25519:ecdh-rejected")
			if ok || !allZero(got) {
				vio(c, "differs-from-crypto-ecdh", "Shared", "", "k", k, "u", u, "ecdh", "error: "+err.Error(), "observed", got, "ok", ok)
			}
		} else if !lib.Eq(eout, got) || !ok {
			vio(c, "differs-from-crypto-ecdh", "Shared", "", "k", k, "u", u, "ecdh", eout, "observed", got, "ok", ok)
		}
		// KeyGen against ecdh
		if idx%4 == 0 {
			pub, p := a.callKeyGen(k, layout>>3)
			if p == nil && !lib.Eq(pub, epub) {
				vio(c, "differs-from-crypto-ecdh", "KeyGen", "", "k", k, "ecdh", epub, "observed", pub)
			}
		}
	}

	// KeyGen(k) == RFC function on the base point == Shared(k, base)
	if idx%4 == 0 || idx < 4096 {
		pub, p := a.callKeyGen(k, layout>>3)
		if p != nil {
			vio(c, "panic-"+panicClass(p), "KeyGen", "", "k", k, "panic", p.Value, "frame", p.TopFrame())
		} else {
			lib.Count(c.name + ":keygen-checked")
			wantPub := c.X(k, c.base)
			if !lib.Eq(pub, wantPub) {
				vio(c, "differs-from-rfc7748", "KeyGen", "", "k", k, "scalar_class", ks.class, "expected", wantPub, "observed", pub)
			}
			sb, okb, pb := a.callShared(k, c.base, layout>>4)
			if pb != nil {
				vio(c, "panic-"+panicClass(pb), "Shared", "", "k", k, "u", c.base, "panic", pb.Value)
			} else {
				if !lib.Eq(sb, pub) {
					vio(c, "keygen-differs-from-shared-basepoint", "KeyGen", "", "k", k, "keygen", pub, "shared", sb)
				}
				flagCheck(c, monX, k, c.base, sb, okb)
			}
		}
	}

	// clamped scalar bits do not matter
	if idx%3 == 0 {
		r := lib.NewRng("c06/clamp/"+c.name, idx)
		k2 := lib.Clone(k)
		for _, b := range clampMask(c) {
			if r.Bool() {
				k2[b/8] ^= 1 << (uint(b) % 8)
			}
		}
		if lib.Eq(k2, k) {
			b := clampMask(c)[r.Intn(len(clampMask(c)))]
			k2[b/8] ^= 1 << (uint(b) % 8)
		}
		g2, ok2, p2 := a.callShared(k2, u, layout>>5)
		lib.Count(c.name + ":clamp-relation-checked")
		if p2 != nil {
			vio(c, "panic-"+panicClass(p2), "Shared", "", "k", k2, "u", u, "panic", p2.Value)
		} else if !lib.Eq(g2, got) || ok2 != ok {
			vio(c, "clamped-bits-change-result", "Shared", "", "k1", k, "k2", k2, "u", u, "out1", got, "out2", g2, "ok1", ok, "ok2", ok2)
		}
	}
	// bit 255 of the peer value does not matter (X25519)
	if c.size == 32 && idx%3 == 1 {
		u2 := lib.Clone(u)
		u2[31] ^= 0x80
		g2, ok2, p2 := a.callShared(k, u2, layout>>5)
		lib.Count("x25519:bit255-relation-checked")
		if p2 != nil {
			vio(c, "panic-"+panicClass(p2), "Shared", "", "k", k, "u", u2, "panic", p2.Value)
		} else if !lib.Eq(g2, got) || ok2 != ok {
			vio(c, "bit255-changes-result", "Shared", "", "k", k, "u1", u, "u2", u2, "out1", got, "out2", g2, "ok1", ok, "ok2", ok2)
		}
	}
}

// ---------------------------------------------------------------- monitor: both parties agree

const monAgree = "TestVerifAgree"

func TestVerifAgree(t *testing.T) {
	for _, a := range []*api{api25519, api448} {
		lib.Mandatory(a.c.name+":agree-basepoint", a.c.name+":agree-arbitrary-u")
	}
	for _, a := range []*api{api25519, api448} {
		a := a
		c := a.c
		spS := specialScalars(c)
		spU := specialU(c)
		n := lib.Scale(600, 40000)
		lib.Par(n, func(i int) {
			r := lib.NewRng("c06/agree/"+c.name, i)
			ka := genScalar(c, r, spS).b
			kb := genScalar(c, r, spS).b
			lib.Case([]byte("agree:"+c.name), ka, kb)
			pa, p1 := a.callKeyGen(ka, i)
			pb, p2 := a.callKeyGen(kb, i>>2)
			if p1 != nil || p2 != nil {
				lib.Violation("C06:panic:"+c.name+".KeyGen", monAgree, lib.D("ka", ka, "kb", kb))
				return
			}
			s1, ok1, p3 := a.callShared(ka, pb, i>>1)
			s2, ok2, p4 := a.callShared(kb, pa, i>>3)
			if p3 != nil || p4 != nil {
				lib.Violation("C06:panic:"+c.name+".Shared", monAgree, lib.D("ka", ka, "kb", kb))
				return
			}
			lib.Count(c.name + ":agree-basepoint")
			if !lib.Eq(s1, s2) {
				lib.Violation("C06:parties-disagree:"+c.name, monAgree, lib.D("ka", ka, "kb", kb, "pa", pa, "pb", pb, "s1", s1, "s2", s2, "ok1", ok1, "ok2", ok2))
			}
			flagCheck(c, monAgree, ka, pb, s1, ok1)
			flagCheck(c, monAgree, kb, pa, s2, ok2)
			// arbitrary starting u (curve, twist, low order, non-canonical):
			// X(a, X(b, u)) == X(b, X(a, u))
			u := genU(c, r, spU).b
			ub, _, p5 := a.callShared(kb, u, i>>4)
			ua, _, p6 := a.callShared(ka, u, i>>5)
			if p5 != nil || p6 != nil {
				return // reported by TestVerifXDH's key space on the same inputs
			}
			t1, o1, p7 := a.callShared(ka, ub, i>>6)
			t2, o2, p8 := a.callShared(kb, ua, i>>7)
			if p7 != nil || p8 != nil {
				return
			}
			lib.Count(c.name + ":agree-arbitrary-u")
			if allZero(t1) {
				lib.Count(c.name + ":agree-arbitrary-u-zero")
			}
			flagCheck(c, monAgree, ka, ub, t1, o1)
			flagCheck(c, monAgree, kb, ua, t2, o2)
			if !lib.Eq(t1, t2) {
				lib.Violation("C06:parties-disagree:"+c.name+":arbitrary-u", monAgree, lib.D("ka", ka, "kb", kb, "u", u, "t1", t1, "t2", t2, "ok1", o1, "ok2", o2))
			}
		})
	}
}

// panicClass: a fault on a guard page (operand over-read / over-write) surfaces as
// Go's "invalid memory address" panic once SetPanicOnFault is on.
func panicClass(p *lib.Panic) string {
	if strings.Contains(p.Value, "invalid memory address") || strings.Contains(p.Value, "fault address") {
		return "guard-page-fault"
	}
	return p.Class()
}
