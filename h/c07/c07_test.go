//go:build verif

package c07

import (
	"bytes"
	"fmt"
	"github.com/cloudflare/circl/kem/kyber/kyber768"
	"io"
	"math/big"
	"sync"
	"testing"

	"github.com/cloudflare/circl/hpke"
	"github.com/cloudflare/circl/internal/zzverif/lib"
	ref "github.com/cloudflare/circl/internal/zzverif/ref/hpke"
	"github.com/cloudflare/circl/kem"
)

// ---------------------------------------------------------------- tables

type kemDesc struct {
	id   hpke.KEM
	name string
	dh   bool // one of RFC 9180's DHKEMs: fully recomputed by the reference
}

var kems = []kemDesc{
	{hpke.KEM_P256_HKDF_SHA256, "P256", true},
	{hpke.KEM_P384_HKDF_SHA384, "P384", true},
	{hpke.KEM_P521_HKDF_SHA512, "P521", true},
	{hpke.KEM_X25519_HKDF_SHA256, "X25519", true},
	{hpke.KEM_X448_HKDF_SHA512, "X448", true},
	{hpke.KEM_X25519_KYBER768_DRAFT00, "X25519Kyber768", false},
	{hpke.KEM_XWING, "XWing", false},
}

var kdfs = []hpke.KDF{hpke.KDF_HKDF_SHA256, hpke.KDF_HKDF_SHA384, hpke.KDF_HKDF_SHA512}
var kdfNames = map[hpke.KDF]string{hpke.KDF_HKDF_SHA256: "SHA256", hpke.KDF_HKDF_SHA384: "SHA384", hpke.KDF_HKDF_SHA512: "SHA512"}
var aeads = []hpke.AEAD{hpke.AEAD_AES128GCM, hpke.AEAD_AES256GCM, hpke.AEAD_ChaCha20Poly1305}
var aeadNames = map[hpke.AEAD]string{hpke.AEAD_AES128GCM: "AES128GCM", hpke.AEAD_AES256GCM: "AES256GCM", hpke.AEAD_ChaCha20Poly1305: "ChaCha20Poly1305"}
var modeNames = []string{"base", "psk", "auth", "authpsk"}
var setupNames = []string{"Setup", "SetupPSK", "SetupAuth", "SetupAuthPSK"}

var (
	noteMu   sync.Mutex
	noteSeen = map[string]bool{}
)

// noteOnce records an observation once per process.
func noteOnce(s string) {
	noteMu.Lock()
	seen := noteSeen[s]
	noteSeen[s] = true
	noteMu.Unlock()
	if !seen {
		lib.Note("%s", s)
	}
}

func isAuth(mode byte) bool { return mode == ref.ModeAuth || mode == ref.ModeAuthPSK }
func isPSK(mode byte) bool  { return mode == ref.ModePSK || mode == ref.ModeAuthPSK }

// ---------------------------------------------------------------- driving circl

type setupArgs struct {
	mode       byte
	psk, pskID []byte
	skS        kem.PrivateKey // sender side, auth modes
	pkS        kem.PublicKey  // receiver side, auth modes
}

func journal(parts ...[]byte) []byte {
	var out []byte
	for _, p := range parts {
		out = append(out, byte(len(p)), byte(len(p)>>8))
		out = append(out, p...)
	}
	return out
}

func senderSetup(s *hpke.Sender, a setupArgs, ikmE []byte) (enc []byte, sealer hpke.Sealer, err error, p *lib.Panic) {
	// the randomness source delivers ikmE whole or - every other time - in
	// short pieces, like a pipe or a connection would: io.Reader allows it
	var rnd io.Reader = bytes.NewReader(ikmE)
	if len(ikmE) > 0 && ikmE[len(ikmE)-1]&1 == 1 {
		rnd = &shortReader{b: ikmE}
		lib.Count("sender:randomness-in-short-reads")
	}
	p = lib.Try("hpke.Sender.Setup:"+modeNames[a.mode], journal(ikmE, a.psk, a.pskID), func() {
		switch a.mode {
		case ref.ModeBase:
			enc, sealer, err = s.Setup(rnd)
		case ref.ModePSK:
			enc, sealer, err = s.SetupPSK(rnd, a.psk, a.pskID)
		case ref.ModeAuth:
			enc, sealer, err = s.SetupAuth(rnd, a.skS)
		case ref.ModeAuthPSK:
			enc, sealer, err = s.SetupAuthPSK(rnd, a.skS, a.psk, a.pskID)
		}
	})
	return
}

func receiverSetup(r *hpke.Receiver, a setupArgs, enc []byte) (opener hpke.Opener, err error, p *lib.Panic) {
	p = lib.Try("hpke.Receiver.Setup:"+modeNames[a.mode], journal(enc, a.psk, a.pskID), func() {
		switch a.mode {
		case ref.ModeBase:
			opener, err = r.Setup(enc)
		case ref.ModePSK:
			opener, err = r.SetupPSK(enc, a.psk, a.pskID)
		case ref.ModeAuth:
			opener, err = r.SetupAuth(enc, a.pkS)
		case ref.ModeAuthPSK:
			opener, err = r.SetupAuthPSK(enc, a.psk, a.pskID, a.pkS)
		}
	})
	return
}

// keyPair is a KEM key pair as circl objects and as bytes.
type keyPair struct {
	pk       kem.PublicKey
	sk       kem.PrivateKey
	pkb, skb []byte
}

func derive(scheme kem.Scheme, seed []byte) keyPair {
	pk, sk := scheme.DeriveKeyPair(seed)
	pkb, _ := pk.MarshalBinary()
	skb, _ := sk.MarshalBinary()
	return keyPair{pk, sk, pkb, skb}
}

// ---------------------------------------------------------------- the expected values

// expectSender computes what RFC 9180 defines for the sender.  For the two
// KEMs that are not DHKEMs the (enc, shared_secret) pair comes from circl's
// kem.Scheme with the same seed (black box) and only the key schedule is
// recomputed.
func expectSender(k kemDesc, suite ref.Suite, mode byte, R, S keyPair, info, psk, pskID, ikmE []byte) (enc []byte, c *ref.Context, err error) {
	if k.dh {
		return ref.SetupS(suite, mode, R.pkb, info, psk, pskID, S.skb, ikmE)
	}
	if isAuth(mode) {
		return nil, nil, fmt.Errorf("no auth mode for this KEM")
	}
	enc, ss, err := k.id.Scheme().EncapsulateDeterministically(R.pk, ikmE)
	if err != nil {
		return nil, nil, err
	}
	c, err = ref.KeySchedule(suite, mode, ss, info, psk, pskID)
	return enc, c, err
}

func expectReceiver(k kemDesc, suite ref.Suite, mode byte, enc []byte, R, S keyPair, info, psk, pskID []byte) (*ref.Context, error) {
	if k.dh {
		return ref.SetupR(suite, mode, enc, R.skb, info, psk, pskID, S.pkb)
	}
	if isAuth(mode) {
		return nil, fmt.Errorf("no auth mode for this KEM")
	}
	ss, err := k.id.Scheme().Decapsulate(R.sk, enc)
	if err != nil {
		return nil, err
	}
	return ref.KeySchedule(suite, mode, ss, info, psk, pskID)
}

type cellID struct {
	k    kemDesc
	kdf  hpke.KDF
	aead hpke.AEAD
	mode byte
}

func (c cellID) String() string {
	return c.k.name + "/" + kdfNames[c.kdf] + "/" + aeadNames[c.aead] + "/" + modeNames[c.mode]
}

func (c cellID) detail(kv ...any) map[string]any {
	d := lib.D(kv...)
	d["kem"], d["kdf"], d["aead"], d["mode"] = c.k.name, kdfNames[c.kdf], aeadNames[c.aead], modeNames[c.mode]
	return d
}

// compareContext checks a circl context's serialization against the
// reference key schedule.  Returns false when something differed.
func compareContext(mon string, c cellID, role byte, ctx hpke.Context, exp *ref.Context, wit map[string]any) bool {
	raw, err := ctx.MarshalBinary()
	if err != nil {
		lib.Violation("C07:context-marshal-error", mon, c.detail("err", err))
		return false
	}
	p, err := ref.ParseContext(raw)
	if err != nil {
		lib.Violation("C07:context-marshal-malformed", mon, c.detail("raw", raw, "err", err))
		return false
	}
	ok := true
	bad := func(field string, got, want []byte) {
		ok = false
		d := c.detail("field", field, "got", got, "want", want, "role", int(role))
		for k, v := range wit {
			d[k] = v
		}
		lib.Violation("C07:keyschedule:"+field, mon, d)
	}
	if p.Role != role || p.KEM != uint16(c.k.id) || p.KDF != uint16(c.kdf) || p.AEAD != uint16(c.aead) {
		bad("header", raw[:7], []byte{role, byte(c.k.id >> 8), byte(c.k.id), 0, byte(c.kdf), 0, byte(c.aead)})
	}
	if !lib.Eq(p.Key, exp.Key) {
		bad("key", p.Key, exp.Key)
	}
	if !lib.Eq(p.BaseNonce, exp.BaseNonce) {
		bad("base_nonce", p.BaseNonce, exp.BaseNonce)
	}
	if !lib.Eq(p.ExporterSecret, exp.ExporterSecret) {
		bad("exporter_secret", p.ExporterSecret, exp.ExporterSecret)
	}
	if !lib.Eq(p.Seq, make([]byte, len(exp.BaseNonce))) {
		bad("sequence_number", p.Seq, make([]byte, len(exp.BaseNonce)))
	}
	return ok
}

// ---------------------------------------------------------------- TestVerifSuites

const monSuites = "TestVerifSuites"

var lengths = []int{0, 1, 15, 16, 17, 1000}

func TestVerifSuites(t *testing.T) {
	lib.Mandatory("conformance", "conformance:base", "conformance:psk", "conformance:auth", "conformance:authpsk",
		"seal-compared", "open-compared", "export-compared", "export-over-limit:panic",
		"mismatch:skR", "mismatch:info", "mismatch:psk", "mismatch:psk_id", "mismatch:mode", "mismatch:pkS",
		"mismatch:open-failed", "auth-unsupported", "imported-private-key", "random-setup-checked", "hybrid-x25519-half-checked", "hybrid-kyber-half-checked")
	var cells []cellID
	for _, k := range kems {
		for _, kdf := range kdfs {
			for _, aead := range aeads {
				for mode := byte(0); mode < 4; mode++ {
					cells = append(cells, cellID{k, kdf, aead, mode})
				}
			}
		}
	}
	draws := lib.Scale(3, 30)
	lib.Par(len(cells)*draws, func(i int) {
		runCell(cells[i/draws], i/draws, i%draws)
	})
}

func pickInfo(r *lib.Rng, draw int) []byte {
	switch draw % 6 {
	case 0:
		return r.Bytes(20)
	case 1:
		return nil
	case 2:
		return []byte{}
	case 3:
		return r.Bytes(1)
	case 4:
		return r.Bytes(lib.Pick(r, 31, 32, 33, 63, 64, 65, 127, 128, 129))
	default:
		return r.Bytes(1 + r.Intn(2000))
	}
}

func pickSeed(r *lib.Rng, n, variant int) []byte {
	switch variant {
	case 2:
		return make([]byte, n)
	case 3:
		return bytes.Repeat([]byte{0xFF}, n)
	case 4:
		return r.EdgeBytes(n, 19)
	}
	return r.Bytes(n)
}

// edgePrivateKey returns the serialization of a private key that does not
// come from DeriveKeyPair: boundary scalars for the NIST curves, raw byte
// patterns for X25519 / X448 (which are clamped inside the DH function).
func edgePrivateKey(r *lib.Rng, k kemDesc) []byte {
	d := ref.GetDHKEM(uint16(k.id))
	n := d.Nsk
	if k.id == hpke.KEM_X25519_HKDF_SHA256 || k.id == hpke.KEM_X448_HKDF_SHA512 {
		switch r.Intn(4) {
		case 0:
			return make([]byte, n)
		case 1:
			return bytes.Repeat([]byte{0xFF}, n)
		case 2:
			b := make([]byte, n)
			b[0] = 1
			return b
		}
		return r.Bytes(n)
	}
	order := ref.CurveOrder(uint16(k.id))
	v := new(big.Int)
	switch r.Intn(5) {
	case 0:
		v.SetInt64(1)
	case 1:
		v.SetInt64(2)
	case 2:
		v.Sub(order, big.NewInt(1))
	case 3:
		v.Sub(order, big.NewInt(2))
	default:
		v.SetBytes(r.Bytes(n))
		v.Mod(v, new(big.Int).Sub(order, big.NewInt(1)))
		v.Add(v, big.NewInt(1))
	}
	out := make([]byte, n)
	v.FillBytes(out)
	return out
}

// importKey builds a key pair from a serialized private key through circl's
// UnmarshalBinaryPrivateKey and checks the public key against the reference.
func importKey(scheme kem.Scheme, k kemDesc, skb []byte) (keyPair, error) {
	// the key is imported from a scratch buffer that the caller wipes right
	// afterwards (as a caller handling key material does): the key object must
	// not look into it any more
	buf := lib.Clone(skb)
	sk, err := scheme.UnmarshalBinaryPrivateKey(buf)
	for i := range buf {
		buf[i] = 0
	}
	if err != nil {
		return keyPair{}, err
	}
	pk := sk.Public()
	pkb, _ := pk.MarshalBinary()
	skb2, _ := sk.MarshalBinary()
	return keyPair{pk, sk, pkb, skb2}, nil
}

func runCell(c cellID, ord, draw int) {
	r := lib.NewRng("c07/cell/"+c.String(), draw)
	scheme := c.k.id.Scheme()
	suite := hpke.NewSuite(c.k.id, c.kdf, c.aead)
	rsuite := ref.Suite{KEM: uint16(c.k.id), KDF: uint16(c.kdf), AEAD: uint16(c.aead)}
	nh := ref.Nh(rsuite.KDF)

	v := ord + draw // varies the edge classes over cells as well as draws
	seedR := pickSeed(r, scheme.SeedSize(), (v+1)%5)
	seedS := pickSeed(r, scheme.SeedSize(), (v+3)%7)
	ikmE := pickSeed(r, scheme.EncapsulationSeedSize(), v%5)
	R := derive(scheme, seedR)
	S := derive(scheme, seedS)
	info := pickInfo(r, v)
	importedR, importedS := false, false
	if c.k.dh {
		// every fourth case: receiver and / or sender key imported from
		// boundary private-key bytes instead of derived from a seed
		rk := ref.GetDHKEM(rsuite.KEM)
		for who, kp := range []*keyPair{&R, &S} {
			if (v+who)%4 != 3 {
				continue
			}
			skb := edgePrivateKey(r, c.k)
			got, err := importKey(scheme, c.k, skb)
			wantPk, werr := rk.PublicKey(skb)
			lib.Count("imported-private-key")
			if err != nil || werr != nil || !lib.Eq(got.pkb, wantPk) || !lib.Eq(got.skb, skb) {
				lib.Violation("C07:private-key-import:"+c.k.name, monSuites, c.detail("sk", skb, "err", err, "got_pk", got.pkb, "want_pk", wantPk, "got_sk", got.skb))
				return
			}
			*kp = got
			if who == 0 {
				importedR, seedR = true, skb
			} else {
				importedS, seedS = true, skb
			}
		}
	}
	var psk, pskID []byte
	if isPSK(c.mode) {
		psk = r.Bytes(lib.Pick(r, 32, 32, 33, 48, 64, 255, 1000))
		pskID = r.Bytes(lib.Pick(r, 1, 2, 16, 32, 64, 300))
	}
	lib.Case([]byte(c.String()), seedR, seedS, ikmE, info, psk, pskID)
	wit := map[string]any{"seedR": lib.Hex(seedR), "seedS": lib.Hex(seedS), "ikmE": lib.Hex(ikmE),
		"info": lib.Hex(info), "info_nil": info == nil, "seedR_is_private_key": importedR, "seedS_is_private_key": importedS, "psk": lib.Hex(psk), "psk_id": lib.Hex(pskID)}
	viol := func(key string, kv ...any) {
		d := c.detail(kv...)
		for k, v := range wit {
			d[k] = v
		}
		lib.Violation(key, monSuites, d)
	}

	// key pairs against the reference's DeriveKeyPair
	if c.k.dh {
		rk := ref.GetDHKEM(rsuite.KEM)
		for i, kp := range []struct {
			seed []byte
			kp   keyPair
		}{{seedR, R}, {seedS, S}} {
			if (i == 0 && importedR) || (i == 1 && importedS) {
				continue
			}
			sk, pk, err := rk.DeriveKeyPair(kp.seed)
			if err != nil || !lib.Eq(sk, kp.kp.skb) || !lib.Eq(pk, kp.kp.pkb) {
				viol("C07:derive-key-pair:"+c.k.name, "seed", kp.seed, "got_sk", kp.kp.skb, "want_sk", sk, "got_pk", kp.kp.pkb, "want_pk", pk)
				return
			}
		}
	}

	sargs := setupArgs{mode: c.mode, psk: psk, pskID: pskID, skS: S.sk}
	rargs := setupArgs{mode: c.mode, psk: psk, pskID: pskID, pkS: S.pk}

	sender, err := suite.NewSender(R.pk, info)
	if err != nil {
		viol("C07:new-sender-error", "err", err)
		return
	}
	enc, sealer, err, pn := senderSetup(sender, sargs, ikmE)

	if !c.k.dh && isAuth(c.mode) {
		// RFC 9180: auth modes exist only for KEMs with AuthEncap/AuthDecap.
		lib.Count("auth-unsupported")
		switch {
		case pn != nil:
			lib.Count("auth-unsupported:sender-panic")
			noteOnce("Sender." + setupNames[c.mode] + " with KEM " + c.k.name + " panics (" + pn.Value + ") instead of returning ErrInvalidAuthKEM (RFC 9180 defines no auth mode for this KEM; not judged)")
		case err != nil:
			lib.Count("auth-unsupported:sender-error")
		default:
			viol("C07:auth-mode-accepted-by-non-auth-kem:"+c.k.name, "side", "sender", "enc", enc)
		}
		// receiver side, with a base-mode enc
		if encB, _, errB := scheme.EncapsulateDeterministically(R.pk, ikmE); errB == nil {
			recv, _ := suite.NewReceiver(R.sk, info)
			op, err, pn := receiverSetup(recv, rargs, encB)
			switch {
			case pn != nil:
				lib.Count("auth-unsupported:receiver-panic")
				noteOnce("Receiver." + setupNames[c.mode] + " with KEM " + c.k.name + " panics (" + pn.Value + ") instead of returning ErrInvalidAuthKEM (not judged)")
			case err != nil:
				lib.Count("auth-unsupported:receiver-error")
			default:
				_ = op
				viol("C07:auth-mode-accepted-by-non-auth-kem:"+c.k.name, "side", "receiver")
			}
		}
		return
	}

	if pn != nil {
		viol("C07:panic:sender-setup", "panic", pn.Value, "frame", pn.TopFrame())
		return
	}
	expEnc, expS, expErr := expectSender(c.k, rsuite, c.mode, R, S, info, psk, pskID, ikmE)
	if expErr != nil {
		// cannot happen for honestly derived keys; treat as harness problem
		panic(fmt.Sprintf("reference refused an honest setup: %v", expErr))
	}
	if err != nil {
		viol("C07:sender-setup-error", "err", err)
		return
	}
	if !lib.Eq(enc, expEnc) {
		viol("C07:enc:"+c.k.name, "got", enc, "want", expEnc)
		return
	}
	if c.k.id == hpke.KEM_X25519_KYBER768_DRAFT00 {
		// the X25519 half of the hybrid is DHKEM(X25519, HKDF-SHA256): its enc
		// is the first 32 bytes
		x := ref.GetDHKEM(ref.KEMX25519)
		ssA, encA, errA := x.Encap(R.pkb[:32], ikmE[:32])
		if errA != nil || !lib.Eq(encA, enc[:32]) {
			viol("C07:enc:"+c.k.name, "what", "X25519 half", "got", enc[:32], "want", encA)
		}
		if _, ssBB, e := scheme.EncapsulateDeterministically(R.pk, ikmE); e != nil || len(ssBB) != 64 || !lib.Eq(ssBB[:32], ssA) {
			viol("C07:shared-secret:"+c.k.name, "what", "X25519 half of the KEM shared secret", "got", ssBB, "want_first_32", ssA)
		}
		lib.Count("hybrid-x25519-half-checked")
		// the Kyber768 half: enc[32:] and the second half of the shared secret
		// are Kyber768's deterministic encapsulation to the second part of
		// the public key, from the SECOND 32 octets of the randomness
		ks := kyber768.Scheme()
		if pkB, e := ks.UnmarshalBinaryPublicKey(lib.Clone(R.pkb[32:])); e == nil && len(ikmE) >= 64 {
			ctB, ssB, eB := ks.EncapsulateDeterministically(pkB, lib.Clone(ikmE[32:64]))
			_, ssH, eH := scheme.EncapsulateDeterministically(R.pk, ikmE)
			lib.Count("hybrid-kyber-half-checked")
			if eB != nil || eH != nil || !lib.Eq(ctB, enc[32:]) || len(ssH) != 64 || !lib.Eq(ssH[32:], ssB) {
				viol("C07:enc:"+c.k.name, "what", "Kyber768 half (kyber768.EncapsulateDeterministically(pk[32:], randomness[32:64]))",
					"enc_half_same", lib.Eq(ctB, enc[32:]), "secret_half_same", len(ssH) == 64 && lib.Eq(ssH[32:], ssB))
			}
		}
	}
	okS := compareContext(monSuites, c, 0, sealer, expS, wit)

	recv, err := suite.NewReceiver(R.sk, info)
	if err != nil {
		viol("C07:new-receiver-error", "err", err)
		return
	}
	opener, err, pn := receiverSetup(recv, rargs, enc)
	if pn != nil {
		viol("C07:panic:receiver-setup", "panic", pn.Value, "frame", pn.TopFrame())
		return
	}
	if err != nil {
		viol("C07:receiver-setup-error", "err", err)
		return
	}
	expR, expErr := expectReceiver(c.k, rsuite, c.mode, enc, R, S, info, psk, pskID)
	if expErr != nil {
		panic(fmt.Sprintf("reference receiver refused an honest setup: %v", expErr))
	}
	if !lib.Eq(expR.Key, expS.Key) || !lib.Eq(expR.ExporterSecret, expS.ExporterSecret) {
		if c.k.dh {
			panic("reference sender and receiver disagree")
		}
		// black-box KEM: both shared secrets came from circl's kem.Scheme
		viol("C07:kem-roundtrip:"+c.k.name, "what", "Decapsulate(EncapsulateDeterministically(pk, seed)) differs from the encapsulated secret", "enc", enc)
		return
	}
	okR := compareContext(monSuites, c, 1, opener, expR, wit)
	if !okS || !okR {
		return
	}
	lib.Count("conformance")
	lib.Count("conformance:" + modeNames[c.mode])
	if draw == 0 && c.kdf == hpke.KDF_HKDF_SHA256 && c.aead == hpke.AEAD_AES128GCM {
		lib.Sample(monSuites, c.detail("seedR", seedR, "ikmE", ikmE, "info", info, "psk", psk, "psk_id", pskID, "enc", enc,
			"key", expS.Key, "base_nonce", expS.BaseNonce, "exporter_secret", expS.ExporterSecret))
	}

	// ---- the randomised path (rnd == nil => crypto/rand): the reference
	// receiver recomputes the context from the enc that comes back
	if draw == 0 {
		snd2, _ := suite.NewSender(R.pk, info)
		var enc2 []byte
		var sealer2 hpke.Sealer
		var err2 error
		pn := lib.Try("hpke.Sender.Setup:nil-rnd", nil, func() {
			switch c.mode {
			case ref.ModeBase:
				enc2, sealer2, err2 = snd2.Setup(nil)
			case ref.ModePSK:
				enc2, sealer2, err2 = snd2.SetupPSK(nil, psk, pskID)
			case ref.ModeAuth:
				enc2, sealer2, err2 = snd2.SetupAuth(nil, S.sk)
			case ref.ModeAuthPSK:
				enc2, sealer2, err2 = snd2.SetupAuthPSK(nil, S.sk, psk, pskID)
			}
		})
		if pn != nil || err2 != nil {
			viol("C07:sender-setup-error", "rnd", "nil", "err", err2, "panic", fmt.Sprint(pn != nil))
		} else if x, xerr := expectReceiver(c.k, rsuite, c.mode, enc2, R, S, info, psk, pskID); xerr != nil {
			viol("C07:enc:"+c.k.name, "rnd", "nil", "what", "the reference receiver refuses the sender's enc", "enc", enc2, "err", xerr)
		} else {
			if lib.Eq(enc2, enc) {
				viol("C07:enc:"+c.k.name, "rnd", "nil", "what", "randomised setup repeated the deterministic enc", "enc", enc2)
			}
			compareContext(monSuites, c, 0, sealer2, x, wit)
			lib.Count("random-setup-checked")
		}
	}

	// ---- seals: all 36 (pt, aad) length pairs, consecutively on one context
	type la struct{ p, a int }
	var order []la
	for _, p := range lengths {
		for _, a := range lengths {
			order = append(order, la{p, a})
		}
	}
	for i := len(order) - 1; i > 0; i-- {
		j := r.Intn(i + 1)
		order[i], order[j] = order[j], order[i]
	}
	var ct0, aad0 []byte
	for i, o := range order {
		pt, aad := r.Bytes(o.p), r.Bytes(o.a)
		if o.p == 0 && i%2 == 0 {
			pt = nil
		}
		if o.a == 0 && i%2 == 1 {
			aad = nil
		}
		var ct []byte
		var err error
		// plaintext and aad are handed over as views of larger buffers (room
		// for a tag behind them, as in a packet buffer): they and the octets
		// behind them are the caller's and must be what they were afterwards
		ptBuf := append(append(lib.Clone(pt), bytes.Repeat([]byte{0xC3}, 48)...))
		aadBuf := append(append(lib.Clone(aad), bytes.Repeat([]byte{0x3C}, 48)...))
		ptKeep, aadKeep := lib.Clone(ptBuf), lib.Clone(aadBuf)
		ptArg, aadArg := ptBuf[:len(pt)], aadBuf[:len(aad)]
		if pt == nil {
			ptArg = nil
		}
		if aad == nil {
			aadArg = nil
		}
		if pn := lib.Try("hpke.Sealer.Seal", journal(pt, aad), func() { ct, err = sealer.Seal(ptArg, aadArg) }); pn != nil || err != nil {
			viol("C07:seal-error:"+aeadNames[c.aead], "seq", i, "err", err, "panic", fmt.Sprint(pn != nil))
			return
		}
		want, _ := expS.Seal(aad, pt)
		lib.Count("seal-compared")
		if !lib.Eq(ct, want) {
			viol("C07:seal:"+aeadNames[c.aead], "seq", i, "pt", pt, "aad", aad, "got", ct, "want", want)
			return
		}
		if !lib.Eq(ptBuf, ptKeep) || !lib.Eq(aadBuf, aadKeep) || lib.SharesMemory(ct, ptBuf) {
			viol("C07:seal-writes-to-argument:"+aeadNames[c.aead], "seq", i, "pt_len", len(pt), "plaintext_buffer_changed", !lib.Eq(ptBuf, ptKeep),
				"aad_buffer_changed", !lib.Eq(aadBuf, aadKeep), "ciphertext_inside_plaintext_buffer", lib.SharesMemory(ct, ptBuf))
			return
		}
		if i == 0 {
			ct0, aad0 = lib.Clone(ct), lib.Clone(aad)
		}
		var got []byte
		ctBuf := append(lib.Clone(ct), bytes.Repeat([]byte{0x5A}, 48)...)
		ctKeep := lib.Clone(ctBuf)
		if pn := lib.Try("hpke.Opener.Open", journal(ct, aad), func() { got, err = opener.Open(ctBuf[:len(ct)], aadArg) }); pn != nil || err != nil {
			viol("C07:open-error:"+aeadNames[c.aead], "seq", i, "err", err, "panic", fmt.Sprint(pn != nil), "ct", ct, "aad", aad)
			return
		}
		lib.Count("open-compared")
		if !lib.Eq(got, pt) {
			viol("C07:open:"+aeadNames[c.aead], "seq", i, "got", got, "want", pt)
			return
		}
		if !lib.Eq(ctBuf, ctKeep) || !lib.Eq(aadBuf, aadKeep) || lib.SharesMemory(got, ctBuf) {
			viol("C07:open-writes-to-argument:"+aeadNames[c.aead], "seq", i, "ciphertext_buffer_changed", !lib.Eq(ctBuf, ctKeep),
				"plaintext_inside_ciphertext_buffer", lib.SharesMemory(got, ctBuf))
			return
		}
	}

	// ---- long run on the same context: the sequence number crosses its
	// byte boundaries (256, 512; 65536 once per AEAD in the thorough tier),
	// every ciphertext still compared with the reference
	if draw == 0 {
		upto := 600
		if lib.Thorough() && c.mode == ref.ModeBase && c.kdf == hpke.KDF_HKDF_SHA256 && c.k.id == hpke.KEM_X25519_HKDF_SHA256 {
			upto = 66000
		}
		for i := len(order); i < upto; i++ {
			pt, aad := r.Bytes(i%3), r.Bytes(i%2)
			var ct, got []byte
			var err, oerr error
			if pn := lib.Try("hpke.Sealer.Seal:long-run", journal(pt, aad), func() { ct, err = sealer.Seal(pt, aad) }); pn != nil || err != nil {
				viol("C07:seal-error:"+aeadNames[c.aead], "seq", i, "err", err, "panic", fmt.Sprint(pn != nil))
				return
			}
			want, _ := expS.Seal(aad, pt)
			lib.Count("seal-compared")
			if !lib.Eq(ct, want) {
				viol("C07:seal:"+aeadNames[c.aead], "seq", i, "pt", pt, "aad", aad, "got", ct, "want", want, "class", "long-run")
				return
			}
			if pn := lib.Try("hpke.Opener.Open:long-run", journal(ct, aad), func() { got, oerr = opener.Open(ct, aad) }); pn != nil || oerr != nil || !lib.Eq(got, pt) {
				viol("C07:open:"+aeadNames[c.aead], "seq", i, "err", oerr, "got", got, "want", pt, "class", "long-run")
				return
			}
			lib.Count("open-compared")
		}
		lib.Count("long-run-contexts")
	}

	// ---- exports
	ectxs := [][]byte{nil, {}, r.Bytes(1), r.Bytes(64), r.Bytes(300)}
	for _, ec := range ectxs {
		for _, l := range []int{0, 1, nh, nh + 1, 255 * nh, 1 + r.Intn(255*nh)} {
			want, _ := expS.Export(ec, l)
			for side, ctx := range []hpke.Context{sealer, opener} {
				var got []byte
				pn := lib.Try("hpke.Context.Export", journal(ec, []byte{byte(l >> 8), byte(l)}), func() { got = ctx.Export(ec, uint(l)) })
				lib.Count("export-compared")
				if pn != nil {
					viol("C07:export-panic:"+kdfNames[c.kdf], "L", l, "ctx", ec, "panic", pn.Value)
					return
				}
				if !lib.Eq(got, want) || len(got) != l {
					viol("C07:export:"+kdfNames[c.kdf], "side", side, "L", l, "ctx", ec, "got", got, "want", want)
					return
				}
			}
		}
	}
	// over the limit: the documented behaviour is a panic; data must not come back
	overLimit := []uint{uint(255*nh + 1), 65536, 65536 + 5, 65536 + uint(nh)}
	if ^uint(0)>>32 != 0 {
		big := uint(1) << 31
		overLimit = append(overLimit, big*2+7) // 2^32+7 where uint has 64 bits
	}
	for _, l := range overLimit {
		for side, ctx := range []hpke.Context{sealer, opener} {
			var got []byte
			pn := lib.Try("hpke.Context.Export:over-limit", nil, func() { got = ctx.Export(ectxs[3], l) })
			if pn == nil {
				viol("C07:export-over-limit:"+kdfNames[c.kdf], "side", side, "L", l, "returned_len", len(got))
			} else {
				lib.Count("export-over-limit:panic")
			}
		}
	}

	// ---- mismatch matrix: ONE differing parameter on the receiver side
	expExport, _ := expS.Export([]byte("mismatch"), nh)
	useEnc := enc
	try := func(param, variant string, skR kem.PrivateKey, info2 []byte, a setupArgs) {
		lib.Count("mismatch:" + param)
		lib.Case([]byte(c.String()), []byte("mismatch"), []byte(param), []byte(variant), seedR, ikmE)
		rv, _ := suite.NewReceiver(skR, info2)
		op, err, pn := receiverSetup(rv, a, useEnc)
		if pn != nil {
			viol("C07:panic:receiver-setup", "param", param, "variant", variant, "panic", pn.Value, "frame", pn.TopFrame())
			return
		}
		if err != nil {
			lib.Count("mismatch:setup-error")
			return
		}
		var pt []byte
		var oerr error
		if pn := lib.Try("hpke.Opener.Open:mismatch", journal(ct0, aad0), func() { pt, oerr = op.Open(ct0, aad0) }); pn != nil {
			viol("C07:panic:open", "param", param, "panic", pn.Value)
			return
		}
		exp := op.Export([]byte("mismatch"), uint(nh))
		if oerr == nil || pt != nil {
			viol("C07:mismatch-accepted:"+param, "variant", variant, "what", "first ciphertext opened", "pt", pt)
			return
		}
		lib.Count("mismatch:open-failed")
		if lib.Eq(exp, expExport) {
			viol("C07:mismatch-accepted:"+param, "variant", variant, "what", "identical export", "export", exp)
		}
	}
	// enc: the octets the receiver is given differ from the ones the sender
	// produced (longer with the honest enc as a prefix, shorter, one bit
	// flipped): kem_context binds the octets as received, so the setup fails
	// or yields another key schedule
	{
		type ea struct {
			name string
			enc  []byte
		}
		alts := []ea{
			{"appended-zero", append(lib.Clone(enc), 0)},
			{"appended-16", append(lib.Clone(enc), r.Bytes(16)...)},
			{"appended-itself", append(lib.Clone(enc), enc...)},
			{"appended-64", append(lib.Clone(enc), r.Bytes(64)...)},
			{"truncated", lib.Clone(enc[:len(enc)-1])},
		}
		if c.k.dh {
			alts = append(alts, ea{"bitflip", lib.FlipBit(enc, r.Intn(8*len(enc)))}, ea{"top-bit", lib.FlipBit(enc, 8*len(enc)-1)})
		} else {
			// the middle of the ML-KEM / Kyber ciphertext (the masked bit 255 of
			// the X25519 share of these hybrids is C01's exemption)
			alts = append(alts, ea{"bitflip", lib.FlipBit(enc, 8*64+r.Intn(8*(len(enc)-128)))})
		}
		for _, a := range alts {
			useEnc = a.enc
			try("enc", a.name, R.sk, info, rargs)
		}
		useEnc = enc
	}
	// skR
	R2 := derive(scheme, r.Bytes(scheme.SeedSize()))
	if !lib.Eq(R2.skb, R.skb) {
		try("skR", "other-key", R2.sk, info, rargs)
	}
	// info
	{
		var alts [][]byte
		var names []string
		if len(info) > 0 {
			alts = append(alts, lib.FlipBit(info, r.Intn(8*len(info))), nil, info[:len(info)-1])
			names = append(names, "bitflip", "nil", "truncated")
		}
		alts = append(alts, append(lib.Clone(info), 0))
		names = append(names, "appended-zero")
		for i, a := range alts {
			if bytes.Equal(a, info) {
				continue
			}
			try("info", names[i], R.sk, a, rargs)
		}
	}
	if isPSK(c.mode) {
		a := rargs
		a.psk = lib.FlipBit(psk, r.Intn(8*len(psk)))
		try("psk", "bitflip", R.sk, info, a)
		a.psk = append(lib.Clone(psk), 0)
		try("psk", "appended-zero", R.sk, info, a)
		a = rargs
		a.pskID = lib.FlipBit(pskID, r.Intn(8*len(pskID)))
		try("psk_id", "bitflip", R.sk, info, a)
		a.pskID = append(lib.Clone(pskID), 0)
		try("psk_id", "appended-zero", R.sk, info, a)
		// swapped
		a = rargs
		a.psk, a.pskID = pskID, psk
		if !bytes.Equal(psk, pskID) {
			try("psk", "swapped-with-id", R.sk, info, a)
		}
	}
	S2 := derive(scheme, r.Bytes(scheme.SeedSize()))
	if isAuth(c.mode) && !lib.Eq(S2.pkb, S.pkb) {
		a := rargs
		a.pkS = S2.pk
		try("pkS", "other-key", R.sk, info, a)
		a.pkS = R.pk
		if !lib.Eq(R.pkb, S.pkb) {
			try("pkS", "receivers-own-key", R.sk, info, a)
		}
	}
	// mode: every other mode the KEM supports, all other parameters as close
	// to the sender's as that mode allows
	for m2 := byte(0); m2 < 4; m2++ {
		if m2 == c.mode || (!c.k.dh && isAuth(m2)) {
			continue
		}
		a := setupArgs{mode: m2}
		if isPSK(m2) {
			a.psk, a.pskID = psk, pskID
			if a.psk == nil {
				a.psk, a.pskID = r.Bytes(32), r.Bytes(8)
			}
		}
		if isAuth(m2) {
			a.pkS = S.pk
		}
		try("mode", modeNames[c.mode]+"-vs-"+modeNames[m2], R.sk, info, a)
	}
}

// shortReader returns its bytes in pieces of 1..5 octets.
type shortReader struct {
	b []byte
	i int
}

func (r *shortReader) Read(p []byte) (int, error) {
	if r.i >= len(r.b) {
		return 0, io.EOF
	}
	n := 1 + (r.i*7+len(r.b))%5
	if n > len(p) {
		n = len(p)
	}
	if n > len(r.b)-r.i {
		n = len(r.b) - r.i
	}
	copy(p, r.b[r.i:r.i+n])
	r.i += n
	return n, nil
}
