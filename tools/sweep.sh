#!/bin/bash
# sweep.sh [seeds...]: runs the quick check of every property at each given seed (default 2 3 1;
# seed 1 last so that the evidence files left behind are the ones of the registered commands)
# and prints one line per run; exit 1 if any run was not OK.
cd /verif
export GOFLAGS=-mod=mod GOPROXY=off GOSUMDB=off GOTOOLCHAIN=local
go build -o bin/vcheck ./cmd/vcheck || exit 2
seeds=${@:-2 3 1}
bad=0
for s in $seeds; do
  for i in 01 02 03 04 05 06 07 08 09 10 11 12 13 14 15 16 17 18 19 20; do
    out=$(VERIF_SEED=$s ./bin/vcheck C$i --tier quick 2>&1 | grep -E "^(OK|VIOLATION|INCONCLUSIVE)")
    echo "$out" | cut -c1-200
    echo "$out" | grep -q "^OK" || bad=1
    echo "$out" | grep -q "^\(VIOLATION\|INCONCLUSIVE\)" && bad=1
  done
done
exit $bad
