//go:build verif

// Package zzverifc19 is the shared protocol driver, the reference model and
// the case generators of the C19 monitors (Prio3).  It lives below
// vdaf/prio3/internal so that it may name the types of
// vdaf/prio3/internal/prio3; it is compiled only through the vcheck overlay.
//
// Everything that judges circl here is computed with math/big and the
// harness's own Keccak (ref/keccak): field encodings, the XOF expansions of
// draft-irtf-cfrg-vdaf-13 section 6.2.1 / 7, the measurement encodings of the
// five circuits and the true aggregates.
package zzverifc19

import (
	"encoding/binary"
	"math/big"

	"github.com/cloudflare/circl/internal/zzverif/ref/keccak"
)

// Field is a prime field of the VDAF draft, elements encoded little-endian
// on Size bytes.
type Field struct {
	Name string
	P    *big.Int
	Size int
}

var (
	// Field64: p = 2^32 * 4294967295 + 1 = 2^64 - 2^32 + 1.
	F64 = &Field{"Field64", new(big.Int).Add(new(big.Int).Mul(new(big.Int).Lsh(big.NewInt(1), 32), big.NewInt(4294967295)), big.NewInt(1)), 8}
	// Field128: p = 2^66 * 4611686018427387897 + 1.
	F128 = &Field{"Field128", new(big.Int).Add(new(big.Int).Mul(new(big.Int).Lsh(big.NewInt(1), 66), big.NewInt(4611686018427387897)), big.NewInt(1)), 16}
)

// EncElt encodes x (reduced mod p first) on Size little-endian bytes.
func (f *Field) EncElt(x *big.Int) []byte {
	y := new(big.Int).Mod(x, f.P)
	be := y.Bytes()
	out := make([]byte, f.Size)
	for i := 0; i < len(be); i++ {
		out[i] = be[len(be)-1-i]
	}
	return out
}

// EncRaw encodes the integer x < 2^(8 Size) WITHOUT reduction (used to build
// non-canonical encodings).
func (f *Field) EncRaw(x *big.Int) []byte {
	be := x.Bytes()
	out := make([]byte, f.Size)
	for i := 0; i < len(be) && i < f.Size; i++ {
		out[i] = be[len(be)-1-i]
	}
	return out
}

// EncVec encodes a vector.
func (f *Field) EncVec(v []*big.Int) []byte {
	out := make([]byte, 0, len(v)*f.Size)
	for _, x := range v {
		out = append(out, f.EncElt(x)...)
	}
	return out
}

func leInt(b []byte) *big.Int {
	be := make([]byte, len(b))
	for i := range b {
		be[len(b)-1-i] = b[i]
	}
	return new(big.Int).SetBytes(be)
}

// DecVec decodes a vector; ok is false if the length is not a multiple of
// Size or an element is not canonical (>= p).
func (f *Field) DecVec(b []byte) (v []*big.Int, ok bool) {
	if len(b)%f.Size != 0 {
		return nil, false
	}
	for i := 0; i < len(b); i += f.Size {
		x := leInt(b[i : i+f.Size])
		if x.Cmp(f.P) >= 0 {
			return nil, false
		}
		v = append(v, x)
	}
	return v, true
}

// AddVec returns a+b mod p.
func (f *Field) AddVec(a, b []*big.Int) []*big.Int {
	out := make([]*big.Int, len(a))
	for i := range a {
		out[i] = new(big.Int).Add(a[i], b[i])
		out[i].Mod(out[i], f.P)
	}
	return out
}

// EqVec compares two vectors of reduced elements.
func EqVec(a, b []*big.Int) bool {
	if len(a) != len(b) {
		return false
	}
	for i := range a {
		if a[i].Cmp(b[i]) != 0 {
			return false
		}
	}
	return true
}

// VecStr renders a vector for witnesses (shortened).
func VecStr(v []*big.Int) string {
	s := "["
	for i, x := range v {
		if i > 0 {
			s += " "
		}
		if i >= 24 {
			s += "..."
			break
		}
		s += x.String()
	}
	return s + "]"
}

// ---------------------------------------------------------------- XOF

// Usages of draft-13 section 7 (Table 8).
const (
	UsageMeasShare      = 1
	UsageProofShare     = 2
	UsageJointRandomess = 3
	UsageProveRand      = 4
	UsageQueryRand      = 5
	UsageJointRandSeed  = 6
	UsageJointRandPart  = 7
)

// Dst is format_dst(0, algID, usage) || ctx with VERSION = 12 (draft-13).
func Dst(algID uint32, usage uint16, ctx []byte) []byte {
	d := []byte{12, 0}
	d = binary.BigEndian.AppendUint32(d, algID)
	d = binary.BigEndian.AppendUint16(d, usage)
	return append(d, ctx...)
}

// XofBytes is XofTurboShake128(seed, dst, binder).next(n):
// TurboSHAKE128(le16(len(dst)) || dst || u8(len(seed)) || seed || binder, D=1).
func XofBytes(seed, dst, binder []byte, n int) []byte {
	msg := binary.LittleEndian.AppendUint16(nil, uint16(len(dst)))
	msg = append(msg, dst...)
	msg = append(msg, byte(len(seed)))
	msg = append(msg, seed...)
	msg = append(msg, binder...)
	return keccak.TurboSHAKE128(msg, 1, n)
}

// XofVec is next_vec(field, n): rejection sampling of Size-byte little-endian
// chunks.  It returns the elements and the canonical encoding of the vector.
func XofVec(f *Field, seed, dst, binder []byte, n int) []*big.Int {
	want := n*f.Size + 4*f.Size
	for {
		stream := XofBytes(seed, dst, binder, want)
		out := make([]*big.Int, 0, n)
		for off := 0; off+f.Size <= len(stream) && len(out) < n; off += f.Size {
			x := leInt(stream[off : off+f.Size])
			if x.Cmp(f.P) < 0 {
				out = append(out, x)
			}
		}
		if len(out) == n {
			return out
		}
		want *= 2
	}
}
