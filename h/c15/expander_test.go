//go:build verif

package c15

import (
	"crypto"
	_ "crypto/sha256"
	_ "crypto/sha512"
	"fmt"
	"testing"

	"github.com/cloudflare/circl/expander"
	"github.com/cloudflare/circl/internal/zzverif/lib"
	"github.com/cloudflare/circl/internal/zzverif/ref/expand"
	"github.com/cloudflare/circl/internal/zzverif/ref/keccak"
	"github.com/cloudflare/circl/xof"
	_ "golang.org/x/crypto/sha3"
)

// TestVerifExpander: RFC 9380 expand_message_xmd / expand_message_xof
// differential, including the oversize-DST rule and the abort conditions
// (ell > 255, len_in_bytes > 65535), which circl documents as a panic.
func TestVerifExpander(t *testing.T) {
	const mon = "TestVerifExpander"
	lib.Mandatory("expander:xmd", "expander:xof", "expander:xmd:dst>255", "expander:xof:dst>255",
		"expander:xmd:dst=255", "expander:xmd:dst=256", "expander:xmd:dst=0", "expander:xmd:ell=255", "expander:xmd:abort-expected",
		"expander:xof:abort-expected", "expander:xmd:out=0", "expander:xof:out=0", "expander:xof:out=65535")
	type mdh struct {
		name string
		h    crypto.Hash
	}
	// also hashes whose input block is longer than 128 octets (SHA3-256: 136,
	// SHA3-224: 144; RFC 9380 section 5.3.1 names SHA3-256's block size)
	mds := []mdh{{"SHA256", crypto.SHA256}, {"SHA384", crypto.SHA384}, {"SHA512", crypto.SHA512},
		{"SHA3-256", crypto.SHA3_256}, {"SHA3-224", crypto.SHA3_224}, {"SHA3-512", crypto.SHA3_512}, {"SHA224", crypto.SHA224}, {"SHA512/256", crypto.SHA512_256}}
	type xo struct {
		name string
		id   xof.ID
		k    uint
		ref  func([]byte, int) []byte
	}
	xofs := []xo{
		{"SHAKE128", xof.SHAKE128, 128, keccak.SHAKE128},
		{"SHAKE256", xof.SHAKE256, 256, keccak.SHAKE256},
		{"SHAKE128-k256", xof.SHAKE128, 256, keccak.SHAKE128},
		{"SHAKE256-k128", xof.SHAKE256, 128, keccak.SHAKE256},
		{"K12D10", xof.K12D10, 128, func(m []byte, n int) []byte { return keccak.K12(m, nil, n) }},
	}
	dstLens := []int{0, 1, 16, 43, 254, 255, 256, 257, 300}
	n := scale(6000, 150000)
	lib.Par(n, func(i int) {
		r := lib.NewRng("c15/expander", i)
		dl := dstLens[i%len(dstLens)]
		if r.Intn(10) == 0 {
			dl = r.Intn(600)
		}
		dst := r.Bytes(dl)
		if r.Intn(4) == 0 {
			copy(dst, "QUUX-V01-CS02-with-expander")
		}
		isXMD := (i/len(dstLens))%2 == 0
		var msg []byte
		if isXMD {
			md := mds[(i/(2*len(dstLens)))%len(mds)]
			bs, hs := md.h.New().BlockSize(), md.h.Size()
			msg = r.Bytes(lib.Pick(r, 0, 1, 3, bs-1, bs, bs+1, hs, r.Intn(300), r.Intn(300)))
			outs := []int{0, 1, 32, hs - 1, hs, hs + 1, 2 * hs, 2*hs + 1, 254 * hs, 254*hs + 1, 255*hs - 1, 255 * hs,
				255*hs + 1, 256 * hs, 65535, 65536, 65537, 1 << 20, r.Intn(255*hs + 1), r.Intn(4*hs + 1), r.Intn(4*hs + 1), r.Intn(4*hs + 1)}
			out := outs[r.Intn(len(outs))]
			lib.Case([]byte("xmd:"+md.name), dst, msg, []byte(fmt.Sprint(out)))
			lib.Count("expander:xmd")
			name := "expander.ExpanderMD:" + md.name
			want, refErr := expand.XMD(md.h, msg, dst, out)
			dstKeep, msgKeep := lib.Clone(dst), lib.Clone(msg)
			var got, got2 []byte
			// DST and message as adjacent sub-slices of one buffer (the DST's capacity
			// reaches over the message and a canary)
			frame := append(append(append(make([]byte, 0, len(dst)+len(msg)+8), dst...), msg...), 0xA5, 0x5A, 0xA5, 0x5A, 0xA5, 0x5A, 0xA5, 0x5A)
			frameKeep := lib.Clone(frame)
			dst, msg = frame[:len(dst)], frame[len(dst):len(dst)+len(msg)]
			defer func() {
				if !lib.Eq(frame, frameKeep) {
					lib.Violation("C15:input-modified:expander:memory-behind-the-DST-or-message", mon, lib.D("before", frameKeep, "after", frame))
				}
			}()
			e := expander.NewExpanderMD(md.h, dst)
			p := lib.Try(name, msg, func() {
				got = e.Expand(msg, uint(out))
				got2 = e.Expand(msg, uint(out))
			})
			switch {
			case dl > 255:
				lib.Count("expander:xmd:dst>255")
			case dl == 255:
				lib.Count("expander:xmd:dst=255")
			case dl == 0:
				lib.Count("expander:xmd:dst=0")
			}
			if dl == 256 {
				lib.Count("expander:xmd:dst=256")
			}
			if out == 255*hs {
				lib.Count("expander:xmd:ell=255")
			}
			if out == 0 {
				lib.Count("expander:xmd:out=0")
			}
			if refErr != nil {
				lib.Count("expander:xmd:abort-expected")
				if p == nil {
					lib.Violation("C15:no-abort-on-long-output:"+name, mon, lib.D("dst", dst, "msg", msg, "len_in_bytes", out, "returned_len", len(got)))
				}
				return
			}
			if p != nil {
				lib.Violation("C15:panic:"+name, mon, lib.D("dst", dst, "msg", msg, "len_in_bytes", out, "panic", p.Value, "frame", p.TopFrame()))
				return
			}
			if !lib.Eq(got, want) {
				lib.Violation("C15:wrong-output:"+name, mon, lib.D("dst", dst, "msg", msg, "len_in_bytes", out, "got", got, "want", want))
			} else if !lib.Eq(got2, want) {
				lib.Violation("C15:depends-on-reuse:"+name, mon, lib.D("dst", dst, "msg", msg, "len_in_bytes", out))
			}
			if !lib.Eq(dst, dstKeep) || !lib.Eq(msg, msgKeep) {
				lib.Violation("C15:input-modified:"+name, mon, lib.D("dst", dstKeep, "msg", msgKeep))
			}
			return
		}
		x := xofs[(i/(2*len(dstLens)))%len(xofs)]
		msg = r.Bytes(lib.Pick(r, 0, 1, 3, 135, 136, 137, 167, 168, 169, r.Intn(400), r.Intn(400)))
		outs := []int{0, 1, 32, 48, 135, 136, 137, 167, 168, 169, 255, 256, 257, 65535, 65535, 65536, 65537, 65536 + 32, 1 << 17,
			r.Intn(65536), r.Intn(600), r.Intn(600), r.Intn(600), r.Intn(600)}
		out := outs[r.Intn(len(outs))]
		lib.Case([]byte("xof:"+x.name), dst, msg, []byte(fmt.Sprint(out)))
		lib.Count("expander:xof")
		name := "expander.ExpanderXOF:" + x.name
		want, refErr := expand.XOF(x.ref, int(x.k), msg, dst, out)
		dstKeep, msgKeep := lib.Clone(dst), lib.Clone(msg)
		var got, got2 []byte
		// DST and message as adjacent sub-slices of one buffer (the DST's capacity
		// reaches over the message and a canary)
		frame := append(append(append(make([]byte, 0, len(dst)+len(msg)+8), dst...), msg...), 0xA5, 0x5A, 0xA5, 0x5A, 0xA5, 0x5A, 0xA5, 0x5A)
		frameKeep := lib.Clone(frame)
		dst, msg = frame[:len(dst)], frame[len(dst):len(dst)+len(msg)]
		defer func() {
			if !lib.Eq(frame, frameKeep) {
				lib.Violation("C15:input-modified:expander:memory-behind-the-DST-or-message", mon, lib.D("before", frameKeep, "after", frame))
			}
		}()
		e := expander.NewExpanderXOF(x.id, x.k, dst)
		p := lib.Try(name, msg, func() {
			got = e.Expand(msg, uint(out))
			got2 = e.Expand(msg, uint(out))
		})
		if dl > 255 {
			lib.Count("expander:xof:dst>255")
		}
		if out == 0 {
			lib.Count("expander:xof:out=0")
		}
		if out == 65535 {
			lib.Count("expander:xof:out=65535")
		}
		if refErr != nil {
			lib.Count("expander:xof:abort-expected")
			if p == nil {
				// RFC 9380 5.3.2: ABORT if len_in_bytes > 65535; circl's doc
				// comment: "Expand panics if output's length is longer than
				// 2^16 bytes".  65536 itself is only covered by the RFC.
				cls := "len>2^16 (RFC and doc comment)"
				if out == 65536 {
					cls = "len=2^16 (RFC only)"
				}
				lib.Violation("C15:no-abort-on-long-output:expander.ExpanderXOF", mon,
					lib.D("xof", x.name, "class", cls, "dst", dst, "msg", msg, "len_in_bytes", out, "returned_len", len(got),
						"note", "the 16-bit length field silently wraps: output equals expand_message_xof for len_in_bytes mod 65536 stretched to the requested length"))
			}
			return
		}
		if p != nil {
			lib.Violation("C15:panic:"+name, mon, lib.D("dst", dst, "msg", msg, "len_in_bytes", out, "panic", p.Value, "frame", p.TopFrame()))
			return
		}
		if !lib.Eq(got, want) {
			lib.Violation("C15:wrong-output:"+name, mon, lib.D("dst", dst, "msg", msg, "len_in_bytes", out, "got", got, "want", want))
		} else if !lib.Eq(got2, want) {
			lib.Violation("C15:depends-on-reuse:"+name, mon, lib.D("dst", dst, "msg", msg, "len_in_bytes", out))
		}
		if !lib.Eq(dst, dstKeep) || !lib.Eq(msg, msgKeep) {
			lib.Violation("C15:input-modified:"+name, mon, lib.D("dst", dstKeep, "msg", msgKeep))
		}
	})
}
