//go:build verif

package c01

import (
	"reflect"
	"testing"

	"github.com/cloudflare/circl/internal/zzverif/lib"
	"github.com/cloudflare/circl/kem"
)

// TestVerifOutputBuffers: the concrete key types' buffer-filling methods
// (EncapsulateTo, DecapsulateTo, Pack - found by reflection on the key objects
// every scheme returns) write results that are functions of the key, the seed
// and the ciphertext only: whatever the output buffers held before (zero,
// 0xFF, random - a caller re-using its buffers), the bytes written equal what
// the scheme API returns for the same inputs; and decapsulating "in place"
// (the secret written over part of the ciphertext buffer) gives the same
// secret as decapsulating into a separate buffer.
func TestVerifOutputBuffers(t *testing.T) {
	const mon = "TestVerifOutputBuffers"
	lib.Mandatory("outbuf:EncapsulateTo", "outbuf:DecapsulateTo", "outbuf:Pack", "outbuf:decapsulate-in-place")
	bs := reflect.TypeOf([]byte(nil))
	ss := allSchemes()
	lib.Par(len(ss), func(si int) {
		s := ss[si]
		name := s.Name()
		for i := 0; i < lib.Scale(3, 40); i++ {
			r := lib.NewRng("c01/outbuf/"+name, i)
			seed := r.Bytes(s.SeedSize())
			es := r.Bytes(s.EncapsulationSeedSize())
			pk, sk := s.DeriveKeyPair(seed)
			ct0, ss0, err := s.EncapsulateDeterministically(pk, es)
			if err != nil {
				continue
			}
			pkb, _ := pk.MarshalBinary()
			skb, _ := sk.MarshalBinary()
			fills := []func(n int) []byte{
				func(n int) []byte { return make([]byte, n) },
				func(n int) []byte {
					b := make([]byte, n)
					for j := range b {
						b[j] = 0xFF
					}
					return b
				},
				func(n int) []byte { return r.Bytes(n) },
			}
			viol := func(entry, what string, kv ...any) {
				d := lib.D(kv...)
				d["scheme"] = name
				d["seed"] = seed
				d["what"] = what
				lib.Violation("C01:result-depends-on-output-buffer:"+name+":"+entry, mon, d)
			}
			has := func(obj any, meth string, nin int) (reflect.Value, bool) {
				m := reflect.ValueOf(obj).MethodByName(meth)
				if !m.IsValid() || m.Type().NumIn() != nin {
					return m, false
				}
				for k := 0; k < nin; k++ {
					if m.Type().In(k) != bs {
						return m, false
					}
				}
				return m, true
			}
			if m, ok := has(pk, "EncapsulateTo", 3); ok {
				for fi, f := range fills {
					ct, sec := f(len(ct0)), f(len(ss0))
					if pn := lib.Try("EncapsulateTo:"+name, es, func() {
						m.Call([]reflect.Value{reflect.ValueOf(ct), reflect.ValueOf(sec), reflect.ValueOf(lib.Clone(es))})
					}); pn != nil {
						continue
					}
					lib.Count("outbuf:EncapsulateTo")
					lib.Case([]byte("outbuf-enc"), []byte(name), seed, es, []byte{byte(fi)})
					if !lib.Eq(ct, ct0) || !lib.Eq(sec, ss0) {
						viol("EncapsulateTo", "ciphertext / secret differ from EncapsulateDeterministically", "previous_buffer_content", fi, "ct_same", lib.Eq(ct, ct0), "ss_same", lib.Eq(sec, ss0))
						break
					}
				}
			}
			if m, ok := has(sk, "DecapsulateTo", 2); ok {
				for fi, f := range fills {
					sec := f(len(ss0))
					if pn := lib.Try("DecapsulateTo:"+name, ct0, func() {
						m.Call([]reflect.Value{reflect.ValueOf(sec), reflect.ValueOf(lib.Clone(ct0))})
					}); pn != nil {
						continue
					}
					lib.Count("outbuf:DecapsulateTo")
					if !lib.Eq(sec, ss0) {
						viol("DecapsulateTo", "secret differs from the encapsulated one", "previous_buffer_content", fi)
						break
					}
				}
				// ALTERED ciphertexts (implicit rejection, low-order / zeroed
				// component shares): what DecapsulateTo writes is the same for
				// every previous content of the buffer, and is what the scheme
				// API returns (a path that returns early leaves stale octets)
				for ai, alt := range alteredForBuffers(ct0) {
					want, werr := s.Decapsulate(sk, lib.Clone(alt))
					if werr != nil {
						continue
					}
					for fi, f := range fills {
						sec := f(len(ss0))
						if fi == 0 {
							copy(sec, ss0) // the secret of the previous, honest, call
						}
						if pn := lib.Try("DecapsulateTo(altered):"+name, alt, func() {
							m.Call([]reflect.Value{reflect.ValueOf(sec), reflect.ValueOf(lib.Clone(alt))})
						}); pn != nil {
							continue
						}
						lib.Count("outbuf:DecapsulateTo-altered-ciphertext")
						if !lib.Eq(sec, want) {
							viol("DecapsulateTo", "altered ciphertext: the secret written depends on what the buffer held (or differs from Scheme.Decapsulate)", "alteration", ai, "previous_buffer_content", fi, "ct", alt, "equals_previous_honest_secret", lib.Eq(sec, ss0))
							break
						}
					}
				}
				// in place: the secret is written over a part of the ciphertext buffer
				for _, off := range []int{0, len(ct0) - len(ss0), (len(ct0) - len(ss0)) / 2} {
					if off < 0 {
						continue
					}
					buf := lib.Clone(ct0)
					if pn := lib.Try("DecapsulateTo(in place):"+name, ct0, func() {
						m.Call([]reflect.Value{reflect.ValueOf(buf[off : off+len(ss0)]), reflect.ValueOf(buf)})
					}); pn != nil {
						continue
					}
					lib.Count("outbuf:decapsulate-in-place")
					if !lib.Eq(buf[off:off+len(ss0)], ss0) {
						viol("DecapsulateTo", "decapsulation with the output inside the ciphertext buffer gives another secret", "offset", off)
						break
					}
				}
			}
			// the public key object of the pair (and the one Public() hands out) is
			// loaded with ANOTHER key through its own decoder: the private key must
			// still decapsulate the honest ciphertext to the encapsulated secret
			{
				pkO, _ := s.DeriveKeyPair(r.Bytes(s.SeedSize()))
				other, _ := pkO.MarshalBinary()
				for vi, target := range []any{pk, sk.Public()} {
					done := false
					if pn := lib.Try("reload-public-key:"+name, other, func() { done = reloadKeyObject(target, other) }); pn != nil || !done {
						lib.Count("outbuf:no-own-decoder")
						continue
					}
					lib.Count("outbuf:public-key-object-reloaded")
					// the reloaded object (which has encapsulated before, under its
					// first key) must now encapsulate exactly like a fresh decode of
					// the key it was loaded with
					if tp, ok := target.(kem.PublicKey); ok {
						if fresh, ferr := s.UnmarshalBinaryPublicKey(lib.Clone(other)); ferr == nil {
							ctR, ssR, e1 := s.EncapsulateDeterministically(tp, es)
							ctF, ssF, e2 := s.EncapsulateDeterministically(fresh, es)
							lib.Count("outbuf:reloaded-public-key-encapsulates")
							if (e1 == nil) != (e2 == nil) || !lib.Eq(ctR, ctF) || !lib.Eq(ssR, ssF) {
								d := lib.D("seed", seed, "eseed", es, "loaded_key", other, "ct_same", lib.Eq(ctR, ctF), "ss_same", lib.Eq(ssR, ssF))
								d["scheme"] = name
								lib.Violation("C01:reloaded-public-key-object-encapsulates-differently:"+name, mon, d)
								break
							}
						}
					}
					got, derr := s.Decapsulate(sk, ct0)
					now, _ := sk.MarshalBinary()
					if derr != nil || !lib.Eq(got, ss0) || !lib.Eq(now, skb) {
						d := lib.D("seed", seed, "which", []string{"public key returned by DeriveKeyPair", "public key returned by Public()"}[vi],
							"decapsulation_ok", derr == nil && lib.Eq(got, ss0), "private_key_encoding_changed", !lib.Eq(now, skb))
						d["scheme"] = name
						lib.Violation("C01:roundtrip-after-reloading-the-public-key-object:"+name, mon, d)
						break
					}
				}
				// restore for the Pack checks below
				pk, sk = s.DeriveKeyPair(seed)
			}
			for _, kp := range []struct {
				obj  any
				want []byte
				w    string
			}{{pk, pkb, "public key"}, {sk, skb, "private key"}} {
				m, ok := has(kp.obj, "Pack", 1)
				if !ok {
					continue
				}
				for fi, f := range fills {
					buf := f(len(kp.want))
					if pn := lib.Try("Pack:"+name, nil, func() { m.Call([]reflect.Value{reflect.ValueOf(buf)}) }); pn != nil {
						continue
					}
					lib.Count("outbuf:Pack")
					if !lib.Eq(buf, kp.want) {
						viol("Pack", kp.w+" packed into a used buffer differs from MarshalBinary", "previous_buffer_content", fi)
						break
					}
				}
			}
		}
	})
}

// reloadKeyObject loads enc into obj through obj's own decoder
// (UnmarshalBinary or Unpack taking a byte slice); false if there is none or
// it refuses.
func reloadKeyObject(obj any, enc []byte) bool {
	v := reflect.ValueOf(obj)
	for _, mname := range []string{"UnmarshalBinary", "Unpack"} {
		m := v.MethodByName(mname)
		if !m.IsValid() || m.Type().NumIn() != 1 || m.Type().In(0) != reflect.TypeOf([]byte(nil)) {
			continue
		}
		out := m.Call([]reflect.Value{reflect.ValueOf(lib.Clone(enc))})
		if len(out) == 1 && !out[0].IsNil() {
			return false
		}
		return true
	}
	return false
}

// alteredForBuffers: ciphertexts derived from an honest one by zeroing or
// replacing whole component shares at either end (32 / 56 octets: the sizes of
// X25519 / X448 shares in the hybrids), the all-zero string and one bit flip.
func alteredForBuffers(ct []byte) [][]byte {
	var out [][]byte
	add := func(f func(b []byte)) {
		b := lib.Clone(ct)
		f(b)
		out = append(out, b)
	}
	for _, n := range []int{32, 56} {
		if len(ct) <= n {
			continue
		}
		n := n
		add(func(b []byte) { copy(b[len(b)-n:], make([]byte, n)) })
		add(func(b []byte) { copy(b[:n], make([]byte, n)) })
		add(func(b []byte) { copy(b[len(b)-n:], make([]byte, n)); b[len(b)-n] = 1 })
		add(func(b []byte) { copy(b[:n], make([]byte, n)); b[0] = 1 })
	}
	add(func(b []byte) { copy(b, make([]byte, len(b))) })
	add(func(b []byte) { b[len(b)/2] ^= 0x10 })
	return out
}
