//go:build verif

package c20

import (
	"os"
	"testing"

	"github.com/cloudflare/circl/abe/cpabe/tkn20"
	"github.com/cloudflare/circl/internal/zzverif/lib"
	"github.com/cloudflare/circl/internal/zzverif/ref/abepol"
)

// TestVerifABEObjectReuse: histories on ONE Attributes / Policy / key object.
// A key is a function of the attribute set it was generated for, not of the
// Attributes variable: the caller refills that variable (FromMap) for the next
// user, mutates the map it passed in, re-parses a Policy variable after
// encrypting - and every key and ciphertext produced earlier must keep its
// encoding and its verdict.  Decrypting does not change the key either:
// repeated decryptions (successful and refused ones interleaved, several
// policies) give the same results and leave the key's encoding unchanged.
func TestVerifABEObjectReuse(t *testing.T) {
	const rmon = "TestVerifABEObjectReuse"
	lib.Mandatory("reuse:attributes-refilled", "reuse:key-used-again", "reuse:policy-reparsed")
	var msk tkn20.SystemSecretKey
	var pk tkn20.PublicKey
	dirp := repoRoot() + "/abe/cpabe/tkn20/testdata/"
	rd := func(n string) []byte {
		b, err := os.ReadFile(dirp + n)
		if err != nil {
			t.Fatalf("harness: %v", err)
		}
		return b
	}
	if err := msk.UnmarshalBinary(rd("secretKey")); err != nil {
		t.Fatalf("harness: golden secretKey: %v", err)
	}
	if err := pk.UnmarshalBinary(rd("publicKey")); err != nil {
		t.Fatalf("harness: golden publicKey: %v", err)
	}
	type pcase struct {
		text string
		node *abepol.Node
	}
	leaf := func(l, v string) *abepol.Node { return &abepol.Node{K: abepol.Leaf, Label: l, Value: v} }
	and := func(a, b *abepol.Node) *abepol.Node { return &abepol.Node{K: abepol.And, L: a, R: b} }
	or := func(a, b *abepol.Node) *abepol.Node { return &abepol.Node{K: abepol.Or, L: a, R: b} }
	not := func(a *abepol.Node) *abepol.Node { return &abepol.Node{K: abepol.Not, L: a} }
	pols := []pcase{
		{"a:1", leaf("a", "1")},
		{"(a:0 or a:1) and (b:0 or b:1)", and(or(leaf("a", "0"), leaf("a", "1")), or(leaf("b", "0"), leaf("b", "1")))},
		{"a:1 and b:1", and(leaf("a", "1"), leaf("b", "1"))},
		{"a:1 or (b:1 and c:1)", or(leaf("a", "1"), and(leaf("b", "1"), leaf("c", "1")))},
		{"not a:0 and b:1", and(not(leaf("a", "0")), leaf("b", "1"))},
		{"(a:1 or b:0) and not c:2", and(or(leaf("a", "1"), leaf("b", "0")), not(leaf("c", "2")))},
	}
	sets := []abepol.Assign{
		{"a": "1", "b": "1"}, {"a": "1"}, {"b": "1", "c": "1"}, {"a": "0", "b": "0", "c": "2"}, {"a": "1", "b": "1", "c": "1"}, {"c": "0"},
	}
	msg := []byte("reuse")
	// ciphertexts, with the Policy variable re-parsed after every encryption
	cts := make([][]byte, len(pols))
	var pol tkn20.Policy
	for i, p := range pols {
		if err := pol.FromString(p.text); err != nil {
			lib.Violation("C20:parse-error:Policy.FromString", rmon, lib.D("policy", p.text, "err", err))
			return
		}
		ct, err := pk.Encrypt(lib.NewRng("c20/reuse/enc", i), pol, msg)
		if err != nil {
			lib.Violation("C20:encrypt-error:PublicKey.Encrypt", rmon, lib.D("policy", p.text, "err", err))
			return
		}
		cts[i] = ct
		keep := lib.Clone(ct)
		// the same variable now holds another policy
		_ = pol.FromString(pols[(i+1)%len(pols)].text)
		if !lib.Eq(ct, keep) {
			lib.Violation("C20:ciphertext-tied-to-policy-object:PublicKey.Encrypt", rmon, lib.D("policy", p.text))
		}
		lib.Count("reuse:policy-reparsed")
	}
	// keys, all generated through ONE Attributes variable and ONE map
	var at tkn20.Attributes
	m := map[string]string{}
	keys := make([]tkn20.AttributeKey, len(sets))
	encs := make([][]byte, len(sets))
	for i, a := range sets {
		for k := range m {
			delete(m, k)
		}
		for k, v := range a {
			m[k] = v
		}
		at.FromMap(m)
		k, err := msk.KeyGen(lib.NewRng("c20/reuse/keygen", i), at)
		if err != nil {
			lib.Violation("C20:keygen-error:SystemSecretKey.KeyGen", rmon, lib.D("attrs", a.String(), "err", err))
			return
		}
		keys[i] = k
		encs[i], _ = k.MarshalBinary()
		// the caller scribbles over its map and refills the variable
		m["a"] = "scribble"
		m["zz"] = "x"
		at.FromMap(map[string]string{"q": "r"})
		lib.Count("reuse:attributes-refilled")
		if now, _ := keys[i].MarshalBinary(); !lib.Eq(now, encs[i]) {
			lib.Violation("C20:key-tied-to-attributes-object:SystemSecretKey.KeyGen", rmon, lib.D("attrs", a.String()))
		}
	}
	// every key against every ciphertext, three passes over the same key objects
	for pass := 0; pass < 3; pass++ {
		for ki := range keys {
			for pi, p := range pols {
				exp := abepol.Eval(p.node, sets[ki])
				lib.CaseS("reuse", p.text, sets[ki].String())
				lib.Count("reuse:key-used-again")
				pt, err, pn := tryDecrypt(&keys[ki], cts[pi], "tkn20.AttributeKey.Decrypt:reuse")
				if pn != nil {
					lib.Violation("C20:panic:AttributeKey.Decrypt:reused-key", rmon, lib.D("policy", p.text, "attrs", sets[ki].String(), "pass", pass, "panic", pn.Value))
					continue
				}
				if (err == nil) != exp {
					lib.Violation("C20:"+dir(exp)+":AttributeKey.Decrypt:reused-key", rmon,
						lib.D("policy", p.text, "attrs", sets[ki].String(), "pass", pass, "expected", exp, "err", err))
					continue
				}
				if exp && !lib.Eq(pt, msg) {
					lib.Violation("C20:wrong-plaintext:AttributeKey.Decrypt:reused-key", rmon, lib.D("policy", p.text, "attrs", sets[ki].String(), "pass", pass))
				}
			}
			if now, _ := keys[ki].MarshalBinary(); !lib.Eq(now, encs[ki]) {
				lib.Violation("C20:key-changed-by-decrypting:AttributeKey.Decrypt", rmon, lib.D("attrs", sets[ki].String(), "pass", pass))
				encs[ki] = now
			}
		}
	}
}
