//go:build verif

package c18

import (
	"crypto"
	"testing"

	"github.com/cloudflare/circl/blindsign/blindrsa"
	pbrsa "github.com/cloudflare/circl/blindsign/blindrsa/partiallyblindrsa"
	"github.com/cloudflare/circl/internal/zzverif/lib"
)

// TestVerifFinalizeLeadingZero: "finalisation fails for a blind signature of
// the wrong length" is only observable for the length-minus-one case when the
// genuine blind signature starts with a zero byte (1 in 256): sessions are
// generated until that happens, then the signature without its leading zero
// byte - the same integer, one byte short - must be refused.
func TestVerifFinalizeLeadingZero(t *testing.T) {
	const mon = "TestVerifFinalizeLeadingZero"
	lib.Mandatory("leadzero:blindrsa-found", "leadzero:pbrsa-found")
	{
		k := loadKey(t, "plain-1024")
		cl, err := blindrsa.NewClient(blindrsa.SHA384PSSDeterministic, &k.sk.PublicKey)
		if err != nil {
			t.Fatal(err)
		}
		signer := blindrsa.NewSigner(k.sk)
		found := 0
		for i := 0; i < 6000 && found < lib.Scale(2, 10); i++ {
			r := lib.NewRng("c18/leadzero/brsa", i)
			msg := r.Bytes(8)
			blinded, st, err := cl.Blind(r, msg)
			if err != nil {
				continue
			}
			z, err := signer.BlindSign(blinded)
			if err != nil || z[0] != 0 {
				continue
			}
			found++
			lib.Case([]byte("leadzero-brsa"), msg, z)
			lib.Count("leadzero:blindrsa-found")
			if _, err := cl.Finalize(st, z); err != nil {
				lib.Violation("C18:finalize-rejects-honest:blindrsa.Client.Finalize:leading-zero-blind-signature", mon, lib.D("blind_sig", z, "err", err))
			}
			if out, err := cl.Finalize(st, z[1:]); err == nil {
				lib.Violation("C18:finalize-accepts-altered:blindrsa.Client.Finalize:wrong-length", mon,
					lib.D("class", "leading-zero-byte-stripped", "honest_blind_sig", z, "returned", out))
			}
		}
	}
	{
		k := loadKey(t, "safe-1024")
		h := crypto.SHA384
		verifier := pbrsa.NewVerifier(&k.sk.PublicKey, h)
		signer, err := pbrsa.NewSigner(k.sk, h)
		if err != nil {
			t.Fatal(err)
		}
		md := []byte("metadata")
		found := 0
		for i := 0; i < 6000 && found < lib.Scale(2, 10); i++ {
			r := lib.NewRng("c18/leadzero/pbrsa", i)
			msg := r.Bytes(8)
			blinded, st, err := verifier.Blind(r, msg, md)
			if err != nil {
				continue
			}
			z, err := signer.BlindSign(blinded, md)
			if err != nil || z[0] != 0 {
				continue
			}
			found++
			lib.Case([]byte("leadzero-pbrsa"), msg, z)
			lib.Count("leadzero:pbrsa-found")
			if _, err := st.Finalize(z); err != nil {
				lib.Violation("C18:finalize-rejects-honest:partiallyblindrsa.VerifierState.Finalize:leading-zero-blind-signature", mon, lib.D("blind_sig", z, "err", err))
			}
			if out, err := st.Finalize(z[1:]); err == nil {
				lib.Violation("C18:finalize-accepts-altered:partiallyblindrsa.VerifierState.Finalize:wrong-length", mon,
					lib.D("class", "leading-zero-byte-stripped", "honest_blind_sig", z, "returned", out))
			}
		}
	}
}
