//go:build verif

package c09ref

import "math/big"

// ---------------------------------------------------------------- SEC1 (short Weierstrass, a = -3, cofactor 1)

// SEC1Curve carries the domain parameters (taken from crypto/elliptic by the
// caller) of y^2 = x^3 - 3x + b over GF(p).
type SEC1Curve struct {
	Name    string
	C       *WCurve
	N       *big.Int
	G       WPt
	ByteLen int
}

func NewSEC1(name string, p, b, n, gx, gy *big.Int, bitSize int) *SEC1Curve {
	f := NewFld(p, false)
	return &SEC1Curve{Name: name, C: &WCurve{F: f, A: f.Int(-3), B: f.FromBig(b, big0)}, N: n,
		G: WPt{X: f.FromBig(gx, big0), Y: f.FromBig(gy, big0)}, ByteLen: (bitSize + 7) / 8}
}

// SEC1Dec is the verdict of SEC1 2.3.4 (octet string to point).
type SEC1Dec struct {
	Why  string
	Form string // "infinity", "compressed", "uncompressed"
	P    WPt
}

func (c *SEC1Curve) Decode(in []byte) SEC1Dec {
	f := c.C.F
	l := c.ByteLen
	switch {
	case len(in) == 1:
		if in[0] != 0 {
			return SEC1Dec{Why: "prefix", Form: "infinity"}
		}
		return SEC1Dec{Form: "infinity", P: c.C.Infinity()}
	case len(in) == 1+l:
		d := SEC1Dec{Form: "compressed"}
		if in[0] != 2 && in[0] != 3 {
			d.Why = "prefix"
			return d
		}
		x := FromBE(in[1:])
		if x.Cmp(f.P) >= 0 {
			d.Why = "coordinate-out-of-range"
			return d
		}
		xe := El{x, new(big.Int)}
		y, ok := f.Sqrt(c.C.RHS(xe))
		if !ok {
			d.Why = "not-on-curve"
			return d
		}
		if y.A.Bit(0) != uint(in[0]&1) {
			y = f.Neg(y)
		}
		if y.A.Bit(0) != uint(in[0]&1) { // y = 0: no point with the requested parity
			d.Why = "not-on-curve"
			return d
		}
		d.P = WPt{X: xe, Y: y}
		return d
	case len(in) == 1+2*l:
		d := SEC1Dec{Form: "uncompressed"}
		if in[0] != 4 {
			d.Why = "prefix"
			return d
		}
		x := FromBE(in[1 : 1+l])
		y := FromBE(in[1+l:])
		if x.Cmp(f.P) >= 0 || y.Cmp(f.P) >= 0 {
			d.Why = "coordinate-out-of-range"
			return d
		}
		d.P = WPt{X: El{x, new(big.Int)}, Y: El{y, new(big.Int)}}
		if !c.C.OnCurve(d.P) {
			d.Why = "not-on-curve"
		}
		return d
	}
	return SEC1Dec{Why: "length"}
}

func (c *SEC1Curve) Encode(p WPt, compressed bool) []byte {
	if p.Inf {
		return []byte{0}
	}
	if compressed {
		return append([]byte{2 | byte(p.Y.A.Bit(0))}, BE(p.X.A, c.ByteLen)...)
	}
	out := append([]byte{4}, BE(p.X.A, c.ByteLen)...)
	return append(out, BE(p.Y.A, c.ByteLen)...)
}

// ---------------------------------------------------------------- ristretto255 (RFC 9496 4.3.1)

var (
	r255P      = new(big.Int).Sub(new(big.Int).Lsh(big1, 255), big.NewInt(19))
	r255D      = bi("37095705934669439343138083508754565189542113879843219016388785533085940283555")
	r255SqrtM1 = bi("19681161376707505956807079304988542015446066515923890162744021073123829784752")
	R255L      = new(big.Int).Add(new(big.Int).Lsh(big1, 252), bi("27742317777372353535851937790883648493"))
)

func r255mod(x *big.Int) *big.Int { return x.Mod(x, r255P) }
func r255mul(a, b *big.Int) *big.Int {
	return r255mod(new(big.Int).Mul(a, b))
}
func r255neg(a *big.Int) *big.Int { return r255mod(new(big.Int).Neg(a)) }
func r255abs(a *big.Int) *big.Int {
	if a.Bit(0) == 1 {
		return r255neg(a)
	}
	return a
}

// sqrtRatioM1 is SQRT_RATIO_M1 of RFC 9496 4.2.
func r255SqrtRatioM1(u, v *big.Int) (bool, *big.Int) {
	v3 := r255mul(r255mul(v, v), v)
	v7 := r255mul(r255mul(v3, v3), v)
	e := new(big.Int).Sub(r255P, big.NewInt(5))
	e.Rsh(e, 3)
	r := r255mul(r255mul(u, v3), new(big.Int).Exp(r255mul(u, v7), e, r255P))
	check := r255mul(v, r255mul(r, r))
	um := r255mod(new(big.Int).Set(u))
	correct := check.Cmp(um) == 0
	flipped := check.Cmp(r255neg(um)) == 0
	flippedI := check.Cmp(r255neg(r255mul(um, r255SqrtM1))) == 0
	if flipped || flippedI {
		r = r255mul(r, r255SqrtM1)
	}
	return correct || flipped, r255abs(r)
}

// R255Decode returns the affine Edwards25519 representative of the encoded
// element, or why the string is not a canonical ristretto255 encoding.
func R255Decode(in []byte) (x, y *big.Int, why string) {
	if len(in) != 32 {
		return nil, nil, "length"
	}
	s := FromLE(in)
	if s.Cmp(r255P) >= 0 {
		return nil, nil, "coordinate-out-of-range"
	}
	if s.Bit(0) == 1 {
		return nil, nil, "negative-s"
	}
	ss := r255mul(s, s)
	u1 := r255mod(new(big.Int).Sub(big1, ss))
	u2 := r255mod(new(big.Int).Add(big1, ss))
	u2s := r255mul(u2, u2)
	v := r255mod(new(big.Int).Sub(r255neg(r255mul(r255D, r255mul(u1, u1))), u2s))
	ok, inv := r255SqrtRatioM1(big1, r255mul(v, u2s))
	denX := r255mul(inv, u2)
	denY := r255mul(r255mul(inv, denX), v)
	x = r255abs(r255mul(r255mul(big2, s), denX))
	y = r255mul(u1, denY)
	t := r255mul(x, y)
	if !ok {
		return nil, nil, "non-square"
	}
	if t.Bit(0) == 1 {
		return nil, nil, "negative-t"
	}
	if y.Sign() == 0 {
		return nil, nil, "y-zero"
	}
	return x, y, ""
}

// R255OnCurve checks -x^2 + y^2 = 1 + d x^2 y^2 mod 2^255-19.
func R255OnCurve(x, y *big.Int) bool {
	xx, yy := r255mul(x, x), r255mul(y, y)
	l := r255mod(new(big.Int).Sub(yy, xx))
	r := r255mod(new(big.Int).Add(big1, r255mul(r255D, r255mul(xx, yy))))
	return l.Cmp(r) == 0
}

// R255Curve is edwards25519 for order checks of decoded representatives.
var R255Curve = func() *ECurve {
	f := NewFld25519()
	return &ECurve{F: f, A: f.Int(-1), D: f.FromBig(r255D, big0)}
}()

// NewFld25519 is GF(2^255-19) without square-root support (p = 5 mod 8).
func NewFld25519() *Fld {
	f := &Fld{P: r255P}
	f.Half = new(big.Int).Rsh(new(big.Int).Sub(r255P, big1), 1)
	return f
}

// ---------------------------------------------------------------- ML-KEM (FIPS 203 7.2 modulus check)

// MLKEMEncapsKeyOK reports whether every 12-bit coefficient of the k
// polynomials at the front of an encapsulation key is < 3329; bad is the index
// of the first offending coefficient.
func MLKEMEncapsKeyOK(ek []byte, k int) (ok bool, bad int) {
	if len(ek) != 384*k+32 {
		return false, -1
	}
	for i := 0; i < 128*k; i++ {
		b0, b1, b2 := uint(ek[3*i]), uint(ek[3*i+1]), uint(ek[3*i+2])
		c0 := b0 | (b1&0x0F)<<8
		c1 := b1>>4 | b2<<4
		if c0 >= 3329 {
			return false, 2 * i
		}
		if c1 >= 3329 {
			return false, 2*i + 1
		}
	}
	return true, -1
}

// MLKEMSetCoeff overwrites coefficient idx of an encapsulation key with v (12 bits).
func MLKEMSetCoeff(ek []byte, idx int, v uint) {
	i := idx / 2
	if idx%2 == 0 {
		ek[3*i] = byte(v)
		ek[3*i+1] = ek[3*i+1]&0xF0 | byte(v>>8)&0x0F
	} else {
		ek[3*i+1] = ek[3*i+1]&0x0F | byte(v<<4)
		ek[3*i+2] = byte(v >> 4)
	}
}
