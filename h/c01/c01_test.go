//go:build verif

// C01 — KEM round trip, determinism, sizes, marshal round trip, and the
// behaviour of decapsulation on altered ciphertexts (relational oracle over
// observed calls).
package c01

import (
	"crypto/elliptic"
	"fmt"
	"math/big"
	"strings"
	"testing"

	"github.com/cloudflare/circl/hpke"
	"github.com/cloudflare/circl/internal/zzverif/lib"
	"github.com/cloudflare/circl/kem"
	"github.com/cloudflare/circl/kem/mlkem/mlkem1024"
	"github.com/cloudflare/circl/kem/mlkem/mlkem512"
	"github.com/cloudflare/circl/kem/mlkem/mlkem768"
	"github.com/cloudflare/circl/kem/schemes"
	"github.com/cloudflare/circl/kem/xwing"
)

func TestMain(m *testing.M) { lib.Main(m) }

const mon = "TestVerifKEM"

func allSchemes() []kem.Scheme {
	s := schemes.All()
	s = append(s, hpke.KEM_X25519_KYBER768_DRAFT00.Scheme(), hpke.KEM_XWING.Scheme())
	return s
}

// implicit-rejection family and where z (the rejection secret) lives in the
// marshalled private key: off >= 0 from the start, off < 0 from the end.
func irInfo(name string) (ok bool, zoff, zlen int) {
	switch {
	case strings.HasPrefix(name, "ML-KEM-"), name == "Kyber512", name == "Kyber768", name == "Kyber1024":
		return true, -32, 32
	case name == "FrodoKEM-640-SHAKE":
		return true, 0, 16
	}
	return false, 0, 0
}

// exemptBit reports whether bit i of the ciphertext is a masked bit of a raw
// X25519 share (the only alteration allowed to leave the secret unchanged).
func exemptBit(name string, i int) bool {
	switch name {
	case "Kyber512-X25519", "Kyber768-X25519":
		return i == 255
	case "X25519MLKEM768":
		return i == (1088+31)*8+7
	}
	return false
}

func viol(s kem.Scheme, class string, kv ...any) {
	d := lib.D(kv...)
	d["scheme"] = s.Name()
	lib.Violation("C01:"+class+":"+s.Name(), mon, d)
}

type alteration struct {
	class string
	ct    []byte
	bits  []int // altered bit positions if known (single flips)
}

func TestVerifKEM(t *testing.T) {
	lib.Mandatory("roundtrip", "altered", "implicit-rejection", "error-on-altered", "exempt-bit-skips", "negated-point-alterations", "handout-capacity-written")
	ss := allSchemes()
	nk := lib.Scale(3, 8)
	ne := lib.Scale(2, 4)
	type cs struct {
		s    kem.Scheme
		k, e int
	}
	var cases []cs
	for _, s := range ss {
		for k := 0; k < nk; k++ {
			for e := 0; e < ne; e++ {
				cases = append(cases, cs{s, k, e})
			}
		}
	}
	lib.Par(len(cases), func(i int) {
		c := cases[i]
		oneCase(c.s, c.k, c.e)
	})
}

func decaps(s kem.Scheme, sk kem.PrivateKey, ct []byte, what string) (out []byte, err error, p *lib.Panic) {
	p = lib.Try("kem.Decapsulate:"+s.Name()+":"+what, ct, func() { out, err = s.Decapsulate(sk, ct) })
	return
}

func oneCase(s kem.Scheme, k, e int) {
	name := s.Name()
	r := lib.NewRng("c01/"+name, k*1000+e)
	kr := lib.NewRng("c01/key/"+name, k)
	seed := kr.Bytes(s.SeedSize())
	if k == 0 {
		seed = make([]byte, s.SeedSize()) // all-zero seed (design-time witness for P-256 hybrid)
	}
	eseed := r.Bytes(s.EncapsulationSeedSize())
	lib.Case([]byte(name), seed, eseed)

	var pk, pk2 kem.PublicKey
	var sk, sk2 kem.PrivateKey
	if p := lib.Try("kem.DeriveKeyPair:"+name, seed, func() {
		// the first pair is derived from a buffer that is overwritten as soon
		// as the call returns (a caller wiping its seed): the keys must not
		// change with it
		seedIn := lib.Clone(seed)
		pk, sk = s.DeriveKeyPair(seedIn)
		for i := range seedIn {
			seedIn[i] ^= 0xA5
		}
		pk2, sk2 = s.DeriveKeyPair(seed)
	}); p != nil {
		viol(s, "panic-derive", "seed", seed, "panic", p.Value)
		return
	}
	// what MarshalBinary hands out is the caller's: it is copied and then
	// overwritten; the keys must not change with it (checked by everything
	// that follows: determinism, Public(), round trip)
	handOut := func(b []byte, _ error) []byte {
		c := lib.Clone(b)
		for i := range b {
			b[i] ^= 0x3C
		}
		return c
	}
	pkb := handOut(pk.MarshalBinary())
	skb := handOut(sk.MarshalBinary())
	pkb2, _ := pk2.MarshalBinary()
	skb2, _ := sk2.MarshalBinary()
	// repeat a few more times: the known nondeterminism is a coin flip
	same := lib.Eq(pkb, pkb2) && lib.Eq(skb, skb2)
	for j := 0; j < 6 && same; j++ {
		p3, s3 := s.DeriveKeyPair(seed)
		a, _ := p3.MarshalBinary()
		b, _ := s3.MarshalBinary()
		same = lib.Eq(pkb, a) && lib.Eq(skb, b)
	}
	if !same {
		viol(s, "nondeterministic-derive", "seed", seed)
		// continue with pk, sk: the remaining relations are still meaningful
	}
	if len(pkb) != s.PublicKeySize() || len(skb) != s.PrivateKeySize() {
		viol(s, "size", "what", "key", "pk", len(pkb), "sk", len(skb))
	}
	pkFromSk := handOut(sk.Public().MarshalBinary())
	pkAgain, _ := pk.MarshalBinary()
	if !lib.Eq(pkFromSk, pkb) || !lib.Eq(pkAgain, pkb) {
		viol(s, "public-mismatch", "seed", seed, "sk_public_equals_pk", lib.Eq(pkFromSk, pkb), "pk_unchanged_after_its_encoding_was_overwritten", lib.Eq(pkAgain, pkb))
	}

	eseedIn := lib.Clone(eseed)
	ct, shared, err := s.EncapsulateDeterministically(pk, eseedIn)
	for i := range eseedIn {
		eseedIn[i] ^= 0xA5
	}
	ctB, sharedB, errB := s.EncapsulateDeterministically(pk, eseed)
	if err != nil || errB != nil {
		viol(s, "encaps-error", "seed", seed, "eseed", eseed, "err", err)
		return
	}
	if !lib.Eq(ct, ctB) || !lib.Eq(shared, sharedB) {
		viol(s, "nondeterministic-encaps", "seed", seed, "eseed", eseed)
	}
	if len(ct) != s.CiphertextSize() || len(shared) != s.SharedKeySize() {
		viol(s, "size", "what", "ct/ss", "ct", len(ct), "ss", len(shared))
	}
	// the ciphertext and the secret are two values: writing to one of them up
	// to its capacity (append(ct, payload...)) must leave the other one alone
	{
		ctK, ssK := lib.Clone(ct), lib.Clone(shared)
		x := ct[:cap(ct)]
		for i := len(ct); i < len(x); i++ {
			x[i] ^= 0xEE
		}
		y := shared[:cap(shared)]
		for i := len(shared); i < len(y); i++ {
			y[i] ^= 0xEE
		}
		lib.Count("handout-capacity-written")
		if lib.SharesMemory(ct, shared) || !lib.Eq(ct, ctK) || !lib.Eq(shared, ssK) {
			viol(s, "ciphertext-and-secret-share-memory", "seed", seed, "eseed", eseed, "cap_ct", cap(ct), "cap_ss", cap(shared),
				"secret_changed", !lib.Eq(shared, ssK), "ciphertext_changed", !lib.Eq(ct, ctK))
			ct, shared = ctK, ssK
		}
	}
	got, err, p := decaps(s, sk, ct, "honest")
	if p != nil || err != nil || !lib.Eq(got, shared) {
		viol(s, "roundtrip", "seed", seed, "eseed", eseed, "err", err, "panic", fmt.Sprint(p != nil))
		return
	}
	lib.Count("roundtrip")
	if k == 0 && e == 0 {
		lib.Sample(mon, lib.D("scheme", name, "seed", seed, "eseed", eseed, "ct_len", len(ct), "ss", shared))
	}

	// marshal round trip
	// the buffers handed to the decoders are scribbled over afterwards: an
	// unmarshalled key must not keep a reference to its input
	pkIn, skIn := lib.Clone(pkb), lib.Clone(skb)
	pkU, err1 := s.UnmarshalBinaryPublicKey(pkIn)
	skU, err2 := s.UnmarshalBinaryPrivateKey(skIn)
	for i := range pkIn {
		pkIn[i] ^= 0xA5
	}
	for i := range skIn {
		skIn[i] ^= 0xA5
	}
	if err1 != nil || err2 != nil {
		viol(s, "unmarshal-own-key", "seed", seed, "err1", err1, "err2", err2)
		return
	}
	if !pkU.Equal(pk) || !pk.Equal(pkU) || !skU.Equal(sk) || !sk.Equal(skU) {
		viol(s, "unmarshal-not-equal", "seed", seed)
	}
	a, _ := pkU.MarshalBinary()
	b, _ := skU.MarshalBinary()
	if !lib.Eq(a, pkb) || !lib.Eq(b, skb) {
		viol(s, "remarshal-differs", "seed", seed)
	}
	ctU, ssU, err := s.EncapsulateDeterministically(pkU, eseed)
	if err != nil || !lib.Eq(ctU, ct) || !lib.Eq(ssU, shared) {
		viol(s, "unmarshalled-pk-behaves-differently", "seed", seed, "eseed", eseed)
	}
	gotU, err, p := decaps(s, skU, ct, "unmarshalled-sk")
	if p != nil || err != nil || !lib.Eq(gotU, shared) {
		viol(s, "unmarshalled-sk-behaves-differently", "seed", seed, "eseed", eseed)
	}
	lib.Count("marshal-roundtrip")

	// another key's ciphertext
	okr := lib.NewRng("c01/otherkey/"+name, k*1000+e)
	opk, _ := s.DeriveKeyPair(okr.Bytes(s.SeedSize()))
	octx, _, _ := s.EncapsulateDeterministically(opk, eseed)

	// alterations
	var alts []alteration
	nbits := 8 * len(ct)
	full := lib.Thorough() && k == 0 && e == 0
	if full {
		for i := 0; i < nbits; i++ {
			alts = append(alts, alteration{"bitflip", lib.FlipBit(ct, i), []int{i}})
		}
		lib.Count("full-bitflip-sweeps")
	} else {
		for j := 0; j < 64; j++ {
			i := r.Intn(nbits)
			alts = append(alts, alteration{"bitflip", lib.FlipBit(ct, i), []int{i}})
		}
		// first and last bit of the ciphertext and of every 32-byte aligned
		// boundary region; top bit / top byte of every possible DH share start
		for _, i := range boundaryBits(name, len(ct)) {
			alts = append(alts, alteration{"bitflip-boundary", lib.FlipBit(ct, i), []int{i}})
		}
	}
	for j := 0; j < lib.Scale(16, 256); j++ {
		c := lib.Clone(ct)
		for n := 0; n < 1+r.Intn(6); n++ {
			c[r.Intn(len(c))] ^= byte(1 + r.Intn(255))
		}
		alts = append(alts, alteration{"multibyte", c, nil})
	}
	alts = append(alts, alteration{"zero", make([]byte, len(ct)), nil})
	ff := make([]byte, len(ct))
	for i := range ff {
		ff[i] = 0xFF
	}
	alts = append(alts, alteration{"ones", ff, nil})
	alts = append(alts, alteration{"random", r.Bytes(len(ct)), nil})
	if octx != nil {
		alts = append(alts, alteration{"other-key", octx, nil})
	}
	alts = append(alts, shareSubstitutions(ct)...)
	neg := negatedPoints(ct)
	alts = append(alts, neg...)
	lib.CountN("negated-point-alterations", len(neg))

	ir, zoff, zlen := irInfo(name)
	var skz kem.PrivateKey
	if ir {
		skzb := lib.Clone(skb)
		o := zoff
		if o < 0 {
			o = len(skzb) + zoff
		}
		for j := 0; j < zlen; j++ {
			skzb[o+j] ^= 0x5A
		}
		var err error
		skz, err = s.UnmarshalBinaryPrivateKey(skzb)
		if err != nil {
			viol(s, "z-edited-key-refused", "err", err)
			skz = nil
		} else if g, err, p := decaps(s, skz, ct, "z-edited-honest"); p != nil || err != nil || !lib.Eq(g, shared) {
			viol(s, "z-edited-key-breaks-honest-decaps", "err", err)
		}
	}
	var prevRej []byte
	var prevCt []byte
	for _, a := range alts {
		if lib.Eq(a.ct, ct) {
			continue
		}
		exempt := len(a.bits) == 1 && exemptBit(name, a.bits[0])
		lib.Count("altered")
		lib.Count("altered:" + a.class)
		lib.Case([]byte(name), a.ct)
		g1, e1, p1 := decaps(s, sk, a.ct, a.class)
		g2, e2, p2 := decaps(s, sk, a.ct, a.class)
		if p1 != nil || p2 != nil {
			pp := p1
			if pp == nil {
				pp = p2
			}
			viol(s, "panic-decaps", "class", a.class, "ct", a.ct, "panic", pp.Value, "frame", pp.TopFrame())
			continue
		}
		if (e1 == nil) != (e2 == nil) || !lib.Eq(g1, g2) {
			viol(s, "nondeterministic-decaps", "class", a.class, "ct", a.ct)
		}
		if e1 != nil {
			lib.Count("error-on-altered")
			if ir {
				viol(s, "implicit-rejection-returned-error", "class", a.class, "ct", a.ct, "err", e1)
			}
			continue
		}
		if len(g1) != s.SharedKeySize() {
			viol(s, "altered-decaps-size", "class", a.class, "ct", a.ct, "len", len(g1), "want", s.SharedKeySize(), "seed", seed, "eseed", eseed)
			continue
		}
		if exempt {
			lib.Count("exempt-bit-skips")
			continue
		}
		if a.class == "negated-point" && name == "P256Kyber768Draft00" {
			// the raw ECDH x-coordinate is the P-256 half of this hybrid's secret:
			// the sign of y is not bound into it (observed, not judged)
			lib.Count("observed:negated-point-not-bound-in-raw-ecdh-hybrid")
			continue
		}
		if lib.Eq(g1, shared) {
			viol(s, "honest-secret-on-altered-ct", "class", a.class, "bits", fmt.Sprint(a.bits), "ct", a.ct, "seed", seed, "eseed", eseed)
			continue
		}
		if ir {
			lib.Count("implicit-rejection")
			if len(g1) != s.SharedKeySize() {
				viol(s, "implicit-rejection-size", "len", len(g1))
			}
			// depends on the ciphertext
			if prevRej != nil && lib.Eq(prevRej, g1) && !lib.Eq(prevCt, a.ct) {
				viol(s, "implicit-rejection-independent-of-ct", "ct1", prevCt, "ct2", a.ct)
			}
			prevRej, prevCt = g1, a.ct
			// depends on z
			if skz != nil {
				gz, ez, pz := decaps(s, skz, a.ct, a.class+"/z")
				if pz != nil || ez != nil {
					viol(s, "implicit-rejection-z-key-failed", "err", ez)
				} else if lib.Eq(gz, g1) {
					viol(s, "implicit-rejection-independent-of-z", "ct", a.ct)
				}
				lib.Count("z-dependence-checked")
			}
		}
	}
}

// shareSubstitutions: the honest ciphertext with every candidate position of
// a Diffie-Hellman share (32 / 56 bytes at either end, behind an ML-KEM-768
// ciphertext, ...) replaced by a value the DH function refuses or maps to zero
// (0, 1, p-1, p, p+1, all-ones): the component then reports an error, which
// the combiner has to pass on (or, X-Wing, hash into another secret).
func shareSubstitutions(ct []byte) []alteration {
	n := len(ct)
	var out []alteration
	le := func(v *big.Int, l int) []byte {
		b := v.FillBytes(make([]byte, l))
		for i, j := 0, l-1; i < j; i, j = i+1, j-1 {
			b[i], b[j] = b[j], b[i]
		}
		return b
	}
	p25 := new(big.Int).Sub(new(big.Int).Lsh(big.NewInt(1), 255), big.NewInt(19))
	p448 := new(big.Int).Sub(new(big.Int).Sub(new(big.Int).Lsh(big.NewInt(1), 448), new(big.Int).Lsh(big.NewInt(1), 224)), big.NewInt(1))
	seen := map[[2]int]bool{}
	for _, off := range []int{0, n - 32, n - 56, 1088, 32, 56} {
		for _, l := range []int{32, 56} {
			if off < 0 || off+l > n || seen[[2]int{off, l}] {
				continue
			}
			seen[[2]int{off, l}] = true
			p := p25
			if l == 56 {
				p = p448
			}
			ones := make([]byte, l)
			for i := range ones {
				ones[i] = 0xFF
			}
			vals := [][]byte{make([]byte, l), le(big.NewInt(1), l), le(new(big.Int).Sub(p, big.NewInt(1)), l), le(p, l), le(new(big.Int).Add(p, big.NewInt(1)), l), ones}
			for _, v := range vals {
				c := lib.Clone(ct)
				copy(c[off:], v)
				out = append(out, alteration{"share-substituted", c, nil})
			}
		}
	}
	return out
}

// negatedPoints: wherever the ciphertext holds an uncompressed point of
// P-256 / P-384 / P-521 (0x04 || x || y on the curve), the same ciphertext
// with y replaced by p - y: a valid point with the same Diffie-Hellman value,
// told apart only by what the KEM hashes next to it.
func negatedPoints(ct []byte) []alteration {
	var out []alteration
	for _, c := range []elliptic.Curve{elliptic.P256(), elliptic.P384(), elliptic.P521()} {
		l := (c.Params().BitSize + 7) / 8
		for off := 0; off+1+2*l <= len(ct); off++ {
			if ct[off] != 4 {
				continue
			}
			x := new(big.Int).SetBytes(ct[off+1 : off+1+l])
			y := new(big.Int).SetBytes(ct[off+1+l : off+1+2*l])
			if x.Cmp(c.Params().P) >= 0 || y.Cmp(c.Params().P) >= 0 || y.Sign() == 0 || !c.IsOnCurve(x, y) {
				continue
			}
			ny := new(big.Int).Sub(c.Params().P, y)
			a := lib.Clone(ct)
			ny.FillBytes(a[off+1+l : off+1+2*l])
			out = append(out, alteration{"negated-point", a, nil})
		}
	}
	return out
}

// boundaryBits lists first/last bits and, for ciphertexts with a DH share,
// bit 255 / the top byte of every 32-byte-aligned candidate share position at
// either end.
func boundaryBits(name string, n int) []int {
	set := map[int]bool{0: true, 8*n - 1: true, 7: true, 8*n - 8: true}
	for _, off := range []int{0, n - 32, n - 56, 1088, 32, 56} {
		if off < 0 || off >= n {
			continue
		}
		for _, l := range []int{32, 56} {
			if off+l <= n {
				set[(off+l-1)*8+7] = true // top bit of the share
				set[(off+l-1)*8] = true   // low bit of top byte
				set[off*8] = true
			}
		}
	}
	var out []int
	for i := range set {
		if i >= 0 && i < 8*n {
			out = append(out, i)
		}
	}
	// deterministic order
	for i := 1; i < len(out); i++ {
		for j := i; j > 0 && out[j] < out[j-1]; j-- {
			out[j], out[j-1] = out[j-1], out[j]
		}
	}
	return out
}

// ---- package-level entry points that bypass kem.Scheme

func TestVerifDirectAPIs(t *testing.T) {
	lib.Mandatory("direct:mlkem", "direct:xwing")
	n := lib.Scale(40, 1000)
	lib.Par(n, func(i int) {
		r := lib.NewRng("c01/direct", i)
		// mlkem512/768/1024 *To API against the scheme API
		{
			seed := r.Bytes(mlkem768.KeySeedSize)
			es := r.Bytes(mlkem768.EncapsulationSeedSize)
			pk, sk := mlkem768.NewKeyFromSeed(seed)
			ct := make([]byte, mlkem768.CiphertextSize)
			ss := make([]byte, mlkem768.SharedKeySize)
			pk.EncapsulateTo(ct, ss, es)
			s := mlkem768.Scheme()
			pk2, sk2 := s.DeriveKeyPair(seed)
			ct2, ss2, _ := s.EncapsulateDeterministically(pk2, es)
			ss3 := make([]byte, mlkem768.SharedKeySize)
			sk.DecapsulateTo(ss3, ct)
			ss4, _ := s.Decapsulate(sk2, ct)
			lib.Case([]byte("mlkem768.To"), seed, es)
			if !lib.Eq(ct, ct2) || !lib.Eq(ss, ss2) || !lib.Eq(ss, ss3) || !lib.Eq(ss, ss4) {
				lib.Violation("C01:direct-api-mismatch:ML-KEM-768", "TestVerifDirectAPIs", lib.D("seed", seed, "eseed", es))
			}
			// in place overlap of ct tamper
			bad := lib.FlipBit(ct, r.Intn(8*len(ct)))
			sk.DecapsulateTo(ss3, bad)
			if lib.Eq(ss3, ss) {
				lib.Violation("C01:honest-secret-on-altered-ct:ML-KEM-768", "TestVerifDirectAPIs", lib.D("ct", bad))
			}
		}
		{
			seed := r.Bytes(mlkem512.KeySeedSize)
			es := r.Bytes(mlkem512.EncapsulationSeedSize)
			pk, sk := mlkem512.NewKeyFromSeed(seed)
			ct := make([]byte, mlkem512.CiphertextSize)
			ss := make([]byte, mlkem512.SharedKeySize)
			pk.EncapsulateTo(ct, ss, es)
			ss3 := make([]byte, mlkem512.SharedKeySize)
			sk.DecapsulateTo(ss3, ct)
			s := mlkem512.Scheme()
			pk2, _ := s.DeriveKeyPair(seed)
			ct2, ss2, _ := s.EncapsulateDeterministically(pk2, es)
			lib.Case([]byte("mlkem512.To"), seed, es)
			if !lib.Eq(ct, ct2) || !lib.Eq(ss, ss2) || !lib.Eq(ss, ss3) {
				lib.Violation("C01:direct-api-mismatch:ML-KEM-512", "TestVerifDirectAPIs", lib.D("seed", seed, "eseed", es))
			}
		}
		{
			seed := r.Bytes(mlkem1024.KeySeedSize)
			es := r.Bytes(mlkem1024.EncapsulationSeedSize)
			pk, sk := mlkem1024.NewKeyFromSeed(seed)
			ct := make([]byte, mlkem1024.CiphertextSize)
			ss := make([]byte, mlkem1024.SharedKeySize)
			pk.EncapsulateTo(ct, ss, es)
			ss3 := make([]byte, mlkem1024.SharedKeySize)
			sk.DecapsulateTo(ss3, ct)
			s := mlkem1024.Scheme()
			pk2, _ := s.DeriveKeyPair(seed)
			ct2, ss2, _ := s.EncapsulateDeterministically(pk2, es)
			lib.Case([]byte("mlkem1024.To"), seed, es)
			if !lib.Eq(ct, ct2) || !lib.Eq(ss, ss2) || !lib.Eq(ss, ss3) {
				lib.Violation("C01:direct-api-mismatch:ML-KEM-1024", "TestVerifDirectAPIs", lib.D("seed", seed, "eseed", es))
			}
		}
		lib.Count("direct:mlkem")
		// xwing package API
		{
			seed := r.Bytes(xwing.SeedSize)
			es := r.Bytes(xwing.EncapsulationSeedSize)
			sk, pk := xwing.DeriveKeyPairPacked(seed)
			ss, ct, err := xwing.Encapsulate(pk, es)
			if err != nil {
				lib.Violation("C01:encaps-error:X-Wing", "TestVerifDirectAPIs", lib.D("seed", seed, "err", err))
				return
			}
			got := xwing.Decapsulate(ct, sk)
			s := xwing.Scheme()
			pk2, sk2 := s.DeriveKeyPair(seed)
			ct2, ss2, _ := s.EncapsulateDeterministically(pk2, es)
			got2, _ := s.Decapsulate(sk2, ct)
			lib.Case([]byte("xwing"), seed, es)
			if !lib.Eq(got, ss) || !lib.Eq(ct, ct2) || !lib.Eq(ss, ss2) || !lib.Eq(got2, ss) {
				lib.Violation("C01:direct-api-mismatch:X-Wing", "TestVerifDirectAPIs", lib.D("seed", seed, "eseed", es))
			}
			// bit 255 of ct_X is hashed by the combiner: must change the secret
			bad := lib.FlipBit(ct, (len(ct)-1)*8+7)
			if g := xwing.Decapsulate(bad, sk); lib.Eq(g, ss) {
				lib.Violation("C01:honest-secret-on-altered-ct:X-Wing", "TestVerifDirectAPIs", lib.D("ct", bad, "what", "bit 255 of ct_X"))
			}
			lib.Count("direct:xwing")
		}
	})
}
