//go:build verif

package c11

import (
	"crypto"
	"crypto/elliptic"
	"fmt"
	"math/big"
	"testing"

	"github.com/cloudflare/circl/ecc/p384"
	"github.com/cloudflare/circl/expander"
	"github.com/cloudflare/circl/group"
	"github.com/cloudflare/circl/internal/conv"
	"github.com/cloudflare/circl/internal/zzverif/lib"
	cmath "github.com/cloudflare/circl/math"
	"github.com/cloudflare/circl/zk/qndleq"
)

// bigSnap remembers a *big.Int operand: value and the words of its backing
// array (an operand must not even be re-normalised or grown in place).
type bigSnap struct {
	p    *big.Int
	val  *big.Int
	bits []big.Word
}

func snap(xs ...*big.Int) []bigSnap {
	out := make([]bigSnap, len(xs))
	for i, x := range xs {
		out[i] = bigSnap{x, new(big.Int).Set(x), append([]big.Word(nil), x.Bits()...)}
	}
	return out
}

func changed(ss []bigSnap) int {
	for i, s := range ss {
		if s.p.Cmp(s.val) != 0 {
			return i
		}
		b := s.p.Bits()
		if len(b) != len(s.bits) {
			return i
		}
		for j := range b {
			if b[j] != s.bits[j] {
				return i
			}
		}
	}
	return -1
}

// TestVerifBigIntArgs: calls that take *big.Int operands (Scalar.SetBigInt,
// the elliptic.Curve methods of p384, HashToField's modulus, the qndleq
// statement, the recoding helpers, the conv helpers) leave them as they were,
// whatever their value - negative, above the modulus, far longer than the
// field - and give the result of the same call on private copies.
func TestVerifBigIntArgs(t *testing.T) {
	const mon = "TestVerifBigIntArgs"
	lib.Mandatory("bigargs:calls", "bigargs:out-of-range-operand")
	check := func(name string, ss []bigSnap, kv ...any) {
		lib.Count("bigargs:calls")
		if i := changed(ss); i >= 0 {
			d := lib.D(kv...)
			d["operand"] = i
			d["before"] = ss[i].val.Text(16)
			d["after"] = ss[i].p.Text(16)
			lib.Violation("C11:argument-modified:"+name, mon, d)
		}
	}
	n := lib.Scale(8, 200)
	for i := 0; i < n; i++ {
		r := lib.NewRng("c11/bigargs", i)
		// ---- group scalars
		for _, g := range []group.Group{group.P256, group.P384, group.P521, group.Ristretto255} {
			gname := fmt.Sprint(g)
			ord := new(big.Int).SetBytes(mustOrder(g))
			vals := []*big.Int{
				big.NewInt(int64(-1 - r.Intn(1000))),
				new(big.Int).Neg(new(big.Int).SetBytes(r.Bytes(80))),
				new(big.Int).Set(ord),
				new(big.Int).Add(ord, big.NewInt(int64(r.Intn(5)))),
				new(big.Int).Sub(ord, big.NewInt(1)),
				new(big.Int).SetBytes(r.Bytes(75)), // 600 bits
				new(big.Int).SetBytes(r.Bytes(20)),
				new(big.Int),
			}
			var prev []byte
			for vi, x := range vals {
				if x.Sign() < 0 || x.Cmp(ord) >= 0 {
					lib.Count("bigargs:out-of-range-operand")
				}
				lib.CaseS("bigargs", gname, x.Text(16))
				ss := snap(x)
				var out []byte
				if pn := lib.Try("group.Scalar.SetBigInt:"+gname, x.Bytes(), func() {
					out, _ = g.NewScalar().SetBigInt(x).MarshalBinary()
				}); pn != nil {
					continue
				}
				check("group.Scalar.SetBigInt:"+gname, ss, "group", gname, "value_class", vi)
				// same value, private copy, other group called in between
				_, _ = group.P521.NewScalar().SetBigInt(new(big.Int).Set(ss[0].val)).MarshalBinary()
				out2, _ := g.NewScalar().SetBigInt(new(big.Int).Set(ss[0].val)).MarshalBinary()
				if !lib.Eq(out, out2) {
					lib.Violation("C11:result-depends-on-history:group.Scalar.SetBigInt:"+gname, mon, lib.D("x", ss[0].val.Text(16), "first", out, "again", out2))
				}
				// and it is the reduction of x
				want := new(big.Int).Mod(ss[0].val, ord)
				if got := scalarToBig(g, out); got.Cmp(want) != 0 {
					lib.Violation("C11:wrong-value:group.Scalar.SetBigInt:"+gname, mon, lib.D("x", ss[0].val.Text(16), "got", got.Text(16), "want", want.Text(16)))
				}
				prev = out
			}
			_ = prev
		}
		// ---- p384 as elliptic.Curve
		{
			c := p384.P384()
			std := elliptic.P384()
			k1, k2 := r.Bytes(48), r.Bytes(48)
			x1, y1 := std.ScalarBaseMult(k1)
			x2, y2 := std.ScalarBaseMult(k2)
			if i%3 == 0 {
				x2, y2 = new(big.Int).Set(x1), new(big.Int).Set(y1)
			}
			ss := snap(x1, y1, x2, y2)
			c.Add(x1, y1, x2, y2)
			check("p384.Add", ss)
			c.Double(x1, y1)
			check("p384.Double", ss)
			c.ScalarMult(x1, y1, k2)
			check("p384.ScalarMult", ss)
			c.IsOnCurve(x1, y1)
			c.IsOnCurve(new(big.Int).Add(x2, std.Params().P), y2)
			check("p384.IsOnCurve", ss)
			c.CombinedMult(x2, y2, k1, k2)
			check("p384.CombinedMult", ss)
			// operands outside [0,p) and the point at infinity
			zx, zy := new(big.Int), new(big.Int)
			bx := new(big.Int).Add(x1, std.Params().P)
			nx := new(big.Int).Neg(x1)
			ss = snap(zx, zy, bx, nx, y1)
			lib.Try("p384:odd-operands", nil, func() {
				c.Add(zx, zy, x2, y2)
				c.Add(x2, y2, zx, zy)
				c.Double(zx, zy)
				c.IsOnCurve(bx, y1)
				c.IsOnCurve(nx, y1)
				c.ScalarMult(zx, zy, k1)
			})
			check("p384:operands-outside-the-field", ss)
		}
		// ---- HashToField modulus
		{
			p := new(big.Int).SetBytes(r.Bytes(32))
			p.SetBit(p, 0, 1)
			ss := snap(p)
			u := make([]big.Int, 2)
			lib.Try("group.HashToField", nil, func() {
				group.HashToField(u, r.Bytes(10), expander.NewExpanderMD(crypto.SHA256, []byte("dst")), p, 48)
			})
			check("group.HashToField", ss)
		}
		// ---- recoding / conv helpers
		{
			nn := new(big.Int).SetBytes(r.Bytes(1 + r.Intn(40)))
			if i%2 == 0 {
				nn.SetBit(nn, 0, 1)
			}
			ss := snap(nn)
			lib.Try("math.OmegaNAF", nil, func() { cmath.OmegaNAF(nn, 2+uint(r.Intn(5))) })
			check("math.OmegaNAF", ss)
			if nn.Bit(0) == 1 {
				lib.Try("math.SignedDigit", nil, func() { cmath.SignedDigit(nn, 3+uint(r.Intn(4)), uint(nn.BitLen()+1)) })
				check("math.SignedDigit", ss)
			}
			z := make([]byte, 48)
			z8 := make([]uint64, 6)
			lib.Try("conv", nil, func() {
				conv.BigInt2BytesLe(z, nn)
				conv.BigInt2Uint64Le(z8, nn)
			})
			check("conv.BigInt2BytesLe/BigInt2Uint64Le", ss)
			neg := new(big.Int).Neg(nn)
			ss = snap(neg)
			lib.Try("conv:negative", nil, func() {
				conv.BigInt2BytesLe(z, neg)
				conv.BigInt2Uint64Le(z8, neg)
			})
			check("conv.BigInt2BytesLe/BigInt2Uint64Le", ss)
		}
		// ---- qndleq statement
		if i < lib.Scale(3, 30) {
			N := qnModulus()
			g, _ := qndleq.SampleQn(r, N)
			h, _ := qndleq.SampleQn(r, N)
			x := new(big.Int).SetBytes(r.Bytes(16))
			gx := new(big.Int).Exp(g, x, N)
			hx := new(big.Int).Exp(h, x, N)
			ss := snap(x, g, gx, h, hx, N)
			var pf *qndleq.Proof
			var err error
			lib.Try("qndleq.Prove", nil, func() { pf, err = qndleq.Prove(r, x, g, gx, h, hx, N, 128) })
			check("qndleq.Prove", ss)
			if err == nil && pf != nil {
				ok := false
				lib.Try("qndleq.Verify", nil, func() { ok = pf.Verify(g, gx, h, hx, N) })
				check("qndleq.Proof.Verify", ss)
				ok2 := pf.Verify(new(big.Int).Set(g), new(big.Int).Set(gx), new(big.Int).Set(h), new(big.Int).Set(hx), new(big.Int).Set(N))
				if ok != ok2 {
					lib.Violation("C11:result-depends-on-history:qndleq.Proof.Verify", mon, lib.D("first", ok, "again", ok2))
				}
			}
		}
	}
}

func mustOrder(g group.Group) []byte {
	switch g {
	case group.P256:
		return elliptic.P256().Params().N.Bytes()
	case group.P384:
		return elliptic.P384().Params().N.Bytes()
	case group.P521:
		return elliptic.P521().Params().N.Bytes()
	}
	l, _ := new(big.Int).SetString("7237005577332262213973186563042994240857116359379907606001950938285454250989", 10)
	return l.Bytes()
}

func scalarToBig(g group.Group, enc []byte) *big.Int {
	if g == group.Ristretto255 {
		b := lib.Clone(enc)
		for i, j := 0, len(b)-1; i < j; i, j = i+1, j-1 {
			b[i], b[j] = b[j], b[i]
		}
		return new(big.Int).SetBytes(b)
	}
	return new(big.Int).SetBytes(enc)
}

// a fixed product of two safe primes (1024 bit) for the qndleq statement
func qnModulus() *big.Int {
	p, _ := new(big.Int).SetString("f2c2ae3b34a40ca0d5cf8de8b0bd2e0b4b9a0a1b5e5d1f1c2e7ad7c6d6b0d0ad1ad0b1f1c1b0a0d0c0b0a09080706050403020100ffeeddccbbaa99887766557", 16)
	// not necessarily a safe-prime product: the checks here are about operands, not soundness
	q, _ := new(big.Int).SetString("e3b0c44298fc1c149afbf4c8996fb92427ae41e4649b934ca495991b7852b855a3b0c44298fc1c149afbf4c8996fb92427ae41e4649b934ca495991b7852b8d", 16)
	p.SetBit(p, 0, 1)
	q.SetBit(q, 0, 1)
	return new(big.Int).Mul(p, q)
}
