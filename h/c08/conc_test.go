//go:build verif

package c08

import (
	"fmt"
	"sync"
	"sync/atomic"
	"testing"

	"github.com/cloudflare/circl/hpke"
	"github.com/cloudflare/circl/internal/zzverif/lib"
)

// TestVerifConcurrentContexts: contexts are independent objects.  Eight
// sender / receiver pairs are set up through Setup (not restored from a
// serialisation), each pair is owned by ONE goroutine, and all goroutines run
// their histories at the same time.  Every context must behave exactly as it
// does alone: the i-th ciphertext of a sealer equals the i-th ciphertext of a
// copy of that sealer restored from its initial serialisation and run
// sequentially afterwards, and its own opener opens it as the i-th open.
// (Nothing is shared between the goroutines, so this is not a thread-safety
// demand on a context; it also runs under the race detector.)
func TestVerifConcurrentContexts(t *testing.T) {
	const mon = "TestVerifConcurrentContexts"
	const G = 8
	lib.Mandatory("concurrent-contexts:seals", "concurrent-contexts:rounds")
	kems := []hpke.KEM{hpke.KEM_X25519_HKDF_SHA256, hpke.KEM_P256_HKDF_SHA256}
	aeads := []hpke.AEAD{hpke.AEAD_AES128GCM, hpke.AEAD_AES256GCM, hpke.AEAD_ChaCha20Poly1305}
	rounds := lib.Scale(3, 20)
	msgs := lib.Scale(150, 600)
	var reported int32
	for round := 0; round < rounds; round++ {
		type pair struct {
			sealer hpke.Sealer
			opener hpke.Opener
			snap   []byte
			cts    [][]byte
			bad    string
		}
		ps := make([]*pair, G)
		for g := 0; g < G; g++ {
			r := lib.NewRng("c08/conc/setup", round*G+g)
			suite := hpke.NewSuite(kems[(round+g)%len(kems)], hpke.KDF_HKDF_SHA256, aeads[g%len(aeads)])
			k := kems[(round+g)%len(kems)]
			pk, sk := k.Scheme().DeriveKeyPair(r.Bytes(k.Scheme().SeedSize()))
			info := r.Bytes(8)
			snd, err := suite.NewSender(pk, info)
			if err != nil {
				t.Fatal(err)
			}
			enc, sealer, err := snd.Setup(r)
			if err != nil {
				t.Fatal(err)
			}
			rcv, err := suite.NewReceiver(sk, info)
			if err != nil {
				t.Fatal(err)
			}
			opener, err := rcv.Setup(enc)
			if err != nil {
				t.Fatal(err)
			}
			snap, err := sealer.MarshalBinary()
			if err != nil {
				t.Fatal(err)
			}
			ps[g] = &pair{sealer: sealer, opener: opener, snap: snap}
		}
		payload := func(g, i int) (pt, aad []byte) {
			r := lib.NewRng("c08/conc/msg", (round*G+g)*10000+i)
			return r.Bytes(1 + r.Intn(64)), r.Bytes(r.Intn(16))
		}
		var wg sync.WaitGroup
		start := make(chan struct{})
		for g := 0; g < G; g++ {
			wg.Add(1)
			go func(g int) {
				defer wg.Done()
				p := ps[g]
				<-start
				for i := 0; i < msgs; i++ {
					pt, aad := payload(g, i)
					var ct, got []byte
					var err, oerr error
					if pn := lib.Try("concurrent-contexts:seal/open", nil, func() {
						ct, err = p.sealer.Seal(pt, aad)
						if err == nil {
							got, oerr = p.opener.Open(ct, aad)
						}
					}); pn != nil {
						p.bad = "panic: " + pn.Value
						return
					}
					if err != nil || oerr != nil || !lib.Eq(got, pt) {
						p.bad = fmt.Sprintf("message %d: seal error %v, open error %v, plaintext recovered %v", i, err, oerr, lib.Eq(got, pt))
						return
					}
					p.cts = append(p.cts, ct)
				}
			}(g)
		}
		close(start)
		wg.Wait()
		lib.Count("concurrent-contexts:rounds")
		lib.CaseS("concurrent-contexts", fmt.Sprint(round))
		for g, p := range ps {
			lib.CountN("concurrent-contexts:seals", len(p.cts))
			lib.CountN("evaluations", len(p.cts))
			if p.bad == "" {
				// sequential replay from the initial state
				alone, err := hpke.UnmarshalSealer(p.snap)
				if err != nil {
					p.bad = "initial serialisation refused: " + err.Error()
				} else {
					for i := range p.cts {
						pt, aad := payload(g, i)
						ct, err := alone.Seal(pt, aad)
						if err != nil || !lib.Eq(ct, p.cts[i]) {
							p.bad = fmt.Sprintf("ciphertext %d sealed while other contexts were in use differs from the one the same context seals alone", i)
							break
						}
					}
				}
			}
			if p.bad != "" && atomic.AddInt32(&reported, 1) == 1 {
				lib.Violation("C08:contexts-not-independent:concurrent-use-of-different-contexts", mon,
					lib.D("what", p.bad, "goroutines", G, "round", round, "context", g))
			}
		}
	}
}
