//go:build verif

// Package c14 is the transcript program of property C14 ("optimised and
// portable builds compute identical results").
//
// Every TestVerifTranscript<Area> runs, from the seed, a FIXED sequence of
// operations.  Operation number idx of an area is a pure function of
// (VERIF_SEED, area, op name, k) - it carries no state over from any other
// operation - so the sequence can be evaluated on 16 workers and the lines are
// written afterwards in index order:
//
//	<idx> <op-name> <hex sha256 of all outputs>
//
// to $VERIF_OUT/$VERIF_JOB.transcript.  Nothing is judged here; cmd/vcheck
// ("offline": ["c14diff"]) diffs the transcripts of the configurations.
//
// Nothing configuration dependent may reach the transcript: no timings, no
// flags, no pointers, no panic texts (only the panic class).
//
// Replaying one line with its inputs and outputs in clear:
//
//	VERIF_C14_DUMP=<Area>:<idx> ./bin/vcheck C14 --cfg <cfg>
//
// evaluates only that line and prints every In/Out value of the operation
// into the child's log (/verif/build/C14/run/transcript.<cfg>.b<n>.r0.log);
// no transcript is written in this mode (the run ends INCONCLUSIVE because the
// mandatory counters stay zero - it is a replay, not a check).
package c14

import (
	"crypto/sha256"
	"encoding/binary"
	"encoding/hex"
	"fmt"
	"hash"
	"math/big"
	"os"
	"path/filepath"
	"runtime/debug"
	"strconv"
	"strings"
	"testing"

	"github.com/cloudflare/circl/internal/zzverif/lib"
	"github.com/cloudflare/circl/simd/keccakf1600"
	"golang.org/x/sys/cpu"
)

func TestMain(m *testing.M) { lib.Main(m) }

// rec collects what one operation consumed and produced.
type rec struct {
	h    hash.Hash
	ins  [][]byte
	dump *strings.Builder
}

func newRec(dump bool) *rec {
	o := &rec{h: sha256.New()}
	if dump {
		o.dump = &strings.Builder{}
	}
	return o
}

// In records an input (distinct-case accounting and dumps only).
func (o *rec) In(name string, b []byte) {
	o.ins = append(o.ins, lib.Clone(b))
	if o.dump != nil {
		fmt.Fprintf(o.dump, "  in  %-12s %s\n", name, hex.EncodeToString(b))
	}
}

// Out appends an output to the digest of the line.
func (o *rec) Out(name string, b []byte) {
	var l [8]byte
	binary.LittleEndian.PutUint64(l[:], uint64(len(b)))
	o.h.Write([]byte(name))
	o.h.Write([]byte{0})
	o.h.Write(l[:])
	o.h.Write(b)
	if o.dump != nil {
		fmt.Fprintf(o.dump, "  out %-12s %s\n", name, hex.EncodeToString(b))
	}
}

func (o *rec) OutBool(name string, v bool) {
	if v {
		o.Out(name, []byte{1})
	} else {
		o.Out(name, []byte{0})
	}
}

func (o *rec) OutInt(name string, v int) { o.Out(name, []byte(strconv.Itoa(v))) }

func (o *rec) OutErr(name string, err error) { o.OutBool(name, err != nil) }

func (o *rec) OutU64s(name string, v []uint64) {
	b := make([]byte, 8*len(v))
	for i, x := range v {
		binary.LittleEndian.PutUint64(b[8*i:], x)
	}
	o.Out(name, b)
}

// kind is one operation type of an area: it is executed q times in the quick
// tier and t times in the thorough tier, with k = 0..n-1.
type kind struct {
	name string
	q, t int
	f    func(r *lib.Rng, k int, o *rec)
}

type sched struct {
	kd *kind
	k  int
}

func recordFlags() {
	lib.Flag("cpu.X86.HasAVX2", cpu.X86.HasAVX2)
	lib.Flag("cpu.X86.HasBMI2", cpu.X86.HasBMI2)
	lib.Flag("cpu.X86.HasADX", cpu.X86.HasADX)
	lib.Flag("cpu.X86.HasAVX", cpu.X86.HasAVX)
	lib.Flag("cpu.X86.HasSSE41", cpu.X86.HasSSE41)
	lib.Flag("keccakf1600.IsEnabledX4", keccakf1600.IsEnabledX4())
	lib.Flag("keccakf1600.IsEnabledX2", keccakf1600.IsEnabledX2())
	lib.Flag("purego-build", buildPurego)
}

// runArea evaluates the fixed schedule of one area and writes its transcript.
func runArea(t *testing.T, area string, kinds []kind) {
	recordFlags()
	var list []sched
	for i := range kinds {
		kd := &kinds[i]
		n := lib.Scale(kd.q, kd.t)
		for k := 0; k < n; k++ {
			list = append(list, sched{kd, k})
		}
	}
	dumpIdx := -1
	if v := os.Getenv("VERIF_C14_DUMP"); v != "" {
		if p := strings.SplitN(v, ":", 2); len(p) == 2 && strings.EqualFold(p[0], area) {
			dumpIdx, _ = strconv.Atoi(p[1])
		}
	}
	lines := make([]string, len(list))
	lib.Mandatory("c14/" + area + "/ops")
	lib.Par(len(list), func(idx int) {
		if dumpIdx >= 0 && idx != dumpIdx {
			return // replay mode: only the requested line
		}
		debug.SetPanicOnFault(true)
		s := list[idx]
		name := s.kd.name
		o := newRec(idx == dumpIdx)
		r := lib.NewRng("c14/"+area+"/"+name, s.k)
		p := lib.Try("c14."+area+"."+name, []byte(fmt.Sprintf("%s idx=%d k=%d", name, idx, s.k)), func() { s.kd.f(r, s.k, o) })
		if p != nil {
			// only the class: panic texts hold addresses
			o.Out("panic", []byte(p.Class()))
			lib.Count("c14/" + area + "/panic:" + name)
			lib.Note("panic in %s idx=%d cfg=%s: %s at %s", name, idx, lib.Cfg(), p.Value, p.TopFrame())
		}
		lines[idx] = fmt.Sprintf("%d %s %x", idx, name, o.h.Sum(nil))
		parts := append([][]byte{[]byte(area), []byte(name)}, o.ins...)
		if len(o.ins) == 0 {
			parts = append(parts, []byte(strconv.Itoa(s.k)))
		}
		lib.Case(parts...)
		lib.Count("c14/" + area + "/ops")
		lib.Count("c14/" + area + "/op:" + name)
		if s.k < 1 {
			lib.Sample("TestVerifTranscript"+area, map[string]any{"line": lines[idx]})
		}
		if o.dump != nil {
			fmt.Printf("C14-DUMP area=%s cfg=%s %s\n%s", area, lib.Cfg(), lines[idx], o.dump.String())
		}
	})
	out, job := os.Getenv("VERIF_OUT"), os.Getenv("VERIF_JOB")
	if dumpIdx >= 0 {
		t.Logf("replay mode (VERIF_C14_DUMP): no transcript written")
		return
	}
	if out == "" || job == "" {
		t.Logf("VERIF_OUT/VERIF_JOB not set: transcript of %d lines not written", len(lines))
		return
	}
	path := filepath.Join(out, job+".transcript")
	if err := os.WriteFile(path, []byte(strings.Join(lines, "\n")+"\n"), 0o644); err != nil {
		t.Fatalf("cannot write transcript: %v", err)
	}
}

// ---- small helpers shared by the areas

// edgeLen picks a length around the interesting sizes.
func edgeLen(r *lib.Rng, sizes ...int) int {
	n := sizes[r.Intn(len(sizes))] + r.Intn(5) - 2
	if n < 0 {
		n = 0
	}
	return n
}

// repLimbBytes returns n bytes whose little-endian 64-bit limbs are drawn
// (with repetition) from a pool of three values - two edge limbs and a random
// one - so that limbs of one operand, and of two operands drawn with the same
// pool, are frequently EQUAL: differences of limbs that cancel to exactly zero
// with a pending borrow are the case lib.EdgeBytes (independent limbs) almost
// never produces.  top masks the most significant byte (0xff = keep).
func repLimbBytes(r *lib.Rng, n int, c uint64, top byte) []byte {
	pool := [3]uint64{r.EdgeLimb(c), r.EdgeLimb(c), r.U64()}
	if r.Intn(4) == 0 {
		pool[1] = pool[0] + uint64(r.Intn(3)) - 1
	}
	b := make([]byte, n)
	for i := 0; i < n; i += 8 {
		v := pool[r.Intn(3)]
		for j := 0; j < 8 && i+j < n; j++ {
			b[i+j] = byte(v >> (8 * j))
		}
	}
	if n > 0 {
		b[n-1] &= top
	}
	return b
}

// fourqCoord draws one GF(2^127-1) coordinate (16 bytes, little endian) at or
// next to the boundaries of the field: 0..3, p-1..p-4, 2^126 +-1, 2^64 +-1,
// (p-1)/2 +-1, or limb-edge / repeated-limb / random values below 2^127.
func fourqCoord(r *lib.Rng) []byte {
	b := make([]byte, 16)
	put := func(lo, hi uint64) {
		for j := 0; j < 8; j++ {
			b[j] = byte(lo >> (8 * j))
			b[8+j] = byte(hi >> (8 * j))
		}
	}
	d := uint64(r.Intn(4))
	switch r.Intn(10) {
	case 0:
		put(d, 0)
	case 1, 2: // p-1-d
		put(^uint64(0)-1-d, 1<<63-1)
	case 3:
		put(d, 1<<62)
	case 4:
		put(^uint64(0)-d, 1<<62-1)
	case 5:
		put(^uint64(0)-d, 0)
	case 6:
		put(d, 1)
	case 7: // (p-1)/2 +- d
		put(^uint64(0)-d, 1<<62-1+uint64(r.Intn(2))<<62)
	case 8:
		copy(b, repLimbBytes(r, 16, 1, 0x7f))
	default:
		copy(b, r.EdgeBytes(16, 1))
		b[15] &= 0x7f
	}
	return b
}

// fourqCoordPair draws two coordinates below 2^127 whose sum (as integers)
// is at a carry boundary of the two-word addition with end-around carry:
// 2^127 + 2^64 - 1 - d (bit 127 set over an all-ones low word), 2^127 - 1 +- d,
// 2^128 - 2 - d, 2^64 - 1 +- d, 2^127 + d; or two independent fourqCoord values.
func fourqCoordPair(r *lib.Rng) (a, b []byte) {
	if r.Intn(4) == 0 {
		return fourqCoord(r), fourqCoord(r)
	}
	one := big.NewInt(1)
	p2 := func(n uint) *big.Int { return new(big.Int).Lsh(one, n) }
	d := big.NewInt(int64(r.Intn(3)))
	var t *big.Int
	switch r.Intn(6) {
	case 0:
		t = new(big.Int).Add(p2(127), p2(64))
		t.Sub(t, one).Sub(t, d)
	case 1:
		t = new(big.Int).Sub(p2(127), one)
		t.Add(t, d)
	case 2:
		t = new(big.Int).Sub(p2(127), one)
		t.Sub(t, d)
	case 3:
		t = new(big.Int).Sub(p2(128), big.NewInt(2))
		t.Sub(t, d)
	case 4:
		t = new(big.Int).Sub(p2(64), one)
		t.Add(t, d)
	default:
		t = new(big.Int).Add(p2(127), d)
	}
	lim := new(big.Int).Sub(p2(127), one) // coordinates are at most 2^127 - 1
	var x *big.Int
	switch r.Intn(4) {
	case 0:
		x = p2(126)
	case 1:
		x = new(big.Int).Add(p2(126), new(big.Int).Sub(p2(64), one))
	default:
		x = new(big.Int).SetBytes(r.Bytes(16))
		x.Rsh(x, 1)
	}
	y := new(big.Int).Sub(t, x)
	if y.Sign() < 0 {
		x, y = new(big.Int).Set(t), new(big.Int)
	}
	if y.Cmp(lim) > 0 {
		y.Set(lim)
		x = new(big.Int).Sub(t, y)
	}
	if x.Cmp(lim) > 0 || x.Sign() < 0 {
		return fourqCoord(r), fourqCoord(r)
	}
	le := func(v *big.Int) []byte {
		be := v.FillBytes(make([]byte, 16))
		o := make([]byte, 16)
		for i := range be {
			o[15-i] = be[i]
		}
		return o
	}
	if r.Bool() {
		x, y = y, x
	}
	return le(x), le(y)
}

// fourqResidue: the little-endian 16-octet coordinate as its residue modulo
// 2^127-1, big endian.
func fourqResidue(le []byte) []byte {
	be := make([]byte, len(le))
	for i := range le {
		be[len(le)-1-i] = le[i]
	}
	p := new(big.Int).Sub(new(big.Int).Lsh(big.NewInt(1), 127), big.NewInt(1))
	v := new(big.Int).SetBytes(be)
	return v.Mod(v, p).FillBytes(make([]byte, 16))
}

// fourqEncoding is a 32-byte point encoding y0 || y1 (+ sign bit of x) whose
// coordinates come from fourqCoord.
func fourqEncoding(r *lib.Rng) []byte {
	b := append(fourqCoord(r), fourqCoord(r)...)
	if r.Intn(3) == 0 { // equal coordinates
		copy(b[16:], b[:16])
	}
	b[31] |= byte(r.Intn(2)) << 7
	return b
}

// unaligned returns a copy of b that starts at an odd address offset inside a
// larger allocation (exercises the unaligned xor paths).
func unaligned(b []byte, off int) []byte {
	buf := make([]byte, len(b)+16)
	copy(buf[off:], b)
	return buf[off : off+len(b) : off+len(b)]
}

// msgBytes is a message with structure: random, zero, ones or counter fill.
func msgBytes(r *lib.Rng, n int) []byte {
	b := make([]byte, n)
	switch r.Intn(6) {
	case 0:
	case 1:
		for i := range b {
			b[i] = 0xff
		}
	case 2:
		for i := range b {
			b[i] = byte(i)
		}
	default:
		r.Read(b)
	}
	return b
}
