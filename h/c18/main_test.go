//go:build verif

// C18 — blind RSA (RFC 9474) and partially blind RSA yield standard
// RSASSA-PSS signatures and verify like crypto/rsa.
package c18

import (
	"bytes"
	"crypto"
	"crypto/rsa"
	"crypto/sha256"
	_ "crypto/sha512"
	"crypto/x509"
	"encoding/hex"
	"encoding/json"
	"encoding/pem"
	"io"
	"math/big"
	"os"
	"strings"
	"sync"
	"testing"

	"github.com/cloudflare/circl/internal/zzverif/lib"
	"github.com/cloudflare/circl/internal/zzverif/ref/rsapss"
	"golang.org/x/crypto/hkdf"
)

func TestMain(m *testing.M) { lib.Main(m) }

// ---------------------------------------------------------------- keys

type rsaKey struct {
	name   string
	sk     *rsa.PrivateKey
	N      *big.Int
	p, q   *big.Int
	phi    *big.Int
	k      int // modulus length in octets
	emBits int
}

var (
	keyMu    sync.Mutex
	keyCache = map[string]*rsaKey{}
)

func loadKey(t testing.TB, name string) *rsaKey {
	keyMu.Lock()
	defer keyMu.Unlock()
	if k := keyCache[name]; k != nil {
		return k
	}
	b, err := os.ReadFile(lib.Root() + "/testdata/rsa/" + name + ".pem")
	if err != nil {
		t.Fatal(err)
	}
	blk, _ := pem.Decode(b)
	if blk == nil {
		t.Fatalf("%s: no PEM block", name)
	}
	sk, err := x509.ParsePKCS1PrivateKey(blk.Bytes)
	if err != nil {
		t.Fatal(err)
	}
	if err := sk.Validate(); err != nil {
		t.Fatal(err)
	}
	sk.Precompute()
	one := big.NewInt(1)
	k := &rsaKey{name: name, sk: sk, N: sk.N, p: sk.Primes[0], q: sk.Primes[1]}
	k.phi = new(big.Int).Mul(new(big.Int).Sub(k.p, one), new(big.Int).Sub(k.q, one))
	k.k = (k.N.BitLen() + 7) / 8
	k.emBits = k.N.BitLen() - 1
	keyCache[name] = k
	return k
}

var plainKeyNames = []string{"plain-1024", "plain-1025", "plain-1026", "plain-1027", "plain-1028", "plain-1029", "plain-1030", "plain-1031", "plain-1536", "plain-2041", "plain-2048", "plain-2048-e7", "plain-2048-e11", "plain-2048-e65539", "plain-3072", "plain-4096"}
var safeKeyNames = []string{"safe-1024", "safe-1025", "safe-1536", "safe-2048"}

// power computes c^d mod N with the CRT (workload generator: signing crafted
// encoded messages; d may be any private exponent for this modulus).
func (k *rsaKey) power(c, d *big.Int) *big.Int {
	one := big.NewInt(1)
	dp := new(big.Int).Mod(d, new(big.Int).Sub(k.p, one))
	dq := new(big.Int).Mod(d, new(big.Int).Sub(k.q, one))
	m1 := new(big.Int).Exp(c, dp, k.p)
	m2 := new(big.Int).Exp(c, dq, k.q)
	h := new(big.Int).Sub(m1, m2)
	h.Mul(h, new(big.Int).ModInverse(k.q, k.p))
	h.Mod(h, k.p)
	h.Mul(h, k.q)
	return h.Add(h, m2)
}

func (k *rsaKey) fill(x *big.Int) []byte { return x.FillBytes(make([]byte, k.k)) }

// concatReader serves head first and then the stream.
func concatReader(head []byte, tail io.Reader) io.Reader {
	return io.MultiReader(bytes.NewReader(head), tail)
}

func hashOf(h crypto.Hash, m []byte) []byte {
	d := h.New()
	d.Write(m)
	return d.Sum(nil)
}

// ---------------------------------------------------------------- self-check of the reference model

type rfc9474Vector struct {
	Name     string `json:"name"`
	N        string `json:"n"`
	E        string `json:"e"`
	D        string `json:"d"`
	InputMsg string `json:"input_msg"`
	Salt     string `json:"salt"`
	Inv      string `json:"inv"`
	Blinded  string `json:"blinded_msg"`
	BlindSig string `json:"blind_sig"`
	Sig      string `json:"sig"`
}

func hexInt(t *testing.T, s string) *big.Int {
	s = strings.TrimPrefix(s, "0x")
	if len(s)%2 == 1 {
		s = "0" + s
	}
	b, err := hex.DecodeString(s)
	if err != nil {
		t.Fatal(err)
	}
	return new(big.Int).SetBytes(b)
}

func TestVerifSelfCheckPSS(t *testing.T) {
	// ---- RFC 9474 appendix vectors (in the repo's testdata)
	raw, err := os.ReadFile("/repo/blindsign/blindrsa/testdata/test_vectors_rfc9474.json")
	if err != nil {
		raw, err = os.ReadFile(os.Getenv("VERIF_REPO") + "/blindsign/blindrsa/testdata/test_vectors_rfc9474.json")
	}
	if err != nil {
		t.Fatal(err)
	}
	var vs []rfc9474Vector
	if err := json.Unmarshal(raw, &vs); err != nil {
		t.Fatal(err)
	}
	if len(vs) != 4 {
		t.Fatalf("expected 4 RFC 9474 vectors, got %d", len(vs))
	}
	for _, v := range vs {
		N, e, d := hexInt(t, v.N), hexInt(t, v.E), hexInt(t, v.D)
		msg, _ := hex.DecodeString(v.InputMsg)
		salt, _ := hex.DecodeString(v.Salt)
		sig, _ := hex.DecodeString(v.Sig)
		mh := hashOf(crypto.SHA384, msg)
		em, err := rsapss.Encode(crypto.SHA384, mh, salt, N.BitLen()-1)
		if err != nil {
			t.Fatal(err)
		}
		if !bytes.Equal(rsapss.SignEM(N, d, em), sig) {
			t.Fatalf("%s: reference signature differs from the RFC 9474 vector", v.Name)
		}
		if !rsapss.Verify(crypto.SHA384, N, e, mh, sig, len(salt)) || !rsapss.Verify(crypto.SHA384, N, e, mh, sig, rsapss.SaltAuto) {
			t.Fatalf("%s: reference verifier rejects the RFC 9474 signature", v.Name)
		}
		if len(salt) > 0 && rsapss.Verify(crypto.SHA384, N, e, mh, sig, 0) {
			t.Fatalf("%s: reference verifier (sLen=0) accepts a salted signature", v.Name)
		}
		// blinded_msg = EM * r^e, blind_sig^e = blinded_msg, sig = blind_sig * inv
		inv := hexInt(t, v.Inv)
		r := new(big.Int).ModInverse(inv, N)
		bm := new(big.Int).Exp(r, e, N)
		bm.Mul(bm, new(big.Int).SetBytes(em)).Mod(bm, N)
		want, _ := hex.DecodeString(v.Blinded)
		if bm.Cmp(new(big.Int).SetBytes(want)) != 0 {
			t.Fatalf("%s: reference blinded message differs from the vector", v.Name)
		}
	}

	// ---- against crypto/rsa on the fixed keys
	for _, name := range plainKeyNames {
		k := loadKey(t, name)
		r := lib.NewRng("c18/selfcheck/"+name, 0)
		e := big.NewInt(int64(k.sk.E))
		for i := 0; i < 6; i++ {
			msg := r.Bytes(r.Intn(80))
			mh := hashOf(crypto.SHA384, msg)
			for _, sl := range []int{48, 1, 17, k.k - 48 - 2 - 1} {
				if (k.emBits+7)/8 < 48+sl+2 {
					continue
				}
				salt := r.Bytes(sl)
				std, err := rsa.SignPSS(bytes.NewReader(salt), k.sk, crypto.SHA384, mh, &rsa.PSSOptions{SaltLength: sl, Hash: crypto.SHA384})
				if err != nil {
					t.Fatal(err)
				}
				em, err := rsapss.Encode(crypto.SHA384, mh, salt, k.emBits)
				if err != nil {
					t.Fatal(err)
				}
				mine := k.fill(k.power(new(big.Int).SetBytes(em), k.sk.D))
				if !bytes.Equal(std, mine) || !bytes.Equal(mine, rsapss.SignEM(k.N, k.sk.D, em)) {
					t.Fatalf("%s: reference PSS signature differs from crypto/rsa.SignPSS (salt %d)", name, sl)
				}
				if !rsapss.Verify(crypto.SHA384, k.N, e, mh, std, sl) {
					t.Fatalf("%s: reference verifier rejects crypto/rsa signature", name)
				}
			}
			// verdict agreement on crafted signatures (same generator as the differential)
			for _, sl := range []int{48, 0} {
				for _, f := range craft(r, k, k.sk.D, crypto.SHA384, msg, sl, 1) {
					std := rsa.VerifyPSS(&k.sk.PublicKey, crypto.SHA384, hashOf(crypto.SHA384, f.msg), f.sig, &rsa.PSSOptions{SaltLength: sl, Hash: crypto.SHA384}) == nil
					refSL := sl
					if sl == 0 {
						refSL = rsapss.SaltAuto // crypto/rsa: SaltLength 0 is PSSSaltLengthAuto
					}
					mine := rsapss.Verify(crypto.SHA384, k.N, e, hashOf(crypto.SHA384, f.msg), f.sig, refSL)
					if std != mine {
						t.Fatalf("%s: reference verifier (%v) and crypto/rsa (%v) disagree on class %s sig=%x", name, mine, std, f.class, f.sig)
					}
				}
			}
		}
	}

	// ---- HKDF: RFC 5869 test case 1 and x/crypto/hkdf
	okm := rsapss.HKDF(crypto.SHA256, bytes.Repeat([]byte{0x0b}, 22), lib.MustHex("000102030405060708090a0b0c"), lib.MustHex("f0f1f2f3f4f5f6f7f8f9"), 42)
	if hex.EncodeToString(okm) != "3cb25f25faacd57a90434f64d0362f2a2d2d0a90cf1a5a4c5db02d56ecc4c5bf34007208d5b887185865" {
		t.Fatal("reference HKDF fails RFC 5869 test case 1")
	}
	r := lib.NewRng("c18/selfcheck/hkdf", 0)
	for i := 0; i < 50; i++ {
		ikm, salt, info := r.Bytes(r.Intn(300)), r.Bytes(r.Intn(300)), r.Bytes(r.Intn(40))
		n := 1 + r.Intn(400)
		want := make([]byte, n)
		if _, err := io.ReadFull(hkdf.New(sha256.New, ikm, salt, info), want); err != nil {
			t.Fatal(err)
		}
		if !bytes.Equal(want, rsapss.HKDF(crypto.SHA256, ikm, salt, info, n)) {
			t.Fatal("reference HKDF differs from x/crypto/hkdf")
		}
	}
	// the augmented exponent is odd, below 2^(lambda-2), and coprime to phi for the safe-prime keys
	for _, name := range safeKeyNames {
		k := loadKey(t, name)
		e := rsapss.AugmentedExponent(crypto.SHA384, k.N, []byte("metadata"))
		if e.Bit(0) != 1 || e.BitLen() > k.N.BitLen()/2-2 || new(big.Int).GCD(nil, nil, e, k.phi).Cmp(big.NewInt(1)) != 0 {
			t.Fatalf("%s: augmented exponent malformed", name)
		}
	}
}

// craftedBlindSigs returns blind signatures an attacker holding the private
// exponent d (the signer itself) can substitute for the genuine z: z' = z *
// (EM'/EM)^d mod N unblinds to EM'^d, the RSA signature of an encoded message
// EM' related to the genuine EM = sig^e: EM plus 2^(8 emLen) (the octet in
// front of a PSS block that is one octet shorter than the modulus), EM plus
// 2^emBits (bit above the PSS block), EM with the trailer / a middle / the top
// payload bit flipped, -EM.  Finalize has to refuse every one of them: a
// verification that looks only at the right-aligned emLen octets, or masks the
// leading bits instead of checking them, accepts one of the first two.
func craftedBlindSigs(k *rsaKey, z, sig []byte, e, d *big.Int) (out []struct {
	class string
	data  []byte
}) {
	N := k.N
	em := new(big.Int).Exp(new(big.Int).SetBytes(sig), e, N)
	emInv := new(big.Int).ModInverse(em, N)
	if emInv == nil {
		return nil
	}
	emLen := (k.emBits + 7) / 8
	cands := []struct {
		n string
		v *big.Int
	}{
		{"crafted-em-plus-2^(8emLen)", new(big.Int).Add(em, new(big.Int).Lsh(big.NewInt(1), uint(8*emLen)))},
		{"crafted-em-plus-2^emBits", new(big.Int).Add(em, new(big.Int).Lsh(big.NewInt(1), uint(k.emBits)))},
		{"crafted-em-trailer-bit", new(big.Int).Xor(em, big.NewInt(1))},
		{"crafted-em-middle-bit", new(big.Int).Xor(em, new(big.Int).Lsh(big.NewInt(1), uint(k.emBits/2)))},
		{"crafted-em-top-payload-bit", new(big.Int).Xor(em, new(big.Int).Lsh(big.NewInt(1), uint(k.emBits-1)))},
		{"crafted-minus-em", new(big.Int).Sub(N, em)},
	}
	zi := new(big.Int).SetBytes(z)
	for _, c := range cands {
		if c.v.Sign() <= 0 || c.v.Cmp(N) >= 0 || c.v.Cmp(em) == 0 {
			continue
		}
		f := new(big.Int).Mul(c.v, emInv)
		f.Mod(f, N)
		f.Exp(f, d, N)
		f.Mul(f, zi).Mod(f, N)
		out = append(out, struct {
			class string
			data  []byte
		}{c.n, k.fill(f)})
	}
	return
}
