//go:build verif

package c07

// PSK-input rules of RFC 9180 section 5.1 (VerifyPSKInputs), on fresh and on
// re-used Sender / Receiver objects.  circl keeps psk, psk_id (and skS/pkS) as
// fields of the object: SetupPSK / SetupAuthPSK overwrite them, Setup /
// SetupAuth leave them in place, so a re-used object reaches the key schedule
// in base / auth mode with whatever an earlier call left behind.  The monitor
// mirrors exactly that state ("effective" PSK inputs) and judges each call by
// the RFC's table:
//
//	psk and psk_id must be both present or both absent;
//	present in mode_psk / mode_auth_psk, absent in mode_base / mode_auth.
//
// Only nil versus long (>= 32 byte psk) non-empty values are judged.

import (
	"fmt"
	"testing"

	"github.com/cloudflare/circl/hpke"
	"github.com/cloudflare/circl/internal/zzverif/lib"
	ref "github.com/cloudflare/circl/internal/zzverif/ref/hpke"
)

const monPSK = "TestVerifPSKRules"

func comboName(psk, id []byte) string {
	switch {
	case psk == nil && id == nil:
		return "none"
	case psk != nil && id == nil:
		return "psk-only"
	case psk == nil && id != nil:
		return "id-only"
	}
	return "psk+id"
}

// call is one Setup* invocation on the object under test.
type call struct {
	mode       byte
	psk, pskID []byte // arguments (PSK modes only)
	altS, altE int    // which of the two sender keys / encapsulations this call uses
}

// objState mirrors hpke.state's sticky fields.
type objState struct{ psk, pskID []byte }

func (s *objState) apply(c call) {
	if isPSK(c.mode) {
		s.psk, s.pskID = c.psk, c.pskID
	}
}

type pskEnv struct {
	c       cellID
	suite   hpke.Suite
	rsuite  ref.Suite
	R, S    keyPair
	info    []byte
	enc     []byte // a valid encapsulation to R (DHKEM: the same in all modes)
	ikmE    []byte
	history string
	draw    int
	seedR   []byte
	seedS   []byte
	// the two alternatives a history switches between (stale skS / pkS / enc
	// of an earlier call on the same object must not survive)
	alts [2]struct {
		seedS, ikmE, enc []byte
		S                keyPair
	}
}

// judge evaluates one call's outcome.  got is nil when circl returned an error.
func (e *pskEnv) judge(role string, cl call, st objState, got hpke.Context, err error, pn *lib.Panic, fresh bool) {
	combo := comboName(st.psk, st.pskID)
	key := "C07:psk-rule:" + modeNames[cl.mode] + ":" + combo
	lib.Count("psk-rule:" + modeNames[cl.mode] + ":" + combo)
	lib.CaseS("psk-rule", e.c.String(), role, e.history, fmt.Sprint(e.draw))
	d := func(kv ...any) map[string]any {
		m := e.c.detail(kv...)
		m["role"], m["mode_called"], m["effective_inputs"], m["history"], m["fresh_object"] = role, modeNames[cl.mode], combo, e.history, fresh
		m["psk"], m["psk_id"], m["info"] = lib.Hex(st.psk), lib.Hex(st.pskID), lib.Hex(e.info)
		m["seedR"], m["seedS"], m["ikmE"], m["mode"] = lib.Hex(e.seedR), lib.Hex(e.seedS), lib.Hex(e.ikmE), modeNames[cl.mode]
		return m
	}
	if pn != nil {
		lib.Violation("C07:panic:psk-setup", monPSK, d("panic", pn.Value, "frame", pn.TopFrame()))
		return
	}
	rfcErr := ref.VerifyPSKInputs(cl.mode, st.psk, st.pskID)
	expect := func(psk, id []byte) *ref.Context {
		var c *ref.Context
		var xerr error
		if role == "sender" {
			_, c, xerr = expectSender(e.c.k, e.rsuite, cl.mode, e.R, e.S, e.info, psk, id, e.ikmE)
		} else {
			c, xerr = expectReceiver(e.c.k, e.rsuite, cl.mode, e.enc, e.R, e.S, e.info, psk, id)
		}
		if xerr != nil {
			panic(fmt.Sprintf("reference refused: %v", xerr))
		}
		return c
	}
	same := func(c *ref.Context) bool {
		raw, merr := got.MarshalBinary()
		if merr != nil {
			return false
		}
		p, perr := ref.ParseContext(raw)
		return perr == nil && lib.Eq(p.Key, c.Key) && lib.Eq(p.BaseNonce, c.BaseNonce) && lib.Eq(p.ExporterSecret, c.ExporterSecret)
	}
	switch {
	case rfcErr == nil && err != nil:
		lib.Violation(key, monPSK, d("class", "valid-inputs-refused", "err", err))
	case rfcErr == nil && err == nil:
		lib.Count("psk-rule:accepted-valid")
		if x := expect(st.psk, st.pskID); !same(x) {
			// same keys as TestVerifSuites: one root cause, one key
			c2 := e.c
			c2.mode = cl.mode
			r := byte(0)
			if role == "receiver" {
				r = 1
			}
			compareContext(monPSK, c2, r, got, x, d("class", "accepted but the context differs from RFC 9180"))
		}
	case rfcErr != nil && err != nil:
		lib.Count("psk-rule:refused-invalid")
	default: // RFC refuses, circl produced a context
		// tolerated alternative for stale fields: the call behaved as if the
		// left-over inputs were absent (a true base / auth context)
		if !isPSK(cl.mode) && same(expect(nil, nil)) {
			lib.Count("psk-rule:stale-inputs-ignored")
			return
		}
		// characterise the context for the witness: is it the key schedule
		// evaluated on the invalid inputs without VerifyPSKInputs?
		unchecked := false
		if ss := e.unchecked(role, cl.mode, st.psk, st.pskID); ss != nil {
			unchecked = same(ss)
		}
		lib.Violation(key, monPSK, d("class", "invalid-inputs-accepted", "rfc", rfcErr.Error(),
			"context_is_key_schedule_without_VerifyPSKInputs", unchecked))
	}
}

// unchecked evaluates the key schedule on inputs VerifyPSKInputs refuses, by
// running it in a mode that accepts them and patching nothing: it recomputes
// from the labelled primitives.
func (e *pskEnv) unchecked(role string, mode byte, psk, id []byte) *ref.Context {
	var ss []byte
	if e.c.k.dh {
		k := ref.GetDHKEM(e.rsuite.KEM)
		var err error
		if isAuth(mode) {
			ss, err = k.AuthDecap(e.enc, e.R.skb, e.S.pkb)
		} else {
			ss, err = k.Decap(e.enc, e.R.skb)
		}
		if err != nil {
			return nil
		}
	} else {
		var err error
		ss, err = e.c.k.id.Scheme().Decapsulate(e.R.sk, e.enc)
		if err != nil {
			return nil
		}
	}
	return ref.KeyScheduleUnchecked(e.rsuite, mode, ss, e.info, psk, id)
}

func (e *pskEnv) run(role string, calls []call) {
	e.history = ""
	var st objState
	var snd *hpke.Sender
	var rcv *hpke.Receiver
	if role == "sender" {
		snd, _ = e.suite.NewSender(e.R.pk, e.info)
	} else {
		rcv, _ = e.suite.NewReceiver(e.R.sk, e.info)
	}
	for i, cl := range calls {
		e.S, e.seedS = e.alts[cl.altS].S, e.alts[cl.altS].seedS
		e.ikmE, e.enc = e.alts[cl.altE].ikmE, e.alts[cl.altE].enc
		st.apply(cl)
		if e.history != "" {
			e.history += " ; "
		}
		e.history += setupNames[cl.mode]
		if isPSK(cl.mode) {
			e.history += "(" + comboName(cl.psk, cl.pskID) + ")"
		}
		e.history += fmt.Sprintf("[S%d,E%d]", cl.altS, cl.altE)
		a := setupArgs{mode: cl.mode, psk: cl.psk, pskID: cl.pskID, skS: e.S.sk, pkS: e.S.pk}
		if role == "sender" {
			enc, sealer, err, pn := senderSetup(snd, a, e.ikmE)
			var ctx hpke.Context
			if err == nil && pn == nil {
				ctx = sealer
				if !lib.Eq(enc, e.enc) {
					lib.Violation("C07:enc:"+e.c.k.name, monPSK, e.c.detail("history", e.history, "got", enc, "want", e.enc))
				}
			}
			e.judge(role, cl, st, ctx, err, pn, i == 0)
		} else {
			opener, err, pn := receiverSetup(rcv, a, e.enc)
			var ctx hpke.Context
			if err == nil && pn == nil {
				ctx = opener
			}
			e.judge(role, cl, st, ctx, err, pn, i == 0)
		}
	}
}

func TestVerifPSKRules(t *testing.T) {
	var mand []string
	for _, m := range modeNames {
		for _, c := range []string{"none", "psk-only", "id-only", "psk+id"} {
			mand = append(mand, "psk-rule:"+m+":"+c)
		}
	}
	mand = append(mand, "psk-rule:accepted-valid", "psk-rule:refused-invalid", "psk-rule:random-history")
	lib.Mandatory(mand...)

	type job struct {
		c    cellID
		draw int
	}
	var jobs []job
	draws := lib.Scale(1, 6)
	i := 0
	for _, k := range kems {
		for _, kdf := range kdfs {
			for _, aead := range aeads {
				// quick tier: one third of the (kdf, aead) pairs per KEM, rotating
				if !lib.Thorough() && (i+int(lib.Seed()))%3 != 0 {
					i++
					continue
				}
				i++
				for d := 0; d < draws; d++ {
					jobs = append(jobs, job{cellID{k, kdf, aead, 0}, d})
				}
			}
		}
	}
	lib.Par(len(jobs), func(i int) { pskCase(jobs[i].c, jobs[i].draw) })

	// Observation (not judged): circl tells "absent" by nil-ness, the RFC by
	// emptiness.
	{
		suite := hpke.NewSuite(hpke.KEM_X25519_HKDF_SHA256, hpke.KDF_HKDF_SHA256, hpke.AEAD_AES128GCM)
		R := derive(hpke.KEM_X25519_HKDF_SHA256.Scheme(), make([]byte, 32))
		s, _ := suite.NewSender(R.pk, nil)
		_, _, err1, _ := senderSetup(s, setupArgs{mode: ref.ModePSK, psk: []byte{}, pskID: []byte{}}, make([]byte, 32))
		s, _ = suite.NewSender(R.pk, nil)
		_, _, err2, _ := senderSetup(s, setupArgs{mode: ref.ModePSK, psk: make([]byte, 32), pskID: []byte{}}, make([]byte, 32))
		lib.Note("nil-vs-empty PSK inputs (not judged): SetupPSK(psk=[]byte{}, psk_id=[]byte{}) -> err=%v (RFC 9180: empty = absent = refused in mode_psk); SetupPSK(psk=32 bytes, psk_id=[]byte{}) -> err=%v (RFC: inconsistent inputs)", err1, err2)
	}
}

func pskCase(c cellID, draw int) {
	r := lib.NewRng("c07/psk/"+c.String(), draw)
	scheme := c.k.id.Scheme()
	e := &pskEnv{draw: draw, c: c, suite: hpke.NewSuite(c.k.id, c.kdf, c.aead), rsuite: ref.Suite{KEM: uint16(c.k.id), KDF: uint16(c.kdf), AEAD: uint16(c.aead)}}
	e.seedR = r.Bytes(scheme.SeedSize())
	e.R = derive(scheme, e.seedR)
	e.info = pickInfo(r, draw)
	for i := range e.alts {
		a := &e.alts[i]
		a.seedS = r.Bytes(scheme.SeedSize())
		a.S = derive(scheme, a.seedS)
		a.ikmE = r.Bytes(scheme.EncapsulationSeedSize())
		enc, _, err := scheme.EncapsulateDeterministically(e.R.pk, a.ikmE)
		if err != nil {
			panic(err)
		}
		a.enc = enc
		if c.k.dh {
			// the reference's enc (= pkE) must be the same; if not TestVerifSuites reports it
			_, renc, rerr := ref.GetDHKEM(e.rsuite.KEM).Encap(e.R.pkb, a.ikmE)
			if rerr != nil || !lib.Eq(renc, enc) {
				lib.Violation("C07:enc:"+c.k.name, monPSK, c.detail("got", enc, "want", renc))
				return
			}
		}
	}
	psk := func() []byte { return r.Bytes(lib.Pick(r, 32, 33, 64, 100)) }
	id := func() []byte { return r.Bytes(lib.Pick(r, 1, 8, 32, 100)) }
	combos := func() [][2][]byte {
		return [][2][]byte{{nil, nil}, {psk(), nil}, {nil, id()}, {psk(), id()}}
	}
	modes := []byte{ref.ModeBase, ref.ModePSK}
	pskModes := []byte{ref.ModePSK}
	if c.k.dh {
		modes = append(modes, ref.ModeAuth, ref.ModeAuthPSK)
		pskModes = append(pskModes, ref.ModeAuthPSK)
	}
	for _, role := range []string{"sender", "receiver"} {
		// A. fresh object, one call
		for _, m := range modes {
			if isPSK(m) {
				for _, cb := range combos() {
					e.run(role, []call{{mode: m, psk: cb[0], pskID: cb[1]}})
				}
			} else {
				e.run(role, []call{{mode: m}})
			}
		}
		// B. object used for a PSK-mode setup first (whatever its outcome),
		//    then for each mode without PSK arguments: all four effective
		//    combinations reach base and auth mode.
		for _, pm := range pskModes {
			for _, cb := range combos() {
				for _, m := range modes {
					if isPSK(m) {
						continue
					}
					e.run(role, []call{{mode: pm, psk: cb[0], pskID: cb[1]}, {mode: m, altS: 1, altE: 1}})
				}
			}
		}
		// C. random histories of 6 calls on one object
		for h := 0; h < 3; h++ {
			var calls []call
			for j := 0; j < 6; j++ {
				m := modes[r.Intn(len(modes))]
				cl := call{mode: m, altS: r.Intn(2), altE: r.Intn(2)}
				if isPSK(m) {
					cb := combos()[r.Intn(4)]
					if r.Intn(3) == 0 {
						cb = combos()[3]
					}
					cl.psk, cl.pskID = cb[0], cb[1]
				}
				calls = append(calls, cl)
			}
			e.run(role, calls)
			lib.Count("psk-rule:random-history")
		}
	}
}
