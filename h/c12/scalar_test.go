//go:build verif

package c12

import (
	"crypto/elliptic"
	"math/big"
	"testing"

	bf "github.com/cloudflare/circl/internal/zzverif/ref/bigfield"

	"github.com/cloudflare/circl/ecc/goldilocks"
	"github.com/cloudflare/circl/group"
	"github.com/cloudflare/circl/internal/zzverif/lib"
)

// ---------------------------------------------------------------- ecc/goldilocks Scalar

var goldOrder = new(big.Int).Sub(bf.Pow2(446), bf.B("0x8335dc163bb124b65129c96fde933d8d723a70aadc873d6d54a7bb0d"))

const monGold = "TestVerifGoldilocksScalar"

func TestVerifGoldilocksScalar(t *testing.T) {
	o := goldilocks.Curve{}.Order()
	if bf.FromLE(o[:]).Cmp(goldOrder) != 0 {
		t.Fatal("goldilocks order differs from the oracle's")
	}
	n := "goldilocks.Scalar"
	lib.Mandatory(n+":tuples", n+":operand>=order", n+":operand>=2^448-2^226", n+":iszero:true-unreduced", n+":frombytes:long",
		n+":add:carry-out", n+":sub:borrow")
	res448 := bf.Mod(bf.Pow2(448), goldOrder)
	gen := &bf.Gen{P: goldOrder, Bits: 448, C: 0, Extra: []*big.Int{
		bf.Pow2(446), bf.Pow2(447), new(big.Int).Sub(bf.Pow2(448), res448), res448, new(big.Int).Lsh(goldOrder, 1), new(big.Int).Mul(goldOrder, big.NewInt(3)), new(big.Int).Mul(goldOrder, big.NewInt(4)),
	}}
	full := bf.Pow2(448)
	sc := func(v *big.Int) (s goldilocks.Scalar) { copy(s[:], bf.LE(v, 56)); return }
	bf.Chunks(nTuplesGo(), chunk, func(lo, hi int, c bf.Ctr) {
		for i := lo; i < hi; i++ {
			r := lib.NewRng("c12/"+n, i)
			var xv, yv *big.Int
			// half of the tuples use reduced operands only (what FromBytes produces), the
			// other half every 56-byte string (Scalar is a plain byte array; Red / IsZero
			// exist precisely because unreduced values are legal)
			reduced := i%2 == 0
			if reduced {
				xv = gen.Draw(r)
				yv = related(r, gen, xv)
			} else {
				xv = gen.Raw(r)
				switch r.Intn(6) {
				case 0:
					yv = new(big.Int).Sub(full, xv)
					yv.Sub(yv, big.NewInt(int64(r.Intn(40)))).Mod(yv, full)
				case 1:
					yv = new(big.Int).Sub(full, big.NewInt(int64(1+r.Intn(40))))
				default:
					yv = gen.Raw(r)
				}
			}
			if i < 10 { // fixed operands first, each under the five aliasing patterns
				xv = new(big.Int).Sub(full, big.NewInt(1))
				yv = new(big.Int).Set(xv)
				if i >= 5 {
					xv = new(big.Int)
				}
			}
			class := "unreduced-operand"
			if xv.Cmp(goldOrder) < 0 && yv.Cmp(goldOrder) < 0 {
				class = "reduced-operands"
			} else {
				c.Inc(n + ":operand>=order")
			}
			top := new(big.Int).Sub(full, bf.Pow2(226))
			if xv.Cmp(top) >= 0 || yv.Cmp(top) >= 0 {
				c.Inc(n + ":operand>=2^448-2^226")
			}
			pat := i % bf.NAlias
			an := bf.AliasName[pat]
			hx, hy := hexBig(xv), hexBig(yv)
			recordCase(i, 8, []byte(n), xv.Bytes(), yv.Bytes(), []byte{byte(pat)})
			c.Inc(n + ":tuples")
			x, y := sc(xv), sc(yv)
			junk := sc(gen.Raw(r))
			var m0, m1, m2 goldilocks.Scalar
			mem := [3]*goldilocks.Scalar{&m0, &m1, &m2}
			type binop struct {
				name string
				op   func(z, a, b *goldilocks.Scalar)
				f    func(a, b *big.Int) *big.Int
			}
			for _, o := range []binop{
				{"Add", func(z, a, b *goldilocks.Scalar) { z.Add(a, b) }, func(a, b *big.Int) *big.Int { return new(big.Int).Add(a, b) }},
				{"Sub", func(z, a, b *goldilocks.Scalar) { z.Sub(a, b) }, func(a, b *big.Int) *big.Int { return new(big.Int).Sub(a, b) }},
				{"Mul", func(z, a, b *goldilocks.Scalar) { z.Mul(a, b) }, func(a, b *big.Int) *big.Int { return new(big.Int).Mul(a, b) }},
			} {
				got, _, _, clob := bf.Bin3(pat, mem, x, y, junk, o.op)
				yev := yv
				if pat == bf.AliasXY || pat == bf.AliasZXY {
					yev = xv
				}
				raw := o.f(xv, yev)
				if o.name == "Add" && raw.Cmp(full) >= 0 {
					c.Inc(n + ":add:carry-out")
				}
				if o.name == "Sub" && raw.Sign() < 0 {
					c.Inc(n + ":sub:borrow")
				}
				want := bf.Mod(raw, goldOrder)
				g := bf.FromLE(got[:])
				if bf.Mod(g, goldOrder).Cmp(want) != 0 {
					viol("wrong-residue:"+n+"."+o.name+":"+class, monGold, "x", hx, "y", hexBig(yev), "alias", an, "got", hexBig(g), "want", hexBig(want))
				} else if g.Cmp(goldOrder) >= 0 {
					viol("non-canonical:"+n+"."+o.name+":"+class, monGold, "x", hx, "y", hexBig(yev), "alias", an, "got", hexBig(g))
				}
				if clob {
					viol("operand-modified:"+n+"."+o.name, monGold, "x", hx, "alias", an)
				}
			}
			// Neg (in place), Red, IsZero: exact
			z := x
			z.Neg()
			if g := bf.FromLE(z[:]); g.Cmp(bf.Mod(new(big.Int).Neg(xv), goldOrder)) != 0 {
				viol("wrong-residue:"+n+".Neg:"+class, monGold, "x", hx, "got", hexBig(g))
			}
			z = x
			z.Red()
			if g := bf.FromLE(z[:]); g.Cmp(bf.Mod(xv, goldOrder)) != 0 {
				viol("non-canonical:"+n+".Red", monGold, "x", hx, "got", hexBig(g))
			}
			z = x
			wz := bf.Mod(xv, goldOrder).Sign() == 0
			if z.IsZero() != wz {
				viol("wrong-predicate:"+n+".IsZero", monGold, "x", hx)
			}
			if wz && xv.Sign() != 0 {
				c.Inc(n + ":iszero:true-unreduced")
			}
			// FromBytes: any length, little endian, reduced
			ln := r.Intn(130)
			switch r.Intn(4) {
			case 0:
				ln = 56
			case 1:
				ln = 57
			case 2:
				ln = 114
			}
			raw := r.EdgeBytes(ln, 0)
			if r.Intn(4) == 0 && ln >= 56 {
				copy(raw, bf.LE(xv, 56))
			}
			z = junk
			z.FromBytes(raw)
			if g := bf.FromLE(z[:]); g.Cmp(bf.Mod(bf.FromLE(raw), goldOrder)) != 0 {
				viol("wrong-residue:"+n+".FromBytes", monGold, "in", raw, "got", hexBig(g))
			}
			if ln > 56 {
				c.Inc(n + ":frombytes:long")
			}
			if i < 2 {
				lib.Sample(monGold, lib.D("x", hx, "y", hy, "alias", an))
			}
		}
	})
}

// ---------------------------------------------------------------- group.Scalar

const monGroup = "TestVerifGroupScalar"

type grpDesc struct {
	name  string
	g     group.Group
	n     *big.Int
	size  int
	le    bool // little-endian encoding (ristretto255)
	short bool // P-curve implementation (big-endian fixed width, lenient decoder)
}

func TestVerifGroupScalar(t *testing.T) {
	ell := bf.B("0x1000000000000000000000000000000014def9dea2f79cd65812631a5cf5d3ed")
	for _, d := range []grpDesc{
		{"P256", group.P256, elliptic.P256().Params().N, 32, false, true},
		{"P384", group.P384, elliptic.P384().Params().N, 48, false, true},
		{"P521", group.P521, elliptic.P521().Params().N, 66, false, true},
		{"Ristretto255", group.Ristretto255, ell, 32, true, false},
	} {
		runGroupScalar(t, d)
	}
}

func runGroupScalar(t *testing.T, d grpDesc) {
	n := "group.Scalar:" + d.name
	lib.Mandatory(n+":tuples", n+":setbigint:negative", n+":setbigint:>=N", n+":iszero:true", n+":isequal:true")
	gen := &bf.Gen{P: d.n, Bits: 8 * d.size, C: 0, Extra: []*big.Int{new(big.Int).Rsh(d.n, 1), bf.Pow2(d.n.BitLen() - 1)}}
	enc := func(v *big.Int) []byte {
		if d.le {
			return bf.LE(v, d.size)
		}
		return beBytes(v, d.size)
	}
	dec := func(b []byte) *big.Int {
		if d.le {
			return bf.FromLE(b)
		}
		return new(big.Int).SetBytes(b)
	}
	get := func(s group.Scalar) *big.Int {
		b, err := s.MarshalBinary()
		if err != nil || len(b) != d.size {
			viol("wrong-value:"+n+".MarshalBinary", monGroup, "err", err, "len", len(b))
			return new(big.Int)
		}
		return dec(b)
	}
	check := func(op string, got group.Scalar, want *big.Int, kv ...any) {
		g := get(got)
		w := d.g.NewScalar().SetBigInt(want)
		if g.Cmp(want) != 0 || !got.IsEqual(w) || !w.IsEqual(got) {
			kv = append(kv, "got", hexBig(g), "want", hexBig(want))
			viol("wrong-residue:"+n+"."+op, monGroup, kv...)
		}
	}
	total := nTuplesGo()
	if d.short { // math/big underneath: a quarter of the volume is plenty
		total /= 4
	}
	bf.Chunks(total, chunk, func(lo, hi int, c bf.Ctr) {
		for i := lo; i < hi; i++ {
			r := lib.NewRng("c12/"+n, i)
			xv := gen.Draw(r)
			yv := related(r, gen, xv)
			hx, hy := hexBig(xv), hexBig(yv)
			pat := i % bf.NAlias
			an := bf.AliasName[pat]
			recordCase(i, 12, []byte(n), xv.Bytes(), yv.Bytes(), []byte{byte(pat)})
			c.Inc(n + ":tuples")
			// entry points
			x := d.g.NewScalar()
			switch i % 3 {
			case 0:
				if err := x.UnmarshalBinary(enc(xv)); err != nil {
					viol("rejected-valid:"+n+".UnmarshalBinary", monGroup, "x", hx, "err", err)
				}
			case 1: // SetBigInt reduces: negative and large arguments
				a := new(big.Int).Set(xv)
				switch r.Intn(3) {
				case 0:
					a.Sub(a, new(big.Int).Mul(d.n, big.NewInt(int64(1+r.Intn(5)))))
					c.Inc(n + ":setbigint:negative")
				case 1:
					a.Add(a, new(big.Int).Mul(d.n, new(big.Int).SetUint64(r.EdgeLimb(0)|1)))
					c.Inc(n + ":setbigint:>=N")
				}
				x.SetBigInt(a)
			default:
				x.SetBigInt(xv)
			}
			if g := get(x); g.Cmp(xv) != 0 {
				viol("wrong-residue:"+n+".entry", monGroup, "x", hx, "got", hexBig(g), "entry", i%3)
			}
			y := d.g.NewScalar().SetBigInt(yv)
			if xv.IsUint64() || i%16 == 0 {
				w := xv.Uint64()
				if !xv.IsUint64() {
					w = r.EdgeLimb(0)
				}
				check("SetUint64", d.g.NewScalar().SetUint64(w), bf.Mod(new(big.Int).SetUint64(w), d.n), "n", w)
			}
			// operations under aliasing of the receiver
			type binop struct {
				name string
				op   func(z, a, b group.Scalar) group.Scalar
				f    func(a, b *big.Int) *big.Int
			}
			for _, o := range []binop{
				{"Add", func(z, a, b group.Scalar) group.Scalar { return z.Add(a, b) }, func(a, b *big.Int) *big.Int { return new(big.Int).Add(a, b) }},
				{"Sub", func(z, a, b group.Scalar) group.Scalar { return z.Sub(a, b) }, func(a, b *big.Int) *big.Int { return new(big.Int).Sub(a, b) }},
				{"Mul", func(z, a, b group.Scalar) group.Scalar { return z.Mul(a, b) }, func(a, b *big.Int) *big.Int { return new(big.Int).Mul(a, b) }},
			} {
				xa, ya := x.Copy(), y.Copy()
				z := d.g.NewScalar().SetBigInt(gen.Draw(r))
				yev := yv
				switch pat {
				case bf.AliasZX:
					z = xa
				case bf.AliasZY:
					z = ya
				case bf.AliasXY:
					ya, yev = xa, xv
				case bf.AliasZXY:
					z, ya, yev = xa, xa, xv
				}
				ret := o.op(z, xa, ya)
				if ret != z {
					viol("wrong-value:"+n+"."+o.name+"-does-not-return-receiver", monGroup)
				}
				check(o.name, z, bf.Mod(o.f(xv, yev), d.n), "x", hx, "y", hexBig(yev), "alias", an)
				if z != xa && get(xa).Cmp(xv) != 0 {
					viol("operand-modified:"+n+"."+o.name, monGroup, "x", hx, "alias", an)
				}
				if z != ya && get(ya).Cmp(yev) != 0 {
					viol("operand-modified:"+n+"."+o.name, monGroup, "x", hx, "alias", an)
				}
			}
			alias := pat == bf.AliasZX || pat == bf.AliasZXY
			{
				xa := x.Copy()
				z := d.g.NewScalar().SetBigInt(gen.Draw(r))
				if alias {
					z = xa
				}
				z.Neg(xa)
				check("Neg", z, bf.Mod(new(big.Int).Neg(xv), d.n), "x", hx, "alias", alias)
				xa = x.Copy()
				z = d.g.NewScalar().SetBigInt(gen.Draw(r))
				if alias {
					z = xa
				}
				if xv.Sign() != 0 {
					z.Inv(xa)
					check("Inv", z, new(big.Int).ModInverse(xv, d.n), "x", hx, "alias", alias)
				} else {
					// 1/0 is not documented: it only must not crash
					if p := lib.Try(n+".Inv(0)", nil, func() { z.Inv(xa) }); p != nil {
						viol("panic:"+n+".Inv(0)", monGroup, "panic", p.Value)
					}
					c.Inc(n + ":inv:zero(undocumented,observed)")
				}
			}
			// predicates
			if x.IsZero() != (xv.Sign() == 0) {
				viol("wrong-predicate:"+n+".IsZero", monGroup, "x", hx)
			}
			if xv.Sign() == 0 {
				c.Inc(n + ":iszero:true")
			}
			if zz := d.g.NewScalar().Sub(x, x); !zz.IsZero() {
				viol("wrong-predicate:"+n+".IsZero", monGroup, "x", hx, "what", "x - x")
			}
			eq := xv.Cmp(yv) == 0
			if x.IsEqual(y) != eq || y.IsEqual(x) != eq {
				viol("wrong-predicate:"+n+".IsEqual", monGroup, "x", hx, "y", hy)
			}
			if eq {
				c.Inc(n + ":isequal:true")
			}
			// Set / Copy / CMov / CSelect
			if s := d.g.NewScalar().Set(x); get(s).Cmp(xv) != 0 {
				viol("wrong-value:"+n+".Set", monGroup, "x", hx)
			}
			for b := 0; b < 2; b++ {
				z := x.Copy()
				z.CMov(b, y)
				w := xv
				if b == 1 {
					w = yv
				}
				check("CMov", z, w, "x", hx, "y", hy, "b", b)
				z = d.g.NewScalar().SetBigInt(gen.Draw(r))
				z.CSelect(b, x, y)
				w = yv
				if b == 1 {
					w = xv
				}
				check("CSelect", z, w, "x", hx, "y", hy, "b", b)
				z = x.Copy()
				z.CSelect(b, z, y) // receiver is the first choice
				check("CSelect", z, w, "x", hx, "y", hy, "b", b, "alias", "z=x")
				z = y.Copy()
				z.CSelect(b, x, z) // receiver is the second choice
				check("CSelect", z, w, "x", hx, "y", hy, "b", b, "alias", "z=y")
				if get(x).Cmp(xv) != 0 || get(y).Cmp(yv) != 0 {
					viol("operand-modified:"+n+".CMov/CSelect", monGroup, "x", hx, "y", hy)
				}
			}
			// a decoder that lets a non-canonical encoding in must still behave canonically
			if d.short && i%8 == 0 {
				over := new(big.Int).Add(d.n, xv)
				if over.BitLen() <= 8*d.size {
					u := d.g.NewScalar()
					var err error
					if p := lib.Try(n+".UnmarshalBinary", enc(over), func() { err = u.UnmarshalBinary(enc(over)) }); p != nil {
						viol("panic:"+n+".UnmarshalBinary", monGroup, "in", enc(over), "panic", p.Value)
					} else if err != nil {
						c.Inc(n + ":unmarshal:rejected>=N")
					} else {
						c.Inc(n + ":unmarshal:accepted>=N")
						if !u.IsEqual(x) || u.IsZero() != (xv.Sign() == 0) || get(u).Cmp(xv) != 0 {
							viol("non-canonical:group.Scalar.UnmarshalBinary:short-curves-accept>=N", monGroup, "group", d.name, "encoded", hexBig(over), "residue", hx,
								"isEqualToReduced", u.IsEqual(x), "isZero", u.IsZero(), "marshal", hexBig(get(u)))
						}
					}
				}
			}
			if i < 1 {
				lib.Sample(monGroup, lib.D("group", d.name, "x", hx, "y", hy, "alias", an))
			}
		}
	})
}
