//go:build verif

// C16 — OPRF, DLEQ / Schnorr proofs, DLEQ in the squares modulo N and 1-out-of-2
// OT are complete and reject tampering.  Relational monitors: every oracle is
// an equality / inequality between several observed calls of the real code;
// the only outside knowledge is the RFC 9497 vector file and a small
// specification model of the OPRF function built on circl's group layer.
package c16

import (
	"crypto"
	"crypto/elliptic"
	_ "crypto/sha256"
	_ "crypto/sha512"
	"go/scanner"
	"go/token"
	"math/big"
	"os"
	"path/filepath"
	"sort"
	"strconv"
	"strings"
	"testing"

	"github.com/cloudflare/circl/group"
	"github.com/cloudflare/circl/internal/zzverif/lib"
)

func TestMain(m *testing.M) { lib.Main(m) }

func repoRoot() string {
	if v := os.Getenv("VERIF_REPO"); v != "" {
		return v
	}
	return "/repo"
}

// grp describes one prime-order group and how its scalars are encoded.
type grp struct {
	name  string
	g     group.Group
	order *big.Int
	le    bool // scalar encoding is little endian (ristretto255)
	slen  int  // scalar length in bytes
	h     crypto.Hash
}

var ristrettoOrder, _ = new(big.Int).SetString("7237005577332262213973186563042994240857116359379907606001950938285454250989", 10)

var groups = []*grp{
	{"ristretto255", group.Ristretto255, ristrettoOrder, true, 32, crypto.SHA512},
	{"P256", group.P256, elliptic.P256().Params().N, false, 32, crypto.SHA256},
	{"P384", group.P384, elliptic.P384().Params().N, false, 48, crypto.SHA384},
	{"P521", group.P521, elliptic.P521().Params().N, false, 66, crypto.SHA512},
}

func (gr *grp) isRistretto() bool { return gr.le }

// encInt interprets a fixed-width scalar encoding as an integer.
func (gr *grp) encInt(b []byte) *big.Int {
	if !gr.le {
		return new(big.Int).SetBytes(b)
	}
	c := make([]byte, len(b))
	for i := range b {
		c[len(b)-1-i] = b[i]
	}
	return new(big.Int).SetBytes(c)
}

// intEnc encodes x (possibly >= order) on the fixed width, nil if it does not fit.
func (gr *grp) intEnc(x *big.Int) []byte {
	if x.Sign() < 0 || x.BitLen() > 8*gr.slen {
		return nil
	}
	b := make([]byte, gr.slen)
	x.FillBytes(b)
	if gr.le {
		for i, j := 0, len(b)-1; i < j; i, j = i+1, j-1 {
			b[i], b[j] = b[j], b[i]
		}
	}
	return b
}

func (gr *grp) scalarFromInt(x *big.Int) group.Scalar {
	return gr.g.NewScalar().SetBigInt(new(big.Int).Mod(x, gr.order))
}

func (gr *grp) scalarInt(s group.Scalar) *big.Int {
	b, err := s.MarshalBinary()
	if err != nil {
		panic(err)
	}
	return gr.encInt(b)
}

// randInt draws a reduced scalar value, biased to the ends of [1, order).
func (gr *grp) randInt(r *lib.Rng, nonzero bool) *big.Int {
	var x *big.Int
	switch r.Intn(12) {
	case 0:
		x = big.NewInt(1)
	case 1:
		x = big.NewInt(2)
	case 2:
		x = new(big.Int).Sub(gr.order, big.NewInt(1))
	case 3:
		x = new(big.Int).Sub(gr.order, big.NewInt(2))
	default:
		x = new(big.Int).SetBytes(r.Bytes(gr.slen + 8))
		x.Mod(x, gr.order)
	}
	if nonzero && x.Sign() == 0 {
		x.SetInt64(3)
	}
	return x
}

func (gr *grp) randScalar(r *lib.Rng) group.Scalar { return gr.scalarFromInt(gr.randInt(r, true)) }

// uniform non-edge scalar
func (gr *grp) uniScalar(r *lib.Rng) group.Scalar {
	x := new(big.Int).SetBytes(r.Bytes(gr.slen + 8))
	x.Mod(x, gr.order)
	if x.Sign() == 0 {
		x.SetInt64(5)
	}
	return gr.scalarFromInt(x)
}

func (gr *grp) randElement(r *lib.Rng) group.Element {
	return gr.g.HashToElement(r.Bytes(32), []byte("c16-element"))
}

func mustElt(e group.Element) []byte {
	b, err := e.MarshalBinaryCompress()
	if err != nil {
		panic(err)
	}
	return b
}

func mustScl(s group.Scalar) []byte {
	b, err := s.MarshalBinary()
	if err != nil {
		panic(err)
	}
	return b
}

// aliasClass classifies an altered fixed-width scalar encoding against the
// original: "same" (identical bytes), "canonical" (a different value below the
// order), "noncanonical" (value >= order: RFC 9497 requires deserialisation to
// fail).
func (gr *grp) aliasClass(orig, alt []byte) string {
	if lib.Eq(orig, alt) {
		return "same"
	}
	if gr.encInt(alt).Cmp(gr.order) >= 0 {
		return "noncanonical"
	}
	return "canonical"
}

// malleableKey is the finding key of "a non-canonical scalar encoding is
// accepted and the proof still verifies"; the root cause differs per group
// family (group/short.go wScl.UnmarshalBinary vs group/ristretto255.go
// ristrettoScalar.UnmarshalBinary).
func (gr *grp) malleableKey(entry string) string {
	if gr.isRistretto() {
		return "C16:malleable-proof:" + entry + ":ristretto255-noncanonical-scalar"
	}
	return "C16:malleable-proof:" + entry + ":scalar-plus-order"
}

// nonCanonicalAliases returns every fixed-width encoding != enc that denotes a
// value congruent to enc modulo the group order and fits the width (a sample
// when there are many), plus for ristretto255 the encodings with the three
// unused top bits set.
func (gr *grp) nonCanonicalAliases(enc []byte) (out [][]byte) {
	v := gr.encInt(enc)
	max := new(big.Int).Lsh(big.NewInt(1), uint(8*gr.slen))
	span := new(big.Int).Sub(max, v)
	span.Sub(span, big.NewInt(1))
	jmax := new(big.Int).Div(span, gr.order) // largest j with v + j*order < 2^(8*slen)
	seen := map[int64]bool{}
	for _, j := range []int64{1, 2, jmax.Int64()} {
		if j < 1 || j > jmax.Int64() || seen[j] {
			continue
		}
		seen[j] = true
		x := new(big.Int).Mul(gr.order, big.NewInt(j))
		x.Add(x, v)
		if e := gr.intEnc(x); e != nil && !lib.Eq(e, enc) {
			out = append(out, e)
		}
	}
	if gr.isRistretto() {
		for _, m := range []byte{0x80, 0x40, 0x20, 0xE0} {
			e := lib.Clone(enc)
			e[31] |= m
			if !lib.Eq(e, enc) {
				out = append(out, e)
			}
		}
	}
	return out
}

// tryBool runs a verifier under lib.Try; a panic counts as "not accepted" and
// is returned for classification.
func tryBool(entry string, in []byte, f func() bool) (ok bool, p *lib.Panic) {
	p = lib.Try(entry, in, func() { ok = f() })
	if p != nil {
		ok = false
	}
	return
}

func isErrType(p *lib.Panic) bool {
	return p != nil && (strings.Contains(p.Value, "type mismatch") || strings.Contains(p.Value, "interface conversion"))
}

func cat(bs ...[]byte) []byte {
	var out []byte
	for _, b := range bs {
		out = append(out, b...)
	}
	return out
}

func i2osp2(n int) []byte { return []byte{byte(n >> 8), byte(n)} }

// inputLen draws a length in 0..300 biased to the edges named in the property.
func inputLen(r *lib.Rng) int {
	switch r.Intn(10) {
	case 0:
		return 0
	case 1:
		return 1
	case 2:
		return lib.Pick(r, 255, 256, 257)
	case 3:
		return 300
	case 4:
		return lib.Pick(r, 63, 64, 65, 127, 128, 129)
	default:
		return r.Intn(301)
	}
}

func edgeBytes(r *lib.Rng, n int) []byte {
	switch r.Intn(8) {
	case 0:
		return make([]byte, n)
	case 1:
		b := make([]byte, n)
		for i := range b {
			b[i] = 0xFF
		}
		return b
	default:
		return r.Bytes(n)
	}
}

// libraryLiterals: the string literals of the non-test source files of the
// given packages of the tree under test (VERIF_REPO), plus the packages' own
// names and paths: candidate context strings a library could treat as "the
// same as" another one (a default label, a reserved tag).  A fuzzing
// dictionary taken from the code that is being run.
func libraryLiterals(rels ...string) [][]byte {
	seen := map[string]bool{}
	var out [][]byte
	add := func(s string) {
		if len(s) > 0 && len(s) <= 64 && !seen[s] {
			seen[s] = true
			out = append(out, []byte(s))
		}
	}
	root := repoRoot()
	for _, rel := range rels {
		add(rel)
		add(filepath.Base(rel))
		add("circl/" + rel)
		add("github.com/cloudflare/circl/" + rel)
		if root == "" {
			continue
		}
		files, _ := filepath.Glob(filepath.Join(root, rel, "*.go"))
		for _, f := range files {
			if strings.HasSuffix(f, "_test.go") {
				continue
			}
			src, err := os.ReadFile(f)
			if err != nil {
				continue
			}
			var sc scanner.Scanner
			fs := token.NewFileSet()
			sc.Init(fs.AddFile(f, fs.Base(), len(src)), src, nil, 0)
			for {
				_, tok, lit := sc.Scan()
				if tok == token.EOF {
					break
				}
				if tok == token.STRING {
					if v, err := strconv.Unquote(lit); err == nil {
						add(v)
					}
				}
			}
		}
	}
	sort.Slice(out, func(i, j int) bool { return string(out[i]) < string(out[j]) })
	return out
}
