//go:build verif

// C05 — Ed25519 / Ed448 sign and verify exactly as RFC 8032 specifies.
//
// This file: package plumbing and the self-validation of the reference model
// ref/eddsa (published vectors, Wycheproof, crypto/ed25519).  A failure here
// is t.Fatal => INCONCLUSIVE, never a violation.
package c05

import (
	"bytes"
	"crypto"
	stded "crypto/ed25519"
	"crypto/sha512"
	"encoding/json"
	"math/big"
	"os"
	"testing"

	"github.com/cloudflare/circl/internal/zzverif/lib"
	ref "github.com/cloudflare/circl/internal/zzverif/ref/eddsa"
)

func TestMain(m *testing.M) { lib.Main(m) }

func variantOf(scheme string) ref.Variant {
	switch scheme {
	case "Ed25519Pure":
		return ref.Ed25519
	case "Ed25519Ctx":
		return ref.Ed25519ctx
	case "Ed25519Ph":
		return ref.Ed25519ph
	case "Ed448Pure":
		return ref.Ed448
	case "Ed448Ph":
		return ref.Ed448ph
	}
	panic("unknown scheme " + scheme)
}

func TestVerifSelfCheckCurves(t *testing.T) {
	for _, c := range []*ref.Curve{ref.C25519, ref.C448} {
		if !c.P.ProbablyPrime(32) || !c.L.ProbablyPrime(32) {
			t.Fatalf("%s: p or L not prime", c.Name)
		}
		if !c.OnCurve(c.Gen) {
			t.Fatalf("%s: base point not on curve", c.Name)
		}
		if !c.IsIdentity(c.ScalarMult(c.L, c.Gen)) || c.IsIdentity(c.Gen) {
			t.Fatalf("%s: base point does not have order L", c.Name)
		}
		// d is a non-square, a is a square: the addition law is complete
		if big.Jacobi(c.D, c.P) != -1 || big.Jacobi(c.A, c.P) != 1 {
			t.Fatalf("%s: completeness precondition fails", c.Name)
		}
		so := c.SmallOrderPoints()
		if len(so) != int(c.Cofactor) {
			t.Fatalf("%s: %d small-order points", c.Name, len(so))
		}
		hist := map[int]int{}
		for _, p := range so {
			if !c.OnCurve(p) {
				t.Fatalf("%s: small-order point off curve", c.Name)
			}
			hist[c.SmallOrder(p)]++
			if !c.Equal(c.Double(p), c.Add(p, p)) {
				t.Fatalf("%s: Double != Add(p,p) on a small-order point", c.Name)
			}
			q, err := c.Decode(c.Encode(p))
			if err != nil || !c.Equal(p, q) {
				t.Fatalf("%s: small-order point does not round trip: %v", c.Name, err)
			}
		}
		want := map[int]int{1: 1, 2: 1, 4: 2}
		if c.Cofactor == 8 {
			want[8] = 4
		}
		for o, n := range want {
			if hist[o] != n {
				t.Fatalf("%s: order histogram %v", c.Name, hist)
			}
		}
		// encode/decode round trip and group-law sanity on random multiples
		r := lib.NewRng("c05/selfcheck/curve/"+c.Name, 0)
		for i := 0; i < 8; i++ {
			a := new(big.Int).Mod(ref.LE(r.Bytes(64)), c.L)
			b := new(big.Int).Mod(ref.LE(r.Bytes(64)), c.L)
			pa, pb := c.ScalarMult(a, c.Gen), c.ScalarMult(b, c.Gen)
			sum := new(big.Int).Add(a, b)
			if !c.Equal(c.Add(pa, pb), c.ScalarMult(sum, c.Gen)) {
				t.Fatalf("%s: [a]B+[b]B != [a+b]B", c.Name)
			}
			enc := c.Encode(pa)
			q, err := c.Decode(enc)
			if err != nil || !c.Equal(q, pa) || !bytes.Equal(c.Encode(q), enc) {
				t.Fatalf("%s: encode/decode", c.Name)
			}
			if !c.Equal(c.Double(pa), c.Add(pa, pa)) || !c.Equal(c.Double(c.Add(pa, so[i%len(so)])), c.ScalarMult(big.NewInt(2), c.Add(pa, so[i%len(so)]))) {
				t.Fatalf("%s: Double != Add(p,p)", c.Name)
			}
			if !c.Equal(c.Add(pa, c.Neg(pa)), c.Identity()) {
				t.Fatalf("%s: P + -P != O", c.Name)
			}
		}
		// strict decoding rules
		one := c.EncodeRaw(big.NewInt(1), 1) // x = 0 with sign bit
		if _, err := c.Decode(one); err != ref.ErrZeroSign {
			t.Fatalf("%s: (0,1) with sign bit: %v", c.Name, err)
		}
		if _, err := c.Decode(c.EncodeRaw(c.P, 0)); err != ref.ErrNonCanonical {
			t.Fatalf("%s: y = p accepted", c.Name)
		}
		if _, err := c.Decode(c.EncodeRaw(new(big.Int).Add(c.P, big.NewInt(1)), 0)); err != ref.ErrNonCanonical {
			t.Fatalf("%s: y = p+1 accepted", c.Name)
		}
		if _, err := c.Decode(make([]byte, c.Size+1)); err != ref.ErrLength {
			t.Fatalf("%s: length", c.Name)
		}
	}
	// Ed448: each of the low 7 bits of the last byte makes the encoding invalid
	pk := ref.C448.PublicKey(make([]byte, 57))
	for b := 0; b < 7; b++ {
		e := lib.Clone(pk)
		e[56] |= 1 << uint(b)
		if _, err := ref.C448.Decode(e); err != ref.ErrNonCanonical {
			t.Fatalf("ed448: junk bit %d in last byte accepted", b)
		}
	}
}

func TestVerifSelfCheckRFC8032(t *testing.T) {
	if len(rfcVectors) < 20 {
		t.Fatal("vectors missing")
	}
	for _, v := range rfcVectors {
		vr := variantOf(v.scheme)
		c := vr.Curve()
		seed, pk, msg, ctx, sig := lib.MustHex(v.seed), lib.MustHex(v.pk), lib.MustHex(v.msg), lib.MustHex(v.ctx), lib.MustHex(v.sig)
		if got := c.PublicKey(seed); !bytes.Equal(got, pk) {
			t.Fatalf("%s/%s: public key %x, want %x", v.scheme, v.name, got, pk)
		}
		got, err := ref.Sign(vr, seed, msg, ctx)
		if err != nil || !bytes.Equal(got, sig) {
			t.Fatalf("%s/%s: signature %x (%v), want %x", v.scheme, v.name, got, err, sig)
		}
		if vd := ref.Verify(vr, pk, msg, sig, ctx); vd.Expect != ref.MustAccept {
			t.Fatalf("%s/%s: verify says %v (%s)", v.scheme, v.name, vd.Expect, vd.Reason)
		}
		bad := lib.FlipBit(sig, 3)
		if vd := ref.Verify(vr, pk, msg, bad, ctx); vd.Expect != ref.MustReject {
			t.Fatalf("%s/%s: altered signature: %v (%s)", v.scheme, v.name, vd.Expect, vd.Reason)
		}
		if vd := ref.Verify(vr, pk, append(lib.Clone(msg), 0), sig, ctx); vd.Expect != ref.MustReject {
			t.Fatalf("%s/%s: altered message: %v (%s)", v.scheme, v.name, vd.Expect, vd.Reason)
		}
	}
}

type wycheproof struct {
	TestGroups []struct {
		Key struct {
			Pk string `json:"pk"`
			Sk string `json:"sk"`
		} `json:"key"`
		Tests []struct {
			TcID   int    `json:"tcId"`
			Msg    string `json:"msg"`
			Sig    string `json:"sig"`
			Result string `json:"result"`
		} `json:"tests"`
	} `json:"testGroups"`
}

func TestVerifSelfCheckWycheproof(t *testing.T) {
	for _, f := range []struct {
		path string
		v    ref.Variant
	}{
		{"/repo/sign/ed25519/testdata/wycheproof_Ed25519.json", ref.Ed25519},
		{"/repo/sign/ed448/testdata/wycheproof_Ed448.json", ref.Ed448},
	} {
		raw, err := os.ReadFile(f.path)
		if err != nil {
			t.Fatal(err)
		}
		var w wycheproof
		if err := json.Unmarshal(raw, &w); err != nil {
			t.Fatal(err)
		}
		c := f.v.Curve()
		n := 0
		for _, g := range w.TestGroups {
			pk, sk := lib.MustHex(g.Key.Pk), lib.MustHex(g.Key.Sk)
			if got := c.PublicKey(sk); !bytes.Equal(got, pk) {
				t.Fatalf("%s: pk from sk", f.path)
			}
			for _, tc := range g.Tests {
				msg, sig := lib.MustHex(tc.Msg), lib.MustHex(tc.Sig)
				vd := ref.Verify(f.v, pk, msg, sig, nil)
				switch tc.Result {
				case "valid":
					if vd.Expect != ref.MustAccept {
						t.Fatalf("%s tc %d: valid but %v (%s)", f.path, tc.TcID, vd.Expect, vd.Reason)
					}
					// deterministic signing reproduces the valid signatures
					if got, _ := ref.Sign(f.v, sk, msg, nil); !bytes.Equal(got, sig) {
						t.Fatalf("%s tc %d: signature differs", f.path, tc.TcID)
					}
				case "invalid":
					if vd.Expect != ref.MustReject {
						t.Fatalf("%s tc %d: invalid but %v (%s)", f.path, tc.TcID, vd.Expect, vd.Reason)
					}
				}
				n++
			}
		}
		if n < 80 {
			t.Fatalf("%s: only %d cases", f.path, n)
		}
	}
}

// stdOpts builds crypto/ed25519 options for a variant.
func stdOpts(v ref.Variant, ctx []byte) *stded.Options {
	o := &stded.Options{Context: string(ctx)}
	if v == ref.Ed25519ph {
		o.Hash = crypto.SHA512
	}
	return o
}

// stdSign signs with crypto/ed25519 (second oracle).
func stdSign(v ref.Variant, seed, msg, ctx []byte) ([]byte, error) {
	k := stded.NewKeyFromSeed(seed)
	m := msg
	if v == ref.Ed25519ph {
		d := sha512.Sum512(msg)
		m = d[:]
	}
	return k.Sign(nil, m, stdOpts(v, ctx))
}

func stdVerify(v ref.Variant, pk, msg, sig, ctx []byte) bool {
	if len(pk) != 32 {
		return false
	}
	m := msg
	if v == ref.Ed25519ph {
		d := sha512.Sum512(msg)
		m = d[:]
	}
	return stded.VerifyWithOptions(stded.PublicKey(pk), m, sig, stdOpts(v, ctx)) == nil
}

func TestVerifSelfCheckStdlib(t *testing.T) {
	n := lib.Scale(60, 300)
	errs := make([]string, n)
	lib.Par(n, func(i int) {
		r := lib.NewRng("c05/selfcheck/std", i)
		seed := r.Bytes(32)
		msg := r.Bytes(r.Intn(200))
		v := lib.Pick(r, ref.Ed25519, ref.Ed25519ctx, ref.Ed25519ph)
		var ctx []byte
		if v != ref.Ed25519 {
			ctx = r.Bytes(lib.Pick(r, 1, 1+r.Intn(255), 255))
		}
		pk := ref.C25519.PublicKey(seed)
		if !bytes.Equal(pk, stded.NewKeyFromSeed(seed).Public().(stded.PublicKey)) {
			errs[i] = "public key"
			return
		}
		sig, err := ref.Sign(v, seed, msg, ctx)
		want, err2 := stdSign(v, seed, msg, ctx)
		if err != nil || err2 != nil || !bytes.Equal(sig, want) {
			errs[i] = "signature " + v.String()
			return
		}
		// verdict agreement on mutated inputs: std accepts => not MustReject;
		// std rejects => not MustAccept (std is cofactorless with canonical-S and
		// byte-comparison of R, accepts non-canonical A; so the only allowed
		// disagreement is "std accepts, reference says MustReject because A is
		// non-canonical", which random mutation of an honest key cannot produce
		// unless y >= p, excluded below).
		for j := 0; j < 6; j++ {
			pk2, msg2, sig2 := lib.Clone(pk), lib.Clone(msg), lib.Clone(sig)
			switch j {
			case 1:
				sig2 = lib.FlipBit(sig2, r.Intn(512))
			case 2:
				pk2 = lib.FlipBit(pk2, r.Intn(256))
			case 3:
				msg2 = append(msg2, 1)
			case 4:
				s := ref.LE(sig2[32:])
				s.Add(s, ref.C25519.L)
				copy(sig2[32:], ref.ToLE(s, 32))
			case 5:
				sig2 = sig2[:63]
			}
			vd := ref.Verify(v, pk2, msg2, sig2, ctx)
			std := stdVerify(v, pk2, msg2, sig2, ctx)
			if std && vd.Expect == ref.MustReject && vd.Reason != "A:y >= p" {
				errs[i] = "std accepts, reference must-reject: " + vd.Reason
			}
			if !std && vd.Expect == ref.MustAccept {
				errs[i] = "std rejects, reference must-accept"
			}
		}
	})
	for _, e := range errs {
		if e != "" {
			t.Fatal("reference disagrees with crypto/ed25519: " + e)
		}
	}
}
