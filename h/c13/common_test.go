//go:build verif

// C13 — curve group law, scalar multiplication and pairings are
// algebraically correct.  Differential monitors against the big-integer
// affine reference of ref/c13ref (and crypto/elliptic as a second oracle for
// the NIST curves), metamorphic monitors for the BLS12-381 pairing.
package c13

import (
	"math/big"
	"testing"

	"github.com/cloudflare/circl/internal/zzverif/lib"
	"github.com/cloudflare/circl/internal/zzverif/ref/c13ref"
)

func TestMain(m *testing.M) { lib.Main(m) }

// wpt is a pool entry: a reference point, its discrete logarithm when known.
type wpt struct {
	K     *big.Int // nil when unknown
	P     c13ref.WPoint
	Class string
}

type ept struct {
	K     *big.Int
	P     c13ref.EPoint
	Class string
}

// buildWPool makes the structured multiples of G (known k) plus nLift points
// lifted from random x and mapped into the prime-order group by cof.
func buildWPool(c *c13ref.WCurve, stream string, nRandom, nLift int, cof *big.Int) []wpt {
	r := lib.NewRng(stream, 0)
	ks := c13ref.PoolK(r, c.N, nRandom)
	out := make([]wpt, len(ks)+nLift)
	lib.Par(len(out), func(i int) {
		if i < len(ks) {
			cl := "kG"
			if ks[i].Sign() == 0 {
				cl = "O"
			}
			out[i] = wpt{ks[i], c.MulG(ks[i]), cl}
			return
		}
		rr := lib.NewRng(stream+"/lift", i)
		for {
			var x c13ref.El
			if c.F.Deg == 2 {
				x = c.F.New(new(big.Int).SetBytes(rr.Bytes(80)), new(big.Int).SetBytes(rr.Bytes(80)))
			} else {
				x = c.F.New(new(big.Int).SetBytes(rr.Bytes(80)), nil)
			}
			p, ok := c.Lift(x)
			if !ok {
				continue
			}
			if rr.Bool() {
				p = c.Neg(p)
			}
			if cof != nil {
				p = c.Mul(cof, p)
			}
			if p.Inf {
				continue
			}
			out[i] = wpt{nil, p, "lifted"}
			return
		}
	})
	// points with a distinguished coordinate: x = 0 (exists whenever b is a
	// square: P-256, P-384, P-521 - an "is this the identity" test that looks
	// at one coordinate only mistakes them for the point at infinity), x = 1,
	// 2, 3, p-1, p-2, both signs of y, brought into the subgroup like the rest
	if c.F.Deg == 1 {
		for _, xv := range []*big.Int{big.NewInt(0), big.NewInt(1), big.NewInt(2), big.NewInt(3),
			new(big.Int).Sub(c.F.P, big.NewInt(1)), new(big.Int).Sub(c.F.P, big.NewInt(2))} {
			pt, ok := c.Lift(c.F.New(xv, nil))
			if !ok {
				continue
			}
			if cof != nil {
				pt = c.Mul(cof, pt)
			}
			if pt.Inf {
				continue
			}
			cl := "lifted"
			if xv.Sign() == 0 && cof == nil {
				cl = "lifted-x=0"
				lib.Count("pool:point-with-x=0:" + stream)
			}
			out = append(out, wpt{nil, pt, cl}, wpt{nil, c.Neg(pt), cl})
		}
	}
	return out
}

// related picks a pair (P,Q) from the pool with the relations the property
// names: independent, Q=P, Q=-P, Q=O, P=O, Q=2P, Q=-2P, neighbours k,k+1.
func relatedW(c *c13ref.WCurve, pool []wpt, r *lib.Rng) (p, q wpt, rel string) {
	p = pool[r.Intn(len(pool))]
	switch r.Intn(10) {
	case 0:
		return p, p, "Q=P"
	case 1:
		q = wpt{negK(p.K, c.N), c.Neg(p.P), p.Class}
		return p, q, "Q=-P"
	case 2:
		return p, wpt{big.NewInt(0), c.O(), "O"}, "Q=O"
	case 3:
		return wpt{big.NewInt(0), c.O(), "O"}, p, "P=O"
	case 4:
		return wpt{big.NewInt(0), c.O(), "O"}, wpt{big.NewInt(0), c.O(), "O"}, "O+O"
	case 5:
		q = wpt{mulK(p.K, 2, c.N), c.Double(p.P), p.Class}
		return p, q, "Q=2P"
	case 6:
		q = wpt{mulK(p.K, -2, c.N), c.Neg(c.Double(p.P)), p.Class}
		return p, q, "Q=-2P"
	default:
		return p, pool[r.Intn(len(pool))], "independent"
	}
}

// guarded runs f under lib.Try and turns a panic into a violation keyed by the entry point.
func guarded(mon, entry string, in []byte, f func()) bool {
	if pn := lib.Try(entry, in, f); pn != nil {
		lib.Violation("C13:panic:"+entry, mon, lib.D("input", in, "panic", pn.Value, "frame", pn.TopFrame()))
		return false
	}
	return true
}

func negK(k, n *big.Int) *big.Int {
	if k == nil {
		return nil
	}
	return new(big.Int).Mod(new(big.Int).Neg(k), n)
}

func mulK(k *big.Int, m int64, n *big.Int) *big.Int {
	if k == nil {
		return nil
	}
	return new(big.Int).Mod(new(big.Int).Mul(k, big.NewInt(m)), n)
}

func kbytes(k *big.Int) []byte {
	if k == nil {
		return []byte("?")
	}
	return k.Bytes()
}

func hexInt(k *big.Int) string {
	if k == nil {
		return "unknown"
	}
	return k.Text(16)
}

func wstr(p c13ref.WPoint) string {
	if p.Inf {
		return "O"
	}
	if p.X.B.Sign() != 0 || p.Y.B.Sign() != 0 {
		return "(" + p.X.A.Text(16) + "+" + p.X.B.Text(16) + "i, " + p.Y.A.Text(16) + "+" + p.Y.B.Text(16) + "i)"
	}
	return "(" + p.X.A.Text(16) + ", " + p.Y.A.Text(16) + ")"
}

func estr(p c13ref.EPoint) string {
	if p.X.B.Sign() != 0 || p.Y.B.Sign() != 0 {
		return "(" + p.X.A.Text(16) + "+" + p.X.B.Text(16) + "i, " + p.Y.A.Text(16) + "+" + p.Y.B.Text(16) + "i)"
	}
	return "(" + p.X.A.Text(16) + ", " + p.Y.A.Text(16) + ")"
}

// scalarWidthBytes encodes k big-endian at a width chosen among: minimal,
// exactly w, wider than w (leading zeros), and - for zero - the empty slice.
func scalarWidthBytes(r *lib.Rng, k *big.Int, w int) []byte {
	min := k.Bytes()
	switch r.Intn(4) {
	case 0:
		return min // minimal (empty for zero)
	case 1:
		if len(min) <= w {
			return c13ref.BE(k, w)
		}
		return min
	case 2:
		return append(make([]byte, 1+r.Intn(9)), c13ref.MinBE(k, w)...)
	default:
		if len(min) == 0 {
			return []byte{0}
		}
		return min
	}
}
