//go:build verif

// C13 white-box monitor of Goldilocks' internal twist curve
// (-x^2+y^2 = 1-39082x^2y^2): point formulas, oddMultiples, ScalarMult,
// ScalarBaseMult, CombinedMult and the push/pull 4-isogenies, against the
// big-integer reference of ref/c13ref.
package goldilocks

import (
	"math/big"
	"testing"

	"github.com/cloudflare/circl/internal/zzverif/lib"
	"github.com/cloudflare/circl/internal/zzverif/ref/c13ref"
	fp "github.com/cloudflare/circl/math/fp448"
)

const vc13Mon = "TestVerifC13GoldilocksTwist"

type vc13Pt struct {
	K     *big.Int
	P     c13ref.EPoint // on the twist
	Class string
}

func vc13Elt(v *big.Int) fp.Elt {
	var e fp.Elt
	copy(e[:], c13ref.LE(v, fp.Size))
	return e
}

func vc13Scalar(k *big.Int) *Scalar {
	var s Scalar
	copy(s[:], c13ref.LE(k, ScalarSize))
	return &s
}

// vc13Twist builds (lx : ly : l : lx*y).
func vc13Twist(c *c13ref.ECurve, p c13ref.EPoint, l *big.Int) *twistPoint {
	f := c.F
	le := f.New(l, nil)
	return &twistPoint{
		x:  vc13Elt(f.Mul(p.X, le).A),
		y:  vc13Elt(f.Mul(p.Y, le).A),
		z:  vc13Elt(le.A),
		ta: vc13Elt(f.Mul(p.X, le).A),
		tb: vc13Elt(p.Y.A),
	}
}

func vc13Gold(c *c13ref.ECurve, p c13ref.EPoint, l *big.Int) *Point {
	t := vc13Twist(c, p, l)
	return &Point{x: t.x, y: t.y, z: t.z, ta: t.ta, tb: t.tb}
}

func vc13Norm(c *c13ref.ECurve, x, y, z, ta, tb *fp.Elt) (c13ref.EPoint, bool) {
	f := c.F
	X, Y, Z := f.New(c13ref.FromLE(x[:]), nil), f.New(c13ref.FromLE(y[:]), nil), f.New(c13ref.FromLE(z[:]), nil)
	Ta, Tb := f.New(c13ref.FromLE(ta[:]), nil), f.New(c13ref.FromLE(tb[:]), nil)
	zi, ok := f.Inv(Z)
	if !ok {
		return c.O(), false
	}
	consistent := f.Eq(f.Mul(f.Mul(Ta, Tb), Z), f.Mul(X, Y))
	return c13ref.EPoint{X: f.Mul(X, zi), Y: f.Mul(Y, zi)}, consistent
}

func vc13Str(p c13ref.EPoint) string { return "(" + p.X.A.Text(16) + ", " + p.Y.A.Text(16) + ")" }

func vc13Hex(k *big.Int) string {
	if k == nil {
		return "unknown"
	}
	return k.Text(16)
}

func vc13CheckT(c *c13ref.ECurve, op, class string, want c13ref.EPoint, got *twistPoint, detail map[string]any) bool {
	detail["case-class"], class = class, c13ref.Coarse(class)
	g, consistent := vc13Norm(c, &got.x, &got.y, &got.z, &got.ta, &got.tb)
	if !c.Eq(g, want) {
		detail["want"], detail["got"] = vc13Str(want), vc13Str(g)
		lib.Violation("C13:wrong-result:goldilocks.twist."+op+":"+class, vc13Mon, detail)
		return false
	}
	if !consistent {
		lib.Violation("C13:inconsistent-coordinates:goldilocks.twist."+op, vc13Mon, detail)
		return false
	}
	return true
}

func vc13CheckG(c *c13ref.ECurve, op, class string, want c13ref.EPoint, got *Point, detail map[string]any) bool {
	detail["case-class"], class = class, c13ref.Coarse(class)
	g, consistent := vc13Norm(c, &got.x, &got.y, &got.z, &got.ta, &got.tb)
	if !c.Eq(g, want) {
		detail["want"], detail["got"] = vc13Str(want), vc13Str(g)
		lib.Violation("C13:wrong-result:goldilocks."+op+":"+class, vc13Mon, detail)
		return false
	}
	if !consistent {
		lib.Violation("C13:inconsistent-coordinates:goldilocks."+op, vc13Mon, detail)
		return false
	}
	return true
}

// vc13Guard runs f under lib.Try and turns a panic into a violation.
func vc13Guard(entry string, in []byte, f func()) bool {
	if pn := lib.Try(entry, in, f); pn != nil {
		lib.Violation("C13:panic:"+entry, vc13Mon, lib.D("input", in, "panic", pn.Value, "frame", pn.TopFrame()))
		return false
	}
	return true
}

func vc13Lambda(r *lib.Rng, p *big.Int) *big.Int {
	switch r.Intn(4) {
	case 0:
		return big.NewInt(1)
	case 1:
		return new(big.Int).Sub(p, big.NewInt(int64(1+r.Intn(3))))
	default:
		l := new(big.Int).SetBytes(r.Bytes(64))
		l.Mod(l, p)
		if l.Sign() == 0 {
			l.SetInt64(2)
		}
		return l
	}
}

func TestVerifC13GoldilocksTwist(t *testing.T) {
	lib.Mandatory("twist.mixAdd", "twist.mixAdd:Q=P", "twist.mixAdd:Q=-P", "twist.mixAdd:Q=O", "twist.mixAdd:P=O", "twist.mixAddZ1", "twist.Double", "twist.Double:O", "twist.cneg",
		"twist.oddMultiples", "twist.ScalarMult", "twist.ScalarMult:k>=N", "twist.ScalarMult:k=0", "twist.ScalarMult:P=O", "twist.ScalarBaseMult", "twist.CombinedMult",
		"twist.cm:mG=nQ", "twist.cm:mG=-nQ", "twist.cm:Q=G,m=n", "twist.cm:Q=O", "twist.cm:m=0", "twist.cm:n=0", "twist.cm:unreduced",
		"iso.push", "iso.pull", "iso.pull-push=[4]", "iso.push:O", "twist.projective-input")
	gold := c13ref.Ed448()
	tw := c13ref.Ed448Twist()
	N := tw.N
	// self-checks of what this file relies on
	if !tw.IsOnCurve(tw.G) || !tw.IsO(tw.Mul(N, tw.G)) || tw.IsO(tw.G) {
		t.Fatalf("reference twist generator is not a point of order n on the twist")
	}
	if back, ok := c13ref.Iso4(tw, tw.G); !ok || !gold.Eq(back, gold.Mul(big.NewInt(4), gold.G)) {
		t.Fatalf("reference isogenies do not compose to [4]")
	}
	if c13ref.FromLE(order[:]).Cmp(N) != 0 {
		lib.Violation("C13:wrong-constant:goldilocks.order", vc13Mon, lib.D("got", order[:]))
	}
	if c13ref.FromLE(paramDTwist[:]).Cmp(tw.D.A) != 0 || c13ref.FromLE(paramD[:]).Cmp(gold.D.A) != 0 {
		lib.Violation("C13:wrong-constant:goldilocks.paramD", vc13Mon, lib.D("d", paramD[:], "dTwist", paramDTwist[:]))
	}

	// pool of twist points of odd order: k * phi(G), plus phi(4 * lifted)
	r0 := lib.NewRng("c13/twist/pool", 0)
	ks := c13ref.PoolK(r0, N, lib.Scale(24, 300))
	nLift := lib.Scale(12, 100)
	pool := make([]vc13Pt, len(ks)+nLift)
	lib.Par(len(pool), func(i int) {
		if i < len(ks) {
			cl := "kG"
			if ks[i].Sign() == 0 {
				cl = "O"
			}
			pool[i] = vc13Pt{ks[i], tw.MulG(ks[i]), cl}
			return
		}
		rr := lib.NewRng("c13/twist/pool/lift", i)
		for {
			y := gold.F.New(new(big.Int).SetBytes(rr.Bytes(70)), nil)
			p, ok := gold.LiftY(y)
			if !ok {
				continue
			}
			p = gold.Mul(big.NewInt(4), p)
			if gold.IsO(p) {
				continue
			}
			q, ok := c13ref.Iso4(gold, p)
			if !ok || !tw.IsOnCurve(q) {
				continue
			}
			pool[i] = vc13Pt{nil, q, "lifted"}
			return
		}
	})
	related := func(r *lib.Rng) (p, q vc13Pt, rel string) {
		p = pool[r.Intn(len(pool))]
		o := vc13Pt{big.NewInt(0), tw.O(), "O"}
		nk := func(k *big.Int, m int64) *big.Int {
			if k == nil {
				return nil
			}
			return new(big.Int).Mod(new(big.Int).Mul(k, big.NewInt(m)), N)
		}
		switch r.Intn(10) {
		case 0:
			return p, p, "Q=P"
		case 1:
			return p, vc13Pt{nk(p.K, -1), tw.Neg(p.P), p.Class}, "Q=-P"
		case 2:
			return p, o, "Q=O"
		case 3:
			return o, p, "P=O"
		case 4:
			return o, o, "O+O"
		case 5:
			return p, vc13Pt{nk(p.K, 2), tw.Double(p.P), p.Class}, "Q=2P"
		case 6:
			return p, vc13Pt{nk(p.K, -2), tw.Neg(tw.Double(p.P)), p.Class}, "Q=-2P"
		default:
			return p, pool[r.Intn(len(pool))], "independent"
		}
	}

	// the twist's fixed base point: ScalarBaseMult(1) must be phi(G)
	{
		lib.CaseS("twist", "generator")
		one := vc13Scalar(big.NewInt(1))
		vc13CheckT(tw, "ScalarBaseMult", "generator", tw.G, twistCurve{}.ScalarBaseMult(one), lib.D("k", "1"))
		vc13CheckT(tw, "Identity", "O", tw.O(), twistCurve{}.Identity(), lib.D())
	}

	n := lib.Scale(400, 40000)
	// ---- formulas
	lib.Par(n, func(i int) {
		r := lib.NewRng("c13/twist/add", i)
		p, q, rel := related(r)
		lp, lq := vc13Lambda(r, tw.F.P), vc13Lambda(r, tw.F.P)
		if lp.Cmp(big.NewInt(1)) != 0 {
			lib.Count("twist.projective-input")
		}
		P, Q := vc13Twist(tw, p.P, lp), vc13Twist(tw, q.P, lq)
		det := func(kv ...any) map[string]any {
			d := lib.D(kv...)
			d["P"], d["Q"], d["rel"], d["lambdaP"], d["lambdaQ"] = vc13Str(p.P), vc13Str(q.P), rel, lp.Text(16), lq.Text(16)
			return d
		}
		want := tw.MustAdd(p.P, q.P)
		var Q2 preTwistPointProy
		Q2.FromTwistPoint(Q)
		A := *P
		lib.Case([]byte("twist.mixAdd"), p.P.Bytes(), q.P.Bytes(), lp.Bytes(), lq.Bytes())
		lib.Count("twist.mixAdd")
		lib.Count("twist.mixAdd:" + rel)
		if pn := lib.Try("twistPoint.mixAdd", nil, func() { A.mixAdd(&Q2) }); pn != nil {
			lib.Violation("C13:panic:goldilocks.twist.mixAdd", vc13Mon, det("panic", pn.Value))
			return
		}
		if !vc13CheckT(tw, "mixAdd", rel, want, &A, det()) {
			return
		}
		var Q3 preTwistPointProy
		Q3.FromTwistPoint(vc13Twist(tw, q.P, big.NewInt(1)))
		B := *P
		lib.Case([]byte("twist.mixAddZ1"), p.P.Bytes(), q.P.Bytes(), lp.Bytes())
		lib.Count("twist.mixAddZ1")
		B.mixAddZ1(&Q3.preTwistPointAffine)
		if !vc13CheckT(tw, "mixAddZ1", rel, want, &B, det()) {
			return
		}
		N3 := Q3.preTwistPointAffine
		N3.neg()
		B = *P
		B.mixAddZ1(&N3)
		if !vc13CheckT(tw, "mixAddZ1", "negated-operand", tw.MustAdd(p.P, tw.Neg(q.P)), &B, det()) {
			return
		}
		C3 := Q3.preTwistPointAffine
		C3.cneg(1)
		B = *P
		B.mixAddZ1(&C3)
		if !vc13CheckT(tw, "mixAddZ1", "cneg-operand", tw.MustAdd(p.P, tw.Neg(q.P)), &B, det()) {
			return
		}
		D := *P
		D.Double()
		lib.Case([]byte("twist.Double"), p.P.Bytes(), lp.Bytes())
		lib.Count("twist.Double")
		if tw.IsO(p.P) {
			lib.Count("twist.Double:O")
		}
		if !vc13CheckT(tw, "Double", p.Class, tw.Double(p.P), &D, det()) {
			return
		}
		D = A
		D.Double()
		lib.Count("twist.Double")
		if tw.IsO(want) {
			lib.Count("twist.Double:O")
		}
		if !vc13CheckT(tw, "Double", "chained", tw.Double(want), &D, det()) {
			return
		}
		M := *P
		M.cneg(1)
		lib.Count("twist.cneg")
		if !vc13CheckT(tw, "cneg", "1", tw.Neg(p.P), &M, det()) {
			return
		}
		M = *P
		M.cneg(0)
		if !vc13CheckT(tw, "cneg", "0", p.P, &M, det()) {
			return
		}
		if i%4 == 0 {
			var T [8]preTwistPointProy
			W := *P
			W.oddMultiples(T[:])
			lib.Case([]byte("twist.oddMultiples"), p.P.Bytes(), lp.Bytes())
			lib.Count("twist.oddMultiples")
			for j := range T {
				I := twistCurve{}.Identity()
				I.mixAdd(&T[j])
				if !vc13CheckT(tw, "oddMultiples", "entry", tw.Mul(big.NewInt(int64(2*j+1)), p.P), I, det("index", j)) {
					return
				}
			}
		}
		if i == 0 {
			lib.Sample(vc13Mon, det("op", "mixAdd", "result", vc13Str(want)))
		}
	})

	// ---- isogenies: push (Goldilocks -> twist), pull (twist -> Goldilocks), pull.push = [4]
	lib.Par(n, func(i int) {
		r := lib.NewRng("c13/twist/iso", i)
		tp := pool[r.Intn(len(pool))]
		lp := vc13Lambda(r, tw.F.P)
		// pull: twist -> Goldilocks
		wantG, ok := c13ref.Iso4(tw, tp.P)
		if !ok {
			return
		}
		T := vc13Twist(tw, tp.P, lp)
		lib.Case([]byte("iso.pull"), tp.P.Bytes(), lp.Bytes())
		lib.Count("iso.pull")
		if tw.IsO(tp.P) {
			lib.Count("iso.push:O")
		}
		G1 := Curve{}.pull(T)
		det := lib.D("T", vc13Str(tp.P), "lambda", lp.Text(16))
		if !vc13CheckG(gold, "pull", tp.Class, wantG, G1, det) {
			return
		}
		// push of that Goldilocks point (projective as returned, and re-scaled affine)
		wantT, ok := c13ref.Iso4(gold, wantG)
		if !ok {
			return
		}
		lib.Case([]byte("iso.push"), wantG.Bytes(), lp.Bytes())
		lib.Count("iso.push")
		if !vc13CheckT(tw, "push", "chained", wantT, Curve{}.push(G1), det) {
			return
		}
		if !vc13CheckT(tw, "push", tp.Class, wantT, Curve{}.push(vc13Gold(gold, wantG, lp)), det) {
			return
		}
		// composition = multiplication by 4 on each side
		lib.Count("iso.pull-push=[4]")
		if !tw.Eq(wantT, tw.Mul(big.NewInt(4), tp.P)) {
			t.Errorf("reference: push(pull(T)) != 4T")
		}
		back := Curve{}.pull(Curve{}.push(vc13Gold(gold, wantG, lp)))
		vc13CheckG(gold, "pull.push", "[4]", gold.Mul(big.NewInt(4), wantG), back, det)
	})

	// ---- ScalarMult / ScalarBaseMult on the twist (reference cost ~25 ms per case: fewer cases than the formulas)
	nm := lib.Scale(400, 8000)
	lib.Par(nm, func(i int) {
		r := lib.NewRng("c13/twist/mul", i)
		p := pool[r.Intn(len(pool))]
		k, kclass := c13ref.GenScalar(r, N, ScalarSize)
		if i == 1 {
			k.SetInt64(0)
		}
		lp := vc13Lambda(r, tw.F.P)
		P := vc13Twist(tw, p.P, lp)
		want := tw.Mul(k, p.P)
		lib.Case([]byte("twist.ScalarMult"), p.P.Bytes(), k.Bytes(), lp.Bytes())
		lib.Count("twist.ScalarMult")
		lib.Count("twist.scalar:" + kclass)
		if k.Cmp(N) >= 0 {
			lib.Count("twist.ScalarMult:k>=N")
		}
		if new(big.Int).Mod(k, N).Sign() == 0 {
			lib.Count("twist.ScalarMult:k=0")
		}
		if tw.IsO(p.P) {
			lib.Count("twist.ScalarMult:P=O")
		}
		det := lib.D("P", vc13Str(p.P), "dlogP", vc13Hex(p.K), "k", k.Text(16), "lambda", lp.Text(16))
		var R *twistPoint
		ks := vc13Scalar(k)
		if pn := lib.Try("twistCurve.ScalarMult", ks[:], func() { R = twistCurve{}.ScalarMult(ks, P) }); pn != nil {
			det["panic"] = pn.Value
			lib.Violation("C13:panic:goldilocks.twist.ScalarMult", vc13Mon, det)
		} else {
			vc13CheckT(tw, "ScalarMult", kclass, want, R, det)
		}
		lib.Case([]byte("twist.ScalarBaseMult"), k.Bytes())
		lib.Count("twist.ScalarBaseMult")
		ks = vc13Scalar(k)
		if pn := lib.Try("twistCurve.ScalarBaseMult", ks[:], func() { R = twistCurve{}.ScalarBaseMult(ks) }); pn != nil {
			lib.Violation("C13:panic:goldilocks.twist.ScalarBaseMult", vc13Mon, lib.D("k", k.Text(16), "panic", pn.Value))
		} else {
			vc13CheckT(tw, "ScalarBaseMult", kclass, tw.MulG(k), R, lib.D("k", k.Text(16)))
		}
	})

	// ---- exhaustive ends of the scalar range, exhaustive small grid of CombinedMult
	{
		sw := c13ref.SweepScalars(N, lib.Scale(300, 4000), lib.Scale(40, 600))
		var lifted vc13Pt
		for _, e := range pool {
			if e.Class == "lifted" {
				lifted = e
				break
			}
		}
		lib.Mandatory("twist.sweep", "twist.cm:small-grid")
		lib.Par(len(sw), func(i int) {
			k := sw[i]
			lib.Case([]byte("twist.sweep"), k.Bytes())
			lib.Count("twist.sweep")
			var R1, R2 *twistPoint
			if !vc13Guard("goldilocks.twist.ScalarBaseMult", k.Bytes(), func() { R1 = twistCurve{}.ScalarBaseMult(vc13Scalar(k)) }) ||
				!vc13Guard("goldilocks.twist.ScalarMult", k.Bytes(), func() { R2 = twistCurve{}.ScalarMult(vc13Scalar(k), vc13Twist(tw, lifted.P, big.NewInt(1))) }) {
				return
			}
			vc13CheckT(tw, "ScalarBaseMult", "sweep", tw.MulG(k), R1, lib.D("k", k.Text(16)))
			vc13CheckT(tw, "ScalarMult", "sweep", tw.Mul(k, lifted.P), R2, lib.D("k", k.Text(16), "P", vc13Str(lifted.P)))
		})
		grid := c13ref.SmallGrid(8)
		lib.Par(len(grid), func(i int) {
			g := grid[i]
			kq, mm, nn := big.NewInt(g[0]), big.NewInt(g[1]), big.NewInt(g[2])
			qp := tw.MulG(kq)
			want := tw.MustAdd(tw.MulG(mm), tw.Mul(nn, qp))
			lib.Case([]byte("twist.CombinedMult"), qp.Bytes(), mm.Bytes(), nn.Bytes())
			lib.Count("twist.CombinedMult")
			lib.Count("twist.cm:small-grid")
			var R *twistPoint
			if !vc13Guard("goldilocks.twist.CombinedMult", append(mm.Bytes(), nn.Bytes()...), func() {
				R = twistCurve{}.CombinedMult(vc13Scalar(mm), vc13Scalar(nn), vc13Twist(tw, qp, big.NewInt(1)))
			}) {
				return
			}
			vc13CheckT(tw, "CombinedMult", "related-Q", want, R,
				lib.D("Q", vc13Str(qp), "dlogQ", kq.String(), "m", mm.String(), "n", nn.String(), "class", "small-grid"))
		})
	}

	// ---- CombinedMult(m, n, Q) = m*tG + n*Q on the twist
	G := vc13Pt{big.NewInt(1), tw.G, "kG"}
	lim := new(big.Int).Lsh(big.NewInt(1), 448)
	lib.Par(nm, func(i int) {
		r := lib.NewRng("c13/twist/cm", i)
		q := pool[r.Intn(len(pool))]
		nn, _ := c13ref.GenScalar(r, N, ScalarSize)
		mm, _ := c13ref.GenScalar(r, N, ScalarSize)
		cl := "independent"
		mode := r.Intn(12)
		if q.K == nil && mode < 6 {
			mode = 6 + r.Intn(6)
		}
		modN := func(v *big.Int) *big.Int { return new(big.Int).Mod(v, N) }
		switch mode {
		case 0:
			q, mm, cl = G, nn, "Q=G,m=n"
		case 1:
			mm, cl = modN(new(big.Int).Mul(q.K, nn)), "mG=nQ"
		case 2:
			mm, cl = modN(new(big.Int).Neg(new(big.Int).Mul(q.K, nn))), "mG=-nQ"
		case 3:
			mm = modN(new(big.Int).Mul(q.K, nn))
			mm.Add(mm, new(big.Int).Mul(N, big.NewInt(int64(1+r.Intn(3)))))
			cl = "mG=nQ"
		case 4:
			mm = new(big.Int).Add(N, big.NewInt(int64(r.Intn(5)-2)))
			nn = new(big.Int).Add(N, big.NewInt(int64(r.Intn(5)-2)))
			cl = "unreduced"
		case 5:
			kq := big.NewInt(int64(1 + r.Intn(3)))
			q = vc13Pt{kq, tw.MulG(kq), "kG"}
			mm = new(big.Int).Add(new(big.Int).Mul(modN(nn), kq), big.NewInt(int64(r.Intn(64))))
			cl = "mG~nQ"
		case 6:
			q, cl = vc13Pt{big.NewInt(0), tw.O(), "O"}, "Q=O"
		case 7:
			mm, cl = big.NewInt(0), "m=0"
		case 8:
			nn, cl = big.NewInt(0), "n=0"
		case 9:
			nn = new(big.Int).Add(N, big.NewInt(int64(r.Intn(160)-40)))
			mm = big.NewInt(int64(r.Intn(3)))
			if r.Bool() {
				mm = big.NewInt(0)
			}
			cl = "n~N"
		}
		if mm.Cmp(lim) >= 0 {
			mm.Mod(mm, N)
		}
		lq := vc13Lambda(r, tw.F.P)
		Q := vc13Twist(tw, q.P, lq)
		want := tw.MustAdd(tw.MulG(mm), tw.Mul(nn, q.P))
		lib.Case([]byte("twist.CombinedMult"), q.P.Bytes(), mm.Bytes(), nn.Bytes())
		lib.Count("twist.CombinedMult")
		lib.Count("twist.cm:" + cl)
		det := lib.D("Q", vc13Str(q.P), "dlogQ", vc13Hex(q.K), "m", mm.Text(16), "n", nn.Text(16), "class", cl, "lambdaQ", lq.Text(16))
		var R *twistPoint
		ms, ns := vc13Scalar(mm), vc13Scalar(nn)
		if pn := lib.Try("twistCurve.CombinedMult", append(append([]byte{}, ms[:]...), ns[:]...), func() { R = twistCurve{}.CombinedMult(ms, ns, Q) }); pn != nil {
			det["panic"] = pn.Value
			lib.Violation("C13:panic:goldilocks.twist.CombinedMult", vc13Mon, det)
			return
		}
		vc := "related-Q"
		if q.K == nil {
			vc = "unrelated-Q"
		}
		vc13CheckT(tw, "CombinedMult", vc, want, R, det)
	})
}
