module verif/testdata/gen

go 1.22.0

require github.com/cloudflare/circl v0.0.0

replace github.com/cloudflare/circl => /repo
