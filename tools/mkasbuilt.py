#!/usr/bin/env python3
# prints the "as built" table for DESIGN.md from h/*/units.json and evidence/*.json
import json, glob, os
print('| prop | units (package: quick configurations / thorough configurations) | quick run: children, evaluations, distinct, wall |')
print('|---|---|---|')
for d in sorted(glob.glob('/verif/h/c[0-9][0-9]')):
    u = json.load(open(d + '/units.json'))
    pid = u['property']
    parts = []
    for x in u['units']:
        nb = len(x.get('batches') or [1])
        parts.append('`%s` %s%s: %s / %s' % (x['name'], x['pkg'].replace('internal/zzverif/', 'zzverif/'), (' x%d batches' % nb) if nb > 1 else '',
            ','.join(x.get('quick', [])), ','.join(x.get('thorough') or x.get('quick', []))))
    ev = {}
    p = '/verif/evidence/%s.json' % pid
    if os.path.exists(p):
        ev = json.load(open(p))
    c = ev.get('coverage', {})
    print('| %s | %s | %s children, %s evaluations, %s distinct, %ss (%s) |' % (pid, '<br>'.join(parts), len(c.get('children', [])),
        c.get('evaluations'), c.get('distinct_nontrivial'), ev.get('wall_s'), ev.get('tier')))
