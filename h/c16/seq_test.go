//go:build verif

package c16

import (
	"fmt"
	"math/big"
	"sync"
	"sync/atomic"
	"testing"

	"github.com/cloudflare/circl/internal/zzverif/lib"
	"github.com/cloudflare/circl/oprf"
	"github.com/cloudflare/circl/ot/simot"
	"github.com/cloudflare/circl/zk/dl"
	"github.com/cloudflare/circl/zk/qndleq"
)

// TestVerifQNDLEQAdaptive: proofs assembled ADAPTIVELY for false statements
// whose elements are not units modulo N (0, N, a prime factor, a multiple of a
// factor).  For those values the verifier's modular inversions fail, so a
// verifier that mishandles the failure recomputes a predictable commitment;
// the forger guesses the commitment (0, 1, the element itself, h^r), derives
// the Fiat-Shamir challenge from it with the monitor's own challenge model and
// answers with Z = r + C*x for the side whose discrete logarithm it knows.
func TestVerifQNDLEQAdaptive(t *testing.T) {
	const mon = "TestVerifQNDLEQAdaptive"
	mods, err := qnModuli()
	if err != nil {
		t.Fatalf("moduli: %v", err)
	}
	lib.Mandatory("qndleq:adaptive-forgery-tried", "qndleq:adaptive-forgery-rejected")
	type cs struct {
		m *qnModulus
		i int
	}
	var cases []cs
	for _, m := range mods {
		per := lib.Scale(4, 24)
		if m.N.BitLen() > 1600 {
			per = lib.Scale(1, 4)
		}
		for i := 0; i < per; i++ {
			cases = append(cases, cs{m, i})
		}
	}
	lib.Par(len(cases), func(ci int) {
		c := cases[ci]
		N := c.m.N
		r := lib.NewRng("c16/qndleq-adaptive/"+c.m.name, c.i)
		g, _ := qndleq.SampleQn(r, N)
		h, _ := qndleq.SampleQn(r, N)
		x := new(big.Int).SetBytes(r.Bytes(16))
		gx := new(big.Int).Exp(g, x, N)
		hx := new(big.Int).Exp(h, x, N)
		nonUnits := []*big.Int{big.NewInt(0), new(big.Int).Set(N), new(big.Int).Set(c.m.p), new(big.Int).Set(c.m.q),
			new(big.Int).Mul(c.m.p, big.NewInt(2)), new(big.Int).Sub(N, c.m.p)}
		for _, bad := range nonUnits {
			for side := 0; side < 2; side++ { // 0: hx replaced (prover knows x for gx), 1: gx replaced
				st := qnStmt{g, gx, h, hx, N}
				if side == 0 {
					st.hx = bad
				} else {
					st.gx = bad
				}
				for _, sp := range []uint{128, 64, 16} {
					rr := new(big.Int).SetBytes(r.Bytes(int((uint(N.BitLen())+2*sp+7)/8) + 1))
					gr := new(big.Int).Exp(g, rr, N)
					hr := new(big.Int).Exp(h, rr, N)
					guesses := []*big.Int{big.NewInt(0), big.NewInt(1), new(big.Int).Mod(bad, N), gr, hr}
					for _, guess := range guesses {
						var C *big.Int
						if side == 0 {
							C = qnChallenge(st.g, st.gx, st.h, st.hx, gr, guess, N, sp)
						} else {
							C = qnChallenge(st.g, st.gx, st.h, st.hx, guess, hr, N, sp)
						}
						Z := new(big.Int).Add(rr, new(big.Int).Mul(C, x))
						p := qndleq.Proof{Z: Z, C: C, SecParam: sp}
						lib.Case([]byte("qndleq-adaptive"), st.bytes(), Z.Bytes(), C.Bytes())
						lib.Count("qndleq:adaptive-forgery-tried")
						ok, pn := qnVerify("adaptive-forgery", p, st)
						if pn != nil {
							continue // C10's business
						}
						if ok {
							lib.Violation("C16:forge:qndleq.Proof.Verify:non-unit-statement-element", mon,
								withKV(st.d(), "modulus", c.m.name, "side", side, "Z", Z.Text(16), "C", C.Text(16), "SecParam", sp, "guessed_commitment", guess.Text(16)))
						} else {
							lib.Count("qndleq:adaptive-forgery-rejected")
						}
					}
				}
			}
		}
	})
}

// TestVerifSimOTReuse: one Sender and one Receiver object run several OTs in
// a row (as the package's own benchmark does); every transfer must still give
// the receiver exactly the chosen message.
func TestVerifSimOTReuse(t *testing.T) {
	const mon = "TestVerifSimOTReuse"
	lib.Mandatory("simot:reuse-transfers")
	for _, gr := range groups {
		for run := 0; run < lib.Scale(4, 60); run++ {
			r := lib.NewRng("c16/simot-reuse/"+gr.name, run)
			var sender simot.Sender
			var receiver simot.Receiver
			var trace []int
			for ot := 0; ot < 6; ot++ {
				choice := r.Intn(2)
				if run%2 == 0 && ot > 0 {
					choice = 1 // the interesting direction for stale sender state
				}
				trace = append(trace, choice)
				l := r.Intn(40)
				m0, m1 := r.Bytes(l), r.Bytes(l)
				lib.Case([]byte("simot-reuse"), []byte(gr.name), m0, m1, []byte{byte(choice), byte(ot)})
				lib.Count("simot:reuse-transfers")
				var got []byte
				var rerr error
				pn := lib.Try("simot.reuse", nil, func() {
					A := sender.InitSender(gr.g, m0, m1, ot)
					B := receiver.Round1Receiver(gr.g, choice, ot, A)
					e0, e1 := sender.Round2Sender(B)
					rerr = receiver.Round3Receiver(e0, e1, choice)
					got = receiver.Returnmc()
				})
				want := [2][]byte{m0, m1}[choice]
				if pn != nil || rerr != nil || !lib.Eq(got, want) {
					lib.Violation("C16:ot-wrong-message:simot:reused-sender-receiver", mon,
						lib.D("group", gr.name, "transfer", ot, "choices_so_far", trace, "err", rerr, "got", got, "want", want))
					break
				}
			}
		}
	}
}

// TestVerifOPRFCopyBlinds: the blinds handed out by FinalizeData.CopyBlinds
// are copies; overwriting them must not change what Finalize returns.
func TestVerifOPRFCopyBlinds(t *testing.T) {
	const mon = "TestVerifOPRFCopyBlinds"
	lib.Mandatory("oprf:copyblinds-checked")
	for _, su := range []oprf.Suite{oprf.SuiteRistretto255, oprf.SuiteP256, oprf.SuiteP384, oprf.SuiteP521} {
		for i := 0; i < lib.Scale(3, 40); i++ {
			r := lib.NewRng("c16/copyblinds/"+su.Identifier(), i)
			key, err := oprf.DeriveKey(su, oprf.VerifiableMode, r.Bytes(32), nil)
			if err != nil {
				t.Fatal(err)
			}
			inputs := [][]byte{r.Bytes(1 + r.Intn(20)), r.Bytes(r.Intn(20))}
			srv := oprf.NewVerifiableServer(su, key)
			cl := oprf.NewVerifiableClient(su, srv.PublicKey())
			fd, req, err := cl.Blind(inputs)
			if err != nil {
				t.Fatal(err)
			}
			lib.Case([]byte("copyblinds"), []byte(su.Identifier()), inputs[0], inputs[1])
			lib.Count("oprf:copyblinds-checked")
			blinds := fd.CopyBlinds()
			for _, b := range blinds {
				b.SetUint64(uint64(7 + i)) // scribble over the returned objects
			}
			ev, err := srv.Evaluate(req)
			if err != nil {
				t.Fatal(err)
			}
			outs, err := cl.Finalize(fd, ev)
			if err != nil {
				lib.Violation("C16:honest-rejected:oprf.Finalize:after-CopyBlinds-modified", mon, lib.D("suite", su.Identifier(), "err", err))
				continue
			}
			for j, in := range inputs {
				want, _ := srv.FullEvaluate(in)
				if !lib.Eq(outs[j], want) {
					lib.Violation("C16:output-mismatch:oprf.Finalize:after-CopyBlinds-modified", mon,
						lib.D("suite", su.Identifier(), "input", in, "client", outs[j], "server", want))
				}
			}
		}
	}
}

// TestVerifOPRFSharedServer: one server value per mode (and copies of it: the
// servers are value types) is used by 16 goroutines at once for FullEvaluate
// and VerifyFinalize on long inputs; every result must equal the one the same
// call gives when made alone.
func TestVerifOPRFSharedServer(t *testing.T) {
	const mon = "TestVerifOPRFSharedServer"
	lib.Mandatory("oprf:shared-server-calls")
	for _, si := range suites {
		su := si.s
		r := lib.NewRng("c16/shared-server/"+su.Identifier(), 0)
		key, err := oprf.DeriveKey(su, oprf.BaseMode, r.Bytes(32), []byte("shared"))
		if err != nil {
			t.Fatalf("harness: %v", err)
		}
		info := r.Bytes(9)
		type fe func(in []byte) ([]byte, error)
		type vf func(in, out []byte) bool
		base := oprf.NewServer(su, key)
		ver := oprf.NewVerifiableServer(su, key)
		par := oprf.NewPartialObliviousServer(su, key)
		modes := []struct {
			name  string
			full  fe
			full2 fe // through a copy of the server value
			chk   vf
		}{
			{"base", base.FullEvaluate, func(in []byte) ([]byte, error) { c := base; return c.FullEvaluate(in) }, base.VerifyFinalize},
			{"verifiable", ver.FullEvaluate, func(in []byte) ([]byte, error) { c := ver; return c.FullEvaluate(in) }, ver.VerifyFinalize},
			{"partial", func(in []byte) ([]byte, error) { return par.FullEvaluate(in, info) }, func(in []byte) ([]byte, error) { c := par; return c.FullEvaluate(in, info) },
				func(in, out []byte) bool { return par.VerifyFinalize(in, info, out) }},
		}
		const workers = 16
		inputs := make([][]byte, workers)
		for i := range inputs {
			inputs[i] = r.Bytes(20000 + 1000*i)
		}
		for _, md := range modes {
			want := make([][]byte, workers)
			for i := range inputs {
				want[i], err = md.full(inputs[i])
				if err != nil {
					t.Fatalf("harness: sequential FullEvaluate: %v", err)
				}
			}
			var wg sync.WaitGroup
			var reported int32
			for round := 0; round < lib.Scale(3, 30); round++ {
				for w := 0; w < workers; w++ {
					w := w
					wg.Add(1)
					go func() {
						defer wg.Done()
						var got []byte
						var e error
						okV := true
						pn := lib.Try("oprf.FullEvaluate:concurrent", inputs[w][:16], func() {
							if w%2 == 0 {
								got, e = md.full(inputs[w])
							} else {
								got, e = md.full2(inputs[w])
							}
							okV = md.chk(inputs[w], want[w])
						})
						lib.Count("oprf:shared-server-calls")
						if (pn != nil || e != nil || !lib.Eq(got, want[w]) || !okV) && atomic.CompareAndSwapInt32(&reported, 0, 1) {
							lib.Violation("C16:output-mismatch:oprf."+md.name+":shared-server-used-by-several-goroutines", mon,
								lib.D("suite", su.Identifier(), "goroutines", workers, "panic", pn != nil, "err", e, "same_as_alone", lib.Eq(got, want[w]), "verify_finalize", okV))
						}
					}()
				}
				wg.Wait()
			}
			lib.CaseS("shared-server", su.Identifier(), md.name)
		}
	}
}

// TestVerifDLAdaptive: adaptive forgeries against the Schnorr proof of
// knowledge (zk/dl).  The Fiat-Shamir challenge has to bind EVERY element of
// the statement.  The forger takes the challenge c the implementation itself
// uses for (V, A) - extracted from an honest proof made with known commitment
// randomness, c = (v - r)/k - keeps V, picks a fresh response r' and SOLVES the
// verification equation for one statement element: the base G' = [1/r'](V -
// [c]A), or the public value A' = [1/c](V - [r']G).  If the challenge did not
// depend on that element the proof (V, r') verifies for a statement nobody
// proved.  (ristretto255 draws the commitment from crypto/rand whatever reader
// is supplied, so its v is unknown to the forger: P-curves only.)
func TestVerifDLAdaptive(t *testing.T) {
	const mon = "TestVerifDLAdaptive"
	lib.Mandatory("dl:adaptive-forgery-tried", "dl:adaptive-forgery-rejected")
	for _, gr := range groups {
		if gr.le {
			continue
		}
		g := gr.g
		for i := 0; i < lib.Scale(6, 60); i++ {
			r := lib.NewRng("c16/dl-adaptive/"+gr.name, i)
			G := g.Generator().Copy()
			if i%2 == 1 {
				G = gr.randElement(r)
			}
			k := gr.randScalar(r)
			A := g.NewElement().Mul(G, k)
			uid, oi := r.Bytes(r.Intn(20)), r.Bytes(r.Intn(20))
			seed := r.Bytes(32)
			pr := dl.Prove(g, G, A, k, uid, oi, lib.NewRng("c16/dl-adaptive/v/"+string(seed), 0))
			v := g.RandomNonZeroScalar(lib.NewRng("c16/dl-adaptive/v/"+string(seed), 0))
			if !g.NewElement().Mul(G, v).IsEqual(pr.V) {
				lib.Count("dl:commitment-randomness-not-replayable")
				continue
			}
			// c = (v - r)/k
			c := g.NewScalar().Sub(v, pr.R)
			c.Mul(c, g.NewScalar().Inv(k))
			if c.IsZero() {
				continue
			}
			rp := gr.randScalar(r)
			cA := g.NewElement().Mul(A, c)
			// --- forged base
			Gf := g.NewElement().Add(pr.V, g.NewElement().Neg(cA))
			Gf.Mul(Gf, g.NewScalar().Inv(rp))
			lib.Count("dl:adaptive-forgery-tried")
			lib.CaseS("dl-adaptive", gr.name, "base")
			if ok, _ := tryBool("dl.Verify:forged-base", nil, func() bool { return dl.Verify(g, Gf, A, dl.Proof{V: pr.V, R: rp}, uid, oi) }); ok {
				lib.Violation("C16:forge:dl.Verify:challenge-does-not-bind-the-base", mon, lib.D("group", gr.name, "G", mustElt(Gf), "A", mustElt(A), "V", mustElt(pr.V), "R", mustScl(rp)))
			} else {
				lib.Count("dl:adaptive-forgery-rejected")
			}
			// --- forged public value
			rG := g.NewElement().Mul(G, rp)
			Af := g.NewElement().Add(pr.V, g.NewElement().Neg(rG))
			Af.Mul(Af, g.NewScalar().Inv(c))
			lib.Count("dl:adaptive-forgery-tried")
			if ok, _ := tryBool("dl.Verify:forged-public-value", nil, func() bool { return dl.Verify(g, G, Af, dl.Proof{V: pr.V, R: rp}, uid, oi) }); ok {
				lib.Violation("C16:forge:dl.Verify:challenge-does-not-bind-the-public-value", mon, lib.D("group", gr.name, "G", mustElt(G), "A", mustElt(Af), "V", mustElt(pr.V), "R", mustScl(rp)))
			} else {
				lib.Count("dl:adaptive-forgery-rejected")
			}
		}
	}
}

// TestVerifOPRFRekeyedServerKey: "the client's finalised outputs equal the
// server's direct evaluation" for every server key, also when the server's
// key OBJECT is loaded with a new key after it has served requests under the
// old one (same infos, same inputs): FullEvaluate and the blind protocol
// under the reloaded object must equal those of a fresh object holding the
// new key, in all three modes.
func TestVerifOPRFRekeyedServerKey(t *testing.T) {
	const mon = "TestVerifOPRFRekeyedServerKey"
	lib.Mandatory("oprf-rekey:histories")
	suites := []oprf.Suite{oprf.SuiteRistretto255, oprf.SuiteP256, oprf.SuiteP384, oprf.SuiteP521}
	modes := []oprf.Mode{oprf.BaseMode, oprf.VerifiableMode, oprf.PartialObliviousMode}
	for si, su := range suites {
		for _, m := range modes {
			for h := 0; h < lib.Scale(2, 12); h++ {
				r := lib.NewRng("c16/rekey/"+su.Identifier(), int(m)*100+h)
				infos := [][]byte{r.Bytes(5), nil, r.Bytes(40)}
				inputs := [][]byte{r.Bytes(10), r.Bytes(1)}
				var keys [][]byte
				for k := 0; k < 3; k++ {
					sk, _ := oprf.DeriveKey(su, m, r.Bytes(32), r.Bytes(4))
					b, _ := sk.MarshalBinary()
					keys = append(keys, b)
				}
				lib.CaseS("oprf-rekey", su.Identifier(), modeName(m), string(rune('a'+h)))
				lib.Count("oprf-rekey:histories")
				var used oprf.PrivateKey
				bad := false
				for step := 0; step < 5 && !bad; step++ {
					kb := keys[(step*2+si)%len(keys)]
					if err := used.UnmarshalBinary(su, lib.Clone(kb)); err != nil {
						lib.Violation("C16:own-key-refused:oprf.PrivateKey.UnmarshalBinary", mon, lib.D("err", err))
						return
					}
					var fresh oprf.PrivateKey
					_ = fresh.UnmarshalBinary(su, lib.Clone(kb))
					for _, info := range infos {
						for _, in := range inputs {
							a, e1 := oFull(su, m, &used, in, info)
							b, e2 := oFull(su, m, &fresh, in, info)
							// the blind protocol against the re-keyed object
							fd, req, berr := oBlind(su, m, fresh.Public(), [][]byte{in}, nil)
							var outs [][]byte
							var perr error
							if berr == nil {
								var ev *oprf.Evaluation
								if ev, perr = oEvaluate(su, m, &used, req, info); perr == nil {
									outs, perr = oFinalize(su, m, fresh.Public(), fd, ev, info)
								}
							}
							if (e1 == nil) != (e2 == nil) || !lib.Eq(a, b) || berr != nil || perr != nil || len(outs) != 1 || !lib.Eq(outs[0], b) {
								lib.Violation("C16:output-mismatch:oprf."+modeName(m)+":server-key-object-reloaded", mon,
									lib.D("suite", su.Identifier(), "step", step, "info", info, "input", in, "reloaded_object", a, "fresh_object", b,
										"protocol_error", fmt.Sprint(perr), "note", "the key object served requests under its previous key"))
								bad = true
							}
						}
					}
				}
			}
		}
	}
}

// TestVerifQNDLEQEmptyChallenge: the known finding of qndleq is that the
// PROVER chooses SecParam, so that with SecParam = 0 the challenge is empty
// (and with SecParam 1..8 a forgery costs a search over at most 256
// challenges).  What must still hold: for SecParam >= 1 the challenge is NOT
// empty - the fixed proof (Z arbitrary, C = 0) verifies for a false statement
// only when the hash happens to be 0, i.e. for about one statement in 2^SecParam
// (rounded up to whole octets: one in 256 for SecParam 1..8).  24 independent
// false statements per SecParam; more than a third of them accepted means the
// challenge carries no information.
func TestVerifQNDLEQEmptyChallenge(t *testing.T) {
	const mon = "TestVerifQNDLEQEmptyChallenge"
	lib.Mandatory("qndleq-empty-challenge:statements")
	N := new(big.Int).Mul(mustBigDec("1000000000000000000000007"), mustBigDec("1000000000000000000000049"))
	for sp := uint(1); sp <= 20; sp++ {
		accepted := 0
		const tries = 24
		for i := 0; i < tries; i++ {
			r := lib.NewRng("c16/qndleq-empty", int(sp)*100+i)
			sq := func() *big.Int {
				v := new(big.Int).SetBytes(r.Bytes(24))
				v.Mod(v, N)
				return v.Mul(v, v).Mod(v, N)
			}
			g, h, gx, hx := sq(), sq(), sq(), sq() // independent squares: log_g(gx) != log_h(hx)
			pf := qndleq.Proof{Z: new(big.Int).SetBytes(r.Bytes(20)), C: new(big.Int), SecParam: sp}
			ok := false
			if pn := lib.Try("qndleq.Proof.Verify:empty-challenge", nil, func() { ok = pf.Verify(g, gx, h, hx, N) }); pn != nil {
				continue
			}
			lib.Count("qndleq-empty-challenge:statements")
			if ok {
				accepted++
			}
		}
		lib.CaseS("qndleq-empty-challenge", fmt.Sprint(sp))
		if accepted*3 > tries {
			lib.Violation("C16:forge:qndleq.Proof.Verify:empty-challenge-for-nonzero-SecParam", mon,
				lib.D("SecParam", sp, "false_statements_tried", tries, "accepted_with_C_equal_0", accepted,
					"note", "a proof (Z arbitrary, C = 0) verifies for most false statements although SecParam >= 1"))
		}
	}
}

func mustBigDec(s string) *big.Int {
	v, ok := new(big.Int).SetString(s, 10)
	if !ok {
		panic(s)
	}
	return v
}
