//go:build verif

package c13

import (
	"crypto/elliptic"
	"fmt"
	"math/big"
	"sync"
	"testing"

	"github.com/cloudflare/circl/ecc/p384"
	"github.com/cloudflare/circl/group"
	"github.com/cloudflare/circl/internal/zzverif/lib"
	"github.com/cloudflare/circl/internal/zzverif/ref/c13ref"
)

const monP384 = "TestVerifP384"

var (
	p384Once sync.Once
	p384Ref  *c13ref.WCurve
	p384Pool []wpt
)

func p384Setup() {
	p384Once.Do(func() {
		p384Ref = nistRef(elliptic.P384())
		p384Pool = buildWPool(p384Ref, "c13/p384/pool", lib.Scale(40, 400), lib.Scale(16, 200), nil)
	})
}

func xy(p c13ref.WPoint) (*big.Int, *big.Int) {
	if p.Inf {
		return new(big.Int), new(big.Int)
	}
	return new(big.Int).Set(p.X.A), new(big.Int).Set(p.Y.A)
}

func xyStr(x, y *big.Int) string { return "(" + x.Text(16) + ", " + y.Text(16) + ")" }

// stdCheck compares the reference result with crypto/elliptic's; a mismatch
// is an oracle failure (the run becomes inconclusive), never a violation.
func stdCheck(t *testing.T, what string, want c13ref.WPoint, sx, sy *big.Int) {
	if !sameXY(want, sx, sy) {
		lib.Count("oracle-disagreement")
		t.Errorf("oracle disagreement (%s): big-int reference %s, crypto/elliptic %s", what, wstr(want), xyStr(sx, sy))
	}
}

func TestVerifP384(t *testing.T) {
	p384Setup()
	lib.Mandatory("p384.Add", "p384.Add:Q=P", "p384.Add:Q=-P", "p384.Add:Q=O", "p384.Add:P=O", "p384.Double", "p384.Double:O",
		"p384.ScalarMult", "p384.ScalarMult:k>=N", "p384.ScalarMult:P=O", "p384.ScalarMult:result=O", "p384.ScalarBaseMult",
		"p384.ScalarMult:wide", "p384.IsOnCurve:true", "p384.IsOnCurve:false")
	c := p384Ref
	cv := p384.P384()
	std := elliptic.P384()
	N := c.N
	n := lib.Scale(400, 40000)

	// ---- Add
	lib.Par(n, func(i int) {
		r := lib.NewRng("c13/p384/add", i)
		p, q, rel := relatedW(c, p384Pool, r)
		x1, y1 := xy(p.P)
		x2, y2 := xy(q.P)
		want := c.Add(p.P, q.P)
		lib.Case([]byte("p384.Add"), p.P.Bytes(), q.P.Bytes())
		lib.Count("p384.Add")
		lib.Count("p384.Add:" + rel)
		var gx, gy *big.Int
		if pn := lib.Try("p384.Add", append(x1.Bytes(), x2.Bytes()...), func() { gx, gy = cv.Add(x1, y1, x2, y2) }); pn != nil {
			lib.Violation("C13:panic:p384.Add", monP384, lib.D("P", wstr(p.P), "Q", wstr(q.P), "panic", pn.Value))
			return
		}
		if !sameXY(want, gx, gy) {
			lib.Violation("C13:wrong-result:p384.Add:"+c13ref.Coarse(rel), monP384, lib.D("rel", rel, "P", wstr(p.P), "Q", wstr(q.P), "want", wstr(want), "got", xyStr(gx, gy)))
		}
		if i%8 == 0 && !(p.P.Inf && q.P.Inf) {
			sx, sy := std.Add(x1, y1, x2, y2)
			stdCheck(t, "Add", want, sx, sy)
		}
		if i < 2 {
			lib.Sample(monP384, lib.D("op", "Add", "rel", rel, "P", wstr(p.P), "Q", wstr(q.P), "got", xyStr(gx, gy)))
		}
	})

	// ---- Double
	lib.Par(n, func(i int) {
		r := lib.NewRng("c13/p384/double", i)
		p := p384Pool[i%len(p384Pool)]
		if i >= len(p384Pool) {
			p = p384Pool[r.Intn(len(p384Pool))]
			// chain: double an earlier result a few times
			for j := r.Intn(3); j > 0; j-- {
				p = wpt{mulK(p.K, 2, N), c.Double(p.P), p.Class}
			}
		}
		x1, y1 := xy(p.P)
		want := c.Double(p.P)
		lib.Case([]byte("p384.Double"), p.P.Bytes())
		lib.Count("p384.Double")
		if p.P.Inf {
			lib.Count("p384.Double:O")
		}
		var gx, gy *big.Int
		if pn := lib.Try("p384.Double", x1.Bytes(), func() { gx, gy = cv.Double(x1, y1) }); pn != nil {
			lib.Violation("C13:panic:p384.Double", monP384, lib.D("P", wstr(p.P), "panic", pn.Value))
			return
		}
		if !sameXY(want, gx, gy) {
			cl := "generic"
			if p.P.Inf {
				cl = "identity-operand"
			}
			lib.Violation("C13:wrong-result:p384.Double:"+cl, monP384, lib.D("P", wstr(p.P), "want", wstr(want), "got", xyStr(gx, gy)))
		}
	})

	// ---- ScalarMult / ScalarBaseMult (the big-integer reference dominates the cost: fewer cases than the formulas)
	lib.Par(lib.Scale(400, 16000), func(i int) {
		r := lib.NewRng("c13/p384/mul", i)
		p := p384Pool[r.Intn(len(p384Pool))]
		maxB := 48
		wide := r.Intn(8) == 0
		if wide {
			maxB = 49 + r.Intn(24)
		}
		k, kclass := c13ref.GenScalar(r, N, maxB)
		kb := scalarWidthBytes(r, k, 48)
		x1, y1 := xy(p.P)
		want := c.Mul(k, p.P)
		lib.Case([]byte("p384.ScalarMult"), p.P.Bytes(), kb)
		lib.Count("p384.ScalarMult")
		lib.Count("p384.scalar:" + kclass)
		if k.Cmp(N) >= 0 {
			lib.Count("p384.ScalarMult:k>=N")
		}
		if wide {
			lib.Count("p384.ScalarMult:wide")
		}
		if p.P.Inf {
			lib.Count("p384.ScalarMult:P=O")
		}
		if want.Inf {
			lib.Count("p384.ScalarMult:result=O")
		}
		var gx, gy *big.Int
		if pn := lib.Try("p384.ScalarMult", kb, func() { gx, gy = cv.ScalarMult(x1, y1, kb) }); pn != nil {
			lib.Violation("C13:panic:p384.ScalarMult", monP384, lib.D("P", wstr(p.P), "k", kb, "panic", pn.Value))
		} else if !sameXY(want, gx, gy) {
			lib.Violation("C13:wrong-result:p384.ScalarMult:"+c13ref.Coarse(kclass), monP384, lib.D("kclass", kclass, "P", wstr(p.P), "dlogP", hexInt(p.K), "k", kb, "want", wstr(want), "got", xyStr(gx, gy)))
		}
		if i%8 == 0 && !p.P.Inf {
			sx, sy := std.ScalarMult(x1, y1, kb)
			stdCheck(t, "ScalarMult", want, sx, sy)
		}
		// fixed base with the same scalar
		wantG := c.MulG(k)
		lib.Case([]byte("p384.ScalarBaseMult"), kb)
		lib.Count("p384.ScalarBaseMult")
		if pn := lib.Try("p384.ScalarBaseMult", kb, func() { gx, gy = cv.ScalarBaseMult(kb) }); pn != nil {
			lib.Violation("C13:panic:p384.ScalarBaseMult", monP384, lib.D("k", kb, "panic", pn.Value))
		} else if !sameXY(wantG, gx, gy) {
			lib.Violation("C13:wrong-result:p384.ScalarBaseMult:"+c13ref.Coarse(kclass), monP384, lib.D("kclass", kclass, "k", kb, "want", wstr(wantG), "got", xyStr(gx, gy)))
		}
		if i < 2 {
			lib.Sample(monP384, lib.D("op", "ScalarMult", "k", kb, "kclass", kclass, "P", wstr(p.P), "got", xyStr(gx, gy)))
		}
	})

	// ---- exhaustive ends of the scalar range: k = 0..small and N-near..N+near, on G and on one lifted point
	{
		sw := c13ref.SweepScalars(N, lib.Scale(300, 4000), lib.Scale(40, 600))
		var lifted wpt
		for _, e := range p384Pool {
			if e.Class == "lifted" {
				lifted = e
				break
			}
		}
		lx, ly := xy(lifted.P)
		lib.Mandatory("p384.sweep")
		lib.Par(len(sw), func(i int) {
			k := sw[i]
			kb := k.Bytes()
			lib.Case([]byte("p384.sweep"), kb)
			lib.Count("p384.sweep")
			wantG := c.MulG(k)
			var gx, gy *big.Int
			if !guarded(monP384, "p384.ScalarBaseMult", kb, func() { gx, gy = cv.ScalarBaseMult(kb) }) {
				return
			}
			if !sameXY(wantG, gx, gy) {
				lib.Violation("C13:wrong-result:p384.ScalarBaseMult:generic", monP384, lib.D("k", kb, "want", wstr(wantG), "got", xyStr(gx, gy)))
			}
			wantL := c.Mul(k, lifted.P)
			if !guarded(monP384, "p384.ScalarMult", kb, func() { gx, gy = cv.ScalarMult(lx, ly, kb) }) {
				return
			}
			if !sameXY(wantL, gx, gy) {
				lib.Violation("C13:wrong-result:p384.ScalarMult:generic", monP384, lib.D("P", wstr(lifted.P), "k", kb, "want", wstr(wantL), "got", xyStr(gx, gy)))
			}
		})
	}

	// ---- IsOnCurve / IsAtInfinity
	lib.Par(n, func(i int) {
		r := lib.NewRng("c13/p384/oncurve", i)
		p := p384Pool[r.Intn(len(p384Pool))]
		x, y := xy(p.P)
		mode := r.Intn(4)
		if p.P.Inf {
			mode = 0
		}
		switch mode {
		case 1:
			y.Add(y, big.NewInt(int64(1+r.Intn(3)))).Mod(y, c.F.P)
		case 2:
			x.Add(x, big.NewInt(int64(1+r.Intn(3)))).Mod(x, c.F.P)
		case 3:
			x, y = y, x
		}
		want := !(x.Sign() == 0 && y.Sign() == 0) && c.IsOnCurve(c13ref.WPoint{X: c.F.New(x, nil), Y: c.F.New(y, nil)})
		lib.Case([]byte("p384.IsOnCurve"), x.Bytes(), y.Bytes())
		got := cv.IsOnCurve(x, y)
		if want {
			lib.Count("p384.IsOnCurve:true")
		} else {
			lib.Count("p384.IsOnCurve:false")
		}
		if got != want {
			lib.Violation("C13:wrong-result:p384.IsOnCurve", monP384, lib.D("x", x.Text(16), "y", y.Text(16), "want", want, "got", got))
		}
		if inf := cv.IsAtInfinity(x, y); inf != (x.Sign() == 0 && y.Sign() == 0) {
			lib.Violation("C13:wrong-result:p384.IsAtInfinity", monP384, lib.D("x", x.Text(16), "y", y.Text(16), "got", inf))
		}
	})
}

const monP384CM = "TestVerifP384CombinedMult"

// TestVerifP384CombinedMult drives CombinedMult(Q, m, n) = mG + nQ with
// triples built so that the two partial sums collide or cancel.
func TestVerifP384CombinedMult(t *testing.T) {
	p384Setup()
	lib.Mandatory("p384.CombinedMult", "cm:Q=G,m=n", "cm:mG=nQ", "cm:mG=-nQ", "cm:unreduced", "cm:Q=O", "cm:m=0", "cm:n=0", "cm:independent", "cm:lifted-Q", "cm:n~N", "cm:mid-loop-cancellation")
	c := p384Ref
	cv := p384.P384()
	std := elliptic.P384()
	N := c.N
	type triple struct {
		q     wpt
		m, n  *big.Int
		class string
	}
	bi := func(v int64) *big.Int { return big.NewInt(v) }
	modN := func(v *big.Int) *big.Int { return new(big.Int).Mod(v, N) }
	G := wpt{bi(1), c.G, "kG"}
	mkQ := func(k *big.Int) wpt { return wpt{modN(k), c.MulG(k), "kG"} }
	var cases []triple
	// the design-time witnesses and their neighbourhood, exhaustively for small values
	for a := int64(0); a <= 8; a++ {
		for b := int64(0); b <= 8; b++ {
			for _, k := range []int64{1, 2, 3, -1, -2} {
				cl := "small-grid"
				cases = append(cases, triple{mkQ(bi(k)), bi(a), bi(b), cl})
			}
		}
	}
	// Q = (m/n) G for small m and n: the variable-base accumulator (nQ, in
	// projective coordinates) meets the fixed-base table entry mG that is
	// added to it - the P = Q branch of the MIXED addition - after only a few
	// steps; and Q = -(m/n) G for the P = -Q branch
	for mv := int64(1); mv <= 10; mv++ {
		for nv := int64(1); nv <= 10; nv++ {
			frac := new(big.Int).Mul(bi(mv), new(big.Int).ModInverse(bi(nv), N))
			cases = append(cases, triple{mkQ(frac), bi(mv), bi(nv), "mG=nQ"})
			cases = append(cases, triple{mkQ(new(big.Int).Neg(frac)), bi(mv), bi(nv), "mG=-nQ"})
		}
	}
	nm1 := new(big.Int).Sub(N, bi(1))
	np1 := new(big.Int).Add(N, bi(1))
	cases = append(cases,
		triple{G, bi(1), bi(1), "Q=G,m=n"},
		triple{mkQ(bi(2)), bi(2), bi(1), "mG=nQ"},
		triple{mkQ(bi(-1)), nm1, bi(1), "mG=nQ"},
		triple{G, N, np1, "unreduced"},
		triple{G, np1, N, "unreduced"},
		triple{G, N, N, "unreduced"},
		triple{G, nm1, bi(1), "mG=-nQ"},
		triple{G, bi(1), nm1, "mG=-nQ"},
		// no fixed-base part at all: n = N+26 ends in the digit 13 with 13Q accumulated
		triple{G, bi(0), new(big.Int).Add(N, bi(26)), "n~N"},
		triple{mkQ(bi(5)), bi(0), new(big.Int).Add(N, bi(26)), "n~N"},
	)
	for _, e := range p384Pool {
		if e.Class == "lifted" {
			cases = append(cases, triple{e, bi(0), new(big.Int).Add(N, bi(26)), "n~N"})
			break
		}
	}
	nGen := lib.Scale(400, 16000)
	gen := make([]triple, nGen)
	lib.Par(nGen, func(i int) {
		r := lib.NewRng("c13/p384/cm", i)
		q := p384Pool[r.Intn(len(p384Pool))]
		maxB := 48
		if r.Intn(10) == 0 {
			maxB = 49 + r.Intn(16)
		}
		nn, _ := c13ref.GenScalar(r, N, maxB)
		mm, _ := c13ref.GenScalar(r, N, maxB)
		cl := "independent"
		if q.K == nil {
			cl = "lifted-Q"
		}
		mode := r.Intn(15)
		if q.K == nil && mode < 6 {
			mode = 6 + r.Intn(6)
		}
		switch mode {
		case 0: // Q=G, m=n
			q, mm, cl = G, nn, "Q=G,m=n"
		case 1: // m = k*n mod N  => mG = nQ
			mm, cl = modN(new(big.Int).Mul(q.K, nn)), "mG=nQ"
		case 2: // m = -k*n mod N => mG = -nQ
			mm, cl = modN(new(big.Int).Neg(new(big.Int).Mul(q.K, nn))), "mG=-nQ"
		case 3: // same, with m unreduced (+N, +2N when it fits)
			mm = modN(new(big.Int).Mul(q.K, nn))
			mm.Add(mm, N)
			cl = "mG=nQ"
		case 4: // unreduced scalars around N
			mm = new(big.Int).Add(N, bi(int64(r.Intn(5)-2)))
			nn = new(big.Int).Add(N, bi(int64(r.Intn(5)-2)))
			cl = "unreduced"
		case 5: // partial collision: m and n share a long prefix (m = n + small) with Q = G or small multiples
			q = mkQ(bi(int64(1 + r.Intn(3))))
			mm = new(big.Int).Add(new(big.Int).Mul(nn, q.K), bi(int64(r.Intn(64))))
			cl = "mG~nQ"
		case 6:
			q, cl = wpt{bi(0), c.O(), "O"}, "Q=O"
		case 7:
			mm, cl = bi(0), "m=0"
		case 8:
			nn, cl = bi(0), "n=0"
		case 9: // unreduced n just above / below the order, m absent or tiny: the tail of n's recoding walks over small multiples of Q
			nn = new(big.Int).Add(N, bi(int64(r.Intn(160)-40)))
			mm = bi(int64(r.Intn(3)))
			if r.Bool() {
				mm = bi(0)
			}
			cl = "n~N"
		case 12, 13, 14:
			// cancellation in the MIDDLE of the double-scalar loop: Q = -cG,
			// m = (c*h)*2^s + l1, n = h*2^s + l2: after the digits above bit
			// s the accumulator is c*h*G - h*c*G = O (the point at infinity as
			// an intermediate value), and the low parts l1, l2 still have to be
			// added to it
			cc := int64(1 + r.Intn(5))
			q = mkQ(bi(-cc))
			h := new(big.Int).SetBytes(r.Bytes(1 + r.Intn(6)))
			h.Add(h, bi(1))
			sh := uint(8 + r.Intn(300))
			l1 := new(big.Int).SetBytes(r.Bytes(1 + r.Intn(int(sh/8))))
			l2 := new(big.Int).SetBytes(r.Bytes(1 + r.Intn(int(sh/8))))
			if sh >= 16 { // keep the low parts clear of the prefix (no carry into it)
				l1.Rsh(l1, 8)
				l2.Rsh(l2, 8)
			} else {
				l1, l2 = bi(int64(r.Intn(3))), bi(int64(r.Intn(3)))
			}
			switch r.Intn(4) {
			case 0:
				l2 = bi(0)
			case 1:
				l1 = bi(0)
			}
			mm = new(big.Int).Add(new(big.Int).Lsh(new(big.Int).Mul(h, bi(cc)), sh), l1)
			nn = new(big.Int).Add(new(big.Int).Lsh(h, sh), l2)
			cl = "mid-loop-cancellation"
		}
		gen[i] = triple{q, mm, nn, cl}
	})
	cases = append(cases, gen...)

	lib.Par(len(cases), func(i int) {
		tc := cases[i]
		r := lib.NewRng("c13/p384/cm/enc", i)
		mb := scalarWidthBytes(r, tc.m, 48)
		nb := scalarWidthBytes(r, tc.n, 48)
		qx, qy := xy(tc.q.P)
		want := c.Add(c.MulG(tc.m), c.Mul(tc.n, tc.q.P))
		lib.Case([]byte("p384.CombinedMult"), tc.q.P.Bytes(), mb, nb)
		lib.Count("p384.CombinedMult")
		lib.Count("cm:" + tc.class)
		if want.Inf {
			lib.Count("cm:result=O")
		}
		var gx, gy *big.Int
		if pn := lib.Try("p384.CombinedMult", append(append([]byte{}, mb...), nb...), func() { gx, gy = cv.CombinedMult(qx, qy, mb, nb) }); pn != nil {
			lib.Violation("C13:panic:p384.CombinedMult", monP384CM, lib.D("Q", wstr(tc.q.P), "m", mb, "n", nb, "panic", pn.Value))
			return
		}
		if i%8 == 0 {
			sx, sy := std.ScalarBaseMult(mb)
			tx, ty := std.ScalarMult(qx, qy, nb)
			if tc.q.P.Inf {
				tx, ty = new(big.Int), new(big.Int)
			}
			sx, sy = std.Add(sx, sy, tx, ty)
			stdCheck(t, "CombinedMult", want, sx, sy)
		}
		if sameXY(want, gx, gy) {
			return
		}
		// classify: the signature of the missing P=Q branch of the Jacobian
		// addition is an all-zero accumulator, i.e. the identity is returned
		// although the true result is not O (reached through mG = nQ partial
		// sums for related Q, and for ANY Q through an unreduced n = N + 2d).
		cl := "other"
		if gx.Sign() == 0 && gy.Sign() == 0 && !want.Inf {
			cl = "collision"
		}
		lib.Violation("C13:wrong-result:p384.CombinedMult:"+cl, monP384CM,
			lib.D("Q", wstr(tc.q.P), "dlogQ", hexInt(tc.q.K), "m", mb, "n", nb, "class", tc.class, "want", wstr(want), "got", xyStr(gx, gy)))
	})
}

// ---------------------------------------------------------------- group.{P256,P384,P521}

const monGroup = "TestVerifGroupShort"

type shortGroup struct {
	name string
	g    group.Group
	ref  *c13ref.WCurve
	blen int
	pool []wpt
}

func (s *shortGroup) marshal(p c13ref.WPoint, compressed bool) []byte {
	if p.Inf {
		return []byte{0}
	}
	if compressed {
		return append([]byte{2 + byte(p.Y.A.Bit(0))}, c13ref.BE(p.X.A, s.blen)...)
	}
	return append(append([]byte{4}, c13ref.BE(p.X.A, s.blen)...), c13ref.BE(p.Y.A, s.blen)...)
}

func (s *shortGroup) elt(p c13ref.WPoint, r *lib.Rng) (group.Element, bool) {
	e := s.g.NewElement()
	if err := e.UnmarshalBinary(s.marshal(p, r.Intn(4) == 0)); err != nil {
		lib.Violation("C13:decode-refused:group."+s.name, monGroup, lib.D("P", wstr(p), "err", err))
		return nil, false
	}
	return e, true
}

func (s *shortGroup) check(op, class string, want c13ref.WPoint, got group.Element, detail map[string]any) bool {
	detail["case-class"], class = class, c13ref.Coarse(class)
	var b []byte
	var err error
	if pn := lib.Try("group."+s.name+".MarshalBinary", nil, func() { b, err = got.MarshalBinary() }); pn != nil {
		detail["want"], detail["panic"] = wstr(want), pn.Value
		lib.Violation("C13:panic:group."+s.name+"."+op+":result-unmarshalable", monGroup, detail)
		return false
	}
	if err != nil || !lib.Eq(b, s.marshal(want, false)) {
		detail["want"] = wstr(want)
		detail["got"] = lib.Hex(b)
		lib.Violation("C13:wrong-result:group."+s.name+"."+op+":"+class, monGroup, detail)
		return false
	}
	if got.IsIdentity() != want.Inf {
		lib.Violation("C13:wrong-result:group."+s.name+".IsIdentity", monGroup, detail)
		return false
	}
	return true
}

// scalar builds a group scalar for the integer k (< 2^(8*blen)) either through
// SetBigInt (which reduces) or through UnmarshalBinary (which keeps k as is).
func (s *shortGroup) scalar(k *big.Int, r *lib.Rng) group.Scalar {
	sc := s.g.NewScalar()
	if r.Bool() {
		sc.SetBigInt(k)
		return sc
	}
	b := k.Bytes()
	if r.Bool() {
		b = c13ref.BE(k, s.blen)
	}
	if err := sc.UnmarshalBinary(b); err != nil {
		sc.SetBigInt(k)
	}
	return sc
}

func TestVerifGroupShort(t *testing.T) {
	gs := []*shortGroup{
		{name: "P256", g: group.P256, ref: nistRef(elliptic.P256()), blen: 32},
		{name: "P384", g: group.P384, ref: nistRef(elliptic.P384()), blen: 48},
		{name: "P521", g: group.P521, ref: nistRef(elliptic.P521()), blen: 66},
	}
	n := lib.Scale(400, 20000)
	for _, s := range gs {
		s := s
		nm := "group." + s.name
		lib.Mandatory(nm+".Add", nm+".Add:Q=P", nm+".Add:Q=-P", nm+".Add:Q=O", nm+".Dbl", nm+".Neg", nm+".Mul", nm+".MulGen", nm+".Mul:k>=N", nm+".Hash", nm+".CMov")
		s.pool = buildWPool(s.ref, "c13/group/pool/"+s.name, lib.Scale(24, 200), lib.Scale(12, 100), nil)
		c := s.ref
		// generator and identity
		{
			gb, _ := s.g.Generator().Copy().MarshalBinary()
			if !lib.Eq(gb, s.marshal(c.G, false)) {
				lib.Violation("C13:wrong-result:"+nm+".Generator", monGroup, lib.D("got", gb))
			}
			if !s.g.Identity().IsIdentity() || !s.g.NewElement().IsIdentity() {
				lib.Violation("C13:wrong-result:"+nm+".Identity", monGroup, lib.D())
			}
			lib.CaseS(nm, "generator")
		}
		lib.Par(n, func(i int) {
			r := lib.NewRng("c13/group/"+s.name, i)
			p, q, rel := relatedW(c, s.pool, r)
			ep, ok1 := s.elt(p.P, r)
			eq, ok2 := s.elt(q.P, r)
			if !ok1 || !ok2 {
				return
			}
			det := func(kv ...any) map[string]any {
				d := lib.D(kv...)
				d["P"] = wstr(p.P)
				d["Q"] = wstr(q.P)
				d["rel"] = rel
				return d
			}
			recv := func() group.Element {
				// a fresh receiver, or one that already holds an unrelated value
				if r.Bool() {
					return s.g.NewElement()
				}
				return s.g.Generator().Copy()
			}
			// Add
			lib.Case([]byte(nm+".Add"), p.P.Bytes(), q.P.Bytes())
			lib.Count(nm + ".Add")
			lib.Count(nm + ".Add:" + rel)
			var out group.Element
			if pn := lib.Try(nm+".Add", nil, func() { out = recv().Add(ep, eq) }); pn != nil {
				lib.Violation("C13:panic:"+nm+".Add", monGroup, det("panic", pn.Value))
			} else {
				s.check("Add", rel, c.Add(p.P, q.P), out, det())
			}
			// IsEqual
			if ep.IsEqual(eq) != c.Eq(p.P, q.P) || eq.IsEqual(ep) != c.Eq(p.P, q.P) {
				lib.Violation("C13:wrong-result:"+nm+".IsEqual", monGroup, det())
			}
			// Dbl, Neg
			lib.Case([]byte(nm+".Dbl"), p.P.Bytes())
			lib.Count(nm + ".Dbl")
			if pn := lib.Try(nm+".Dbl", nil, func() { out = recv().Dbl(ep) }); pn != nil {
				lib.Violation("C13:panic:"+nm+".Dbl", monGroup, det("panic", pn.Value))
			} else {
				s.check("Dbl", p.Class, c.Double(p.P), out, det())
			}
			lib.Case([]byte(nm+".Neg"), p.P.Bytes())
			lib.Count(nm + ".Neg")
			if pn := lib.Try(nm+".Neg", nil, func() { out = recv().Neg(ep) }); pn != nil {
				lib.Violation("C13:panic:"+nm+".Neg", monGroup, det("panic", pn.Value))
			} else if s.check("Neg", p.Class, c.Neg(p.P), out, det()) {
				// P + (-P) = O through the library
				sum := s.g.NewElement().Add(ep, out)
				if !sum.IsIdentity() {
					lib.Violation("C13:wrong-result:"+nm+".Add:Q=-P", monGroup, det())
				}
			}
			// CMov / CSelect
			lib.Count(nm + ".CMov")
			a := ep.Copy().CMov(0, eq)
			b := ep.Copy().CMov(1, eq)
			cs1 := s.g.NewElement().CSelect(1, ep, eq)
			cs0 := s.g.NewElement().CSelect(0, ep, eq)
			if !s.check("CMov", "0", p.P, a, det()) || !s.check("CMov", "1", q.P, b, det()) ||
				!s.check("CSelect", "1", p.P, cs1, det()) || !s.check("CSelect", "0", q.P, cs0, det()) {
				return
			}
			// Mul / MulGen (every other case: they dominate the cost)
			if i%2 == 0 && i < lib.Scale(400, 6000) {
				k, kclass := c13ref.GenScalar(r, c.N, s.blen)
				sc := s.scalar(k, r)
				skb, _ := sc.MarshalBinary()
				lib.Case([]byte(nm+".Mul"), p.P.Bytes(), k.Bytes())
				lib.Count(nm + ".Mul")
				if k.Cmp(c.N) >= 0 {
					lib.Count(nm + ".Mul:k>=N")
				}
				if pn := lib.Try(nm+".Mul", skb, func() { out = recv().Mul(ep, sc) }); pn != nil {
					lib.Violation("C13:panic:"+nm+".Mul", monGroup, det("k", k.Text(16), "panic", pn.Value))
				} else {
					s.check("Mul", kclass, c.Mul(k, p.P), out, det("k", k.Text(16), "scalar", skb))
				}
				lib.Case([]byte(nm+".MulGen"), k.Bytes())
				lib.Count(nm + ".MulGen")
				if pn := lib.Try(nm+".MulGen", skb, func() { out = recv().MulGen(sc) }); pn != nil {
					lib.Violation("C13:panic:"+nm+".MulGen", monGroup, det("k", k.Text(16), "panic", pn.Value))
				} else {
					s.check("MulGen", kclass, c.MulG(k), out, det("k", k.Text(16), "scalar", skb))
				}
			}
			// hash to group
			if i%4 == 0 && i < lib.Scale(400, 6000) {
				msg := r.Bytes(r.Intn(70))
				dst := r.Bytes(r.Intn(40))
				if r.Intn(16) == 0 {
					dst = r.Bytes(256 + r.Intn(20)) // long DST path of expand_message
				}
				for _, nu := range []bool{false, true} {
					var h group.Element
					nmH := nm + ".HashToElement"
					if nu {
						nmH = nm + ".HashToElementNonUniform"
					}
					lib.Case([]byte(nmH), msg, dst)
					lib.Count(nm + ".Hash")
					if pn := lib.Try(nmH, msg, func() {
						if nu {
							h = s.g.HashToElementNonUniform(msg, dst)
						} else {
							h = s.g.HashToElement(msg, dst)
						}
					}); pn != nil {
						lib.Violation("C13:panic:"+nmH, monGroup, lib.D("msg", msg, "dst", dst, "panic", pn.Value))
						continue
					}
					hb, _ := h.MarshalBinary()
					ok := false
					if len(hb) == 1+2*s.blen && hb[0] == 4 {
						hp := c13ref.WPoint{X: c.F.New(new(big.Int).SetBytes(hb[1:1+s.blen]), nil), Y: c.F.New(new(big.Int).SetBytes(hb[1+s.blen:]), nil)}
						ok = c.IsOnCurve(hp) && c.Mul(c.N, hp).Inf
						lib.Count(nm + ".Hash:non-identity")
					} else if len(hb) == 1 && hb[0] == 0 {
						ok = true
						lib.Count(nm + ".Hash:identity")
					}
					if !ok {
						lib.Violation("C13:hash-outside-group:"+nmH, monGroup, lib.D("msg", msg, "dst", dst, "out", hb))
					}
				}
			}
			if i == 0 {
				lib.Sample(monGroup, lib.D("group", s.name, "P", wstr(p.P), "Q", wstr(q.P), "rel", rel))
			}
		})
	}
	_ = fmt.Sprint
}
