//go:build verif

package c11

import (
	"fmt"
	"math/big"

	"github.com/cloudflare/circl/ecc/bls12381"
	"github.com/cloudflare/circl/ecc/fourq"
	"github.com/cloudflare/circl/ecc/goldilocks"
	"github.com/cloudflare/circl/group"
	"github.com/cloudflare/circl/internal/zzverif/lib"
)

func init() {
	for _, g := range []group.Group{group.P256, group.P384, group.P521, group.Ristretto255} {
		models = append(models, groupModel(g))
	}
	models = append(models, blsModel(), goldilocksModel(), fourqModel())
}

// ------------------------------------------------------------------ group

func groupModel(g group.Group) model {
	const E, S = 0, 1
	kinds := []kind{
		{"element", func(o any) []byte { return must(o.(group.Element).MarshalBinary()) },
			func(b []byte) any {
				e := g.NewElement()
				if err := e.UnmarshalBinary(b); err != nil {
					panic("harness: own serialisation refused: " + err.Error())
				}
				return e
			}},
		{"scalar", func(o any) []byte { return must(o.(group.Scalar).MarshalBinary()) },
			func(b []byte) any {
				s := g.NewScalar()
				if err := s.UnmarshalBinary(b); err != nil {
					panic("harness: own serialisation refused: " + err.Error())
				}
				return s
			}},
	}
	el := func(o any) group.Element { return o.(group.Element) }
	sc := func(o any) group.Scalar { return o.(group.Scalar) }
	none := []int{}
	ops := []opdef{
		{"Elt.Add", []int{E, E, E}, nil, func(s []any, r *lib.Rng) (any, []byte) { el(s[0]).Add(el(s[1]), el(s[2])); return nil, nil }, -1},
		{"Elt.Dbl", []int{E, E}, nil, func(s []any, r *lib.Rng) (any, []byte) { el(s[0]).Dbl(el(s[1])); return nil, nil }, -1},
		{"Elt.Neg", []int{E, E}, nil, func(s []any, r *lib.Rng) (any, []byte) { el(s[0]).Neg(el(s[1])); return nil, nil }, -1},
		{"Elt.Mul", []int{E, E, S}, nil, func(s []any, r *lib.Rng) (any, []byte) { el(s[0]).Mul(el(s[1]), sc(s[2])); return nil, nil }, -1},
		{"Elt.MulGen", []int{E, S}, nil, func(s []any, r *lib.Rng) (any, []byte) { el(s[0]).MulGen(sc(s[1])); return nil, nil }, -1},
		{"Elt.Set", []int{E, E}, nil, func(s []any, r *lib.Rng) (any, []byte) { el(s[0]).Set(el(s[1])); return nil, nil }, -1},
		{"Elt.CMov", []int{E, E}, nil, func(s []any, r *lib.Rng) (any, []byte) { el(s[0]).CMov(r.Intn(2), el(s[1])); return nil, nil }, -1},
		{"Elt.CSelect", []int{E, E, E}, nil, func(s []any, r *lib.Rng) (any, []byte) {
			el(s[0]).CSelect(r.Intn(2), el(s[1]), el(s[2]))
			return nil, nil
		}, -1},
		{"Elt.Copy", []int{E}, none, func(s []any, r *lib.Rng) (any, []byte) { return el(s[0]).Copy(), nil }, E},
		{"Elt.UnmarshalBinary", []int{E, E}, nil, func(s []any, r *lib.Rng) (any, []byte) {
			b, _ := el(s[1]).MarshalBinary()
			if r.Bool() {
				b, _ = el(s[1]).MarshalBinaryCompress()
			}
			err := el(s[0]).UnmarshalBinary(b)
			return nil, b2(err == nil)
		}, -1},
		{"Elt.UnmarshalBinary(bad)", []int{E}, nil, func(s []any, r *lib.Rng) (any, []byte) {
			// a failed decode must not leave the receiver in a state that depends on its history
			b, _ := el(s[0]).MarshalBinary()
			bad := lib.Clone(b)
			if len(bad) > 1 {
				bad[len(bad)-1] ^= 1
			}
			_ = el(s[0]).UnmarshalBinary(bad)
			_ = el(s[0]).UnmarshalBinary(b) // restore: afterwards value must equal b again
			return nil, nil
		}, -1},
		{"Elt.Marshal", []int{E}, none, func(s []any, r *lib.Rng) (any, []byte) {
			a, _ := el(s[0]).MarshalBinary()
			c, _ := el(s[0]).MarshalBinaryCompress()
			return nil, append(a, c...)
		}, -1},
		{"Elt.IsEqual", []int{E, E}, none, func(s []any, r *lib.Rng) (any, []byte) {
			return nil, append(b2(el(s[0]).IsEqual(el(s[1]))), b2(el(s[0]).IsIdentity())...)
		}, -1},
		{"Group.Generator", []int{E}, none, func(s []any, r *lib.Rng) (any, []byte) { return g.Generator(), nil }, E},
		{"Group.Identity", []int{E}, none, func(s []any, r *lib.Rng) (any, []byte) { return g.Identity(), nil }, E},
		{"Group.NewElement", []int{E}, none, func(s []any, r *lib.Rng) (any, []byte) { return g.NewElement(), nil }, E},
		{"Group.HashToElement", []int{E}, none, func(s []any, r *lib.Rng) (any, []byte) { return g.HashToElement(r.Bytes(8), []byte("d")), nil }, E},
		{"Group.RandomElement", []int{E}, none, func(s []any, r *lib.Rng) (any, []byte) { return g.RandomElement(r), nil }, E},
		{"Scl.Add", []int{S, S, S}, nil, func(s []any, r *lib.Rng) (any, []byte) { sc(s[0]).Add(sc(s[1]), sc(s[2])); return nil, nil }, -1},
		{"Scl.Sub", []int{S, S, S}, nil, func(s []any, r *lib.Rng) (any, []byte) { sc(s[0]).Sub(sc(s[1]), sc(s[2])); return nil, nil }, -1},
		{"Scl.Mul", []int{S, S, S}, nil, func(s []any, r *lib.Rng) (any, []byte) { sc(s[0]).Mul(sc(s[1]), sc(s[2])); return nil, nil }, -1},
		{"Scl.Neg", []int{S, S}, nil, func(s []any, r *lib.Rng) (any, []byte) { sc(s[0]).Neg(sc(s[1])); return nil, nil }, -1},
		{"Scl.Inv", []int{S, S}, nil, func(s []any, r *lib.Rng) (any, []byte) { sc(s[0]).Inv(sc(s[1])); return nil, nil }, -1},
		{"Scl.Set", []int{S, S}, nil, func(s []any, r *lib.Rng) (any, []byte) { sc(s[0]).Set(sc(s[1])); return nil, nil }, -1},
		{"Scl.CMov", []int{S, S}, nil, func(s []any, r *lib.Rng) (any, []byte) { sc(s[0]).CMov(r.Intn(2), sc(s[1])); return nil, nil }, -1},
		{"Scl.CSelect", []int{S, S, S}, nil, func(s []any, r *lib.Rng) (any, []byte) {
			sc(s[0]).CSelect(r.Intn(2), sc(s[1]), sc(s[2]))
			return nil, nil
		}, -1},
		{"Scl.Copy", []int{S}, none, func(s []any, r *lib.Rng) (any, []byte) { return sc(s[0]).Copy(), nil }, S},
		{"Scl.SetUint64", []int{S}, nil, func(s []any, r *lib.Rng) (any, []byte) { sc(s[0]).SetUint64(r.U64()); return nil, nil }, -1},
		{"Scl.SetBigInt", []int{S}, nil, func(s []any, r *lib.Rng) (any, []byte) {
			x := new(big.Int).SetBytes(r.Bytes(1 + r.Intn(70)))
			if r.Bool() {
				x.Neg(x)
			}
			keep := new(big.Int).Set(x)
			sc(s[0]).SetBigInt(x)
			return nil, b2(x.Cmp(keep) == 0) // the argument must not be modified
		}, -1},
		{"Scl.UnmarshalBinary", []int{S, S}, nil, func(s []any, r *lib.Rng) (any, []byte) {
			b, _ := sc(s[1]).MarshalBinary()
			err := sc(s[0]).UnmarshalBinary(b)
			return nil, b2(err == nil)
		}, -1},
		{"Scl.IsEqual", []int{S, S}, none, func(s []any, r *lib.Rng) (any, []byte) {
			return nil, append(b2(sc(s[0]).IsEqual(sc(s[1]))), b2(sc(s[0]).IsZero())...)
		}, -1},
		{"Group.RandomScalar", []int{S}, none, func(s []any, r *lib.Rng) (any, []byte) { return g.RandomScalar(r), nil }, S},
		{"Group.HashToScalar", []int{S}, none, func(s []any, r *lib.Rng) (any, []byte) { return g.HashToScalar(r.Bytes(8), []byte("d")), nil }, S},
	}
	return model{
		name: "group." + fmt.Sprint(g), kinds: kinds, ops: ops,
		seed: func(r *lib.Rng) [][]any {
			es := []any{g.Generator(), g.Identity(), g.RandomElement(r), g.RandomElement(r), g.NewElement(), g.Generator()}
			ss := []any{g.NewScalar(), g.NewScalar().SetUint64(1), g.RandomScalar(r), g.RandomScalar(r), g.NewScalar().SetUint64(2)}
			return [][]any{es, ss}
		},
	}
}

// ------------------------------------------------------------------ BLS12-381

func blsModel() model {
	const G1, G2, SC, GT = 0, 1, 2, 3
	kinds := []kind{
		{"G1", func(o any) []byte { return o.(*bls12381.G1).Bytes() }, func(b []byte) any {
			p := new(bls12381.G1)
			if err := p.SetBytes(b); err != nil {
				panic("harness: " + err.Error())
			}
			return p
		}},
		{"G2", func(o any) []byte { return o.(*bls12381.G2).Bytes() }, func(b []byte) any {
			p := new(bls12381.G2)
			if err := p.SetBytes(b); err != nil {
				panic("harness: " + err.Error())
			}
			return p
		}},
		{"Scalar", func(o any) []byte { return must(o.(*bls12381.Scalar).MarshalBinary()) }, func(b []byte) any {
			s := new(bls12381.Scalar)
			if err := s.UnmarshalBinary(b); err != nil {
				panic("harness: " + err.Error())
			}
			return s
		}},
		{"Gt", func(o any) []byte { return must(o.(*bls12381.Gt).MarshalBinary()) }, func(b []byte) any {
			s := new(bls12381.Gt)
			if err := s.UnmarshalBinary(b); err != nil {
				panic("harness: " + err.Error())
			}
			return s
		}},
	}
	g1 := func(o any) *bls12381.G1 { return o.(*bls12381.G1) }
	g2 := func(o any) *bls12381.G2 { return o.(*bls12381.G2) }
	sc := func(o any) *bls12381.Scalar { return o.(*bls12381.Scalar) }
	gt := func(o any) *bls12381.Gt { return o.(*bls12381.Gt) }
	none := []int{}
	ops := []opdef{
		{"G1.Add", []int{G1, G1, G1}, nil, func(s []any, r *lib.Rng) (any, []byte) { g1(s[0]).Add(g1(s[1]), g1(s[2])); return nil, nil }, -1},
		{"G1.Double", []int{G1}, nil, func(s []any, r *lib.Rng) (any, []byte) { g1(s[0]).Double(); return nil, nil }, -1},
		{"G1.Neg", []int{G1}, nil, func(s []any, r *lib.Rng) (any, []byte) { g1(s[0]).Neg(); return nil, nil }, -1},
		{"G1.ScalarMult", []int{G1, SC, G1}, nil, func(s []any, r *lib.Rng) (any, []byte) { g1(s[0]).ScalarMult(sc(s[1]), g1(s[2])); return nil, nil }, -1},
		{"G1.SetBytes", []int{G1, G1}, nil, func(s []any, r *lib.Rng) (any, []byte) {
			b := g1(s[1]).Bytes()
			if r.Bool() {
				b = g1(s[1]).BytesCompressed()
			}
			return nil, b2(g1(s[0]).SetBytes(b) == nil)
		}, -1},
		{"G1.IsEqual", []int{G1, G1}, none, func(s []any, r *lib.Rng) (any, []byte) {
			return nil, append(b2(g1(s[0]).IsEqual(g1(s[1]))), b2(g1(s[0]).IsOnG1())...)
		}, -1},
		{"G1Generator", []int{G1}, none, func(s []any, r *lib.Rng) (any, []byte) { return bls12381.G1Generator(), nil }, G1},
		{"G1.Hash", []int{G1}, nil, func(s []any, r *lib.Rng) (any, []byte) { g1(s[0]).Hash(r.Bytes(5), []byte("d")); return nil, nil }, -1},
		{"G2.Add", []int{G2, G2, G2}, nil, func(s []any, r *lib.Rng) (any, []byte) { g2(s[0]).Add(g2(s[1]), g2(s[2])); return nil, nil }, -1},
		{"G2.Double", []int{G2}, nil, func(s []any, r *lib.Rng) (any, []byte) { g2(s[0]).Double(); return nil, nil }, -1},
		{"G2.Neg", []int{G2}, nil, func(s []any, r *lib.Rng) (any, []byte) { g2(s[0]).Neg(); return nil, nil }, -1},
		{"G2.ScalarMult", []int{G2, SC, G2}, nil, func(s []any, r *lib.Rng) (any, []byte) { g2(s[0]).ScalarMult(sc(s[1]), g2(s[2])); return nil, nil }, -1},
		{"G2.SetBytes", []int{G2, G2}, nil, func(s []any, r *lib.Rng) (any, []byte) {
			return nil, b2(g2(s[0]).SetBytes(g2(s[1]).BytesCompressed()) == nil)
		}, -1},
		{"G2Generator", []int{G2}, none, func(s []any, r *lib.Rng) (any, []byte) { return bls12381.G2Generator(), nil }, G2},
		{"Scalar.Add", []int{SC, SC, SC}, nil, func(s []any, r *lib.Rng) (any, []byte) { sc(s[0]).Add(sc(s[1]), sc(s[2])); return nil, nil }, -1},
		{"Scalar.Sub", []int{SC, SC, SC}, nil, func(s []any, r *lib.Rng) (any, []byte) { sc(s[0]).Sub(sc(s[1]), sc(s[2])); return nil, nil }, -1},
		{"Scalar.Mul", []int{SC, SC, SC}, nil, func(s []any, r *lib.Rng) (any, []byte) { sc(s[0]).Mul(sc(s[1]), sc(s[2])); return nil, nil }, -1},
		{"Scalar.Sqr", []int{SC, SC}, nil, func(s []any, r *lib.Rng) (any, []byte) { sc(s[0]).Sqr(sc(s[1])); return nil, nil }, -1},
		{"Scalar.Inv", []int{SC, SC}, nil, func(s []any, r *lib.Rng) (any, []byte) { sc(s[0]).Inv(sc(s[1])); return nil, nil }, -1},
		{"Scalar.Neg", []int{SC}, nil, func(s []any, r *lib.Rng) (any, []byte) { sc(s[0]).Neg(); return nil, nil }, -1},
		{"Scalar.Set", []int{SC, SC}, nil, func(s []any, r *lib.Rng) (any, []byte) { sc(s[0]).Set(sc(s[1])); return nil, nil }, -1},
		{"Scalar.SetBytes", []int{SC}, nil, func(s []any, r *lib.Rng) (any, []byte) {
			b := r.Bytes(1 + r.Intn(70))
			keep := lib.Clone(b)
			sc(s[0]).SetBytes(b)
			return nil, b2(lib.Eq(b, keep))
		}, -1},
		{"Pair", []int{GT, G1, G2}, nil, func(s []any, r *lib.Rng) (any, []byte) {
			*gt(s[0]) = *bls12381.Pair(g1(s[1]), g2(s[2]))
			return nil, nil
		}, -1},
		{"Gt.Mul", []int{GT, GT, GT}, nil, func(s []any, r *lib.Rng) (any, []byte) { gt(s[0]).Mul(gt(s[1]), gt(s[2])); return nil, nil }, -1},
		{"Gt.Sqr", []int{GT, GT}, nil, func(s []any, r *lib.Rng) (any, []byte) { gt(s[0]).Sqr(gt(s[1])); return nil, nil }, -1},
		{"Gt.Inv", []int{GT, GT}, nil, func(s []any, r *lib.Rng) (any, []byte) { gt(s[0]).Inv(gt(s[1])); return nil, nil }, -1},
		{"Gt.Exp", []int{GT, GT, SC}, nil, func(s []any, r *lib.Rng) (any, []byte) { gt(s[0]).Exp(gt(s[1]), sc(s[2])); return nil, nil }, -1},
	}
	return model{name: "bls12381", kinds: kinds, ops: ops, seed: func(r *lib.Rng) [][]any {
		k := func() *bls12381.Scalar { s := new(bls12381.Scalar); s.SetBytes(r.Bytes(40)); return s }
		p := func() *bls12381.G1 { q := new(bls12381.G1); q.ScalarMult(k(), bls12381.G1Generator()); return q }
		q := func() *bls12381.G2 { q := new(bls12381.G2); q.ScalarMult(k(), bls12381.G2Generator()); return q }
		i1 := new(bls12381.G1)
		i1.SetIdentity()
		i2 := new(bls12381.G2)
		i2.SetIdentity()
		one := new(bls12381.Scalar)
		one.SetUint64(1)
		e := bls12381.Pair(bls12381.G1Generator(), bls12381.G2Generator())
		id := new(bls12381.Gt)
		id.SetIdentity()
		return [][]any{
			{bls12381.G1Generator(), i1, p(), p()},
			{bls12381.G2Generator(), i2, q()},
			{new(bls12381.Scalar), one, k(), k()},
			{e, id},
		}
	}}
}

// ------------------------------------------------------------------ Goldilocks

func goldilocksModel() model {
	const P, S = 0, 1
	var c goldilocks.Curve
	kinds := []kind{
		{"Point", func(o any) []byte { return must(o.(*goldilocks.Point).MarshalBinary()) }, func(b []byte) any {
			p, err := goldilocks.FromBytes(b)
			if err != nil {
				panic("harness: " + err.Error())
			}
			return p
		}},
		{"Scalar", func(o any) []byte { s := *o.(*goldilocks.Scalar); return s[:] }, func(b []byte) any {
			s := new(goldilocks.Scalar)
			copy(s[:], b)
			return s
		}},
	}
	pt := func(o any) *goldilocks.Point { return o.(*goldilocks.Point) }
	sc := func(o any) *goldilocks.Scalar { return o.(*goldilocks.Scalar) }
	none := []int{}
	ops := []opdef{
		{"Point.Add", []int{P, P}, nil, func(s []any, r *lib.Rng) (any, []byte) { pt(s[0]).Add(pt(s[1])); return nil, nil }, -1},
		{"Point.Double", []int{P}, nil, func(s []any, r *lib.Rng) (any, []byte) { pt(s[0]).Double(); return nil, nil }, -1},
		{"Point.Neg", []int{P}, nil, func(s []any, r *lib.Rng) (any, []byte) { pt(s[0]).Neg(); return nil, nil }, -1},
		{"Point.IsEqual", []int{P, P}, none, func(s []any, r *lib.Rng) (any, []byte) {
			return nil, append(b2(pt(s[0]).IsEqual(pt(s[1]))), b2(pt(s[0]).IsIdentity())...)
		}, -1},
		{"Point.UnmarshalBinary", []int{P, P}, nil, func(s []any, r *lib.Rng) (any, []byte) {
			b, _ := pt(s[1]).MarshalBinary()
			return nil, b2(pt(s[0]).UnmarshalBinary(b) == nil)
		}, -1},
		{"Curve.Add", []int{P, P}, none, func(s []any, r *lib.Rng) (any, []byte) { return c.Add(pt(s[0]), pt(s[1])), nil }, P},
		{"Curve.Double", []int{P}, none, func(s []any, r *lib.Rng) (any, []byte) { return c.Double(pt(s[0])), nil }, P},
		{"Curve.ScalarMult", []int{P, S}, none, func(s []any, r *lib.Rng) (any, []byte) { return c.ScalarMult(sc(s[1]), pt(s[0])), nil }, P},
		{"Curve.ScalarBaseMult", []int{S}, none, func(s []any, r *lib.Rng) (any, []byte) { return c.ScalarBaseMult(sc(s[0])), nil }, P},
		{"Curve.CombinedMult", []int{P, S, S}, none, func(s []any, r *lib.Rng) (any, []byte) {
			return c.CombinedMult(sc(s[1]), sc(s[2]), pt(s[0])), nil
		}, P},
		{"Curve.Generator", []int{P}, none, func(s []any, r *lib.Rng) (any, []byte) { return c.Generator(), nil }, P},
		{"Curve.Identity", []int{P}, none, func(s []any, r *lib.Rng) (any, []byte) { return c.Identity(), nil }, P},
		{"Curve.IsOnCurve", []int{P}, none, func(s []any, r *lib.Rng) (any, []byte) { return nil, b2(c.IsOnCurve(pt(s[0]))) }, -1},
		{"Scalar.Add", []int{S, S, S}, nil, func(s []any, r *lib.Rng) (any, []byte) { sc(s[0]).Add(sc(s[1]), sc(s[2])); return nil, nil }, -1},
		{"Scalar.Sub", []int{S, S, S}, nil, func(s []any, r *lib.Rng) (any, []byte) { sc(s[0]).Sub(sc(s[1]), sc(s[2])); return nil, nil }, -1},
		{"Scalar.Mul", []int{S, S, S}, nil, func(s []any, r *lib.Rng) (any, []byte) { sc(s[0]).Mul(sc(s[1]), sc(s[2])); return nil, nil }, -1},
		{"Scalar.Neg", []int{S}, nil, func(s []any, r *lib.Rng) (any, []byte) { sc(s[0]).Neg(); return nil, nil }, -1},
		{"Scalar.Red", []int{S}, nil, func(s []any, r *lib.Rng) (any, []byte) { sc(s[0]).Red(); return nil, nil }, -1},
		{"Scalar.FromBytes", []int{S}, nil, func(s []any, r *lib.Rng) (any, []byte) {
			b := r.Bytes(1 + r.Intn(120))
			keep := lib.Clone(b)
			sc(s[0]).FromBytes(b)
			return nil, b2(lib.Eq(b, keep))
		}, -1},
	}
	return model{name: "goldilocks", kinds: kinds, ops: ops, seed: func(r *lib.Rng) [][]any {
		k := func() *goldilocks.Scalar { s := new(goldilocks.Scalar); s.FromBytes(r.Bytes(56)); return s }
		one := new(goldilocks.Scalar)
		one[0] = 1
		ord := c.Order()
		return [][]any{
			{c.Generator(), c.Identity(), c.ScalarBaseMult(k()), c.ScalarBaseMult(k())},
			{new(goldilocks.Scalar), one, k(), k(), &ord},
		}
	}}
}

// ------------------------------------------------------------------ FourQ

type fqScalar [32]byte

func fourqModel() model {
	const P, S = 0, 1
	kinds := []kind{
		{"Point", func(o any) []byte {
			var out [32]byte
			o.(*fourq.Point).Marshal(&out)
			return out[:]
		}, func(b []byte) any {
			var in [32]byte
			copy(in[:], b)
			p := new(fourq.Point)
			if !p.Unmarshal(&in) {
				panic("harness: fourq own encoding refused")
			}
			return p
		}},
		{"Scalar", func(o any) []byte { s := *o.(*fqScalar); return s[:] }, func(b []byte) any {
			s := new(fqScalar)
			copy(s[:], b)
			return s
		}},
	}
	pt := func(o any) *fourq.Point { return o.(*fourq.Point) }
	sc := func(o any) *[32]byte { return (*[32]byte)(o.(*fqScalar)) }
	none := []int{}
	ops := []opdef{
		{"Point.Add", []int{P, P, P}, nil, func(s []any, r *lib.Rng) (any, []byte) { pt(s[0]).Add(pt(s[1]), pt(s[2])); return nil, nil }, -1},
		{"Point.ScalarMult", []int{P, S, P}, nil, func(s []any, r *lib.Rng) (any, []byte) { pt(s[0]).ScalarMult(sc(s[1]), pt(s[2])); return nil, nil }, -1},
		{"Point.ScalarBaseMult", []int{P, S}, nil, func(s []any, r *lib.Rng) (any, []byte) { pt(s[0]).ScalarBaseMult(sc(s[1])); return nil, nil }, -1},
		{"Point.SetGenerator", []int{P}, nil, func(s []any, r *lib.Rng) (any, []byte) { pt(s[0]).SetGenerator(); return nil, nil }, -1},
		{"Point.SetIdentity", []int{P}, nil, func(s []any, r *lib.Rng) (any, []byte) { pt(s[0]).SetIdentity(); return nil, nil }, -1},
		{"Point.IsOnCurve", []int{P}, none, func(s []any, r *lib.Rng) (any, []byte) {
			return nil, append(b2(pt(s[0]).IsOnCurve()), b2(pt(s[0]).IsIdentity())...)
		}, -1},
		{"Point.Unmarshal", []int{P, P}, nil, func(s []any, r *lib.Rng) (any, []byte) {
			var b [32]byte
			pt(s[1]).Marshal(&b)
			keep := b
			ok := pt(s[0]).Unmarshal(&b)
			return nil, append(b2(ok), b2(b == keep)...)
		}, -1},
	}
	return model{name: "fourq", kinds: kinds, ops: ops, seed: func(r *lib.Rng) [][]any {
		k := func() *fqScalar { s := new(fqScalar); copy(s[:], r.Bytes(32)); return s }
		p := func() *fourq.Point { q := new(fourq.Point); q.ScalarBaseMult((*[32]byte)(k())); return q }
		g := new(fourq.Point)
		g.SetGenerator()
		id := new(fourq.Point)
		id.SetIdentity()
		one := new(fqScalar)
		one[0] = 1
		return [][]any{{g, id, p(), p()}, {new(fqScalar), one, k(), k()}}
	}}
}
