//go:build verif

package rsa

// White-box part of C17: the three arithmetic helpers of the threshold RSA
// scheme against exact integer arithmetic - the integer Lagrange coefficient
// Delta*lambda (computeLambda), the share polynomial (computePolynomial) and
// Delta = l! (calculateDelta, get2DeltaSi).  The black-box monitor
// (internal/zzverif/c17) observes the consequences; this file names the
// function at fault.

import (
	"fmt"
	"math/big"
	"sort"
	"testing"

	"github.com/cloudflare/circl/internal/zzverif/lib"
)

const vc17Mon = "TestVerifC17Arithmetic"

func vc17Fact(l int) *big.Int { return new(big.Int).MulRange(1, int64(l)) }

// vc17Lambda = Delta * prod_{j' in S\{j}} (i-j') / prod_{j' in S\{j}} (j-j'), exact.
func vc17Lambda(delta *big.Int, S []int, i, j int) *big.Int {
	num, den := big.NewInt(1), big.NewInt(1)
	for _, jp := range S {
		if jp == j {
			continue
		}
		num.Mul(num, big.NewInt(int64(i-jp)))
		den.Mul(den, big.NewInt(int64(j-jp)))
	}
	num.Mul(num, delta)
	q, r := new(big.Int).QuoRem(num, den, new(big.Int))
	if r.Sign() != 0 {
		panic("reference: Delta*lambda not an integer")
	}
	return q
}

func vc17Subset(r *lib.Rng, l, size int) []int {
	p := make([]int, l)
	for i := range p {
		p[i] = i + 1
	}
	for i := l - 1; i > 0; i-- {
		j := r.Intn(i + 1)
		p[i], p[j] = p[j], p[i]
	}
	s := p[:size]
	for i := 1; i < len(s); i++ {
		for j := i; j > 0 && s[j] < s[j-1]; j-- {
			s[j], s[j-1] = s[j-1], s[j]
		}
	}
	return s
}

func TestVerifC17Arithmetic(t *testing.T) {
	lib.Mandatory("wb:lambda", "wb:lambda-nonprefix", "wb:polynomial", "wb:polynomial-power-above-2^53", "wb:delta", "wb:two-delta-si")
	// reference known answers (the repo's own unit-test values)
	if vc17Lambda(big.NewInt(120), []int{1, 2, 3, 4, 5}, 0, 3).Int64() != 1200 {
		t.Fatal("reference lambda known answer")
	}
	if vc17Lambda(big.NewInt(6), []int{1, 3}, 0, 1).Int64() != 9 || vc17Lambda(big.NewInt(6), []int{1, 3}, 0, 3).Int64() != -3 {
		t.Fatal("reference lambda known answer (1,3)")
	}

	// ---- calculateDelta, get2DeltaSi
	for l := 1; l <= 40; l++ {
		lib.Eval()
		lib.Count("wb:delta")
		if got := calculateDelta(int64(l)); got.Cmp(vc17Fact(l)) != 0 {
			lib.Violation("C17:delta-wrong:tss-rsa:calculateDelta", vc17Mon, lib.D("l", l, "want", vc17Fact(l).String(), "got", got.String()))
		}
		r := lib.NewRng("c17/wb/2dsi", l)
		si := new(big.Int).SetBytes(r.Bytes(1 + r.Intn(128)))
		ks := KeyShare{si: si, Players: uint(l), Threshold: 1, Index: 1}
		want := new(big.Int).Mul(vc17Fact(l), si)
		want.Lsh(want, 1)
		lib.Count("wb:two-delta-si")
		if got := ks.get2DeltaSi(int64(l)); got.Cmp(want) != 0 {
			lib.Violation("C17:cached-exponent-wrong:tss-rsa:KeyShare.get2DeltaSi", vc17Mon, lib.D("l", l, "si", si.Text(16), "got", got.Text(16), "want", want.Text(16)))
		}
		if again := ks.get2DeltaSi(int64(l)); again.Cmp(want) != 0 {
			lib.Violation("C17:cached-exponent-wrong:tss-rsa:KeyShare.get2DeltaSi", vc17Mon, lib.D("l", l, "what", "second call (cached)"))
		}
	}

	// ---- computeLambda: every subset for l <= 8, sampled up to l = 30
	type lc struct {
		l int
		S []int
	}
	var cases []lc
	for l := 2; l <= 8; l++ {
		for m := 1; m < 1<<uint(l); m++ {
			var S []int
			for i := 0; i < l; i++ {
				if m>>uint(i)&1 == 1 {
					S = append(S, i+1)
				}
			}
			cases = append(cases, lc{l, S})
		}
	}
	r := lib.NewRng("c17/wb/lambda", 0)
	for i := 0; i < lib.Scale(400, 20000); i++ {
		l := 9 + r.Intn(22)
		cases = append(cases, lc{l, vc17Subset(r, l, 1+r.Intn(l))})
	}
	type bad struct {
		rank   string
		detail map[string]any
	}
	var bads []bad
	for _, c := range cases {
		delta := vc17Fact(c.l)
		shares := make([]SignShare, len(c.S))
		for i, j := range c.S {
			shares[i].Index = uint(j)
		}
		prefix := true
		for i, j := range c.S {
			if j != i+1 {
				prefix = false
			}
		}
		for _, j := range c.S {
			lib.CaseS("wb-lambda", fmt.Sprint(c.l, c.S, j))
			lib.Count("wb:lambda")
			if !prefix {
				lib.Count("wb:lambda-nonprefix")
			}
			want := vc17Lambda(delta, c.S, 0, j)
			var got *big.Int
			var err error
			p := lib.Try("tss/rsa.computeLambda", []byte(fmt.Sprint(c.l, c.S, j)), func() { got, err = computeLambda(new(big.Int).Set(delta), shares, 0, int64(j)) })
			if p != nil || err != nil || got.Cmp(want) != 0 {
				bads = append(bads, bad{fmt.Sprintf("%02d/%02d/%v/%02d", c.l, len(c.S), c.S, j),
					lib.D("l", c.l, "S", fmt.Sprint(c.S), "j", j, "want", want.String(), "got", fmt.Sprint(got), "err", err, "panic", fmt.Sprint(p != nil))})
			}
		}
	}
	sort.SliceStable(bads, func(i, j int) bool { return bads[i].rank < bads[j].rank })
	for _, b := range bads {
		lib.Violation("C17:lambda-wrong:tss-rsa:computeLambda", vc17Mon, b.detail)
	}

	// ---- computePolynomial: every (k, x) with k, x <= 30, three moduli
	bads = nil
	for mi, mbits := range []int{16, 511, 1023} {
		rr := lib.NewRng("c17/wb/poly", mi)
		m := new(big.Int).SetBytes(rr.Bytes((mbits + 7) / 8))
		m.SetBit(m, mbits-1, 1)
		for k := 1; k <= 30; k++ {
			a := make([]*big.Int, k)
			for i := range a {
				a[i] = new(big.Int).Mod(new(big.Int).SetBytes(rr.Bytes(len(m.Bytes())+8)), m)
			}
			for x := 1; x <= 30; x++ {
				want := new(big.Int)
				for i := k - 1; i >= 0; i-- {
					want.Mul(want, big.NewInt(int64(x)))
					want.Add(want, a[i])
					want.Mod(want, m)
				}
				top := new(big.Int).Exp(big.NewInt(int64(x)), big.NewInt(int64(k-1)), nil)
				lib.CaseS("wb-polynomial", fmt.Sprint(k, x, mbits))
				lib.Count("wb:polynomial")
				if top.BitLen() > 53 {
					lib.Count("wb:polynomial-power-above-2^53")
				}
				var got *big.Int
				p := lib.Try("tss/rsa.computePolynomial", []byte(fmt.Sprint(k, x, mbits)), func() { got = computePolynomial(uint(k), a, uint(x), m) })
				if p != nil || got.Cmp(want) != 0 {
					bads = append(bads, bad{fmt.Sprintf("%02d/%02d/%04d", k, x, mbits),
						lib.D("k", k, "x", x, "modulus_bits", mbits, "highest_power_bits", top.BitLen(), "want", want.Text(16), "got", fmt.Sprint(got), "panic", fmt.Sprint(p != nil))})
				}
			}
		}
	}
	sort.SliceStable(bads, func(i, j int) bool { return bads[i].rank < bads[j].rank })
	for _, b := range bads {
		lib.Violation("C17:share-polynomial-wrong:tss-rsa:computePolynomial", vc17Mon, b.detail)
	}
}
