//go:build verif

// C11(a) — sequence / replay monitor.
//
// Per package: a pool of live objects and a table of operations.  After every
// operation (1) the receiver must serialise like the receiver of the same
// operation replayed on FRESH, non-aliased objects rebuilt from the operands'
// serialisations, (2) every pool object the operation does not write must
// serialise as before, (3) at the end of every history the global canary must
// be unchanged.
package c11

import (
	"bytes"
	"fmt"
	"sort"
	"strings"
	"testing"

	"github.com/cloudflare/circl/internal/zzverif/canary"
	"github.com/cloudflare/circl/internal/zzverif/lib"
)

func TestMain(m *testing.M) { lib.Main(m) }

type kind struct {
	name string
	ser  func(any) []byte
	de   func([]byte) any // fresh object holding the serialised value
}

type opdef struct {
	name string
	// kinds[i] = index into model.kinds of slot i.  Slot 0 is the receiver.
	kinds []int
	// writes lists the slots the operation may write (default: slot 0).  An
	// empty non-nil slice means "writes nothing".
	writes []int
	// run executes the operation; it may return a new object (to be put into
	// the pool as kind ret) and extra observable output.
	run func(s []any, r *lib.Rng) (newObj any, extra []byte)
	ret int // kind of newObj, -1 if none
}

type model struct {
	name  string
	kinds []kind
	// seed fills the pool of each kind.
	seed func(r *lib.Rng) [][]any
	ops  []opdef
}

var models []model

func runModel(m model) {
	nh := lib.Scale(200, 20000)
	depth := 30
	base := canary.Parts()
	lib.Mandatory("seq:ops:"+m.name, "seq:aliased-ops:"+m.name)
	for h := 0; h < nh; h++ {
		r := lib.NewRng("c11/seq/"+m.name, h)
		pool := m.seed(r)
		var trace []string
		for step := 0; step < depth; step++ {
			op := m.ops[r.Intn(len(m.ops))]
			idx := make([]int, len(op.kinds))
			slots := make([]any, len(op.kinds))
			aliased := false
			for i, k := range op.kinds {
				n := len(pool[k])
				idx[i] = r.Intn(n)
				// bias towards aliasing with an earlier slot of the same kind
				for j := 0; j < i; j++ {
					if op.kinds[j] == k && r.Intn(4) == 0 {
						idx[i] = idx[j]
					}
				}
				for j := 0; j < i; j++ {
					if op.kinds[j] == k && idx[j] == idx[i] {
						aliased = true
					}
				}
				slots[i] = pool[k][idx[i]]
			}
			desc := fmt.Sprintf("%s%v", op.name, idx)
			trace = append(trace, desc)
			// snapshot
			before := make([][][]byte, len(pool))
			for k := range pool {
				before[k] = make([][]byte, len(pool[k]))
				for i, o := range pool[k] {
					before[k][i] = m.kinds[k].ser(o)
				}
			}
			// replay objects: fresh and pairwise distinct
			fresh := make([]any, len(slots))
			for i, k := range op.kinds {
				fresh[i] = m.kinds[k].de(before[k][idx[i]])
			}
			rseed := r.U64()
			var newObj, newObjF any
			var extra, extraF []byte
			lib.CaseS(m.name, desc, fmt.Sprint(h))
			p := lib.Try("c11/seq:"+m.name+":"+op.name, nil, func() {
				newObj, extra = op.run(slots, lib.NewRng("c11/op", int(rseed)))
			})
			pf := lib.Try("c11/seq-replay:"+m.name+":"+op.name, nil, func() {
				newObjF, extraF = op.run(fresh, lib.NewRng("c11/op", int(rseed)))
			})
			lib.Count("seq:ops:" + m.name)
			if aliased {
				lib.Count("seq:aliased-ops:" + m.name)
			}
			if p != nil || pf != nil {
				if (p != nil) != (pf != nil) {
					lib.Violation("C11:replay-mismatch:"+m.name+"."+op.name+":panic-only-on-one-side", "TestVerifSeq",
						lib.D("model", m.name, "op", desc, "aliased", aliased, "trace", trace, "pool_panic", fmt.Sprint(p != nil), "fresh_panic", fmt.Sprint(pf != nil)))
				}
				break // panics themselves are C10's business
			}
			writes := op.writes
			if writes == nil {
				writes = []int{0}
			}
			// an object of the pool that can no longer be serialised after the
			// operation (the curve code refuses it as invalid) was corrupted by it
			if pz := lib.Try("c11/seq-inspect:"+m.name+":"+op.name, nil, func() {
				for k := range pool {
					for _, o := range pool[k] {
						_ = m.kinds[k].ser(o)
					}
				}
				for w := range slots {
					_ = m.kinds[op.kinds[w]].ser(fresh[w])
				}
			}); pz != nil {
				lib.Violation("C11:operand-changed:"+m.name+"."+op.name+":object-no-longer-valid", "TestVerifSeq",
					lib.D("model", m.name, "op", desc, "aliased", aliased, "panic_when_serialising", pz.Value, "trace", trace))
				break
			}
			written := map[[2]int]bool{}
			for _, w := range writes {
				written[[2]int{op.kinds[w], idx[w]}] = true
				got := m.kinds[op.kinds[w]].ser(slots[w])
				want := m.kinds[op.kinds[w]].ser(fresh[w])
				if !bytes.Equal(got, want) {
					cls := "fresh-vs-used"
					if aliased {
						cls = "aliased"
					}
					lib.Violation("C11:replay-mismatch:"+m.name+"."+op.name+":"+cls, "TestVerifSeq",
						lib.D("model", m.name, "op", desc, "slot", w, "aliased", aliased, "got", got, "want_from_fresh_replay", want, "trace", trace))
				}
			}
			if !bytes.Equal(extra, extraF) {
				lib.Violation("C11:replay-mismatch:"+m.name+"."+op.name+":result", "TestVerifSeq",
					lib.D("model", m.name, "op", desc, "aliased", aliased, "got", extra, "want_from_fresh_replay", extraF, "trace", trace))
			}
			// Random* constructors are randomised by design (ristretto255 draws
			// from crypto/rand whatever reader is passed): their value is not
			// compared, only that the returned object is independent later on.
			if op.ret >= 0 && newObj != nil && newObjF != nil && !strings.Contains(op.name, "Random") {
				a := m.kinds[op.ret].ser(newObj)
				b := m.kinds[op.ret].ser(newObjF)
				if !bytes.Equal(a, b) {
					lib.Violation("C11:replay-mismatch:"+m.name+"."+op.name+":returned", "TestVerifSeq",
						lib.D("model", m.name, "op", desc, "got", a, "want_from_fresh_replay", b, "trace", trace))
				}
			}
			// operands not written must be unchanged
			for k := range pool {
				for i, o := range pool[k] {
					if written[[2]int{k, i}] {
						continue
					}
					if now := m.kinds[k].ser(o); !bytes.Equal(now, before[k][i]) {
						role := "bystander"
						for s := range idx {
							if op.kinds[s] == k && idx[s] == i {
								role = fmt.Sprintf("operand-slot-%d", s)
							}
						}
						lib.Violation("C11:operand-changed:"+m.name+"."+op.name+":"+role, "TestVerifSeq",
							lib.D("model", m.name, "op", desc, "kind", m.kinds[k].name, "index", i, "before", before[k][i], "after", now, "trace", trace))
					}
				}
			}
			if op.ret >= 0 && newObj != nil {
				k := op.ret
				pool[k][r.Intn(len(pool[k]))] = newObj
			}
		}
		if h%4 == 3 || h == nh-1 {
			now := canary.Parts()
			if d := canary.Diff(base, now); len(d) > 0 {
				lib.Violation("C11:global-changed:"+m.name+":"+d[0], "TestVerifSeq",
					lib.D("model", m.name, "changed_parts", d, "last_history_trace", trace, "history", h))
				base = now
			}
			lib.Count("seq:canary-checks")
		}
		if h == 0 {
			lib.Sample("TestVerifSeq", map[string]any{"model": m.name, "history": trace})
		}
	}
}

func TestVerifSeq(t *testing.T) {
	lib.Mandatory("seq:canary-checks")
	sort.Slice(models, func(i, j int) bool { return models[i].name < models[j].name })
	for _, m := range models {
		runModel(m)
	}
}

func b2(b bool) []byte {
	if b {
		return []byte{1}
	}
	return []byte{0}
}

func must(b []byte, err error) []byte {
	if err != nil {
		return []byte("ERR:" + err.Error())
	}
	return b
}
