#!/bin/bash
# regress_seeds.sh [pattern]: re-evaluates every kept seed (seeded/seed-*) against the
# current checks, two at a time, and prints one line per seed; a seed that is no longer
# caught by the check of its property is a regression of the monitors.
pat=${1:-seed-}
out=/tmp/regress; rm -rf $out; mkdir -p $out
ls -d /verif/seeded/${pat}* | while read d; do
  n=$(basename $d); cp -r $d $out/$n; rm -f $out/$n/eval.json
done
ls -d $out/seed-* | xargs -P 2 -I{} sh -c 'B=$(python3 -c "import json,sys; print(json.load(open(sys.argv[1]+'/meta.json')).get('base','HEAD'))" {}); python3 /verif/tools/seedeval.py {} --base $B > {}/eval.out 2>&1; python3 - {} <<P
import json,sys
try:
    e=json.load(open(sys.argv[1]+"/eval.json"))
    print(e["seed"], "demo_valid=",e.get("demo_valid"), " ".join("%s:%s"%(c,"CAUGHT" if v["caught"] else "MISSED exit=%d"%v["exit"]) for c,v in e["checks"].items()), e.get("error",""), flush=True)
except Exception as ex:
    print(sys.argv[1],"EVAL ERROR",ex, flush=True)
P'
