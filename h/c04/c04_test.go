//go:build verif

package c04

// Black-box differential monitors: circl's six parameter sets against ref/mldsa.

import (
	"bytes"
	cryptoRand "crypto/rand"
	"fmt"
	"io"
	"math"
	"reflect"
	"sync"
	"testing"

	"github.com/cloudflare/circl/internal/zzverif/lib"
	"github.com/cloudflare/circl/internal/zzverif/ref/mldsa"
	"github.com/cloudflare/circl/sign"
	"golang.org/x/sys/cpu"
)

var (
	selfMu  sync.Mutex
	selfErr string
)

// oracleBroken records a failure of the harness's own assumptions (never a property
// violation); the test function that called it ends with t.Fatal => INCONCLUSIVE.
func oracleBroken(format string, a ...any) {
	selfMu.Lock()
	if selfErr == "" {
		selfErr = fmt.Sprintf(format, a...)
	}
	selfMu.Unlock()
}

func failIfOracleBroken(t *testing.T) {
	selfMu.Lock()
	defer selfMu.Unlock()
	if selfErr != "" {
		t.Fatal("oracle self-check failed: " + selfErr)
	}
}

func viol(im *impl, mon, class, sub string, kv ...any) {
	d := lib.D(kv...)
	d["scheme"] = im.p.Name
	d["cfg"] = lib.Cfg()
	key := "C04:" + class + ":" + im.p.Name
	if sub != "" {
		key += ":" + sub
	}
	lib.Violation(key, mon, d)
}

// ---------------------------------------------------------------- generators

func genSeed(r *lib.Rng, k int) []byte {
	switch k {
	case 0:
		return make([]byte, 32)
	case 1:
		s := make([]byte, 32)
		for i := range s {
			s[i] = 0xFF
		}
		return s
	}
	return r.Bytes(32)
}

func genCtx(r *lib.Rng, p *mldsa.Params) []byte {
	if !p.NIST {
		return nil
	}
	switch r.Intn(8) {
	case 0:
		return nil
	case 1:
		return []byte{}
	case 2:
		return r.Bytes(1)
	case 3:
		return r.Bytes(255)
	case 4:
		return r.Bytes(254)
	case 5:
		return make([]byte, 1+r.Intn(255)) // zero bytes
	}
	return r.Bytes(r.Intn(256))
}

// genMsg picks lengths around 0, the SHAKE256 rate boundaries of mu = H(tr || M'),
// and a few long ones.
func genMsg(r *lib.Rng, p *mldsa.Params, ctxLen int) []byte {
	pre := p.TRSize
	if p.NIST {
		pre += 2 + ctxLen
	}
	var n int
	switch r.Intn(10) {
	case 0:
		n = 0
	case 1:
		n = 1 + r.Intn(3)
	case 2, 3:
		// total absorbed length = j*136 + {-1,0,1}
		j := 1 + r.Intn(3)
		n = j*136 - pre + r.Intn(3) - 1
		if n < 0 {
			n += 136
		}
	case 4:
		n = 31 + r.Intn(3)
	case 5:
		n = 63 + r.Intn(3)
	case 6:
		n = 4096 + r.Intn(6000)
	default:
		n = r.Intn(600)
	}
	if n < 0 {
		n = 0
	}
	switch r.Intn(12) {
	case 0:
		return make([]byte, n)
	case 1:
		m := make([]byte, n)
		for i := range m {
			m[i] = 0xFF
		}
		return m
	}
	return r.Bytes(n)
}

// ---------------------------------------------------------------- verdict oracle

func checkVerdict(im *impl, mon, class string, pkObj any, pkb, msg, ctx, sig []byte) {
	p := im.p
	want := false
	if mp, ok := p.MPrime(ctx, msg); ok {
		want = p.VerifyInternal(pkb, mp, sig)
	}
	var got bool
	lib.Eval()
	pan := lib.Try("verify:"+p.Name+":"+class, sig, func() { got = im.verify(pkObj, msg, ctx, sig) })
	lib.Count("verdict-class:" + class)
	if pan != nil {
		viol(im, mon, "panic-verify", class, "pk", pkb, "msg", msg, "ctx", ctx, "sig", sig,
			"panic", pan.Value, "frame", pan.TopFrame(), "spec_verdict", want)
		return
	}
	if want {
		lib.Count("verdict:accept")
	} else {
		lib.Count("verdict:reject")
	}
	if got != want {
		viol(im, mon, "verdict-mismatch", class, "pk", pkb, "msg", msg, "ctx", ctx, "sig", sig,
			"sig_len", len(sig), "spec_sig_len", p.SigSize(), "circl", got, "fips204", want)
	}
}

func craft(p *mldsa.Params, r *lib.Rng, sig []byte) []mldsa.Crafted {
	out, err := mldsa.Craft(p, r, sig)
	if err != nil {
		oracleBroken("%v", err)
	}
	return out
}

// ---------------------------------------------------------------- main differential

const monDiff = "TestVerifDifferential"

func countStats(p *mldsa.Params, st *mldsa.SignStats, honestKey bool) {
	for _, c := range []struct {
		n string
		v int
	}{{"rej-z", st.RejZ}, {"rej-r0", st.RejR0}, {"rej-ct0", st.RejCt0}, {"rej-hint", st.RejHint}} {
		if c.v > 0 {
			lib.CountN(c.n, c.v)
			lib.CountN(c.n+":"+p.Name, c.v)
			if honestKey {
				lib.CountN(c.n+"@honest-keys", c.v)
			}
		}
	}
	if st.Hints == p.Omega {
		lib.Count("hint-weight=omega:accepted")
		lib.Count("hint-weight=omega:accepted:" + p.Name)
	}
	if st.RejHintOmega1 > 0 {
		lib.CountN("hint-weight=omega+1:rejected", st.RejHintOmega1)
	}
	lib.CountN("sign-attempts", st.Attempts)
	if st.Attempts == 1 {
		lib.Count("sign-first-attempt-accepted")
	}
	if st.Attempts >= 8 {
		lib.Count("sign-attempts>=8")
	}
}

func TestVerifDifferential(t *testing.T) {
	lib.Flag("cpu.avx2", cpu.X86.HasAVX2)
	lib.Mandatory("keygen-match", "signature-match", "verdict:accept", "verdict:reject",
		"rej-z@honest-keys", "rej-r0@honest-keys", "rej-hint@honest-keys",
		"crafted:hint-permuted", "crafted:hint-duplicated", "crafted:hint-padding-nonzero",
		"crafted:hint-count-gt-omega", "crafted:z-at-bound-pos", "crafted:z-below-bound-neg",
		"crafted:trailing-bytes", "crafted:truncated", "crafted:ctilde-altered")
	lib.Mandatory("rej-ct0", "crafted-sk-match", "crafted-rho-signed", "hint-weight=omega:accepted", "hint-weight=omega+1:rejected")
	lib.Mandatory("z-norm-max-valid:accepted-by-spec", "z-norm-at-bound:rejected-by-spec")
	nk := lib.Scale(4, 20)
	nm := lib.Scale(40, 200)
	// one pool for the three groups of cases, longest tasks first
	var tasks []func()
	tasks = append(tasks, zBoundaryTasks()...)
	tasks = append(tasks, craftedT0Tasks()...)
	tasks = append(tasks, longSecretTasks()...)
	for i := 0; i < len(impls)*nk; i++ {
		i := i
		tasks = append(tasks, func() { oneKey(impls[len(impls)-1-i%len(impls)], i/len(impls), nm) })
	}
	lib.Par(len(tasks), func(i int) { tasks[i]() })
	failIfOracleBroken(t)
}

func oneKey(im *impl, k, nm int) {
	oneKeySeed(im, k, nm, genSeed(lib.NewRng("c04/key/"+im.p.Name, k), k))
}

// longSecretTasks: key generation seeds for which ExpandS needs a third
// SHAKE256 block for one of the secret polynomials (eta = 4 only: ML-DSA-65,
// Dilithium3; about one seed in 14 000) are found by scanning a fixed range of
// seeds with the reference sampler; the full differential case (keys,
// signatures, verdicts) is then run on them.
func longSecretTasks() (out []func()) {
	lib.Mandatory("keygen:secret-sampler-needs-third-block")
	for _, im := range impls {
		if im.p.Eta != 4 {
			continue
		}
		im := im
		out = append(out, func() {
			const workers, span = 8, 20000
			hits := make([][][]byte, workers)
			lib.Par(workers, func(w int) {
				for i := w * span; i < (w+1)*span; i++ {
					xi := mldsa.H(32, []byte(fmt.Sprintf("c04/long-secret/%d/%s/%d", lib.Seed(), im.p.Name, i)))
					if im.p.SecretSamplerBlocks(xi) >= 3 {
						hits[w] = append(hits[w], xi)
					}
				}
			})
			n := 0
			for _, hs := range hits {
				for _, xi := range hs {
					if n < lib.Scale(2, 6) {
						lib.Count("keygen:secret-sampler-needs-third-block")
						oneKeySeed(im, 900+n, 2, xi)
						n++
					}
				}
			}
		})
	}
	return
}

func oneKeySeed(im *impl, k, nm int, seed []byte) {
	p := im.p
	pkb, skb := p.KeyGen(seed)

	var pkObj, skObj any
	if pan := lib.Try("NewKeyFromSeed:"+p.Name, seed, func() { pkObj, skObj = im.newKey(seed) }); pan != nil {
		viol(im, monDiff, "panic-keygen", "", "seed", seed, "panic", pan.Value)
		return
	}
	lib.Case([]byte("keygen"), []byte(p.Name), seed)
	cpk, csk := im.packPK(pkObj), im.packSK(skObj)
	if !lib.Eq(cpk, pkb) || !lib.Eq(csk, skb) {
		viol(im, monDiff, "keygen-mismatch", "", "seed", seed, "circl_pk", cpk, "ref_pk", pkb,
			"pk_equal", lib.Eq(cpk, pkb), "sk_equal", lib.Eq(csk, skb), "circl_sk", csk, "ref_sk", skb)
		return
	}
	lib.Count("keygen-match")
	// GenerateKey(reader) is key generation from the 32 octets the reader
	// supplies - also when it supplies them a few octets at a time, and from
	// a source that has more to give
	if k < 3 {
		stream := append(lib.Clone(seed), 0xAA, 0xBB, 0xCC)
		for ri, rd := range []io.Reader{bytes.NewReader(stream), &lib.ShortReader{R: bytes.NewReader(stream)}} {
			var gpk, gsk any
			var gerr error
			if pan := lib.Try("GenerateKey:"+p.Name, seed, func() { gpk, gsk, gerr = im.generate(rd) }); pan != nil || gerr != nil {
				viol(im, monDiff, "keygen-mismatch", "GenerateKey", "seed", seed, "err", gerr, "panic", fmt.Sprint(pan != nil), "short_reads", ri == 1)
				continue
			}
			lib.Count("keygen:GenerateKey")
			if !lib.Eq(im.packPK(gpk), pkb) || !lib.Eq(im.packSK(gsk), skb) {
				viol(im, monDiff, "keygen-mismatch", "GenerateKey", "seed", seed, "short_reads", ri == 1,
					"note", "the generated key is not KeyGen_internal of the 32 octets the reader delivered")
			}
		}
	}
	// Public(), Unpack(Pack()) must describe the same key
	if b := im.packPK(im.public(skObj)); !lib.Eq(b, pkb) {
		viol(im, monDiff, "keygen-mismatch", "sk.Public", "seed", seed, "circl_pk", b, "ref_pk", pkb)
	}
	pkU, err1 := im.unpackPK(pkb)
	skU, err2 := im.unpackSK(skb)
	if err1 != nil || err2 != nil {
		viol(im, monDiff, "unpack-own-key-failed", "", "seed", seed)
		return
	}
	if !lib.Eq(im.packPK(pkU), pkb) || !lib.Eq(im.packSK(skU), skb) || !lib.Eq(im.packPK(im.public(skU)), pkb) {
		viol(im, monDiff, "keygen-mismatch", "repack", "seed", seed)
	}
	okr := lib.NewRng("c04/otherkey/"+p.Name, k)
	opkb, _ := p.KeyGen(okr.Bytes(32))
	opkObj, _ := im.unpackPK(opkb)
	// key objects are re-used: the object that held the other key is loaded
	// with this key (UnmarshalBinary) and must then describe and verify for
	// this key exactly like a fresh decode (the matrix A is re-expanded)
	reusedPK, _ := im.unpackPK(opkb)
	if u, ok := reusedPK.(interface{ UnmarshalBinary([]byte) error }); ok && reusedPK != nil {
		_ = im.verify(reusedPK, []byte("warm"), nil, make([]byte, p.SigSize()))
		if err := u.UnmarshalBinary(lib.Clone(pkb)); err != nil || !lib.Eq(im.packPK(reusedPK), pkb) {
			viol(im, monDiff, "keygen-mismatch", "public-key-object-reloaded", "seed", seed, "err", err)
			reusedPK = nil
		} else {
			lib.Count("pk-object-reloaded")
		}
	} else {
		reusedPK = nil
	}

	zero := make([]byte, 32)
	for m := 0; m < nm; m++ {
		r := lib.NewRng("c04/msg/"+p.Name, k*1000+m)
		ctx := genCtx(r, p)
		msg := genMsg(r, p, len(ctx))
		mp, _ := p.MPrime(ctx, msg)
		var st mldsa.SignStats
		want := p.SignInternal(skb, mp, zero, &st)
		countStats(p, &st, true)
		lib.Case([]byte("sign"), []byte(p.Name), seed, ctx, msg)

		for vi, sk := range []any{skObj, skU} {
			var got []byte
			var err error
			pan := lib.Try("SignTo:"+p.Name, msg, func() { got, err = im.sign(sk, msg, ctx, false) })
			if pan != nil || err != nil {
				viol(im, monDiff, "sign-failed", "", "seed", seed, "msg", msg, "ctx", ctx, "err", err, "panic", fmt.Sprint(pan))
				continue
			}
			if !lib.Eq(got, want) {
				viol(im, monDiff, "signature-mismatch", "deterministic", "seed", seed, "msg", msg, "ctx", ctx,
					"key_from", []string{"NewKeyFromSeed", "Unpack"}[vi], "circl", got, "fips204", want,
					"ref_attempts", st.Attempts)
				continue
			}
			lib.Count("signature-match")
		}
		if k < 2 && m == 0 {
			lib.Sample(monDiff, lib.D("scheme", p.Name, "seed", seed, "ctx", ctx, "msg_len", len(msg),
				"attempts", st.Attempts, "rej_z", st.RejZ, "rej_r0", st.RejR0, "rej_ct0", st.RejCt0,
				"rej_hint", st.RejHint, "z_norm", st.ZNorm, "hints", st.Hints, "sig_prefix", want[:16]))
		}

		// verdicts; alternate between the key object made by key generation and the unpacked one
		pko := pkObj
		if m%2 == 1 {
			pko = pkU
		}
		checkVerdict(im, monDiff, "honest", pko, pkb, msg, ctx, want)
		if reusedPK != nil && m < 2 {
			checkVerdict(im, monDiff, "honest", reusedPK, pkb, msg, ctx, want)
		}
		if m >= 2 && !lib.Thorough() {
			continue
		}
		if m >= 6 {
			continue
		}
		for _, c := range craft(p, r, want) {
			checkVerdict(im, monDiff, c.Class, pko, pkb, msg, ctx, c.Sig)
		}
		checkVerdict(im, monDiff, "wrong-message", pko, pkb, append(lib.Clone(msg), 0), ctx, want)
		if len(msg) > 0 {
			checkVerdict(im, monDiff, "wrong-message", pko, pkb, lib.FlipBit(msg, r.Intn(8*len(msg))), ctx, want)
			checkVerdict(im, monDiff, "wrong-message", pko, pkb, msg[:len(msg)-1], ctx, want)
		}
		checkVerdict(im, monDiff, "wrong-key", opkObj, opkb, msg, ctx, want)
		for _, bit := range []int{r.Intn(256), 256 + r.Intn(8*(len(pkb)-32)), 8*len(pkb) - 1} {
			bpk := lib.FlipBit(pkb, bit)
			if o, err := im.unpackPK(bpk); err == nil {
				checkVerdict(im, monDiff, "pk-bitflip", o, bpk, msg, ctx, want)
			}
		}
		if p.NIST {
			checkVerdict(im, monDiff, "wrong-ctx", pko, pkb, msg, append(lib.Clone(ctx), 7)[:min(255, len(ctx)+1)], want)
			if len(ctx) > 0 {
				checkVerdict(im, monDiff, "wrong-ctx", pko, pkb, msg, ctx[:len(ctx)-1], want)
				// ctx and msg boundary moved: same concatenation, different length byte
				checkVerdict(im, monDiff, "wrong-ctx", pko, pkb, append(lib.Clone(ctx[len(ctx)-1:]), msg...), ctx[:len(ctx)-1], want)
			}
			long := r.Bytes(256)
			checkVerdict(im, monDiff, "ctx-too-long", pko, pkb, msg, long, want)
			if _, err := im.sign(skObj, msg, long, false); err == nil {
				viol(im, monDiff, "ctx-too-long-accepted", "SignTo", "ctx_len", 256)
			}
			lib.Count("ctx-too-long")
		}
	}
}

// ---------------------------------------------------------------- hedged signing through the public API

type fixedReader struct {
	data []byte
	off  int
}

func (f *fixedReader) Read(p []byte) (int, error) {
	n := copy(p, f.data[f.off:])
	f.off += n
	if n == 0 {
		return 0, io.EOF
	}
	return n, nil
}

// TestVerifHedgedPublicAPI signs with randomized=true while crypto/rand.Reader is
// replaced by a reader that hands out a chosen rnd, so the real public hedged path
// (rnd generation, framing, Sign_internal) is compared byte for byte.  Serial: the
// reader is process-global.
func TestVerifHedgedPublicAPI(t *testing.T) {
	const mon = "TestVerifHedgedPublicAPI"
	lib.Mandatory("hedged-public-match")
	n := lib.Scale(6, 60)
	saved := cryptoRand.Reader
	defer func() { cryptoRand.Reader = saved }()
	for _, im := range impls {
		p := im.p
		if !p.NIST {
			continue
		}
		for i := 0; i < n; i++ {
			r := lib.NewRng("c04/hedged/"+p.Name, i)
			seed := genSeed(r, i+2)
			ctx := genCtx(r, p)
			msg := genMsg(r, p, len(ctx))
			rnd := r.Bytes(32)
			switch i {
			case 1:
				rnd = make([]byte, 32)
			case 2:
				for j := range rnd {
					rnd[j] = 0xFF
				}
			}
			pkb, skb := p.KeyGen(seed)
			mp, _ := p.MPrime(ctx, msg)
			var st mldsa.SignStats
			want := p.SignInternal(skb, mp, rnd, &st)
			countStats(p, &st, true)
			pkObj, skObj := im.newKey(seed)
			fr := &fixedReader{data: append(lib.Clone(rnd), r.Bytes(64)...)}
			cryptoRand.Reader = fr
			var got []byte
			var err error
			pan := lib.Try("SignTo-randomized:"+p.Name, msg, func() { got, err = im.sign(skObj, msg, ctx, true) })
			cryptoRand.Reader = saved
			lib.Case([]byte("hedged"), []byte(p.Name), seed, ctx, msg, rnd)
			if pan != nil || err != nil {
				viol(im, mon, "sign-failed", "hedged", "seed", seed, "msg", msg, "ctx", ctx, "err", err, "panic", fmt.Sprint(pan))
				continue
			}
			if fr.off != 32 {
				lib.Note("%s: SignTo(randomized) read %d bytes from crypto/rand.Reader", p.Name, fr.off)
			}
			if !lib.Eq(got, want) {
				viol(im, mon, "signature-mismatch", "hedged", "seed", seed, "msg", msg, "ctx", ctx, "rnd", rnd,
					"rand_bytes_read", fr.off, "circl", got, "fips204", want)
				continue
			}
			lib.Count("hedged-public-match")
			checkVerdict(im, mon, "honest-hedged", pkObj, pkb, msg, ctx, got)
			// and with the real crypto/rand: the signature must satisfy the specification's verifier
			got2, err := im.sign(skObj, msg, ctx, true)
			if err != nil || !p.VerifyInternal(pkb, mp, got2) {
				viol(im, mon, "randomized-signature-invalid", "", "seed", seed, "msg", msg, "ctx", ctx, "sig", got2)
			}
			if lib.Eq(got2, got) {
				viol(im, mon, "randomized-signature-not-random", "", "seed", seed)
			}
			lib.Count("hedged-real-rand-verifies")
		}
	}
}

// ---------------------------------------------------------------- crafted private keys (the ||ct0|| branch)

// craftedT0 (run from TestVerifDifferential's pool) signs with private keys whose t0
// part is replaced (every 13-bit pattern is a valid t0 coefficient).  Sign_internal is a function of the private key
// bytes, so the signatures must still be byte-identical.  With one or two polynomials
// of t0 set to +-2^12 (the others zero, to keep the hint weight low) the rejection
// ||c t0|| >= gamma2, which honest keys hit about once in 10^7 attempts, is taken every
// few signatures for the gamma2 = (q-1)/88 sets.  For gamma2 = (q-1)/32 it cannot be
// taken at all: tau * 2^12 < gamma2.  With about omega / E[hints per such polynomial]
// polynomials set that way the hint weight of an attempt hovers around omega, so both
// sides of "weight > omega" (weight == omega accepted, omega+1 rejected) are taken.
func craftedT0Tasks() (tasks []func()) {
	nk := lib.Scale(3, 12)
	for i := 0; i < len(impls)*nk; i++ {
		i := i
		tasks = append(tasks, func() { craftedT0(impls[i%len(impls)], i/len(impls)) })
	}
	for _, im := range impls {
		im := im
		tasks = append(tasks, func() { craftedRho(im) }, func() { pairAfterReload(im) })
	}
	return
}

// craftedRho: private-key encodings whose rho is a constant octet string
// (all zeros - what a zero-valued key object holds before anything is decoded
// into it - all ones, 0x01 0x00..): the matrix A is ExpandA(rho) for THAT
// rho, so the signatures are the reference's for the encoding as given.
func craftedRho(im *impl) {
	const mon = "TestVerifDifferential/CraftedRho"
	p := im.p
	r := lib.NewRng("c04/rho/"+p.Name, 0)
	_, skb0 := p.KeyGen(r.Bytes(32))
	zero := make([]byte, 32)
	for vi, fill := range []func(b []byte){
		func(b []byte) { copy(b, make([]byte, 32)) },
		func(b []byte) {
			for i := range b {
				b[i] = 0xFF
			}
		},
		func(b []byte) { copy(b, make([]byte, 32)); b[0] = 1 },
	} {
		skb := lib.Clone(skb0)
		fill(skb[:32])
		skObj, err := im.unpackSK(skb)
		if err != nil {
			viol(im, mon, "unpack-own-key-failed", "rho-constant", "sk", skb)
			continue
		}
		for m := 0; m < 3; m++ {
			msg := r.Bytes(r.Intn(60))
			ctx := genCtx(r, p)
			mp, _ := p.MPrime(ctx, msg)
			var st mldsa.SignStats
			want := p.SignInternal(skb, mp, zero, &st)
			lib.Case([]byte("crafted-rho"), []byte(p.Name), []byte{byte(vi)}, ctx, msg)
			var got []byte
			if pan := lib.Try("SignTo-crafted-rho:"+p.Name, skb, func() { got, _ = im.sign(skObj, msg, ctx, false) }); pan != nil {
				viol(im, mon, "sign-failed", "crafted-sk-rho-constant", "sk", skb, "msg", msg, "ctx", ctx, "panic", pan.Value)
				break
			}
			lib.Count("crafted-rho-signed")
			if !lib.Eq(got, want) {
				viol(im, mon, "signature-mismatch", "crafted-sk-rho-constant", "sk", skb, "rho", skb[:32], "msg", msg, "ctx", ctx, "circl", got, "fips204", want)
				break
			}
		}
	}
}

// pairAfterReload: the public key of a generated pair (and the one Public()
// hands out) is a value of its own: when the PRIVATE key object is re-used
// for another key (its own UnmarshalBinary / Unpack), the public key still
// verifies the genuine signatures made before and still packs to the same
// octets.
func pairAfterReload(im *impl) {
	const mon = "TestVerifDifferential/PairAfterReload"
	p := im.p
	for i := 0; i < 3; i++ {
		r := lib.NewRng("c04/pair-reload/"+p.Name, i)
		seed := r.Bytes(32)
		pkObj, skObj := im.newKey(seed)
		if i == 2 {
			pkObj, skObj, _ = im.generate(lib.NewRng("c04/pair-reload/gen/"+p.Name, i))
		}
		pubObj := im.public(skObj)
		pkb := lib.Clone(im.packPK(pkObj))
		msg := r.Bytes(1 + r.Intn(60))
		ctx := genCtx(r, p)
		sig, err := im.sign(skObj, msg, ctx, false)
		if err != nil || !im.verify(pkObj, msg, ctx, sig) {
			continue // the differential monitors report this
		}
		_, otherSK := p.KeyGen(r.Bytes(32))
		done := false
		rv := reflect.ValueOf(skObj)
		for _, mname := range []string{"UnmarshalBinary", "Unpack"} {
			m := rv.MethodByName(mname)
			if !m.IsValid() || m.Type().NumIn() != 1 {
				continue
			}
			var arg reflect.Value
			switch {
			case m.Type().In(0) == reflect.TypeOf([]byte(nil)):
				arg = reflect.ValueOf(lib.Clone(otherSK))
			case m.Type().In(0).Kind() == reflect.Ptr && m.Type().In(0).Elem().Kind() == reflect.Array && m.Type().In(0).Elem().Len() == len(otherSK):
				a := reflect.New(m.Type().In(0).Elem())
				reflect.Copy(a.Elem(), reflect.ValueOf(otherSK))
				arg = a
			default:
				continue
			}
			if pn := lib.Try("reload-private-key:"+p.Name, otherSK, func() { m.Call([]reflect.Value{arg}) }); pn == nil {
				done = true
			}
			break
		}
		if !done {
			lib.Count("pair-reload:no-own-decoder")
			continue
		}
		lib.Count("pair-reload:private-key-object-reloaded")
		for wi, pub := range []any{pkObj, pubObj} {
			which := []string{"public key of the generated pair", "public key Public() returned before"}[wi]
			if !im.verify(pub, msg, ctx, sig) || !lib.Eq(im.packPK(pub), pkb) {
				viol(im, mon, "public-key-changed-by-reloading-the-private-key-object", "", "seed", seed, "which", which,
					"still_verifies", im.verify(pub, msg, ctx, sig), "encoding_same", lib.Eq(im.packPK(pub), pkb))
				break
			}
		}
	}
}

func craftedT0(im *impl, k int) {
	const mon = "TestVerifDifferential/CraftedT0"
	p := im.p
	nm := lib.Scale(8, 30)
	if (p.Gamma2 == (mldsa.Q-1)/88 && k%3 != 1) || k%6 == 1 {
		nm = lib.Scale(60, 200)
	}
	r := lib.NewRng("c04/t0/"+p.Name, k)
	seed := r.Bytes(32)
	pkb, skb := p.KeyGen(seed)
	skb = lib.Clone(skb)
	t0off := len(skb) - 32*mldsa.D*p.K
	// number of t0 polynomials set to +-2^12: 1 or 2 (few hints, so the ||ct0|| check
	// decides), or about omega / E[hints per such polynomial] (hint weight near omega)
	per := 256 * 0.8 * 4096 * math.Sqrt(float64(p.Tau)) / float64(2*p.Gamma2)
	np := []int{1, int(float64(p.Omega)/per + 0.5), 2}[k%3]
	mode := []string{"t0-extreme-few", "t0-extreme-hint-heavy", "t0-extreme-few"}[k%3]
	if k%6 == 5 {
		mode = "t0-random"
		r.Read(skb[t0off:])
	} else {
		// coefficient encoding 0 -> +2^12, 8191 -> -(2^12-1)
		var enc []byte
		for a := 0; a < p.K; a++ {
			var q mldsa.Poly
			for j := range q {
				if a >= np {
					break
				}
				if r.Bool() {
					q[j] = 1 << 12
				} else {
					q[j] = mldsa.Q - (1<<12 - 1)
				}
			}
			enc = append(enc, mldsa.BitPack(&q, 1<<12-1, 1<<12)...)
		}
		copy(skb[t0off:], enc)
	}
	skObj, err := im.unpackSK(skb)
	if err != nil {
		viol(im, mon, "unpack-own-key-failed", mode, "sk", skb)
		return
	}
	if b := im.packSK(skObj); !lib.Eq(b, skb) {
		viol(im, mon, "keygen-mismatch", "repack-"+mode, "sk", skb, "repacked", b)
	}
	pkObj, _ := im.unpackPK(pkb)
	zero := make([]byte, 32)
	for m := 0; m < nm; m++ {
		msg := r.Bytes(r.Intn(100))
		ctx := genCtx(r, p)
		mp, _ := p.MPrime(ctx, msg)
		var st mldsa.SignStats
		want := p.SignInternal(skb, mp, zero, &st)
		countStats(p, &st, false)
		lib.Case([]byte("crafted-sk"), []byte(p.Name), skb, ctx, msg)
		var got []byte
		pan := lib.Try("SignTo-crafted-sk:"+p.Name, skb, func() { got, _ = im.sign(skObj, msg, ctx, false) })
		if pan != nil && st.Attempts >= 576 {
			// circl gives up after 575 attempts (FIPS 204 Appendix C permits a bound)
			lib.Count("circl-attempt-cap-reached")
			lib.Note("%s: circl's 575-attempt cap reached with a crafted t0 (reference needs %d attempts)", p.Name, st.Attempts)
			continue
		}
		if pan != nil {
			viol(im, mon, "sign-failed", mode, "sk", skb, "msg", msg, "ctx", ctx, "panic", pan.Value)
			continue
		}
		if !lib.Eq(got, want) {
			viol(im, mon, "signature-mismatch", "crafted-sk-"+mode, "sk", skb, "msg", msg, "ctx", ctx,
				"circl", got, "fips204", want, "ref_attempts", st.Attempts, "ref_rej_ct0", st.RejCt0)
			continue
		}
		lib.Count("crafted-sk-match")
		// t0 no longer matches pk: whatever the specification's verifier says, circl must say too
		checkVerdict(im, mon, "crafted-sk-signature", pkObj, pkb, msg, ctx, got)
	}
}

// ---------------------------------------------------------------- signatures whose z norm sits on the bound

// zBoundary (run from TestVerifDifferential's pool) builds, with the reference signer, signatures that satisfy the
// verification equation and whose ||z|| is exactly gamma1-beta-1 (valid: must be
// accepted) or exactly gamma1-beta (must be rejected, and only because of the norm).
func zBoundaryTasks() (out []func()) {
	reps := lib.Scale(1, 4)
	type task struct {
		im    *impl
		valid bool
		rep   int
	}
	var tasks []task
	for rep := 0; rep < reps; rep++ {
		for _, im := range impls {
			tasks = append(tasks, task{im, true, rep}, task{im, false, rep})
		}
	}
	// the larger parameter sets take longest: schedule them first
	for i := len(tasks) - 1; i >= 0; i-- {
		tk := tasks[i]
		out = append(out, func() { zBoundary(tk.im, tk.valid, tk.rep) })
	}
	return
}

func zBoundary(im *impl, valid bool, rep int) {
	const mon = "TestVerifDifferential/ZBoundary"
	p := im.p
	class := "z-norm-at-bound"
	target := p.Gamma1() - p.Beta()
	if valid {
		class = "z-norm-max-valid"
		target--
	}
	r := lib.NewRng("c04/zb/"+p.Name+"/"+class, rep)
	seed := r.Bytes(32)
	pkb, skb := p.KeyGen(seed)
	pkObj, _ := im.unpackPK(pkb)
	rnd := make([]byte, 32)
	for m := 0; m < 40; m++ {
		msg := r.Bytes(16)
		ctx := genCtx(r, p)
		mp, _ := p.MPrime(ctx, msg)
		var st mldsa.SignStats
		sig, ok := p.SignWith(skb, mp, rnd, &st, &mldsa.SignOpts{ZExact: target, MaxAttempts: 3000})
		lib.CountN("zboundary-search-attempts", st.Attempts)
		if !ok {
			continue
		}
		d, n, h := p.VerifyParts(pkb, mp, sig)
		if !d || !h || n != valid {
			oracleBroken("boundary witness for %s/%s: decoded=%v norm=%v hash=%v", p.Name, class, d, n, h)
			return
		}
		if valid {
			lib.Count("z-norm-max-valid:accepted-by-spec")
		} else {
			lib.Count("z-norm-at-bound:rejected-by-spec")
		}
		lib.Case([]byte(class), []byte(p.Name), sig)
		checkVerdict(im, mon, class, pkObj, pkb, msg, ctx, sig)
		lib.Sample(mon, lib.D("scheme", p.Name, "class", class, "z_norm", target, "search_attempts", st.Attempts))
		return
	}
	lib.Count("zboundary-witness-not-found:" + p.Name)
}

// ---------------------------------------------------------------- generic sign.Scheme API

func TestVerifSchemeAPI(t *testing.T) {
	const mon = "TestVerifSchemeAPI"
	lib.Mandatory("scheme-api-match")
	n := lib.Scale(3, 20)
	lib.Par(len(impls)*n, func(i int) {
		im := impls[i%len(impls)]
		p := im.p
		s := im.scheme
		if s == nil {
			oracleBroken("schemes.ByName(%q) == nil", p.Name)
			return
		}
		r := lib.NewRng("c04/scheme/"+p.Name, i/len(impls))
		seed := r.Bytes(32)
		ctx := genCtx(r, p)
		msg := genMsg(r, p, len(ctx))
		pkb, skb := p.KeyGen(seed)
		pk, sk := s.DeriveKey(seed)
		a, _ := pk.MarshalBinary()
		b, _ := sk.MarshalBinary()
		lib.Case([]byte("scheme"), []byte(p.Name), seed, ctx, msg)
		if !lib.Eq(a, pkb) || !lib.Eq(b, skb) || s.PublicKeySize() != p.PKSize() || s.PrivateKeySize() != p.SKSize() || s.SignatureSize() != p.SigSize() {
			viol(im, mon, "keygen-mismatch", "scheme-api", "seed", seed)
			return
		}
		var opts *sign.SignatureOpts
		if len(ctx) > 0 {
			opts = &sign.SignatureOpts{Context: string(ctx)}
		}
		mp, _ := p.MPrime(ctx, msg)
		want := p.SignInternal(skb, mp, make([]byte, 32), nil)
		var got []byte
		if pan := lib.Try("Scheme.Sign:"+p.Name, msg, func() { got = s.Sign(sk, msg, opts) }); pan != nil {
			viol(im, mon, "sign-failed", "scheme-api", "seed", seed, "panic", pan.Value)
			return
		}
		if !lib.Eq(got, want) {
			viol(im, mon, "signature-mismatch", "scheme-api", "seed", seed, "msg", msg, "ctx", ctx, "circl", got, "fips204", want)
			return
		}
		sk2, err := s.UnmarshalBinaryPrivateKey(skb)
		pk2, err2 := s.UnmarshalBinaryPublicKey(pkb)
		if err != nil || err2 != nil || !sk2.Equal(sk) || !pk2.Equal(pk) || !lib.Eq(s.Sign(sk2, msg, opts), want) {
			viol(im, mon, "signature-mismatch", "scheme-api-unmarshalled", "seed", seed)
			return
		}
		bad := lib.FlipBit(want, r.Intn(8*len(want)))
		if s.Verify(pk2, msg, want, opts) != p.VerifyInternal(pkb, mp, want) || s.Verify(pk2, msg, bad, opts) != p.VerifyInternal(pkb, mp, bad) {
			viol(im, mon, "verdict-mismatch", "scheme-api", "seed", seed, "msg", msg, "ctx", ctx, "sig", bad)
			return
		}
		lib.Count("scheme-api-match")
	})
	failIfOracleBroken(t)
}
