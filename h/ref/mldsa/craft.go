//go:build verif

package mldsa

// Workload generator shared by the black-box and white-box monitors of C04: hostile
// variants of an honest signature.  The expected verdict of each is decided by
// VerifyInternal / SigDecode, never assumed.

import (
	"fmt"

	"github.com/cloudflare/circl/internal/zzverif/lib"
)

// Crafted is one hostile signature encoding and the input class it belongs to.
type Crafted struct {
	Class string
	Sig   []byte
}

// Craft derives hostile signature encodings from an honest one.
func Craft(p *Params, r *lib.Rng, sig []byte) ([]Crafted, error) {
	var out []Crafted
	add := func(c string, s []byte) {
		out = append(out, Crafted{c, s})
		lib.Count("crafted:" + c)
	}
	ct, z, h, ok := p.SigDecode(sig)
	if !ok {
		return nil, fmt.Errorf("reference cannot decode an honest %s signature", p.Name)
	}
	if !lib.Eq(p.SigEncode(ct, z, h), sig) {
		return nil, fmt.Errorf("reference SigEncode(SigDecode(sig)) != sig for %s", p.Name)
	}
	g1, beta := p.Gamma1(), p.Beta()
	setZ := func(class string, v int64) {
		z2 := append([]Poly{}, z...)
		z2[r.Intn(p.L)][r.Intn(256)] = Mod(v, Q)
		add(class, p.SigEncode(ct, z2, h))
	}
	setZ("z-at-bound-pos", g1-beta)
	setZ("z-at-bound-neg", -(g1 - beta))
	setZ("z-below-bound-pos", g1-beta-1)
	setZ("z-below-bound-neg", -(g1 - beta - 1))
	setZ("z-extreme", g1)
	setZ("z-extreme", -(g1 - 1))
	setZ("z-coefficient-changed", int64(r.Intn(int(g1-beta))))

	om, k := p.Omega, p.K
	hoff := len(sig) - om - k
	y := func() []byte { return lib.Clone(sig) }
	cnt := sig[hoff+om:]
	start := func(i int) int {
		if i == 0 {
			return 0
		}
		return int(cnt[i-1])
	}
	total := int(cnt[k-1])
	// a polynomial with at least two hint indices
	two := -1
	for i := 0; i < k; i++ {
		if int(cnt[i])-start(i) >= 2 {
			two = i
			if r.Bool() {
				break
			}
		}
	}
	if two >= 0 {
		s := y()
		a := hoff + start(two) + r.Intn(int(cnt[two])-start(two)-1)
		s[a], s[a+1] = s[a+1], s[a]
		add("hint-permuted", s)
		s = y()
		s[a+1] = s[a]
		add("hint-duplicated", s)
	}
	if total < om {
		s := y()
		s[hoff+total] = byte(1 + r.Intn(255))
		add("hint-padding-nonzero", s)
		s = y()
		s[hoff+om-1] = byte(1 + r.Intn(255))
		add("hint-padding-nonzero", s)
		s = y()
		s[hoff+total+r.Intn(om-total)] = byte(1 + r.Intn(255))
		add("hint-padding-nonzero", s)
	}
	{
		s := y()
		s[hoff+om+k-1] = byte(om + 1)
		add("hint-count-gt-omega", s)
		s = y()
		s[hoff+om+k-1] = 255
		add("hint-count-gt-omega", s)
		s = y()
		s[hoff+om+r.Intn(k)] = byte(om + 1 + r.Intn(255-om))
		add("hint-count-gt-omega", s)
	}
	for i := 1; i < k; i++ {
		if cnt[i-1] > 0 {
			s := y()
			s[hoff+om+i] = cnt[i-1] - 1
			add("hint-count-decreasing", s)
			break
		}
	}
	for i := 0; i < k-1; i++ {
		if int(cnt[i])-start(i) >= 1 {
			s := y()
			s[hoff+om+i]--
			add("hint-count-shifted", s) // last index of poly i now belongs to poly i+1
			break
		}
	}
	if total > 0 {
		s := y()
		s[hoff+om+k-1]-- // last index becomes padding
		add("hint-count-short", s)
	}
	if total < om {
		// a different, canonically encoded hint vector
		h2 := append([][N]uint8{}, h...)
		for {
			i, j := r.Intn(k), r.Intn(256)
			if h2[i][j] == 0 {
				h2[i][j] = 1
				break
			}
		}
		add("hint-bit-added", p.SigEncode(ct, z, h2))
	}
	if total > 0 {
		h2 := append([][N]uint8{}, h...)
		for {
			i, j := r.Intn(k), r.Intn(256)
			if h2[i][j] == 1 {
				h2[i][j] = 0
				break
			}
		}
		add("hint-bit-removed", p.SigEncode(ct, z, h2))
	}
	add("ctilde-altered", lib.FlipBit(sig, r.Intn(8*p.CTildeSize)))
	add("trailing-bytes", append(lib.Clone(sig), 0))
	add("trailing-bytes", append(lib.Clone(sig), r.Bytes(1+r.Intn(64))...))
	add("truncated", lib.Clone(sig[:len(sig)-1]))
	add("truncated", lib.Clone(sig[:r.Intn(len(sig))]))
	add("truncated", []byte{})
	for i := 0; i < 6; i++ {
		add("bitflip", lib.FlipBit(sig, r.Intn(8*len(sig))))
	}
	add("bitflip", lib.FlipBit(sig, 8*hoff+r.Intn(8*(om+k))))
	add("bitflip", lib.FlipBit(sig, 8*(hoff+om)+r.Intn(8*k)))
	return out, nil
}
