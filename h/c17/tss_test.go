//go:build verif

package c17

import (
	"crypto"
	"crypto/rand"
	"crypto/rsa"
	_ "crypto/sha256"
	_ "crypto/sha512"
	"crypto/x509"
	"encoding/binary"
	"encoding/pem"
	"errors"
	"fmt"
	"math/big"
	"os"
	"sort"
	"testing"

	"github.com/cloudflare/circl/internal/zzverif/lib"
	tss "github.com/cloudflare/circl/tss/rsa"
)

const monTSS = "TestVerifThresholdRSA"

type rsaKey struct {
	name string
	k    *rsa.PrivateKey
}

func loadKey(t *testing.T, name string) rsaKey {
	b, err := os.ReadFile(lib.Root() + "/testdata/rsa/" + name + ".pem")
	if err != nil {
		t.Fatal(err)
	}
	blk, _ := pem.Decode(b)
	if blk == nil {
		t.Fatalf("%s: no PEM block", name)
	}
	k, err := x509.ParsePKCS1PrivateKey(blk.Bytes)
	if err != nil {
		t.Fatal(err)
	}
	if err := k.Validate(); err != nil {
		t.Fatal(err)
	}
	return rsaKey{name, k}
}

// ---------------------------------------------------------------- share encodings (public MarshalBinary formats)

type keyShareParts struct {
	players, threshold, index int
	si, twoDeltaSi            *big.Int
}

func parseKeyShare(b []byte) (p keyShareParts, err error) {
	if len(b) < 8 {
		return p, errors.New("short")
	}
	p.players = int(binary.BigEndian.Uint16(b[0:]))
	p.threshold = int(binary.BigEndian.Uint16(b[2:]))
	p.index = int(binary.BigEndian.Uint16(b[4:]))
	n := int(binary.BigEndian.Uint16(b[6:]))
	if len(b) < 8+n+3 {
		return p, errors.New("short si")
	}
	p.si = new(big.Int).SetBytes(b[8 : 8+n])
	if b[8+n] != 0 {
		m := int(binary.BigEndian.Uint16(b[8+n+1:]))
		if len(b) < 8+n+3+m {
			return p, errors.New("short twoDeltaSi")
		}
		p.twoDeltaSi = new(big.Int).SetBytes(b[8+n+3 : 8+n+3+m])
	}
	return p, nil
}

func parseSignShare(b []byte) (players, threshold, index int, xi *big.Int, err error) {
	if len(b) < 8 {
		return 0, 0, 0, nil, errors.New("short")
	}
	players = int(binary.BigEndian.Uint16(b[0:]))
	threshold = int(binary.BigEndian.Uint16(b[2:]))
	index = int(binary.BigEndian.Uint16(b[4:]))
	n := int(binary.BigEndian.Uint16(b[6:]))
	if len(b) < 8+n {
		return 0, 0, 0, nil, errors.New("short xi")
	}
	return players, threshold, index, new(big.Int).SetBytes(b[8 : 8+n]), nil
}

// ---------------------------------------------------------------- reference (Shoup, Practical Threshold Signatures, protocol 1)

func factorial(l int) *big.Int { return new(big.Int).MulRange(1, int64(l)) }

// refLambda0 = Delta * prod_{j' in S\{j}} (0-j') / prod_{j' in S\{j}} (j-j'), an integer.
func refLambda0(delta *big.Int, S []int, j int) *big.Int {
	num, den := big.NewInt(1), big.NewInt(1)
	for _, jp := range S {
		if jp == j {
			continue
		}
		num.Mul(num, big.NewInt(int64(-jp)))
		den.Mul(den, big.NewInt(int64(j-jp)))
	}
	num.Mul(num, delta)
	quo, rem := new(big.Int).QuoRem(num, den, new(big.Int))
	if rem.Sign() != 0 {
		panic("reference: Delta*lambda is not an integer")
	}
	return quo
}

// refCombine combines x_i = x^{2 Delta s_i} of the players in S.
func refCombine(pub *rsa.PublicKey, l int, S []int, xi map[int]*big.Int, x *big.Int) (*big.Int, bool) {
	N := pub.N
	delta := factorial(l)
	w := big.NewInt(1)
	for _, j := range S {
		lam := refLambda0(delta, S, j)
		lam.Lsh(lam, 1)
		t := new(big.Int).Exp(xi[j], new(big.Int).Abs(lam), N)
		if lam.Sign() < 0 {
			if t.ModInverse(t, N) == nil {
				return nil, false
			}
		}
		w.Mul(w, t).Mod(w, N)
	}
	ePrime := new(big.Int).Mul(delta, delta)
	ePrime.Lsh(ePrime, 2)
	e := big.NewInt(int64(pub.E))
	a, b := new(big.Int), new(big.Int)
	if g := new(big.Int).GCD(a, b, ePrime, e); g.Cmp(big.NewInt(1)) != 0 {
		return nil, false
	}
	pw := func(base, ex *big.Int) *big.Int {
		t := new(big.Int).Exp(base, new(big.Int).Abs(ex), N)
		if ex.Sign() < 0 {
			if t.ModInverse(t, N) == nil {
				return big.NewInt(0)
			}
		}
		return t
	}
	y := pw(w, a)
	y.Mul(y, pw(x, b)).Mod(y, N)
	return y, new(big.Int).Exp(y, e, N).Cmp(x) == 0
}

// ---------------------------------------------------------------- workload

type padSpec struct {
	name string // pkcs1v15 | pss
	hash crypto.Hash
	opts *rsa.PSSOptions // pss only; nil = PSSSaltLengthAuto
}

func (p padSpec) String() string {
	if p.name == "pss" {
		if p.opts == nil {
			return "pss/" + p.hash.String() + "/salt=auto"
		}
		return fmt.Sprintf("pss/%s/salt=%d", p.hash, p.opts.SaltLength)
	}
	return "pkcs1v15/" + p.hash.String()
}

type tssCase struct {
	key        rsaKey
	l, k       int
	pad        padSpec
	exhaustive bool
	idx        int
	odd        bool
}

func TestVerifThresholdRSA(t *testing.T) {
	lib.Mandatory("tss:qualified-combines", "tss:combine-ok", "tss:unqualified-refused", "tss:subset-nonprefix", "tss:superset",
		"tss:pss", "tss:pkcs1v15", "tss:large-l", "tss:cached", "tss:uncached", "tss:blinded-parallel", "tss:blinded-sequential",
		"tss:unblinded", "tss:deal-checked", "tss:sign-checked", "tss:exhaustive-lk", "tss:marshal-roundtrip-combine")
	keys := []rsaKey{loadKey(t, "plain-1024"), loadKey(t, "safe-1024"), loadKey(t, "plain-2048"), loadKey(t, "safe-2048")}
	pads := []padSpec{
		{"pkcs1v15", crypto.SHA256, nil},
		{"pss", crypto.SHA256, nil},
		{"pss", crypto.SHA256, &rsa.PSSOptions{SaltLength: rsa.PSSSaltLengthEqualsHash}},
		{"pkcs1v15", crypto.SHA512, nil},
		{"pss", crypto.SHA384, &rsa.PSSOptions{SaltLength: rsa.PSSSaltLengthEqualsHash}},
	}
	var cases []tssCase
	// exhaustive: all (l,k), 2 <= l <= 6, 1 <= k <= l, every subset
	for ki, key := range keys {
		np := 2 // quick: PKCS#1 v1.5 + PSS(auto) per key; thorough: all five
		if lib.Thorough() {
			np = len(pads)
		}
		for pi := 0; pi < np; pi++ {
			pad := pads[pi]
			if !lib.Thorough() && ki >= 2 && pi == 1 {
				pad = pads[2] // 2048-bit keys: PSS with salt = hash length
			}
			for l := 2; l <= 6; l++ {
				for k := 1; k <= l; k++ {
					cases = append(cases, tssCase{key: key, l: l, k: k, pad: pad, exhaustive: true})
				}
			}
		}
	}
	// sampled: (l,k) up to 30
	fixed := [][2]int{{25, 20}, {3, 2}, {5, 3}, {6, 4}, {30, 30}, {30, 1}, {30, 16}, {7, 4}, {8, 8}, {10, 5}, {12, 3}, {16, 11}, {20, 7}, {13, 13}, {9, 2}, {21, 20}}
	pr := lib.NewRng("c17/tss/params", 0)
	for i := 0; i < lib.Scale(8, 150); i++ {
		l := 7 + pr.Intn(24)
		k := 1 + pr.Intn(l)
		fixed = append(fixed, [2]int{l, k})
	}
	for i, lk := range fixed {
		nk := 2 // quick: the two 1024-bit keys
		if lib.Thorough() {
			nk = 4
		}
		for ki := 0; ki < nk; ki++ {
			pad := pads[(i+ki)%len(pads)]
			cases = append(cases, tssCase{key: keys[ki], l: lk[0], k: lk[1], pad: pad})
			if i < 4 { // the named parameter sets under both paddings
				other := pads[0]
				if pad.name == "pkcs1v15" {
					other = pads[1]
				}
				cases = append(cases, tssCase{key: keys[ki], l: lk[0], k: lk[1], pad: other})
			}
		}
	}
	// moduli whose bit length is not a multiple of 8 (every residue 1..7, and
	// 2041 = 1 mod 8 where emBits is a multiple of 8 and the PSS block is one
	// octet shorter than the modulus): the PSS top-bit mask and the length of
	// the encoded message depend on it
	lib.Mandatory("tss:odd-modulus-length")
	for oi, name := range []string{"plain-1025", "plain-1026", "plain-1027", "plain-1028", "plain-1029", "plain-1030", "plain-1031", "plain-2041"} {
		ok := loadKey(t, name)
		lks := [][2]int{{3, 2}}
		if lib.Thorough() {
			lks = append(lks, [2]int{5, 3}, [2]int{4, 4}, [2]int{6, 1})
		}
		for _, lk := range lks {
			for pi := 0; pi < 3; pi++ {
				cases = append(cases, tssCase{key: ok, l: lk[0], k: lk[1], pad: pads[pi], exhaustive: oi%2 == 0 || lib.Thorough(), odd: true})
			}
		}
	}
	// public exponents other than 65537 (the scheme needs a prime e > l):
	// 7, 11 and 65539
	for _, ek := range []struct {
		name string
		lks  [][2]int
	}{
		{"plain-2048-e7", [][2]int{{3, 2}, {5, 3}, {6, 6}}},
		{"plain-2048-e11", [][2]int{{3, 2}, {10, 5}, {7, 7}}},
		{"plain-2048-e65539", [][2]int{{3, 2}, {12, 5}}},
	} {
		key := loadKey(t, ek.name)
		for li, lk := range ek.lks {
			cases = append(cases, tssCase{key: key, l: lk[0], k: lk[1], pad: pads[li%2], exhaustive: lk[0] <= 5})
		}
	}
	for i := range cases {
		cases[i].idx = i
	}
	F := &findings{}
	lib.Par(len(cases), func(i int) { tssOne(cases[i], F) })
	F.emit()
}

func tssViol(F *findings, c tssCase, key string, subset []int, kv ...any) {
	d := lib.D(kv...)
	d["rsa_key"] = c.key.name
	d["l"] = c.l
	d["k"] = c.k
	d["padding"] = c.pad.String()
	if subset != nil {
		d["players"] = fmt.Sprint(subset)
	}
	F.add(fmt.Sprintf("%02d/%02d/%02d/%v/%s/%06d", c.l, c.k, len(subset), subset, c.key.name, c.idx), key, monTSS, d)
}

func tssOne(c tssCase, F *findings) {
	key := c.key.k
	pub := &key.PublicKey
	N := pub.N
	r := lib.NewRng(fmt.Sprintf("c17/tss/%s/%d/%d/%s", c.key.name, c.l, c.k, c.pad), 0)
	desc := fmt.Sprintf("%s l=%d k=%d %s", c.key.name, c.l, c.k, c.pad)
	lib.CaseS("tss", desc)
	lib.Count("tss:" + c.pad.name)
	if c.exhaustive {
		lib.Count("tss:exhaustive-lk")
	}
	if c.l > 6 {
		lib.Count("tss:large-l")
	}
	if c.odd {
		lib.Count("tss:odd-modulus-length")
	}

	// ---- message and padding
	msg := r.Bytes(r.Intn(100))
	var padder tss.Padder
	if c.pad.name == "pss" {
		padder = &tss.PSSPadder{Rand: lib.NewRng("c17/tss/salt/"+desc, 0), Opts: c.pad.opts}
	} else {
		padder = &tss.PKCS1v15Padder{}
	}
	var em []byte
	var err error
	if p := lib.Try("tss/rsa.PadHash", msg, func() { em, err = tss.PadHash(padder, c.pad.hash, pub, msg) }); p != nil || err != nil {
		tssViol(F, c, "C17:padding-fails:tss-rsa:"+c.pad.name, nil, "err", err, "panic", fmt.Sprint(p != nil))
		return
	}
	x := new(big.Int).SetBytes(em)
	h := c.pad.hash.New()
	h.Write(msg)
	hashed := h.Sum(nil)
	verify := func(sig []byte) error {
		if c.pad.name == "pss" {
			return rsa.VerifyPSS(pub, c.pad.hash, hashed, sig, c.pad.opts)
		}
		return rsa.VerifyPKCS1v15(pub, c.pad.hash, hashed, sig)
	}

	// ---- Deal, cached and uncached, from the same randomness
	dealSeed := fmt.Sprintf("c17/tss/deal/%s", desc)
	var ksC, ksU []tss.KeyShare
	var e1, e2 error
	if p := lib.Try("tss/rsa.Deal", []byte(desc), func() {
		ksC, e1 = tss.Deal(lib.NewRng(dealSeed, 0), uint(c.l), uint(c.k), key, true)
		ksU, e2 = tss.Deal(lib.NewRng(dealSeed, 0), uint(c.l), uint(c.k), key, false)
	}); p != nil || e1 != nil || e2 != nil {
		tssViol(F, c, "C17:deal-fails:tss-rsa:Deal", nil, "err1", e1, "err2", e2, "panic", fmt.Sprint(p != nil))
		return
	}
	if len(ksC) != c.l || len(ksU) != c.l {
		tssViol(F, c, "C17:deal-fails:tss-rsa:Deal", nil, "shares", len(ksC))
		return
	}
	// reference dealing: m = (p-1)(q-1)/4, d = e^-1 mod m, a_1..a_{k-1} are
	// the values Deal draws with crypto/rand.Int(randSource, m) in order.
	one := big.NewInt(1)
	m := new(big.Int).Mul(new(big.Int).Sub(key.Primes[0], one), new(big.Int).Sub(key.Primes[1], one))
	m.Rsh(m, 2)
	coef := []*big.Int{new(big.Int).ModInverse(big.NewInt(int64(pub.E)), m)}
	if coef[0] == nil {
		return // e not invertible mod m: Deal refuses; not produced by the fixed keys
	}
	rr := lib.NewRng(dealSeed, 0)
	for i := 1; i < c.k; i++ {
		a, _ := rand.Int(rr, m)
		coef = append(coef, a)
	}
	delta := factorial(c.l)
	dealOK := true
	si := map[int]*big.Int{}
	for i := 0; i < c.l; i++ {
		bC, _ := ksC[i].MarshalBinary()
		bU, _ := ksU[i].MarshalBinary()
		pC, errC := parseKeyShare(bC)
		pU, errU := parseKeyShare(bU)
		if errC != nil || errU != nil {
			tssViol(F, c, "C17:keyshare-encoding:tss-rsa:KeyShare.MarshalBinary", nil, "index", i+1)
			return
		}
		want := refHorner(coef, big.NewInt(int64(i+1)), m)
		lib.Count("tss:deal-checked")
		if pC.index != i+1 || pC.players != c.l || pC.threshold != c.k || pC.si.Cmp(want) != 0 || pU.si.Cmp(want) != 0 {
			dealOK = false
			tssViol(F, c, "C17:dealt-share-wrong:tss-rsa:Deal", []int{i + 1}, "player", i+1, "want_si", want.Text(16), "got_si", pC.si.Text(16),
				"note", "s_i != sum a_j i^j mod m for the a_j drawn from the supplied randomness")
		}
		if pC.twoDeltaSi == nil {
			tssViol(F, c, "C17:cache-missing:tss-rsa:Deal", nil, "player", i+1)
		} else if want2 := new(big.Int).Mul(new(big.Int).Lsh(delta, 1), pC.si); pC.twoDeltaSi.Cmp(want2) != 0 {
			tssViol(F, c, "C17:cached-exponent-wrong:tss-rsa:KeyShare.get2DeltaSi", []int{i + 1}, "player", i+1)
		}
		if pU.twoDeltaSi != nil {
			tssViol(F, c, "C17:cache-unexpected:tss-rsa:Deal", nil, "player", i+1)
		}
		si[i+1] = pC.si
	}

	// ---- Sign: unblinded / blinded sequential / blinded parallel, cached and uncached
	xi := map[int]*big.Int{}
	shares := make([]tss.SignShare, c.l)
	signOK := true
	for i := 0; i < c.l; i++ {
		full := c.exhaustive || i < 2 || i == c.l-1
		type mode struct {
			name     string
			ks       *tss.KeyShare
			blind    bool
			parallel bool
		}
		modes := []mode{{"cached/unblinded", &ksC[i], false, false}}
		if full {
			modes = append(modes,
				mode{"uncached/blinded-parallel", &ksU[i], true, true},
				mode{"cached/blinded-sequential", &ksC[i], true, false},
				mode{"uncached/unblinded", &ksU[i], false, true})
		}
		var enc0 []byte
		for mi, md := range modes {
			var sh tss.SignShare
			var err error
			p := lib.Try("tss/rsa.KeyShare.Sign", em, func() {
				if md.blind {
					sh, err = md.ks.Sign(lib.NewRng("c17/tss/blind/"+desc, i*8+mi), pub, em, md.parallel)
				} else {
					sh, err = md.ks.Sign(nil, pub, em, md.parallel)
				}
			})
			lib.Eval()
			if p != nil || err != nil {
				signOK = false
				tssViol(F, c, "C17:sign-fails:tss-rsa:KeyShare.Sign", []int{i + 1}, "mode", md.name, "err", err, "panic", fmt.Sprint(p != nil))
				continue
			}
			switch {
			case md.blind && md.parallel:
				lib.Count("tss:blinded-parallel")
			case md.blind:
				lib.Count("tss:blinded-sequential")
			default:
				lib.Count("tss:unblinded")
			}
			if md.ks == &ksC[i] {
				lib.Count("tss:cached")
			} else {
				lib.Count("tss:uncached")
			}
			enc, _ := sh.MarshalBinary()
			if mi == 0 {
				enc0 = enc
				shares[i] = sh
				pl, th, ix, v, perr := parseSignShare(enc)
				if perr != nil || pl != c.l || th != c.k || ix != i+1 {
					tssViol(F, c, "C17:signshare-encoding:tss-rsa:SignShare.MarshalBinary", []int{i + 1})
					signOK = false
					continue
				}
				xi[i+1] = v
				// reference partial signature x^{2 Delta s_i} mod N
				ex := new(big.Int).Mul(new(big.Int).Lsh(delta, 1), si[i+1])
				lib.Count("tss:sign-checked")
				if want := new(big.Int).Exp(x, ex, N); want.Cmp(v) != 0 {
					signOK = false
					tssViol(F, c, "C17:sign-share-wrong:tss-rsa:KeyShare.Sign", []int{i + 1}, "player", i+1, "want_xi", want.Text(16), "got_xi", v.Text(16))
				}
			} else if !lib.Eq(enc, enc0) {
				tssViol(F, c, "C17:sign-modes-differ:tss-rsa:KeyShare.Sign", []int{i + 1}, "player", i+1, "mode", md.name, "against", modes[0].name)
			}
		}
	}
	if len(xi) != c.l {
		return
	}

	// ---- Combine over subsets
	var sets [][]int
	if c.exhaustive {
		for _, s := range subsets(c.l) {
			if len(s) > 0 {
				sets = append(sets, s)
			}
		}
	} else {
		all := seq(c.l)
		add := func(s []int) {
			s = append([]int(nil), s...)
			sort.Ints(s)
			sets = append(sets, s)
		}
		add(all[:c.k])     // the first k players (what the repo's tests use)
		add(all[c.l-c.k:]) // the last k
		add(all)           // everybody
		for j := 0; j < lib.Scale(5, 12); j++ {
			add(shuffled(r, all)[:c.k])
		}
		if c.k < c.l {
			add(shuffled(r, all)[:c.k+1])
			add(shuffled(r, all)[:c.k+r.Intn(c.l-c.k+1)])
		}
		if c.k > 1 {
			add(shuffled(r, all)[:c.k-1]) // unqualified
			add(all[:1])
		}
	}
	for si2, set := range sets {
		players := make([]int, len(set))
		for i, j := range set {
			players[i] = j + 1
		}
		orders := [][]int{players}
		if len(players) > 1 && (c.exhaustive || si2 < 4) {
			rv := make([]int, len(players))
			for i := range players {
				rv[len(players)-1-i] = players[i]
			}
			orders = append(orders, rv, shuffled(r, players))
		}
		for oi, order := range orders {
			list := make([]tss.SignShare, len(order))
			for i, j := range order {
				list[i] = shares[j-1]
				if oi == 1 {
					// the reversed order goes through the wire encoding
					enc, _ := shares[j-1].MarshalBinary()
					var u tss.SignShare
					if err := u.UnmarshalBinary(enc); err != nil {
						tssViol(F, c, "C17:signshare-encoding:tss-rsa:SignShare.UnmarshalBinary", []int{j}, "err", err)
					}
					list[i] = u
				}
			}
			if oi == 1 {
				lib.Count("tss:marshal-roundtrip-combine")
			}
			var sig []byte
			var err error
			lib.CaseS("tss-combine", desc, fmt.Sprint(order))
			p := lib.Try("tss/rsa.CombineSignShares", []byte(desc+" players="+fmt.Sprint(order)), func() { sig, err = tss.CombineSignShares(pub, list, em) })
			if len(order) < c.k {
				// unqualified: must be refused
				if p != nil {
					tssViol(F, c, "C17:unqualified-set-panics:tss-rsa:CombineSignShares", order, "panic", p.Value, "frame", p.TopFrame())
				} else if err == nil {
					tssViol(F, c, "C17:unqualified-set-accepted:tss-rsa:CombineSignShares", order, "verifies", verify(sig) == nil, "sig", sig)
				} else {
					lib.Count("tss:unqualified-refused")
				}
				continue
			}
			lib.Count("tss:qualified-combines")
			if len(order) > c.k {
				lib.Count("tss:superset")
			}
			if !isPrefix(set) {
				lib.Count("tss:subset-nonprefix")
			}
			var why string
			switch {
			case p != nil:
				why = "panic: " + p.Value
			case err != nil:
				why = "error: " + err.Error()
			case len(sig) != pub.Size():
				why = fmt.Sprintf("signature length %d", len(sig))
			default:
				if verr := verify(sig); verr != nil {
					why = "crypto/rsa rejects: " + verr.Error()
				}
			}
			if why == "" {
				lib.Count("tss:combine-ok")
				continue
			}
			lib.Count("tss:combine-failed")
			// attribution: the same partial signatures combined by the reference
			_, refOK := refCombine(pub, c.l, players, xi, x)
			tssViol(F, c, "C17:combine-fails:tss-rsa:"+c.pad.name, order, "outcome", why, "order", []string{"ascending", "descending(unmarshalled)", "shuffled"}[oi],
				"dealt_shares_match_reference", dealOK, "partial_signatures_match_reference", signOK,
				"reference_combination_of_the_same_partial_signatures_verifies", refOK, "msg", msg, "padded", em)
		}
	}

	// ---- a repeated player is not a second player
	if c.k >= 2 {
		for j := 0; j < 3; j++ {
			base := shuffled(r, seq(c.l))[:c.k-1]
			list := []tss.SignShare{}
			order := []int{}
			for _, b := range base {
				list = append(list, shares[b])
				order = append(order, b+1)
			}
			list = append(list, shares[base[0]])
			order = append(order, base[0]+1)
			var sig []byte
			var err error
			lib.Eval()
			p := lib.Try("tss/rsa.CombineSignShares:dup", []byte(desc+" players="+fmt.Sprint(order)), func() { sig, err = tss.CombineSignShares(pub, list, em) })
			if p == nil && err == nil {
				// k-1 distinct players produced something that passed as a signature
				tssViol(F, c, "C17:repeated-player-counted-twice:tss-rsa:CombineSignShares", order, "verifies", verify(sig) == nil, "sig", sig)
			} else {
				lib.Count("tss:repeated-player-refused")
			}
		}
	}
}

// TestVerifThresholdRSAGeneratedKeys: keys produced by the package's own
// GenerateKey (safe primes, math.SafePrime): well-formed, and every subset of
// a few (l,k) signs.  crypto/rand.Prime deliberately consumes a random number
// of octets, so these keys are not a function of VERIF_SEED; the primes are
// part of every witness.
func TestVerifThresholdRSAGeneratedKeys(t *testing.T) {
	lib.Mandatory("tssgen:keys", "tssgen:safe-primes")
	n := lib.Scale(3, 32)
	F := &findings{}
	lib.Par(n, func(i int) {
		bits := 512
		if i%8 == 7 {
			bits = 768
		}
		var key *rsa.PrivateKey
		var err error
		if p := lib.Try("tss/rsa.GenerateKey", []byte(fmt.Sprint(bits, i)), func() { key, err = tss.GenerateKey(lib.NewRng("c17/tssgen", i), bits) }); p != nil || err != nil {
			lib.Violation("C17:generate-key-fails:tss-rsa:GenerateKey", monTSS, lib.D("bits", bits, "err", err, "panic", fmt.Sprint(p != nil)))
			return
		}
		lib.Count("tssgen:keys")
		name := fmt.Sprintf("generated-%d:p=%x:q=%x", bits, key.Primes[0], key.Primes[1])
		half := func(p *big.Int) *big.Int { return new(big.Int).Rsh(p, 1) }
		ok := key.Validate() == nil && key.N.BitLen() == bits && len(key.Primes) == 2
		if ok {
			for _, p := range key.Primes {
				ok = ok && p.ProbablyPrime(32) && half(p).ProbablyPrime(32)
			}
		}
		if !ok {
			lib.Violation("C17:generated-key-malformed:tss-rsa:GenerateKey", monTSS, lib.D("bits", bits, "key", name, "validate", key.Validate()))
			return
		}
		lib.Count("tssgen:safe-primes")
		for j, lk := range [][2]int{{3, 2}, {4, 3}, {5, 2}, {6, 6}} {
			pad := padSpec{"pkcs1v15", crypto.SHA256, nil}
			if (i+j)%2 == 1 {
				pad = padSpec{"pss", crypto.SHA256, nil}
			}
			tssOne(tssCase{key: rsaKey{name, key}, l: lk[0], k: lk[1], pad: pad, exhaustive: true, idx: i*8 + j}, F)
		}
	})
	F.emit()
}
