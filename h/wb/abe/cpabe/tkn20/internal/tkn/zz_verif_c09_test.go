//go:build verif

package tkn

// C09 (white box): tkn20's matrixG1 / matrixG2 decoding - every entry of an
// accepted matrix is the canonical uncompressed encoding of a point of the
// r-torsion (judged by the big-integer reference c09ref), and an accepted
// matrix re-serialises to exactly the bytes that were parsed.

import (
	"encoding/binary"
	"math/big"
	"testing"

	pairing "github.com/cloudflare/circl/ecc/bls12381"
	"github.com/cloudflare/circl/internal/zzverif/lib"
	"github.com/cloudflare/circl/internal/zzverif/ref/c09ref"
)

const vc09Mon = "TestVerifC09Matrices"

type vc09API struct {
	name  string
	g     *c09ref.BLSGroup
	valid func(k *big.Int) []byte // circl's own uncompressed k*G
	// decode a matrix and re-serialise it
	roundtrip func(in []byte) (ok bool, ser func() ([]byte, error))
}

func vc09Scalar(k *big.Int) *pairing.Scalar {
	s := new(pairing.Scalar)
	s.SetBytes(k.Bytes())
	return s
}

var vc09G1 = &vc09API{
	name: "matrixG1", g: c09ref.BLSG1,
	valid: func(k *big.Int) []byte {
		var p pairing.G1
		p.ScalarMult(vc09Scalar(k), pairing.G1Generator())
		return p.Bytes()
	},
	roundtrip: func(in []byte) (bool, func() ([]byte, error)) {
		var m matrixG1
		if err := m.unmarshalBinary(in); err != nil {
			return false, nil
		}
		return true, m.marshalBinary
	},
}

var vc09G2 = &vc09API{
	name: "matrixG2", g: c09ref.BLSG2,
	valid: func(k *big.Int) []byte {
		var p pairing.G2
		p.ScalarMult(vc09Scalar(k), pairing.G2Generator())
		return p.Bytes()
	},
	roundtrip: func(in []byte) (bool, func() ([]byte, error)) {
		var m matrixG2
		if err := m.unmarshalBinary(in); err != nil {
			return false, nil
		}
		return true, m.marshalBinary
	},
}

func vc09Rand(r *lib.Rng, n *big.Int) *big.Int {
	v := new(big.Int).SetBytes(r.Bytes((n.BitLen()+7)/8 + 8))
	return v.Mod(v, n)
}

func (a *vc09API) randEl(r *lib.Rng) c09ref.El {
	e := c09ref.El{A: vc09Rand(r, c09ref.BLSP), B: new(big.Int)}
	if a.g.Deg == 2 {
		e.B = vc09Rand(r, c09ref.BLSP)
	}
	return e
}

type vc09Case struct {
	class string
	entry []byte // the hostile entry (uncompressed length)
}

func (a *vc09API) judge(base [][]byte, pos int, c vc09Case) {
	entry := "tkn." + a.name + ".unmarshalBinary"
	n := a.g.UncompLen()
	in := make([]byte, 4, 4+n*len(base))
	binary.LittleEndian.PutUint16(in[0:], 2)
	binary.LittleEndian.PutUint16(in[2:], uint16(len(base)/2))
	for i, b := range base {
		if i == pos {
			in = append(in, c.entry...)
		} else {
			in = append(in, b...)
		}
	}
	lib.Case([]byte(entry), in)
	lib.Count("presented:" + a.name + ":" + c.class)
	var ok bool
	var out []byte
	var merr error
	var ser func() ([]byte, error)
	if p := lib.Try(entry, in, func() { ok, ser = a.roundtrip(in) }); p != nil {
		lib.Count("panic-left-to-C10:" + entry)
		return
	}
	if ok {
		if p := lib.Try(entry+"/reserialise", in, func() { out, merr = ser() }); p != nil {
			lib.Count("decoder-accepted:" + entry)
			lib.Violation("C09:accepted-value-panics-on-reserialisation:"+entry, vc09Mon, lib.D("class", c.class, "entry", c.entry, "panic", p.Value))
			return
		}
	}
	d := a.g.Decode(c.entry)
	if d.Why == "form-length-mismatch" {
		// the slot has the uncompressed length but the entry announces the compressed form
		d.Why = "compressed-entry-in-uncompressed-slot"
	}
	if d.Why != "" && d.Why != "not-on-curve" {
		lib.Count("noncanonical-presented")
	}
	if !ok {
		lib.Count("decoder-rejected:" + entry)
		if d.Why == "" && (d.P.Inf || a.g.InSubgroup(d.P)) {
			lib.Violation("C09:valid-rejected:"+entry, vc09Mon, lib.D("class", c.class, "entry", c.entry))
		} else if d.Why == "" {
			lib.Count("off-subgroup-candidates-presented")
		}
		return
	}
	lib.Count("decoder-accepted:" + entry)
	switch {
	case merr != nil:
		lib.Violation("C09:accepted-matrix-does-not-reserialise:"+entry, vc09Mon, lib.D("class", c.class, "entry", c.entry, "err", merr))
	case !lib.Eq(out, in):
		sub := d.Why
		if sub == "" {
			sub = "reserialises-differently"
		}
		lib.Violation("C09:noncanonical-accepted:"+entry+":"+sub, vc09Mon, lib.D("class", c.class, "entry", c.entry,
			"reserialised_entry", out[4+pos*n:4+(pos+1)*n]))
	case d.Why != "":
		lib.Violation("C09:accepted-but-reference-rejects:"+entry+":"+d.Why, vc09Mon, lib.D("class", c.class, "entry", c.entry))
	case !d.P.Inf && !a.g.InSubgroup(d.P):
		lib.Violation("C09:off-subgroup-accepted:"+entry, vc09Mon, lib.D("class", c.class, "entry", c.entry))
	default:
		lib.Count("accepted-entry-verified-in-subgroup:" + a.name)
	}
}

func TestVerifC09Matrices(t *testing.T) {
	for _, a := range []*vc09API{vc09G1, vc09G2} {
		entry := "tkn." + a.name + ".unmarshalBinary"
		lib.Mandatory("decoder-accepted:"+entry, "decoder-rejected:"+entry, "off-subgroup-candidates-presented",
			"noncanonical-presented", "accepted-entry-verified-in-subgroup:"+a.name, "presented:"+a.name+":cofactor-torsion-point")
		r := lib.NewRng("c09/tkn/"+a.name, 0)
		g := a.g
		f := g.C.F
		n := g.UncompLen()
		base := make([][]byte, 4) // a 2x2 matrix of valid entries
		for i := range base {
			base[i] = a.valid(vc09Rand(r, g.R))
		}
		var cs []vc09Case
		add := func(class string, e []byte) { cs = append(cs, vc09Case{class, lib.Clone(e)}) }
		for i := 0; i < lib.Scale(6, 200); i++ {
			add("valid", a.valid(vc09Rand(r, g.R)))
		}
		add("valid", a.valid(big.NewInt(0)))
		add("valid", a.valid(big.NewInt(1)))
		add("valid", a.valid(new(big.Int).Sub(g.R, big.NewInt(1))))
		for k := 0; k < lib.Scale(1, 40); k++ {
			v := a.valid(vc09Rand(r, g.R))
			for i := 0; i < 8*n; i++ {
				add("bitflip", lib.FlipBit(v, i))
			}
			// coordinates + p where they fit
			d := g.Decode(v)
			for ci := 0; ci < 2*g.Deg; ci++ {
				c := lib.Clone(v)
				val := new(big.Int).Add(c09ref.FromBE(c[48*ci:48*ci+48]), c09ref.BLSP)
				lim := 384
				if ci == 0 {
					lim = 381
				}
				if val.BitLen() <= lim {
					copy(c[48*ci:], c09ref.BE(val, 48))
					add("coordinate-plus-p", c)
				}
			}
			add("valid", g.Encode(g.C.Neg(d.P), false))
			add("compressed-form-in-slot", append(g.Encode(d.P, true), make([]byte, g.CompLen())...))
			add("compressed-form-in-slot", append(g.Encode(d.P, true), v[g.CompLen():]...))
		}
		for i := 0; i < lib.Scale(16, 600); {
			pt, ok := g.Lift(a.randEl(r), r.Bool())
			if !ok {
				continue
			}
			i++
			add("off-subgroup-random-point", g.Encode(pt, false))
			if i%4 == 0 {
				tp := g.C.Mul(g.R, pt)
				if !tp.Inf {
					add("cofactor-torsion-point", g.Encode(tp, false))
					d := g.Decode(base[0])
					add("valid-plus-torsion", g.Encode(g.C.Add(d.P, tp), false))
				}
			}
		}
		for _, fl := range []byte{0x40, 0x60, 0xC0, 0xE0, 0x20, 0x80, 0xA0} {
			z := make([]byte, n)
			z[0] = fl
			add("infinity-flags", z)
			j := lib.Clone(z)
			j[n-1] = 1
			add("infinity-junk", j)
			j = lib.Clone(z)
			j[g.CompLen()] = 0x80
			add("infinity-junk", j)
			j = lib.Clone(z)
			copy(j[1:], r.Bytes(n-1))
			add("infinity-junk", j)
		}
		for v := 0; v < 256; v++ {
			c := lib.Clone(base[1])
			c[0] = byte(v)
			add("first-byte-sweep", c)
		}
		// a point of another curve y^2 = x^3 + b'
		oc := &c09ref.WCurve{F: f, A: f.Zero(), B: f.Int(5)}
		for i := 0; i < 6; {
			x := a.randEl(r)
			y, ok := f.Sqrt(oc.RHS(x))
			if !ok {
				continue
			}
			i++
			add("other-curve-point", g.Encode(c09ref.WPt{X: x, Y: y}, false))
		}
		for i := 0; i < lib.Scale(30, 2000); i++ {
			add("random", r.Bytes(n))
		}
		lib.Par(len(cs), func(i int) { a.judge(base, i%len(base), cs[i]) })
		lib.Sample(vc09Mon, lib.D("matrix", a.name, "cases", len(cs)))
	}
}
