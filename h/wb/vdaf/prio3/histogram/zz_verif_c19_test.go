//go:build verif

// C19 — soundness of the Histogram validity circuit itself (see sum).
package histogram

import (
	"fmt"
	"testing"

	"github.com/cloudflare/circl/internal/zzverif/lib"
	"github.com/cloudflare/circl/vdaf/prio3/internal/prio3"
	drv "github.com/cloudflare/circl/vdaf/prio3/internal/zzverifc19"
)

const vc19Mon = "TestVerifC19SoundnessHistogram"

func TestVerifC19SoundnessHistogram(t *testing.T) {
	lib.Mandatory("invalid-injected:honest-prover", "invalid-rejected:honest-prover", "raw-valid-accepted:histogram",
		"invalid:honest-prover:histogram:all-zero", "invalid:honest-prover:histogram:two-hot",
		"invalid:honest-prover:histogram:all-ones", "invalid:honest-prover:histogram:sum-one-non-bit",
		"invalid:honest-prover:histogram:non-bit", "invalid:honest-prover:histogram:random-vector")
	type pr struct{ length, chunk uint }
	params := []pr{{1, 1}, {2, 1}, {2, 2}, {4, 3}, {4, 2}, {11, 3}, {100, 10}, {7, 7}, {5, 64}, {16, 4}, {9, 8}, {8, 9}, {70, 1}}
	shares := []uint8{2, 3, 5, 9}
	if lib.Thorough() {
		params = append(params, pr{3, 2}, pr{64, 8}, pr{65, 8}, pr{255, 16}, pr{256, 1}, pr{1000, 32})
		shares = append(shares, 4, 16, 255)
	}
	reps := lib.Scale(8, 16)
	type cs struct {
		p pr
		n uint8
		k int
	}
	var cases []cs
	for _, p := range params {
		for _, n := range shares {
			if n > 16 && p.length > 128 {
				continue
			}
			rp := reps
			if n > 16 {
				rp = 1 // cost grows linearly with the number of aggregators
			} else if n > 5 {
				rp = lib.Scale(1, 2)
			}
			for k := 0; k < rp; k++ {
				cases = append(cases, cs{p, n, k})
			}
		}
	}
	lib.Par(len(cases), func(i int) {
		c := cases[i]
		r := lib.NewRng(fmt.Sprintf("c19/wb/histogram/%v/%d", c.p, c.n), c.k)
		ctx := r.Bytes(r.Intn(20))
		spec := drv.SpecHistogram(c.p.length, c.p.chunk, ctx)
		p, err := prio3.New(&drv.Raw[uint64, []uint64, *flpHistogram, Vec, Fp]{Inner: newFlpHistogram(c.p.length, c.p.chunk)}, spec.AlgID, c.n, ctx)
		if err != nil {
			t.Errorf("prio3.New on the wrapper: %v", err)
			return
		}
		drv.Soundness[uint64, []uint64, Vec, Fp](vc19Mon, r, &p, spec, drv.ValidHistogram,
			[]uint64{0, uint64(c.p.length - 1), uint64(r.Intn(int(c.p.length)))}, drv.BadHistogram(r, c.p.length), nil)
	})
}
