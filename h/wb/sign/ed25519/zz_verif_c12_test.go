//go:build verif

// C12 white-box monitor of the Ed25519 scalar arithmetic (modular.go):
// red512 / reduceModOrder must return exactly x mod L, calculateS exactly
// (r + k a) mod L, isLessThan the little-endian comparison.
package ed25519

import (
	"math/big"
	"testing"

	bf "github.com/cloudflare/circl/internal/zzverif/ref/bigfield"

	"github.com/cloudflare/circl/internal/zzverif/lib"
)

const vc12Mon = "TestVerifC12Ed25519Scalar"

func vc12Viol(key string, kv ...any) { lib.Violation("C12:"+key, vc12Mon, lib.D(kv...)) }

func TestVerifC12Ed25519Scalar(t *testing.T) {
	ell := bf.B("0x1000000000000000000000000000000014def9dea2f79cd65812631a5cf5d3ed")
	if bf.FromLE(order[:]).Cmp(ell) != 0 {
		t.Fatal("ed25519: order differs from the oracle's")
	}
	delta := new(big.Int).Sub(ell, bf.Pow2(252))
	n := "ed25519"
	lib.Mandatory(n+":red512:full", n+":red512:half", n+":red512:low-part-below-q*delta", n+":red512:multiple-of-L", n+":calculateS", n+":islessthan:true", n+":islessthan:equal")
	gen512 := &bf.Gen{P: ell, Bits: 512, C: 0, Extra: []*big.Int{bf.Pow2(252), bf.Pow2(253), bf.Pow2(254), bf.Pow2(255), bf.Pow2(256), delta, new(big.Int).Lsh(ell, 4), new(big.Int).Mul(ell, ell), new(big.Int).Lsh(ell, 256)}}
	gen256 := &bf.Gen{P: ell, Bits: 256, C: 0, Extra: []*big.Int{bf.Pow2(252), bf.Pow2(253), bf.Pow2(254), bf.Pow2(255), delta, new(big.Int).Lsh(ell, 3)}}
	total := lib.Scale(20000, 2000000)
	bf.Chunks(total, 256, func(lo, hi int, c bf.Ctr) {
		for i := lo; i < hi; i++ {
			r := lib.NewRng("c12/ed25519", i)
			// ---- red512
			full := i%2 == 0
			var xv *big.Int
			class := "half"
			if full {
				class = "full"
				xv = gen512.Raw(r)
				switch r.Intn(6) {
				case 0: // m*L + small
					xv = new(big.Int).Mul(ell, gen256.Raw(r))
					xv.Add(xv, big.NewInt(int64(r.Intn(5)-2)))
				case 1: // reduced values
					xv = gen256.Draw(r)
				case 2: // q*2^252 + tiny
					xv = new(big.Int).Lsh(big.NewInt(int64(1+r.Intn(64))), 252)
					xv.Add(xv, new(big.Int).SetUint64(r.EdgeLimb(0)))
				}
				if xv.Sign() < 0 || xv.BitLen() > 512 {
					xv = gen512.Raw(r)
				}
			} else {
				xv = gen256.Raw(r)
				switch r.Intn(6) {
				case 0:
					xv = new(big.Int).Mul(ell, big.NewInt(int64(r.Intn(16))))
					xv.Add(xv, big.NewInt(int64(r.Intn(5)-2)))
				case 1: // a clamped scalar, as newKeyFromSeed passes
					xv.SetBit(xv, 255, 0).SetBit(xv, 254, 1).SetBit(xv, 0, 0).SetBit(xv, 1, 0).SetBit(xv, 2, 0)
				case 2:
					xv = new(big.Int).Lsh(big.NewInt(int64(1+r.Intn(15))), 252)
					xv.Add(xv, new(big.Int).SetUint64(r.EdgeLimb(0)))
				}
				if xv.Sign() < 0 || xv.BitLen() > 256 {
					xv = gen256.Raw(r)
				}
			}
			xb := bf.LE(xv, 64)
			if !lib.Thorough() || i%8 == 0 {
				lib.Distinct([]byte(n+"/red512"), xb, []byte(class))
			}
			c.Add("evaluations", 3)
			c.Inc(n + ":red512:" + class)
			var X [8]uint64
			copy(X[:], bf.Limbs(xv, 8))
			red512(&X, full)
			want := bf.Mod(xv, ell)
			if want.Sign() == 0 && xv.Sign() != 0 {
				c.Inc(n + ":red512:multiple-of-L")
			}
			// the final quotient estimate q = floor(r / 2^252) subtracts q*delta from r mod 2^252
			if lowq := new(big.Int).Rsh(xv, 252); !full && new(big.Int).Mod(xv, bf.Pow2(252)).Cmp(new(big.Int).Mul(lowq, delta)) < 0 {
				c.Inc(n + ":red512:low-part-below-q*delta")
			}
			got := bf.FromLimbs(X[:4])
			hi := X[4] | X[5] | X[6] | X[7]
			if got.Cmp(want) != 0 || (full && hi != 0) {
				key := "wrong-residue"
				if bf.Mod(got, ell).Cmp(want) == 0 {
					key = "non-canonical"
				}
				vc12Viol(key+":ed25519.red512:"+class, "x", xb, "got", bf.LE(got, 32), "want", bf.LE(want, 32), "high-limbs-cleared", hi == 0)
			}
			// reduceModOrder on byte slices (32 or 64 bytes)
			{
				ln := 32
				if full {
					ln = 64
				}
				k := lib.Clone(xb[:ln])
				reduceModOrder(k, full)
				// same routine underneath: only a difference to red512's own answer is a finding of the wrapper
				wantK := bf.LE(got, 32)
				if full {
					wantK = append(wantK, make([]byte, 32)...)
				}
				if !lib.Eq(k, wantK) {
					vc12Viol("wrong-value:ed25519.reduceModOrder-differs-from-red512", "x", xb[:ln], "got", k, "red512", wantK)
				}
			}
			// ---- calculateS: r, k reduced (as signAll passes them), a any clamped-size scalar
			rv, kv := gen256.Draw(r), gen256.Draw(r)
			av := gen256.Raw(r)
			av.SetBit(av, 255, 0)
			if r.Intn(4) == 0 {
				av.SetBit(av, 254, 1).SetBit(av, 0, 0).SetBit(av, 1, 0).SetBit(av, 2, 0)
			}
			if r.Intn(8) == 0 {
				kv = new(big.Int)
			}
			s := make([]byte, 32)
			calculateS(s, bf.LE(rv, 32), bf.LE(kv, 32), bf.LE(av, 32))
			ws := new(big.Int).Mul(kv, av)
			ws.Add(ws, rv).Mod(ws, ell)
			if bf.FromLE(s).Cmp(ws) != 0 {
				vc12Viol("wrong-residue:ed25519.calculateS", "r", bf.LE(rv, 32), "k", bf.LE(kv, 32), "a", bf.LE(av, 32), "got", s, "want", bf.LE(ws, 32))
			}
			c.Inc(n + ":calculateS")
			// ---- isLessThan (little endian, equal lengths)
			ln := 1 + r.Intn(40)
			a := r.EdgeBytes(ln, 0)
			b := r.EdgeBytes(ln, 0)
			switch r.Intn(4) {
			case 0:
				b = lib.Clone(a)
			case 1:
				b = lib.Clone(a)
				b[r.Intn(ln)] ^= 1 << uint(r.Intn(8))
			}
			cmp := bf.FromLE(a).Cmp(bf.FromLE(b))
			if isLessThan(a, b) != (cmp < 0) {
				vc12Viol("wrong-predicate:ed25519.isLessThan", "x", a, "y", b)
			}
			if cmp < 0 {
				c.Inc(n + ":islessthan:true")
			}
			if cmp == 0 {
				c.Inc(n + ":islessthan:equal")
			}
			if i < 2 {
				lib.Sample(vc12Mon, lib.D("x", xb, "full", full))
			}
		}
	})
}
