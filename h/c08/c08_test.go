//go:build verif

// C08 - an HPKE context never reuses a nonce and stays in lock-step through
// any history.
//
// Shape: history + executable model.  A real sealer and a real opener are
// manufactured at a chosen sequence number by unmarshalling a crafted context;
// they are stepped together with two instances of the reference context of
// ref/hpke (RFC 9180 section 5.2 with an arbitrary-precision sequence number)
// through a random history of operations, and every result is compared.
// Independently of the model every event is appended to a log (with the nonce
// of each successful seal *inferred* by trial decryption) and an offline
// checker that knows nothing about the model asserts the per-context
// invariants over the finished log.
package c08

import (
	"crypto/cipher"
	"errors"
	"fmt"
	"math/big"
	"sort"
	"sync"
	"testing"

	"github.com/cloudflare/circl/hpke"
	"github.com/cloudflare/circl/internal/zzverif/lib"
	ref "github.com/cloudflare/circl/internal/zzverif/ref/hpke"
)

func TestMain(m *testing.M) { lib.Main(m) }

const mon = "TestVerifHistories"

var aeadIDs = []uint16{ref.AEADAES128GCM, ref.AEADAES256GCM, ref.AEADChaCha20Poly1305}
var aeadNames = map[uint16]string{ref.AEADAES128GCM: "AES128GCM", ref.AEADAES256GCM: "AES256GCM", ref.AEADChaCha20Poly1305: "ChaCha20Poly1305"}
var kemIDs = []uint16{0x10, 0x11, 0x12, 0x20, 0x21, 0x30, 0x647a}

var one = big.NewInt(1)

func pow2(k int) *big.Int { return new(big.Int).Lsh(one, uint(k)) }

type start struct {
	name string
	seq  *big.Int
}

// starts: 0, 1, both sides of every byte boundary of the 96-bit counter, and
// the last three values.
func starts() []start {
	out := []start{{"0", big.NewInt(0)}, {"1", big.NewInt(1)}}
	for k := 1; k <= 11; k++ {
		for d := int64(2); d >= 1; d-- {
			out = append(out, start{fmt.Sprintf("2^%d-%d", 8*k, d), new(big.Int).Sub(pow2(8*k), big.NewInt(d))})
		}
	}
	for d := int64(3); d >= 1; d-- {
		out = append(out, start{fmt.Sprintf("2^96-%d", d), new(big.Int).Sub(pow2(96), big.NewInt(d))})
	}
	return out
}

// ---------------------------------------------------------------- event log + offline checker

const (
	evStart = iota
	evSeal
	evOpen
)

type event struct {
	ctx      int
	kind     int
	ok       bool     // the operation returned data and no error
	overflow bool     // the error was hpke.ErrAEADSeqOverflows
	dataLen  int      // length of what was returned (0 for nil)
	seq      *big.Int // evStart: declared start; evSeal: sequence number inferred by trial decryption (nil: none fitted)
	ctIdx    int      // evOpen: index of the ciphertext in the sealer's output order (-1: not a sealer output)
}

type eventLog struct {
	mu sync.Mutex
	ev []event
}

func (l *eventLog) add(evs []event) {
	l.mu.Lock()
	l.ev = append(l.ev, evs...)
	l.mu.Unlock()
}

// offlineCheck asserts, per context id and from the log alone:
//   - every successful seal's nonce was identified, the inferred sequence
//     numbers are pairwise distinct, start at the declared start and are
//     consecutive, and never equal the maximal value;
//   - successful opens happen in the sealer's output order only;
//   - an operation refused for sequence overflow released no data.
func offlineCheck(evs []event, describe func(ctx int) map[string]any) {
	byCtx := map[int][]event{}
	for _, e := range evs {
		byCtx[e.ctx] = append(byCtx[e.ctx], e)
	}
	ids := make([]int, 0, len(byCtx))
	for id := range byCtx {
		ids = append(ids, id)
	}
	sort.Ints(ids)
	max := ref.MaxSeq(ref.AEADAES128GCM)
	for _, id := range ids {
		var startSeq *big.Int
		seen := map[string]int{}
		nSeals, nOpens := 0, 0
		viol := func(key string, kv ...any) {
			d := lib.D(kv...)
			for k, v := range describe(id) {
				d[k] = v
			}
			lib.Violation(key, mon+"/offline", d)
		}
		for i, e := range byCtx[id] {
			switch e.kind {
			case evStart:
				startSeq = e.seq
			case evSeal:
				if e.overflow && (e.ok || e.dataLen != 0) {
					viol("C08:offline:overflow-released-data", "op", "seal", "event", i, "len", e.dataLen)
				}
				if !e.ok {
					continue
				}
				if e.seq == nil {
					viol("C08:offline:nonce-unidentified", "event", i, "seal_number", nSeals)
					nSeals++
					continue
				}
				if prev, dup := seen[e.seq.String()]; dup {
					viol("C08:offline:nonce-reuse", "seq", e.seq.Text(16), "first_seal", prev, "second_seal", nSeals)
				}
				seen[e.seq.String()] = nSeals
				want := new(big.Int).Add(startSeq, big.NewInt(int64(nSeals)))
				if e.seq.Cmp(want) != 0 {
					viol("C08:offline:nonce-not-consecutive", "seal_number", nSeals, "inferred", e.seq.Text(16), "want", want.Text(16))
				}
				if e.seq.Cmp(max) == 0 {
					viol("C08:offline:max-seq-used", "seal_number", nSeals)
				}
				nSeals++
				lib.Count("offline:seals-checked")
			case evOpen:
				if e.overflow && (e.ok || e.dataLen != 0) {
					viol("C08:offline:overflow-released-data", "op", "open", "event", i, "len", e.dataLen)
				}
				if !e.ok {
					continue
				}
				if e.ctIdx != nOpens {
					viol("C08:offline:open-out-of-order", "opened_ct", e.ctIdx, "expected_ct", nOpens)
				}
				nOpens++
				lib.Count("offline:opens-checked")
			}
		}
	}
}

// ---------------------------------------------------------------- one history

type sealed struct {
	ct, aad, pt []byte
	orig        []byte // the slice Seal returned (ct is a private copy taken at that moment)
}

type hist struct {
	id       int
	aead     uint16
	suite    ref.Suite
	st       start
	r        *lib.Rng
	sealer   hpke.Sealer
	opener   hpke.Opener
	ms, mo   *ref.Context // models
	trial    cipher.AEAD
	cts      []sealed
	ops      []string // trace for witnesses
	events   []event
	counts   map[string]int
	violated bool
	watch    []watched // buffers contexts were restored from: the caller's, they must stay as they were
}

type watched struct {
	buf, orig []byte
	who       string
}

// afterRestore: the buffer a context was decoded from belongs to the caller.
// Half of the time it is overwritten at once (a restored context that still
// looks into it then diverges from the model), otherwise it is kept and must
// be found unchanged after every later operation.
func (h *hist) afterRestore(raw, asGiven []byte, who string) {
	// asGiven is a copy taken BEFORE the decoder saw the buffer: decoding must
	// not have written to it (the same bytes may be restored a second time)
	if !lib.Eq(raw, asGiven) {
		h.viol("C08:restored-context-writes-to-callers-buffer:"+who, "before", asGiven, "after", lib.Clone(raw), "when", "during Unmarshal")
		return
	}
	if h.r.Bool() {
		for i := range raw {
			raw[i] = 0xEE ^ byte(i)
		}
		h.count("restore:buffer-overwritten")
		return
	}
	h.watch = append(h.watch, watched{raw, asGiven, who})
	h.count("restore:buffer-watched")
}

func (h *hist) checkWatched() {
	for _, w := range h.watch {
		if !lib.Eq(w.buf, w.orig) {
			h.viol("C08:restored-context-writes-to-callers-buffer:"+w.who, "before", w.orig, "after", w.buf)
			return
		}
	}
}

func (h *hist) count(name string) { h.counts[name]++ }

func (h *hist) describe() map[string]any {
	return map[string]any{"aead": aeadNames[h.aead], "start": h.st.name, "history": h.id, "ops": fmt.Sprint(h.ops),
		"key": lib.Hex(h.ms.Key), "base_nonce": lib.Hex(h.ms.BaseNonce), "kdf": h.suite.KDF, "kem": h.suite.KEM}
}

func (h *hist) viol(key string, kv ...any) {
	h.violated = true
	d := lib.D(kv...)
	for k, v := range h.describe() {
		d[k] = v
	}
	d["sealer_model_seq"] = h.ms.Seq.Text(16)
	d["opener_model_seq"] = h.mo.Seq.Text(16)
	lib.Violation(key, mon, d)
}

func seqBytes(v *big.Int) []byte {
	b := make([]byte, 12)
	v.FillBytes(b)
	return b
}

func (h *hist) raw(role byte, m *ref.Context) []byte {
	return ref.BuildContext(&ref.ParsedContext{Role: role, KEM: h.suite.KEM, KDF: h.suite.KDF, AEAD: h.suite.AEAD,
		ExporterSecret: m.ExporterSecret, Key: m.Key, BaseNonce: m.BaseNonce, Seq: seqBytes(m.Seq)})
}

// candidates lists the sequence numbers tried when inferring the nonce of a
// fresh ciphertext: a window around the expected value, the values a dropped
// or misplaced carry would produce, and the extremes.
func candidates(expected *big.Int) []*big.Int {
	max := ref.MaxSeq(ref.AEADAES128GCM)
	var out []*big.Int
	add := func(v *big.Int) {
		if v.Sign() >= 0 && v.Cmp(max) <= 0 {
			out = append(out, v)
		}
	}
	add(new(big.Int).Set(expected))
	for d := int64(1); d <= 16; d++ {
		add(new(big.Int).Add(expected, big.NewInt(d)))
		add(new(big.Int).Sub(expected, big.NewInt(d)))
	}
	prev := new(big.Int).Sub(expected, one)
	for k := 1; k <= 11; k++ {
		m := pow2(8 * k)
		add(new(big.Int).Add(expected, m))
		add(new(big.Int).Sub(expected, m))
		if prev.Sign() >= 0 {
			// increment confined to the low k bytes (carry out of byte k dropped)
			low := new(big.Int).Mod(new(big.Int).Add(prev, one), m)
			high := new(big.Int).Sub(prev, new(big.Int).Mod(prev, m))
			add(high.Add(high, low))
		}
	}
	add(big.NewInt(0))
	add(new(big.Int).Set(max))
	return out
}

func (h *hist) inferSeq(ct, aad []byte, expected *big.Int) *big.Int {
	if _, err := h.trial.Open(nil, ref.NonceFor(h.ms.BaseNonce, expected), ct, aad); err == nil {
		return new(big.Int).Set(expected)
	}
	for _, c := range candidates(expected) {
		if _, err := h.trial.Open(nil, ref.NonceFor(h.ms.BaseNonce, c), ct, aad); err == nil {
			return c
		}
	}
	return nil
}

// checkState reads both real objects' serializations and compares every field
// with the models (this is how "a failed open leaves the sequence number
// unchanged" is observed directly).
func (h *hist) checkState(after string) {
	for role, pair := range []struct {
		ctx hpke.Context
		m   *ref.Context
	}{{h.sealer, h.ms}, {h.opener, h.mo}} {
		raw, err := pair.ctx.MarshalBinary()
		if err != nil {
			h.viol("C08:marshal-error", "after", after, "err", err)
			return
		}
		want := h.raw(byte(role), pair.m)
		if !lib.Eq(raw, want) {
			p, perr := ref.ParseContext(raw)
			field := "encoding"
			if perr == nil {
				switch {
				case !lib.Eq(p.Seq, seqBytes(pair.m.Seq)):
					field = "sequence_number"
				case !lib.Eq(p.Key, pair.m.Key):
					field = "key"
				case !lib.Eq(p.BaseNonce, pair.m.BaseNonce):
					field = "base_nonce"
				case !lib.Eq(p.ExporterSecret, pair.m.ExporterSecret):
					field = "exporter_secret"
				case p.Role != byte(role):
					field = "role"
				default:
					field = "suite"
				}
			}
			h.viol("C08:state-mismatch:"+field, "after", after, "role", role, "got", raw, "want", want)
			return
		}
	}
}

func (h *hist) payload() (pt, aad []byte) {
	pl := lib.Pick(h.r, 0, 0, 1, 15, 16, 17, 31, 64, 300)
	al := lib.Pick(h.r, 0, 0, 1, 7, 16, 33)
	pt, aad = h.r.Bytes(pl), h.r.Bytes(al)
	if pl == 0 && h.r.Bool() {
		pt = nil
	}
	if al == 0 && h.r.Bool() {
		aad = nil
	}
	return
}

// noteCarry counts the byte boundaries a successful increment crossed.
func (h *hist) noteCarry(before *big.Int, who string) {
	if w := before.Bits(); len(w) == 0 || byte(w[0]) != 0xFF {
		return // low byte not 0xFF: the increment carries nowhere
	}
	for k := 1; k <= 11; k++ {
		m := pow2(8 * k)
		if new(big.Int).Mod(new(big.Int).Add(before, one), m).Sign() == 0 {
			h.count(fmt.Sprintf("carry-2^%d:%s", 8*k, who))
			h.count(fmt.Sprintf("carry-2^%d", 8*k))
		}
	}
}

func (h *hist) opSeal(on hpke.Sealer, logIt bool) (ct []byte, ok bool) {
	pt, aad := h.payload()
	var err error
	// plaintext and associated data are handed over as adjacent sub-slices of
	// one buffer (the plaintext's capacity reaches over the associated data and
	// a canary): sealing must leave that buffer alone
	fr := newFrame(pt, aad)
	if pn := lib.Try("hpke.Sealer.Seal", pt, func() { ct, err = on.Seal(fr.part(0), fr.part(1)) }); pn != nil {
		h.viol("C08:panic:seal", "panic", pn.Value, "frame", pn.TopFrame())
		return nil, false
	}
	if !fr.intact() {
		h.viol("C08:argument-memory-written:seal", "before", fr.orig, "after", fr.buf)
		return nil, false
	}
	h.count("seal-adjacent-arguments")
	if !logIt {
		return ct, err == nil
	}
	before := new(big.Int).Set(h.ms.Seq)
	want, werr := h.ms.Seal(aad, pt)
	ev := event{ctx: h.id, kind: evSeal, ok: err == nil && ct != nil, overflow: errors.Is(err, hpke.ErrAEADSeqOverflows), dataLen: len(ct)}
	if ev.ok {
		ev.seq = h.inferSeq(ct, aad, before)
	}
	h.events = append(h.events, ev)
	switch {
	case werr != nil: // the model is at the maximal sequence number
		h.count("overflow:seal")
		if err == nil {
			h.viol("C08:overflow-not-refused:seal", "returned", ct)
		} else if ct != nil {
			h.viol("C08:overflow-released-data:seal", "returned", ct, "err", err)
		}
		if err != nil && !errors.Is(err, hpke.ErrAEADSeqOverflows) {
			h.viol("C08:overflow-wrong-error:seal", "err", err)
		}
		return nil, false
	case err != nil:
		h.viol("C08:seal-unexpected-error", "err", err, "pt", pt, "aad", aad)
		return nil, false
	case !lib.Eq(ct, want):
		inferred := "none"
		if ev.seq != nil {
			inferred = ev.seq.Text(16)
		}
		h.viol("C08:seal-mismatch:"+aeadNames[h.aead], "pt", pt, "aad", aad, "got", ct, "want", want, "expected_seq", before.Text(16), "nonce_inferred_from_ct", inferred)
		return nil, false
	}
	h.count("seal-ok")
	h.noteCarry(before, "sealer")
	h.cts = append(h.cts, sealed{lib.Clone(ct), aad, pt, ct})
	return ct, true
}

// realOpen runs Open on the real opener and logs it.
func (h *hist) realOpen(ct, aad []byte, ctIdx int) (pt []byte, err error, ok bool) {
	fr := newFrame(ct, aad)
	if pn := lib.Try("hpke.Opener.Open", ct, func() { pt, err = h.opener.Open(fr.part(0), fr.part(1)) }); pn != nil {
		h.viol("C08:panic:open", "panic", pn.Value, "frame", pn.TopFrame(), "ct", ct)
		return nil, nil, false
	}
	if !fr.intact() {
		h.viol("C08:argument-memory-written:open", "before", fr.orig, "after", fr.buf, "opened", err == nil)
		return nil, nil, false
	}
	if pt != nil {
		// the returned plaintext is the caller's: it must not live in the frame
		keep := lib.Clone(pt)
		for i := range fr.buf {
			fr.buf[i] ^= 0xFF
		}
		if !lib.Eq(pt, keep) {
			h.viol("C08:result-aliases-argument:open")
			return nil, nil, false
		}
	}
	h.events = append(h.events, event{ctx: h.id, kind: evOpen, ok: err == nil, overflow: errors.Is(err, hpke.ErrAEADSeqOverflows), dataLen: len(pt), ctIdx: ctIdx})
	return pt, err, true
}

func (h *hist) nextIdx() int {
	return int(new(big.Int).Sub(h.mo.Seq, h.st.seq).Int64())
}

func (h *hist) opOpenNext() {
	k := h.nextIdx()
	if k >= len(h.cts) {
		if _, ok := h.opSeal(h.sealer, true); !ok {
			return
		}
	}
	c := h.cts[k]
	before := new(big.Int).Set(h.mo.Seq)
	pt, err, ok := h.realOpen(c.ct, c.aad, k)
	if !ok {
		return
	}
	want, werr := h.mo.Open(c.aad, c.ct)
	if werr != nil {
		panic("model cannot open the sealer model's ciphertext: " + werr.Error())
	}
	if err != nil {
		h.viol("C08:open-next-failed", "ct_index", k, "err", err)
		return
	}
	if !lib.Eq(pt, want) || !lib.Eq(pt, c.pt) {
		h.viol("C08:open-wrong-plaintext", "ct_index", k, "got", pt, "want", c.pt)
		return
	}
	h.count("open-ok")
	h.noteCarry(before, "opener")
}

// mustFail opens something that is not the next ciphertext.
func (h *hist) mustFail(class string, ct, aad []byte, ctIdx int) {
	pt, err, ok := h.realOpen(ct, aad, ctIdx)
	if !ok {
		return
	}
	if _, werr := h.mo.Open(aad, ct); werr == nil {
		panic("model opened " + class)
	}
	h.count("failed-open")
	h.count("failed-open:" + class)
	if err == nil || pt != nil {
		h.viol("C08:open-accepted:"+class, "ct", ct, "aad", aad, "pt", pt, "err", err)
	}
}

func (h *hist) opOpenOutOfOrder() {
	k := h.nextIdx()
	var idx []int
	for i := range h.cts {
		if i != k {
			idx = append(idx, i)
		}
	}
	if len(idx) == 0 {
		h.opCraftedOther()
		return
	}
	i := idx[h.r.Intn(len(idx))]
	class := "later"
	if i < k {
		class = "earlier"
	}
	h.mustFail(class, h.cts[i].ct, h.cts[i].aad, i)
}

// opCraftedOther opens a ciphertext made with the reference AEAD under the
// nonce of another sequence number (neighbours, the values a wrong carry
// would confuse with the current one, the extremes).
func (h *hist) opCraftedOther() {
	cur := h.mo.Seq
	max := ref.MaxSeq(h.aead)
	var cands []*big.Int
	for _, d := range []int64{1, 2, 255, 256, 257, 65536} {
		cands = append(cands, new(big.Int).Add(cur, big.NewInt(d)), new(big.Int).Sub(cur, big.NewInt(d)))
	}
	for k := 1; k <= 11; k++ {
		cands = append(cands, new(big.Int).Add(cur, pow2(8*k)), new(big.Int).Sub(cur, pow2(8*k)), new(big.Int).Xor(cur, pow2(8*k-1)))
	}
	cands = append(cands, big.NewInt(0), max)
	c := cands[h.r.Intn(len(cands))]
	if c.Sign() < 0 || c.Cmp(max) > 0 || c.Cmp(cur) == 0 {
		return
	}
	pt, aad := h.payload()
	ct := h.trial.Seal(nil, ref.NonceFor(h.mo.BaseNonce, c), pt, aad)
	h.mustFail("crafted-other-seq", ct, aad, -1)
}

func (h *hist) opGarbage() {
	k := h.nextIdx()
	switch h.r.Intn(6) {
	case 0:
		h.mustFail("random", h.r.Bytes(lib.Pick(h.r, 0, 1, 15, 16, 17, 40)), nil, -1)
	case 1:
		h.mustFail("empty", nil, nil, -1)
	default:
		if k >= len(h.cts) {
			if _, ok := h.opSeal(h.sealer, true); !ok {
				return
			}
		}
		c := h.cts[k]
		switch h.r.Intn(4) {
		case 0:
			h.mustFail("next-bitflip", lib.FlipBit(c.ct, h.r.Intn(8*len(c.ct))), c.aad, -1)
		case 1:
			h.mustFail("next-truncated", c.ct[:h.r.Intn(len(c.ct))], c.aad, -1)
		case 2:
			h.mustFail("next-wrong-aad", c.ct, append(lib.Clone(c.aad), 1), -1)
		default:
			h.mustFail("next-extended", append(lib.Clone(c.ct), 0), c.aad, -1)
		}
	}
}

// opOpenAtLimit: when the opener sits at the maximal sequence number, a
// ciphertext that is VALID under that nonce (made with the reference AEAD)
// must be refused with an error and no plaintext.
func (h *hist) opOpenAtLimit() {
	if !h.mo.AtLimit() {
		return
	}
	pt, aad := h.payload()
	ct := h.trial.Seal(nil, ref.NonceFor(h.mo.BaseNonce, h.mo.Seq), pt, aad)
	got, err, ok := h.realOpen(ct, aad, -1)
	if !ok {
		return
	}
	if _, werr := h.mo.Open(aad, ct); !errors.Is(werr, ref.ErrMessageLimit) {
		panic("model: expected MessageLimitReachedError")
	}
	h.count("overflow:open")
	if err == nil {
		h.viol("C08:overflow-not-refused:open", "returned", got)
	} else if got != nil {
		h.viol("C08:overflow-released-data:open", "returned", got, "err", err)
	}
}

func (h *hist) opExport() {
	ectx := h.r.Bytes(lib.Pick(h.r, 0, 1, 32, 100))
	nh := ref.Nh(h.suite.KDF)
	l := lib.Pick(h.r, 0, 1, nh, nh+1, 5*nh)
	side := h.r.Intn(2)
	var ctx hpke.Context = h.sealer
	m := h.ms
	if side == 1 {
		ctx, m = h.opener, h.mo
	}
	var got []byte
	if pn := lib.Try("hpke.Context.Export", ectx, func() { got = ctx.Export(ectx, uint(l)) }); pn != nil {
		h.viol("C08:panic:export", "panic", pn.Value)
		return
	}
	want, _ := m.Export(ectx, l)
	h.count("export")
	if !lib.Eq(got, want) {
		h.viol("C08:export-mismatch", "side", side, "L", l, "ctx", ectx, "got", got, "want", want)
	}
}

func (h *hist) opRestoreSealer() {
	raw, err := h.sealer.MarshalBinary()
	if err != nil {
		h.viol("C08:marshal-error", "err", err)
		return
	}
	var s2 hpke.Sealer
	asGiven := lib.Clone(raw)
	if pn := lib.Try("hpke.UnmarshalSealer", raw, func() { s2, err = hpke.UnmarshalSealer(raw) }); pn != nil || err != nil || s2 == nil {
		h.viol("C08:restore-refused:sealer", "raw", raw, "err", err, "panic", fmt.Sprint(pn != nil))
		return
	}
	h.count("restore")
	h.count("restore:sealer")
	h.afterRestore(raw, asGiven, "sealer")
	if h.r.Bool() {
		// twin step: the original and the restored object, same input, must
		// give the same output (the model steps once, the restored object is
		// the logged one)
		rs := *h.r
		old := h.sealer
		h.sealer = s2
		ct2, ok2 := h.opSeal(s2, true)
		*h.r = rs
		ct1, ok1 := h.opSeal(old, false)
		_ = h.r.U64()
		if ok1 != ok2 || !lib.Eq(ct1, ct2) {
			h.viol("C08:restore-diverged:sealer", "original", ct1, "restored", ct2)
		}
		h.count("restore:twin-step")
		return
	}
	h.sealer = s2
}

func (h *hist) opRestoreOpener() {
	raw, err := h.opener.MarshalBinary()
	if err != nil {
		h.viol("C08:marshal-error", "err", err)
		return
	}
	var o2 hpke.Opener
	asGiven := lib.Clone(raw)
	if pn := lib.Try("hpke.UnmarshalOpener", raw, func() { o2, err = hpke.UnmarshalOpener(raw) }); pn != nil || err != nil || o2 == nil {
		h.viol("C08:restore-refused:opener", "raw", raw, "err", err, "panic", fmt.Sprint(pn != nil))
		return
	}
	h.count("restore")
	h.count("restore:opener")
	h.afterRestore(raw, asGiven, "opener")
	h.opener = o2
}

func (h *hist) opCrossRole() {
	rawS, _ := h.sealer.MarshalBinary()
	rawO, _ := h.opener.MarshalBinary()
	var o hpke.Opener
	var s hpke.Sealer
	var e1, e2 error
	if pn := lib.Try("hpke.UnmarshalOpener:sealer-bytes", rawS, func() { o, e1 = hpke.UnmarshalOpener(rawS) }); pn != nil {
		h.viol("C08:panic:unmarshal", "panic", pn.Value)
		return
	}
	if pn := lib.Try("hpke.UnmarshalSealer:opener-bytes", rawO, func() { s, e2 = hpke.UnmarshalSealer(rawO) }); pn != nil {
		h.viol("C08:panic:unmarshal", "panic", pn.Value)
		return
	}
	h.count("cross-role-refused")
	if e1 == nil || o != nil {
		h.viol("C08:cross-role-accepted", "what", "UnmarshalOpener(sealer bytes)")
	}
	if e2 == nil || s != nil {
		h.viol("C08:cross-role-accepted", "what", "UnmarshalSealer(opener bytes)")
	}
}

func runHistory(id int, aead uint16, st start, idx int, log *eventLog) {
	r := lib.NewRng("c08/hist/"+aeadNames[aead]+"/"+st.name, idx)
	suite := ref.Suite{KEM: kemIDs[r.Intn(len(kemIDs))], KDF: uint16(1 + r.Intn(3)), AEAD: aead}
	nk, nn, _ := ref.AEADSizes(aead)
	key := r.Bytes(nk)
	var bn []byte
	switch r.Intn(5) {
	case 0:
		bn = make([]byte, nn)
	case 1:
		bn = make([]byte, nn)
		for i := range bn {
			bn[i] = 0xFF
		}
	default:
		bn = r.Bytes(nn)
	}
	exp := r.Bytes(ref.Nh(suite.KDF))
	h := &hist{id: id, aead: aead, suite: suite, st: st, r: r, counts: map[string]int{},
		ms: ref.NewContext(suite, key, bn, exp, st.seq), mo: ref.NewContext(suite, key, bn, exp, st.seq),
		trial: ref.NewAEAD(aead, key)}
	defer func() {
		log.add(h.events)
		for k, v := range h.counts {
			lib.CountN(k, v)
		}
	}()
	h.events = append(h.events, event{ctx: id, kind: evStart, seq: new(big.Int).Set(st.seq)})
	var err error
	rawS, rawO := h.raw(0, h.ms), h.raw(1, h.mo)
	givenS, givenO := lib.Clone(rawS), lib.Clone(rawO)
	if pn := lib.Try("hpke.UnmarshalSealer:crafted", rawS, func() { h.sealer, err = hpke.UnmarshalSealer(rawS) }); pn != nil || err != nil {
		lib.Violation("C08:crafted-context-refused", mon, lib.D("raw", rawS, "err", err))
		return
	}
	if pn := lib.Try("hpke.UnmarshalOpener:crafted", rawO, func() { h.opener, err = hpke.UnmarshalOpener(rawO) }); pn != nil || err != nil {
		lib.Violation("C08:crafted-context-refused", mon, lib.D("raw", rawO, "err", err))
		return
	}
	h.afterRestore(rawS, givenS, "sealer")
	h.afterRestore(rawO, givenO, "opener")
	depth := 12 + r.Intn(29)
	opsSeen := map[string]bool{}
	h.count("histories")
	for step := 0; step < depth && !h.violated; step++ {
		var op string
		switch w := r.Intn(100); {
		case w < 28:
			op = "seal"
			h.opSeal(h.sealer, true)
		case w < 52:
			op = "open-next"
			if h.mo.AtLimit() {
				op = "open-at-limit"
				h.opOpenAtLimit()
			} else if h.ms.AtLimit() && h.nextIdx() >= len(h.cts) {
				op = "open-crafted"
				h.opCraftedOther()
			} else {
				h.opOpenNext()
			}
		case w < 62:
			op = "open-out-of-order"
			h.opOpenOutOfOrder()
		case w < 68:
			op = "open-crafted"
			h.opCraftedOther()
		case w < 76:
			op = "open-garbage"
			if h.ms.AtLimit() && h.nextIdx() >= len(h.cts) {
				h.mustFail("random", h.r.Bytes(20), nil, -1)
			} else {
				h.opGarbage()
			}
		case w < 81:
			op = "export"
			h.opExport()
		case w < 88:
			op = "restore-sealer"
			h.opRestoreSealer()
		case w < 95:
			op = "restore-opener"
			h.opRestoreOpener()
		default:
			op = "cross-role"
			h.opCrossRole()
		}
		h.ops = append(h.ops, op)
		h.count("ops")
		h.count("evaluations")
		if !opsSeen[op] {
			opsSeen[op] = true
			lib.DistinctS("c08", st.name, aeadNames[aead], op)
		}
		if !h.violated {
			h.checkState(op)
		}
		if !h.violated {
			h.checkWatched()
		}
	}
	// ciphertexts handed out earlier must not have been touched by later operations
	for i, c := range h.cts {
		if !h.violated && !lib.Eq(c.ct, c.orig) {
			h.viol("C08:ciphertext-changed-later", "ct_index", i, "at_seal_time", c.ct, "now", c.orig)
		}
	}
	if idx < 1 && aead == ref.AEADAES128GCM {
		lib.Sample(mon, map[string]any{"start": st.name, "ops": h.ops, "seals": len(h.cts), "final_sealer_seq": h.ms.Seq.Text(16), "final_opener_seq": h.mo.Seq.Text(16)})
	}
}

func TestVerifHistories(t *testing.T) {
	lib.Mandatory("histories", "ops", "seal-ok", "open-ok", "failed-open", "failed-open:earlier", "failed-open:later",
		"failed-open:crafted-other-seq", "failed-open:next-bitflip",
		"carry-2^8", "carry-2^16", "carry-2^32", "carry-2^64", "carry-2^8:opener", "carry-2^16:opener", "carry-2^32:opener", "carry-2^64:opener",
		"overflow:seal", "overflow:open", "restore:buffer-overwritten", "restore:buffer-watched", "restore", "restore:sealer", "restore:opener", "restore:twin-step", "cross-role-refused",
		"export", "offline:seals-checked", "offline:opens-checked")
	sts := starts()
	per := lib.Scale(150, 7500)
	type job struct {
		aead uint16
		st   start
		idx  int
	}
	var jobs []job
	for idx := 0; idx < per; idx++ {
		for _, a := range aeadIDs {
			for _, s := range sts {
				jobs = append(jobs, job{a, s, idx})
			}
		}
	}
	// the log is checked offline chunk by chunk (bounded memory); the checker
	// sees nothing but the events
	const chunk = 8192
	for base := 0; base < len(jobs); base += chunk {
		end := base + chunk
		if end > len(jobs) {
			end = len(jobs)
		}
		log := &eventLog{}
		lib.Par(end-base, func(i int) {
			j := jobs[base+i]
			lib.DistinctS("c08/history", aeadNames[j.aead], j.st.name, fmt.Sprint(j.idx))
			runHistory(base+i, j.aead, j.st, j.idx, log)
		})
		offlineCheck(log.ev, func(ctx int) map[string]any {
			j := jobs[ctx]
			return map[string]any{"aead": aeadNames[j.aead], "start": j.st.name, "history_index": j.idx,
				"replay": "stream c08/hist/" + aeadNames[j.aead] + "/" + j.st.name}
		})
	}
}

// frame lays byte strings out back to back in one exactly-sized buffer
// followed by a canary; part(i) is the i-th string with its capacity reaching
// to the end of the buffer.
type frame struct {
	buf, orig []byte
	offs      [][2]int
}

func newFrame(parts ...[]byte) *frame {
	f := &frame{}
	n := 16
	for _, p := range parts {
		n += len(p)
	}
	f.buf = make([]byte, 0, n)
	for _, p := range parts {
		f.offs = append(f.offs, [2]int{len(f.buf), len(f.buf) + len(p)})
		f.buf = append(f.buf, p...)
	}
	for i := 0; i < 16; i++ {
		f.buf = append(f.buf, 0xA5^byte(i))
	}
	f.orig = lib.Clone(f.buf)
	return f
}

func (f *frame) part(i int) []byte { return f.buf[f.offs[i][0]:f.offs[i][1]] }
func (f *frame) intact() bool      { return lib.Eq(f.buf, f.orig) }
