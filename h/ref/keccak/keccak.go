//go:build verif

// Package keccak is an independent reference model of Keccak-p[1600, nr]
// (FIPS 202 section 3, written step by step on a 5x5 array of lanes with the
// rotation offsets and round constants *computed* from their definitions
// rather than tabulated), the sponge construction with byte-aligned domain
// separation, and on top of it SHA3-224/256/384/512, SHAKE128/256,
// TurboSHAKE128/256 and KangarooTwelve (draft-irtf-cfrg-kangarootwelve-10 /
// RFC 9861, 128-bit variant).  It shares no code with circl.
package keccak

import "math/bits"

// rcBit is rc(t) of FIPS 202 algorithm 5 (an 8-bit LFSR).
func rcBit(t int) uint64 {
	t %= 255
	if t < 0 {
		t += 255
	}
	if t == 0 {
		return 1
	}
	// R[0..7], R[0] first
	R := [9]uint8{1, 0, 0, 0, 0, 0, 0, 0, 0}
	for i := 1; i <= t; i++ {
		// R = 0 || R
		for j := 8; j > 0; j-- {
			R[j] = R[j-1]
		}
		R[0] = 0
		R[0] ^= R[8]
		R[4] ^= R[8]
		R[5] ^= R[8]
		R[6] ^= R[8]
		// Trunc8
		R[8] = 0
	}
	return uint64(R[0])
}

var (
	roundConst [24]uint64
	rhoOff     [5][5]uint
)

func init() {
	for ir := 0; ir < 24; ir++ {
		var rc uint64
		for j := 0; j <= 6; j++ {
			rc |= rcBit(j+7*ir) << ((1 << uint(j)) - 1)
		}
		roundConst[ir] = rc
	}
	x, y := 1, 0
	for t := 0; t < 24; t++ {
		rhoOff[x][y] = uint(((t + 1) * (t + 2) / 2) % 64)
		x, y = y, (2*x+3*y)%5
	}
}

// KeccakP applies Keccak-p[1600, nr] to the state given as 25 lanes, lane
// (x, y) at index x+5y.  nr = 24 is Keccak-f[1600]; nr = 12 the TurboSHAKE /
// KangarooTwelve permutation (the LAST nr rounds of Keccak-f).
func KeccakP(a *[25]uint64, nr int) {
	var A [5][5]uint64
	for y := 0; y < 5; y++ {
		for x := 0; x < 5; x++ {
			A[x][y] = a[x+5*y]
		}
	}
	for ir := 24 - nr; ir < 24; ir++ {
		// theta
		var C, D [5]uint64
		for x := 0; x < 5; x++ {
			C[x] = A[x][0] ^ A[x][1] ^ A[x][2] ^ A[x][3] ^ A[x][4]
		}
		for x := 0; x < 5; x++ {
			D[x] = C[(x+4)%5] ^ bits.RotateLeft64(C[(x+1)%5], 1)
		}
		for x := 0; x < 5; x++ {
			for y := 0; y < 5; y++ {
				A[x][y] ^= D[x]
			}
		}
		// rho
		for x := 0; x < 5; x++ {
			for y := 0; y < 5; y++ {
				A[x][y] = bits.RotateLeft64(A[x][y], int(rhoOff[x][y]))
			}
		}
		// pi: A'[x][y] = A[(x+3y) mod 5][x]
		var B [5][5]uint64
		for x := 0; x < 5; x++ {
			for y := 0; y < 5; y++ {
				B[x][y] = A[(x+3*y)%5][x]
			}
		}
		// chi
		for x := 0; x < 5; x++ {
			for y := 0; y < 5; y++ {
				A[x][y] = B[x][y] ^ (^B[(x+1)%5][y] & B[(x+2)%5][y])
			}
		}
		// iota
		A[0][0] ^= roundConst[ir]
	}
	for y := 0; y < 5; y++ {
		for x := 0; x < 5; x++ {
			a[x+5*y] = A[x][y]
		}
	}
}

// Sponge absorbs msg followed by the domain byte ds (which carries the suffix
// bits and the first padding bit), pads with 0* 1 to a multiple of rate
// bytes, and squeezes outLen bytes, using Keccak-p[1600, nr].
func Sponge(rate int, ds byte, nr int, msg []byte, outLen int) []byte {
	var st [200]byte
	perm := func() {
		var a [25]uint64
		for i := 0; i < 25; i++ {
			var v uint64
			for j := 7; j >= 0; j-- {
				v = v<<8 | uint64(st[8*i+j])
			}
			a[i] = v
		}
		KeccakP(&a, nr)
		for i := 0; i < 25; i++ {
			v := a[i]
			for j := 0; j < 8; j++ {
				st[8*i+j] = byte(v)
				v >>= 8
			}
		}
	}
	// full blocks
	for len(msg) >= rate {
		for i := 0; i < rate; i++ {
			st[i] ^= msg[i]
		}
		perm()
		msg = msg[rate:]
	}
	// last block: remaining message, ds, 0*, final 1 bit
	for i, b := range msg {
		st[i] ^= b
	}
	st[len(msg)] ^= ds
	st[rate-1] ^= 0x80
	perm()
	out := make([]byte, 0, outLen)
	for len(out) < outLen {
		n := outLen - len(out)
		if n > rate {
			n = rate
		}
		out = append(out, st[:n]...)
		if len(out) < outLen {
			perm()
		}
	}
	return out
}

func SHA3_224(m []byte) []byte { return Sponge(144, 0x06, 24, m, 28) }
func SHA3_256(m []byte) []byte { return Sponge(136, 0x06, 24, m, 32) }
func SHA3_384(m []byte) []byte { return Sponge(104, 0x06, 24, m, 48) }
func SHA3_512(m []byte) []byte { return Sponge(72, 0x06, 24, m, 64) }

func SHAKE128(m []byte, n int) []byte { return Sponge(168, 0x1F, 24, m, n) }
func SHAKE256(m []byte, n int) []byte { return Sponge(136, 0x1F, 24, m, n) }

// TurboSHAKE128 / 256 with domain byte d in 0x01..0x7F.
func TurboSHAKE128(m []byte, d byte, n int) []byte { return Sponge(168, d, 12, m, n) }
func TurboSHAKE256(m []byte, d byte, n int) []byte { return Sponge(136, d, 12, m, n) }

// LengthEncode is length_encode(x) of the KangarooTwelve specification:
// big-endian bytes of x without leading zeros followed by their count.
func LengthEncode(x uint64) []byte {
	var be []byte
	for x > 0 {
		be = append([]byte{byte(x)}, be...)
		x >>= 8
	}
	return append(be, byte(len(be)))
}

// K12Chunk is the chunk size B.
const K12Chunk = 8192

// K12 is KangarooTwelve(M, C, L) (KT128).
func K12(m, c []byte, n int) []byte {
	s := make([]byte, 0, len(m)+len(c)+9)
	s = append(s, m...)
	s = append(s, c...)
	s = append(s, LengthEncode(uint64(len(c)))...)
	if len(s) <= K12Chunk {
		return TurboSHAKE128(s, 0x07, n)
	}
	final := append([]byte{}, s[:K12Chunk]...)
	final = append(final, 0x03, 0, 0, 0, 0, 0, 0, 0)
	rest := s[K12Chunk:]
	leaves := uint64(0)
	for len(rest) > 0 {
		l := K12Chunk
		if len(rest) < l {
			l = len(rest)
		}
		final = append(final, TurboSHAKE128(rest[:l], 0x0B, 32)...)
		rest = rest[l:]
		leaves++
	}
	final = append(final, LengthEncode(leaves)...)
	final = append(final, 0xFF, 0xFF)
	return TurboSHAKE128(final, 0x06, n)
}
