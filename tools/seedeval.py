#!/usr/bin/env python3
"""Evaluate one seeded defect against the checks.

usage: seedeval.py <seed dir> [--checks C01,C10] [--tier quick] [--keep] [--base <rev of /repo>]

The seed directory holds patch.diff, meta.json and a demonstration.  The patch
is applied to a scratch worktree of /repo's HEAD (never to /repo itself while
other work is going on; the documented equivalent is `git -C /repo apply` +
`git -C /repo checkout -- .`), then
  1. the demonstration is run with and without the patch,
  2. the named checks are run with VERIF_REPO pointing at the patched tree.
Prints a JSON summary and writes it to <seed dir>/eval.json.
"""
import json, os, subprocess, sys, shutil, re, time

ENV = dict(os.environ, GOFLAGS="-mod=mod", GOPROXY="off", GOSUMDB="off", GOTOOLCHAIN="local")


def sh(cmd, cwd=None, env=None, timeout=3600):
    p = subprocess.run(cmd, shell=True, cwd=cwd, env=env or ENV, capture_output=True, text=True, timeout=timeout)
    return p.returncode, p.stdout + p.stderr


def main():
    args = sys.argv[1:]
    seed = os.path.abspath(args[0])
    checks = None
    tier = "quick"
    keep = False
    base = "HEAD"
    i = 1
    while i < len(args):
        if args[i] == "--checks":
            checks = args[i + 1].split(",")
            i += 2
        elif args[i] == "--tier":
            tier = args[i + 1]
            i += 2
        elif args[i] == "--base":
            base = args[i + 1]
            i += 2
        elif args[i] == "--keep":
            keep = True
            i += 1
        else:
            i += 1
    meta = json.load(open(os.path.join(seed, "meta.json")))
    if checks is None:
        checks = [meta["property"]]
    name = os.path.basename(seed)
    wt = "/var/tmp/seedeval/" + name
    sh("git -C /repo worktree remove --force " + wt)
    shutil.rmtree(wt, ignore_errors=True)
    os.makedirs("/var/tmp/seedeval", exist_ok=True)
    rc, out = sh("git -C /repo worktree add --detach %s %s" % (wt, base))
    res = {"seed": name, "property": meta["property"], "checks": {}, "base": base}
    if rc != 0:
        res["error"] = "worktree: " + out
        print(json.dumps(res, indent=1))
        return 2
    try:
        demo = meta.get("demo", {})
        dfile = os.path.join(seed, demo.get("file", "demo_test.go"))
        dst = os.path.join(wt, demo.get("copy_to", "."))
        run = demo.get("run", "")
        # agents sometimes append prose to the command
        run = re.split(r"\s{2,}\(|\n|\s+#\s", run)[0].strip()

        def rundemo():
            if not run or not os.path.exists(dfile):
                return None, "no demo"
            os.makedirs(dst, exist_ok=True)
            target = os.path.join(dst, "zz_seed_" + os.path.basename(dfile))
            if os.path.isdir(dfile):
                shutil.copytree(dfile, target)
            else:
                shutil.copy(dfile, target)
            try:
                rc, out = sh(run, cwd=wt, timeout=1800)
            finally:
                if os.path.isdir(target):
                    shutil.rmtree(target)
                else:
                    os.remove(target)
            return rc, out[-1500:]

        rc0, out0 = rundemo()
        res["demo_without_patch_rc"] = rc0
        rc, out = sh("git apply %s" % os.path.join(seed, "patch.diff"), cwd=wt)
        if rc != 0:
            res["error"] = "patch does not apply: " + out
            print(json.dumps(res, indent=1))
            return 2
        rc, out = sh("go build ./...", cwd=wt)
        res["builds"] = rc == 0
        rc1, out1 = rundemo()
        res["demo_with_patch_rc"] = rc1
        res["demo_with_patch_tail"] = out1[-600:] if out1 else None
        res["demo_valid"] = (rc0 == 0 and rc1 not in (0, None))
        for c in checks:
            t0 = time.time()
            env = dict(ENV, VERIF_REPO=wt)
            rc, out = sh("./bin/vcheck %s --tier %s" % (c, tier), cwd="/verif", env=env, timeout=7200)
            keys = sorted(set(re.findall(r"key=(\S+)", out)))
            res["checks"][c] = {"exit": rc, "caught": rc == 1, "keys": keys[:12], "n_keys": len(keys),
                                "inconclusive": re.findall(r"INCONCLUSIVE.*", out)[:3], "wall_s": round(time.time() - t0)}
    finally:
        if not keep:
            sh("git -C /repo worktree remove --force " + wt)
            shutil.rmtree(wt, ignore_errors=True)
    json.dump(res, open(os.path.join(seed, "eval.json"), "w"), indent=1)
    print(json.dumps(res, indent=1))
    return 0


if __name__ == "__main__":
    sys.exit(main())
