//go:build verif && !purego

package x448

const vc06Purego = false
