//go:build verif

// C17 — threshold schemes: every qualified share set works, no unqualified
// one does (secretsharing over 4 groups, math/polynomial, tss/rsa).
package c17

import (
	"crypto/elliptic"
	"math/big"
	"sort"
	"sync"
	"testing"

	"github.com/cloudflare/circl/group"
	"github.com/cloudflare/circl/internal/zzverif/lib"
)

func TestMain(m *testing.M) { lib.Main(m) }

// ---------------------------------------------------------------- groups

type grp struct {
	name  string
	g     group.Group
	order *big.Int
	le    bool // scalars are marshalled little-endian
}

func ristrettoOrder() *big.Int {
	l, _ := new(big.Int).SetString("27742317777372353535851937790883648493", 10)
	return l.Add(l, new(big.Int).Lsh(big.NewInt(1), 252))
}

func groups() []grp {
	return []grp{
		{"P256", group.P256, elliptic.P256().Params().N, false},
		{"P384", group.P384, elliptic.P384().Params().N, false},
		{"P521", group.P521, elliptic.P521().Params().N, false},
		{"Ristretto255", group.Ristretto255, ristrettoOrder(), true},
	}
}

func rev(b []byte) []byte {
	c := make([]byte, len(b))
	for i := range b {
		c[len(b)-1-i] = b[i]
	}
	return c
}

// toBig reads a circl scalar through its byte encoding.
func (G grp) toBig(s group.Scalar) *big.Int {
	b, err := s.MarshalBinary()
	if err != nil {
		panic(err)
	}
	if G.le {
		b = rev(b)
	}
	return new(big.Int).SetBytes(b)
}

// toScl builds a circl scalar from a reduced integer through its byte
// encoding (UnmarshalBinary), not through the arithmetic under test.
func (G grp) toScl(x *big.Int) group.Scalar {
	n := int(G.g.Params().ScalarLength)
	b := new(big.Int).Mod(x, G.order).FillBytes(make([]byte, n))
	if G.le {
		b = rev(b)
	}
	s := G.g.NewScalar()
	if err := s.UnmarshalBinary(b); err != nil {
		panic(err)
	}
	return s
}

// edgeScalar draws a value in [0, order) biased to the boundaries.
func (G grp) edgeScalar(r *lib.Rng) *big.Int {
	q := G.order
	one := big.NewInt(1)
	switch r.Intn(16) {
	case 0:
		return big.NewInt(0)
	case 1:
		return big.NewInt(1)
	case 2:
		return big.NewInt(2)
	case 3:
		return new(big.Int).Sub(q, one)
	case 4:
		return new(big.Int).Sub(q, big.NewInt(2))
	case 5:
		return new(big.Int).SetUint64(^uint64(0))
	case 6:
		return new(big.Int).Lsh(one, 64)
	case 7:
		return new(big.Int).Rsh(q, 1)
	case 8:
		return new(big.Int).Add(new(big.Int).Rsh(q, 1), one)
	case 9:
		return new(big.Int).SetUint64(uint64(r.Intn(40)))
	case 10:
		return new(big.Int).Sub(q, big.NewInt(int64(1+r.Intn(40))))
	default:
		return G.randScalar(r)
	}
}

func (G grp) randScalar(r *lib.Rng) *big.Int {
	b := r.Bytes(int(G.g.Params().ScalarLength) + 16)
	return new(big.Int).Mod(new(big.Int).SetBytes(b), G.order)
}

// distinctNonZero draws n pairwise different non-zero identifiers.
func (G grp) distinctNonZero(r *lib.Rng, n int) []*big.Int {
	seen := map[string]bool{}
	var out []*big.Int
	for len(out) < n {
		x := G.edgeScalar(r)
		if x.Sign() == 0 || seen[x.String()] {
			continue
		}
		seen[x.String()] = true
		out = append(out, x)
	}
	return out
}

// ---------------------------------------------------------------- big-int reference (field of prime order q)

func refHorner(c []*big.Int, x, q *big.Int) *big.Int {
	acc := new(big.Int)
	for i := len(c) - 1; i >= 0; i-- {
		acc.Mul(acc, x)
		acc.Add(acc, c[i])
		acc.Mod(acc, q)
	}
	return acc
}

// refPowSum evaluates sum c[i] x^i with explicit powers (a second, different
// formula used to validate refHorner).
func refPowSum(c []*big.Int, x, q *big.Int) *big.Int {
	acc := new(big.Int)
	for i := range c {
		t := new(big.Int).Exp(x, big.NewInt(int64(i)), q)
		t.Mul(t, c[i])
		acc.Add(acc, t)
	}
	return acc.Mod(acc, q)
}

// refLagrangeBase = prod_{i != j} (x - xs[i]) / (xs[j] - xs[i]) mod q.
func refLagrangeBase(j int, xs []*big.Int, x, q *big.Int) *big.Int {
	num, den := big.NewInt(1), big.NewInt(1)
	for i := range xs {
		if i == j {
			continue
		}
		num.Mul(num, new(big.Int).Sub(x, xs[i]))
		num.Mod(num, q)
		den.Mul(den, new(big.Int).Sub(xs[j], xs[i]))
		den.Mod(den, q)
	}
	// Fermat inverse: q prime
	inv := new(big.Int).Exp(den, new(big.Int).Sub(q, big.NewInt(2)), q)
	return num.Mul(num, inv).Mod(num, q)
}

func refLagrangeAt(xs, ys []*big.Int, x, q *big.Int) *big.Int {
	acc := new(big.Int)
	for j := range xs {
		t := refLagrangeBase(j, xs, x, q)
		t.Mul(t, ys[j])
		acc.Add(acc, t)
	}
	return acc.Mod(acc, q)
}

// refInterpolate returns the coefficients (ascending) of the unique
// polynomial of degree < len(xs) through the points.
func refInterpolate(xs, ys []*big.Int, q *big.Int) []*big.Int {
	n := len(xs)
	out := make([]*big.Int, n)
	for i := range out {
		out[i] = new(big.Int)
	}
	for j := 0; j < n; j++ {
		// numerator polynomial prod_{i != j} (X - xs[i])
		poly := []*big.Int{big.NewInt(1)}
		den := big.NewInt(1)
		for i := 0; i < n; i++ {
			if i == j {
				continue
			}
			next := make([]*big.Int, len(poly)+1)
			for k := range next {
				next[k] = new(big.Int)
			}
			for k, c := range poly {
				next[k+1].Add(next[k+1], c)
				t := new(big.Int).Mul(c, xs[i])
				next[k].Sub(next[k], t)
			}
			for k := range next {
				next[k].Mod(next[k], q)
			}
			poly = next
			den.Mul(den, new(big.Int).Sub(xs[j], xs[i]))
			den.Mod(den, q)
		}
		f := new(big.Int).ModInverse(den, q)
		f.Mul(f, ys[j])
		f.Mod(f, q)
		for k, c := range poly {
			out[k].Add(out[k], new(big.Int).Mul(c, f))
			out[k].Mod(out[k], q)
		}
	}
	return out
}

// ---------------------------------------------------------------- ordered subsets

// orderedSubsets lists every sequence of pairwise different indices of
// [0,n), including the empty one (all subsets in all orders).
func orderedSubsets(n int) [][]int {
	var out [][]int
	used := make([]bool, n)
	var cur []int
	var rec func()
	rec = func() {
		out = append(out, append([]int(nil), cur...))
		for i := 0; i < n; i++ {
			if used[i] {
				continue
			}
			used[i] = true
			cur = append(cur, i)
			rec()
			cur = cur[:len(cur)-1]
			used[i] = false
		}
	}
	rec()
	return out
}

// subsets lists every subset of [0,n) as an ascending index list.
func subsets(n int) [][]int {
	var out [][]int
	for m := 0; m < 1<<uint(n); m++ {
		var s []int
		for i := 0; i < n; i++ {
			if m>>uint(i)&1 == 1 {
				s = append(s, i)
			}
		}
		out = append(out, s)
	}
	return out
}

// ---------------------------------------------------------------- ordered reporting

// findings collects violations found by parallel workers and emits them in a
// deterministic order (smallest witness first) so that the three witnesses
// the recorder keeps per key are the minimal ones.
type findings struct {
	mu sync.Mutex
	fs []finding
}

type finding struct {
	rank   string
	key    string
	mon    string
	detail map[string]any
}

func (f *findings) add(rank, key, mon string, detail map[string]any) {
	f.mu.Lock()
	f.fs = append(f.fs, finding{rank, key, mon, detail})
	f.mu.Unlock()
}

func (f *findings) emit() {
	sort.SliceStable(f.fs, func(i, j int) bool {
		if f.fs[i].key != f.fs[j].key {
			return f.fs[i].key < f.fs[j].key
		}
		return f.fs[i].rank < f.fs[j].rank
	})
	for _, x := range f.fs {
		lib.Violation(x.key, x.mon, x.detail)
	}
}

// ---------------------------------------------------------------- self-check of the reference arithmetic

func TestVerifSelfCheckRef(t *testing.T) {
	for _, G := range groups() {
		if !G.order.ProbablyPrime(32) {
			t.Fatalf("%s: order not prime", G.name)
		}
		r := lib.NewRng("c17/selfcheck/"+G.name, 0)
		// the byte bridge is a bijection on [0,q)
		for i := 0; i < 200; i++ {
			x := G.edgeScalar(r)
			if G.toBig(G.toScl(x)).Cmp(x) != 0 {
				t.Fatalf("%s: scalar bridge does not round trip for %v", G.name, x)
			}
		}
		if !G.toScl(big.NewInt(0)).IsZero() || G.toScl(big.NewInt(1)).IsZero() {
			t.Fatalf("%s: zero bridge", G.name)
		}
		// Horner == explicit powers; interpolation inverts evaluation;
		// Lagrange evaluation == evaluation of the interpolated polynomial.
		for i := 0; i < 60; i++ {
			d := r.Intn(12)
			c := make([]*big.Int, d+1)
			for k := range c {
				c[k] = G.edgeScalar(r)
			}
			x := G.edgeScalar(r)
			if refHorner(c, x, G.order).Cmp(refPowSum(c, x, G.order)) != 0 {
				t.Fatalf("%s: refHorner != refPowSum", G.name)
			}
			xs := G.distinctNonZero(r, d+1)
			ys := make([]*big.Int, d+1)
			for k := range xs {
				ys[k] = refHorner(c, xs[k], G.order)
			}
			back := refInterpolate(xs, ys, G.order)
			for k := range c {
				if back[k].Cmp(c[k]) != 0 {
					t.Fatalf("%s: refInterpolate does not invert evaluation", G.name)
				}
			}
			if refLagrangeAt(xs, ys, x, G.order).Cmp(refHorner(c, x, G.order)) != 0 {
				t.Fatalf("%s: refLagrangeAt != refHorner", G.name)
			}
		}
	}
	// known answer: f = 3 + 2X + X^2 over GF(order P256) at 5 = 38; base
	// L_0(0) for nodes {1,2,3} = (0-2)(0-3)/((1-2)(1-3)) = 3
	q := groups()[0].order
	c := []*big.Int{big.NewInt(3), big.NewInt(2), big.NewInt(1)}
	if refHorner(c, big.NewInt(5), q).Int64() != 38 {
		t.Fatal("refHorner known answer")
	}
	xs := []*big.Int{big.NewInt(1), big.NewInt(2), big.NewInt(3)}
	if refLagrangeBase(0, xs, big.NewInt(0), q).Int64() != 3 {
		t.Fatal("refLagrangeBase known answer")
	}
	if len(orderedSubsets(5)) != 326 || len(orderedSubsets(6)) != 1957 || len(subsets(6)) != 64 {
		t.Fatal("subset enumeration")
	}
}
