//go:build verif

package c14

import (
	"testing"

	"github.com/cloudflare/circl/dh/csidh"
	"github.com/cloudflare/circl/dh/curve4q"
	"github.com/cloudflare/circl/dh/sidh"
	"github.com/cloudflare/circl/dh/x25519"
	"github.com/cloudflare/circl/dh/x448"
	"github.com/cloudflare/circl/internal/zzverif/lib"
)

var x25519LowOrder = [][]byte{
	lib.MustHex("0000000000000000000000000000000000000000000000000000000000000000"),
	lib.MustHex("0100000000000000000000000000000000000000000000000000000000000000"),
	lib.MustHex("e0eb7a7c3b41b8ae1656e3faf19fc46ada098deb9c32b1fd866205165f49b800"),
	lib.MustHex("5f9c95bca3508c24b1d0b1559c83ef5b04445cc4581c8e86d8224eddd09f1157"),
	lib.MustHex("ecffffffffffffffffffffffffffffffffffffffffffffffffffffffffffff7f"),
	lib.MustHex("edffffffffffffffffffffffffffffffffffffffffffffffffffffffffffff7f"),
	lib.MustHex("eeffffffffffffffffffffffffffffffffffffffffffffffffffffffffffff7f"),
}

func x448LowOrder() [][]byte {
	var out [][]byte
	for _, s := range fp448API.specials {
		out = append(out, s)
	}
	return out
}

// xKey draws a 32/56-byte string for a Montgomery-ladder input.
func xPublic(r *lib.Rng, size int, low [][]byte, c uint64) (b []byte, class string) {
	switch r.Intn(8) {
	case 0, 1:
		b = lib.Clone(low[r.Intn(len(low))])
		if r.Bool() { // RFC 7748: the top bit of a 25519 u-coordinate is ignored
			b[size-1] |= 0x80
		}
		return b, "boundary"
	case 2:
		return r.EdgeBytes(size, c), "edge"
	case 3:
		return repLimbBytes(r, size, c, 0xff), "edge"
	case 4:
		b = make([]byte, size)
		for i := range b {
			b[i] = 0xff
		}
		b[0] -= byte(r.Intn(40))
		return b, "noncanonical"
	default:
		return r.Bytes(size), "random"
	}
}

func dhKinds() []kind {
	return []kind{
		{"x25519.KeyGen", 60, 6000, func(r *lib.Rng, k int, o *rec) {
			gs, gp := lib.NewGuarded(32, k&1 == 0), lib.NewGuarded(32, k&2 == 0)
			defer gs.Free()
			defer gp.Free()
			sec, _ := xPublic(r, 32, x25519LowOrder, 19)
			o.In("secret", sec)
			copy(gs.Buf, sec)
			x25519.KeyGen((*x25519.Key)(gp.Ptr()), (*x25519.Key)(gs.Ptr()))
			o.Out("public", gp.Buf)
			o.Out("secret-after", gs.Buf)
		}},
		{"x25519.Shared", 90, 9000, func(r *lib.Rng, k int, o *rec) {
			gs, gp, gh := lib.NewGuarded(32, k&1 == 0), lib.NewGuarded(32, k&2 == 0), lib.NewGuarded(32, k&4 == 0)
			defer gs.Free()
			defer gp.Free()
			defer gh.Free()
			sec, _ := xPublic(r, 32, x25519LowOrder, 19)
			pub, class := xPublic(r, 32, x25519LowOrder, 19)
			if class == "random" && r.Bool() { // an honest public key
				var s, p x25519.Key
				r.Read(s[:])
				x25519.KeyGen(&p, &s)
				pub = p[:]
			}
			o.In("secret", sec)
			o.In("public", pub)
			copy(gs.Buf, sec)
			copy(gp.Buf, pub)
			ok := x25519.Shared((*x25519.Key)(gh.Ptr()), (*x25519.Key)(gs.Ptr()), (*x25519.Key)(gp.Ptr()))
			if !ok {
				lib.Count("c14/DH/x25519:shared-flagged")
			}
			o.OutBool("ok", ok)
			o.Out("shared", gh.Buf)
			o.Out("public-after", gp.Buf)
		}},
		{"x448.KeyGen", 40, 4000, func(r *lib.Rng, k int, o *rec) {
			gs, gp := lib.NewGuarded(56, k&1 == 0), lib.NewGuarded(56, k&2 == 0)
			defer gs.Free()
			defer gp.Free()
			sec, _ := xPublic(r, 56, x448LowOrder(), 1)
			o.In("secret", sec)
			copy(gs.Buf, sec)
			x448.KeyGen((*x448.Key)(gp.Ptr()), (*x448.Key)(gs.Ptr()))
			o.Out("public", gp.Buf)
			o.Out("secret-after", gs.Buf)
		}},
		{"x448.Shared", 60, 6000, func(r *lib.Rng, k int, o *rec) {
			gs, gp, gh := lib.NewGuarded(56, k&1 == 0), lib.NewGuarded(56, k&2 == 0), lib.NewGuarded(56, k&4 == 0)
			defer gs.Free()
			defer gp.Free()
			defer gh.Free()
			sec, _ := xPublic(r, 56, x448LowOrder(), 1)
			pub, class := xPublic(r, 56, x448LowOrder(), 1)
			if class == "random" && r.Bool() {
				var s, p x448.Key
				r.Read(s[:])
				x448.KeyGen(&p, &s)
				pub = p[:]
			}
			o.In("secret", sec)
			o.In("public", pub)
			copy(gs.Buf, sec)
			copy(gp.Buf, pub)
			ok := x448.Shared((*x448.Key)(gh.Ptr()), (*x448.Key)(gs.Ptr()), (*x448.Key)(gp.Ptr()))
			if !ok {
				lib.Count("c14/DH/x448:shared-flagged")
			}
			o.OutBool("ok", ok)
			o.Out("shared", gh.Buf)
			o.Out("public-after", gp.Buf)
		}},
		{"curve4q.KeyGen", 20, 2000, func(r *lib.Rng, k int, o *rec) {
			var s, p curve4q.Key
			copy(s[:], r.EdgeBytes(32, 1))
			if k%3 == 0 {
				r.Read(s[:])
			}
			o.In("secret", s[:])
			curve4q.KeyGen(&p, &s)
			o.Out("public", p[:])
		}},
		{"curve4q.Shared", 150, 6000, func(r *lib.Rng, k int, o *rec) {
			var s, s2, p, sh curve4q.Key
			r.Read(s[:])
			if k%4 == 0 {
				copy(s[:], r.EdgeBytes(32, 1))
			}
			switch k % 3 {
			case 0: // honest public key
				r.Read(s2[:])
				curve4q.KeyGen(&p, &s2)
				if k%6 == 0 { // damaged
					p[r.Intn(32)] ^= 1 << uint(r.Intn(8))
				}
			default:
				// an arbitrary encoding: y = y0 + y1*i with limb-edge
				// coordinates (about half of all y are x-coordinates of a point)
				switch r.Intn(4) {
				case 0:
					copy(p[:], r.EdgeBytes(32, 1))
				case 1:
					copy(p[:], repLimbBytes(r, 32, 1, 0xff))
				default:
					copy(p[:], fourqEncoding(r))
				}
				p[15] &= 0x7f
				if r.Bool() {
					p[31] &= 0x7f
				}
			}
			o.In("secret", s[:])
			o.In("public", p[:])
			ok := curve4q.Shared(&sh, &s, &p)
			if ok {
				lib.Count("c14/DH/curve4q:shared-ok")
			} else {
				lib.Count("c14/DH/curve4q:shared-refused")
			}
			o.OutBool("ok", ok)
			if ok {
				o.Out("shared", sh[:])
			}
		}},
		{"csidh.exchange", 3, 40, func(r *lib.Rng, k int, o *rec) {
			var prA, prB csidh.PrivateKey
			var puA, puB csidh.PublicKey
			o.OutErr("genA", csidh.GeneratePrivateKey(&prA, r))
			o.OutErr("genB", csidh.GeneratePrivateKey(&prB, r))
			csidh.GeneratePublicKey(&puA, &prA, r)
			csidh.GeneratePublicKey(&puB, &prB, r)
			ea, eb := make([]byte, csidh.PrivateKeySize), make([]byte, csidh.PrivateKeySize)
			o.OutBool("expA", prA.Export(ea))
			o.OutBool("expB", prB.Export(eb))
			o.In("prA", ea)
			o.In("prB", eb)
			o.Out("prA", ea)
			o.Out("prB", eb)
			pa, pb := make([]byte, csidh.PublicKeySize), make([]byte, csidh.PublicKeySize)
			o.OutBool("expPA", puA.Export(pa))
			o.OutBool("expPB", puB.Export(pb))
			o.Out("puA", pa)
			o.Out("puB", pb)
			var ssA, ssB [64]byte
			o.OutBool("derA", csidh.DeriveSecret(&ssA, &puB, &prA, r))
			o.OutBool("derB", csidh.DeriveSecret(&ssB, &puA, &prB, r))
			o.Out("ssA", ssA[:])
			o.Out("ssB", ssB[:])
		}},
		{"csidh.Validate", 2, 24, func(r *lib.Rng, k int, o *rec) {
			var pr csidh.PrivateKey
			var pu, bad csidh.PublicKey
			o.OutErr("gen", csidh.GeneratePrivateKey(&pr, r))
			csidh.GeneratePublicKey(&pu, &pr, r)
			pb := make([]byte, csidh.PublicKeySize)
			pu.Export(pb)
			o.In("pub", pb)
			o.OutBool("valid", csidh.Validate(&pu, r))
			// a damaged key: almost surely not supersingular
			pb[r.Intn(60)] ^= 1 << uint(r.Intn(8))
			o.OutBool("import", bad.Import(pb))
			v := csidh.Validate(&bad, r)
			o.OutBool("valid-damaged", v)
			if !v {
				lib.Count("c14/DH/csidh:validate-refused")
				var pr2 csidh.PrivateKey
				csidh.GeneratePrivateKey(&pr2, r)
				var ss [64]byte
				o.OutBool("derive-damaged", csidh.DeriveSecret(&ss, &bad, &pr2, r))
			}
		}},
	}
}

type sidhParam struct {
	name  string
	id    uint8
	mk    func(r *lib.Rng) *sidh.KEM
	q, t  int
	fpLen int  // bytes per field element
	top   byte // mask of the most significant byte keeping every element below 2^(bits(p)-1) < p
}

func sidhKinds() []kind {
	ps := []sidhParam{
		{"p434", sidh.Fp434, func(r *lib.Rng) *sidh.KEM { return sidh.NewSike434(r) }, 4, 60, 55, 0x01},
		{"p503", sidh.Fp503, func(r *lib.Rng) *sidh.KEM { return sidh.NewSike503(r) }, 3, 40, 63, 0x3f},
		{"p751", sidh.Fp751, func(r *lib.Rng) *sidh.KEM { return sidh.NewSike751(r) }, 2, 24, 94, 0x3f},
	}
	var ks []kind
	for _, p := range ps {
		p := p
		ks = append(ks, kind{"sidh." + p.name + ".exchange", p.q, p.t, func(r *lib.Rng, k int, o *rec) {
			prA := sidh.NewPrivateKey(p.id, sidh.KeyVariantSidhA)
			prB := sidh.NewPrivateKey(p.id, sidh.KeyVariantSidhB)
			puA := sidh.NewPublicKey(p.id, sidh.KeyVariantSidhA)
			puB := sidh.NewPublicKey(p.id, sidh.KeyVariantSidhB)
			o.OutErr("genA", prA.Generate(r))
			o.OutErr("genB", prB.Generate(r))
			prA.GeneratePublicKey(puA)
			prB.GeneratePublicKey(puB)
			ea, eb := make([]byte, prA.Size()), make([]byte, prB.Size())
			prA.Export(ea)
			prB.Export(eb)
			o.In("prA", ea)
			o.In("prB", eb)
			o.Out("prA", ea)
			o.Out("prB", eb)
			pa, pb := make([]byte, puA.Size()), make([]byte, puB.Size())
			puA.Export(pa)
			puB.Export(pb)
			o.Out("puA", pa)
			o.Out("puB", pb)
			ssA, ssB := make([]byte, prA.SharedSecretSize()), make([]byte, prB.SharedSecretSize())
			prA.DeriveSecret(ssA, puB)
			prB.DeriveSecret(ssB, puA)
			o.Out("ssA", ssA)
			o.Out("ssB", ssB)
		}})
		// PublicKey.Import "doesn't perform any validation": the three GF(p^2)
		// x-coordinates of a peer's key are arbitrary field elements, here
		// with limb-edge values (each below p), pushed through the whole
		// isogeny computation
		ks = append(ks, kind{"sidh." + p.name + ".derive:arbitrary-public-key", 2 * p.q, 4 * p.t, func(r *lib.Rng, k int, o *rec) {
			// only the A side: DeriveSecretB validates the peer's key and
			// answers an invalid one with crypto/rand bytes (by design)
			va, vb := sidh.KeyVariantSidhA, sidh.KeyVariant(sidh.KeyVariantSidhB)
			pr := sidh.NewPrivateKey(p.id, va)
			pu := sidh.NewPublicKey(p.id, vb)
			o.OutErr("gen", pr.Generate(r))
			e := make([]byte, pr.Size())
			pr.Export(e)
			o.In("prv", e)
			pb := make([]byte, 0, pu.Size())
			for i := 0; i < 6; i++ {
				var el []byte
				switch r.Intn(4) {
				case 0:
					el = r.EdgeBytes(p.fpLen, 1)
					el[p.fpLen-1] &= p.top
				case 1:
					el = r.Bytes(p.fpLen)
					el[p.fpLen-1] &= p.top
				default:
					el = repLimbBytes(r, p.fpLen, 1, p.top)
				}
				pb = append(pb, el...)
			}
			o.In("pub", pb)
			if err := pu.Import(pb); err != nil {
				o.OutErr("import", err)
				return
			}
			re := make([]byte, pu.Size())
			pu.Export(re)
			o.Out("pub.re", re)
			ss := make([]byte, pr.SharedSecretSize())
			pr.DeriveSecret(ss, pu)
			o.Out("ss", ss)
		}})
		ks = append(ks, kind{"sike." + p.name, p.q, p.t, func(r *lib.Rng, k int, o *rec) {
			kem := p.mk(r)
			pr := sidh.NewPrivateKey(p.id, sidh.KeyVariantSike)
			pu := sidh.NewPublicKey(p.id, sidh.KeyVariantSike)
			o.OutErr("gen", pr.Generate(r))
			pr.GeneratePublicKey(pu)
			e := make([]byte, pr.Size())
			pr.Export(e)
			o.In("prv", e)
			o.Out("prv", e)
			pb := make([]byte, pu.Size())
			pu.Export(pb)
			o.Out("pub", pb)
			ct, ss := make([]byte, kem.CiphertextSize()), make([]byte, kem.SharedSecretSize())
			o.OutErr("encaps", kem.Encapsulate(ct, ss, pu))
			o.Out("ct", ct)
			o.Out("ss", ss)
			ss2 := make([]byte, kem.SharedSecretSize())
			o.OutErr("decaps", kem.Decapsulate(ss2, pr, pu, ct))
			o.Out("ss2", ss2)
			if lib.Eq(ss, ss2) {
				lib.Count("c14/DH/sike:round-trip")
			}
			// implicit rejection path
			ct[r.Intn(len(ct)-2)] ^= 1 << uint(r.Intn(8))
			ss3 := make([]byte, kem.SharedSecretSize())
			o.OutErr("decaps-damaged", kem.Decapsulate(ss3, pr, pu, ct))
			o.Out("ss3", ss3)
			if !lib.Eq(ss, ss3) {
				lib.Count("c14/DH/sike:implicit-rejection")
			}
		}})
	}
	return ks
}

func TestVerifTranscriptDH(t *testing.T) {
	lib.Mandatory("c14/DH/x25519:shared-flagged", "c14/DH/x448:shared-flagged",
		"c14/DH/curve4q:shared-ok", "c14/DH/curve4q:shared-refused",
		"c14/DH/sike:round-trip", "c14/DH/sike:implicit-rejection")
	runArea(t, "DH", append(dhKinds(), sidhKinds()...))
}
