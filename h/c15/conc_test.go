//go:build verif

package c15

import (
	"crypto"
	"sync"
	"sync/atomic"
	"testing"

	"github.com/cloudflare/circl/cipher/ascon"
	"github.com/cloudflare/circl/expander"
	"github.com/cloudflare/circl/internal/zzverif/lib"
	"github.com/cloudflare/circl/internal/zzverif/ref/expand"
	"github.com/cloudflare/circl/internal/zzverif/ref/keccak"
	"github.com/cloudflare/circl/xof"
)

// TestVerifExpanderShared: an expander is a value holding a hash identifier
// and a domain-separation tag; "for every input" includes the inputs that
// arrive while another call on the same expander is in progress.  One expander
// per construction is shared by 8 goroutines that expand their own (long)
// messages in tight loops; every output must be expand_message_xmd /
// expand_message_xof of the reference for that message.
func TestVerifExpanderShared(t *testing.T) {
	const mon = "TestVerifExpanderShared"
	const G = 8
	lib.Mandatory("expander-shared:expansions")
	dst := []byte("QUUX-V01-CS02-with-expander-shared")
	type sub struct {
		name string
		e    expander.Expander
		want func(msg []byte, n int) []byte
	}
	subs := []sub{
		{"ExpanderMD:SHA256", expander.NewExpanderMD(crypto.SHA256, dst), func(m []byte, n int) []byte { o, _ := expand.XMD(crypto.SHA256, m, dst, n); return o }},
		{"ExpanderMD:SHA512", expander.NewExpanderMD(crypto.SHA512, dst), func(m []byte, n int) []byte { o, _ := expand.XMD(crypto.SHA512, m, dst, n); return o }},
		{"ExpanderXOF:SHAKE128", expander.NewExpanderXOF(xof.SHAKE128, 128, dst), func(m []byte, n int) []byte {
			o, _ := expand.XOF(keccak.SHAKE128, 128, m, dst, n)
			return o
		}},
		{"ExpanderXOF:SHAKE256", expander.NewExpanderXOF(xof.SHAKE256, 256, dst), func(m []byte, n int) []byte {
			o, _ := expand.XOF(keccak.SHAKE256, 256, m, dst, n)
			return o
		}},
	}
	rounds := lib.Scale(12, 120)
	for _, sb := range subs {
		sb := sb
		// inputs and expected outputs first (the reference is sequential)
		type job struct{ msg, want []byte }
		jobs := make([][]job, G)
		for g := 0; g < G; g++ {
			for i := 0; i < rounds; i++ {
				r := lib.NewRng("c15/expander-shared/"+sb.name, g*1000+i)
				msg := r.Bytes(20000 + r.Intn(40000))
				jobs[g] = append(jobs[g], job{msg, sb.want(msg, 96)})
			}
		}
		var wg sync.WaitGroup
		var reported int32
		start := make(chan struct{})
		for g := 0; g < G; g++ {
			wg.Add(1)
			go func(g int) {
				defer wg.Done()
				<-start
				for i, j := range jobs[g] {
					var got []byte
					pn := lib.Try("expander-shared:"+sb.name, nil, func() { got = sb.e.Expand(j.msg, 96) })
					lib.Count("expander-shared:expansions")
					if (pn != nil || !lib.Eq(got, j.want)) && atomic.AddInt32(&reported, 1) == 1 {
						lib.Violation("C15:wrong-output:expander."+sb.name+":shared-by-goroutines", mon,
							lib.D("goroutines", G, "goroutine", g, "call", i, "msg_len", len(j.msg), "got", got, "want", j.want, "panicked", pn != nil))
					}
				}
			}(g)
		}
		close(start)
		wg.Wait()
		lib.CaseS("expander-shared", sb.name)
	}
}

// TestVerifAsconShared: decryption inverts encryption (and a wrong tag is
// refused) for every call, also when one Cipher value serves 8 goroutines at
// once, each with its own nonces and messages.
func TestVerifAsconShared(t *testing.T) {
	const mon = "TestVerifAsconShared"
	const G = 8
	lib.Mandatory("ascon-shared:opens")
	for _, m := range []struct {
		name string
		mode ascon.Mode
		klen int
	}{{"Ascon128", ascon.Ascon128, 16}, {"Ascon128a", ascon.Ascon128a, 16}, {"Ascon80pq", ascon.Ascon80pq, 20}} {
		key := lib.NewRng("c15/ascon-shared/key/"+m.name, 0).Bytes(m.klen)
		c, err := ascon.New(key, m.mode)
		if err != nil {
			t.Fatal(err)
		}
		rounds := lib.Scale(2000, 20000)
		var wg sync.WaitGroup
		var reported int32
		start := make(chan struct{})
		for g := 0; g < G; g++ {
			wg.Add(1)
			go func(g int) {
				defer wg.Done()
				r := lib.NewRng("c15/ascon-shared/"+m.name, g)
				<-start
				for i := 0; i < rounds; i++ {
					nonce, pt, ad := r.Bytes(16), r.Bytes(r.Intn(48)), r.Bytes(r.Intn(20))
					var ct, back []byte
					var oerr, ferr error
					pn := lib.Try("ascon-shared:"+m.name, nil, func() {
						ct = c.Seal(nil, nonce, pt, ad)
						back, oerr = c.Open(nil, nonce, ct, ad)
						bad := lib.Clone(ct)
						bad[len(bad)-1-r.Intn(16)] ^= 1 << uint(r.Intn(8))
						_, ferr = c.Open(nil, nonce, bad, ad)
					})
					lib.Count("ascon-shared:opens")
					what := ""
					switch {
					case pn != nil:
						what = "panic: " + pn.Value
					case oerr != nil || !lib.Eq(back, pt):
						what = "a genuine ciphertext is refused or opens to another plaintext"
					case ferr == nil:
						what = "a ciphertext with an altered tag is accepted"
					}
					if what != "" && atomic.AddInt32(&reported, 1) == 1 {
						lib.Violation("C15:tamper-or-roundtrip:ascon."+m.name+":shared-by-goroutines", mon, lib.D("what", what, "goroutines", G, "goroutine", g, "call", i))
					}
				}
			}(g)
		}
		close(start)
		wg.Wait()
		lib.CaseS("ascon-shared", m.name)
	}
}
