//go:build verif

package fp25519

import (
	"testing"

	"github.com/cloudflare/circl/internal/zzverif/lib"
)

func TestMain(m *testing.M) { lib.Main(m) }
