//go:build verif

// C01, schedule class: a key that came out of UnmarshalBinary* has every
// lazily filled cache empty.  Its very first uses are released from several
// goroutines at once; each of them must return exactly what the same call
// returns on an object used sequentially (decapsulation = the encapsulated
// secret, encapsulation = the deterministic ciphertext, Public() = the public
// key).  Only values are compared here; the race detector oracle over the same
// kind of workload is C11's.
package c01

import (
	"sync"
	"sync/atomic"
	"testing"

	"github.com/cloudflare/circl/internal/zzverif/lib"
	"github.com/cloudflare/circl/kem"
)

const concG = 8

func TestVerifKEMFirstUseConcurrent(t *testing.T) {
	lib.Mandatory("first-use:rounds", "first-use:rounds-with-overlap")
	ss := allSchemes()
	for _, s := range ss {
		firstUse(s)
	}
}

func firstUse(s kem.Scheme) {
	name := s.Name()
	rounds := lib.Scale(120, 1500)
	if s.PrivateKeySize() > 4000 || s.CiphertextSize() > 4000 {
		rounds = lib.Scale(12, 100) // FrodoKEM and the larger hybrids: slow per call
	}
	nk := 4
	type kv struct {
		pkb, skb, ct, ss, eseed []byte
	}
	keys := make([]kv, nk)
	for k := range keys {
		r := lib.NewRng("c01/conc/"+name, k)
		pk, sk := s.DeriveKeyPair(r.Bytes(s.SeedSize()))
		keys[k].pkb, _ = pk.MarshalBinary()
		keys[k].skb, _ = sk.MarshalBinary()
		keys[k].eseed = r.Bytes(s.EncapsulationSeedSize())
		var err error
		keys[k].ct, keys[k].ss, err = s.EncapsulateDeterministically(pk, keys[k].eseed)
		if err != nil {
			viol(s, "encaps-error", "err", err)
			return
		}
	}
	for it := 0; it < rounds; it++ {
		k := keys[it%nk]
		sk, err1 := s.UnmarshalBinaryPrivateKey(lib.Clone(k.skb))
		pk, err2 := s.UnmarshalBinaryPublicKey(lib.Clone(k.pkb))
		if err1 != nil || err2 != nil {
			viol(s, "unmarshal-own-key", "err1", err1, "err2", err2)
			return
		}
		var wg sync.WaitGroup
		var ready, inflight, high int32
		start := make(chan struct{})
		type res struct {
			ss, pub, ct, ess []byte
			err              error
		}
		out := make([]res, concG)
		for g := 0; g < concG; g++ {
			wg.Add(1)
			go func(g int) {
				defer wg.Done()
				atomic.AddInt32(&ready, 1)
				<-start
				n := atomic.AddInt32(&inflight, 1)
				for {
					h := atomic.LoadInt32(&high)
					if n <= h || atomic.CompareAndSwapInt32(&high, h, n) {
						break
					}
				}
				o := &out[g]
				if p := lib.Try("first-use:"+name, k.ct, func() {
					switch g % 3 {
					case 0:
						o.ss, o.err = s.Decapsulate(sk, k.ct)
						o.pub, _ = sk.Public().MarshalBinary()
					case 1:
						o.pub, _ = sk.Public().MarshalBinary()
						o.ss, o.err = s.Decapsulate(sk, k.ct)
					default:
						o.ct, o.ess, o.err = s.EncapsulateDeterministically(pk, k.eseed)
						o.ss, _ = s.Decapsulate(sk, k.ct)
						o.pub, _ = pk.MarshalBinary()
					}
				}); p != nil {
					viol(s, "panic-concurrent-first-use", "panic", p.Value)
				}
				atomic.AddInt32(&inflight, -1)
			}(g)
		}
		for atomic.LoadInt32(&ready) < concG {
		}
		close(start)
		wg.Wait()
		lib.Count("first-use:rounds")
		lib.CountN("evaluations", concG)
		if high >= 2 {
			lib.Count("first-use:rounds-with-overlap")
		}
		if it < nk {
			lib.CaseS("first-use", name, string(rune('0'+it)))
		}
		for g, o := range out {
			if o.err != nil || !lib.Eq(o.ss, k.ss) {
				viol(s, "concurrent-first-use-wrong-secret", "goroutine", g, "round", it, "err", o.err, "got", o.ss, "want", k.ss)
				return
			}
			if !lib.Eq(o.pub, k.pkb) {
				viol(s, "concurrent-first-use-wrong-public-key", "goroutine", g, "round", it, "got", o.pub)
				return
			}
			if g%3 == 2 && (!lib.Eq(o.ct, k.ct) || !lib.Eq(o.ess, k.ss)) {
				viol(s, "concurrent-first-use-wrong-encapsulation", "goroutine", g, "round", it)
				return
			}
		}
	}
}
