//go:build verif

// C07 - HPKE produces exactly the RFC 9180 outputs for every suite, mode and
// input (independent reference model ref/hpke evaluated on the same inputs).
package c07

import (
	"testing"

	"github.com/cloudflare/circl/internal/zzverif/lib"
)

func TestMain(m *testing.M) { lib.Main(m) }
