//go:build verif

package c16

import (
	"crypto"
	"math/big"
	"testing"

	"github.com/cloudflare/circl/group"
	"github.com/cloudflare/circl/internal/zzverif/lib"
	"github.com/cloudflare/circl/zk/dl"
	"github.com/cloudflare/circl/zk/dleq"
)

type dleqStmt struct {
	a, ka   group.Element
	bi, kbi []group.Element
}

func (s dleqStmt) clone() dleqStmt {
	return dleqStmt{s.a, s.ka, append([]group.Element(nil), s.bi...), append([]group.Element(nil), s.kbi...)}
}

func (s dleqStmt) hex() map[string]any {
	d := map[string]any{"a": lib.Hex(mustElt(s.a)), "ka": lib.Hex(mustElt(s.ka))}
	var b, kb []string
	for i := range s.bi {
		b = append(b, lib.Hex(mustElt(s.bi[i])))
	}
	for i := range s.kbi {
		kb = append(kb, lib.Hex(mustElt(s.kbi[i])))
	}
	d["b"], d["kb"] = b, kb
	return d
}

// dleqVerify calls VerifyBatch, and Verify as well when the batch has one
// pair; both must agree.
func dleqVerify(mon, what string, prm dleq.Params, st dleqStmt, p *dleq.Proof) (bool, *lib.Panic) {
	pb, _ := p.MarshalBinary()
	ok, pn := tryBool("dleq.VerifyBatch:"+what, pb, func() bool {
		return dleq.Verifier{Params: prm}.VerifyBatch(st.a, st.ka, st.bi, st.kbi, p)
	})
	if pn == nil && len(st.bi) == 1 && len(st.kbi) == 1 {
		ok1, pn1 := tryBool("dleq.Verify:"+what, pb, func() bool {
			return dleq.Verifier{Params: prm}.Verify(st.a, st.ka, st.bi[0], st.kbi[0], p)
		})
		if pn1 == nil && ok1 != ok {
			lib.Violation("C16:verify-vs-verifybatch:dleq.Verify", mon, withKV(st.hex(), "what", what, "proof", pb, "verify", ok1, "verifybatch", ok))
		}
	}
	return ok, pn
}

func TestVerifDLEQ(t *testing.T) {
	const mon = "TestVerifDLEQ"
	lib.Mandatory("dleq:honest-accepted", "dleq:altered-rejected:a", "dleq:altered-rejected:ka", "dleq:altered-rejected:b",
		"dleq:altered-rejected:kb", "dleq:altered-rejected:dst", "dleq:altered-rejected:proof.c", "dleq:altered-rejected:proof.s",
		"dleq:altered-rejected:batch-order", "dleq:altered-rejected:batch-length", "dleq:false-statement-rejected",
		"dleq:degenerate-proof-rejected", "dleq:cross-group-tried", "dleq:noncanonical-scalar-tried", "dleq:identity-statement-tried",
		"dleq:marshal-roundtrip", "dleq:batch-larger-than-256")
	per := lib.Scale(16, 48)
	type cs struct {
		gi, i int
	}
	var cases []cs
	for gi := range groups {
		for i := 0; i < per; i++ {
			cases = append(cases, cs{gi, i})
		}
	}
	lib.Par(len(cases), func(ci int) {
		c := cases[ci]
		gr := groups[c.gi]
		g := gr.g
		r := lib.NewRng("c16/dleq/"+gr.name, c.i)
		prm := dleq.Params{G: g, H: lib.Pick(r, crypto.SHA256, crypto.SHA384, crypto.SHA512), DST: edgeBytes(r, lib.Pick(r, 0, 1, 16, 40))}
		k := gr.randScalar(r)
		n := 1 + c.i%5
		if c.i == per-1 && c.gi%2 == 0 {
			n = 258 + r.Intn(3) // a batch whose indices need the second octet of I2OSP(j, 2)
			lib.Count("dleq:batch-larger-than-256")
		}
		var st dleqStmt
		if r.Intn(3) == 0 {
			st.a = g.Generator().Copy()
		} else {
			st.a = gr.randElement(r)
		}
		st.ka = g.NewElement().Mul(st.a, k)
		for j := 0; j < n; j++ {
			b := gr.randElement(r)
			if j > 0 && r.Intn(12) == 0 {
				b = st.bi[0].Copy() // the same pair twice in a batch
			}
			st.bi = append(st.bi, b)
			st.kbi = append(st.kbi, g.NewElement().Mul(b, k))
		}
		kb := mustScl(k)
		base := withKV(st.hex(), "group", gr.name, "k", kb, "dst", prm.DST, "hash", prm.H.String(), "n", n)
		lib.Case([]byte("dleq"), []byte(gr.name), kb, prm.DST, mustElt(st.a), mustElt(st.bi[0]), []byte{byte(n)})
		prover := dleq.Prover{Params: prm}

		// ---- honest proofs, all four entry points
		rnd := gr.uniScalar(r)
		var proofs []*dleq.Proof
		var perr error
		if pn := lib.Try("dleq.Prove:"+gr.name, kb, func() {
			p1, err := prover.ProveBatch(k, st.a, st.ka, st.bi, st.kbi, r)
			if err != nil {
				perr = err
				return
			}
			p2, err := prover.ProveBatchWithRandomness(k, st.a, st.ka, st.bi, st.kbi, rnd)
			if err != nil {
				perr = err
				return
			}
			proofs = append(proofs, p2, p1)
			if n == 1 {
				p3, err := prover.Prove(k, st.a, st.ka, st.bi[0], st.kbi[0], r)
				if err != nil {
					perr = err
					return
				}
				p4, err := prover.ProveWithRandomness(k, st.a, st.ka, st.bi[0], st.kbi[0], rnd)
				if err != nil {
					perr = err
					return
				}
				proofs = append(proofs, p3, p4)
			}
		}); pn != nil || perr != nil {
			d := withErr(base, perr)
			if pn != nil {
				d["panic"] = pn.Value
			}
			lib.Violation("C16:honest-rejected:dleq.Prove", mon, d)
			return
		}
		p0 := proofs[0]
		p0b, _ := p0.MarshalBinary()
		for pi, p := range proofs {
			ok, pn := dleqVerify(mon, "honest", prm, st, p)
			if !ok {
				d := withKV(base, "which", pi)
				if pn != nil {
					d["panic"] = pn.Value
				}
				lib.Violation("C16:honest-rejected:dleq.Verify", mon, d)
				return
			}
			lib.Count("dleq:honest-accepted")
			pb, err := p.MarshalBinary()
			q := new(dleq.Proof)
			rbuf := lib.Clone(pb) // a receive buffer, re-used right after decoding
			uerr := q.UnmarshalBinary(g, rbuf)
			for j := range rbuf {
				rbuf[j] ^= 0x5A
			}
			if err != nil || len(pb) != 2*gr.slen || uerr != nil {
				lib.Violation("C16:marshal-roundtrip:dleq.Proof", mon, withKV(base, "proof", pb))
				continue
			}
			qb, _ := q.MarshalBinary()
			if ok, _ := dleqVerify(mon, "honest-redecoded", prm, st, q); !ok || !lib.Eq(qb, pb) {
				lib.Violation("C16:marshal-roundtrip:dleq.Proof", mon, withKV(base, "proof", pb, "remarshalled", qb))
			}
			lib.Count("dleq:marshal-roundtrip")
		}
		// fixed randomness => fixed proof
		if again, err := prover.ProveBatchWithRandomness(k, st.a, st.ka, st.bi, st.kbi, rnd); err == nil {
			ab, _ := again.MarshalBinary()
			if !lib.Eq(ab, p0b) {
				lib.Violation("C16:nondeterministic:dleq.ProveBatchWithRandomness", mon, withKV(base, "proof1", p0b, "proof2", ab))
			}
		}
		if n == 1 {
			b3, _ := proofs[3].MarshalBinary()
			if !lib.Eq(b3, p0b) {
				lib.Violation("C16:prove-vs-provebatch:dleq.ProveWithRandomness", mon, withKV(base, "single", b3, "batch", p0b))
			}
		}

		// ---- altered statement
		reject := func(component, variant string, prmX dleq.Params, stX dleqStmt, p *dleq.Proof, class string) {
			pb, _ := p.MarshalBinary()
			lib.Case([]byte("dleq-alt"), []byte(gr.name), kb, []byte(component), []byte(variant), prmX.DST, cat(stmtBytes(stX)...), pb)
			ok, pn := dleqVerify(mon, component, prmX, stX, p)
			if pn != nil {
				lib.Violation("C16:panic:dleq.Verify:"+pn.Class(), mon, withKV(base, "component", component, "variant", variant, "panic", pn.Value, "frame", pn.TopFrame(), "altered", stX.hex(), "proof", pb))
				return
			}
			if !ok {
				lib.Count("dleq:altered-rejected:" + component)
				return
			}
			d := withKV(base, "component", component, "variant", variant, "altered", stX.hex(), "altered_dst", prmX.DST, "proof", pb, "honest_proof", p0b)
			if class == "noncanonical" {
				d["note"] = "scalar encoding >= group order decodes and the proof verifies"
				key := gr.malleableKey("dleq.Verify")
				if component == "proof.c" && !gr.isRistretto() {
					// the known finding of the P-curves is about the response s (it
					// enters the verification equation reduced); the challenge is
					// compared as decoded, so c + N is a different violation
					key = "C16:malleable-proof:dleq.Verify:challenge-plus-order"
				}
				lib.Violation(key, mon, d)
				return
			}
			lib.Violation("C16:altered-accepted:dleq.Verify:"+component, mon, d)
		}
		nfl := lib.Scale(3, 8)
		{
			names, elts, _ := eltVariants(gr, r, st.a, nfl)
			for j := range elts {
				x := st.clone()
				x.a = elts[j]
				reject("a", names[j], prm, x, p0, "")
			}
			names, elts, _ = eltVariants(gr, r, st.ka, nfl)
			for j := range elts {
				x := st.clone()
				x.ka = elts[j]
				reject("ka", names[j], prm, x, p0, "")
			}
			if !st.a.IsEqual(st.ka) {
				x := st.clone()
				x.a, x.ka = st.ka, st.a
				reject("a", "a-ka-exchanged", prm, x, p0, "")
			}
		}
		for i := 0; i < n; i++ {
			if n > 16 && i >= 3 && i < n-2 {
				continue // large batches: the ends only
			}
			names, elts, _ := eltVariants(gr, r, st.bi[i], nfl)
			for j := range elts {
				x := st.clone()
				x.bi[i] = elts[j]
				reject("b", names[j], prm, x, p0, "")
			}
			names, elts, _ = eltVariants(gr, r, st.kbi[i], nfl)
			for j := range elts {
				x := st.clone()
				x.kbi[i] = elts[j]
				reject("kb", names[j], prm, x, p0, "")
			}
			if !st.bi[i].IsEqual(st.kbi[i]) {
				x := st.clone()
				x.bi[i], x.kbi[i] = st.kbi[i], st.bi[i]
				reject("b", "b-kb-exchanged", prm, x, p0, "")
			}
			if i+1 < n && !st.bi[i].IsEqual(st.bi[i+1]) {
				x := st.clone()
				x.bi[i], x.bi[i+1] = x.bi[i+1], x.bi[i]
				x.kbi[i], x.kbi[i+1] = x.kbi[i+1], x.kbi[i]
				reject("batch-order", "pairs-swapped", prm, x, p0, "")
				y := st.clone()
				y.kbi[i], y.kbi[i+1] = y.kbi[i+1], y.kbi[i]
				reject("kb", "kb-swapped-with-next", prm, y, p0, "")
			}
		}
		// pairs 256 positions apart change places (their indices agree in the
		// low octet)
		if n > 257 {
			for _, i := range []int{0, 1} {
				if !st.bi[i].IsEqual(st.bi[i+256]) {
					x := st.clone()
					x.bi[i], x.bi[i+256] = x.bi[i+256], x.bi[i]
					x.kbi[i], x.kbi[i+256] = x.kbi[i+256], x.kbi[i]
					reject("batch-order", "pairs-256-apart-swapped", prm, x, p0, "")
				}
			}
		}
		if n > 1 {
			x := st.clone()
			x.bi, x.kbi = x.bi[:n-1], x.kbi[:n-1]
			reject("batch-length", "last-pair-dropped", prm, x, p0, "")
			x = st.clone()
			x.bi, x.kbi = x.bi[1:], x.kbi[1:]
			reject("batch-length", "first-pair-dropped", prm, x, p0, "")
		}
		{
			x := st.clone()
			e := gr.randElement(r)
			x.bi, x.kbi = append(x.bi, e), append(x.kbi, g.NewElement().Mul(e, k))
			reject("batch-length", "valid-pair-appended", prm, x, p0, "")
		}
		// ---- altered context string
		{
			alts := [][2]any{{"appended", append(lib.Clone(prm.DST), byte(r.U64()))}, {"random", r.Bytes(1 + r.Intn(40))}}
			if len(prm.DST) > 0 {
				alts = append(alts, [2]any{"bitflip", lib.FlipBit(prm.DST, r.Intn(8*len(prm.DST)))},
					[2]any{"truncated", lib.Clone(prm.DST[:len(prm.DST)-1])}, [2]any{"empty", []byte{}})
			}
			for _, w := range libraryLiterals("zk/dleq") {
				alts = append(alts, [2]any{"library-literal", w})
			}
			for _, a := range alts {
				d := a[1].([]byte)
				if lib.Eq(d, prm.DST) {
					continue
				}
				reject("dst", a[0].(string), dleq.Params{G: g, H: prm.H, DST: d}, st, p0, "")
			}
			// the context as the front part of a caller buffer with used capacity
			// behind it: verification leaves the buffer alone and accepts
			arena := cat(prm.DST, []byte{0xA5, 0x5A, 0xA5, 0x5A})
			was := lib.Clone(arena)
			okA, _ := dleqVerify(mon, "dst-with-spare-capacity", dleq.Params{G: g, H: prm.H, DST: arena[:len(prm.DST)]}, st, p0)
			lib.Count("dleq:context-with-spare-capacity")
			if !lib.Eq(arena, was) {
				lib.Violation("C16:argument-modified:dleq.Verify", mon, withKV(base, "buffer_before", was, "buffer_after", lib.Clone(arena)))
			} else if !okA {
				lib.Violation("C16:honest-rejected:dleq.Verify:context-with-spare-capacity", mon, withKV(base))
			}
		}
		// ---- altered proof components through the byte encoding
		cB, sB := p0b[:gr.slen], p0b[gr.slen:]
		doProof := func(component string, orig []byte, build func(alt []byte) []byte) {
			names, encs := sclVariants(gr, r, orig, lib.Scale(8, 24))
			for j := range encs {
				class := gr.aliasClass(orig, encs[j])
				if class == "same" {
					continue
				}
				if class == "noncanonical" {
					lib.Count("dleq:noncanonical-scalar-tried")
				}
				pb := build(encs[j])
				q := new(dleq.Proof)
				var uerr error
				if pn := lib.Try("dleq.Proof.UnmarshalBinary:"+gr.name, pb, func() { uerr = q.UnmarshalBinary(g, pb) }); pn != nil {
					lib.Violation("C16:panic:dleq.Proof.UnmarshalBinary:"+pn.Class(), mon, withKV(base, "proof", pb, "panic", pn.Value))
					continue
				}
				if uerr != nil {
					lib.Count("dleq:proof-decode-rejected")
					lib.Count("dleq:altered-rejected:" + component)
					continue
				}
				if class == "noncanonical" {
					lib.Count("dleq:noncanonical-scalar-decoded")
				}
				reject(component, names[j], prm, st, q, class)
			}
		}
		doProof("proof.c", cB, func(alt []byte) []byte { return cat(alt, sB) })
		doProof("proof.s", sB, func(alt []byte) []byte { return cat(cB, alt) })
		if !lib.Eq(cB, sB) {
			q := new(dleq.Proof)
			if q.UnmarshalBinary(g, cat(sB, cB)) == nil {
				reject("proof.c", "c-s-exchanged", prm, st, q, "canonical")
			}
		}
		// a proof for the same statement made under another context string
		if px, err := (dleq.Prover{Params: dleq.Params{G: g, H: prm.H, DST: append(lib.Clone(prm.DST), 'x')}}).ProveBatchWithRandomness(k, st.a, st.ka, st.bi, st.kbi, rnd); err == nil {
			reject("dst", "proof-made-under-other-dst", prm, st, px, "canonical")
		}

		// ---- false statements, honest and degenerate provers
		k2 := gr.scalarFromInt(new(big.Int).Add(gr.scalarInt(k), big.NewInt(int64(1+r.Intn(5)))))
		if k2.IsZero() {
			k2 = gr.scalarFromInt(big.NewInt(7))
		}
		type fs struct {
			name string
			st   dleqStmt
		}
		var falses []fs
		{
			i := r.Intn(n)
			x := st.clone()
			x.kbi[i] = g.NewElement().Mul(st.bi[i], k2)
			falses = append(falses, fs{"kb-wrong-exponent", x})
			x = st.clone()
			x.ka = g.NewElement().Mul(st.a, k2)
			falses = append(falses, fs{"ka-wrong-exponent", x})
			x = st.clone()
			x.a = g.Identity()
			falses = append(falses, fs{"a-identity", x})
			x = st.clone()
			x.ka = g.Identity()
			falses = append(falses, fs{"ka-identity", x})
			x = st.clone()
			x.bi[i] = g.Identity()
			falses = append(falses, fs{"b-identity", x})
			x = st.clone()
			x.kbi[i] = g.Identity()
			falses = append(falses, fs{"kb-identity", x})
		}
		zero, one := gr.intEnc(big.NewInt(0)), gr.intEnc(big.NewInt(1))
		nm1 := gr.intEnc(new(big.Int).Sub(gr.order, big.NewInt(1)))
		degenerate := [][2]any{
			{"c0-s0", cat(zero, zero)}, {"c0-s", cat(zero, sB)}, {"c-s0", cat(cB, zero)}, {"c1-s1", cat(one, one)},
			{"c0-s1", cat(zero, one)}, {"c1-s0", cat(one, zero)}, {"cN1-sN1", cat(nm1, nm1)}, {"c0-random", cat(zero, gr.intEnc(gr.randInt(r, true)))},
			{"honest-proof-of-true-statement", p0b},
		}
		for _, f := range falses {
			if f.name[len(f.name)-8:] == "identity" {
				lib.Count("dleq:identity-statement-tried")
			}
			judgeFalse := func(kind string, q *dleq.Proof) {
				qb, _ := q.MarshalBinary()
				lib.Case([]byte("dleq-false"), []byte(gr.name), kb, []byte(f.name), []byte(kind), cat(stmtBytes(f.st)...), qb)
				ok, pn := dleqVerify(mon, "false-statement", prm, f.st, q)
				if pn != nil {
					lib.Violation("C16:panic:dleq.Verify:"+pn.Class(), mon, withKV(base, "statement", f.name, "proof_kind", kind, "panic", pn.Value, "frame", pn.TopFrame(), "false_statement", f.st.hex(), "proof", qb))
					return
				}
				if ok {
					lib.Violation("C16:false-statement-accepted:dleq.Verify:"+kind, mon, withKV(base, "statement", f.name, "false_statement", f.st.hex(), "proof", qb))
					return
				}
				if kind == "degenerate-proof" {
					lib.Count("dleq:degenerate-proof-rejected")
				} else {
					lib.Count("dleq:false-statement-rejected")
				}
			}
			for _, w := range []group.Scalar{k, k2} {
				var q *dleq.Proof
				var err error
				if pn := lib.Try("dleq.Prove:false-statement", kb, func() {
					q, err = prover.ProveBatchWithRandomness(w, f.st.a, f.st.ka, f.st.bi, f.st.kbi, rnd)
				}); pn != nil || err != nil {
					lib.Count("dleq:prover-refused-false-statement")
					continue
				}
				judgeFalse("prover-with-wrong-witness", q)
			}
			for _, dg := range degenerate {
				q := new(dleq.Proof)
				if q.UnmarshalBinary(g, dg[1].([]byte)) != nil {
					continue
				}
				judgeFalse("degenerate-proof", q)
			}
		}
		// true statements made of identities: an honest proof must verify
		for _, which := range []string{"b-kb-identity", "a-ka-identity", "all-identity"} {
			x := st.clone()
			switch which {
			case "b-kb-identity":
				x.bi[0], x.kbi[0] = g.Identity(), g.Identity()
			case "a-ka-identity":
				x.a, x.ka = g.Identity(), g.Identity()
			default:
				x.a, x.ka = g.Identity(), g.Identity()
				for i := range x.bi {
					x.bi[i], x.kbi[i] = g.Identity(), g.Identity()
				}
			}
			var q *dleq.Proof
			var err error
			if pn := lib.Try("dleq.Prove:identity-statement", kb, func() {
				q, err = prover.ProveBatchWithRandomness(k, x.a, x.ka, x.bi, x.kbi, rnd)
			}); pn != nil || err != nil {
				lib.Count("dleq:prover-refused-identity-statement")
				continue
			}
			lib.Count("dleq:identity-statement-tried")
			if ok, _ := dleqVerify(mon, "identity-true-statement", prm, x, q); !ok {
				qb, _ := q.MarshalBinary()
				lib.Violation("C16:honest-rejected:dleq.Verify:identity-statement", mon, withKV(base, "statement", which, "true_statement", x.hex(), "proof", qb))
			} else {
				lib.Count("dleq:identity-true-statement-accepted")
			}
		}

		// ---- a proof object of another group; its bytes decoded in this group
		for _, og := range groups {
			if og == gr {
				continue
			}
			ok2 := og.uniScalar(r)
			oa := og.randElement(r)
			ob := og.randElement(r)
			op, err := dleq.Prover{Params: dleq.Params{G: og.g, H: prm.H, DST: prm.DST}}.ProveWithRandomness(
				ok2, oa, og.g.NewElement().Mul(oa, ok2), ob, og.g.NewElement().Mul(ob, ok2), og.uniScalar(r))
			if err != nil {
				continue
			}
			lib.Count("dleq:cross-group-tried")
			ok, pn := tryBool("dleq.VerifyBatch:cross-group", []byte(og.name+"->"+gr.name), func() bool {
				return dleq.Verifier{Params: prm}.VerifyBatch(st.a, st.ka, st.bi, st.kbi, op)
			})
			switch {
			case ok:
				lib.Violation("C16:cross-group-accepted:dleq.Verify", mon, withKV(base, "proof_group", og.name))
			case pn != nil && isErrType(pn):
				lib.Count("dleq:cross-group-panic-type-mismatch")
			case pn != nil:
				lib.Violation("C16:panic:dleq.Verify:"+pn.Class(), mon, withKV(base, "proof_group", og.name, "panic", pn.Value, "frame", pn.TopFrame()))
			default:
				lib.Count("dleq:cross-group-false")
			}
			if og.slen == gr.slen {
				ob2, _ := op.MarshalBinary()
				q := new(dleq.Proof)
				if q.UnmarshalBinary(g, ob2) == nil {
					reject("proof.c", "bytes-of-a-proof-in-"+og.name, prm, st, q, "canonical")
				}
			}
		}
		if c.i == 0 {
			lib.Sample(mon, withKV(base, "proof", p0b))
		}
	})
}

func stmtBytes(s dleqStmt) [][]byte {
	out := [][]byte{mustElt(s.a), mustElt(s.ka)}
	for i := range s.bi {
		out = append(out, mustElt(s.bi[i]))
	}
	for i := range s.kbi {
		out = append(out, mustElt(s.kbi[i]))
	}
	return out
}

// ---------------------------------------------------------------- zk/dl

func TestVerifDL(t *testing.T) {
	const mon = "TestVerifDL"
	lib.Mandatory("dl:honest-accepted", "dl:altered-rejected:G", "dl:altered-rejected:kG", "dl:altered-rejected:V", "dl:altered-rejected:R",
		"dl:altered-rejected:userID", "dl:altered-rejected:otherInfo", "dl:forgery-rejected", "dl:cross-group-tried", "dl:noncanonical-scalar-tried")
	per := lib.Scale(24, 80)
	type cs struct {
		gi, i int
	}
	var cases []cs
	for gi := range groups {
		for i := 0; i < per; i++ {
			cases = append(cases, cs{gi, i})
		}
	}
	lib.Par(len(cases), func(ci int) {
		c := cases[ci]
		gr := groups[c.gi]
		g := gr.g
		r := lib.NewRng("c16/dl/"+gr.name, c.i)
		var G group.Element
		if r.Intn(2) == 0 {
			G = g.Generator().Copy()
		} else {
			G = gr.randElement(r)
		}
		k := gr.randScalar(r)
		kG := g.NewElement().Mul(G, k)
		uid := edgeBytes(r, lib.Pick(r, 0, 1, 8, 40, 300))
		oi := edgeBytes(r, lib.Pick(r, 0, 1, 8, 40, 300))
		kb := mustScl(k)
		base := lib.D("group", gr.name, "G", mustElt(G), "kG", mustElt(kG), "k", kb, "userID", uid, "otherInfo", oi)
		lib.Case([]byte("dl"), []byte(gr.name), kb, mustElt(G), uid, oi)
		var pr dl.Proof
		if pn := lib.Try("dl.Prove:"+gr.name, kb, func() { pr = dl.Prove(g, G, kG, k, uid, oi, r) }); pn != nil {
			lib.Violation("C16:honest-rejected:dl.Prove", mon, withKV(base, "panic", pn.Value))
			return
		}
		vb, rb := mustElt(pr.V), mustScl(pr.R)
		base["V"], base["R"] = lib.Hex(vb), lib.Hex(rb)
		verify := func(what string, GX, kGX group.Element, p dl.Proof, u, o []byte) (bool, *lib.Panic) {
			return tryBool("dl.Verify:"+what, cat(u, o), func() bool { return dl.Verify(g, GX, kGX, p, u, o) })
		}
		if ok, pn := verify("honest", G, kG, pr, uid, oi); !ok {
			d := withKV(base)
			if pn != nil {
				d["panic"] = pn.Value
			}
			lib.Violation("C16:honest-rejected:dl.Verify", mon, d)
			return
		}
		lib.Count("dl:honest-accepted")
		var altEnc []byte // the encoding an altered R was decoded from
		reject := func(component, variant string, GX, kGX group.Element, p dl.Proof, u, o []byte, class string) {
			lib.Case([]byte("dl-alt"), []byte(gr.name), kb, []byte(component), []byte(variant), mustElt(GX), mustElt(kGX), mustElt(p.V), mustScl(p.R), u, o)
			ok, pn := verify(component, GX, kGX, p, u, o)
			if pn != nil {
				lib.Violation("C16:panic:dl.Verify:"+pn.Class(), mon, withKV(base, "component", component, "variant", variant, "panic", pn.Value, "frame", pn.TopFrame()))
				return
			}
			if !ok {
				lib.Count("dl:altered-rejected:" + component)
				return
			}
			d := withKV(base, "component", component, "variant", variant, "altered_G", mustElt(GX), "altered_kG", mustElt(kGX),
				"altered_V", mustElt(p.V), "altered_R", mustScl(p.R), "altered_R_decoded_from", altEnc, "altered_userID", u, "altered_otherInfo", o)
			if class == "noncanonical" {
				d["note"] = "R decoded from an encoding >= group order; the proof verifies"
				lib.Violation(gr.malleableKey("dl.Verify"), mon, d)
				return
			}
			lib.Violation("C16:altered-accepted:dl.Verify:"+component, mon, d)
		}
		nfl := lib.Scale(4, 10)
		names, elts, _ := eltVariants(gr, r, G, nfl)
		for j := range elts {
			reject("G", names[j], elts[j], kG, pr, uid, oi, "")
		}
		names, elts, _ = eltVariants(gr, r, kG, nfl)
		for j := range elts {
			reject("kG", names[j], G, elts[j], pr, uid, oi, "")
		}
		names, elts, _ = eltVariants(gr, r, pr.V, nfl)
		for j := range elts {
			reject("V", names[j], G, kG, dl.Proof{V: elts[j], R: pr.R}, uid, oi, "")
		}
		if !G.IsEqual(kG) {
			reject("G", "G-kG-exchanged", kG, G, pr, uid, oi, "")
		}
		snames, encs := sclVariants(gr, r, rb, lib.Scale(8, 24))
		for j := range encs {
			class := gr.aliasClass(rb, encs[j])
			if class == "same" {
				continue
			}
			if class == "noncanonical" {
				lib.Count("dl:noncanonical-scalar-tried")
			}
			s := g.NewScalar()
			var uerr error
			if pn := lib.Try("group.Scalar.UnmarshalBinary:"+gr.name, encs[j], func() { uerr = s.UnmarshalBinary(encs[j]) }); pn != nil || uerr != nil {
				lib.Count("dl:scalar-decode-rejected")
				lib.Count("dl:altered-rejected:R")
				continue
			}
			if class == "noncanonical" {
				lib.Count("dl:noncanonical-scalar-decoded")
			}
			altEnc = encs[j]
			reject("R", snames[j], G, kG, dl.Proof{V: pr.V, R: s}, uid, oi, class)
		}
		altEnc = nil
		// context strings
		ctxAlts := func(b []byte) (n []string, a [][]byte) {
			n = append(n, "appended", "random")
			a = append(a, append(lib.Clone(b), byte(r.U64())), r.Bytes(1+r.Intn(40)))
			if len(b) > 0 {
				n = append(n, "bitflip", "truncated", "empty")
				a = append(a, lib.FlipBit(b, r.Intn(8*len(b))), lib.Clone(b[:len(b)-1]), []byte{})
			}
			return
		}
		// contexts taken from the library's own literals (a default label for an
		// empty context, a reserved tag): each of them is a different context
		dict := libraryLiterals("zk/dl")
		for _, w := range dict {
			if !lib.Eq(w, oi) {
				reject("otherInfo", "library-literal", G, kG, pr, uid, w, "")
			}
			if !lib.Eq(w, uid) {
				reject("userID", "library-literal", G, kG, pr, w, oi, "")
			}
		}
		if c.i%4 == 1 {
			// ... and a proof made under such a literal does not verify under the
			// empty context or under another literal
			w := dict[c.i/4%len(dict)]
			var pl dl.Proof
			if pn := lib.Try("dl.Prove:literal-context", w, func() { pl = dl.Prove(g, G, kG, k, uid, w, r) }); pn == nil {
				if ok, _ := verify("literal-context", G, kG, pl, uid, w); !ok {
					lib.Violation("C16:honest-rejected:dl.Verify", mon, withKV(base, "otherInfo_used", w))
				}
				lib.Count("dl:literal-contexts")
				reject("otherInfo", "literal-to-empty", G, kG, pl, uid, []byte{}, "")
				reject("otherInfo", "literal-to-nil", G, kG, pl, uid, nil, "")
				reject("otherInfo", "literal-to-other-literal", G, kG, pl, uid, dict[(c.i/4+1)%len(dict)], "")
			}
		}
		// userID and otherInfo as neighbouring parts of one caller buffer with
		// spare capacity behind each: proving and verifying leave the buffer as
		// it was and agree with the calls on separate copies
		{
			arena := cat(oi, uid, []byte{0xA5, 0x5A, 0xA5, 0x5A})
			oiA, uidA := arena[:len(oi)], arena[len(oi):len(oi)+len(uid)]
			was := lib.Clone(arena)
			var pa dl.Proof
			if pn := lib.Try("dl.Prove:one-buffer", arena, func() { pa = dl.Prove(g, G, kG, k, uidA, oiA, r) }); pn != nil {
				lib.Violation("C16:panic:dl.Prove:"+pn.Class(), mon, withKV(base, "layout", "otherInfo and userID adjacent in one buffer", "panic", pn.Value))
			} else {
				lib.Count("dl:contexts-in-one-buffer")
				if !lib.Eq(arena, was) {
					lib.Violation("C16:argument-modified:dl.Prove", mon, withKV(base, "buffer_before", was, "buffer_after", lib.Clone(arena)))
					copy(arena, was)
				}
				if ok, _ := verify("one-buffer-proof/separate-copies", G, kG, pa, lib.Clone(uid), lib.Clone(oi)); !ok {
					lib.Violation("C16:honest-rejected:dl.Verify:proof-made-from-adjacent-context-buffers", mon, withKV(base, "V", mustElt(pa.V), "R", mustScl(pa.R)))
				}
				okA, _ := verify("one-buffer", G, kG, pr, uidA, oiA)
				if !lib.Eq(arena, was) {
					lib.Violation("C16:argument-modified:dl.Verify", mon, withKV(base, "buffer_before", was, "buffer_after", lib.Clone(arena)))
					copy(arena, was)
				}
				if !okA {
					lib.Violation("C16:honest-rejected:dl.Verify:contexts-adjacent-in-one-buffer", mon, withKV(base))
				}
			}
		}
		an, aa := ctxAlts(uid)
		for j := range aa {
			if !lib.Eq(aa[j], uid) {
				reject("userID", an[j], G, kG, pr, aa[j], oi, "")
			}
		}
		an, aa = ctxAlts(oi)
		for j := range aa {
			if !lib.Eq(aa[j], oi) {
				reject("otherInfo", an[j], G, kG, pr, uid, aa[j], "")
			}
		}
		if !lib.Eq(uid, oi) {
			reject("userID", "userID-otherInfo-exchanged", G, kG, pr, oi, uid, "")
		}
		if len(oi) > 0 { // same concatenation, different split
			reject("userID", "boundary-shifted", G, kG, pr, append(lib.Clone(uid), oi[0]), oi[1:], "")
		}
		if len(uid) > 0 {
			reject("otherInfo", "boundary-shifted", G, kG, pr, uid[:len(uid)-1], append([]byte{uid[len(uid)-1]}, oi...), "")
		}

		// ---- forgeries: proofs for a public key whose discrete log the prover does not use
		X := gr.randElement(r)
		k2 := gr.scalarFromInt(new(big.Int).Add(gr.scalarInt(k), big.NewInt(int64(1+r.Intn(5)))))
		forge := func(kind string, GX, kGX group.Element, p dl.Proof) {
			lib.Case([]byte("dl-forge"), []byte(gr.name), []byte(kind), mustElt(GX), mustElt(kGX), mustElt(p.V), mustScl(p.R), uid, oi)
			ok, pn := verify("forgery", GX, kGX, p, uid, oi)
			if pn != nil {
				lib.Violation("C16:panic:dl.Verify:"+pn.Class(), mon, withKV(base, "kind", kind, "panic", pn.Value, "frame", pn.TopFrame()))
				return
			}
			if ok {
				lib.Violation("C16:forge:dl.Verify:"+kind, mon, withKV(base, "forged_G", mustElt(GX), "forged_kG", mustElt(kGX), "forged_V", mustElt(p.V), "forged_R", mustScl(p.R)))
				return
			}
			lib.Count("dl:forgery-rejected")
		}
		zeroS, oneS := g.NewScalar(), gr.scalarFromInt(big.NewInt(1))
		forge("degenerate-proof", G, X, dl.Proof{V: g.Identity(), R: zeroS})
		forge("degenerate-proof", G, X, dl.Proof{V: G.Copy(), R: oneS})
		forge("degenerate-proof", G, X, dl.Proof{V: X.Copy(), R: zeroS})
		forge("degenerate-proof", G, X, dl.Proof{V: g.Identity(), R: oneS})
		forge("degenerate-proof", G, X, dl.Proof{V: X.Copy(), R: oneS})
		forge("degenerate-proof", G, X, dl.Proof{V: g.NewElement().Add(G, X), R: oneS})
		forge("degenerate-proof", G, X, pr)
		forge("identity-base", g.Identity(), X, dl.Proof{V: g.Identity(), R: zeroS})
		forge("identity-base", g.Identity(), X, dl.Proof{V: g.Identity(), R: pr.R})
		forge("identity-base", g.Identity(), X, dl.Proof{V: X.Copy(), R: pr.R})
		var pw dl.Proof
		if pn := lib.Try("dl.Prove:wrong-witness", kb, func() { pw = dl.Prove(g, G, kG, k2, uid, oi, r) }); pn == nil {
			forge("prover-with-wrong-witness", G, kG, pw)
		}
		if pn := lib.Try("dl.Prove:identity-base", kb, func() { pw = dl.Prove(g, g.Identity(), X, k, uid, oi, r) }); pn == nil {
			forge("identity-base", g.Identity(), X, pw)
		}

		// ---- proof of another group
		for _, og := range groups {
			if og == gr {
				continue
			}
			ok2 := og.uniScalar(r)
			oG := og.randElement(r)
			op := dl.Prove(og.g, oG, og.g.NewElement().Mul(oG, ok2), ok2, uid, oi, r)
			lib.Count("dl:cross-group-tried")
			for _, variant := range []dl.Proof{op, {V: pr.V, R: op.R}, {V: op.V, R: pr.R}} {
				ok, pn := verify("cross-group", G, kG, variant, uid, oi)
				switch {
				case ok:
					lib.Violation("C16:cross-group-accepted:dl.Verify", mon, withKV(base, "proof_group", og.name))
				case pn != nil && isErrType(pn):
					lib.Count("dl:cross-group-panic-type-mismatch")
				case pn != nil:
					lib.Violation("C16:panic:dl.Verify:"+pn.Class(), mon, withKV(base, "proof_group", og.name, "panic", pn.Value, "frame", pn.TopFrame()))
				default:
					lib.Count("dl:cross-group-false")
				}
			}
		}
		if c.i == 0 {
			lib.Sample(mon, base)
		}
	})
}
