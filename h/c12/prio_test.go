//go:build verif

package c12

import (
	"math/big"
	"testing"

	bf "github.com/cloudflare/circl/internal/zzverif/ref/bigfield"

	"github.com/cloudflare/circl/internal/zzverif/lib"
	"github.com/cloudflare/circl/vdaf/prio3/arith"
	"github.com/cloudflare/circl/vdaf/prio3/arith/fp128"
	"github.com/cloudflare/circl/vdaf/prio3/arith/fp64"
)

const monPrio = "TestVerifPrio"

type prioDesc struct {
	name     string
	p        *big.Int
	size     int
	maxRoot  uint
	gen      *bf.Gen
	u64Bound bool // SetUint64 rejects n >= p (fp64)
}

var (
	p64  = bf.B("0xffffffff00000001")
	p128 = bf.B("0xffffffffffffffe40000000000000001")
)

func TestVerifPrioFp64(t *testing.T) {
	var z fp64.Fp
	if new(big.Int).SetBytes(z.Order()).Cmp(p64) != 0 {
		t.Fatal("fp64 order differs from the oracle's")
	}
	runPrio[fp64.Fp, *fp64.Fp, fp64.Vec, fp64.Poly](t, prioDesc{"fp64", p64, 8, 32,
		&bf.Gen{P: p64, Bits: 64, C: 1 << 32, MontRBits: 64, Extra: []*big.Int{bf.B("0xffffffff"), bf.B("0xffffffff00000000"), bf.B("0x100000000"), bf.B("0xfffffffe00000002")}}, true})
}

func TestVerifPrioFp128(t *testing.T) {
	var z fp128.Fp
	if new(big.Int).SetBytes(z.Order()).Cmp(p128) != 0 {
		t.Fatal("fp128 order differs from the oracle's")
	}
	runPrio[fp128.Fp, *fp128.Fp, fp128.Vec, fp128.Poly](t, prioDesc{"fp128", p128, 16, 66,
		&bf.Gen{P: p128, Bits: 128, C: 28, MontRBits: 128, Extra: []*big.Int{bf.Pow2(64), bf.B("0xffffffffffffffe40000000000000000"), bf.B("0xffffffffffffffe4"), bf.Pow2(127)}}, false})
}

func runPrio[E comparable, F arith.Fp[E], V arith.Vec[V, E], P arith.Poly[P, E]](t *testing.T, d prioDesc) {
	n := d.name
	pm := d.p
	lib.Mandatory(n+":tuples", n+":inv:zero", n+":iszero:true", n+":isone:true", n+":isequal:true", n+":unmarshal:rejected>=p",
		n+":add:wrapped", n+":sub:borrowed", n+":ntt", n+":invntt", n+":poly:mul-nsquare", n+":poly:mul-nlogn", n+":roots")
	set := func(v *big.Int) (e E) {
		if err := F(&e).UnmarshalBinary(bf.LE(v, d.size)); err != nil {
			viol("rejected-valid:"+n+".UnmarshalBinary", monPrio, "x", hexBig(v), "err", err)
		}
		return
	}
	get := func(e *E) *big.Int {
		b, err := F(e).MarshalBinary()
		if err != nil || len(b) != d.size {
			viol("wrong-value:"+n+".MarshalBinary", monPrio, "err", err, "len", len(b))
			return new(big.Int)
		}
		v := bf.FromLE(b)
		if v.Cmp(pm) >= 0 {
			viol("non-canonical:"+n+".MarshalBinary", monPrio, "got", b)
		}
		return v
	}
	check := func(op string, got *E, want *big.Int, kv ...any) {
		g := get(got)
		w := set(want)
		if g.Cmp(want) != 0 || !F(got).IsEqual(&w) {
			kv = append(kv, "got", hexBig(g), "want", hexBig(want), "isEqualToCanonical", F(got).IsEqual(&w))
			viol("wrong-residue:"+n+"."+op, monPrio, kv...)
		}
	}

	// ---- roots of unity: root(k) has order exactly 2^k and root(k)^2 = root(k-1)
	{
		var prev *big.Int
		for k := uint(0); k <= d.maxRoot; k++ {
			var w E
			F(&w).SetRootOfUnityTwoN(k)
			wv := get(&w)
			if new(big.Int).Exp(wv, bf.Pow2(int(k)), pm).Cmp(big.NewInt(1)) != 0 {
				viol("wrong-residue:"+n+".SetRootOfUnityTwoN", monPrio, "k", k, "what", "w^(2^k) != 1")
			}
			if k > 0 {
				if new(big.Int).Exp(wv, bf.Pow2(int(k-1)), pm).Cmp(new(big.Int).Sub(pm, big.NewInt(1))) != 0 {
					viol("wrong-residue:"+n+".SetRootOfUnityTwoN", monPrio, "k", k, "what", "w^(2^(k-1)) != -1")
				}
				if bf.Mod(new(big.Int).Mul(wv, wv), pm).Cmp(prev) != 0 {
					viol("wrong-residue:"+n+".SetRootOfUnityTwoN", monPrio, "k", k, "what", "root(k)^2 != root(k-1)")
				}
			}
			prev = wv
			lib.Count(n + ":roots")
			var h E
			F(&h).InvTwoN(k)
			check("InvTwoN", &h, new(big.Int).ModInverse(bf.Mod(bf.Pow2(int(k)), pm), pm), "n", k)
		}
		if p := lib.Try(n+".SetRootOfUnityTwoN", nil, func() { var w E; F(&w).SetRootOfUnityTwoN(d.maxRoot + 1) }); p == nil {
			viol("accepted-out-of-range:"+n+".SetRootOfUnityTwoN", monPrio, "k", d.maxRoot+1)
		}
	}

	bf.Chunks(nTuplesGo(), chunk, func(lo, hi int, c bf.Ctr) {
		for i := lo; i < hi; i++ {
			r := lib.NewRng("c12/"+n, i)
			xv := d.gen.Draw(r)
			yv := related(r, d.gen, xv)
			pat := i % bf.NAlias
			an := bf.AliasName[pat]
			hx, hy := hexBig(xv), hexBig(yv)
			recordCase(i, 16, []byte(n), xv.Bytes(), yv.Bytes(), []byte{byte(pat)})
			c.Inc(n + ":tuples")
			x, y := set(xv), set(yv)
			junk := set(d.gen.Draw(r))
			if get(&x).Cmp(xv) != 0 {
				viol("wrong-value:"+n+".Unmarshal/Marshal", monPrio, "x", hx)
			}
			var m0, m1, m2 E
			mem := [3]*E{&m0, &m1, &m2}
			type binop struct {
				name string
				op   func(z, a, b *E)
				f    func(a, b *big.Int) *big.Int
			}
			for _, o := range []binop{
				{"Add", func(z, a, b *E) { F(z).Add(a, b) }, func(a, b *big.Int) *big.Int { return new(big.Int).Add(a, b) }},
				{"Sub", func(z, a, b *E) { F(z).Sub(a, b) }, func(a, b *big.Int) *big.Int { return new(big.Int).Sub(a, b) }},
				{"Mul", func(z, a, b *E) { F(z).Mul(a, b) }, func(a, b *big.Int) *big.Int { return new(big.Int).Mul(a, b) }},
			} {
				got, _, _, clob := bf.Bin3(pat, mem, x, y, junk, o.op)
				yev := yv
				if pat == bf.AliasXY || pat == bf.AliasZXY {
					yev = xv
				}
				raw := o.f(xv, yev)
				if o.name == "Add" && raw.Cmp(pm) >= 0 {
					c.Inc(n + ":add:wrapped")
				}
				if o.name == "Sub" && raw.Sign() < 0 {
					c.Inc(n + ":sub:borrowed")
				}
				check(o.name, &got, bf.Mod(raw, pm), "x", hx, "y", hexBig(yev), "alias", an)
				if clob {
					viol("operand-modified:"+n+"."+o.name, monPrio, "x", hx, "alias", an)
				}
			}
			// the *Assign forms (z = z op x), also with x aliasing z
			for _, o := range []struct {
				name string
				op   func(z, a *E)
				f    func(a, b *big.Int) *big.Int
			}{
				{"AddAssign", func(z, a *E) { F(z).AddAssign(a) }, func(a, b *big.Int) *big.Int { return new(big.Int).Add(a, b) }},
				{"SubAssign", func(z, a *E) { F(z).SubAssign(a) }, func(a, b *big.Int) *big.Int { return new(big.Int).Sub(a, b) }},
				{"MulAssign", func(z, a *E) { F(z).MulAssign(a) }, func(a, b *big.Int) *big.Int { return new(big.Int).Mul(a, b) }},
			} {
				z, a := x, y
				o.op(&z, &a)
				check(o.name, &z, bf.Mod(o.f(xv, yv), pm), "x", hx, "y", hy)
				if a != y {
					viol("operand-modified:"+n+"."+o.name, monPrio, "x", hx, "y", hy)
				}
				z = x
				o.op(&z, &z)
				check(o.name, &z, bf.Mod(o.f(xv, xv), pm), "x", hx, "alias", "z=x")
			}
			alias := pat == bf.AliasZX || pat == bf.AliasZXY
			got, clob := bf.Un2(alias, mem, x, junk, func(z, a *E) { F(z).Sqr(a) })
			check("Sqr", &got, bf.Mod(new(big.Int).Mul(xv, xv), pm), "x", hx, "alias", alias)
			if clob {
				viol("operand-modified:"+n+".Sqr", monPrio, "x", hx)
			}
			got, clob = bf.Un2(alias, mem, x, junk, func(z, a *E) { F(z).Inv(a) })
			if xv.Sign() == 0 {
				c.Inc(n + ":inv:zero")
				check("Inv", &got, new(big.Int), "x", hx, "alias", alias)
			} else {
				check("Inv", &got, new(big.Int).ModInverse(xv, pm), "x", hx, "alias", alias)
			}
			if clob {
				viol("operand-modified:"+n+".Inv", monPrio, "x", hx)
			}
			// predicates: exact
			if F(&x).IsZero() != (xv.Sign() == 0) {
				viol("wrong-predicate:"+n+".IsZero", monPrio, "x", hx)
			}
			if xv.Sign() == 0 {
				c.Inc(n + ":iszero:true")
			}
			isOne := xv.Cmp(big.NewInt(1)) == 0
			if F(&x).IsOne() != isOne {
				viol("wrong-predicate:"+n+".IsOne", monPrio, "x", hx)
			}
			if isOne {
				c.Inc(n + ":isone:true")
			}
			eq := xv.Cmp(yv) == 0
			if F(&x).IsEqual(&y) != eq {
				viol("wrong-predicate:"+n+".IsEqual", monPrio, "x", hx, "y", hy)
			}
			if eq {
				c.Inc(n + ":isequal:true")
			}
			var zz E
			F(&zz).Sub(&x, &x)
			if !F(&zz).IsZero() {
				viol("wrong-predicate:"+n+".IsZero", monPrio, "x", hx, "what", "x - x")
			}
			var one E
			F(&one).SetOne()
			check("SetOne", &one, big.NewInt(1))
			// SetUint64 / GetUint64 / InvUint64
			w := r.EdgeLimb(1 << 32)
			if i%3 == 0 {
				w = uint64(r.Intn(12))
			} else if xv.IsUint64() && i%3 == 1 {
				w = xv.Uint64()
			}
			wb := new(big.Int).SetUint64(w)
			var u E
			err := F(&u).SetUint64(w)
			if d.u64Bound && wb.Cmp(pm) >= 0 {
				if err == nil {
					viol("accepted-out-of-range:"+n+".SetUint64", monPrio, "n", w)
				}
				c.Inc(n + ":setuint64:rejected")
			} else {
				if err != nil {
					viol("rejected-valid:"+n+".SetUint64", monPrio, "n", w, "err", err)
				} else {
					check("SetUint64", &u, bf.Mod(wb, pm), "n", w)
					if g, err := F(&u).GetUint64(); err != nil || g != w {
						viol("wrong-value:"+n+".GetUint64", monPrio, "n", w, "got", g, "err", err)
					}
					if bf.Mod(wb, pm).Sign() != 0 {
						var iv E
						F(&iv).InvUint64(w)
						check("InvUint64", &iv, new(big.Int).ModInverse(bf.Mod(wb, pm), pm), "n", w)
					}
				}
			}
			if g, err := F(&x).GetUint64(); xv.IsUint64() {
				if err != nil || g != xv.Uint64() {
					viol("wrong-value:"+n+".GetUint64", monPrio, "x", hx, "got", g, "err", err)
				}
			} else if err == nil {
				viol("wrong-value:"+n+".GetUint64-accepted-too-large", monPrio, "x", hx, "got", g)
			}
			// strict decoding
			if i%8 == 0 {
				over := new(big.Int).Add(pm, xv)
				if over.BitLen() <= 8*d.size {
					var u E
					if F(&u).UnmarshalBinary(bf.LE(over, d.size)) == nil {
						viol("accepted-out-of-range:"+n+".UnmarshalBinary", monPrio, "value", hexBig(over))
					} else {
						c.Inc(n + ":unmarshal:rejected>=p")
					}
				}
				var u E
				if F(&u).UnmarshalBinary(bf.LE(xv, d.size)[:d.size-1]) == nil || F(&u).UnmarshalBinary(append(bf.LE(xv, d.size), 0)) == nil {
					viol("accepted-wrong-length:"+n+".UnmarshalBinary", monPrio, "x", hx)
				}
			}
			if i < 2 {
				lib.Sample(monPrio, lib.D("field", n, "x", hx, "y", hy, "alias", an))
			}
		}
	})

	// ---- vectors, polynomials, NTT
	drawVec := func(r *lib.Rng, l int) (V, []*big.Int) {
		v := make(V, l)
		b := make([]*big.Int, l)
		for k := range v {
			b[k] = d.gen.Draw(r)
			v[k] = set(b[k])
		}
		return v, b
	}
	vecEq := func(op string, got V, want []*big.Int, kv ...any) {
		if len(got) != len(want) {
			viol("wrong-length:"+n+"."+op, monPrio, kv...)
			return
		}
		for k := range got {
			if get(&got[k]).Cmp(want[k]) != 0 {
				kv = append(kv, "index", k, "got", hexBig(get(&got[k])), "want", hexBig(want[k]))
				viol("wrong-residue:"+n+"."+op, monPrio, kv...)
				return
			}
			w := set(want[k])
			if !F(&got[k]).IsEqual(&w) {
				viol("non-canonical:"+n+"."+op, monPrio, kv...)
				return
			}
		}
	}
	vecStr := func(b []*big.Int) string {
		s := ""
		for _, v := range b {
			s += v.Text(16) + ","
		}
		return s
	}
	nv := lib.Scale(1500, 60000)
	bf.Chunks(nv, 16, func(lo, hi int, c bf.Ctr) {
		for i := lo; i < hi; i++ {
			r := lib.NewRng("c12/"+n+"/vec", i)
			l := 1 + r.Intn(20)
			a, ab := drawVec(r, l)
			b, bb := drawVec(r, l)
			recordCase(i, 10, []byte(n+"/vec"), []byte(vecStr(ab)), []byte(vecStr(bb)))
			sa, sb := vecStr(ab), vecStr(bb)
			want := make([]*big.Int, l)
			// AddAssign / SubAssign / ScalarMul / DotProduct
			z := append(V(nil), a...)
			z.AddAssign(b)
			for k := range want {
				want[k] = bf.Mod(new(big.Int).Add(ab[k], bb[k]), pm)
			}
			vecEq("Vec.AddAssign", z, want, "a", sa, "b", sb)
			z = append(V(nil), a...)
			z.SubAssign(b)
			for k := range want {
				want[k] = bf.Mod(new(big.Int).Sub(ab[k], bb[k]), pm)
			}
			vecEq("Vec.SubAssign", z, want, "a", sa, "b", sb)
			z = append(V(nil), a...)
			z.AddAssign(z)
			for k := range want {
				want[k] = bf.Mod(new(big.Int).Add(ab[k], ab[k]), pm)
			}
			vecEq("Vec.AddAssign", z, want, "a", sa, "alias", "x=z")
			sv := d.gen.Draw(r)
			s := set(sv)
			z = append(V(nil), a...)
			z.ScalarMul(&s)
			for k := range want {
				want[k] = bf.Mod(new(big.Int).Mul(ab[k], sv), pm)
			}
			vecEq("Vec.ScalarMul", z, want, "a", sa, "s", hexBig(sv))
			dp := a.DotProduct(b)
			acc := new(big.Int)
			for k := range ab {
				acc.Add(acc, new(big.Int).Mul(ab[k], bb[k]))
			}
			check("Vec.DotProduct", &dp, bf.Mod(acc, pm), "a", sa, "b", sb)
			// SplitBits / JoinBits
			w := r.EdgeLimb(0)
			if r.Bool() {
				w >>= uint(r.Intn(64))
			}
			bl := new(big.Int).SetUint64(w).BitLen()
			bits := make(V, bl+r.Intn(3))
			for k := range bits {
				bits[k] = s // stale contents must not matter
			}
			if err := bits.SplitBits(w); err != nil {
				viol("rejected-valid:"+n+".Vec.SplitBits", monPrio, "n", w, "len", len(bits))
			} else {
				for k := range bits {
					if get(&bits[k]).Uint64() != (w>>uint(k))&1 {
						viol("wrong-value:"+n+".Vec.SplitBits", monPrio, "n", w, "index", k)
						break
					}
				}
				j := bits.JoinBits()
				check("Vec.JoinBits", &j, bf.Mod(new(big.Int).SetUint64(w), pm), "n", w)
			}
			if bl > 0 {
				short := make(V, bl-1)
				if short.SplitBits(w) == nil {
					viol("accepted-out-of-range:"+n+".Vec.SplitBits", monPrio, "n", w, "len", bl-1)
				}
			}
			jb := a.JoinBits() // defined for any vector: sum 2^i a[i]
			acc.SetInt64(0)
			for k := range ab {
				acc.Add(acc, new(big.Int).Lsh(ab[k], uint(k)))
			}
			check("Vec.JoinBits", &jb, bf.Mod(acc, pm), "a", sa)
			// Marshal / Unmarshal
			mb, err := a.MarshalBinary()
			var wantb []byte
			for k := range ab {
				wantb = append(wantb, bf.LE(ab[k], d.size)...)
			}
			if err != nil || !lib.Eq(mb, wantb) {
				viol("non-canonical:"+n+".Vec.MarshalBinary", monPrio, "a", sa, "err", err)
			}
			back := make(V, l)
			if err := back.UnmarshalBinary(wantb); err != nil {
				viol("rejected-valid:"+n+".Vec.UnmarshalBinary", monPrio, "a", sa, "err", err)
			} else {
				vecEq("Vec.UnmarshalBinary", back, ab, "a", sa)
			}
			// polynomials
			px, pxb := drawVec(r, 1+r.Intn(12))
			py, pyb := drawVec(r, 1+r.Intn(12))
			if i%64 == 0 { // the NTT-based product
				px, pxb = drawVec(r, 60+r.Intn(80))
				py, pyb = drawVec(r, 70+r.Intn(80))
			}
			prodWant := make([]*big.Int, len(pxb)+len(pyb)-1)
			for k := range prodWant {
				prodWant[k] = new(big.Int)
			}
			for k := range pxb {
				for j := range pyb {
					prodWant[k+j].Add(prodWant[k+j], new(big.Int).Mul(pxb[k], pyb[j]))
				}
			}
			for k := range prodWant {
				prodWant[k].Mod(prodWant[k], pm)
			}
			pz := make(P, len(prodWant))
			for k := range pz {
				pz[k] = s // stale
			}
			pz.Mul(P(px), P(py))
			vecEq("Poly.Mul", V(pz), prodWant, "x", vecStr(pxb), "y", vecStr(pyb))
			if len(prodWant) < 128 {
				c.Inc(n + ":poly:mul-nsquare")
			} else {
				c.Inc(n + ":poly:mul-nlogn")
			}
			sq := make(P, 2*len(px)-1)
			for k := range sq {
				sq[k] = s
			}
			sq.Sqr(P(px))
			sqWant := make([]*big.Int, 2*len(pxb)-1)
			for k := range sqWant {
				sqWant[k] = new(big.Int)
			}
			for k := range pxb {
				for j := range pxb {
					sqWant[k+j].Add(sqWant[k+j], new(big.Int).Mul(pxb[k], pxb[j]))
				}
			}
			for k := range sqWant {
				sqWant[k].Mod(sqWant[k], pm)
			}
			vecEq("Poly.Sqr", V(sq), sqWant, "x", vecStr(pxb))
			ev := P(px).Evaluate(&s)
			acc.SetInt64(0)
			for k := len(pxb) - 1; k >= 0; k-- {
				acc.Mul(acc, sv).Add(acc, pxb[k]).Mod(acc, pm)
			}
			check("Poly.Evaluate", &ev, acc, "x", vecStr(pxb), "at", hexBig(sv))
			var empty P
			e0 := empty.Evaluate(&s)
			check("Poly.Evaluate", &e0, new(big.Int), "x", "empty")
			// Strip
			hz := r.Intn(4)
			ps := append(P(nil), P(px)...)
			var zero E
			for k := 0; k < hz && k < len(ps); k++ {
				ps[len(ps)-1-k] = zero
			}
			wl := len(ps)
			for wl > 0 && F(&ps[wl-1]).IsZero() {
				wl--
			}
			if st := ps.Strip(); len(st) != wl {
				viol("wrong-value:"+n+".Poly.Strip", monPrio, "len", len(st), "want", wl)
			}
			// ---- NTT / InvNTT against the definition with the package's own root of unity
			logN := uint(r.Intn(7))
			if i%97 == 0 {
				logN = 7 + uint(r.Intn(3))
			}
			N := 1 << logN
			var wE E
			F(&wE).SetRootOfUnityTwoN(logN)
			wv := get(&wE)
			vl := N
			if r.Intn(4) == 0 {
				vl = 1 + r.Intn(N) // fewer values than points: the polynomial is zero padded
			}
			vals, vb := drawVec(r, vl)
			out := make(V, N) // zero destination, as Poly.MulNlogN uses it
			out.NTT(vals, uint(N))
			wantN := make([]*big.Int, N)
			wi := big.NewInt(1)
			for k := 0; k < N; k++ {
				a := new(big.Int)
				for j := vl - 1; j >= 0; j-- {
					a.Mul(a, wi).Add(a, vb[j]).Mod(a, pm)
				}
				wantN[k] = a
				wi = bf.Mod(new(big.Int).Mul(wi, wv), pm)
			}
			vecEq("Vec.NTT", out, wantN, "logN", logN, "values", vecStr(vb))
			c.Inc(n + ":ntt")
			out2 := make(V, N)
			out2.InvNTT(vals, uint(N))
			wantI := make([]*big.Int, N)
			wantI[0] = wantN[0]
			for k := 1; k < N; k++ {
				wantI[k] = wantN[N-k] // evaluation at w^-k
			}
			vecEq("Vec.InvNTT", out2, wantI, "logN", logN, "values", vecStr(vb))
			c.Inc(n + ":invntt")
			if vl == N { // InvNTT(NTT(v)) = N v
				out3 := make(V, N)
				out3.InvNTT(out, uint(N))
				for k := range wantI {
					wantI[k] = bf.Mod(new(big.Int).Mul(vb[k], big.NewInt(int64(N))), pm)
				}
				vecEq("Vec.InvNTT-of-NTT", out3, wantI, "logN", logN)
			}
		}
	})
}
