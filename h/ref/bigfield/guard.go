//go:build verif

package bigfield

import (
	"sync"
	"sync/atomic"
	"unsafe"

	"github.com/cloudflare/circl/internal/zzverif/lib"
)

// Guarded operand memory for assembly-backed fields: three buffers of the
// element size, each flush against a PROT_NONE page (two thirds at the end of
// the accessible window, one third at its start), so any access outside the
// element faults and is reported by lib.Try.

// GMem is one set of three guarded operand locations.
type GMem struct {
	g   [3]*lib.Guarded
	Buf [3][]byte
}

var gcount int64

// GPool hands out GMem sets.
type GPool struct {
	size int
	p    sync.Pool
}

// NewGPool returns a pool for elements of size bytes.
func NewGPool(size int) *GPool {
	gp := &GPool{size: size}
	gp.p.New = func() any {
		k := atomic.AddInt64(&gcount, 1)
		m := &GMem{}
		for i := 0; i < 3; i++ {
			atEnd := (int(k)+i)%3 != 0
			m.g[i] = lib.NewGuarded(size, atEnd)
			m.Buf[i] = m.g[i].Buf
		}
		return m
	}
	return gp
}

func (gp *GPool) Get() *GMem  { return gp.p.Get().(*GMem) }
func (gp *GPool) Put(m *GMem) { gp.p.Put(m) }

// Ptr is the address of a buffer.
func Ptr(b []byte) unsafe.Pointer { return unsafe.Pointer(&b[0]) }

// Bin3B runs z = op(x, y) on guarded memory under aliasing pattern pat and
// returns the result, the effective second operand and whether an operand
// that is not the destination was modified.
func Bin3B(pat int, m *GMem, x, y, junk []byte, op func(z, x, y unsafe.Pointer)) (res, ye []byte, clobber bool) {
	pz, px, py := m.Buf[0], m.Buf[1], m.Buf[2]
	copy(pz, junk)
	copy(px, x)
	copy(py, y)
	ye = y
	switch pat {
	case AliasZX:
		pz = px
	case AliasZY:
		pz = py
	case AliasXY:
		py = px
		ye = x
	case AliasZXY:
		pz, py = px, px
		ye = x
	}
	op(Ptr(pz), Ptr(px), Ptr(py))
	res = lib.Clone(pz)
	if &px[0] != &pz[0] && !lib.Eq(px, x) {
		clobber = true
	}
	if &py[0] != &pz[0] && !lib.Eq(py, ye) {
		clobber = true
	}
	return
}

// Un2B runs z = op(x) with or without z aliasing x.
func Un2B(alias bool, m *GMem, x, junk []byte, op func(z, x unsafe.Pointer)) (res []byte, clobber bool) {
	pz, px := m.Buf[0], m.Buf[1]
	copy(pz, junk)
	copy(px, x)
	if alias {
		pz = px
	}
	op(Ptr(pz), Ptr(px))
	res = lib.Clone(pz)
	if !alias && !lib.Eq(px, x) {
		clobber = true
	}
	return
}
