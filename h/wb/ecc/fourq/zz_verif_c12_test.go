//go:build verif

// C12 white-box monitor of the FourQ fields GF(2^127-1) and GF((2^127-1)^2).
// Operands are what the package can produce: 128-bit strings with the top bit
// clear, i.e. [0, 2^127) - which includes p itself as a second representation
// of zero.  Results are compared as residues and must stay inside [0, 2^127);
// fpMod / isZero / toBytes / toBigInt are checked exactly.
package fourq

import (
	"math/big"
	"testing"
	"unsafe"

	bf "github.com/cloudflare/circl/internal/zzverif/ref/bigfield"

	"github.com/cloudflare/circl/internal/zzverif/lib"
)

const vc12Mon = "TestVerifC12FourQField"

var vc12P = new(big.Int).Sub(bf.Pow2(127), big.NewInt(1))

func vc12Fp(p unsafe.Pointer) *Fp { return (*Fp)(p) }
func vc12Fq(p unsafe.Pointer) *Fq { return (*Fq)(p) }

func vc12Viol(key string, kv ...any) { lib.Violation("C12:"+key, vc12Mon, lib.D(kv...)) }

// vc12Q2 is a + b i with i^2 = -1 over math/big.
type vc12Q2 [2]*big.Int

func vc12QMul(a, b vc12Q2) vc12Q2 {
	t0 := new(big.Int).Mul(a[0], b[0])
	t0.Sub(t0, new(big.Int).Mul(a[1], b[1]))
	t1 := new(big.Int).Mul(a[0], b[1])
	t1.Add(t1, new(big.Int).Mul(a[1], b[0]))
	return vc12Q2{t0.Mod(t0, vc12P), t1.Mod(t1, vc12P)}
}

func vc12QEq(a, b vc12Q2) bool { return a[0].Cmp(b[0]) == 0 && a[1].Cmp(b[1]) == 0 }

func vc12FqBytes(a vc12Q2) []byte { return append(bf.LE(a[0], SizeFp), bf.LE(a[1], SizeFp)...) }

func vc12FqVal(b []byte) vc12Q2 {
	return vc12Q2{bf.Mod(bf.FromLE(b[:SizeFp]), vc12P), bf.Mod(bf.FromLE(b[SizeFp:]), vc12P)}
}

func vc12InRange(b []byte) bool { return b[SizeFp-1]>>7 == 0 && (len(b) == SizeFp || b[2*SizeFp-1]>>7 == 0) }

func vc12Sgn(v *big.Int) int { // sign convention of fpSgn on the canonical value
	if v.Sign() == 0 {
		return 0
	}
	if v.Bit(126) == 1 {
		return -1
	}
	return 1
}

func TestVerifC12FourQField(t *testing.T) {
	pm := vc12P
	if bf.FromLE(modulusP[:]).Cmp(pm) != 0 {
		t.Fatal("fourq: modulus differs from the oracle's")
	}
	lib.Flag("fourq.hasBMI2", vc12HasBMI2())
	// the three arithmetic back-ends are separate code: name the one that ran in the finding key
	be := ":" + vc12Backend()
	lib.Flag("fourq.backend", vc12Backend())
	n := "fourq"
	lib.Mandatory(n+":fp:tuples", n+":fq:tuples", n+":fp:operand=p", n+":fp:add:wrapped", n+":fp:sub:borrowed", n+":fp:inv:zero-class",
		n+":fp:iszero:true-noncanonical", n+":fq:sqrt:square", n+":fq:sqrt:nonsquare(unspecified)", n+":fq:inv:zero", n+":fp:hlf:odd")
	// raw operands live in [0, 2^127]: Gen over 128 bits then clear the top bit
	gen := &bf.Gen{P: pm, Bits: 128, C: 1, Extra: []*big.Int{bf.Pow2(126), bf.Pow2(64), new(big.Int).Sub(bf.Pow2(126), big.NewInt(1)), new(big.Int).Sub(bf.Pow2(64), big.NewInt(1))}}
	draw := func(r *lib.Rng) *big.Int {
		v := gen.Raw(r)
		if r.Intn(16) == 0 {
			return new(big.Int).Set(pm) // the non-canonical zero
		}
		if v.Bit(127) == 1 {
			v.SetBit(v, 127, 0)
		}
		return v
	}
	rel := func(r *lib.Rng, x *big.Int) *big.Int {
		v := new(big.Int)
		switch r.Intn(10) {
		case 0:
			return new(big.Int).Set(x)
		case 1:
			v.Sub(pm, x).Add(v, big.NewInt(int64(r.Intn(3)-1)))
		case 2:
			v.Sub(bf.Pow2(127), x).Add(v, big.NewInt(int64(r.Intn(3)-1)))
		case 3:
			v.Add(x, big.NewInt(int64(r.Intn(3)-1)))
		case 4:
			y := gen.Partner(r, x, big.NewInt(1))
			if y == nil {
				return draw(r)
			}
			return y
		default:
			return draw(r)
		}
		if v.Sign() < 0 || v.BitLen() > 127 {
			return draw(r)
		}
		return v
	}
	le := func(v *big.Int) []byte { return bf.LE(v, SizeFp) }
	poolP := bf.NewGPool(SizeFp)
	poolQ := bf.NewGPool(2 * SizeFp)
	total := lib.Scale(20000, 2000000)

	// ---------------- Fp
	bf.Chunks(total, 256, func(lo, hi int, c bf.Ctr) {
		m := poolP.Get()
		defer poolP.Put(m)
		for i := lo; i < hi; i++ {
			r := lib.NewRng("c12/fourq/fp", i)
			xv := draw(r)
			yv := rel(r, xv)
			pat := i % bf.NAlias
			an := bf.AliasName[pat]
			x, y, junk := le(xv), le(yv), r.Bytes(SizeFp)
			if !lib.Thorough() || i%8 == 0 {
				lib.Distinct([]byte("fourq/fp"), x, y, []byte{byte(pat)})
			}
			c.Add("evaluations", 12)
			c.Inc(n + ":fp:tuples")
			if xv.Cmp(pm) == 0 || yv.Cmp(pm) == 0 {
				c.Inc(n + ":fp:operand=p")
			}
			in := append(append(lib.Clone(x), y...), byte(pat))
			pn := lib.Try("fourq.fp", in, func() {
				type binop struct {
					name string
					op   func(z, a, b unsafe.Pointer)
					f    func(a, b *big.Int) *big.Int
				}
				for _, o := range []binop{
					{"fpAdd", func(z, a, b unsafe.Pointer) { fpAdd(vc12Fp(z), vc12Fp(a), vc12Fp(b)) }, func(a, b *big.Int) *big.Int { return new(big.Int).Add(a, b) }},
					{"fpSub", func(z, a, b unsafe.Pointer) { fpSub(vc12Fp(z), vc12Fp(a), vc12Fp(b)) }, func(a, b *big.Int) *big.Int { return new(big.Int).Sub(a, b) }},
					{"fpMul", func(z, a, b unsafe.Pointer) { fpMul(vc12Fp(z), vc12Fp(a), vc12Fp(b)) }, func(a, b *big.Int) *big.Int { return new(big.Int).Mul(a, b) }},
				} {
					got, ye, clob := bf.Bin3B(pat, m, x, y, junk, o.op)
					yev := bf.FromLE(ye)
					raw := o.f(xv, yev)
					if o.name == "fpAdd" && raw.Cmp(pm) >= 0 {
						c.Inc(n + ":fp:add:wrapped")
					}
					if o.name == "fpSub" && raw.Sign() < 0 {
						c.Inc(n + ":fp:sub:borrowed")
					}
					want := bf.Mod(raw, pm)
					if bf.Mod(bf.FromLE(got), pm).Cmp(want) != 0 {
						vc12Viol("wrong-residue:fourq."+o.name+be, "x", x, "y", ye, "alias", an, "got", got, "want", le(want))
					} else if !vc12InRange(got) {
						vc12Viol("unreduced-output:fourq."+o.name+be, "x", x, "y", ye, "alias", an, "got", got)
					}
					if clob {
						vc12Viol("operand-modified:fourq."+o.name, "x", x, "y", ye, "alias", an)
					}
				}
				alias := pat == bf.AliasZX || pat == bf.AliasZXY
				half := new(big.Int).ModInverse(big.NewInt(2), pm)
				type unop struct {
					name string
					op   func(z, a unsafe.Pointer)
					f    func(a *big.Int) *big.Int
				}
				for _, o := range []unop{
					{"fpSqr", func(z, a unsafe.Pointer) { fpSqr(vc12Fp(z), vc12Fp(a)) }, func(a *big.Int) *big.Int { return new(big.Int).Mul(a, a) }},
					{"fpNeg", func(z, a unsafe.Pointer) { fpNeg(vc12Fp(z), vc12Fp(a)) }, func(a *big.Int) *big.Int { return new(big.Int).Neg(a) }},
					{"fpHlf", func(z, a unsafe.Pointer) { fpHlf(vc12Fp(z), vc12Fp(a)) }, func(a *big.Int) *big.Int { return new(big.Int).Mul(a, half) }},
					{"fpInv", func(z, a unsafe.Pointer) { fpInv(vc12Fp(z), vc12Fp(a)) }, func(a *big.Int) *big.Int {
						ar := bf.Mod(a, pm)
						if ar.Sign() == 0 {
							return new(big.Int)
						}
						return ar.ModInverse(ar, pm)
					}},
				} {
					got, clob := bf.Un2B(alias, m, x, junk, o.op)
					want := bf.Mod(o.f(xv), pm)
					if bf.Mod(bf.FromLE(got), pm).Cmp(want) != 0 {
						vc12Viol("wrong-residue:fourq."+o.name+be, "x", x, "alias", alias, "got", got, "want", le(want))
					} else if !vc12InRange(got) {
						vc12Viol("unreduced-output:fourq."+o.name+be, "x", x, "alias", alias, "got", got)
					}
					if clob {
						vc12Viol("operand-modified:fourq."+o.name, "x", x)
					}
				}
				if xv.Bit(0) == 1 {
					c.Inc(n + ":fp:hlf:odd")
				}
				xr := bf.Mod(xv, pm)
				if xr.Sign() == 0 {
					c.Inc(n + ":fp:inv:zero-class")
				}
				// canonicalising operations: exact
				canon := le(xr)
				px := m.Buf[1]
				copy(px, x)
				fpMod(vc12Fp(bf.Ptr(px)))
				if !lib.Eq(px, canon) {
					vc12Viol("non-canonical:fourq.fpMod", "x", x, "got", lib.Clone(px))
				}
				copy(px, x)
				if vc12Fp(bf.Ptr(px)).isZero() != (xr.Sign() == 0) {
					vc12Viol("wrong-predicate:fourq.Fp.isZero", "x", x)
				}
				if xr.Sign() == 0 && xv.Sign() != 0 {
					c.Inc(n + ":fp:iszero:true-noncanonical")
				}
				copy(px, x)
				if g := vc12Fp(bf.Ptr(px)).toBigInt(); g.Cmp(xr) != 0 {
					vc12Viol("non-canonical:fourq.Fp.toBigInt", "x", x, "got", g.String())
				}
				copy(px, x)
				out := make([]byte, SizeFp)
				vc12Fp(bf.Ptr(px)).toBytes(out)
				if !lib.Eq(out, canon) {
					vc12Viol("non-canonical:fourq.Fp.toBytes", "x", x, "got", out)
				}
				copy(px, x)
				if g := fpSgn(vc12Fp(bf.Ptr(px))); g != vc12Sgn(xr) {
					vc12Viol("wrong-predicate:fourq.fpSgn", "x", x, "got", g, "want", vc12Sgn(xr))
				}
				var e Fp
				e.setBigInt(xv)
				if !lib.Eq(e[:], canon) {
					vc12Viol("non-canonical:fourq.Fp.setBigInt", "x", x, "got", e[:])
				}
				// p itself (the second representation of zero) may be refused by the decoder
				// (that is C09's concern); anything it accepts must come out canonical
				if ok := e.fromBytes(x); ok && !lib.Eq(e[:], canon) || !ok && xv.Cmp(pm) != 0 {
					vc12Viol("wrong-value:fourq.Fp.fromBytes", "x", x, "ok", ok, "got", e[:])
				} else if !ok {
					c.Inc(n + ":fp:frombytes:p-refused")
				}
			})
			if pn != nil {
				vc12Viol("panic:fourq.fp", "x", x, "y", y, "alias", an, "panic", pn.Value, "frame", pn.TopFrame())
			}
			if i < 2 {
				lib.Sample(vc12Mon, lib.D("field", "Fp", "x", x, "y", y, "alias", an))
			}
		}
	})

	// ---------------- Fq
	drawQ := func(r *lib.Rng) vc12Q2 {
		switch r.Intn(8) {
		case 0:
			return vc12Q2{draw(r), new(big.Int)}
		case 1:
			return vc12Q2{new(big.Int), draw(r)}
		case 2:
			return vc12Q2{new(big.Int), new(big.Int)}
		case 3:
			return vc12Q2{new(big.Int).Set(pm), new(big.Int).Set(pm)}
		}
		return vc12Q2{draw(r), draw(r)}
	}
	// fixed operands first (each under the five aliasing patterns): i, -i, 2^64 i, ...
	p1 := new(big.Int).Sub(pm, big.NewInt(1))
	fixed := []vc12Q2{
		{new(big.Int), bf.Pow2(64)}, {new(big.Int), p1}, {new(big.Int), big.NewInt(1)}, {p1, new(big.Int)}, {p1, p1},
		{new(big.Int), new(big.Int).Sub(pm, bf.Pow2(64))}, {bf.Pow2(64), bf.Pow2(126)}, {new(big.Int), bf.Pow2(126)},
	}
	red := func(a vc12Q2) vc12Q2 { return vc12Q2{bf.Mod(a[0], pm), bf.Mod(a[1], pm)} }
	bf.Chunks(total, 256, func(lo, hi int, c bf.Ctr) {
		m := poolQ.Get()
		defer poolQ.Put(m)
		for i := lo; i < hi; i++ {
			r := lib.NewRng("c12/fourq/fq", i)
			xa := drawQ(r)
			var ya vc12Q2
			if i < 5*len(fixed) {
				xa = vc12Q2{new(big.Int).Set(fixed[i/5][0]), new(big.Int).Set(fixed[i/5][1])}
			}
			switch r.Intn(8) {
			case 7:
				if i < 5*len(fixed) {
					ya = vc12Q2{new(big.Int).Set(xa[0]), new(big.Int).Set(xa[1])}
					break
				}
				ya = drawQ(r)
			case 0:
				ya = vc12Q2{new(big.Int).Set(xa[0]), new(big.Int).Set(xa[1])}
			case 1:
				ya = vc12Q2{rel(r, xa[0]), rel(r, xa[1])}
			default:
				ya = drawQ(r)
			}
			pat := i % bf.NAlias
			an := bf.AliasName[pat]
			x, y, junk := vc12FqBytes(xa), vc12FqBytes(ya), r.Bytes(2*SizeFp)
			if !lib.Thorough() || i%8 == 0 {
				lib.Distinct([]byte("fourq/fq"), x, y, []byte{byte(pat)})
			}
			c.Add("evaluations", 9)
			c.Inc(n + ":fq:tuples")
			xr, yr := red(xa), red(ya)
			in := append(append(lib.Clone(x), y...), byte(pat))
			pn := lib.Try("fourq.fq", in, func() {
				type binop struct {
					name string
					op   func(z, a, b unsafe.Pointer)
					f    func(a, b vc12Q2) vc12Q2
				}
				for _, o := range []binop{
					{"fqAdd", func(z, a, b unsafe.Pointer) { fqAdd(vc12Fq(z), vc12Fq(a), vc12Fq(b)) }, func(a, b vc12Q2) vc12Q2 {
						return vc12Q2{bf.Mod(new(big.Int).Add(a[0], b[0]), pm), bf.Mod(new(big.Int).Add(a[1], b[1]), pm)}
					}},
					{"fqSub", func(z, a, b unsafe.Pointer) { fqSub(vc12Fq(z), vc12Fq(a), vc12Fq(b)) }, func(a, b vc12Q2) vc12Q2 {
						return vc12Q2{bf.Mod(new(big.Int).Sub(a[0], b[0]), pm), bf.Mod(new(big.Int).Sub(a[1], b[1]), pm)}
					}},
					{"fqMul", func(z, a, b unsafe.Pointer) { fqMul(vc12Fq(z), vc12Fq(a), vc12Fq(b)) }, vc12QMul},
				} {
					got, ye, clob := bf.Bin3B(pat, m, x, y, junk, o.op)
					want := o.f(xr, vc12FqVal(ye))
					if !vc12QEq(vc12FqVal(got), want) {
						vc12Viol("wrong-residue:fourq."+o.name+be, "x", x, "y", ye, "alias", an, "got", got, "want", vc12FqBytes(want))
					} else if !vc12InRange(got) {
						vc12Viol("unreduced-output:fourq."+o.name+be, "x", x, "y", ye, "alias", an, "got", got)
					}
					if clob {
						vc12Viol("operand-modified:fourq."+o.name, "x", x, "y", ye, "alias", an)
					}
				}
				alias := pat == bf.AliasZX || pat == bf.AliasZXY
				type unop struct {
					name string
					op   func(z, a unsafe.Pointer)
					f    func(a vc12Q2) vc12Q2
				}
				for _, o := range []unop{
					{"fqSqr", func(z, a unsafe.Pointer) { fqSqr(vc12Fq(z), vc12Fq(a)) }, func(a vc12Q2) vc12Q2 { return vc12QMul(a, a) }},
					{"fqNeg", func(z, a unsafe.Pointer) { fqNeg(vc12Fq(z), vc12Fq(a)) }, func(a vc12Q2) vc12Q2 {
						return vc12Q2{bf.Mod(new(big.Int).Neg(a[0]), pm), bf.Mod(new(big.Int).Neg(a[1]), pm)}
					}},
					{"fqCopy", func(z, a unsafe.Pointer) { fqCopy(vc12Fq(z), vc12Fq(a)) }, func(a vc12Q2) vc12Q2 { return a }},
				} {
					got, clob := bf.Un2B(alias, m, x, junk, o.op)
					want := o.f(xr)
					if !vc12QEq(vc12FqVal(got), want) {
						vc12Viol("wrong-residue:fourq."+o.name+be, "x", x, "alias", alias, "got", got, "want", vc12FqBytes(want))
					} else if !vc12InRange(got) {
						vc12Viol("unreduced-output:fourq."+o.name+be, "x", x, "alias", alias, "got", got)
					}
					if clob {
						vc12Viol("operand-modified:fourq."+o.name, "x", x)
					}
				}
				// fqInv by its relation
				got, clob := bf.Un2B(alias, m, x, junk, func(z, a unsafe.Pointer) { fqInv(vc12Fq(z), vc12Fq(a)) })
				if clob {
					vc12Viol("operand-modified:fourq.fqInv", "x", x)
				}
				isZ := xr[0].Sign() == 0 && xr[1].Sign() == 0
				if isZ {
					c.Inc(n + ":fq:inv:zero")
					if g := vc12FqVal(got); g[0].Sign() != 0 || g[1].Sign() != 0 {
						vc12Viol("wrong-residue:fourq.fqInv", "x", x, "got", got, "note", "inverse of zero")
					}
				} else if pr := vc12QMul(vc12FqVal(got), xr); pr[0].Cmp(big.NewInt(1)) != 0 || pr[1].Sign() != 0 {
					vc12Viol("wrong-residue:fourq.fqInv", "x", x, "alias", alias, "got", got)
				} else if !vc12InRange(got) {
					vc12Viol("unreduced-output:fourq.fqInv", "x", x, "got", got)
				}
				// fqCmov: exact
				for b := 0; b < 2; b++ {
					px, py := m.Buf[1], m.Buf[2]
					copy(px, x)
					copy(py, y)
					fqCmov(vc12Fq(bf.Ptr(px)), vc12Fq(bf.Ptr(py)), b)
					w := x
					if b == 1 {
						w = y
					}
					if !lib.Eq(px, w) || !lib.Eq(py, y) {
						vc12Viol("wrong-value:fourq.fqCmov", "x", x, "y", y, "b", b, "got", lib.Clone(px))
					}
				}
				// isZero / toBytes / fqSgn / setOne / setZero
				px := m.Buf[1]
				copy(px, x)
				if vc12Fq(bf.Ptr(px)).isZero() != isZ {
					vc12Viol("wrong-predicate:fourq.Fq.isZero", "x", x)
				}
				copy(px, x)
				out := make([]byte, 2*SizeFp)
				vc12Fq(bf.Ptr(px)).toBytes(out)
				if !lib.Eq(out, vc12FqBytes(xr)) {
					vc12Viol("non-canonical:fourq.Fq.toBytes", "x", x, "got", out)
				}
				copy(px, x)
				ws := vc12Sgn(xr[0])
				if ws == 0 {
					ws = vc12Sgn(xr[1])
				}
				if g := fqSgn(vc12Fq(bf.Ptr(px))); g != ws {
					vc12Viol("wrong-predicate:fourq.fqSgn", "x", x, "got", g, "want", ws)
				}
				var e Fq
				hasP := xa[0].Cmp(pm) == 0 || xa[1].Cmp(pm) == 0
				if ok := e.fromBytes(x); ok && !lib.Eq(append(lib.Clone(e[0][:]), e[1][:]...), vc12FqBytes(xr)) || !ok && !hasP {
					vc12Viol("wrong-value:fourq.Fq.fromBytes", "x", x, "ok", ok)
				}
				e.setOne()
				if g := vc12FqVal(append(lib.Clone(e[0][:]), e[1][:]...)); g[0].Cmp(big.NewInt(1)) != 0 || g[1].Sign() != 0 {
					vc12Viol("wrong-value:fourq.Fq.setOne")
				}
				// fqSqrt(c, u, v, s): c = sqrt(u/v) (up to conjugation, see below) with sgn(c) = s, judged by that relation
				if yr[0].Sign() != 0 || yr[1].Sign() != 0 {
					s := 1 - 2*r.Intn(2)
					var cc Fq
					pu, pv := m.Buf[1], m.Buf[2]
					copy(pu, x)
					copy(pv, y)
					fqSqrt(&cc, vc12Fq(bf.Ptr(pu)), vc12Fq(bf.Ptr(pv)), s)
					if !lib.Eq(pu, x) || !lib.Eq(pv, y) {
						vc12Viol("operand-modified:fourq.fqSqrt", "u", x, "v", y)
					}
					// u/v is a square iff N(u) N(v) is a square in Fp (or u = 0)
					nu := new(big.Int).Add(new(big.Int).Mul(xr[0], xr[0]), new(big.Int).Mul(xr[1], xr[1]))
					nv := new(big.Int).Add(new(big.Int).Mul(yr[0], yr[0]), new(big.Int).Mul(yr[1], yr[1]))
					nn := bf.Mod(nu.Mul(nu, nv), pm)
					if isZ || big.Jacobi(nn, pm) == 1 {
						c.Inc(n + ":fq:sqrt:square")
						cb := append(lib.Clone(cc[0][:]), cc[1][:]...)
						cv := vc12FqVal(cb)
						// The only caller (Point.Unmarshal) conjugates the result when it is not the
						// root it needs: fqSqrt delivers sqrt(u/v) up to conjugation, as FourQlib does.
						cj := vc12Q2{cv[0], bf.Mod(new(big.Int).Neg(cv[1]), pm)}
						direct := vc12QEq(vc12QMul(vc12QMul(cv, cv), yr), xr)
						if !direct && !vc12QEq(vc12QMul(vc12QMul(cj, cj), yr), xr) {
							vc12Viol("wrong-residue:fourq.fqSqrt", "u", x, "v", y, "s", s, "got", cb)
						} else {
							if direct {
								c.Inc(n + ":fq:sqrt:direct")
							} else {
								c.Inc(n + ":fq:sqrt:conjugate")
							}
							gs := vc12Sgn(cv[0])
							if gs == 0 {
								gs = vc12Sgn(cv[1])
							}
							if gs != 0 && gs != s {
								vc12Viol("wrong-predicate:fourq.fqSqrt-sign", "u", x, "v", y, "s", s, "got", cb)
							}
						}
					} else {
						c.Inc(n + ":fq:sqrt:nonsquare(unspecified)")
					}
				}
			})
			if pn != nil {
				vc12Viol("panic:fourq.fq", "x", x, "y", y, "alias", an, "panic", pn.Value, "frame", pn.TopFrame())
			}
			if i < 2 {
				lib.Sample(vc12Mon, lib.D("field", "Fq", "x", x, "y", y, "alias", an))
			}
		}
	})
}
