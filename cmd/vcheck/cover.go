package main

// Coverage accounting ("paths the workload never drives", DESIGN 0 and 1.5):
// with --cover (implied by the thorough tier) every unit is additionally
// built with -cover -coverpkg=<packages of the property's anchor files> and
// run once under the configuration "cover".  The profiles are merged and the
// evidence lists, per anchor file, how many statements the monitors'
// workload executed and which functions it never entered.  This is
// accounting, not an oracle: it never produces a violation, only the
// "anchor_coverage" section of the evidence file and - when not a single
// statement of any anchor file was executed - an inconclusive verdict.

import (
	"bufio"
	"encoding/json"
	"fmt"
	"go/ast"
	"go/parser"
	"go/token"
	"os"
	"os/exec"
	"path/filepath"
	"sort"
	"strconv"
	"strings"
)

const modPath = "github.com/cloudflare/circl"

type propRec struct {
	ID      string `json:"id"`
	Anchors struct {
		Files []string `json:"files"`
	} `json:"anchors"`
}

// anchorFiles returns the anchor file list of a property from properties.jsonl.
func anchorFiles(id string) []string {
	f, err := os.Open(filepath.Join(verifRoot, "properties.jsonl"))
	if err != nil {
		return nil
	}
	defer f.Close()
	sc := bufio.NewScanner(f)
	sc.Buffer(make([]byte, 1<<20), 1<<24)
	for sc.Scan() {
		var p propRec
		if json.Unmarshal(sc.Bytes(), &p) == nil && p.ID == id {
			return p.Anchors.Files
		}
	}
	return nil
}

// anchorGoFiles expands the anchor list to existing .go files (a directory
// or a glob such as kem/mlkem/*/kyber.go stands for its .go files).
func anchorGoFiles(id string) (gofiles []string, other []string) {
	seen := map[string]bool{}
	add := func(rel string) {
		if seen[rel] {
			return
		}
		seen[rel] = true
		if strings.HasSuffix(rel, ".go") && !strings.HasSuffix(rel, "_test.go") {
			gofiles = append(gofiles, rel)
		} else {
			other = append(other, rel)
		}
	}
	for _, a := range anchorFiles(id) {
		a = strings.TrimSuffix(a, "/")
		full := filepath.Join(repoRoot, a)
		if st, err := os.Stat(full); err == nil && st.IsDir() {
			ms, _ := filepath.Glob(filepath.Join(full, "*.go"))
			if len(ms) == 0 {
				other = append(other, a+"/")
			}
			for _, m := range ms {
				rel, _ := filepath.Rel(repoRoot, m)
				add(rel)
			}
			continue
		}
		if strings.ContainsAny(a, "*?[") {
			ms, _ := filepath.Glob(full)
			for _, m := range ms {
				rel, _ := filepath.Rel(repoRoot, m)
				add(rel)
			}
			continue
		}
		if _, err := os.Stat(full); err != nil {
			other = append(other, a+" (missing)")
			continue
		}
		add(a)
	}
	sort.Strings(gofiles)
	return
}

// coverPkgs: import paths of the buildable packages holding anchor Go files.
func coverPkgs(id string) []string {
	gofiles, _ := anchorGoFiles(id)
	dirs := map[string]bool{}
	for _, f := range gofiles {
		dirs["./"+filepath.Dir(f)] = true
	}
	if len(dirs) == 0 {
		return nil
	}
	var ds []string
	for d := range dirs {
		ds = append(ds, d)
	}
	sort.Strings(ds)
	args := append([]string{"list", "-e", "-f", "{{.ImportPath}} {{len .GoFiles}}"}, ds...)
	cmd := exec.Command("go", args...)
	cmd.Dir = repoRoot
	cmd.Env = goEnv()
	out, _ := cmd.Output()
	var pk []string
	for _, l := range strings.Split(string(out), "\n") {
		f := strings.Fields(l)
		if len(f) == 2 && f[1] != "0" && strings.HasPrefix(f[0], modPath) {
			pk = append(pk, f[0])
		}
	}
	return pk
}

type covBlock struct {
	startLine int
	stmts     int
	hit       bool
}

type fileCov struct {
	File      string   `json:"file"`
	Stmts     int      `json:"statements"`
	Covered   int      `json:"covered"`
	Pct       float64  `json:"pct"`
	Funcs     int      `json:"functions"`
	FuncsHit  int      `json:"functions_entered"`
	NeverHit  []string `json:"functions_never_entered,omitempty"`
	BuildNote string   `json:"note,omitempty"`
}

// coverReport merges the profiles and accounts them against the anchors.
func coverReport(id string, profiles []string) (map[string]any, bool) {
	blocks := map[string]map[string]*covBlock{} // rel file -> block key -> block
	for _, p := range profiles {
		f, err := os.Open(p)
		if err != nil {
			continue
		}
		sc := bufio.NewScanner(f)
		sc.Buffer(make([]byte, 1<<20), 1<<24)
		for sc.Scan() {
			l := sc.Text()
			if strings.HasPrefix(l, "mode:") {
				continue
			}
			// path/file.go:sl.sc,el.ec n count
			ci := strings.LastIndex(l, ":")
			if ci < 0 {
				continue
			}
			file := strings.TrimPrefix(l[:ci], modPath+"/")
			fs := strings.Fields(l[ci+1:])
			if len(fs) != 3 {
				continue
			}
			n, _ := strconv.Atoi(fs[1])
			c, _ := strconv.Atoi(fs[2])
			sl, _ := strconv.Atoi(strings.SplitN(fs[0], ".", 2)[0])
			m := blocks[file]
			if m == nil {
				m = map[string]*covBlock{}
				blocks[file] = m
			}
			b := m[fs[0]]
			if b == nil {
				b = &covBlock{startLine: sl, stmts: n}
				m[fs[0]] = b
			}
			if c > 0 {
				b.hit = true
			}
		}
		f.Close()
	}
	gofiles, other := anchorGoFiles(id)
	var out []fileCov
	totS, totC := 0, 0
	for _, rel := range gofiles {
		fc := fileCov{File: rel}
		bl := blocks[rel]
		if bl == nil {
			fc.BuildNote = "not compiled in the cover build (other architecture, build tag or generator input)"
			out = append(out, fc)
			continue
		}
		// function extents
		type fn struct {
			name       string
			start, end int
			stmts, cov int
		}
		var fns []*fn
		fset := token.NewFileSet()
		if af, err := parser.ParseFile(fset, filepath.Join(repoRoot, rel), nil, 0); err == nil {
			for _, d := range af.Decls {
				fd, ok := d.(*ast.FuncDecl)
				if !ok || fd.Body == nil {
					continue
				}
				name := fd.Name.Name
				if fd.Recv != nil && len(fd.Recv.List) > 0 {
					name = recvName(fd.Recv.List[0].Type) + "." + name
				}
				fns = append(fns, &fn{name: name, start: fset.Position(fd.Pos()).Line, end: fset.Position(fd.End()).Line})
			}
		}
		for _, b := range bl {
			fc.Stmts += b.stmts
			if b.hit {
				fc.Covered += b.stmts
			}
			for _, f := range fns {
				if b.startLine >= f.start && b.startLine <= f.end {
					f.stmts += b.stmts
					if b.hit {
						f.cov += b.stmts
					}
					break
				}
			}
		}
		for _, f := range fns {
			if f.stmts == 0 {
				continue
			}
			fc.Funcs++
			if f.cov > 0 {
				fc.FuncsHit++
			} else if len(fc.NeverHit) < 40 {
				fc.NeverHit = append(fc.NeverHit, f.name)
			}
		}
		if fc.Stmts > 0 {
			fc.Pct = round1(100 * float64(fc.Covered) / float64(fc.Stmts))
		}
		totS += fc.Stmts
		totC += fc.Covered
		out = append(out, fc)
	}
	rep := map[string]any{
		"how":                 "every unit rebuilt with -cover -coverpkg=<packages of the anchor files> and run once (quick-tier case lists, default CPU dispatch); statement counts are Go statements only - assembly and the other-architecture / purego variants of a file are invisible to this pass and are exercised by the configurations listed under 'configurations'",
		"profiles":            len(profiles),
		"anchor_statements":   totS,
		"anchor_covered":      totC,
		"files":               out,
		"anchors_without_go":  other,
	}
	if totS > 0 {
		rep["anchor_pct"] = round1(100 * float64(totC) / float64(totS))
	}
	return rep, totS > 0 && totC == 0
}

func recvName(e ast.Expr) string {
	switch t := e.(type) {
	case *ast.StarExpr:
		return recvName(t.X)
	case *ast.Ident:
		return t.Name
	case *ast.IndexExpr:
		return recvName(t.X)
	case *ast.IndexListExpr:
		return recvName(t.X)
	}
	return fmt.Sprintf("%T", e)
}
