#!/usr/bin/env python3
# prints the markdown table of /verif/seeded for DESIGN.md section 6.3
import json, glob, os
notes = json.load(open('/verif/tools/seed_notes.json'))
rows = []
for d in sorted(glob.glob('/verif/seeded/seed-*'), key=lambda x: (x.split('-')[1], int(x.split('-')[2]))):
    m = json.load(open(d + '/meta.json'))
    name = os.path.basename(d)
    c = m.get('confirmed', {}).get('checks', {})
    caught = [k for k, v in c.items() if v['caught']]
    keys = []
    for k in caught:
        keys += c[k]['keys'][:2]
    title = (m.get('title') or '').replace('|', '/')
    need = (m.get('needs_to_manifest') or '').replace('|', '/').replace('\n', ' ')
    if len(need) > 220:
        need = need[:217] + '...'
    rows.append('| %s | %s | %s | %s | %s | %s |' % (name.replace('seed-', ''), m['property'], title[:160], need,
        ', '.join(caught) or 'none', ('`' + '`, `'.join(keys[:2]) + '`') if keys else ''))
print('| seed | prop | defect | needs | caught by | keys (first two) |')
print('|---|---|---|---|---|---|')
print('\n'.join(rows))
print()
print('Seeds that were missed when first evaluated, and what was strengthened:')
print()
for k in sorted(notes, key=lambda x: (x.split('-')[1], int(x.split('-')[2]))):
    print('* **%s** - %s' % (k.replace('seed-', ''), notes[k]))
