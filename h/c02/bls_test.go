//go:build verif

package c02

import (
	"math/big"
	"testing"

	GG "github.com/cloudflare/circl/ecc/bls12381"
	"github.com/cloudflare/circl/internal/zzverif/lib"
	"github.com/cloudflare/circl/sign/bls"
)

const monBLS = "TestVerifBLS"

// blsGroup describes one instantiation: keys in G1 (signatures in G2) or the
// other way round.
type blsGroup struct {
	name            string
	pkG1            bool
	pkSize, sigSize int
}

var (
	blsG1 = blsGroup{"bls-G1", true, GG.G1SizeCompressed, GG.G2SizeCompressed}
	blsG2 = blsGroup{"bls-G2", false, GG.G2SizeCompressed, GG.G1SizeCompressed}
)

// group-element helpers on encodings (used to build valid-but-wrong elements)
func ptNeg(enc []byte, g1 bool) []byte {
	if g1 {
		var p GG.G1
		if p.SetBytes(enc) != nil {
			return nil
		}
		p.Neg()
		return p.BytesCompressed()
	}
	var p GG.G2
	if p.SetBytes(enc) != nil {
		return nil
	}
	p.Neg()
	return p.BytesCompressed()
}

func ptAdd(a, b []byte, g1 bool) []byte {
	if g1 {
		var p, q GG.G1
		if p.SetBytes(a) != nil || q.SetBytes(b) != nil {
			return nil
		}
		p.Add(&p, &q)
		return p.BytesCompressed()
	}
	var p, q GG.G2
	if p.SetBytes(a) != nil || q.SetBytes(b) != nil {
		return nil
	}
	p.Add(&p, &q)
	return p.BytesCompressed()
}

func ptUncompressed(enc []byte, g1 bool) []byte {
	if g1 {
		var p GG.G1
		if p.SetBytes(enc) != nil {
			return nil
		}
		return p.Bytes()
	}
	var p GG.G2
	if p.SetBytes(enc) != nil {
		return nil
	}
	return p.Bytes()
}

func ptIdentity(n int) []byte {
	b := make([]byte, n)
	b[0] = 0xC0
	return b
}

func TestVerifBLS(t *testing.T) {
	lib.Mandatory("honest-verified", "honest-aggregate-verified", "altered", "rejected",
		"alt:trunc", "alt:append", "alt:bitflip", "alt:first-byte", "alt:other-key", "alt:msg",
		"alt:identity-sig", "alt:identity-pk-identity-sig", "alt:pubkey-bytes", "pkclass:pubkey-offsubgroup", "pkclass:pubkey-plus-torsion",
		"alt:agg-identity", "alt:agg-mismatched-lists", "alt:agg-empty-lists", "alt:agg-duplicate-messages",
		"alt:agg-permuted", "alt:agg-dropped-signer", "alt:agg-input-append",
		"pk-decoder-rejected", "pk-decoder-accepted", "pk-offsubgroup-generated", "full-bitflip-sweeps", "honest-still-verifies", "alt:sig-plus-torsion", "alt:sig-offsubgroup")
	nk := lib.Scale(3, 8)
	nm := len(testMessages(lib.NewRng("c02/len", 0)))
	type cs struct {
		g1   bool
		k, m int
	}
	var cases []cs
	for k := 0; k < nk; k++ {
		for m := 0; m < nm; m++ {
			cases = append(cases, cs{true, k, m}, cs{false, k, m})
		}
	}
	lib.Par(len(cases), func(i int) {
		c := cases[i]
		if c.g1 {
			blsCase[bls.G1](blsG1, c.k, c.m)
			if c.m == 0 {
				blsAggCase[bls.G1](blsG1, c.k)
			}
		} else {
			blsCase[bls.G2](blsG2, c.k, c.m)
			if c.m == 0 {
				blsAggCase[bls.G2](blsG2, c.k)
			}
		}
	})
}

func blsKey[K bls.KeyGroup](g blsGroup, stream string, k int) (*bls.PrivateKey[K], []byte, []byte, []byte) {
	r := lib.NewRng("c02/"+g.name+"/"+stream, k)
	ikm := r.Bytes(32 + r.Intn(33))
	if k == 0 && stream == "key" {
		ikm = make([]byte, 32)
	}
	var salt, info []byte
	if r.Bool() {
		salt = r.Bytes(32)
	}
	if r.Bool() {
		info = r.Bytes(r.Intn(40))
	}
	sk, err := bls.KeyGen[K](ikm, salt, info)
	if err != nil {
		lib.Violation("C02:keygen-failed:"+g.name, monBLS, lib.D("ikm", ikm, "salt", salt, "info", info, "err", err))
		return nil, ikm, salt, info
	}
	return sk, ikm, salt, info
}

func blsCase[K bls.KeyGroup](g blsGroup, k, mi int) {
	r := lib.NewRng("c02/"+g.name, k*100+mi)
	msg := testMessages(lib.NewRng("c02/"+g.name+"/msg", k))[mi]
	sk, ikm, salt, info := blsKey[K](g, "key", k)
	sk2, _, _, _ := blsKey[K](g, "otherkey", k)
	if sk == nil || sk2 == nil {
		return
	}
	pub, pub2 := sk.PublicKey(), sk2.PublicKey()
	det := func() map[string]any {
		return lib.D("group", g.name, "ikm", ikm, "salt", salt, "keyinfo", info, "msg", msg)
	}
	lib.Case([]byte(g.name), ikm, salt, info, msg)

	var sig, sigB []byte
	if p := lib.Try("Sign:"+g.name, msg, func() {
		sig = bls.Sign(sk, msg)
		sigB = bls.Sign(sk, msg)
	}); p != nil {
		d := det()
		d["panic"], d["frame"] = p.Value, p.TopFrame()
		lib.Violation("C02:panic:"+g.name+":Sign", monBLS, d)
		return
	}
	if len(sig) != g.sigSize {
		d := det()
		d["len"] = len(sig)
		lib.Violation("C02:size:"+g.name, monBLS, d)
	}
	if !lib.Eq(sig, sigB) {
		lib.Violation("C02:nondeterministic:"+g.name, monBLS, det())
	}
	pkb, _ := pub.MarshalBinary()
	pkb2, _ := pub2.MarshalBinary()
	if len(pkb) != g.pkSize {
		t := det()
		t["len"] = len(pkb)
		lib.Violation("C02:size:"+g.name+":public-key", monBLS, t)
	}
	honest := func(what string, pk *bls.PublicKey[K]) bool {
		var ok bool
		p := lib.Try("Verify:"+g.name+":honest", sig, func() { ok = bls.Verify(pk, msg, sig) })
		lib.Eval()
		if p != nil || !ok {
			d := det()
			d["what"], d["sig"] = what, lib.Hex(sig)
			lib.Violation("C02:honest-rejected:"+g.name, monBLS, d)
			return false
		}
		lib.Count("honest-verified")
		return true
	}
	if !honest("matching key", pub) {
		return
	}
	pubU := new(bls.PublicKey[K])
	if err := pubU.UnmarshalBinary(pkb); err != nil {
		lib.Violation("C02:honest-rejected:"+g.name+":own-public-key-refused", monBLS, det())
	} else {
		honest("unmarshalled key", pubU)
	}
	// private key round trip signs identically
	if skb, err := sk.MarshalBinary(); err == nil {
		skU := new(bls.PrivateKey[K])
		if err := skU.UnmarshalBinary(skb); err != nil || !lib.Eq(bls.Sign(skU, msg), sig) {
			lib.Violation("C02:nondeterministic:"+g.name+":unmarshalled-private-key", monBLS, det())
		}
	}
	if k == 0 && mi == 0 {
		lib.Sample(monBLS, lib.D("group", g.name, "ikm", ikm, "msg", msg, "pk", pkb, "sig", sig))
	}

	// ---- alterations of the signature string
	tg := &target{subject: g.name, entry: "Verify", mon: monBLS, detail: det,
		verify: func(x []byte) bool { return bls.Verify(pub, msg, x) }}
	full := mi == 0 && (k == 0 || lib.Thorough())
	alterSig(tg, r, sig, altOpts{flips: 96, allFlips: full, firstByte: true})
	tg.expectReject("identity-sig", ptIdentity(g.sigSize))
	// a signature of the other instantiation (wrong length / wrong group)
	tg.expectReject("wrong-group-sig", r.Bytes(g.pkSize))
	tg.expectReject("wrong-group-sig", clip(pkb))
	// -sig and sig + sig' are valid group elements but wrong signatures
	if ns := ptNeg(sig, !g.pkG1); ns != nil {
		tg.expectReject("negated-sig", ns)
	}
	osig := bls.Sign(sk2, msg)
	tg.expectReject("other-key", osig, "what", "signature by another key")
	if ss := ptAdd(sig, osig, !g.pkG1); ss != nil {
		tg.expectReject("sum-sig", ss)
	}
	// the honest signature plus a point of cofactor order: on the curve, not
	// in the order-r subgroup (the "subgroup-checked signature" mechanism)
	if mi == 0 {
		if hp, ok := decodeBPoint(sig, !g.pkG1); ok && lib.Eq(hp.encode(!g.pkG1), sig) {
			for j := 0; j < lib.Scale(2, 4); j++ {
				t := cofactorTorsionPoint(r, !g.pkG1)
				tg.expectReject("sig-plus-torsion", hp.add(t).encode(!g.pkG1))
			}
			tg.expectReject("sig-offsubgroup", offSubgroupPoint(r, !g.pkG1).encode(!g.pkG1))
		} else {
			noteOnce("%s: big-int model could not decode an honest signature", g.name)
		}
	}
	// second spellings of the same coordinates: a 48-octet field element of
	// the encoding replaced by itself plus p (where that still fits next to
	// the three flag bits of the first block): names the same point if the
	// decoder reduces instead of refusing, so it would verify
	for bi, c := range coordPlusP(sig) {
		tg.expectReject("coordinate-plus-p", c, "block", bi)
	}
	// the uncompressed serialization of the same point is another *valid*
	// encoding in the format the package follows: observed, not judged
	if u := ptUncompressed(sig, !g.pkG1); u != nil {
		var ok bool
		if p := lib.Try("Verify:"+g.name+":uncompressed", u, func() { ok = bls.Verify(pub, msg, u) }); p == nil && ok {
			lib.Count("uncompressed-sig-accepted")
		} else {
			lib.Count("uncompressed-sig-rejected")
		}
		// ... but every *alteration* of that second encoding (one flag or
		// coordinate bit, a truncation, appended bytes) is not a valid
		// signature on this message
		if mi == 0 {
			tgu := &target{subject: g.name, entry: "Verify(uncompressed)", mon: monBLS, detail: det,
				verify: func(x []byte) bool { return bls.Verify(pub, msg, x) }}
			for i := 0; i < 8; i++ {
				tgu.expectReject("uncompressed-flag-flip", lib.FlipBit(u, i), "bit", i)
			}
			half := len(u) / 2
			for i := 0; i < 8; i++ {
				tgu.expectReject("uncompressed-y-top-bits", lib.FlipBit(u, half*8+i), "bit", half*8+i)
			}
			alterSig(tgu, r, u, altOpts{flips: 64, allFlips: full && lib.Thorough()})
			for bi, c := range coordPlusP(u) {
				tgu.expectReject("coordinate-plus-p", c, "block", bi)
			}
		}
	}

	tgk := &target{subject: g.name, entry: "Verify", mon: monBLS, detail: det,
		verify: func(x []byte) bool { return bls.Verify(pub2, msg, x) }}
	tgk.expectReject("other-key", sig)
	for _, m2 := range msgAlterations(r, msg) {
		m2 := m2
		tgm := &target{subject: g.name, entry: "Verify", mon: monBLS, detail: det,
			verify: func(x []byte) bool { return bls.Verify(pub, m2, x) }}
		tgm.expectReject("msg", sig, "msg2", m2)
	}

	// ---- arbitrary bytes as encoded public key
	tryPk := func(class string, enc []byte, sigs ...[]byte) {
		pkx := new(bls.PublicKey[K])
		var err error
		p := lib.Try("PublicKey.UnmarshalBinary:"+g.name+":"+class, enc, func() { err = pkx.UnmarshalBinary(enc) })
		lib.Eval()
		lib.Count("pkclass:" + class)
		if p != nil {
			lib.Violation("C02:panic:"+g.name+":PublicKey.UnmarshalBinary", monBLS,
				lib.D("group", g.name, "class", class, "pk", enc, "pk_len", len(enc), "panic", p.Value, "frame", p.TopFrame()))
			return
		}
		vclass := class
		if err != nil {
			lib.Count("pk-decoder-rejected")
			// a caller that ignores the error still must not get "true"
			vclass = class + "-after-decode-error"
		} else {
			lib.Count("pk-decoder-accepted")
			if pkx.Equal(pub) {
				if !lib.Eq(enc, pkb) {
					lib.Count("pk-alias-of-honest-key")
					noteOnce("%s: PublicKey.UnmarshalBinary maps a %d-byte string (class %s) to the honest key", g.name, len(enc), class)
				}
				return
			}
		}
		tgp := &target{subject: g.name, entry: "Verify", mon: monBLS, detail: det,
			verify: func(x []byte) bool { return bls.Verify(pkx, msg, x) }}
		tgp.expectReject(vclass, sig, "pk", enc)
		for _, s := range sigs {
			// the identity signature under a foreign / undecodable key: same
			// class as the identity signature under the honest key, except for
			// the identity key where both sides of the equation degenerate
			c := "identity-sig"
			if class == "identity-pk-identity-sig" {
				c = class
			}
			tgp.expectReject(c, s, "pk", enc, "pk_class", vclass)
		}
	}
	idSig := ptIdentity(g.sigSize)
	n := len(pkb)
	if full {
		for b := 0; b < 8*n; b++ {
			tryPk("pubkey-bytes", lib.FlipBit(pkb, b))
		}
	} else {
		for j := 0; j < 24; j++ {
			tryPk("pubkey-bytes", lib.FlipBit(pkb, r.Intn(8*n)))
		}
	}
	if mi == 0 {
		for v := 0; v < 256; v++ {
			c := clip(pkb)
			c[0] = byte(v)
			tryPk("pubkey-bytes", c, idSig)
			z := make([]byte, n)
			z[0] = byte(v)
			tryPk("pubkey-bytes", z, idSig)
		}
		for i := 0; i < n; i++ {
			tryPk("pubkey-bytes", pkb[:i:i])
		}
	}
	tryPk("pubkey-bytes", nil)
	tryPk("pubkey-bytes", cat(pkb, []byte{0}))
	tryPk("pubkey-bytes", cat(pkb, pkb))
	tryPk("pubkey-bytes", r.Bytes(n), idSig)
	tryPk("pubkey-bytes", make([]byte, n), idSig)
	tryPk("pubkey-bytes", clip(pkb2))
	if np := ptNeg(pkb, g.pkG1); np != nil {
		// (-pk, -sig) is a genuine key pair / signature: only the honest sig is "altered" here
		tryPk("pubkey-bytes", np)
	}
	if dp := ptAdd(pkb, pkb, g.pkG1); dp != nil {
		tryPk("pubkey-bytes", dp)
	}
	// identity public key, with the honest and with the identity signature
	// (e(O, H(m)) = e(G, O) = 1 makes the pairing equation hold trivially)
	tryPk("identity-pk-identity-sig", ptIdentity(n), idSig)
	// zero-value key object
	{
		tgz := &target{subject: g.name, entry: "Verify", mon: monBLS, detail: det,
			verify: func(x []byte) bool { return bls.Verify(new(bls.PublicKey[K]), msg, x) }}
		tgz.expectReject("zero-value-pk", sig)
		tgz.expectReject("zero-value-pk", idSig)
	}
	// points of the curve outside the order-r subgroup
	for j := 0; j < lib.Scale(2, 6); j++ {
		p := offSubgroupPoint(r, g.pkG1)
		lib.Count("pk-offsubgroup-generated")
		tryPk("pubkey-offsubgroup", p.encode(g.pkG1), idSig)
	}
	if mi == 0 {
		// honest key plus a point of cofactor order: the same key "up to" a
		// component the pairing's final exponentiation would kill
		hp, ok := decodeBPoint(pkb, g.pkG1)
		if !ok || !lib.Eq(hp.encode(g.pkG1), pkb) {
			noteOnce("%s: big-int model could not decode an honest public key", g.name)
		} else {
			for j := 0; j < lib.Scale(1, 3); j++ {
				t := cofactorTorsionPoint(r, g.pkG1)
				lib.Count("pk-offsubgroup-generated")
				tryPk("pubkey-plus-torsion", hp.add(t).encode(g.pkG1))
			}
		}
	}
	// nothing above may have disturbed the key objects or library state
	if !lib.Eq(sig, sigB) || !bls.Verify(pub, msg, sig) || !lib.Eq(bls.Sign(sk, msg), sig) {
		lib.Violation("C02:honest-rejected:"+g.name+":after-alterations", monBLS, det())
	} else {
		lib.Count("honest-still-verifies")
	}
}

// blsAggCase: aggregation of 2..4 signers.
func blsAggCase[K bls.KeyGroup](g blsGroup, k int) {
	r := lib.NewRng("c02/"+g.name+"/agg", k)
	n := 2 + k%3
	var pubs []*bls.PublicKey[K]
	var sks []*bls.PrivateKey[K]
	var msgs [][]byte
	var sigs []bls.Signature
	var pkbs [][]byte
	for j := 0; j < n; j++ {
		sk, _, _, _ := blsKey[K](g, "aggkey", k*10+j)
		if sk == nil {
			return
		}
		m := append([]byte{byte(j)}, r.Bytes(r.Intn(80))...)
		sks = append(sks, sk)
		pubs = append(pubs, sk.PublicKey())
		b, _ := sk.PublicKey().MarshalBinary()
		pkbs = append(pkbs, b)
		msgs = append(msgs, m)
		sigs = append(sigs, bls.Sign(sk, m))
	}
	det := func() map[string]any {
		d := lib.D("group", g.name, "signers", n)
		for j := range msgs {
			d[lib.Hex([]byte{byte(j)})+"_pk"] = lib.Hex(pkbs[j])
			d[lib.Hex([]byte{byte(j)})+"_msg"] = lib.Hex(msgs[j])
		}
		return d
	}
	lib.Case(append([][]byte{[]byte(g.name), []byte("agg")}, msgs...)...)
	var zero K
	agg, err := bls.Aggregate(zero, sigs)
	agg2, err2 := bls.Aggregate(zero, sigs)
	if err != nil || err2 != nil {
		d := det()
		d["err"] = err
		lib.Violation("C02:honest-rejected:"+g.name+":Aggregate", monBLS, d)
		return
	}
	if len(agg) != g.sigSize {
		lib.Violation("C02:size:"+g.name+":aggregate", monBLS, det())
	}
	if !lib.Eq(agg, agg2) {
		lib.Violation("C02:nondeterministic:"+g.name+":Aggregate", monBLS, det())
	}
	var ok bool
	p := lib.Try("VerifyAggregate:"+g.name+":honest", agg, func() { ok = bls.VerifyAggregate(pubs, msgs, agg) })
	lib.Eval()
	if p != nil || !ok {
		d := det()
		d["agg"] = lib.Hex(agg)
		lib.Violation("C02:honest-rejected:"+g.name+":VerifyAggregate", monBLS, d)
		return
	}
	lib.Count("honest-aggregate-verified")
	// single-signer aggregate is the signature itself
	if a1, err := bls.Aggregate(zero, sigs[:1]); err != nil || !lib.Eq(a1, sigs[0]) ||
		!bls.VerifyAggregate(pubs[:1], msgs[:1], sigs[0]) || !bls.Verify(pubs[0], msgs[0], a1) {
		lib.Violation("C02:honest-rejected:"+g.name+":single-signer-aggregate", monBLS, det())
	} else {
		lib.Count("honest-aggregate-verified")
	}

	mk := func(ps []*bls.PublicKey[K], ms [][]byte) *target {
		return &target{subject: g.name, entry: "VerifyAggregate", mon: monBLS, detail: det,
			verify: func(x []byte) bool { return bls.VerifyAggregate(ps, ms, x) }}
	}
	tg := mk(pubs, msgs)
	alterSig(tg, r, agg, altOpts{flips: lib.Scale(48, 128), allFlips: lib.Thorough() && k == 0, firstByte: true})
	tg.expectReject("agg-identity", ptIdentity(g.sigSize))
	for j := range sigs {
		tg.expectReject("agg-partial", sigs[j], "what", "one signer's signature as aggregate")
	}
	if a, err := bls.Aggregate(zero, sigs[:n-1]); err == nil {
		tg.expectReject("agg-partial", a, "what", "aggregate without the last signer")
	}
	// permuted messages
	pm := append([][]byte{}, msgs...)
	pm[0], pm[1] = pm[1], pm[0]
	mk(pubs, pm).expectReject("agg-permuted", agg)
	pp := append([]*bls.PublicKey[K]{}, pubs...)
	pp[0], pp[n-1] = pp[n-1], pp[0]
	mk(pp, msgs).expectReject("agg-permuted", agg)
	// one message altered / one key replaced
	for j := 0; j < n; j++ {
		am := append([][]byte{}, msgs...)
		am[j] = lib.FlipBit(msgs[j], r.Intn(8*len(msgs[j])))
		mk(pubs, am).expectReject("msg", agg, "signer", j)
		ap := append([]*bls.PublicKey[K]{}, pubs...)
		osk, _, _, _ := blsKey[K](g, "aggother", k*10+j)
		if osk != nil {
			ap[j] = osk.PublicKey()
			mk(ap, msgs).expectReject("other-key", agg, "signer", j)
		}
	}
	// dropped / extra signer, mismatched and empty lists
	mk(pubs[:n-1], msgs[:n-1]).expectReject("agg-dropped-signer", agg)
	mk(pubs[1:], msgs[1:]).expectReject("agg-dropped-signer", agg)
	mk(append(append([]*bls.PublicKey[K]{}, pubs...), pubs[0]), append(append([][]byte{}, msgs...), []byte("extra"))).expectReject("agg-extra-signer", agg)
	mk(pubs, msgs[:n-1]).expectReject("agg-mismatched-lists", agg)
	mk(pubs[:n-1], msgs).expectReject("agg-mismatched-lists", agg)
	mk(pubs, nil).expectReject("agg-mismatched-lists", agg)
	mk(nil, msgs).expectReject("agg-mismatched-lists", agg)
	for _, a := range [][]byte{agg, ptIdentity(g.sigSize), nil} {
		mk(nil, nil).expectReject("agg-empty-lists", a)
		mk([]*bls.PublicKey[K]{}, [][]byte{}).expectReject("agg-empty-lists", a)
	}
	// lists containing an identity / zero-value key
	{
		idk := new(bls.PublicKey[K])
		if idk.UnmarshalBinary(ptIdentity(g.pkSize)) == nil {
			ap := append([]*bls.PublicKey[K]{}, pubs...)
			ap[0] = idk
			mk(ap, msgs).expectReject("agg-identity-pk", agg)
			mk(ap, msgs).expectReject("agg-identity-pk", ptIdentity(g.sigSize))
			mk([]*bls.PublicKey[K]{idk}, msgs[:1]).expectReject("agg-identity-pk", ptIdentity(g.sigSize))
		}
		ap := append([]*bls.PublicKey[K]{}, pubs...)
		ap[n-1] = new(bls.PublicKey[K])
		mk(ap, msgs).expectReject("agg-zero-value-pk", agg)
	}

	// ---- duplicated messages: the pairing product holds without anybody
	// having signed (draft-irtf-cfrg-bls-signature, basic scheme:
	// AggregateVerify returns INVALID if two messages are equal).
	dupDetail := func(variant string, ps [][]byte, m []byte, a []byte) map[string]any {
		d := lib.D("group", g.name, "variant", variant, "msg", m, "agg", a)
		for j, b := range ps {
			d[lib.Hex([]byte{byte(j)})+"_pk"] = lib.Hex(b)
		}
		return d
	}
	dup := func(variant string, encs [][]byte, m []byte, a []byte) {
		var ps []*bls.PublicKey[K]
		for _, e := range encs {
			pk := new(bls.PublicKey[K])
			if pk.UnmarshalBinary(e) != nil {
				noteOnce("%s: duplicate-message case %s: crafted key refused by the decoder", g.name, variant)
				return
			}
			ps = append(ps, pk)
		}
		ms := make([][]byte, len(ps))
		for j := range ms {
			ms[j] = m
		}
		var ok bool
		p := lib.Try("VerifyAggregate:"+g.name+":duplicate-messages", a, func() { ok = bls.VerifyAggregate(ps, ms, a) })
		lib.Eval()
		lib.Count("altered")
		lib.Count("alt:agg-duplicate-messages")
		switch {
		case p != nil:
			d := dupDetail(variant, encs, m, a)
			d["panic"], d["frame"] = p.Value, p.TopFrame()
			lib.Violation(panicKey(g.name, "VerifyAggregate", "agg-duplicate-messages"), monBLS, d)
		case ok:
			lib.Violation("C02:accept-degenerate:"+g.name+":duplicate-messages", monBLS, dupDetail(variant, encs, m, a))
		default:
			lib.Count("rejected")
		}
	}
	victim := pkbs[0]
	m := msgs[0]
	// (a) keys pk and -pk, identity aggregate: nobody signed anything
	if np := ptNeg(victim, g.pkG1); np != nil {
		dup("cancelling-keys-identity-aggregate", [][]byte{victim, np}, []byte("never signed"), ptIdentity(g.sigSize))
	}
	// (b) rogue key pk_x - pk_victim with the attacker's own signature on m
	{
		xsk, _, _, _ := blsKey[K](g, "rogue", k)
		if xsk != nil {
			xb, _ := xsk.PublicKey().MarshalBinary()
			if nv := ptNeg(victim, g.pkG1); nv != nil {
				if rogue := ptAdd(xb, nv, g.pkG1); rogue != nil {
					forged := []byte("victim never signed this")
					dup("rogue-key", [][]byte{victim, rogue}, forged, bls.Sign(xsk, forged))
				}
			}
		}
	}
	// (c) the repeated message need not be adjacent: (pk, pk', -pk) on
	// (a, b, a) with pk' having signed b - the two pairings on a cancel -
	// and every other position of the repeated pair among three and four
	// entries
	if np := ptNeg(victim, g.pkG1); np != nil {
		other := pkbs[1]
		sigB := bls.Sign(sks[1], []byte("b: signed by the second key"))
		a, b := []byte("a: never signed"), []byte("b: signed by the second key")
		layouts := []struct {
			name string
			keys [][]byte
			ms   [][]byte
		}{
			{"pk,other,-pk", [][]byte{victim, other, np}, [][]byte{a, b, a}},
			{"other,pk,-pk", [][]byte{other, victim, np}, [][]byte{b, a, a}},
			{"pk,-pk,other", [][]byte{victim, np, other}, [][]byte{a, a, b}},
		}
		for _, l := range layouts {
			var ps []*bls.PublicKey[K]
			bad := false
			for _, e := range l.keys {
				pk := new(bls.PublicKey[K])
				if pk.UnmarshalBinary(e) != nil {
					bad = true
				}
				ps = append(ps, pk)
			}
			if bad {
				continue
			}
			var ok bool
			p := lib.Try("VerifyAggregate:"+g.name+":duplicate-messages", sigB, func() { ok = bls.VerifyAggregate(ps, l.ms, sigB) })
			lib.Eval()
			lib.Count("altered")
			lib.Count("alt:agg-duplicate-messages")
			lib.Count("alt:agg-duplicate-messages-not-adjacent")
			if p == nil && ok {
				d := dupDetail("cancelling-keys-around-a-genuine-signature:"+l.name, l.keys, a, sigB)
				lib.Violation("C02:accept-degenerate:"+g.name+":duplicate-messages", monBLS, d)
			} else if p == nil {
				lib.Count("rejected")
			}
		}
	}
	// honest duplicates (two signers, same message): observed only
	{
		s0, s1 := bls.Sign(sks[0], m), bls.Sign(sks[1], m)
		if a, err := bls.Aggregate(zero, []bls.Signature{s0, s1}); err == nil {
			if bls.VerifyAggregate(pubs[:2], [][]byte{m, m}, a) {
				lib.Count("honest-duplicate-messages-accepted")
			} else {
				lib.Count("honest-duplicate-messages-rejected")
			}
		}
	}

	// ---- altered inputs to Aggregate that end up in an accepted aggregate
	aggIn := func(class string, in []bls.Signature) {
		var a []byte
		var err error
		p := lib.Try("Aggregate:"+g.name+":"+class, in[0], func() { a, err = bls.Aggregate(zero, in) })
		lib.Eval()
		lib.Count("altered")
		lib.Count("alt:" + class)
		if p != nil {
			d := det()
			d["class"], d["panic"], d["frame"], d["first_input"] = class, p.Value, p.TopFrame(), lib.Hex(in[0])
			lib.Violation(panicKey(g.name, "Aggregate", class), monBLS, d)
			return
		}
		if err != nil {
			lib.Count("rejected")
			return
		}
		var ok bool
		lib.Try("VerifyAggregate:"+g.name+":"+class, a, func() { ok = bls.VerifyAggregate(pubs, msgs, a) })
		if ok {
			d := det()
			d["class"], d["first_input"], d["first_input_len"] = class, lib.Hex(in[0]), len(in[0])
			lib.Violation("C02:accept-altered:"+g.name+":"+class, monBLS, d)
		} else {
			lib.Count("rejected")
		}
	}
	for _, kx := range []int{1, 2, 31, g.sigSize} {
		in := append([]bls.Signature{}, sigs...)
		in[0] = cat(sigs[0], r.Bytes(kx))
		aggIn("agg-input-append", in)
	}
	for _, l := range []int{0, 1, g.sigSize / 2, g.sigSize - 1} {
		in := append([]bls.Signature{}, sigs...)
		in[0] = sigs[0][:l:l]
		aggIn("agg-input-trunc", in)
	}
	for v := 0; v < 256; v++ {
		if byte(v) == sigs[0][0] {
			continue
		}
		in := append([]bls.Signature{}, sigs...)
		in[0] = clip(sigs[0])
		in[0][0] = byte(v)
		aggIn("agg-input-first-byte", in)
	}
	if _, err := bls.Aggregate(zero, nil); err == nil {
		lib.Violation("C02:accept-degenerate:"+g.name+":aggregate-of-nothing", monBLS, lib.D("group", g.name))
	}
}

var _ = testing.Short

// coordPlusP returns, for every 48-octet block of a zkcrypto-style point
// encoding, the encoding with that block's value increased by p, keeping the
// three flag bits of the first block; blocks where the sum does not fit are
// skipped.
func coordPlusP(enc []byte) [][]byte {
	var out [][]byte
	for b := 0; b+48 <= len(enc); b += 48 {
		blk := lib.Clone(enc[b : b+48])
		flags := byte(0)
		limit := 384
		if b == 0 {
			flags = blk[0] & 0xE0
			blk[0] &= 0x1F
			limit = 381
		}
		v := new(big.Int).SetBytes(blk)
		v.Add(v, blsP)
		if v.BitLen() > limit {
			continue
		}
		c := lib.Clone(enc)
		v.FillBytes(c[b : b+48])
		c[b] |= flags
		out = append(out, c)
	}
	return out
}
