//go:build verif

package c10

import (
	"testing"

	"github.com/cloudflare/circl/hpke"
	"github.com/cloudflare/circl/internal/zzverif/lib"
	"github.com/cloudflare/circl/kem"
)

func init() {
	kems := []hpke.KEM{hpke.KEM_P256_HKDF_SHA256, hpke.KEM_P384_HKDF_SHA384, hpke.KEM_P521_HKDF_SHA512,
		hpke.KEM_X25519_HKDF_SHA256, hpke.KEM_X448_HKDF_SHA512, hpke.KEM_X25519_KYBER768_DRAFT00, hpke.KEM_XWING}
	names := []string{"P256", "P384", "P521", "X25519", "X448", "X25519Kyber768", "XWing"}
	aeads := []hpke.AEAD{hpke.AEAD_AES128GCM, hpke.AEAD_AES256GCM, hpke.AEAD_ChaCha20Poly1305}
	for ki, k := range kems {
		n := names[ki]
		suite := hpke.NewSuite(k, hpke.KDF_HKDF_SHA256, aeads[ki%3])
		sch := k.Scheme()
		pkR, skR := sch.DeriveKeyPair(seedBytes("hpke/"+n, 0, sch.SeedSize()))
		pkS, skS := sch.DeriveKeyPair(seedBytes("hpke/"+n, 1, sch.SeedSize()))
		info := []byte("info")
		psk := seedBytes("hpke/psk", 0, 32)
		pskID := []byte("psk id")
		snd, err := suite.NewSender(pkR, info)
		if err != nil {
			panic(err)
		}
		enc, sealer, err := snd.Setup(lib.NewRng("c10/hpke/"+n, 2))
		if err != nil {
			panic(err)
		}
		ct, _ := sealer.Seal([]byte("plaintext"), []byte("aad"))
		slow := 0
		if ki >= 5 {
			slow = 4000
		}
		reg("HPKE", entry{name: "hpke.Receiver.Setup(enc):" + n, seeds: [][]byte{enc}, max: slow, f: func(b []byte) {
			rcv, err := suite.NewReceiver(skR, info)
			if err != nil {
				return
			}
			if o, err := rcv.Setup(b); err == nil && o != nil {
				_, _ = o.Open(ct, []byte("aad"))
			}
		}})
		reg("HPKE", entry{name: "hpke.Receiver.SetupPSK(enc):" + n, seeds: [][]byte{enc}, max: 1500, f: func(b []byte) {
			rcv, _ := suite.NewReceiver(skR, info)
			_, _ = rcv.SetupPSK(b, psk, pskID)
			_, _ = rcv.SetupPSK(enc, b, pskID)
			_, _ = rcv.SetupPSK(enc, psk, b)
		}})
		if ki < 5 {
			snd2, _ := suite.NewSender(pkR, info)
			encA, _, err := snd2.SetupAuth(lib.NewRng("c10/hpke/"+n, 3), skS)
			if err != nil {
				panic(err)
			}
			reg("HPKE", entry{name: "hpke.Receiver.SetupAuth(enc):" + n, seeds: [][]byte{encA}, max: 3000, f: func(b []byte) {
				rcv, _ := suite.NewReceiver(skR, info)
				_, _ = rcv.SetupAuth(b, pkS)
				_, _ = rcv.SetupAuthPSK(b, psk, pskID, pkS)
			}})
		}
		opn := func() hpke.Opener {
			rcv, _ := suite.NewReceiver(skR, info)
			o, err := rcv.Setup(enc)
			if err != nil {
				panic(err)
			}
			return o
		}
		reg("HPKE", entry{name: "hpke.Opener.Open(ct):" + n, seeds: [][]byte{ct}, f: func(b []byte) {
			o := opn2(suite, skR, info, enc)
			_, _ = o.Open(b, []byte("aad"))
			_, _ = o.Open(ct, b)
		}})
		sm, _ := sealer.MarshalBinary()
		om, _ := opn().MarshalBinary()
		reg("HPKE", entry{name: "hpke.UnmarshalSealer:" + n, seeds: [][]byte{sm, om}, f: func(b []byte) {
			if s, err := hpke.UnmarshalSealer(b); err == nil && s != nil {
				_, _ = s.Seal([]byte("x"), nil)
				_ = s.Export([]byte("e"), 16)
				_, _ = s.MarshalBinary()
			}
		}})
		reg("HPKE", entry{name: "hpke.UnmarshalOpener:" + n, seeds: [][]byte{om, sm}, f: func(b []byte) {
			if o, err := hpke.UnmarshalOpener(b); err == nil && o != nil {
				_, _ = o.Open(ct, []byte("aad"))
				_ = o.Export([]byte("e"), 16)
				_, _ = o.MarshalBinary()
			}
		}})
		reg("HPKE", entry{name: "hpke.NewSender(info):" + n, seeds: [][]byte{info}, max: 60, f: func(b []byte) {
			if s, err := suite.NewSender(pkR, b); err == nil {
				_, _, _ = s.Setup(lib.NewRng("c10/hpke/"+n, 5))
			}
		}})
	}
}

func opn2(suite hpke.Suite, skR kem.PrivateKey, info, enc []byte) hpke.Opener {
	rcv, _ := suite.NewReceiver(skR, info)
	o, err := rcv.Setup(enc)
	if err != nil {
		panic(err)
	}
	return o
}

func TestVerifHPKE(t *testing.T) { runGroup(t, "HPKE") }
