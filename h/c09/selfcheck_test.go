//go:build verif

package c09

import (
	"crypto/elliptic"
	"encoding/hex"
	"math/big"
	"os"
	"path/filepath"
	"testing"

	"github.com/cloudflare/circl/internal/zzverif/lib"
	"github.com/cloudflare/circl/internal/zzverif/ref/c09ref"
)

// TestVerifSelfCheckRef validates the reference models against published
// material: the Zcash BLS12-381 serialisation vectors shipped in the repo
// (i*G for i = 0..999, four files), group orders, crypto/elliptic for the
// NIST curves, RFC 8032 / FourQ generators and orders, RFC 9496 vectors.
func TestVerifSelfCheckRef(t *testing.T) {
	// --- BLS12-381
	for _, g := range []*c09ref.BLSGroup{c09ref.BLSG1, c09ref.BLSG2} {
		if !g.C.OnCurve(g.G) {
			t.Fatalf("%s generator not on curve", g.Name)
		}
		if !g.C.Mul(g.R, g.G).Inf {
			t.Fatalf("%s: r*G != O", g.Name)
		}
		m := g.C.Mul(new(big.Int).Sub(g.R, big.NewInt(1)), g.G)
		if !g.C.Equal(m, g.C.Neg(g.G)) {
			t.Fatalf("%s: (r-1)*G != -G", g.Name)
		}
		// affine law against the Jacobian ladder
		acc := g.C.Infinity()
		for i := 0; i < 7; i++ {
			acc = g.C.Add(acc, g.G)
		}
		if !g.C.Equal(acc, g.C.Mul(big.NewInt(7), g.G)) {
			t.Fatalf("%s: 7*G mismatch between affine and Jacobian", g.Name)
		}
		for _, form := range []struct {
			file string
			comp bool
			n    int
		}{{"compressed", true, g.CompLen()}, {"uncompressed", false, g.UncompLen()}} {
			name := map[string]string{"G1": "g1", "G2": "g2"}[g.Name] + "_" + form.file + "_valid_test_vectors.dat"
			data, err := os.ReadFile(filepath.Join(repoRoot(), "ecc/bls12381/testdata", name))
			if err != nil {
				t.Fatal(err)
			}
			if len(data) != 1000*form.n {
				t.Fatalf("%s: unexpected size %d", name, len(data))
			}
			acc := g.C.Infinity()
			for i := 0; i < 1000; i++ {
				want := data[i*form.n : (i+1)*form.n]
				if got := g.Encode(acc, form.comp); !lib.Eq(got, want) {
					t.Fatalf("%s: vector %d: reference encodes %x, file has %x", name, i, got, want)
				}
				d := g.Decode(want)
				if d.Why != "" || !g.C.Equal(d.P, acc) || d.Compressed != form.comp {
					t.Fatalf("%s: vector %d: reference decode failed (%q)", name, i, d.Why)
				}
				if i%97 == 0 && !g.InSubgroup(d.P) {
					t.Fatalf("%s: vector %d not in subgroup", name, i)
				}
				acc = g.C.Add(acc, g.G)
			}
			lib.CountN("selfcheck:zcash-vectors", 1000)
		}
	}
	// --- NIST curves against crypto/elliptic
	for _, c := range nistCurves() {
		ec := c.ec
		for i := 0; i < 20; i++ {
			r := lib.NewRng("c09/selfcheck/"+c.ref.Name, i)
			k := randBelow(r, c.ref.N)
			x, y := ec.ScalarBaseMult(k.Bytes())
			p := c.ref.C.Mul(k, c.ref.G)
			if p.X.A.Cmp(x) != 0 || p.Y.A.Cmp(y) != 0 {
				t.Fatalf("%s: k*G differs from crypto/elliptic", c.ref.Name)
			}
			if !lib.Eq(c.ref.Encode(p, true), elliptic.MarshalCompressed(ec, x, y)) || !lib.Eq(c.ref.Encode(p, false), elliptic.Marshal(ec, x, y)) {
				t.Fatalf("%s: SEC1 encoding differs from crypto/elliptic", c.ref.Name)
			}
			d := c.ref.Decode(elliptic.MarshalCompressed(ec, x, y))
			if d.Why != "" || !c.ref.C.Equal(d.P, p) {
				t.Fatalf("%s: SEC1 compressed decode: %q", c.ref.Name, d.Why)
			}
		}
		if !c.ref.C.Mul(c.ref.N, c.ref.G).Inf {
			t.Fatalf("%s: N*G != O", c.ref.Name)
		}
	}
	// --- Ed448
	if !c09ref.Ed448.OnCurve(c09ref.Ed448G) {
		t.Fatal("Ed448 generator not on curve")
	}
	if !c09ref.Ed448.IsIdentity(c09ref.Ed448.Mul(c09ref.Ed448Order, c09ref.Ed448G)) {
		t.Fatal("Ed448: order*G != identity")
	}
	// RFC 8032 7.4, first test vector: public key of the all-known secret is a multiple of G
	pk, _ := hex.DecodeString("5fd7449b59b461fd2ce787ec616ad46a1da1342485a70e1f8a0ea75d80e96778edf124769b46c7061bd6783df1e50f6cd1fa1abeafe8256180")
	if p, why := c09ref.Ed448Decode(pk); why != "" || !c09ref.Ed448.OnCurve(p) || !lib.Eq(c09ref.Ed448Encode(p), pk) ||
		!c09ref.Ed448.IsIdentity(c09ref.Ed448.Mul(c09ref.Ed448Order, p)) {
		t.Fatalf("Ed448: RFC 8032 public key does not decode (%q)", why)
	}
	{
		e := c09ref.Ed448
		s := e.Add(e.Add(c09ref.Ed448G, c09ref.Ed448G), c09ref.Ed448G)
		if !e.Equal(s, e.Mul(big.NewInt(3), c09ref.Ed448G)) {
			t.Fatal("Ed448: affine vs projective mismatch")
		}
	}
	// --- FourQ
	if !c09ref.FourQ.OnCurve(c09ref.FourQG) {
		t.Fatal("FourQ generator not on curve")
	}
	if !c09ref.FourQ.IsIdentity(c09ref.FourQ.Mul(c09ref.FourQN, c09ref.FourQG)) {
		t.Fatal("FourQ: N*G != identity")
	}
	{
		// a random curve point has order dividing 392*N
		r := lib.NewRng("c09/selfcheck/fourq", 0)
		for n := 0; n < 4; {
			in := r.Bytes(32)
			in[15] &= 0x7F
			p, why := c09ref.FourQDecode(in)
			if why != "" {
				continue
			}
			n++
			full := new(big.Int).Mul(c09ref.FourQN, c09ref.FourQCofactor)
			if !c09ref.FourQ.OnCurve(p) || !c09ref.FourQ.IsIdentity(c09ref.FourQ.Mul(full, p)) {
				t.Fatal("FourQ: decoded point not of order | 392 N")
			}
			if !lib.Eq(c09ref.FourQEncode(p), in) {
				t.Fatal("FourQ: encode(decode) != id")
			}
		}
	}
	// --- ristretto255, RFC 9496 A.1 (multiples of the generator) and A.3 (bad encodings)
	good := []string{
		"0000000000000000000000000000000000000000000000000000000000000000",
		"e2f2ae0a6abc4e71a884a961c500515f58e30b6aa582dd8db6a65945e08d2d76",
		"6a493210f7499cd17fecb510ae0cea23a110e8d5b901f8acadd3095c73a3b919",
	}
	for _, h := range good {
		b, _ := hex.DecodeString(h)
		x, y, why := c09ref.R255Decode(b)
		if why != "" || !c09ref.R255OnCurve(x, y) {
			t.Fatalf("ristretto255: RFC 9496 vector %s refused (%q)", h, why)
		}
		f := c09ref.R255Curve.F
		p := c09ref.EPt{X: f.FromBig(x, big.NewInt(0)), Y: f.FromBig(y, big.NewInt(0))}
		// the representative lies in 2E, of order 4l
		if !c09ref.R255Curve.IsIdentity(c09ref.R255Curve.Mul(new(big.Int).Lsh(c09ref.R255L, 2), p)) {
			t.Fatalf("ristretto255: representative of %s not of order dividing 4l", h)
		}
	}
	bad := []string{
		// non-canonical field encodings
		"00ffffffffffffffffffffffffffffffffffffffffffffffffffffffffffffff",
		"ffffffffffffffffffffffffffffffffffffffffffffffffffffffffffffff7f",
		"f3ffffffffffffffffffffffffffffffffffffffffffffffffffffffffffff7f",
		"edffffffffffffffffffffffffffffffffffffffffffffffffffffffffffff7f",
		// negative field elements
		"0100000000000000000000000000000000000000000000000000000000000000",
		"01ffffffffffffffffffffffffffffffffffffffffffffffffffffffffffff7f",
	}
	for _, h := range bad {
		b, _ := hex.DecodeString(h)
		if _, _, why := c09ref.R255Decode(b); why == "" {
			t.Fatalf("ristretto255: RFC 9496 bad encoding %s accepted by the reference", h)
		}
	}
	// --- ML-KEM coefficient helpers
	ek := make([]byte, 384*2+32)
	c09ref.MLKEMSetCoeff(ek, 5, 3329)
	if ok, bad := c09ref.MLKEMEncapsKeyOK(ek, 2); ok || bad != 5 {
		t.Fatal("ML-KEM coefficient helper broken")
	}
	c09ref.MLKEMSetCoeff(ek, 5, 3328)
	c09ref.MLKEMSetCoeff(ek, 4, 3328)
	if ok, _ := c09ref.MLKEMEncapsKeyOK(ek, 2); !ok {
		t.Fatal("ML-KEM coefficient helper broken (2)")
	}
	lib.Count("selfcheck:done")
}

type nistCurve struct {
	ref *c09ref.SEC1Curve
	ec  elliptic.Curve
}

func nistCurves() []nistCurve {
	var out []nistCurve
	for _, ec := range []elliptic.Curve{elliptic.P256(), elliptic.P384(), elliptic.P521()} {
		p := ec.Params()
		out = append(out, nistCurve{c09ref.NewSEC1(p.Name, p.P, p.B, p.N, p.Gx, p.Gy, p.BitSize), ec})
	}
	return out
}
