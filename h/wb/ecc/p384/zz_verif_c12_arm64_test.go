//go:build verif && arm64 && !purego

package p384

func vc12HasBMI2() bool { return false }
