#!/bin/sh
# The white-box field monitor of the SIDH primes is one file; the master copy is
# wb/dh/sidh/internal/p503.  Run this after editing it.
set -e
cd "$(dirname "$0")/../wb/dh/sidh/internal"
for n in 434 751; do
	mkdir -p p$n
	sed "s/503/$n/g" p503/zz_verif_c14_test.go > p$n/zz_verif_c14_test.go
	# p434 has no HasBMI2 variable (MULX is only used together with ADX there)
	[ $n = 434 ] && sed -i '/lib.Flag("p434.HasBMI2"/d' p$n/zz_verif_c14_test.go
	sed "s/503/$n/g" p503/zz_verif_main_test.go > p$n/zz_verif_main_test.go
done
