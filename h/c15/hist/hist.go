//go:build verif

// Package hist is the history + model monitor shared by all sponge-like
// subjects of property C15 (internal/sha3, xof, xof/k12 black box and the
// white-box lanes monitor compiled into xof/k12).
//
// Model of one live state: the bytes absorbed since creation / the last
// Reset, and the number of bytes squeezed.  Operations: Write(chunk), Read(n),
// Clone (both the clone and the original go on, on the same or on different
// continuations), Reset, Sum (fixed-output hashes).  After every Read the
// bytes returned must equal Ref(absorbed)[off:off+n]; every Sum must equal
// prefix || Ref(absorbed).
//
// It imports no circl package (it is linked into circl's own test binaries).
package hist

import (
	"fmt"
	"io"
	"strings"

	"github.com/cloudflare/circl/internal/zzverif/lib"
)

// Subject is one hash / XOF state under observation.
type Subject interface {
	io.Writer
	io.Reader
	Reset()
}

// Spec describes a family of subjects that share a reference function.
type Spec struct {
	Mon    string // monitor (test function) name
	Name   string // stable name used in finding keys and counters
	Param  []byte // customisation / domain byte ... (witness + case identity)
	Rate   int    // sponge rate (bytes): drives the edge lengths
	Digest int    // > 0: fixed-output hash of that many bytes
	New    func() Subject
	Clone  func(Subject) Subject
	Sum    func(Subject, []byte) []byte // Digest > 0 only
	Ref    func(msg []byte, n int) []byte
	Lens   []int // further edge message lengths (chunk boundaries ...)
	Units  []int // further alignment units for partitions (8192, lanes*8192)
	MaxLen int   // bound of the uniformly random message lengths
	Force  *int  // if set, the message length of this history (directed case)
	Calm   bool  // no Clone / Reset / Sum events (directed boundary cases)
	// Hook, if set, is told about every write (bytes absorbed before, chunk
	// length) and about the finalisation (ev "final", total absorbed, 0) so
	// that subject-specific branch counters can be kept.
	Hook func(ev string, before, n int)
}

const (
	fClone = 1 << iota
	fReset
	fSum
)

type live struct {
	s        Subject
	absorbed []byte
	stream   []byte
	off      int
	flags    int
	dead     bool
	id       int
}

type hst struct {
	sp      *Spec
	r       *lib.Rng
	stream  string
	index   int
	events  int
	forks   int
	nlive   int
	pending []func()
	desc    strings.Builder
}

func key(class, name string) string { return "C15:" + class + ":" + name }

// Run plays history number index of the given stream against the subject.
func Run(sp *Spec, stream string, index int) {
	h := &hst{sp: sp, r: lib.NewRng(stream, index), stream: stream, index: index}
	L := h.pickLen()
	if sp.Force != nil {
		L = *sp.Force
	}
	msg := h.content(L)
	writes := partition(h.r, L, append([]int{sp.Rate}, sp.Units...))
	reads := h.readPlan()
	root := h.newLive(sp.New())
	h.play(root, msg, writes, reads)
	for len(h.pending) > 0 {
		f := h.pending[0]
		h.pending = h.pending[1:]
		f()
	}
	lib.Case([]byte(sp.Name), sp.Param, msg, []byte(h.desc.String()))
	lib.Count("histories")
	lib.Count("histories:" + sp.Name)
	if index < 2 {
		d := h.desc.String()
		if len(d) > 400 {
			d = d[:400] + "..."
		}
		lib.Sample(sp.Mon, lib.D("subject", sp.Name, "param", sp.Param, "msg_len", L, "ops", d))
	}
}

func (h *hst) newLive(s Subject) *live {
	h.nlive++
	return &live{s: s, id: h.nlive}
}

func (h *hst) log(l *live, format string, a ...any) {
	if h.desc.Len() < 1<<16 {
		fmt.Fprintf(&h.desc, "%d:", l.id)
		fmt.Fprintf(&h.desc, format, a...)
		h.desc.WriteByte(' ')
	}
}

// ---------------------------------------------------------------- generators

func (h *hst) smallEdges() []int {
	rt := h.sp.Rate
	return []int{0, 1, 2, 7, 8, 9, rt - 2, rt - 1, rt, rt + 1, 2*rt - 1, 2 * rt, 2*rt + 1, 3*rt - 1, 3 * rt, 3*rt + 1}
}

func (h *hst) pickLen() int {
	r := h.r
	sp := h.sp
	x := r.Intn(100)
	switch {
	case x < 40 || (x < 75 && len(sp.Lens) == 0):
		e := h.smallEdges()
		return e[r.Intn(len(e))]
	case x < 75:
		return sp.Lens[r.Intn(len(sp.Lens))]
	case x < 90:
		return r.Intn(4*sp.Rate + 1)
	default:
		m := sp.MaxLen
		if m <= 0 {
			m = 4 * sp.Rate
		}
		return r.Intn(m + 1)
	}
}

func (h *hst) content(n int) []byte {
	r := h.r
	switch r.Intn(10) {
	case 0:
		return make([]byte, n)
	case 1:
		b := make([]byte, n)
		for i := range b {
			b[i] = 0xFF
		}
		return b
	case 2:
		b := make([]byte, n)
		for i := range b {
			b[i] = byte(i % 0xFB)
		}
		return b
	default:
		return r.Bytes(n)
	}
}

// partition splits L into chunk sizes; units[0] is the sponge rate.
func partition(r *lib.Rng, L int, units []int) []int {
	u := units[r.Intn(len(units))]
	if u <= 0 {
		u = 1
	}
	var out []int
	rest := L
	take := func(n int) {
		if n > rest {
			n = rest
		}
		if n < 0 {
			n = 0
		}
		out = append(out, n)
		rest -= n
	}
	switch r.Intn(8) {
	case 0: // one chunk
		take(L)
	case 1: // bytewise (all of a short input, both ends of a long one)
		if L <= 700 {
			for rest > 0 {
				take(1)
			}
		} else {
			for i := 0; i < 200; i++ {
				take(1)
			}
			take(rest - 200)
			for rest > 0 {
				take(1)
			}
		}
	case 2: // unit aligned
		for rest > 0 {
			take(u * (1 + r.Intn(3)))
		}
	case 3: // random cuts
		k := 1 + r.Intn(6)
		cuts := make([]int, k)
		for i := range cuts {
			cuts[i] = r.Intn(L + 1)
		}
		sortInts(cuts)
		prev := 0
		for _, c := range cuts {
			take(c - prev)
			prev = c
		}
		take(rest)
	case 4: // cuts at unit boundaries +-1
		var cuts []int
		if L >= u {
			for i := 0; i < 1+r.Intn(6); i++ {
				c := u*(1+r.Intn(L/u)) + r.Intn(3) - 1
				if c >= 0 && c <= L {
					cuts = append(cuts, c)
				}
			}
		}
		sortInts(cuts)
		prev := 0
		for _, c := range cuts {
			take(c - prev)
			prev = c
		}
		take(rest)
	case 5: // short prefix, then whole units
		take(1 + r.Intn(u))
		for rest > 0 {
			take(u)
		}
	case 6: // palette of sizes
		for rest > 0 {
			uu := units[r.Intn(len(units))]
			take(lib.Pick(r, 0, 1, uu-1, uu, uu+1, 2*uu, 2*uu+1, 3*uu-1, r.Intn(3*uu+1), rest))
		}
	default: // two chunks split around a unit boundary or anywhere
		if L > 0 {
			c := r.Intn(L + 1)
			if L >= u && r.Bool() {
				c = u*(1+r.Intn(L/u)) + r.Intn(3) - 1
			}
			take(c)
		}
		take(rest)
	}
	if rest > 0 {
		take(rest)
	}
	if len(out) == 0 {
		out = append(out, 0)
	}
	if r.Intn(5) == 0 { // a zero-length chunk somewhere
		i := r.Intn(len(out) + 1)
		out = append(out[:i], append([]int{0}, out[i:]...)...)
	}
	return out
}

func sortInts(a []int) {
	for i := 1; i < len(a); i++ {
		for j := i; j > 0 && a[j] < a[j-1]; j-- {
			a[j], a[j-1] = a[j-1], a[j]
		}
	}
}

func (h *hst) readPlan() []int {
	r := h.r
	rt := h.sp.Rate
	if d := h.sp.Digest; d > 0 {
		t := d
		if r.Intn(4) == 0 {
			t = 1 + r.Intn(d)
		}
		return partition(r, t, []int{8, 1})
	}
	var t int
	switch x := r.Intn(100); {
	case x < 60:
		t = lib.Pick(r, 1, 16, 32, 64, rt-1, rt, rt+1, 2*rt-1, 2*rt, 2*rt+1, 3*rt+7)
	case x < 95:
		t = 1 + r.Intn(4*rt)
	default:
		t = 4096 + r.Intn(4096)
	}
	return partition(r, t, []int{rt})
}

// ---------------------------------------------------------------- playing

func (h *hst) play(l *live, msg []byte, writes, reads []int) {
	sp := h.sp
	pos := 0
	for wi, w := range writes {
		h.absorbEvent(l, msg[pos:], writes[wi:], reads)
		if l.dead {
			return
		}
		h.write(l, msg[pos:pos+w])
		pos += w
		if l.dead {
			return
		}
	}
	squeezing := l.stream != nil // a clone of a squeezing state: reads only
	if !squeezing {
		h.absorbEvent(l, nil, nil, reads)
		if l.dead {
			return
		}
	}
	if sp.Digest > 0 && !squeezing {
		h.sum(l)
		if l.dead {
			return
		}
		if h.r.Intn(3) == 0 {
			// Sum must not disturb further writes
			extra := h.r.Bytes(lib.Pick(h.r, 1, sp.Rate-1, sp.Rate, sp.Rate+1, h.r.Intn(2*sp.Rate+1)))
			for _, w := range partition(h.r, len(extra), []int{sp.Rate}) {
				h.write(l, extra[:w])
				extra = extra[w:]
				if l.dead {
					return
				}
			}
			lib.Count("write-after-sum")
			h.sum(l)
			if l.dead {
				return
			}
		}
	}
	for ri, n := range reads {
		if h.squeezeEvent(l, reads[ri:]) || l.dead {
			return
		}
		h.read(l, n, sumInts(reads[ri:]))
		if l.dead {
			return
		}
	}
}

func sumInts(a []int) int {
	t := 0
	for _, v := range a {
		t += v
	}
	return t
}

func (h *hst) fork(l *live) *live {
	sp := h.sp
	var c Subject
	if p := lib.Try(sp.Name+".Clone", nil, func() { c = sp.Clone(l.s) }); p != nil || c == nil {
		v := "nil"
		if p != nil {
			v = p.Value
		}
		lib.Violation(key("panic", sp.Name+".Clone"), sp.Mon, h.detail(l, "panic", v))
		l.dead = true
		return nil
	}
	h.forks++
	lib.Count("op:clone")
	cl := h.newLive(c)
	cl.absorbed = append([]byte(nil), l.absorbed...)
	cl.stream = l.stream
	cl.off = l.off
	l.flags |= fClone
	cl.flags = l.flags
	if h.r.Bool() {
		// the clone becomes the state that goes on first
		l.s, cl.s = cl.s, l.s
		h.log(l, "CLONE(swap)->%d", cl.id)
	} else {
		h.log(l, "CLONE->%d", cl.id)
	}
	return cl
}

func (h *hst) reset(l *live) {
	sp := h.sp
	if p := lib.Try(sp.Name+".Reset", nil, func() { l.s.Reset() }); p != nil {
		lib.Violation(key("panic", sp.Name+".Reset"), sp.Mon, h.detail(l, "panic", p.Value))
		l.dead = true
		return
	}
	lib.Count("op:reset")
	if len(l.absorbed) > 0 {
		lib.Count("reset:nonempty")
	}
	l.absorbed = nil
	l.stream = nil
	l.off = 0
	l.flags |= fReset
	h.log(l, "RESET")
}

// absorbEvent possibly inserts Clone / Reset / Sum between two writes.
func (h *hst) absorbEvent(l *live, restMsg []byte, restWrites, reads []int) {
	r := h.r
	sp := h.sp
	if sp.Calm || h.events >= 5 || r.Intn(100) >= 14 {
		return
	}
	h.events++
	x := r.Intn(10)
	switch {
	case x < 5 && h.forks < 3:
		if len(l.absorbed)%sp.Rate != 0 {
			lib.Count("clone:absorbing-partial-block")
		} else {
			lib.Count("clone:absorbing-block-aligned")
		}
		side := h.fork(l)
		if side == nil {
			return
		}
		switch r.Intn(3) {
		case 0: // same continuation
			rm, rw := restMsg, restWrites
			h.pending = append(h.pending, func() { h.play(side, rm, rw, reads) })
		case 1: // squeezed right away
			rp := h.readPlan()
			h.pending = append(h.pending, func() { h.play(side, nil, nil, rp) })
		default: // different continuation
			m2 := h.content(h.pickLenSmall())
			w2 := partition(r, len(m2), []int{sp.Rate})
			rp := h.readPlan()
			h.pending = append(h.pending, func() { h.play(side, m2, w2, rp) })
		}
	case x < 7:
		h.reset(l)
	default:
		if sp.Digest > 0 {
			h.sum(l)
		} else if h.forks < 3 {
			// XOF: squeeze a clone now (= what Sum does), the original goes on
			side := h.fork(l)
			if side == nil {
				return
			}
			rp := h.readPlan()
			// played immediately, before the original absorbs more
			h.play(side, nil, nil, rp)
		}
	}
}

func (h *hst) pickLenSmall() int {
	e := h.smallEdges()
	if h.r.Bool() {
		return e[h.r.Intn(len(e))]
	}
	return h.r.Intn(3*h.sp.Rate + 1)
}

// squeezeEvent possibly inserts Clone / Reset between two reads; it returns
// true if the rest of the read plan has been consumed.
func (h *hst) squeezeEvent(l *live, restReads []int) bool {
	r := h.r
	sp := h.sp
	if sp.Calm || h.events >= 5 || r.Intn(100) >= 12 || l.stream == nil {
		return false
	}
	h.events++
	if r.Intn(10) < 6 && h.forks < 3 {
		if sp.Digest > 0 {
			return false
		}
		lib.Count("clone:squeezing")
		if l.off%sp.Rate != 0 {
			lib.Count("clone:squeezing-mid-block")
		}
		side := h.fork(l)
		if side == nil {
			return false
		}
		rp := restReads
		if r.Bool() {
			rp = h.readPlan()
		}
		h.pending = append(h.pending, func() { h.play(side, nil, nil, rp) })
		return false
	}
	lib.Count("reset:while-squeezing")
	h.reset(l)
	if l.dead {
		return true
	}
	m2 := h.content(h.pickLenSmall())
	h.play(l, m2, partition(r, len(m2), []int{sp.Rate}), h.readPlan())
	return true
}

func (h *hst) write(l *live, chunk []byte) {
	sp := h.sp
	in := append([]byte(nil), chunk...)
	if len(chunk) == 0 && h.r.Bool() {
		in = []byte{}
	}
	before := len(l.absorbed)
	var n int
	var err error
	if p := lib.Try(sp.Name+".Write", in, func() { n, err = l.s.Write(in) }); p != nil {
		lib.Violation(key("panic", sp.Name+".Write"), sp.Mon, h.detail(l, "panic", p.Value, "frame", p.TopFrame(), "chunk_len", len(chunk)))
		l.dead = true
		return
	}
	if n != len(chunk) || err != nil {
		lib.Violation(key("bad-return", sp.Name+".Write"), sp.Mon, h.detail(l, "n", n, "err", err, "chunk_len", len(chunk)))
	}
	if !lib.Eq(in, chunk) {
		lib.Violation(key("input-modified", sp.Name+".Write"), sp.Mon, h.detail(l, "chunk_len", len(chunk)))
	}
	l.absorbed = append(l.absorbed, chunk...)
	h.log(l, "W%d", len(chunk))
	lib.Count("op:write")
	rt := sp.Rate
	switch {
	case len(chunk) == 0:
		lib.Count("write:zero-length")
	case before%rt == 0 && len(chunk) >= rt:
		lib.Count("write:block-aligned-full-block")
	case before%rt != 0 && before%rt+len(chunk) == rt:
		lib.Count("write:fills-buffer-exactly")
	case before%rt != 0 && before%rt+len(chunk) > rt:
		lib.Count("write:crosses-block-with-partial-buffer")
	}
	if sp.Hook != nil {
		sp.Hook("write", before, len(chunk))
	}
}

func (h *hst) finalCounters(l *live) {
	sp := h.sp
	rt := sp.Rate
	switch len(l.absorbed) % rt {
	case 0:
		lib.Count("pad:empty-last-block")
	case rt - 1:
		lib.Count("pad:domain-byte-and-final-bit-share-a-byte")
	}
	if sp.Hook != nil {
		sp.Hook("final", len(l.absorbed), 0)
	}
}

func (h *hst) read(l *live, n, planned int) {
	sp := h.sp
	if l.stream == nil {
		h.finalCounters(l)
	}
	if len(l.stream) < l.off+n || l.stream == nil {
		want := l.off + planned
		if want < l.off+n {
			want = l.off + n
		}
		if sp.Digest > 0 {
			want = sp.Digest
		}
		l.stream = sp.Ref(l.absorbed, want)
	}
	if sp.Digest > 0 && l.off+n > sp.Digest {
		return
	}
	const tail = 8
	full := make([]byte, n+tail)
	for i := range full {
		full[i] = 0xA5
	}
	buf := full[:n]
	var got int
	var err error
	if p := lib.Try(sp.Name+".Read", nil, func() { got, err = l.s.Read(buf) }); p != nil {
		lib.Violation(key("panic", sp.Name+".Read"), sp.Mon, h.detail(l, "panic", p.Value, "frame", p.TopFrame(), "n", n))
		l.dead = true
		return
	}
	h.log(l, "R%d", n)
	lib.Count("op:read")
	lib.Eval()
	if got != n || err != nil {
		lib.Violation(key("bad-return", sp.Name+".Read"), sp.Mon, h.detail(l, "n", n, "got", got, "err", err))
	}
	for _, b := range full[n:] {
		if b != 0xA5 {
			lib.Violation(key("write-past-len", sp.Name+".Read"), sp.Mon, h.detail(l, "n", n))
			break
		}
	}
	want := l.stream[l.off : l.off+n]
	rt := sp.Rate
	switch {
	case n == 0:
		lib.Count("read:zero-length")
	case l.off/rt != (l.off+n-1)/rt:
		lib.Count("read:crosses-block")
	}
	if n > 0 && (l.off+n)%rt == 0 {
		lib.Count("read:ends-on-block-boundary")
	}
	if l.off > 0 {
		lib.Count("read:continued")
	}
	if !lib.Eq(buf, want) {
		h.mismatch(l, "Read", buf, want, l.off, n)
		l.dead = true
		return
	}
	l.off += n
}

func (h *hst) sum(l *live) {
	sp := h.sp
	prefix := h.r.Bytes(lib.Pick(h.r, 0, 0, 1, 7, 32))
	if len(prefix) > 0 && h.r.Bool() {
		// spare capacity: Sum appends in place
		p := make([]byte, len(prefix), len(prefix)+sp.Digest+8)
		copy(p, prefix)
		prefix = p
	}
	keep := append([]byte(nil), prefix...)
	var out []byte
	if p := lib.Try(sp.Name+".Sum", nil, func() { out = sp.Sum(l.s, prefix) }); p != nil {
		lib.Violation(key("panic", sp.Name+".Sum"), sp.Mon, h.detail(l, "panic", p.Value, "frame", p.TopFrame()))
		l.dead = true
		return
	}
	h.log(l, "SUM")
	lib.Count("op:sum")
	lib.Eval()
	l.flags |= fSum
	want := append(keep, sp.Ref(l.absorbed, sp.Digest)...)
	if !lib.Eq(out, want) {
		h.mismatch(l, "Sum", out, want, 0, sp.Digest)
		l.dead = true
	}
}

// mismatch triages an output that differs from the reference: the same
// message is fed to a fresh state in one Write and squeezed with one Read; if
// that is also wrong the function itself is wrong, otherwise the result
// depended on the history (chunking, clone, reset).
func (h *hst) mismatch(l *live, op string, got, want []byte, off, n int) {
	sp := h.sp
	class := "wrong-output"
	var one []byte
	lib.Try(sp.Name+".oneshot", l.absorbed, func() {
		f := sp.New()
		f.Write(append([]byte(nil), l.absorbed...))
		one = make([]byte, off+n)
		f.Read(one)
	})
	ref := sp.Ref(l.absorbed, off+n)
	if one != nil && lib.Eq(one, ref) {
		switch {
		case l.flags&fReset != 0:
			class = "depends-on-reset"
		case l.flags&fClone != 0:
			class = "depends-on-clone"
		case l.flags&fSum != 0:
			class = "depends-on-sum"
		default:
			class = "depends-on-chunking"
		}
	}
	lib.Violation(key(class, sp.Name), sp.Mon, h.detail(l, "op", op, "off", off, "n", n, "got", got, "want", want))
}

func (h *hst) detail(l *live, kv ...any) map[string]any {
	d := lib.D(kv...)
	d["subject"] = h.sp.Name
	d["param"] = lib.Hex(h.sp.Param)
	d["absorbed_len"] = len(l.absorbed)
	d["absorbed"] = lib.Hex(l.absorbed)
	d["state_id"] = l.id
	ops := h.desc.String()
	if len(ops) > 3000 {
		ops = "..." + ops[len(ops)-3000:]
	}
	d["ops(id:op)"] = ops
	d["rng_stream"] = h.stream
	d["rng_index"] = h.index
	return d
}
