//go:build verif

package c16

import (
	"crypto/x509"
	"encoding/pem"
	"fmt"
	"math/big"
	"os"
	"path/filepath"
	"sync"
	"testing"

	"github.com/cloudflare/circl/internal/zzverif/lib"
	"github.com/cloudflare/circl/zk/qndleq"
	"golang.org/x/crypto/sha3"
)

type qnModulus struct {
	name    string
	N, p, q *big.Int
	brute   bool // small enough for the brute-force forgeries
}

var (
	qnOnce sync.Once
	qnMods []*qnModulus
	qnErr  error
)

var smallPrimes = []int64{3, 5, 7, 11, 13, 17, 19, 23, 29, 31, 37, 41, 43, 47, 53, 59, 61, 67, 71, 73, 79, 83, 89, 97, 101, 103, 107, 109, 113, 127, 131, 137, 139, 149, 151, 157, 163, 167, 173, 179, 181, 191, 193, 197, 199}

// safePrime returns p = 2q+1 with p, q prime, p of exactly `bits` bits.
func safePrime(r *lib.Rng, bits int) *big.Int {
	one := big.NewInt(1)
	m := new(big.Int)
	for {
		q := new(big.Int).SetBytes(r.Bytes((bits + 6) / 8))
		q.SetBit(q, bits-2, 1)
		for i := q.BitLen() - 1; i > bits-2; i-- {
			q.SetBit(q, i, 0)
		}
		q.SetBit(q, 0, 1)
		p := new(big.Int).Lsh(q, 1)
		p.Add(p, one)
		ok := true
		for _, s := range smallPrimes {
			sp := big.NewInt(s)
			if m.Mod(q, sp).Sign() == 0 || m.Mod(p, sp).Sign() == 0 {
				ok = false
				break
			}
		}
		if ok && q.ProbablyPrime(24) && p.ProbablyPrime(24) {
			return p
		}
	}
}

func isSafePrime(p *big.Int) bool {
	q := new(big.Int).Rsh(p, 1)
	return p.ProbablyPrime(24) && q.ProbablyPrime(24)
}

func qnModuli() ([]*qnModulus, error) {
	qnOnce.Do(func() {
		for i, bits := range []int{128, 160, 256} {
			r := lib.NewRng("c16/qndleq/modulus", i)
			p := safePrime(r, bits)
			q := safePrime(r, bits)
			for q.Cmp(p) == 0 {
				q = safePrime(r, bits)
			}
			qnMods = append(qnMods, &qnModulus{fmt.Sprintf("generated-%d", 2*bits), new(big.Int).Mul(p, q), p, q, true})
		}
		for _, f := range []string{"safe-1024.pem", "safe-1536.pem", "safe-2048.pem"} {
			b, err := os.ReadFile(filepath.Join(lib.Root(), "testdata", "rsa", f))
			if err != nil {
				qnErr = err
				return
			}
			blk, _ := pem.Decode(b)
			if blk == nil {
				qnErr = fmt.Errorf("%s: no PEM block", f)
				return
			}
			k, err := x509.ParsePKCS1PrivateKey(blk.Bytes)
			if err != nil {
				k8, err8 := x509.ParsePKCS8PrivateKey(blk.Bytes)
				if err8 != nil {
					qnErr = fmt.Errorf("%s: %v", f, err)
					return
				}
				_ = k8
				qnErr = fmt.Errorf("%s: PKCS#8 not expected", f)
				return
			}
			if len(k.Primes) != 2 || !isSafePrime(k.Primes[0]) || !isSafePrime(k.Primes[1]) {
				qnErr = fmt.Errorf("%s: not a product of two safe primes", f)
				return
			}
			qnMods = append(qnMods, &qnModulus{f, new(big.Int).Set(k.N), k.Primes[0], k.Primes[1], false})
		}
	})
	return qnMods, qnErr
}

// qnChallenge is the monitor's own statement of the Fiat-Shamir challenge
// (SHAKE-256 over the six fixed-width values), used to build forgeries.
func qnChallenge(g, gx, h, hx, gP, hP, N *big.Int, secParam uint) *big.Int {
	l := (N.BitLen() + 7) / 8
	buf := make([]byte, l)
	H := sha3.NewShake256()
	for _, v := range []*big.Int{g, h, gx, hx, gP, hP} {
		H.Write(v.FillBytes(buf))
	}
	c := make([]byte, (secParam+7)/8)
	H.Read(c)
	return new(big.Int).SetBytes(c)
}

type qnStmt struct{ g, gx, h, hx, N *big.Int }

func (s qnStmt) d() map[string]any {
	return map[string]any{"g": s.g.Text(16), "gx": s.gx.Text(16), "h": s.h.Text(16), "hx": s.hx.Text(16), "N": s.N.Text(16)}
}

func (s qnStmt) bytes() []byte {
	return cat(s.g.Bytes(), []byte{0}, s.gx.Bytes(), []byte{0}, s.h.Bytes(), []byte{0}, s.hx.Bytes(), []byte{0}, s.N.Bytes())
}

func qnVerify(what string, p qndleq.Proof, s qnStmt) (bool, *lib.Panic) {
	in := s.bytes()
	if p.Z != nil && p.C != nil {
		in = cat(p.Z.Bytes(), []byte{0}, p.C.Bytes(), []byte{byte(p.SecParam)}, in)
	}
	return tryBool("qndleq.Proof.Verify:"+what, in, func() bool { return p.Verify(s.g, s.gx, s.h, s.hx, s.N) })
}

func TestVerifQNDLEQ(t *testing.T) {
	const mon = "TestVerifQNDLEQ"
	const knownKey = "C16:forge:qndleq.Proof.Verify:prover-chosen-SecParam"
	mods, err := qnModuli()
	if err != nil {
		t.Fatalf("moduli: %v", err)
	}
	// self-check of the generated moduli
	for _, m := range mods {
		if !isSafePrime(m.p) || !isSafePrime(m.q) || new(big.Int).Mul(m.p, m.q).Cmp(m.N) != 0 {
			t.Fatalf("modulus %s is not a product of two safe primes", m.name)
		}
	}
	lib.Mandatory("qndleq:honest-accepted", "qndleq:altered-rejected:Z", "qndleq:altered-rejected:C", "qndleq:altered-rejected:SecParam",
		"qndleq:altered-rejected:statement", "qndleq:altered-rejected:N", "qndleq:false-statement-rejected",
		"qndleq:secparam0-forgery-tried", "qndleq:tiny-secparam-forgery-built", "qndleq:degenerate-proof-rejected",
		"qndleq:challenge-model-agrees")
	type cs struct {
		m *qnModulus
		i int
	}
	var cases []cs
	for _, m := range mods {
		per := lib.Scale(24, 80)
		switch {
		case m.N.BitLen() > 1600:
			per = lib.Scale(3, 8)
		case m.N.BitLen() > 600:
			per = lib.Scale(6, 16)
		}
		for i := 0; i < per; i++ {
			cases = append(cases, cs{m, i})
		}
	}
	secParams := []uint{128, 64, 256, 100, 65, 80, 128, 9, 8, 1, 0}
	lib.Par(len(cases), func(ci int) {
		c := cases[ci]
		N := c.m.N
		r := lib.NewRng("c16/qndleq/"+c.m.name, c.i)
		g, err1 := qndleq.SampleQn(r, N)
		h, err2 := qndleq.SampleQn(r, N)
		if err1 != nil || err2 != nil {
			lib.Violation("C16:error:qndleq.SampleQn", mon, lib.D("N", N.Text(16)))
			return
		}
		xbits := lib.Pick(r, N.BitLen(), N.BitLen()-2, 64, 8, N.BitLen()+64)
		x := new(big.Int).SetBytes(r.Bytes((xbits + 7) / 8))
		if x.Sign() == 0 {
			x.SetInt64(3)
		}
		st := qnStmt{g, new(big.Int).Exp(g, x, N), h, new(big.Int).Exp(h, x, N), N}
		sp := secParams[c.i%len(secParams)]
		base := withKV(st.d(), "modulus", c.m.name, "x", x.Text(16), "SecParam", sp)
		lib.Case([]byte("qndleq"), st.bytes(), x.Bytes(), []byte{byte(sp), byte(sp >> 8)})
		var proof *qndleq.Proof
		var perr error
		if pn := lib.Try("qndleq.Prove", st.bytes(), func() { proof, perr = qndleq.Prove(r, x, st.g, st.gx, st.h, st.hx, N, sp) }); pn != nil || perr != nil {
			lib.Violation("C16:honest-rejected:qndleq.Prove", mon, withErr(base, perr))
			return
		}
		base["Z"], base["C"] = proof.Z.Text(16), proof.C.Text(16)
		if ok, pn := qnVerify("honest", *proof, st); !ok {
			d := withKV(base)
			if pn != nil {
				d["panic"] = pn.Value
			}
			lib.Violation("C16:honest-rejected:qndleq.Proof.Verify", mon, d)
			return
		}
		lib.Count("qndleq:honest-accepted")
		lib.Count(fmt.Sprintf("qndleq:honest-accepted:SecParam-%d", sp))
		if proof.SecParam != sp {
			lib.Violation("C16:output-mismatch:qndleq.Prove:SecParam", mon, base)
		}
		// the monitor's own challenge function must agree with the proof
		// (otherwise the forgeries below would prove nothing)
		{
			inv := func(a, e *big.Int) *big.Int {
				t := new(big.Int).Exp(a, e, N)
				return t.ModInverse(t, N)
			}
			gP := new(big.Int).Exp(g, proof.Z, N)
			gP.Mul(gP, inv(st.gx, proof.C)).Mod(gP, N)
			hP := new(big.Int).Exp(h, proof.Z, N)
			hP.Mul(hP, inv(st.hx, proof.C)).Mod(hP, N)
			if qnChallenge(g, st.gx, h, st.hx, gP, hP, N, sp).Cmp(proof.C) == 0 {
				lib.Count("qndleq:challenge-model-agrees")
			} else {
				lib.Count("qndleq:challenge-model-disagrees")
			}
		}

		one := big.NewInt(1)
		otherQn := func() *big.Int { e, _ := qndleq.SampleQn(r, N); return e }
		// ---- alterations: only meaningful when a chance hit is out of reach
		if sp >= 64 {
			reject := func(component, variant string, p qndleq.Proof, s qnStmt) {
				lib.Case([]byte("qndleq-alt"), []byte(component), []byte(variant), p.Z.Bytes(), p.C.Bytes(), []byte{byte(p.SecParam), byte(p.SecParam >> 8)}, s.bytes())
				ok, pn := qnVerify(component, p, s)
				if pn != nil {
					// e.g. an element that does not fit the modulus width makes
					// big.Int.FillBytes panic: not an acceptance (panics are C10's subject)
					lib.Count("qndleq:altered-panic:" + variant)
					return
				}
				if ok {
					lib.Violation("C16:altered-accepted:qndleq.Proof.Verify:"+component, mon,
						withKV(base, "variant", variant, "altered_Z", p.Z.Text(16), "altered_C", p.C.Text(16), "altered_SecParam", p.SecParam, "altered_statement", s.d()))
					return
				}
				cc := component
				if cc == "g" || cc == "gx" || cc == "h" || cc == "hx" {
					cc = "statement"
				}
				lib.Count("qndleq:altered-rejected:" + cc)
			}
			Z, C := proof.Z, proof.C
			big2 := func(f func(z *big.Int) *big.Int, v *big.Int) *big.Int { return f(new(big.Int).Set(v)) }
			zAlts := map[string]*big.Int{
				"plus-one":  big2(func(z *big.Int) *big.Int { return z.Add(z, one) }, Z),
				"minus-one": big2(func(z *big.Int) *big.Int { return z.Sub(z, one) }, Z),
				"zero":      new(big.Int),
				"negated":   big2(func(z *big.Int) *big.Int { return z.Neg(z) }, Z),
				"random":    new(big.Int).SetBytes(r.Bytes((Z.BitLen() + 7) / 8)),
				"plus-N":    big2(func(z *big.Int) *big.Int { return z.Add(z, N) }, Z),
				"bitflip":   big2(func(z *big.Int) *big.Int { b := r.Intn(z.BitLen() + 1); return z.SetBit(z, b, z.Bit(b)^1) }, Z),
				"mod-N":     big2(func(z *big.Int) *big.Int { return z.Mod(z, N) }, Z),
			}
			for _, name := range []string{"plus-one", "minus-one", "zero", "negated", "random", "plus-N", "bitflip", "mod-N"} {
				if zAlts[name].Cmp(Z) != 0 {
					reject("Z", name, qndleq.Proof{Z: zAlts[name], C: C, SecParam: sp}, st)
				}
			}
			cAlts := map[string]*big.Int{
				"plus-one":  big2(func(z *big.Int) *big.Int { return z.Add(z, one) }, C),
				"minus-one": big2(func(z *big.Int) *big.Int { return z.Sub(z, one) }, C),
				"zero":      new(big.Int),
				"negated":   big2(func(z *big.Int) *big.Int { return z.Neg(z) }, C),
				"random":    new(big.Int).SetBytes(r.Bytes(int(sp+7) / 8)),
				"bitflip":   big2(func(z *big.Int) *big.Int { b := r.Intn(int(sp)); return z.SetBit(z, b, z.Bit(b)^1) }, C),
				"plus-2^sp": big2(func(z *big.Int) *big.Int { return z.Add(z, new(big.Int).Lsh(one, 8*((sp+7)/8))) }, C),
			}
			for _, name := range []string{"plus-one", "minus-one", "zero", "negated", "random", "bitflip", "plus-2^sp"} {
				if cAlts[name].Cmp(C) != 0 {
					reject("C", name, qndleq.Proof{Z: Z, C: cAlts[name], SecParam: sp}, st)
				}
			}
			// only changes that alter the challenge's byte length: the length is all the verifier derives from it
			for _, nsp := range []uint{sp + 8, sp - 8, sp * 2, 0, 8} {
				reject("SecParam", fmt.Sprintf("to-%d", nsp), qndleq.Proof{Z: Z, C: C, SecParam: nsp}, st)
			}
			// statement elements
			for _, pos := range []string{"g", "gx", "h", "hx"} {
				get := func(s *qnStmt) **big.Int {
					switch pos {
					case "g":
						return &s.g
					case "gx":
						return &s.gx
					case "h":
						return &s.h
					}
					return &s.hx
				}
				orig := *get(&st)
				alts := map[string]*big.Int{
					"other-square": otherQn(),
					"negated":      new(big.Int).Sub(N, orig),
					"squared":      new(big.Int).Exp(orig, big.NewInt(2), N),
					"plus-one":     new(big.Int).Add(orig, one),
					"one":          big.NewInt(1),
					"zero":         new(big.Int),
					"factor-p":     new(big.Int).Set(c.m.p),
					"plus-N":       new(big.Int).Add(orig, N), // may not fit the fixed width: FillBytes panics
				}
				for _, name := range []string{"other-square", "negated", "squared", "plus-one", "one", "zero", "factor-p", "plus-N"} {
					if alts[name].Cmp(orig) == 0 {
						continue
					}
					s := st
					*get(&s) = alts[name]
					reject(pos, name, *proof, s)
				}
			}
			if st.g.Cmp(st.h) != 0 {
				reject("g", "pairs-exchanged", *proof, qnStmt{st.h, st.hx, st.g, st.gx, N})
				reject("gx", "gx-hx-exchanged", *proof, qnStmt{st.g, st.hx, st.h, st.gx, N})
				reject("g", "g-h-exchanged", *proof, qnStmt{st.h, st.gx, st.g, st.hx, N})
			}
			// modulus
			for _, alt := range []struct {
				n string
				v *big.Int
			}{{"plus-two", new(big.Int).Add(N, big.NewInt(2))}, {"minus-two", new(big.Int).Sub(N, big.NewInt(2))},
				{"times-three", new(big.Int).Mul(N, big.NewInt(3))}, {"only-p", new(big.Int).Set(c.m.p)}} {
				s := st
				s.N = alt.v
				reject("N", alt.n, *proof, s)
			}
		}

		// ---- false statements: gx = g^x but hx = h^y, y != x
		y := new(big.Int).Add(x, big.NewInt(int64(1+r.Intn(1000))))
		fst := qnStmt{g, st.gx, h, new(big.Int).Exp(h, y, N), N}
		if fst.hx.Cmp(st.hx) == 0 {
			return
		}
		fbase := withKV(fst.d(), "modulus", c.m.name, "x", x.Text(16), "y", y.Text(16), "statement", "false: log_g(gx) != log_h(hx)")
		// honest prover run on the false statement with either exponent
		if sp >= 64 {
			for _, w := range []*big.Int{x, y} {
				p, err := qndleq.Prove(r, w, fst.g, fst.gx, fst.h, fst.hx, N, sp)
				if err != nil {
					continue
				}
				if ok, _ := qnVerify("false-statement", *p, fst); ok {
					lib.Violation("C16:false-statement-accepted:qndleq.Proof.Verify:prover-with-wrong-witness", mon,
						withKV(fbase, "Z", p.Z.Text(16), "C", p.C.Text(16), "SecParam", p.SecParam))
				} else {
					lib.Count("qndleq:false-statement-rejected")
				}
			}
			// degenerate proofs under an honest parameter
			for _, dg := range [][2]int64{{0, 0}, {1, 0}, {7, 0}, {0, 1}, {1, 1}} {
				p := qndleq.Proof{Z: big.NewInt(dg[0]), C: big.NewInt(dg[1]), SecParam: sp}
				if ok, _ := qnVerify("degenerate", p, fst); ok {
					lib.Violation("C16:forge:qndleq.Proof.Verify:degenerate-proof", mon, withKV(fbase, "Z", dg[0], "C", dg[1], "SecParam", sp))
				} else {
					lib.Count("qndleq:degenerate-proof-rejected")
				}
			}
			for _, p := range []qndleq.Proof{{Z: new(big.Int).Set(N), C: new(big.Int), SecParam: sp}, {Z: proof.Z, C: proof.C, SecParam: sp}} {
				if ok, _ := qnVerify("degenerate", p, fst); ok {
					lib.Violation("C16:forge:qndleq.Proof.Verify:degenerate-proof", mon, withKV(fbase, "Z", p.Z.Text(16), "C", p.C.Text(16), "SecParam", sp))
				} else {
					lib.Count("qndleq:degenerate-proof-rejected")
				}
			}
		}
		// ---- prover-chosen parameter: SecParam = 0 makes the challenge empty
		for _, z := range []*big.Int{big.NewInt(7), big.NewInt(0), big.NewInt(1), new(big.Int).SetBytes(r.Bytes(16))} {
			p := qndleq.Proof{Z: z, C: new(big.Int), SecParam: 0}
			lib.Case([]byte("qndleq-sp0"), z.Bytes(), fst.bytes())
			lib.Count("qndleq:secparam0-forgery-tried")
			if ok, _ := qnVerify("secparam-0", p, fst); ok {
				lib.Count("qndleq:secparam0-forgery-accepted")
				lib.Violation(knownKey, mon, withKV(fbase, "Z", z.Text(10), "C", 0, "SecParam", 0, "family", "SecParam=0"))
			}
		}
		// ---- prover-chosen parameter: SecParam in 1..8 leaves one challenge
		// byte; try (Z, C) pairs until the byte matches (expected 256 tries)
		if c.m.brute {
			tsp := uint(1 + c.i%8)
			var forged *qndleq.Proof
			budget := 6000
			for try := 0; try < budget && forged == nil; try++ {
				Z := new(big.Int).SetBytes(r.Bytes(N.BitLen()/8 + 2))
				C := big.NewInt(int64(r.Intn(256)))
				gxC := new(big.Int).Exp(fst.gx, C, N)
				hxC := new(big.Int).Exp(fst.hx, C, N)
				if gxC.ModInverse(gxC, N) == nil || hxC.ModInverse(hxC, N) == nil {
					continue
				}
				gP := new(big.Int).Exp(g, Z, N)
				gP.Mul(gP, gxC).Mod(gP, N)
				hP := new(big.Int).Exp(h, Z, N)
				hP.Mul(hP, hxC).Mod(hP, N)
				if qnChallenge(g, fst.gx, h, fst.hx, gP, hP, N, tsp).Cmp(C) == 0 {
					forged = &qndleq.Proof{Z: Z, C: C, SecParam: tsp}
				}
			}
			if forged == nil {
				lib.Count("qndleq:tiny-secparam-bruteforce-exhausted")
			} else {
				lib.Count("qndleq:tiny-secparam-forgery-built")
				lib.Case([]byte("qndleq-tiny"), forged.Z.Bytes(), forged.C.Bytes(), []byte{byte(tsp)}, fst.bytes())
				if ok, _ := qnVerify("tiny-secparam", *forged, fst); ok {
					lib.Count("qndleq:tiny-secparam-forgery-accepted")
					lib.Violation(knownKey, mon, withKV(fbase, "Z", forged.Z.Text(16), "C", forged.C.Text(16), "SecParam", tsp, "family", "SecParam in 1..8, brute-forced"))
				}
			}
		}
		if c.i == 0 {
			lib.Sample(mon, base)
		}
	})
}
