//go:build verif

package c15

import (
	"sync"
	"testing"

	"github.com/cloudflare/circl/cipher/ascon"
	"github.com/cloudflare/circl/internal/zzverif/lib"
	refascon "github.com/cloudflare/circl/internal/zzverif/ref/ascon"
)

type asconMode struct {
	name string
	m    ascon.Mode
	ref  refascon.Variant
}

var asconModes = []asconMode{
	{"Ascon128", ascon.Ascon128, refascon.V128},
	{"Ascon128a", ascon.Ascon128a, refascon.V128a},
	{"Ascon80pq", ascon.Ascon80pq, refascon.V80pq},
}

var asconNoteOnce sync.Once

// TestVerifAscon: Seal equals the Ascon v1.2 reference; Open inverts it
// (fresh destination, exact in-place overlap, appending to a prefix with and
// without spare capacity); every single-bit change of key, nonce, associated
// data, ciphertext or tag makes Open return (nil, error).
func TestVerifAscon(t *testing.T) {
	const mon = "TestVerifAscon"
	lib.Mandatory("ascon:tamper-in-place", "ascon:seal-differential", "ascon:open-roundtrip", "ascon:open-in-place", "ascon:seal-in-place",
		"ascon:dst-prefix-with-capacity", "ascon:dst-prefix-realloc",
		"ascon:tamper:key", "ascon:tamper:nonce", "ascon:tamper:ad", "ascon:tamper:ct", "ascon:tamper:tag", "ascon:tamper-rejected",
		"ascon:pt-full-block", "ascon:ad-full-block", "ascon:pt-empty", "ascon:ad-empty", "ascon:full-bit-sweep")
	type cs struct {
		mode   asconMode
		al, pl int
		rep    int
		sweep  bool
	}
	var cases []cs
	for _, m := range asconModes {
		bs := m.ref.Rate()
		max := 3*bs + 1
		edge := map[int]bool{}
		for k := 0; k <= 3; k++ {
			for d := -1; d <= 1; d++ {
				if v := k*bs + d; v >= 0 {
					edge[v] = true
				}
			}
		}
		for al := 0; al <= max; al++ {
			for pl := 0; pl <= max; pl++ {
				// quick: every bit swept on the +-1 block-boundary grid, a
				// sample of bits elsewhere; thorough: every bit everywhere
				full := lib.Thorough() && lib.Cfg() != "asan"
				sweep := full || (edge[al] && edge[pl])
				reps := 1
				if full {
					reps = 3
				}
				for rep := 0; rep < reps; rep++ {
					cases = append(cases, cs{m, al, pl, rep, sweep})
				}
			}
		}
		// a few long ones
		for rep := 0; rep < scale(4, 40); rep++ {
			cases = append(cases, cs{m, -1, -1, rep, false})
		}
	}
	lib.Par(len(cases), func(i int) {
		c := cases[i]
		r := lib.NewRng("c15/ascon/"+c.mode.name, i)
		al, pl := c.al, c.pl
		if al < 0 {
			al, pl = r.Intn(300), r.Intn(2000)
		}
		key := r.Bytes(c.mode.ref.KeySize())
		nonce := r.Bytes(16)
		switch r.Intn(8) {
		case 0:
			key = make([]byte, len(key))
			nonce = make([]byte, 16)
		case 1:
			for j := range key {
				key[j] = 0xFF
			}
			for j := range nonce {
				nonce[j] = 0xFF
			}
		}
		ad := r.Bytes(al)
		pt := r.Bytes(pl)
		if r.Intn(6) == 0 {
			pt = make([]byte, pl)
		}
		asconCase(mon, c.mode, key, nonce, ad, pt, r, c.sweep)
	})
}

func asconCase(mon string, m asconMode, key, nonce, ad, pt []byte, r *lib.Rng, sweep bool) {
	name := m.name
	bs := m.ref.Rate()
	wit := func(kv ...any) map[string]any {
		d := lib.D(kv...)
		d["mode"] = name
		d["key"], d["nonce"], d["ad"], d["pt"] = lib.Hex(key), lib.Hex(nonce), lib.Hex(ad), lib.Hex(pt)
		return d
	}
	lib.Case([]byte(name), key, nonce, ad, pt)
	if len(pt) > 0 && len(pt)%bs == 0 {
		lib.Count("ascon:pt-full-block")
	}
	if len(ad) > 0 && len(ad)%bs == 0 {
		lib.Count("ascon:ad-full-block")
	}
	if len(pt) == 0 {
		lib.Count("ascon:pt-empty")
	}
	if len(ad) == 0 {
		lib.Count("ascon:ad-empty")
	}
	var c *ascon.Cipher
	var err error
	if p := lib.Try("ascon.New:"+name, key, func() { c, err = ascon.New(key, m.m) }); p != nil || err != nil || c == nil {
		lib.Violation("C15:new-failed:ascon:"+name, mon, wit("err", err))
		return
	}
	want := m.ref.Seal(key, nonce, ad, pt)
	keepPt, keepAd, keepNonce := lib.Clone(pt), lib.Clone(ad), lib.Clone(nonce)

	// --- Seal, fresh destination
	var ct []byte
	if p := lib.Try("ascon.Seal:"+name, pt, func() { ct = c.Seal(nil, nonce, pt, ad) }); p != nil {
		lib.Violation("C15:panic:ascon.Seal:"+name, mon, wit("panic", p.Value, "frame", p.TopFrame()))
		return
	}
	lib.Count("ascon:seal-differential")
	if !lib.Eq(ct, want) {
		lib.Violation("C15:wrong-ciphertext:ascon.Seal:"+name, mon, wit("got", ct, "want", want))
		return
	}
	if !lib.Eq(pt, keepPt) || !lib.Eq(ad, keepAd) || !lib.Eq(nonce, keepNonce) {
		lib.Violation("C15:input-modified:ascon.Seal:"+name, mon, wit())
	}
	// --- Seal appending to a prefix (with spare capacity / forcing reallocation)
	for _, spare := range []bool{true, false} {
		prefix := r.Bytes(1 + r.Intn(20))
		dst := make([]byte, len(prefix), len(prefix)+1)
		if spare {
			dst = make([]byte, len(prefix), len(prefix)+len(pt)+16+r.Intn(9))
		}
		copy(dst, prefix)
		var out []byte
		if p := lib.Try("ascon.Seal(prefix):"+name, pt, func() { out = c.Seal(dst, nonce, pt, ad) }); p != nil {
			lib.Violation("C15:panic:ascon.Seal:"+name, mon, wit("panic", p.Value, "dst", "prefix"))
			return
		}
		if len(out) != len(prefix)+len(want) || !lib.Eq(out[:len(prefix)], prefix) || !lib.Eq(out[len(prefix):], want) {
			lib.Violation("C15:wrong-ciphertext:ascon.Seal:"+name+":dst-prefix", mon, wit("prefix", prefix, "spare_capacity", spare, "got", out, "want", want))
		}
	}
	// --- Seal in place (dst = plaintext[:0])
	{
		buf := make([]byte, len(pt), len(pt)+16)
		copy(buf, pt)
		var out []byte
		if p := lib.Try("ascon.Seal(in-place):"+name, pt, func() { out = c.Seal(buf[:0], nonce, buf, ad) }); p != nil {
			lib.Violation("C15:panic:ascon.Seal:"+name, mon, wit("panic", p.Value, "dst", "in-place"))
			return
		}
		lib.Count("ascon:seal-in-place")
		if !lib.Eq(out, want) {
			lib.Violation("C15:wrong-ciphertext:ascon.Seal:"+name+":in-place", mon, wit("got", out, "want", want))
		}
	}

	// --- Open: fresh destination
	open := func(cc *ascon.Cipher, dst, nn, in, aa []byte, what string) (out []byte, err error, ok bool) {
		if p := lib.Try("ascon.Open("+what+"):"+name, in, func() { out, err = cc.Open(dst, nn, in, aa) }); p != nil {
			lib.Violation("C15:panic:ascon.Open:"+name, mon, wit("panic", p.Value, "frame", p.TopFrame(), "what", what, "ct", in))
			return nil, nil, false
		}
		return out, err, true
	}
	keepCt := lib.Clone(ct)
	if out, err, ok := open(c, nil, nonce, ct, ad, "fresh"); ok {
		lib.Count("ascon:open-roundtrip")
		if err != nil || !lib.Eq(out, pt) {
			lib.Violation("C15:roundtrip:ascon.Open:"+name, mon, wit("err", err, "got", out))
		}
		if !lib.Eq(ct, keepCt) {
			lib.Violation("C15:input-modified:ascon.Open:"+name, mon, wit())
		}
	}
	// the reference agrees that its own ciphertext opens (oracle sanity, both directions)
	if back, err := m.ref.Open(key, nonce, ad, ct); err != nil || !lib.Eq(back, pt) {
		lib.Violation("C15:reference-cannot-open:ascon.Seal:"+name, mon, wit("ct", ct))
	}
	// --- Open in place (dst = ciphertext[:0], exact overlap)
	{
		buf := lib.Clone(ct)
		if out, err, ok := open(c, buf[:0], nonce, buf, ad, "in-place"); ok {
			lib.Count("ascon:open-in-place")
			if err != nil || !lib.Eq(out, pt) {
				lib.Violation("C15:roundtrip:ascon.Open:"+name+":in-place", mon, wit("err", err, "got", out))
			}
		}
	}
	// --- Open appending to a non-empty prefix
	for _, spare := range []bool{true, false} {
		prefix := r.Bytes(1 + r.Intn(20))
		dst := make([]byte, len(prefix), len(prefix)+len(pt)/2)
		if spare {
			dst = make([]byte, len(prefix), len(prefix)+len(pt)+r.Intn(9))
		}
		copy(dst, prefix)
		if out, err, ok := open(c, dst, nonce, ct, ad, "prefix"); ok {
			if spare {
				lib.Count("ascon:dst-prefix-with-capacity")
			} else {
				lib.Count("ascon:dst-prefix-realloc")
			}
			if err != nil || len(out) != len(prefix)+len(pt) || !lib.Eq(out[:len(prefix)], prefix) || !lib.Eq(out[len(prefix):], pt) {
				lib.Violation("C15:roundtrip:ascon.Open:"+name+":dst-prefix", mon, wit("err", err, "prefix", prefix, "spare_capacity", spare, "got", out))
			}
		}
	}

	// --- tamper sweep
	reject := func(cc *ascon.Cipher, nn, in, aa []byte, field string, bit int) {
		// a destination with spare capacity: what Open *returns* is judged
		prefix := []byte{0xEE, 0xDD}
		dst := make([]byte, 2, 2+len(in))
		copy(dst, prefix)
		for j := 2; j < cap(dst); j++ {
			dst[:cap(dst)][j] = 0xC3
		}
		useDst := bit%3 == 0
		inPlace := bit%3 == 1
		var d []byte
		if useDst {
			d = dst
		}
		if inPlace {
			// the documented in-place usage: dst = ciphertext[:0]; the tag to be
			// checked lies in the very memory the plaintext is written to
			in = lib.Clone(in)
			d = in[:0]
			lib.Count("ascon:tamper-in-place")
		}
		out, err, ok := open(cc, d, nn, in, aa, "tampered-"+field)
		if !ok {
			return
		}
		lib.Count("ascon:tamper:" + field)
		lib.Eval()
		if err == nil {
			lib.Violation("C15:tamper-accepted:ascon.Open:"+name+":"+field, mon, wit("bit", bit, "ct", in, "returned", out))
			return
		}
		if len(out) != 0 || out != nil {
			lib.Violation("C15:released-on-failure:ascon.Open:"+name+":"+field, mon, wit("bit", bit, "ct", in, "returned", out))
			return
		}
		lib.Count("ascon:tamper-rejected")
		if useDst && len(pt) > 0 {
			spare := dst[:cap(dst)][2 : 2+len(pt)]
			untouched := true
			for _, b := range spare {
				if b != 0xC3 {
					untouched = false
					break
				}
			}
			if !untouched {
				lib.Count("ascon:unauthenticated-bytes-left-in-dst-capacity")
				asconNoteOnce.Do(func() {
					lib.Note("ascon.Open writes the unauthenticated decryption into the spare capacity of dst before the tag check and leaves it there on failure (documented: 'Even if the function fails, the contents of dst, up to its capacity, may be overwritten'); the returned slice is nil. Recorded as an observation, not a violation.")
				})
			}
		}
	}
	bits := func(n int) []int {
		var out []int
		if sweep || n <= 16 {
			for b := 0; b < n; b++ {
				out = append(out, b)
			}
			return out
		}
		out = append(out, 0, 7, n-8, n-1)
		for k := 0; k < 12; k++ {
			out = append(out, r.Intn(n))
		}
		return out
	}
	if sweep {
		lib.Count("ascon:full-bit-sweep")
	}
	for _, b := range bits(8 * len(key)) {
		k2 := lib.FlipBit(key, b)
		c2, err := ascon.New(k2, m.m)
		if err != nil {
			lib.Violation("C15:new-failed:ascon:"+name, mon, wit("err", err))
			return
		}
		reject(c2, nonce, ct, ad, "key", b)
	}
	for _, b := range bits(128) {
		reject(c, lib.FlipBit(nonce, b), ct, ad, "nonce", b)
	}
	if len(ad) > 0 {
		for _, b := range bits(8 * len(ad)) {
			reject(c, nonce, ct, lib.FlipBit(ad, b), "ad", b)
		}
	}
	nct := len(ct) - 16
	if nct > 0 {
		for _, b := range bits(8 * nct) {
			reject(c, nonce, lib.FlipBit(ct, b), ad, "ct", b)
		}
	}
	for _, b := range bits(128) {
		reject(c, nonce, lib.FlipBit(ct, 8*nct+b), ad, "tag", b)
	}
}
