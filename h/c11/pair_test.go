//go:build verif

package c11

import (
	"reflect"
	"testing"

	"github.com/cloudflare/circl/internal/zzverif/lib"
	"github.com/cloudflare/circl/kem"
	kemschemes "github.com/cloudflare/circl/kem/schemes"
	"github.com/cloudflare/circl/sign"
	signschemes "github.com/cloudflare/circl/sign/schemes"
)

// TestVerifKeyPairs: the two objects of a key pair (as returned by
// DeriveKeyPair / DeriveKey, and the public key handed out by Public()) are
// independent values.  One of them is loaded with ANOTHER key through its own
// decoder (UnmarshalBinary / Unpack); the other one must still encode to the
// same bytes and do what it did before (decapsulate / sign for the private
// key, encapsulate / verify for the public key).  Schemes whose key objects
// have no decoder of their own (keys are decoded by the scheme into new
// objects) have nothing to reload and are counted as such.
func TestVerifKeyPairs(t *testing.T) {
	const mon = "TestVerifKeyPairs"
	lib.Mandatory("pairs:kem-public-reloaded", "pairs:kem-private-reloaded", "pairs:sign-public-reloaded", "pairs:sign-private-reloaded")
	ks := kemschemes.All()
	lib.Par(len(ks), func(si int) {
		s := ks[si]
		name := s.Name()
		for i := 0; i < lib.Scale(2, 20); i++ {
			r := lib.NewRng("c11/pairs/kem/"+name, i)
			seedA, seedB := r.Bytes(s.SeedSize()), r.Bytes(s.SeedSize())
			eseed := r.Bytes(s.EncapsulationSeedSize())
			pkB, skB := s.DeriveKeyPair(seedB)
			encPkB, _ := pkB.MarshalBinary()
			encSkB, _ := skB.MarshalBinary()
			for dir := 0; dir < 3; dir++ {
				pkA, skA := s.DeriveKeyPair(seedA)
				encPkA, _ := pkA.MarshalBinary()
				encSkA, _ := skA.MarshalBinary()
				ct, ss, err := s.EncapsulateDeterministically(pkA, eseed)
				if err != nil {
					break
				}
				lib.Case([]byte("pairs-kem"), []byte(name), seedA, seedB, []byte{byte(dir)})
				viol := func(what string, kv ...any) {
					d := lib.D(kv...)
					d["scheme"] = name
					d["reloaded"] = what
					lib.Violation("C11:key-pair-objects-not-independent:"+name, mon, d)
				}
				switch dir {
				case 0, 2: // reload the public key object (dir 2: the one handed out by Public())
					target := any(pkA)
					what := "public key returned by DeriveKeyPair"
					if dir == 2 {
						target = skA.Public()
						what = "public key returned by Public()"
					}
					var done bool
					if pn := lib.Try("pairs:reload-public:"+name, encPkB, func() { done, err = reloadInto(target, encPkB) }); pn != nil || !done || err != nil {
						lib.Count("pairs:kem-no-own-decoder")
						continue
					}
					lib.Count("pairs:kem-public-reloaded")
					now, _ := skA.MarshalBinary()
					got, derr := s.Decapsulate(skA, ct)
					pubNow, _ := skA.Public().MarshalBinary()
					if !lib.Eq(now, encSkA) || derr != nil || !lib.Eq(got, ss) || !lib.Eq(pubNow, encPkA) {
						viol(what, "private_key_encoding_changed", !lib.Eq(now, encSkA), "decapsulation_ok", derr == nil && lib.Eq(got, ss), "public_of_private_changed", !lib.Eq(pubNow, encPkA))
					}
				case 1: // reload the private key object
					var done bool
					if pn := lib.Try("pairs:reload-private:"+name, encSkB, func() { done, err = reloadInto(skA, encSkB) }); pn != nil || !done || err != nil {
						lib.Count("pairs:kem-no-own-decoder")
						continue
					}
					lib.Count("pairs:kem-private-reloaded")
					now, _ := pkA.MarshalBinary()
					ct2, ss2, _ := s.EncapsulateDeterministically(pkA, eseed)
					if !lib.Eq(now, encPkA) || !lib.Eq(ct2, ct) || !lib.Eq(ss2, ss) {
						viol("private key returned by DeriveKeyPair", "public_key_encoding_changed", !lib.Eq(now, encPkA), "encapsulation_same", lib.Eq(ct2, ct) && lib.Eq(ss2, ss))
					}
				}
			}
		}
	})
	ss := signschemes.All()
	lib.Par(len(ss), func(si int) {
		s := ss[si]
		name := s.Name()
		for i := 0; i < lib.Scale(2, 20); i++ {
			r := lib.NewRng("c11/pairs/sign/"+name, i)
			seedA, seedB := r.Bytes(s.SeedSize()), r.Bytes(s.SeedSize())
			msg := r.Bytes(1 + r.Intn(40))
			pkB, skB := s.DeriveKey(seedB)
			encPkB, _ := pkB.MarshalBinary()
			encSkB, _ := skB.MarshalBinary()
			for dir := 0; dir < 3; dir++ {
				pkA, skA := s.DeriveKey(seedA)
				encPkA, _ := pkA.MarshalBinary()
				encSkA, _ := skA.MarshalBinary()
				sig := s.Sign(skA, msg, nil)
				lib.Case([]byte("pairs-sign"), []byte(name), seedA, seedB, []byte{byte(dir)})
				viol := func(what string, kv ...any) {
					d := lib.D(kv...)
					d["scheme"] = name
					d["reloaded"] = what
					lib.Violation("C11:key-pair-objects-not-independent:"+name, mon, d)
				}
				var err error
				switch dir {
				case 0, 2:
					target := any(pkA)
					what := "public key returned by DeriveKey"
					if dir == 2 {
						target = skA.Public()
						what = "public key returned by Public()"
					}
					var done bool
					if pn := lib.Try("pairs:reload-public:"+name, encPkB, func() { done, err = reloadInto(target, encPkB) }); pn != nil || !done || err != nil {
						lib.Count("pairs:sign-no-own-decoder")
						continue
					}
					lib.Count("pairs:sign-public-reloaded")
					now, _ := skA.MarshalBinary()
					sig2 := s.Sign(skA, msg, nil)
					fresh, _ := s.UnmarshalBinaryPublicKey(encPkA)
					okSig := fresh != nil && s.Verify(fresh, msg, sig2, nil)
					var pubNow []byte
					if p, ok := skA.Public().(sign.PublicKey); ok {
						pubNow, _ = p.MarshalBinary()
					}
					if !lib.Eq(now, encSkA) || !okSig || !lib.Eq(pubNow, encPkA) {
						viol(what, "private_key_encoding_changed", !lib.Eq(now, encSkA), "signature_still_verifies", okSig, "public_of_private_changed", !lib.Eq(pubNow, encPkA))
					}
				case 1:
					var done bool
					if pn := lib.Try("pairs:reload-private:"+name, encSkB, func() { done, err = reloadInto(skA, encSkB) }); pn != nil || !done || err != nil {
						lib.Count("pairs:sign-no-own-decoder")
						continue
					}
					lib.Count("pairs:sign-private-reloaded")
					now, _ := pkA.MarshalBinary()
					if !lib.Eq(now, encPkA) || !s.Verify(pkA, msg, sig, nil) {
						viol("private key returned by DeriveKey", "public_key_encoding_changed", !lib.Eq(now, encPkA), "earlier_signature_verifies", s.Verify(pkA, msg, sig, nil))
					}
				}
			}
		}
	})
	_ = kem.ErrTypeMismatch
	scribbleReturned(mon)
}

// scribbleReturned: byte slices a key hands out (MarshalBinary, Seed, Bytes,
// and public keys that ARE byte slices, e.g. ed25519 / ed448) belong to the
// caller: overwriting them must not change the key - its encoding, what
// Public() returns next, and the signatures / shared secrets it produces.
func scribbleReturned(mon string) {
	lib.Mandatory("pairs:returned-slices-scribbled")
	scrib := func(v reflect.Value) bool {
		if !v.IsValid() {
			return false
		}
		if v.Kind() == reflect.Interface {
			v = v.Elem()
		}
		if !v.IsValid() || v.Kind() != reflect.Slice || v.Type().Elem().Kind() != reflect.Uint8 || v.Len() == 0 {
			return false
		}
		for i := 0; i < v.Len(); i++ {
			v.Index(i).SetUint(uint64(0xEE ^ byte(i)))
		}
		return true
	}
	handOuts := func(obj any) int {
		n := 0
		v := reflect.ValueOf(obj)
		for _, name := range []string{"MarshalBinary", "Seed", "Bytes", "Public", "MarshalBinaryCompress"} {
			m := v.MethodByName(name)
			if !m.IsValid() || m.Type().NumIn() != 0 || m.Type().NumOut() == 0 {
				continue
			}
			var outs []reflect.Value
			if pn := lib.Try("scribble:"+name, nil, func() { outs = m.Call(nil) }); pn != nil {
				continue
			}
			if scrib(outs[0]) {
				n++
			}
		}
		return n
	}
	for _, s := range signschemes.All() {
		name := s.Name()
		r := lib.NewRng("c11/scribble/sign/"+name, 0)
		seed := r.Bytes(s.SeedSize())
		msg := r.Bytes(33)
		pk, sk := s.DeriveKey(seed)
		encPk, _ := pk.MarshalBinary()
		encSk, _ := sk.MarshalBinary()
		sig := s.Sign(sk, msg, nil)
		n := handOuts(sk) + handOuts(pk)
		lib.CountN("pairs:returned-slices-scribbled", n)
		lib.CaseS("scribble-sign", name)
		nowSk, _ := sk.MarshalBinary()
		nowPk, _ := pk.MarshalBinary()
		var pubNow []byte
		if p, ok := sk.Public().(sign.PublicKey); ok {
			pubNow, _ = p.MarshalBinary()
		}
		sig2 := s.Sign(sk, msg, nil)
		fresh, _ := s.UnmarshalBinaryPublicKey(encPk)
		if !lib.Eq(nowSk, encSk) || !lib.Eq(nowPk, encPk) || !lib.Eq(pubNow, encPk) || fresh == nil || !s.Verify(fresh, msg, sig2, nil) || !s.Verify(pk, msg, sig, nil) {
			lib.Violation("C11:key-changed-by-writing-to-returned-slice:"+name, mon, lib.D("scheme", name,
				"private_encoding_changed", !lib.Eq(nowSk, encSk), "public_encoding_changed", !lib.Eq(nowPk, encPk), "public_of_private_changed", !lib.Eq(pubNow, encPk),
				"new_signature_verifies", fresh != nil && s.Verify(fresh, msg, sig2, nil)))
		}
	}
	for _, s := range kemschemes.All() {
		name := s.Name()
		r := lib.NewRng("c11/scribble/kem/"+name, 0)
		seed := r.Bytes(s.SeedSize())
		pk, sk := s.DeriveKeyPair(seed)
		encPk, _ := pk.MarshalBinary()
		encSk, _ := sk.MarshalBinary()
		ct, ss, err := s.EncapsulateDeterministically(pk, r.Bytes(s.EncapsulationSeedSize()))
		if err != nil {
			continue
		}
		n := handOuts(sk) + handOuts(pk)
		lib.CountN("pairs:returned-slices-scribbled", n)
		lib.CaseS("scribble-kem", name)
		nowSk, _ := sk.MarshalBinary()
		nowPk, _ := pk.MarshalBinary()
		got, derr := s.Decapsulate(sk, ct)
		if !lib.Eq(nowSk, encSk) || !lib.Eq(nowPk, encPk) || derr != nil || !lib.Eq(got, ss) {
			lib.Violation("C11:key-changed-by-writing-to-returned-slice:"+name, mon, lib.D("scheme", name,
				"private_encoding_changed", !lib.Eq(nowSk, encSk), "public_encoding_changed", !lib.Eq(nowPk, encPk), "decapsulation_ok", derr == nil && lib.Eq(got, ss)))
		}
	}
}
