//go:build verif && (!amd64 || purego)

package fp25519

func vc14Backend() string { return "generic" }
