//go:build verif

// C06 white-box monitor: the ladder primitives that x25519.KeyGen / Shared
// are made of (ladderStep, diffAdd, double, mulA24 - assembly or generic Go
// depending on the configuration) run on guard-page operands holding
// limb-edge field elements, and every output is compared modulo p with the
// formulas of the Montgomery ladder evaluated over math/big.  Through the
// public API these routines only ever see the pseudo-random values of a
// ladder in progress; here their carry chains are driven directly.
package x25519

import (
	"math/big"
	"runtime/debug"
	"strings"
	"testing"

	"github.com/cloudflare/circl/internal/zzverif/lib"
	fp "github.com/cloudflare/circl/math/fp25519"
)

const (
	vc06Name = "x25519"
	vc06A24  = 121666 // (A+2)/4
	vc06Mon  = "TestVerifC06LadderPrimitives"
)

var vc06P = func() *big.Int {
	p := new(big.Int).Lsh(big.NewInt(1), 255)
	return p.Sub(p, big.NewInt(19))
}()

func vc06Int(b []byte) *big.Int {
	r := make([]byte, len(b))
	for i := range b {
		r[len(b)-1-i] = b[i]
	}
	return new(big.Int).SetBytes(r)
}

func vc06Bytes(v *big.Int) []byte {
	be := v.Bytes()
	out := make([]byte, fp.Size)
	for i := range be {
		out[i] = be[len(be)-1-i]
	}
	return out
}

// vc06Elt draws one field element as the routines may meet it: any value
// below 2^(8*Size), biased to limb and reduction boundaries.
func vc06Elt(r *lib.Rng) []byte {
	top := new(big.Int).Lsh(big.NewInt(1), 8*fp.Size)
	switch r.Intn(12) {
	case 0, 1, 2, 3:
		return r.EdgeBytes(fp.Size, uint64(lib.Pick(r, 19, 38)))
	case 4: // k*p + d for small d
		v := new(big.Int).Mul(vc06P, big.NewInt(int64(r.Intn(3))))
		v.Add(v, big.NewInt(int64(r.Intn(41)-20)))
		v.Mod(v, top)
		return vc06Bytes(v)
	case 5: // 2^k +- small
		v := new(big.Int).Lsh(big.NewInt(1), uint(r.Intn(8*fp.Size+1)))
		v.Add(v, big.NewInt(int64(r.Intn(5)-2)))
		v.Mod(v, top)
		return vc06Bytes(v)
	case 7, 8:
		// limbs whose product with a ladder / reduction constant lands just
		// below or just above a multiple of 2^64: the carries out of
		// lo(x_i*c) + hi(x_{i-1}*c) that uniformly random or 0/1/2^64-1
		// limbs practically never produce
		c := uint64(lib.Pick(r, 121666, 121665, 38, 19))
		b := make([]byte, fp.Size)
		for i := 0; i < fp.Size; i += 8 {
			var x uint64
			switch r.Intn(5) {
			case 0:
				x = ^uint64(0)
			case 1:
				x = r.U64()
			default:
				j := new(big.Int).SetUint64(1 + r.U64()%c)
				j.Lsh(j, 64)
				j.Sub(j, big.NewInt(int64(r.Intn(int(2*c+2)))-int64(c)))
				j.Div(j, new(big.Int).SetUint64(c))
				if j.IsUint64() {
					x = j.Uint64()
				} else {
					x = ^uint64(0)
				}
			}
			for k := 0; k < 8 && i+k < fp.Size; k++ {
				b[i+k] = byte(x >> (8 * k))
			}
		}
		return b
	case 6:
		b := make([]byte, fp.Size)
		if r.Bool() {
			for i := range b {
				b[i] = 0xFF
			}
		}
		b[0] ^= byte(r.Intn(40))
		return b
	default:
		return r.Bytes(fp.Size)
	}
}

type vc06Pool struct{ ch [2]chan *lib.Guarded }

func vc06NewPool() *vc06Pool {
	return &vc06Pool{[2]chan *lib.Guarded{make(chan *lib.Guarded, 64), make(chan *lib.Guarded, 64)}}
}

func (p *vc06Pool) get(n int, atEnd bool) *lib.Guarded {
	e := 0
	if atEnd {
		e = 1
	}
	select {
	case g := <-p.ch[e]:
		return g
	default:
		return lib.NewGuarded(n, atEnd)
	}
}

func (p *vc06Pool) put(g *lib.Guarded, atEnd bool) {
	e := 0
	if atEnd {
		e = 1
	}
	select {
	case p.ch[e] <- g:
	default:
		g.Free()
	}
}

func vc06Mod(v *big.Int) *big.Int { return v.Mod(v, vc06P) }

func vc06MulMod(a, b *big.Int) *big.Int { return vc06Mod(new(big.Int).Mul(a, b)) }

// x' = (x+z)^2 (x-z)^2 ; z' = E ((x-z)^2 + a24 E), E = (x+z)^2 - (x-z)^2
func vc06ModelDouble(x, z *big.Int) (*big.Int, *big.Int) {
	a := new(big.Int).Add(x, z)
	b := new(big.Int).Sub(x, z)
	aa := vc06MulMod(a, a)
	bb := vc06MulMod(b, b)
	e := new(big.Int).Sub(aa, bb)
	t := new(big.Int).Mul(e, big.NewInt(vc06A24))
	t.Add(t, bb)
	return vc06MulMod(aa, bb), vc06MulMod(e, t)
}

func vc06Report(prim string, in []byte, b uint, what string, exp *big.Int, got []byte) {
	lib.Violation("C06:ladder-primitive-differs-mod-p:"+vc06Name+"."+prim, vc06Mon,
		lib.D("operands", in, "bit", b, "output", what, "expected_mod_p", vc06Bytes(vc06Mod(new(big.Int).Set(exp))), "observed", got, "backend", vc06Backend(), "cfg", lib.Cfg()))
}

func vc06Same(exp *big.Int, got []byte) bool {
	return vc06Mod(vc06Int(got)).Cmp(vc06Mod(new(big.Int).Set(exp))) == 0
}

func TestVerifC06LadderPrimitives(t *testing.T) {
	lib.Mandatory(vc06Name+":ladderStep", vc06Name+":diffAdd", vc06Name+":double", vc06Name+":mulA24",
		vc06Name+":operand-not-reduced", vc06Name+":bit-0", vc06Name+":bit-1")
	lib.Flag("wb-"+vc06Name+"-backend", vc06Backend())
	lib.Count("backend:" + vc06Backend())
	switch lib.Cfg() {
	case "nobmi2", "noadx":
		if vc06Backend() != "asm-legacy" {
			t.Fatalf("configuration %s not in effect (backend %s)", lib.Cfg(), vc06Backend())
		}
	case "purego":
		if !vc06Purego {
			t.Fatalf("configuration purego not in effect")
		}
	}
	const S = fp.Size
	pw := vc06NewPool() // 5*S
	pe := vc06NewPool() // S
	n := lib.Scale(20000, 1000000)
	lib.Par(n, func(i int) {
		// per goroutine: a fault on a guard page becomes a panic lib.Try recovers
		debug.SetPanicOnFault(true)
		r := lib.NewRng("c06/wb/"+vc06Name, i)
		atEnd := i&1 == 0
		var in [5][]byte
		var v [5]*big.Int
		for j := range in {
			in[j] = vc06Elt(r)
			v[j] = vc06Int(in[j])
			if v[j].Cmp(vc06P) >= 0 {
				lib.Count(vc06Name + ":operand-not-reduced")
			}
		}
		flat := make([]byte, 0, 5*S)
		for j := range in {
			flat = append(flat, in[j]...)
		}
		b := uint(r.Intn(2))
		if b == 0 {
			lib.Count(vc06Name + ":bit-0")
		} else {
			lib.Count(vc06Name + ":bit-1")
		}

		// ---- ladderStep on w = [x1, x2, z2, x3, z3]
		{
			g := pw.get(5*S, atEnd)
			copy(g.Buf, flat)
			w := (*[5]fp.Elt)(g.Ptr())
			lib.Case([]byte(vc06Name+".ladderStep"), flat, []byte{byte(b)})
			if p := lib.Try(vc06Name+".ladderStep", flat, func() { ladderStep(w, b) }); p != nil {
				lib.Violation("C06:panic-"+vc06PanicClass(p)+":"+vc06Name+".ladderStep", vc06Mon, lib.D("operands", flat, "bit", b, "panic", p.Value, "guard_at_end", atEnd))
			} else {
				lib.Count(vc06Name + ":ladderStep")
				x1, x2, z2, x3, z3 := v[0], v[1], v[2], v[3], v[4]
				A := new(big.Int).Add(x2, z2)
				B := new(big.Int).Sub(x2, z2)
				C := new(big.Int).Add(x3, z3)
				D := new(big.Int).Sub(x3, z3)
				DA := vc06MulMod(D, A)
				CB := vc06MulMod(C, B)
				s := new(big.Int).Add(DA, CB)
				d := new(big.Int).Sub(DA, CB)
				ex3 := vc06MulMod(s, s)
				ez3 := vc06MulMod(x1, vc06MulMod(d, d))
				var ex2, ez2 *big.Int
				if b == 1 {
					ex2, ez2 = vc06ModelDouble(x3, z3)
				} else {
					ex2, ez2 = vc06ModelDouble(x2, z2)
				}
				out := lib.Clone(g.Buf)
				for _, c := range []struct {
					what string
					exp  *big.Int
					idx  int
				}{{"x2", ex2, 1}, {"z2", ez2, 2}, {"x3", ex3, 3}, {"z3", ez3, 4}} {
					if !vc06Same(c.exp, out[c.idx*S:(c.idx+1)*S]) {
						vc06Report("ladderStep", flat, b, c.what, c.exp, out[c.idx*S:(c.idx+1)*S])
					}
				}
				pw.put(g, atEnd)
			}
		}

		// ---- diffAdd on w = [mu, x1, z1, x2, z2]
		{
			g := pw.get(5*S, atEnd)
			copy(g.Buf, flat)
			w := (*[5]fp.Elt)(g.Ptr())
			lib.Case([]byte(vc06Name+".diffAdd"), flat, []byte{byte(b)})
			if p := lib.Try(vc06Name+".diffAdd", flat, func() { diffAdd(w, b) }); p != nil {
				lib.Violation("C06:panic-"+vc06PanicClass(p)+":"+vc06Name+".diffAdd", vc06Mon, lib.D("operands", flat, "bit", b, "panic", p.Value, "guard_at_end", atEnd))
			} else {
				lib.Count(vc06Name + ":diffAdd")
				mu, x1, z1, x2, z2 := v[0], v[1], v[2], v[3], v[4]
				if b == 1 {
					x1, x2 = x2, x1
					z1, z2 = z2, z1
				}
				a := new(big.Int).Add(x1, z1)
				m := vc06MulMod(new(big.Int).Sub(x1, z1), mu)
				s := new(big.Int).Add(a, m)
				d := new(big.Int).Sub(a, m)
				ex1 := vc06MulMod(vc06MulMod(s, s), z2)
				ez1 := vc06MulMod(vc06MulMod(d, d), x2)
				out := lib.Clone(g.Buf)
				for _, c := range []struct {
					what string
					exp  *big.Int
					idx  int
				}{{"x1", ex1, 1}, {"z1", ez1, 2}, {"x2", x2, 3}, {"z2", z2, 4}} {
					if !vc06Same(c.exp, out[c.idx*S:(c.idx+1)*S]) {
						vc06Report("diffAdd", flat, b, c.what, c.exp, out[c.idx*S:(c.idx+1)*S])
					}
				}
				pw.put(g, atEnd)
			}
		}

		// ---- double(x, z) and mulA24(z, x) on separate guarded elements
		{
			gx := pe.get(S, atEnd)
			gz := pe.get(S, !atEnd)
			copy(gx.Buf, in[1])
			copy(gz.Buf, in[2])
			ops := append(lib.Clone(in[1]), in[2]...)
			lib.Case([]byte(vc06Name+".double"), ops)
			if p := lib.Try(vc06Name+".double", ops, func() { double((*fp.Elt)(gx.Ptr()), (*fp.Elt)(gz.Ptr())) }); p != nil {
				lib.Violation("C06:panic-"+vc06PanicClass(p)+":"+vc06Name+".double", vc06Mon, lib.D("operands", ops, "panic", p.Value, "guard_at_end", atEnd))
			} else {
				lib.Count(vc06Name + ":double")
				ex, ez := vc06ModelDouble(v[1], v[2])
				if !vc06Same(ex, gx.Buf) {
					vc06Report("double", ops, 0, "x", ex, lib.Clone(gx.Buf))
				}
				if !vc06Same(ez, gz.Buf) {
					vc06Report("double", ops, 0, "z", ez, lib.Clone(gz.Buf))
				}
				copy(gx.Buf, in[3])
				lib.Case([]byte(vc06Name+".mulA24"), in[3])
				if p := lib.Try(vc06Name+".mulA24", in[3], func() { mulA24((*fp.Elt)(gz.Ptr()), (*fp.Elt)(gx.Ptr())) }); p != nil {
					lib.Violation("C06:panic-"+vc06PanicClass(p)+":"+vc06Name+".mulA24", vc06Mon, lib.D("operand", in[3], "panic", p.Value, "guard_at_end", atEnd))
				} else {
					lib.Count(vc06Name + ":mulA24")
					e := new(big.Int).Mul(v[3], big.NewInt(vc06A24))
					if !vc06Same(e, gz.Buf) {
						vc06Report("mulA24", in[3], 0, "z", e, lib.Clone(gz.Buf))
					}
					// in place
					copy(gx.Buf, in[4])
					mulA24((*fp.Elt)(gx.Ptr()), (*fp.Elt)(gx.Ptr()))
					e = new(big.Int).Mul(v[4], big.NewInt(vc06A24))
					if !vc06Same(e, gx.Buf) {
						vc06Report("mulA24", in[4], 1, "z (in place)", e, lib.Clone(gx.Buf))
					}
					pe.put(gx, atEnd)
					pe.put(gz, !atEnd)
				}
			}
		}
	})
}

// vc06PanicClass: a fault on a guard page (operand over-read / over-write) surfaces as
// Go's "invalid memory address" panic once SetPanicOnFault is on.
func vc06PanicClass(p *lib.Panic) string {
	if strings.Contains(p.Value, "invalid memory address") || strings.Contains(p.Value, "fault address") {
		return "guard-page-fault"
	}
	return p.Class()
}
