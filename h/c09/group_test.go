//go:build verif

package c09

import (
	"math/big"
	"testing"

	"github.com/cloudflare/circl/group"
	"github.com/cloudflare/circl/internal/zzverif/lib"
	"github.com/cloudflare/circl/internal/zzverif/ref/c09ref"
	"github.com/cloudflare/circl/oprf"
)

const monGroup = "TestVerifGroupElements"

// elemDec is one way of getting bytes into a group element.
type elemDec struct {
	entry string
	// dec returns the compressed and (when the entry point exposes it) the
	// uncompressed re-serialisation of the decoded value.
	dec      func(in []byte) (ok bool, ser func() (comp, unc []byte))
	compOnly bool // entry point with a single (compressed) format: other lengths are not judged
}

func groupDec(name string, g group.Group) elemDec {
	return elemDec{entry: "group." + name + ".Element.UnmarshalBinary", dec: func(in []byte) (bool, func() ([]byte, []byte)) {
		e := g.NewElement()
		if err := e.UnmarshalBinary(in); err != nil {
			return false, nil
		}
		return true, func() ([]byte, []byte) {
			c, err1 := e.MarshalBinaryCompress()
			u, err2 := e.MarshalBinary()
			if err1 != nil || err2 != nil {
				return nil, nil
			}
			return c, u
		}
	}}
}

func oprfDec(name string, s oprf.Suite) elemDec {
	return elemDec{entry: "oprf.PublicKey.UnmarshalBinary[" + name + "]", compOnly: true, dec: func(in []byte) (bool, func() ([]byte, []byte)) {
		pk := new(oprf.PublicKey)
		if err := pk.UnmarshalBinary(s, in); err != nil {
			return false, nil
		}
		return true, func() ([]byte, []byte) {
			c, err := pk.MarshalBinary()
			if err != nil {
				return nil, nil
			}
			return c, nil
		}
	}}
}

// ---- NIST curves

func judgeSEC1(c *c09ref.SEC1Curve, d elemDec, x tc) {
	in := x.data
	if d.compOnly && len(in) != 1+c.ByteLen {
		return
	}
	lib.Case([]byte(d.entry), in)
	lib.Count("presented:" + c.Name + ":" + x.class)
	var ok bool
	var comp, unc []byte
	var ser func() ([]byte, []byte)
	if p := lib.Try(d.entry, in, func() { ok, ser = d.dec(in) }); p != nil {
		lib.Count("panic-left-to-C10:" + d.entry)
		return
	}
	if ok {
		if p := lib.Try(d.entry+"/reserialise", in, func() { comp, unc = ser() }); p != nil {
			lib.Count("decoder-accepted:" + d.entry)
			cls := "accepted-value-panics-on-reserialisation"
			if c.Decode(in).Why == "not-on-curve" {
				cls = "off-curve-accepted"
			}
			viol(cls, d.entry, "", monGroup, "class", x.class, "input", in, "panic", p.Value)
			return
		}
	}
	v := c.Decode(in)
	if v.Why != "" && v.Why != "not-on-curve" {
		lib.Count("noncanonical-presented")
		lib.Count("noncanonical-presented:" + c.Name + ":" + v.Why)
	}
	if !ok {
		lib.Count("decoder-rejected:" + d.entry)
		if v.Why == "" {
			viol("valid-rejected", d.entry, "", monGroup, "class", x.class, "input", in)
		}
		return
	}
	lib.Count("decoder-accepted:" + d.entry)
	flagged := false
	same := comp
	if len(in) == 1+2*c.ByteLen || (len(in) == 1 && !d.compOnly) {
		same = unc
	}
	if !lib.Eq(same, in) {
		sub := v.Why
		if sub == "" {
			sub = "reserialises-differently"
		}
		viol("noncanonical-accepted", d.entry, sub, monGroup, "class", x.class, "input", in, "reserialised", same)
		flagged = true
	}
	// coordinates read back from the uncompressed form (or recomputed from the compressed one) by our own code
	var got c09ref.WPt
	src := unc
	if src == nil {
		src = comp
	}
	switch {
	case len(src) == 1 && src[0] == 0:
		got = c.C.Infinity()
	case len(src) == 1+2*c.ByteLen:
		got = c09ref.WPt{X: c09ref.El{A: c09ref.FromBE(src[1 : 1+c.ByteLen]), B: new(big.Int)},
			Y: c09ref.El{A: c09ref.FromBE(src[1+c.ByteLen:]), B: new(big.Int)}}
		if got.X.A.Cmp(c.C.F.P) >= 0 || got.Y.A.Cmp(c.C.F.P) >= 0 || !c.C.OnCurve(got) {
			viol("off-curve-accepted", d.entry, "", monGroup, "class", x.class, "input", in, "decoded", src)
			flagged = true
		} else {
			lib.Count("accepted-point-verified-on-curve:" + c.Name)
		}
	default:
		dd := c.Decode(src)
		if dd.Why != "" {
			viol("off-curve-accepted", d.entry, "", monGroup, "class", x.class, "input", in, "decoded", src)
			flagged = true
		} else {
			lib.Count("accepted-point-verified-on-curve:" + c.Name)
		}
		got = dd.P
	}
	if v.Why != "" {
		if !flagged {
			viol("accepted-but-reference-rejects", d.entry, v.Why, monGroup, "class", x.class, "input", in)
		}
		return
	}
	if !flagged && !c.C.Equal(v.P, got) {
		viol("decoded-value-differs", d.entry, "", monGroup, "class", x.class, "input", in, "decoded", src)
	}
}

type sec1Sizes struct{ rnd, hash, ref, flipC, flipU, lift, random int }

func sec1Workload(t *testing.T, c *c09ref.SEC1Curve, g group.Group, r *lib.Rng, q sec1Sizes) (tcs, []group.Element, [][2][]byte) {
	var w tcs
	f := c.C.F
	p := f.P
	l := c.ByteLen
	var origs []group.Element
	var valid [][2][]byte // compressed, uncompressed
	add := func(e group.Element) {
		cb, err1 := e.Copy().MarshalBinaryCompress()
		ub, err2 := e.Copy().MarshalBinary()
		if err1 != nil || err2 != nil {
			t.Fatal(err1, err2)
		}
		origs = append(origs, e)
		valid = append(valid, [2][]byte{cb, ub})
	}
	add(g.Identity())
	for _, k := range edgeScalars(c.N)[1:] {
		add(g.NewElement().MulGen(g.NewScalar().SetBigInt(k)))
	}
	first := len(valid)
	for i := 0; i < q.rnd; i++ {
		add(g.NewElement().MulGen(g.NewScalar().SetBigInt(randBelow(r, c.N))))
	}
	for i := 0; i < q.hash; i++ {
		add(g.HashToElement(r.Bytes(1+r.Intn(30)), []byte("VERIF-C09")))
	}
	for _, v := range valid {
		w.add("valid", v[0])
		w.add("valid", v[1])
	}
	for i := 0; i < q.ref; i++ {
		pt := c.C.Mul(randBelow(r, c.N), c.G)
		w.add("valid", c.Encode(pt, true))
		w.add("valid", c.Encode(pt, false))
		w.add("valid", c.Encode(c.C.Neg(pt), true))
		w.add("valid", c.Encode(c.C.Neg(pt), false))
	}
	for i := 0; i < q.flipC; i++ {
		w.allFlips("bitflip-compressed", valid[first+i][0])
	}
	for i := 0; i < q.flipU; i++ {
		w.allFlips("bitflip-uncompressed", valid[first+i][1])
	}
	// one-byte strings, and every prefix value over valid / zero / random bodies
	for v := 0; v < 256; v++ {
		w.add("one-byte", []byte{byte(v)})
		for _, b := range [][]byte{valid[first][0], valid[first][1], valid[first+1][0], valid[first+1][1],
			make([]byte, 1+l), make([]byte, 1+2*l), r.Bytes(1 + l), r.Bytes(1 + 2*l)} {
			cc := lib.Clone(b)
			cc[0] = byte(v)
			w.add("prefix-sweep", cc)
		}
	}
	// x (and y) in [p, 2^(8l))
	lim := new(big.Int).Lsh(big.NewInt(1), uint(8*l))
	room := new(big.Int).Sub(lim, p) // x + p fits iff x < room
	enc := func(prefix byte, vals ...*big.Int) []byte {
		out := []byte{prefix}
		for _, v := range vals {
			out = append(out, c09ref.BE(v, l)...)
		}
		return out
	}
	nl := 0
	for i := 0; nl < q.lift+8 && i < 8*q.lift+16; i++ {
		// the first candidates are the smallest abscissas (x = 0 first: x + p
		// is then the modulus itself), the others random below 2^(8l) - p
		x := big.NewInt(int64(i))
		if i >= 16 {
			x = randBelow(r, room)
		}
		xe := c09ref.El{A: x, B: new(big.Int)}
		y, ok := f.Sqrt(c.C.RHS(xe))
		if !ok {
			continue
		}
		nl++
		// (x, y) is a valid point (cofactor 1); x + m*p is a second spelling of its abscissa
		for m := int64(1); m <= 127; m *= 2 {
			xp := new(big.Int).Add(x, new(big.Int).Mul(p, big.NewInt(m)))
			if xp.Cmp(lim) >= 0 {
				break
			}
			w.add("x-plus-p", enc(2|byte(y.A.Bit(0)), xp))
			w.add("x-plus-p", enc(3-byte(y.A.Bit(0)), xp))
			w.add("x-plus-p", enc(4, xp, y.A))
			yp := new(big.Int).Add(y.A, new(big.Int).Mul(p, big.NewInt(m)))
			if yp.Cmp(lim) < 0 {
				w.add("y-plus-p", enc(4, x, yp))
				w.add("y-plus-p", enc(4, xp, yp))
			}
		}
		w.add("valid", enc(2|byte(y.A.Bit(0)), x))
		w.add("valid", enc(4, x, y.A))
	}
	// y + p for points with a small y (found by lifting in the other direction is not possible: use P-521's spare bits and tiny y only)
	for _, v := range valid[first:] {
		d := c.Decode(v[1])
		for m := int64(1); m <= 127; m *= 2 {
			yp := new(big.Int).Add(d.P.Y.A, new(big.Int).Mul(p, big.NewInt(m)))
			xp := new(big.Int).Add(d.P.X.A, new(big.Int).Mul(p, big.NewInt(m)))
			if yp.Cmp(lim) < 0 {
				w.add("y-plus-p", enc(4, d.P.X.A, yp))
			}
			if xp.Cmp(lim) < 0 {
				w.add("x-plus-p", enc(4, xp, d.P.Y.A))
				w.add("x-plus-p", enc(v[0][0], xp))
			}
		}
	}
	pm1 := new(big.Int).Sub(p, big.NewInt(1))
	for _, xv := range []*big.Int{p, new(big.Int).Add(p, big.NewInt(1)), new(big.Int).Sub(lim, big.NewInt(1)), pm1, big.NewInt(0), big.NewInt(1)} {
		for _, pre := range []byte{2, 3} {
			w.add("x-at-field-boundary", enc(pre, xv))
		}
		w.add("x-at-field-boundary", enc(4, xv, big.NewInt(1)))
		w.add("x-at-field-boundary", enc(4, big.NewInt(1), xv))
		w.add("x-at-field-boundary", enc(4, xv, xv))
	}
	// compressed strings: both parities of random x (valid when x^3-3x+b is a square)
	for i := 0; i < q.random; i++ {
		x := randBelow(r, p)
		w.add("random-x", enc(2, x))
		w.add("random-x", enc(3, x))
		w.add("random-xy", enc(4, x, randBelow(r, p)))
		w.add("random", append([]byte{byte(2 + r.Intn(3))}, r.Bytes(l)...))
		w.add("random", append([]byte{4}, r.Bytes(2*l)...))
	}
	// wrong y, swapped coordinates, points of other curves y^2 = x^3 - 3x + b'
	for _, v := range valid[first : first+4] {
		d := c.Decode(v[1])
		w.add("wrong-y", enc(4, d.P.X.A, f.Add(d.P.Y, f.One()).A))
		w.add("wrong-y", enc(4, d.P.Y.A, d.P.X.A))
		w.add("valid", enc(4, d.P.X.A, f.Neg(d.P.Y).A))
	}
	for _, db := range []int64{1, -1, 2, 7} {
		oc := &c09ref.WCurve{F: f, A: c.C.A, B: f.Add(c.C.B, f.Int(db))}
		for n := 0; n < 4; {
			x := c09ref.El{A: randBelow(r, p), B: new(big.Int)}
			y, ok := f.Sqrt(oc.RHS(x))
			if !ok {
				continue
			}
			n++
			w.add("other-curve-point", enc(4, x.A, y.A))
		}
	}
	oc := &c09ref.WCurve{F: f, A: c.C.A, B: f.Zero()}
	if y, ok := f.Sqrt(oc.RHS(f.Int(2))); ok {
		w.add("other-curve-point", enc(4, big.NewInt(2), y.A))
	}
	w.add("other-curve-point", enc(4, big.NewInt(0), big.NewInt(0))) // (0,0): circl's in-memory spelling of the identity
	return w, origs, valid
}

func TestVerifGroupElements(t *testing.T) {
	groups := []struct {
		name  string
		g     group.Group
		suite oprf.Suite
	}{{"P256", group.P256, oprf.SuiteP256}, {"P384", group.P384, oprf.SuiteP384}, {"P521", group.P521, oprf.SuiteP521}}
	curves := nistCurves()
	for gi, gr := range groups {
		c := curves[gi].ref
		decs := []elemDec{groupDec(gr.name, gr.g), oprfDec(gr.name, gr.suite),
			{entry: "oprf.Suite[" + gr.name + "].Group().NewElement().UnmarshalBinary", dec: groupDec(gr.name, gr.suite.Group()).dec}}
		for _, d := range decs {
			lib.Mandatory("decoder-accepted:"+d.entry, "decoder-rejected:"+d.entry)
		}
		lib.Mandatory("noncanonical-presented:"+c.Name+":coordinate-out-of-range", "noncanonical-presented:"+c.Name+":prefix",
			"presented:"+c.Name+":x-plus-p", "presented:"+c.Name+":other-curve-point", "accepted-point-verified-on-curve:"+c.Name,
			"converse-roundtrip:"+c.Name)
		q := sec1Sizes{rnd: 16, hash: 6, ref: 3, flipC: 4, flipU: 2, lift: 12, random: 80}
		if lib.Thorough() {
			q = sec1Sizes{rnd: 300, hash: 100, ref: 30, flipC: 260, flipU: 160, lift: 800, random: 8000}
		}
		r := lib.NewRng("c09/group/"+gr.name, 0)
		w, origs, valid := sec1Workload(t, c, gr.g, r, q)
		for _, d := range decs {
			d := d
			lib.Par(len(w), func(i int) { judgeSEC1(c, d, w[i]) })
		}
		lib.Par(len(origs), func(i int) {
			for _, enc := range valid[i] {
				e := gr.g.NewElement()
				if err := e.UnmarshalBinary(enc); err != nil || !e.IsEqual(origs[i]) || !origs[i].IsEqual(e) {
					viol("serialised-value-not-accepted-or-unequal", decs[0].entry, "", monGroup, "encoding", enc)
				}
			}
			lib.Count("converse-roundtrip:" + c.Name)
		})
		lib.Sample(monGroup, lib.D("group", gr.name, "valid", valid[9][0], "strings_per_entry", len(w)))
	}
}

// ---- ristretto255

const monR255 = "TestVerifRistretto255"

func judgeR255(d elemDec, x tc) {
	in := x.data
	lib.Case([]byte(d.entry), in)
	lib.Count("presented:ristretto255:" + x.class)
	var ok bool
	var out []byte
	var ser func() ([]byte, []byte)
	if p := lib.Try(d.entry, in, func() { ok, ser = d.dec(in) }); p != nil {
		lib.Count("panic-left-to-C10:" + d.entry)
		return
	}
	if ok {
		if p := lib.Try(d.entry+"/reserialise", in, func() { out, _ = ser() }); p != nil {
			lib.Count("decoder-accepted:" + d.entry)
			viol("accepted-value-panics-on-reserialisation", d.entry, "", monR255, "class", x.class, "input", in, "panic", p.Value)
			return
		}
	}
	rx, ry, why := c09ref.R255Decode(in)
	if why != "" && why != "non-square" {
		lib.Count("noncanonical-presented")
		lib.Count("noncanonical-presented:ristretto255:" + why)
	}
	if why == "" && !c09ref.R255OnCurve(rx, ry) {
		panic("c09: ristretto255 reference decoded a point off the curve")
	}
	if !ok {
		lib.Count("decoder-rejected:" + d.entry)
		if why == "" {
			viol("valid-rejected", d.entry, "", monR255, "class", x.class, "input", in)
		}
		return
	}
	lib.Count("decoder-accepted:" + d.entry)
	if !lib.Eq(out, in) {
		sub := why
		if sub == "" {
			sub = "reserialises-differently"
		}
		viol("noncanonical-accepted", d.entry, sub, monR255, "class", x.class, "input", in, "reserialised", out)
		return
	}
	if why != "" {
		viol("accepted-but-reference-rejects", d.entry, why, monR255, "class", x.class, "input", in)
	}
}

func TestVerifRistretto255(t *testing.T) {
	g := group.Ristretto255
	decs := []elemDec{groupDec("Ristretto255", g), oprfDec("Ristretto255", oprf.SuiteRistretto255),
		{entry: "oprf.Suite[Ristretto255].Group().NewElement().UnmarshalBinary", dec: groupDec("Ristretto255", oprf.SuiteRistretto255.Group()).dec}}
	for _, d := range decs {
		lib.Mandatory("decoder-accepted:"+d.entry, "decoder-rejected:"+d.entry)
	}
	lib.Mandatory("noncanonical-presented:ristretto255:coordinate-out-of-range", "noncanonical-presented:ristretto255:negative-s",
		"noncanonical-presented:ristretto255:negative-t", "noncanonical-presented:ristretto255:y-zero", "converse-roundtrip:ristretto255")
	r := lib.NewRng("c09/ristretto255", 0)
	p := new(big.Int).Sub(new(big.Int).Lsh(big.NewInt(1), 255), big.NewInt(19))
	var w tcs
	var origs []group.Element
	var valid [][]byte
	add := func(e group.Element) {
		b, err := e.MarshalBinary()
		if err != nil {
			t.Fatal(err)
		}
		origs = append(origs, e)
		valid = append(valid, b)
	}
	add(g.Identity())
	add(g.Generator())
	for _, k := range edgeScalars(c09ref.R255L)[2:] {
		add(g.NewElement().MulGen(g.NewScalar().SetBigInt(k)))
	}
	for i := 0; i < lib.Scale(30, 2000); i++ {
		add(g.NewElement().MulGen(g.NewScalar().SetBigInt(randBelow(r, c09ref.R255L))))
	}
	for i := 0; i < lib.Scale(10, 500); i++ {
		add(g.HashToElement(r.Bytes(1+r.Intn(30)), []byte("VERIF-C09")))
	}
	for _, v := range valid {
		w.add("valid", v)
	}
	for i := 0; i < lib.Scale(10, 700); i++ {
		w.allFlips("bitflip", valid[2+i])
	}
	w.allFlips("bitflip-identity", valid[0])
	for _, v := range valid[2:] {
		s := c09ref.FromLE(v)
		w.add("negated-s", c09ref.LE(new(big.Int).Sub(p, s), 32)) // -s: odd, "negative"
		if sp := new(big.Int).Add(s, p); sp.BitLen() <= 256 {
			w.add("s-plus-p", c09ref.LE(sp, 32))
		}
		c := lib.Clone(v)
		c[31] |= 0x80
		w.add("top-bit", c)
	}
	for i := int64(0); i < 40; i++ {
		w.add("s-at-field-boundary", c09ref.LE(new(big.Int).Add(p, big.NewInt(i-20)), 32))
		w.add("small-s", c09ref.LE(big.NewInt(i), 32))
		w.add("s-plus-p", c09ref.LE(new(big.Int).Add(p, big.NewInt(i)), 32))
	}
	// s = 1 (negative), s = p-1 = -1: y = 0 after decoding -> must be refused
	w.add("y-zero", c09ref.LE(new(big.Int).Sub(p, big.NewInt(1)), 32))
	for i := 0; i < lib.Scale(1500, 120000); i++ {
		c := r.Bytes(32)
		c[31] &= 0x7F
		c[0] &^= 1
		w.add("random-even-in-range", c) // canonical non-negative s: accepted iff the square-root and sign conditions hold
		if i%3 == 0 {
			w.add("random", r.Bytes(32))
		}
	}
	for _, d := range decs {
		d := d
		lib.Par(len(w), func(i int) { judgeR255(d, w[i]) })
	}
	lib.Par(len(origs), func(i int) {
		e := g.NewElement()
		if err := e.UnmarshalBinary(valid[i]); err != nil || !e.IsEqual(origs[i]) {
			viol("serialised-value-not-accepted-or-unequal", decs[0].entry, "", monR255, "encoding", valid[i])
		}
		lib.Count("converse-roundtrip:ristretto255")
	})
	lib.Sample(monR255, lib.D("valid", valid[5], "strings_per_entry", len(w)))
}
