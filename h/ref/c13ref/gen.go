//go:build verif

package c13ref

import (
	"math/big"

	"github.com/cloudflare/circl/internal/zzverif/lib"
)

// GenScalar draws an integer in [0, 2^(8*maxBytes)) biased to the classes the
// property names: 0,1,2, the order and its neighbours, multiples of the
// order, powers of two and their neighbours, all-ones at every byte width,
// the maximum, halves of the order, sparse / limb-edge / uniformly random
// values at every byte width, forced even / odd.
func GenScalar(r *lib.Rng, n *big.Int, maxBytes int) (*big.Int, string) {
	lim := new(big.Int).Lsh(big1, uint(8*maxBytes))
	bitsMax := 8 * maxBytes
	var k *big.Int
	var class string
	switch r.Intn(18) {
	case 0:
		k, class = big.NewInt(int64(r.Intn(41))), "small"
	case 1:
		k, class = new(big.Int).Add(n, big.NewInt(int64(r.Intn(81)-40))), "order-neighbour"
	case 2:
		m := int64(2 + r.Intn(3))
		k = new(big.Int).Mul(n, big.NewInt(m))
		k.Add(k, big.NewInt(int64(r.Intn(9)-4)))
		class = "order-multiple"
		if k.Cmp(lim) >= 0 {
			// the largest multiple of n below the limit, and its neighbours
			q := new(big.Int).Div(new(big.Int).Sub(lim, big1), n)
			k = new(big.Int).Mul(q, n)
			k.Add(k, big.NewInt(int64(r.Intn(5)-2)))
		}
	case 3:
		k, class = new(big.Int).Lsh(big1, uint(r.Intn(bitsMax))), "pow2"
	case 4:
		k, class = new(big.Int).Sub(new(big.Int).Lsh(big1, uint(1+r.Intn(bitsMax))), big1), "pow2-1"
	case 5:
		k, class = new(big.Int).Add(new(big.Int).Lsh(big1, uint(1+r.Intn(bitsMax-1))), big1), "pow2+1"
	case 6:
		w := 1 + r.Intn(maxBytes)
		k, class = new(big.Int).Sub(new(big.Int).Lsh(big1, uint(8*w)), big1), "all-ones"
	case 7:
		k, class = new(big.Int).Sub(lim, big.NewInt(int64(1+r.Intn(34)))), "max"
	case 8:
		w := 1 + r.Intn(maxBytes)
		k, class = new(big.Int).SetBytes(r.Bytes(w)), "random-width"
	case 9:
		k = new(big.Int).Add(n, big.NewInt(int64(r.Intn(7)-3)))
		k.Div(k, big.NewInt(int64(2+r.Intn(3))))
		class = "order-fraction"
	case 10:
		b := r.EdgeBytes(maxBytes, uint64(r.Intn(40)))
		k, class = new(big.Int).SetBytes(b), "limb-edge"
	case 11:
		k = new(big.Int).SetBytes(r.Bytes(maxBytes + 8))
		k.Mod(k, n)
		class = "random-reduced"
	case 12:
		k = new(big.Int)
		for i := 0; i < 1+r.Intn(4); i++ {
			k.SetBit(k, r.Intn(bitsMax), 1)
		}
		class = "sparse"
	case 13:
		k = new(big.Int).SetBytes(r.Bytes(maxBytes))
		k.SetBit(k, 0, 0)
		class = "random-even"
	case 14:
		k = new(big.Int).SetBytes(r.Bytes(maxBytes))
		k.SetBit(k, 0, 1)
		class = "random-odd"
	case 15:
		// runs of identical window digits: 0x0f0f.., 0xf0f0.., 0x1111.., 0x8888..
		pat := lib.Pick(r, byte(0x0f), byte(0xf0), byte(0x11), byte(0x88), byte(0x55), byte(0xaa), byte(0x10), byte(0x01), byte(0x80))
		w := 1 + r.Intn(maxBytes)
		b := make([]byte, w)
		for i := range b {
			b[i] = pat
		}
		k, class = new(big.Int).SetBytes(b), "pattern"
	case 16:
		// order minus a power of two, order plus a power of two
		t := new(big.Int).Lsh(big1, uint(r.Intn(n.BitLen())))
		if r.Bool() {
			k = new(big.Int).Sub(n, t)
		} else {
			k = new(big.Int).Add(n, t)
		}
		class = "order+-pow2"
	default:
		k, class = new(big.Int).SetBytes(r.Bytes(maxBytes)), "random-full"
	}
	if k.Sign() < 0 {
		k.Neg(k)
	}
	if k.Cmp(lim) >= 0 {
		k.Mod(k, lim)
	}
	return k, class
}

// PoolK is the list of structured discrete logarithms every point pool
// starts with (mod n): 0, +-1..+-17, +-2^i, (n+-1)/2, all-ones, then random.
func PoolK(r *lib.Rng, n *big.Int, nRandom int) []*big.Int {
	var ks []*big.Int
	add := func(k *big.Int) { ks = append(ks, new(big.Int).Mod(k, n)) }
	for j := int64(0); j <= 17; j++ {
		add(big.NewInt(j))
		if j > 0 {
			add(big.NewInt(-j))
		}
	}
	for _, i := range []uint{5, 8, 16, 31, 32, 63, 64, 65, 127, 128, uint(n.BitLen() - 2), uint(n.BitLen() - 1)} {
		t := new(big.Int).Lsh(big1, i)
		add(t)
		add(new(big.Int).Neg(t))
		add(new(big.Int).Sub(t, big1))
	}
	h := new(big.Int).Rsh(n, 1)
	add(h)
	add(new(big.Int).Add(h, big1))
	add(new(big.Int).Sub(new(big.Int).Lsh(big1, uint(n.BitLen()-1)), big1))
	for i := 0; i < nRandom; i++ {
		add(new(big.Int).SetBytes(r.Bytes((n.BitLen() + 71) / 8)))
	}
	return ks
}

// BE returns k as exactly w big-endian bytes (k < 2^(8w)).
func BE(k *big.Int, w int) []byte { return k.FillBytes(make([]byte, w)) }

// LE returns k as exactly w little-endian bytes.
func LE(k *big.Int, w int) []byte {
	b := BE(k, w)
	for i, j := 0, len(b)-1; i < j; i, j = i+1, j-1 {
		b[i], b[j] = b[j], b[i]
	}
	return b
}

// FromLE reads a little-endian integer.
func FromLE(b []byte) *big.Int {
	c := make([]byte, len(b))
	for i := range b {
		c[len(b)-1-i] = b[i]
	}
	return new(big.Int).SetBytes(c)
}

// MinBE returns k in its minimal big-endian form padded to at least w bytes.
func MinBE(k *big.Int, w int) []byte {
	b := k.Bytes()
	if len(b) >= w {
		return b
	}
	return BE(k, w)
}

// SweepScalars lists 0..small-1 and n-near..n+near (exhaustive neighbourhoods
// of the two ends of the scalar range, where recodings change shape).
func SweepScalars(n *big.Int, small, near int) []*big.Int {
	var out []*big.Int
	for i := 0; i < small; i++ {
		out = append(out, big.NewInt(int64(i)))
	}
	for j := -near; j <= near; j++ {
		out = append(out, new(big.Int).Add(n, big.NewInt(int64(j))))
	}
	return out
}

// SmallGrid lists the (k, m, n) triples of the exhaustive small neighbourhood
// used for double-scalar multiplications mG + n(kG): m, n in 0..lim, k in
// {1, 2, 3, -1, -2}.
func SmallGrid(lim int64) [][3]int64 {
	var out [][3]int64
	for a := int64(0); a <= lim; a++ {
		for b := int64(0); b <= lim; b++ {
			for _, k := range []int64{1, 2, 3, -1, -2} {
				out = append(out, [3]int64{k, a, b})
			}
		}
	}
	return out
}

// Coarse maps the fine-grained workload classes to the handful used in
// finding keys (the fine class stays in the witness detail), so that one root
// cause does not fan out into dozens of keys.
func Coarse(class string) string {
	switch class {
	case "Q=P":
		return "Q=P"
	case "Q=-P", "P+(-P)":
		return "Q=-P"
	case "Q=O", "P=O", "O+O", "O":
		return "identity-operand"
	case "Q=2P", "Q=-2P", "independent", "split", "aliased-receiver", "projective", "chained", "kG", "lifted",
		"small", "order-neighbour", "order-multiple", "pow2", "pow2-1", "pow2+1", "all-ones", "max", "random-width",
		"order-fraction", "limb-edge", "random-reduced", "sparse", "random-even", "random-odd", "pattern",
		"order+-pow2", "random-full", "wide", "sweep", "entry", "negated-operand", "cneg-operand":
		return "generic"
	}
	return class
}
