//go:build verif

// C19 — soundness of the Sum validity circuit itself: the package's own
// *flpSum is wrapped so that Encode returns a crafted encoding; proof and
// shares are consistent with it and only the circuit can reject.
package sum

import (
	"fmt"
	"math/big"
	"testing"

	"github.com/cloudflare/circl/internal/zzverif/lib"
	"github.com/cloudflare/circl/vdaf/prio3/internal/prio3"
	drv "github.com/cloudflare/circl/vdaf/prio3/internal/zzverifc19"
)

const vc19Mon = "TestVerifC19SoundnessSum"

const vc19P = uint64(0xffffffff00000001) // Field64 modulus

func vc19Meas(r *lib.Rng, max uint64) uint64 {
	if max == ^uint64(0) {
		return r.U64()
	}
	return r.U64() % (max + 1)
}

func TestVerifC19SoundnessSum(t *testing.T) {
	lib.Mandatory("invalid-injected:honest-prover", "invalid-rejected:honest-prover", "raw-valid-accepted:sum",
		"invalid:honest-prover:sum:non-bit", "invalid:honest-prover:sum:non-bit-value-preserving",
		"invalid:honest-prover:sum:offset-mismatch", "invalid:honest-prover:sum:out-of-range",
		"invalid:honest-prover:sum:out-of-range-non-bit", "invalid:honest-prover:sum:random-vector",
		"sum-64-bit-bound-probed")
	maxes := []uint64{1, 2, 3, 4, 5, 6, 7, 255, 256, 1337, 1<<32 - 1, 1 << 32, 1 << 62, 1<<63 - 2, 1<<63 - 1,
		// 64 entries per half: 2^bits >= p
		1 << 63, 1<<63 + 1, 3 << 62, vc19P - 2, vc19P - 1, vc19P, vc19P + 1, ^uint64(0) - 1, ^uint64(0)}
	shares := []uint8{2, 3, 5, 9}
	if lib.Thorough() {
		maxes = append(maxes, 8, 100, 65535, 65536, 1<<48+5, 1<<62-1, 1<<62+1, 1<<63+1<<62+12345, vc19P-3)
		shares = append(shares, 4, 16, 255)
	}
	reps := lib.Scale(4, 8)
	type cs struct {
		max uint64
		n   uint8
		k   int
	}
	var cases []cs
	for _, m := range maxes {
		for _, n := range shares {
			rp := reps
			if n > 16 {
				rp = 1 // cost grows linearly with the number of aggregators
			} else if n > 5 {
				rp = lib.Scale(1, 2)
			}
			for k := 0; k < rp; k++ {
				cases = append(cases, cs{m, n, k})
			}
		}
	}
	lib.Par(len(cases), func(i int) {
		c := cases[i]
		r := lib.NewRng(fmt.Sprintf("c19/wb/sum/%d/%d", c.max, c.n), c.k)
		ctx := r.Bytes(r.Intn(20))
		if c.max >= 1<<63 {
			lib.Count("sum-64-bit-bound-probed")
		}
		// the public constructor decides whether the bound is admitted at all;
		// the wrapper below is only built for bounds it accepts
		if _, err := New(c.n, c.max, ctx); err != nil {
			if c.max >= 1<<63 {
				lib.Count("sum.New-rejects-64-bit-bound")
				return
			}
			lib.Violation("C19:constructor-rejects-admissible:sum.New", vc19Mon, lib.D("max", fmt.Sprint(c.max), "err", err))
			return
		}
		f, err := newFlpSum(c.max)
		if err != nil {
			if c.max >= 1<<63 {
				lib.Count("newFlpSum-rejects-64-bit-bound")
				return
			}
			lib.Violation("C19:constructor-rejects-admissible:sum.New", vc19Mon, lib.D("max", fmt.Sprint(c.max), "err", err))
			return
		}
		spec := drv.SpecSum(c.max, ctx)
		p, err := prio3.New(&drv.Raw[uint64, uint64, *flpSum, Vec, Fp]{Inner: f}, spec.AlgID, c.n, ctx)
		if err != nil {
			t.Errorf("prio3.New on the wrapper: %v", err)
			return
		}
		valids := []uint64{0, c.max, vc19Meas(r, c.max)}
		base := vc19Meas(r, c.max)
		var key func(string) (string, map[string]any)
		if c.max >= 1<<63 {
			key = func(class string) (string, map[string]any) {
				if class != "out-of-range-wraps-mod-p" {
					return "", nil
				}
				return "C19:constructor-accepts-degenerate:sum.New:max-too-large", lib.D(
					"max_measurement", fmt.Sprint(c.max),
					"reasoning", "bits = bitlen(max) = 64, so 2^bits >= p = 2^64-2^32+1 (draft-13 7.4.2 requires 2^bits < p and raises "+
						"'bound exceeds field modulus'): both halves of the encoding are joined modulo p, so for a > max the bit vector "+
						"b = a + offset - p satisfies the range relation a + offset - b = 0 in the field. The report was produced by an "+
						"honest prover from that encoding, every aggregator accepted it and the output shares add up to a mod p > max.")
			}
		}
		drv.Soundness[uint64, uint64, Vec, Fp](vc19Mon, r, &p, spec, func(e []*big.Int) bool { return drv.ValidSum(c.max, e) },
			valids, drv.BadSum(r, c.max, base), key)
	})
}
