//go:build verif

package c18

import (
	"bytes"
	"crypto"
	"crypto/rsa"
	"fmt"
	"math/big"
	"testing"

	"github.com/cloudflare/circl/blindsign/blindrsa"
	pbrsa "github.com/cloudflare/circl/blindsign/blindrsa/partiallyblindrsa"
	"github.com/cloudflare/circl/internal/zzverif/lib"
)

// arena lays byte-string arguments out back to back in ONE buffer (the way a
// caller slicing a received frame would hold them) followed by a canary, and
// hands each argument over as a sub-slice whose capacity reaches over
// everything behind it.  After a call the whole buffer must be untouched.
type arena struct {
	buf  []byte
	orig []byte
	offs [][2]int
}

func newArena(parts ...[]byte) *arena {
	a := &arena{}
	for _, p := range parts {
		a.offs = append(a.offs, [2]int{len(a.buf), len(a.buf) + len(p)})
		a.buf = append(a.buf, p...)
	}
	for i := 0; i < 64; i++ {
		a.buf = append(a.buf, 0xA5^byte(i))
	}
	a.buf = append([]byte(nil), a.buf...) // exact backing array
	a.orig = lib.Clone(a.buf)
	return a
}

// arg i with spare capacity over the rest of the arena
func (a *arena) arg(i int) []byte { return a.buf[a.offs[i][0]:a.offs[i][1]] }

func (a *arena) intact() bool { return lib.Eq(a.buf, a.orig) }

// TestVerifArgumentsAndStateReuse: the protocol's results depend only on the
// values handed in.  (1) message, metadata, blinded message, blind signature
// and signature are handed over as adjacent sub-slices of one buffer with
// spare capacity: the buffer must be unchanged afterwards and every result
// must equal the result for separately allocated copies; (2) a client state is
// finalised several times (a refused blind signature first, then the genuine
// one, then the genuine one again): every finalisation of the genuine blind
// signature yields the same valid signature.
func TestVerifArgumentsAndStateReuse(t *testing.T) {
	const mon = "TestVerifArgumentsAndStateReuse"
	lib.Mandatory("args:brsa-runs", "args:pbrsa-runs", "args:finalize-after-refused", "args:short-read-randomness")
	stdOpts := func(saltLen int) *rsa.PSSOptions { return &rsa.PSSOptions{SaltLength: saltLen, Hash: crypto.SHA384} }

	// ---------------- blindrsa
	type bc struct {
		key *rsaKey
		vi  int
		run int
	}
	variants := []blindrsa.Variant{blindrsa.SHA384PSSRandomized, blindrsa.SHA384PSSZeroRandomized, blindrsa.SHA384PSSDeterministic, blindrsa.SHA384PSSZeroDeterministic}
	saltLens := []int{48, 0, 48, 0}
	var bcs []bc
	for _, kn := range []string{"plain-1024", "plain-2041", "plain-2048"} {
		k := loadKey(t, kn)
		for vi := range variants {
			for run := 0; run < lib.Scale(2, 12); run++ {
				bcs = append(bcs, bc{k, vi, run})
			}
		}
	}
	lib.Par(len(bcs), func(ci int) {
		c := bcs[ci]
		k := c.key
		pub := &k.sk.PublicKey
		id := fmt.Sprintf("%s/%d/%d", k.name, c.vi, c.run)
		r := lib.NewRng("c18/args/brsa/"+id, 0)
		client, err := blindrsa.NewClient(variants[c.vi], pub)
		if err != nil {
			return
		}
		signer := blindrsa.NewSigner(k.sk)
		msg := msgOfLen(r, c.run)
		lib.Case([]byte("args-brsa"), []byte(id), msg)
		lib.Count("args:brsa-runs")
		viol := func(class, entry string, kv ...any) {
			d := lib.D(kv...)
			d["rsa_key"] = k.name
			d["variant"] = variants[c.vi].String()
			lib.Violation("C18:"+class+":"+entry, mon, d)
		}
		seed := r.Bytes(32)
		// Prepare: message inside an arena
		a := newArena(msg, r.Bytes(16))
		p1, e1 := client.Prepare(lib.NewRng("c18/args/prep/"+id, 0), a.arg(0))
		p2, e2 := client.Prepare(lib.NewRng("c18/args/prep/"+id, 0), lib.Clone(msg))
		if !a.intact() {
			viol("argument-memory-written", "blindrsa.Client.Prepare")
			return
		}
		if e1 != nil || e2 != nil || !lib.Eq(p1, p2) {
			viol("result-depends-on-argument-layout", "blindrsa.Client.Prepare", "err1", e1, "err2", e2)
			return
		}
		// the prepared message must not be tied to the caller's message buffer
		keep := lib.Clone(p1)
		for i := range a.buf {
			a.buf[i] ^= 0xFF
		}
		if !lib.Eq(p1, keep) {
			viol("result-aliases-argument", "blindrsa.Client.Prepare")
			return
		}
		prepared := keep
		// Blind
		a = newArena(prepared, seed)
		b1, st1, e1 := client.Blind(lib.NewRng("c18/args/blind/"+id, 0), a.arg(0))
		b2, _, e2 := client.Blind(lib.NewRng("c18/args/blind/"+id, 0), lib.Clone(prepared))
		if !a.intact() {
			viol("argument-memory-written", "blindrsa.Client.Blind")
			return
		}
		if e1 != nil || e2 != nil || !lib.Eq(b1, b2) {
			viol("result-depends-on-argument-layout", "blindrsa.Client.Blind", "err1", e1, "err2", e2)
			return
		}
		// the randomness delivered in short pieces gives the same blinded message
		{
			rb := lib.NewRng("c18/args/blind-bytes/"+id, 0).Bytes(1 << 14)
			w1, _, we1 := client.Blind(bytes.NewReader(rb), lib.Clone(prepared))
			w2, _, we2 := client.Blind(&lib.ShortReader{R: bytes.NewReader(rb)}, lib.Clone(prepared))
			pr1, pe1 := client.Prepare(bytes.NewReader(rb), lib.Clone(msg))
			pr2, pe2 := client.Prepare(&lib.ShortReader{R: bytes.NewReader(rb)}, lib.Clone(msg))
			lib.Count("args:short-read-randomness")
			if we1 != nil || we2 != nil || pe1 != nil || pe2 != nil || !lib.Eq(w1, w2) || !lib.Eq(pr1, pr2) {
				viol("result-depends-on-how-the-randomness-is-delivered", "blindrsa.Client.Blind/Prepare", "blind_same", lib.Eq(w1, w2), "prepare_same", lib.Eq(pr1, pr2), "errs", []any{we1, we2, pe1, pe2})
				return
			}
		}
		// the caller re-uses its buffer after Blind: the state must not be tied to it
		for i := range a.buf {
			a.buf[i] = 0
		}
		// BlindSign
		a = newArena(b1, seed)
		z1, e1 := signer.BlindSign(a.arg(0))
		z2, e2 := signer.BlindSign(lib.Clone(b1))
		if !a.intact() {
			viol("argument-memory-written", "blindrsa.Signer.BlindSign")
			return
		}
		if e1 != nil || e2 != nil || !lib.Eq(z1, z2) {
			viol("result-depends-on-argument-layout", "blindrsa.Signer.BlindSign", "err1", e1, "err2", e2)
			return
		}
		// Finalize: a refused blind signature first, then the genuine one, twice
		bad := lib.Clone(z1)
		bad[len(bad)-1-r.Intn(len(bad)/2)] ^= 1 << uint(r.Intn(8))
		if _, err := client.Finalize(st1, bad); err == nil {
			return // judged by the protocol monitor
		}
		lib.Count("args:finalize-after-refused")
		a = newArena(z1, seed)
		s1, e1 := client.Finalize(st1, a.arg(0))
		if !a.intact() {
			viol("argument-memory-written", "blindrsa.Client.Finalize")
			return
		}
		if e1 != nil {
			viol("finalize-fails-on-reused-state", "blindrsa.Client.Finalize", "err", e1, "history", "refused blind signature, then the genuine one")
			return
		}
		s2, e2 := client.Finalize(st1, lib.Clone(z1))
		if e2 != nil || !lib.Eq(s1, s2) {
			viol("finalize-fails-on-reused-state", "blindrsa.Client.Finalize", "err", e2, "history", "the genuine blind signature twice")
			return
		}
		mHash := hashOf(crypto.SHA384, prepared)
		if rsa.VerifyPSS(pub, crypto.SHA384, mHash, s1, stdOpts(saltLens[c.vi])) != nil {
			viol("final-signature-rejected-by-crypto-rsa", "blindrsa.Client.Finalize", "sig", s1)
			return
		}
		// Verify with message and signature adjacent
		a = newArena(prepared, s1)
		ev := client.Verify(a.arg(0), a.arg(1))
		if !a.intact() {
			viol("argument-memory-written", "blindrsa.Client.Verify")
			return
		}
		if ev != nil {
			viol("result-depends-on-argument-layout", "blindrsa.Client.Verify", "err", ev)
		}
	})

	// ---------------- partiallyblindrsa
	type pc struct {
		key *rsaKey
		h   crypto.Hash
		run int
	}
	var pcs []pc
	for _, kn := range []string{"safe-1024", "safe-1536"} {
		k := loadKey(t, kn)
		for _, h := range []crypto.Hash{crypto.SHA384, crypto.SHA256} {
			for run := 0; run < lib.Scale(3, 16); run++ {
				pcs = append(pcs, pc{k, h, run})
			}
		}
	}
	lib.Par(len(pcs), func(ci int) {
		c := pcs[ci]
		k := c.key
		id := fmt.Sprintf("%s/%s/%d", k.name, c.h, c.run)
		r := lib.NewRng("c18/args/pb/"+id, 0)
		verifier := pbrsa.NewVerifier(&k.sk.PublicKey, c.h)
		verifier2 := pbrsa.NewVerifier(&k.sk.PublicKey, c.h)
		signer, err := pbrsa.NewSigner(k.sk, c.h)
		if err != nil {
			return
		}
		msg := msgOfLen(r, c.run+1)
		if len(msg) == 0 {
			msg = []byte{0x5A}
		}
		info := metadataOf(r, c.run+1)
		lib.Case([]byte("args-pb"), []byte(id), msg, info)
		lib.Count("args:pbrsa-runs")
		viol := func(class, entry string, kv ...any) {
			d := lib.D(kv...)
			d["rsa_key"] = k.name
			d["hash"] = c.h.String()
			lib.Violation("C18:"+class+":"+entry, mon, d)
		}
		// metadata first, message right behind it (and the other way round),
		// then salt, blind and inverse.  (Blind draws its salt from crypto/rand
		// whatever reader it is given, so the comparison uses FixedBlind.)
		var rb, rInv *big.Int
		for {
			rb = new(big.Int).Mod(new(big.Int).SetBytes(r.Bytes(k.k+8)), k.N)
			if rb.Sign() != 0 {
				if rInv = new(big.Int).ModInverse(rb, k.N); rInv != nil {
					break
				}
			}
		}
		salt := r.Bytes(c.h.Size())
		var a *arena
		mi, ii := 0, 1
		if c.run%2 == 0 {
			a = newArena(info, msg, salt, rb.Bytes(), rInv.Bytes())
			mi, ii = 1, 0
		} else {
			a = newArena(msg, info, salt, rb.Bytes(), rInv.Bytes())
		}
		// the verifier hands out its hash object (Hash()); a caller that used it
		// for something else and left data in it must not change the next run
		if c.run%3 != 2 {
			_, _ = verifier.Hash().Write(r.Bytes(1 + r.Intn(40)))
			lib.Count("args:pbrsa-hash-object-left-dirty")
		}
		b1, st1, e1 := verifier.FixedBlind(a.arg(mi), a.arg(ii), a.arg(2), a.arg(3), a.arg(4))
		b2, _, e2 := verifier2.FixedBlind(lib.Clone(msg), lib.Clone(info), lib.Clone(salt), rb.Bytes(), rInv.Bytes())
		if !a.intact() {
			viol("argument-memory-written", "partiallyblindrsa.Verifier.FixedBlind", "arena_before", a.orig, "arena_after", a.buf)
			return
		}
		if e1 != nil || e2 != nil || !lib.Eq(b1, b2) {
			viol("result-depends-on-argument-layout", "partiallyblindrsa.Verifier.FixedBlind", "err1", e1, "err2", e2)
			return
		}
		// the randomised entry point with the same layout
		a2 := newArena(info, msg)
		if c.run%2 == 1 {
			a2 = newArena(msg, info)
		}
		if _, _, err := verifier2.Blind(lib.NewRng("c18/args/pbblind/"+id, 0), a2.arg(mi), a2.arg(ii)); err != nil || !a2.intact() {
			viol("argument-memory-written", "partiallyblindrsa.Verifier.Blind", "err", err, "arena_before", a2.orig, "arena_after", a2.buf)
			return
		}
		for i := range a.buf {
			a.buf[i] = 0 // the caller re-uses its buffer
		}
		a = newArena(b1, info)
		z1, e1 := signer.BlindSign(a.arg(0), a.arg(1))
		z2, e2 := signer.BlindSign(lib.Clone(b1), lib.Clone(info))
		if !a.intact() {
			viol("argument-memory-written", "partiallyblindrsa.Signer.BlindSign", "arena_before", a.orig, "arena_after", a.buf)
			return
		}
		if e1 != nil || e2 != nil || !lib.Eq(z1, z2) {
			viol("result-depends-on-argument-layout", "partiallyblindrsa.Signer.BlindSign", "err1", e1, "err2", e2)
			return
		}
		// a server re-using one request buffer: the same metadata slice is
		// overwritten with OTHER metadata of the same length for the next
		// request on the same Signer; the answer must be the one a fresh
		// Signer gives for the new metadata
		if len(info) > 0 {
			buf := lib.Clone(info)
			if _, err := signer.BlindSign(lib.Clone(b1), buf); err == nil {
				info2 := lib.Clone(info)
				info2[r.Intn(len(info2))] ^= byte(1 + r.Intn(255))
				copy(buf, info2)
				b3, _, e3 := verifier2.FixedBlind(lib.Clone(msg), lib.Clone(info2), lib.Clone(salt), rb.Bytes(), rInv.Bytes())
				fresh, ef := pbrsa.NewSigner(k.sk, c.h)
				if e3 == nil && ef == nil {
					z3, e1 := signer.BlindSign(lib.Clone(b3), buf)
					z4, e2 := fresh.BlindSign(lib.Clone(b3), lib.Clone(info2))
					lib.Count("args:pbrsa-metadata-buffer-reused")
					if (e1 == nil) != (e2 == nil) || !lib.Eq(z3, z4) {
						viol("result-depends-on-earlier-calls", "partiallyblindrsa.Signer.BlindSign", "err_used_signer", e1, "err_fresh_signer", e2,
							"history", "BlindSign(b1, buf=metadata1); buf overwritten with metadata2; BlindSign(b3, buf)", "metadata1", info, "metadata2", info2)
						return
					}
				}
			}
		}
		bad := lib.Clone(z1)
		bad[len(bad)-1-r.Intn(len(bad)/2)] ^= 1 << uint(r.Intn(8))
		if _, err := st1.Finalize(bad); err == nil {
			return
		}
		lib.Count("args:finalize-after-refused")
		a = newArena(z1, info)
		s1, e1 := st1.Finalize(a.arg(0))
		if !a.intact() {
			viol("argument-memory-written", "partiallyblindrsa.VerifierState.Finalize")
			return
		}
		if e1 != nil {
			viol("finalize-fails-on-reused-state", "partiallyblindrsa.VerifierState.Finalize", "err", e1, "history", "refused blind signature, then the genuine one")
			return
		}
		s2, e2 := st1.Finalize(lib.Clone(z1))
		if e2 != nil || !lib.Eq(s1, s2) {
			viol("finalize-fails-on-reused-state", "partiallyblindrsa.VerifierState.Finalize", "err", e2, "history", "the genuine blind signature twice")
			return
		}
		a = newArena(info, msg, s1)
		if c.run%2 == 0 {
			_, _ = verifier.Hash().Write([]byte("left over"))
		}
		ev := verifier.Verify(a.arg(1), a.arg(0), a.arg(2))
		if !a.intact() {
			viol("argument-memory-written", "partiallyblindrsa.Verifier.Verify", "arena_before", a.orig, "arena_after", a.buf)
			return
		}
		if ev != nil {
			viol("final-signature-rejected-by-circl", "partiallyblindrsa.Verifier.Verify:adjacent-arguments", "err", ev)
		}
	})
}
