//go:build verif

package c03

import (
	"bytes"
	"fmt"
	"testing"

	"github.com/cloudflare/circl/internal/zzverif/lib"
	ref "github.com/cloudflare/circl/internal/zzverif/ref/mlkem"
	"github.com/cloudflare/circl/kem"
)

const (
	monKEM   = "TestVerifKEMDifferential"
	monParse = "TestVerifMLKEMKeyParsing"
	monPKE   = "TestVerifPKEDifferential"
)

// ------------------------------------------------------------ generators

func fill(n int, v byte) []byte {
	b := make([]byte, n)
	for i := range b {
		b[i] = v
	}
	return b
}

// seedFor gives the idx-th seed of a stream: the first few are fixed corner
// cases, then a mix of uniformly random and limb-edge-biased strings.
func seedFor(r *lib.Rng, idx, n int) []byte {
	switch idx {
	case 0:
		return make([]byte, n)
	case 1:
		return fill(n, 0xFF)
	case 2:
		b := make([]byte, n)
		b[0] = 1
		return b
	case 3:
		b := make([]byte, n)
		b[n-1] = 0x80
		return b
	}
	if idx%5 == 4 {
		return r.EdgeBytes(n, 0)
	}
	return r.Bytes(n)
}

// set12 overwrites the idx-th 12-bit little-endian field of buf.
func set12(buf []byte, idx, val int) {
	o := (idx / 2) * 3
	if idx%2 == 0 {
		buf[o] = byte(val)
		buf[o+1] = buf[o+1]&0xF0 | byte(val>>8)&0x0F
	} else {
		buf[o+1] = buf[o+1]&0x0F | byte(val<<4)
		buf[o+2] = byte(val >> 4)
	}
}

func get12(buf []byte, idx int) int {
	o := (idx / 2) * 3
	if idx%2 == 0 {
		return int(buf[o]) | int(buf[o+1]&0x0F)<<8
	}
	return int(buf[o+1]>>4) | int(buf[o+2])<<4
}

// randomReducedVec returns k packed polynomials with uniformly random
// coefficients in [0,q), a fraction of them at 0, 1, q-2, q-1.
func randomReducedVec(r *lib.Rng, k int) []byte {
	buf := make([]byte, 384*k)
	for i := 0; i < 256*k; i++ {
		v := r.Intn(ref.Q)
		switch r.Intn(16) {
		case 0:
			v = 0
		case 1:
			v = ref.Q - 1
		case 2:
			v = ref.Q - 2
		case 3:
			v = 1
		}
		set12(buf, i, v)
	}
	return buf
}

// fieldEdges are the values of a d-bit ciphertext field that sit on
// boundaries: 0, 1, max, max-1, the half point (decompresses to ~q/2) and the
// quarter points (decompress to the Compress_1 thresholds ~q/4 and ~3q/4).
func fieldEdges(d int) []int {
	m := 1 << uint(d)
	return []int{0, 1, m - 1, m - 2, m / 2, m/2 - 1, m/2 + 1, m / 4, m/4 - 1, m/4 + 1, 3 * m / 4, 3*m/4 - 1, 3*m/4 + 1}
}

// fieldCT assembles a ciphertext from explicit field values.
func fieldCT(p *ref.Params, uf func(i, j int) int, vf func(j int) int) []byte {
	var ct []byte
	for i := 0; i < p.K; i++ {
		var f ref.Poly
		for j := range f {
			f[j] = uf(i, j) & (1<<uint(p.Du) - 1)
		}
		ct = append(ct, ref.ByteEncode(&f, p.Du)...)
	}
	var f ref.Poly
	for j := range f {
		f[j] = vf(j) & (1<<uint(p.Dv) - 1)
	}
	return append(ct, ref.ByteEncode(&f, p.Dv)...)
}

type alt struct {
	class string
	ct    []byte
}

// alterations lists the hostile / boundary ciphertexts derived from an honest
// one.  full selects the large set.
func alterations(p *ref.Params, r *lib.Rng, honest []byte, full bool) []alt {
	n := len(honest)
	var out []alt
	add := func(c string, b []byte) { out = append(out, alt{c, b}) }
	nb := 8 * n
	flips := 6
	if full {
		flips = 24
	}
	for i := 0; i < flips; i++ {
		add("bitflip", lib.FlipBit(honest, r.Intn(nb)))
	}
	// first / last bit, the bits around the c1|c2 border and around the
	// borders between the polynomials of u
	for _, b := range []int{0, nb - 1, 8*p.C1Size - 1, 8 * p.C1Size, 8*(p.C1Size/p.K) - 1, 8 * (p.C1Size / p.K)} {
		add("bitflip-border", lib.FlipBit(honest, b))
	}
	add("random", r.Bytes(n))
	if !full {
		return out
	}
	add("random", r.Bytes(n))
	add("random-edge", r.EdgeBytes(n, 0))
	add("fill-00", fill(n, 0x00))
	add("fill-ff", fill(n, 0xFF))
	add("fill-0f", fill(n, 0x0F))
	add("fill-f0", fill(n, 0xF0))
	add("fill-aa", fill(n, 0xAA))
	add("fill-55", fill(n, 0x55))
	{
		c := lib.Clone(honest)
		for k := 0; k < 1+r.Intn(8); k++ {
			c[r.Intn(n)] ^= byte(1 + r.Intn(255))
		}
		add("multibyte", c)
	}
	eu, ev := fieldEdges(p.Du), fieldEdges(p.Dv)
	// every field of u = a, every field of v = b
	for i, a := range eu {
		b := ev[(i*5+r.Intn(len(ev)))%len(ev)]
		add("fields-const", fieldCT(p, func(int, int) int { return a }, func(int) int { return b }))
	}
	// u = 0 makes w = Decompress(v) exactly: sweep v over all its values so
	// that both Compress_1 thresholds are approached from either side
	add("u-zero-v-sweep", fieldCT(p, func(int, int) int { return 0 }, func(j int) int { return j }))
	add("u-zero-v-sweep", fieldCT(p, func(int, int) int { return 0 }, func(j int) int { return 255 - j + r.Intn(2) }))
	// independent edge values per field
	for k := 0; k < 3; k++ {
		add("fields-edge", fieldCT(p,
			func(int, int) int { return eu[r.Intn(len(eu))] },
			func(int) int { return ev[r.Intn(len(ev))] }))
	}
	// honest u with edge v, edge u with honest v
	{
		c := fieldCT(p, func(int, int) int { return 0 }, func(int) int { return ev[r.Intn(len(ev))] })
		copy(c[:p.C1Size], honest[:p.C1Size])
		add("honest-u-edge-v", c)
		c = fieldCT(p, func(int, int) int { return eu[r.Intn(len(eu))] }, func(int) int { return 0 })
		copy(c[p.C1Size:], honest[p.C1Size:])
		add("edge-u-honest-v", c)
	}
	// one field of the honest ciphertext moved by +-1 (mod 2^d)
	for k := 0; k < 4; k++ {
		hu := make([]ref.Poly, p.K)
		for i := range hu {
			hu[i] = ref.ByteDecode(honest[i*(p.C1Size/p.K):], p.Du)
		}
		hv := ref.ByteDecode(honest[p.C1Size:], p.Dv)
		delta := 1 - 2*r.Intn(2)
		if k%2 == 0 {
			i, j := r.Intn(p.K), r.Intn(256)
			hu[i][j] += delta
		} else {
			hv[r.Intn(256)] += delta
		}
		add("field-plus-minus-one", fieldCT(p, func(i, j int) int { return hu[i][j] }, func(j int) int { return hv[j] }))
	}
	return out
}

// wBoundary counts the coefficients of w = v' - s.u' that lie directly on
// either side of a Compress_1 threshold.
func wBoundary(w *ref.Poly) {
	for _, c := range w {
		switch c {
		case 832, 833, 2496, 2497:
			lib.Count(fmt.Sprintf("decrypt-w=%d", c))
		}
	}
}

// ------------------------------------------------------------ KEM differential

// scribble overwrites a buffer that was passed to the library and is the
// caller's again.
func scribble(b []byte) {
	for i := range b {
		b[i] ^= 0xA5
	}
}

func kviol(im *kemImpl, class, sub string, kv ...any) {
	d := lib.D(kv...)
	d["scheme"] = im.name
	key := "C03:" + class + ":" + im.name
	if sub != "" {
		key += ":" + sub
	}
	lib.Violation(key, monKEM, d)
}

func TestVerifKEMDifferential(t *testing.T) {
	lib.Mandatory("keygen-compared", "encaps-compared", "decaps:accept", "decaps:implicit-rejection",
		"matrix-entries-need-different-block-counts",
		"decrypt-w=832", "decrypt-w=833", "decrypt-w=2496", "decrypt-w=2497")
	ims := kemImpls()
	nk := lib.Scale(80, 2000)
	type cs struct {
		im *kemImpl
		k  int
	}
	var cases []cs
	for k := 0; k < nk; k++ {
		for _, im := range ims {
			cases = append(cases, cs{im, k})
		}
	}
	lib.Par(len(cases), func(i int) { kemCase(cases[i].im, cases[i].k) })
}

func kemCase(im *kemImpl, k int) {
	p := im.p
	r := lib.NewRng("c03/kem/"+im.name, k)
	seed := seedFor(r, k, 64)

	// ---- key generation
	wantEk, wantDk, info := im.refKeyGen(seed)
	if info.Differs() {
		lib.Count("matrix-entries-need-different-block-counts")
	}
	if info.Max() >= 4 {
		lib.Count("matrix-entry-needs-4-or-more-blocks")
	}
	var pk kemPub
	var sk kemPriv
	lib.Case([]byte(im.name), []byte("keygen"), seed)
	// the seed buffer is the caller's: it is overwritten as soon as the call
	// returns (a caller wiping its seed); the keys must not change with it
	seedIn := lib.Clone(seed)
	if pn := lib.Try("NewKeyFromSeed:"+im.name, seed, func() { pk, sk = im.newKey(seedIn) }); pn != nil {
		kviol(im, "panic", "keygen", "seed", seed, "panic", pn.Value)
		return
	}
	scribble(seedIn)
	gotEk := make([]byte, p.EkSize)
	gotDk := make([]byte, p.DkSize)
	pk.Pack(gotEk)
	sk.Pack(gotDk)
	lib.Count("keygen-compared")
	if !lib.Eq(gotEk, wantEk) || !lib.Eq(gotDk, wantDk) {
		what := "dk"
		if !lib.Eq(gotEk, wantEk) {
			what = "ek"
		}
		kviol(im, "keygen-mismatch", "", "seed", seed, "first_difference_in", what, "want_ek", wantEk, "got_ek", gotEk,
			"want_dk_sha", ref.H(wantDk), "got_dk_sha", ref.H(gotDk))
		return // everything below would just repeat the same root cause
	}
	// scheme API
	seedIn = lib.Clone(seed)
	spk, ssk := im.sch.DeriveKeyPair(seedIn)
	scribble(seedIn)
	b1, _ := spk.MarshalBinary()
	b2, _ := ssk.MarshalBinary()
	if !lib.Eq(b1, wantEk) || !lib.Eq(b2, wantDk) {
		kviol(im, "keygen-mismatch", "scheme-api", "seed", seed)
	}
	// keys parsed from the reference's bytes
	ekIn, dkIn := lib.Clone(wantEk), lib.Clone(wantDk)
	upk, err1 := im.sch.UnmarshalBinaryPublicKey(ekIn)
	usk, err2 := im.sch.UnmarshalBinaryPrivateKey(dkIn)
	scribble(ekIn)
	scribble(dkIn)
	if err1 != nil || err2 != nil {
		kviol(im, "wellformed-key-refused", "", "seed", seed, "err_pub", err1, "err_priv", err2)
		return
	}
	b1, _ = upk.MarshalBinary()
	b2, _ = usk.MarshalBinary()
	if im.ml && (!lib.Eq(b1, wantEk) || !lib.Eq(b2, wantDk)) {
		kviol(im, "reencode-differs", "", "seed", seed)
	}
	ekIn, dkIn = lib.Clone(wantEk), lib.Clone(wantDk)
	dpk, err1 := im.unpackPub(ekIn)
	dsk, err2 := im.unpackPriv(dkIn)
	scribble(ekIn)
	scribble(dkIn)
	if err1 != nil || err2 != nil {
		kviol(im, "wellformed-key-refused", "direct-api", "seed", seed, "err_pub", err1, "err_priv", err2)
		return
	}
	if k == 0 {
		lib.Sample(monKEM, lib.D("scheme", im.name, "seed", seed, "ek_sha3", ref.H(wantEk), "dk_sha3", ref.H(wantDk)))
	}

	// ---- encapsulation and decapsulation
	ne := 3
	for e := 0; e < ne; e++ {
		m := seedFor(r, (k+e)%7+e*3, 32) // corner-case messages meet corner-case and ordinary keys
		if e == 2 {
			m = r.Bytes(32)
		}
		wantK, wantC := im.refEncaps(wantEk, m)
		ct := make([]byte, p.CtSize)
		ss := make([]byte, 32)
		lib.Case([]byte(im.name), []byte("encaps"), seed, m)
		var usePk kemPub = pk
		if e == 1 {
			usePk = dpk // the key parsed from bytes must behave the same
		}
		if pn := lib.Try("EncapsulateTo:"+im.name, m, func() { usePk.EncapsulateTo(ct, ss, m) }); pn != nil {
			kviol(im, "panic", "encaps", "seed", seed, "m", m, "panic", pn.Value)
			continue
		}
		lib.Count("encaps-compared")
		if !lib.Eq(ct, wantC) || !lib.Eq(ss, wantK) {
			what := "ss"
			if !lib.Eq(ct, wantC) {
				what = "ct"
			}
			kviol(im, "encaps-mismatch", "", "seed", seed, "m", m, "differs", what, "want_ss", wantK, "got_ss", ss,
				"want_ct", wantC, "got_ct", ct)
			continue
		}
		ct2, ss2, err := im.sch.EncapsulateDeterministically(upk, m)
		if err != nil || !lib.Eq(ct2, wantC) || !lib.Eq(ss2, wantK) {
			kviol(im, "encaps-mismatch", "scheme-api", "seed", seed, "m", m, "err", err)
		}
		// the secret written over the seed (one 32-octet buffer serves as input
		// and as output), and the ciphertext buffer not zero
		{
			buf := lib.Clone(m)
			ctA := make([]byte, p.CtSize)
			for i := range ctA {
				ctA[i] = 0xEE
			}
			if pn := lib.Try("EncapsulateTo(ss over seed):"+im.name, m, func() { usePk.EncapsulateTo(ctA, buf, buf) }); pn == nil {
				lib.Count("encaps:secret-over-seed")
				if !lib.Eq(ctA, wantC) || !lib.Eq(buf, wantK) {
					kviol(im, "encaps-mismatch", "secret-written-over-the-seed-buffer", "seed", seed, "m", m, "ct_same", lib.Eq(ctA, wantC), "ss_same", lib.Eq(buf, wantK))
				}
			}
		}

		// honest decapsulation through every entry point
		for which, s := range []kemPriv{sk, dsk} {
			got := make([]byte, 32)
			s.DecapsulateTo(got, wantC)
			lib.Eval()
			if !lib.Eq(got, wantK) {
				kviol(im, "decaps-mismatch", "accept", "seed", seed, "m", m, "ct", wantC, "want", wantK, "got", got, "key_from", which)
			}
		}
		if got, err := im.sch.Decapsulate(usk, wantC); err != nil || !lib.Eq(got, wantK) {
			kviol(im, "decaps-mismatch", "accept", "seed", seed, "m", m, "ct", wantC, "want", wantK, "got", got, "err", err, "key_from", "scheme-api")
		}
		// the secret written over a part of the ciphertext buffer (a caller
		// decapsulating in place) and into a buffer that is not zero
		for _, off := range []int{0, len(wantC) - 32, (len(wantC) / 2) &^ 7} {
			buf := lib.Clone(wantC)
			sk.DecapsulateTo(buf[off:off+32], buf)
			lib.Eval()
			lib.Count("decaps:in-place")
			if !lib.Eq(buf[off:off+32], wantK) {
				kviol(im, "decaps-mismatch", "accept:output-inside-ciphertext-buffer", "seed", seed, "m", m, "offset", off, "want", wantK, "got", buf[off:off+32])
				break
			}
		}
		{
			got := bytes.Repeat([]byte{0xFF}, 32)
			dct, dss := bytes.Repeat([]byte{0xEE}, len(wantC)), bytes.Repeat([]byte{0xDD}, 32)
			sk.DecapsulateTo(got, wantC)
			pk.EncapsulateTo(dct, dss, m)
			if !lib.Eq(got, wantK) || !lib.Eq(dct, wantC) || !lib.Eq(dss, wantK) {
				kviol(im, "encaps-mismatch", "used-output-buffers", "seed", seed, "m", m)
			}
		}

		alts := alterations(p, r, wantC, e == 0)
		for ai, a := range alts {
			if lib.Eq(a.ct, wantC) {
				continue
			}
			want, rejected, w := im.refDecaps(wantDk, a.ct)
			wBoundary(&w)
			lib.Case([]byte(im.name), []byte("decaps"), seed, a.ct)
			lib.Count("alt:" + a.class)
			if rejected {
				lib.Count("decaps:implicit-rejection")
			} else {
				lib.Count("decaps:accept-of-altered")
			}
			got := make([]byte, 32)
			var err error
			usedScheme := ai%3 == 2
			pn := lib.Try("Decapsulate:"+im.name+":"+a.class, a.ct, func() {
				switch ai % 3 {
				case 0:
					sk.DecapsulateTo(got, a.ct)
				case 1:
					dsk.DecapsulateTo(got, a.ct)
				default:
					got, err = im.sch.Decapsulate(usk, a.ct)
				}
			})
			if pn != nil {
				kviol(im, "panic", "decaps", "seed", seed, "ct", a.ct, "class", a.class, "panic", pn.Value, "frame", pn.TopFrame())
				continue
			}
			if err != nil || !lib.Eq(got, want) {
				sub := "reject"
				if !rejected {
					sub = "accept"
				}
				kviol(im, "decaps-mismatch", sub, "seed", seed, "ct", a.ct, "class", a.class, "want", want, "got", got,
					"err", err, "scheme_api", usedScheme, "honest_ss", wantK, "got_equals_honest", lib.Eq(got, wantK))
			}
		}
		{
			_, _, w := im.refDecaps(wantDk, wantC)
			wBoundary(&w)
			lib.Count("decaps:accept")
		}
	}
}

// ------------------------------------------------------------ ML-KEM key parsing

func pviol(im *kemImpl, class string, kv ...any) {
	d := lib.D(kv...)
	d["scheme"] = im.name
	lib.Violation("C03:"+class+":"+im.name, monParse, d)
}

// positions lists the coefficient indices (0 .. 256k-1) to alter.
func positions(r *lib.Rng, k int, all bool) []int {
	n := 256 * k
	if all {
		out := make([]int, n)
		for i := range out {
			out[i] = i
		}
		return out
	}
	out := []int{0, 1, n - 1, n - 2}
	for i := 1; i < k; i++ {
		out = append(out, 256*i-1, 256*i)
	}
	for i := 0; i < 24; i++ {
		out = append(out, r.Intn(n))
	}
	return out
}

func TestVerifMLKEMKeyParsing(t *testing.T) {
	lib.Mandatory("ek-unreduced-refused", "ek-wellformed-accepted", "dk-hash-mismatch-refused", "dk-wellformed-accepted", "ek-structured-rho-zero", "ek-structured-that-zero",
		"kyber-r3-unreduced-pk-compared", "dk-unreduced-decaps-compared")
	ims := kemImpls()
	nk := lib.Scale(12, 120)
	type cs struct {
		im *kemImpl
		k  int
	}
	var cases []cs
	for k := 0; k < nk; k++ {
		for _, im := range ims {
			cases = append(cases, cs{im, k})
		}
	}
	lib.Par(len(cases), func(i int) { parseCase(cases[i].im, cases[i].k) })
}

func parseCase(im *kemImpl, k int) {
	p := im.p
	r := lib.NewRng("c03/parse/"+im.name, k)
	var ek, dk []byte
	if k%2 == 0 {
		ek, dk, _ = im.refKeyGen(seedFor(r, k/2, 64))
	} else {
		// not generated by KeyGen but well-formed: arbitrary reduced t-hat and
		// s-hat, arbitrary rho, matching hash
		rho := r.Bytes(32)
		that := randomReducedVec(r, p.K)
		// structured components (a stale or special-cased value is most likely
		// at all-zero / all-ones / constant strings): rho = 0^32, FF^32, 01^32
		// and t-hat = 0
		switch (k / 2) % 6 {
		case 0:
			rho = fill(32, 0x00)
			lib.Count("ek-structured-rho-zero")
		case 1:
			rho = fill(32, 0xFF)
		case 2:
			rho = fill(32, 0x01)
		case 3:
			that = make([]byte, len(that))
			lib.Count("ek-structured-that-zero")
		}
		ek = append(that, rho...)
		dk = append(randomReducedVec(r, p.K), ek...)
		dk = append(dk, ref.H(ek)...)
		dk = append(dk, r.Bytes(32)...)
	}
	m := r.Bytes(32)

	// (1) well-formed keys: accepted, re-encoded identically, and they compute
	// the reference's function
	check := func(what string, ekb, dkb []byte) bool {
		lib.Case([]byte(im.name), []byte("parse-wellformed"), ekb, dkb)
		upk, err := im.sch.UnmarshalBinaryPublicKey(ekb)
		dpk, errD := im.unpackPub(ekb)
		if err != nil || errD != nil {
			pviol(im, "wellformed-key-refused", "what", what+"/ek", "ek", ekb, "err", err, "err_direct", errD)
			return false
		}
		lib.Count("ek-wellformed-accepted")
		b, _ := upk.MarshalBinary()
		b2 := make([]byte, p.EkSize)
		dpk.Pack(b2)
		if im.ml && (!lib.Eq(b, ekb) || !lib.Eq(b2, ekb)) {
			pviol(im, "reencode-differs", "what", what+"/ek", "ek", ekb, "got", b)
		}
		wantK, wantC := im.refEncaps(ekb, m)
		ct, ss, err := im.sch.EncapsulateDeterministically(upk, m)
		if err != nil || !lib.Eq(ct, wantC) || !lib.Eq(ss, wantK) {
			pviol(im, "encaps-mismatch", "what", what, "ek", ekb, "m", m, "want_ct", wantC, "got_ct", ct, "want_ss", wantK, "got_ss", ss)
		}
		if dkb == nil {
			return true
		}
		usk, err := im.sch.UnmarshalBinaryPrivateKey(dkb)
		dsk, errD := im.unpackPriv(dkb)
		if err != nil || errD != nil {
			pviol(im, "wellformed-key-refused", "what", what+"/dk", "dk", dkb, "err", err, "err_direct", errD)
			return false
		}
		lib.Count("dk-wellformed-accepted")
		b, _ = usk.MarshalBinary()
		b2 = make([]byte, p.DkSize)
		dsk.Pack(b2)
		if im.ml && (!lib.Eq(b, dkb) || !lib.Eq(b2, dkb)) {
			pviol(im, "reencode-differs", "what", what+"/dk", "dk", dkb)
		}
		for _, c := range [][]byte{wantC, lib.FlipBit(wantC, r.Intn(8*len(wantC))), r.Bytes(len(wantC))} {
			want, _, _ := im.refDecaps(dkb, c)
			got, err := im.sch.Decapsulate(usk, c)
			got2 := make([]byte, 32)
			dsk.DecapsulateTo(got2, c)
			lib.Eval()
			if err != nil || !lib.Eq(got, want) || !lib.Eq(got2, want) {
				pviol(im, "decaps-mismatch", "what", what, "dk", dkb, "ct", c, "want", want, "got", got, "got_direct", got2)
			}
		}
		return true
	}
	if !check("base", ek, dk) {
		return
	}

	all := lib.Thorough() && k < 2
	pos := positions(r, p.K, all)

	// (2) one coefficient of t-hat moved to a boundary value
	for _, i := range pos {
		// still reduced: accepted
		for _, v := range []int{ref.Q - 1, 0} {
			if all && i%16 != 0 {
				continue
			}
			e2 := lib.Clone(ek)
			set12(e2, i, v)
			check("coefficient-at-edge", e2, nil)
		}
		// not reduced: refused (ML-KEM); Kyber round 3 has no such check, but then
		// has to compute with the value modulo q
		for _, v := range []int{ref.Q, ref.Q + 1, 4095, ref.Q + r.Intn(4096-ref.Q)} {
			e2 := lib.Clone(ek)
			set12(e2, i, v)
			lib.Case([]byte(im.name), []byte("parse-unreduced"), e2)
			if p.CheckEk(e2) {
				panic("harness: reference accepts an unreduced ek")
			}
			var upk kem.PublicKey
			var err, errD error
			pn := lib.Try("UnmarshalBinaryPublicKey:"+im.name, e2, func() {
				upk, err = im.sch.UnmarshalBinaryPublicKey(e2)
				_, errD = im.unpackPub(e2)
			})
			if pn != nil {
				pviol(im, "panic-parse", "ek", e2, "panic", pn.Value)
				continue
			}
			if im.ml {
				if err == nil || errD == nil {
					pviol(im, "unreduced-ek-accepted", "ek", e2, "coefficient_index", i, "value", v,
						"scheme_api_err", err, "direct_api_err", errD)
				} else {
					lib.Count("ek-unreduced-refused")
				}
				continue
			}
			if err != nil {
				continue // refusing is allowed for Kyber too
			}
			wantK, wantC := im.refEncaps(e2, m)
			ct, ss, err := im.sch.EncapsulateDeterministically(upk, m)
			lib.Count("kyber-r3-unreduced-pk-compared")
			if err != nil || !lib.Eq(ct, wantC) || !lib.Eq(ss, wantK) {
				pviol(im, "encaps-mismatch-unreduced-pk", "pk", e2, "m", m, "coefficient_index", i, "value", v)
			}
		}
	}
	// several coefficients at once, including all of them
	for j := 0; j < 4; j++ {
		e2 := lib.Clone(ek)
		cnt := 1 + r.Intn(8)
		if j == 3 {
			cnt = 256 * p.K
		}
		for c := 0; c < cnt; c++ {
			idx := r.Intn(256 * p.K)
			if j == 3 {
				idx = c
			}
			set12(e2, idx, ref.Q+r.Intn(4096-ref.Q))
		}
		var err error
		lib.Case([]byte(im.name), []byte("parse-unreduced"), e2)
		if pn := lib.Try("UnmarshalBinaryPublicKey:"+im.name, e2, func() { _, err = im.sch.UnmarshalBinaryPublicKey(e2) }); pn != nil {
			pviol(im, "panic-parse", "ek", e2, "panic", pn.Value)
			continue
		}
		if im.ml {
			if err == nil {
				pviol(im, "unreduced-ek-accepted", "ek", e2, "coefficients_altered", cnt)
			} else {
				lib.Count("ek-unreduced-refused")
			}
		}
	}

	// (3) decapsulation keys whose embedded hash does not match
	if im.ml {
		hoff := 768*p.K + 32
		var bits []int
		if k == 0 || lib.Thorough() {
			for b := 0; b < 256; b++ {
				bits = append(bits, 8*hoff+b)
			}
		} else {
			for b := 0; b < 24; b++ {
				bits = append(bits, 8*hoff+r.Intn(256))
			}
			bits = append(bits, 8*hoff, 8*hoff+255)
		}
		// a changed ek inside dk is a mismatch as well
		for b := 0; b < 16; b++ {
			bits = append(bits, 8*384*p.K+r.Intn(8*p.EkSize))
		}
		bits = append(bits, 8*384*p.K, 8*hoff-1)
		for _, b := range bits {
			d2 := lib.FlipBit(dk, b)
			lib.Case([]byte(im.name), []byte("parse-dk-hash"), d2)
			if p.CheckDk(d2) {
				panic("harness: reference accepts a dk with a wrong hash")
			}
			var err, errD error
			pn := lib.Try("UnmarshalBinaryPrivateKey:"+im.name, d2, func() {
				_, err = im.sch.UnmarshalBinaryPrivateKey(d2)
				_, errD = im.unpackPriv(d2)
			})
			if pn != nil {
				pviol(im, "panic-parse", "dk", d2, "panic", pn.Value)
				continue
			}
			if err == nil || errD == nil {
				where := "H(ek)"
				if b < 8*hoff {
					where = "embedded ek"
				}
				pviol(im, "dk-hash-mismatch-accepted", "dk", d2, "flipped_bit", b, "in", where, "scheme_api_err", err, "direct_api_err", errD)
			} else {
				lib.Count("dk-hash-mismatch-refused")
			}
		}
		// z and s-hat are not covered by the hash: such keys stay acceptable
		d2 := lib.FlipBit(dk, 8*(hoff+32)+r.Intn(256))
		check("z-edited", ek, d2)
	}

	// (4) keys that pass the checks of FIPS 203 section 7.3 (length, hash) but
	// hold unreduced 12-bit values: the specification's ByteDecode_12 reduces
	// them, so if such a key is accepted its function is still defined
	for j := 0; j < 3; j++ {
		d2 := lib.Clone(dk)
		if j != 1 {
			for c := 0; c < 1+r.Intn(6); c++ {
				set12(d2, r.Intn(256*p.K), ref.Q+r.Intn(4096-ref.Q)) // s-hat
			}
		}
		if j != 0 {
			eo := 384 * p.K
			for c := 0; c < 1+r.Intn(6); c++ {
				set12(d2[eo:], r.Intn(256*p.K), ref.Q+r.Intn(4096-ref.Q)) // t-hat inside dk
			}
			copy(d2[768*p.K+32:], ref.H(d2[eo:eo+p.EkSize]))
		}
		var usk kem.PrivateKey
		var err error
		if pn := lib.Try("UnmarshalBinaryPrivateKey:"+im.name, d2, func() { usk, err = im.sch.UnmarshalBinaryPrivateKey(d2) }); pn != nil {
			pviol(im, "panic-parse", "dk", d2, "panic", pn.Value)
			continue
		}
		if err != nil {
			lib.Count("dk-unreduced-refused")
			continue
		}
		_, c := im.refEncaps(ek, m)
		for _, cc := range [][]byte{c, r.Bytes(len(c))} {
			want, _, _ := im.refDecaps(d2, cc)
			got, err := im.sch.Decapsulate(usk, cc)
			lib.Case([]byte(im.name), []byte("dk-unreduced"), d2, cc)
			lib.Count("dk-unreduced-decaps-compared")
			if err != nil || !lib.Eq(got, want) {
				pviol(im, "decaps-mismatch-unreduced-dk", "dk", d2, "ct", cc, "want", want, "got", got)
			}
		}
	}
}

// ------------------------------------------------------------ K-PKE differential

func eviol(im *pkeImpl, class string, ml bool, kv ...any) {
	d := lib.D(kv...)
	d["package"] = im.name
	d["mlkem_domain_separation"] = ml
	lib.Violation("C03:"+class+":"+im.name, monPKE, d)
}

func TestVerifPKEDifferential(t *testing.T) {
	lib.Mandatory("pke-keygen-compared", "pke-encrypt-compared", "pke-decrypt-compared", "pke-unpackmlkem-refused")
	ims := pkeImpls()
	nk := lib.Scale(50, 1200)
	type cs struct {
		im *pkeImpl
		k  int
		ml bool
	}
	var cases []cs
	for k := 0; k < nk; k++ {
		for _, im := range ims {
			cases = append(cases, cs{im, k, false}, cs{im, k, true})
		}
	}
	lib.Par(len(cases), func(i int) { pkeCase(cases[i].im, cases[i].k, cases[i].ml) })
}

func pkeCase(im *pkeImpl, k int, ml bool) {
	p := im.p
	flavour := "r3"
	if ml {
		flavour = "mlkem"
	}
	r := lib.NewRng("c03/pke/"+im.name+"/"+flavour, k)
	seed := seedFor(r, k, 32)
	gin := lib.Clone(seed)
	if ml {
		gin = append(gin, byte(p.K))
	}
	wantEk, wantDk, _ := p.PKEKeyGenFromG(gin)
	var pk pkePub
	var sk pkePriv
	lib.Case([]byte(im.name), []byte(flavour), []byte("keygen"), seed)
	if pn := lib.Try("pke.NewKeyFromSeed:"+im.name, seed, func() { pk, sk = im.newKey(seed, ml) }); pn != nil {
		eviol(im, "panic", ml, "seed", seed, "panic", pn.Value)
		return
	}
	gotEk := make([]byte, p.EkSize)
	gotDk := make([]byte, p.PKESkSize)
	pk.Pack(gotEk)
	sk.Pack(gotDk)
	lib.Count("pke-keygen-compared")
	if !lib.Eq(gotEk, wantEk) || !lib.Eq(gotDk, wantDk) {
		eviol(im, "pke-keygen-mismatch", ml, "seed", seed, "want_ek", wantEk, "got_ek", gotEk, "dk_equal", lib.Eq(gotDk, wantDk))
		return
	}
	// keys parsed from bytes; the second pair holds unreduced 12-bit values,
	// which both specifications read modulo q
	ek2 := lib.Clone(wantEk)
	dk2 := lib.Clone(wantDk)
	for c := 0; c < 1+r.Intn(5); c++ {
		set12(ek2, r.Intn(256*p.K), ref.Q+r.Intn(4096-ref.Q))
		set12(dk2, r.Intn(256*p.K), ref.Q+r.Intn(4096-ref.Q))
	}
	upk, usk := im.newPub(), im.newPriv()
	upk.Unpack(wantEk)
	usk.Unpack(wantDk)
	npk, nsk := im.newPub(), im.newPriv()
	if pn := lib.Try("pke.Unpack:"+im.name, append(lib.Clone(ek2), dk2...), func() {
		npk.Unpack(ek2)
		nsk.Unpack(dk2)
	}); pn != nil {
		eviol(im, "panic", ml, "ek", ek2, "dk", dk2, "panic", pn.Value)
		return
	}
	{
		b := make([]byte, p.EkSize)
		upk.Pack(b)
		b2 := make([]byte, p.PKESkSize)
		usk.Pack(b2)
		if !lib.Eq(b, wantEk) || !lib.Eq(b2, wantDk) {
			eviol(im, "pke-reencode-differs", ml, "seed", seed)
		}
		mpk := im.newPub()
		if err := mpk.UnpackMLKEM(wantEk); err != nil {
			eviol(im, "pke-unpackmlkem-refuses-wellformed", ml, "ek", wantEk, "err", err)
		}
		if err := mpk.UnpackMLKEM(ek2); err == nil {
			eviol(im, "pke-unpackmlkem-accepts-unreduced", ml, "ek", ek2)
		} else {
			lib.Count("pke-unpackmlkem-refused")
		}
	}

	for e := 0; e < 3; e++ {
		pt := seedFor(r, (k+2*e)%6, 32)
		if e == 2 {
			pt = r.Bytes(32)
		}
		coins := seedFor(r, (k+e)%9+2*e, 32)
		type keyset struct {
			name   string
			pk     pkePub
			sk     pkePriv
			ek, dk []byte
		}
		sets := []keyset{{"generated", pk, sk, wantEk, wantDk}, {"unpacked", upk, usk, wantEk, wantDk}, {"unpacked-unreduced", npk, nsk, ek2, dk2}}
		for si, ks := range sets {
			if e > 0 && si != e {
				continue
			}
			want := p.PKEEncrypt(ks.ek, pt, coins)
			ct := make([]byte, p.CtSize)
			lib.Case([]byte(im.name), []byte(flavour), []byte("encrypt"), ks.ek, pt, coins)
			if pn := lib.Try("pke.EncryptTo:"+im.name, append(lib.Clone(pt), coins...), func() { ks.pk.EncryptTo(ct, pt, coins) }); pn != nil {
				eviol(im, "panic", ml, "seed", seed, "panic", pn.Value)
				continue
			}
			lib.Count("pke-encrypt-compared")
			if !lib.Eq(ct, want) {
				eviol(im, "pke-encrypt-mismatch", ml, "keys", ks.name, "ek", ks.ek, "pt", pt, "coins", coins, "want", want, "got", ct)
				continue
			}
			cts := []alt{{"honest", want}}
			cts = append(cts, alterations(p, r, want, e == 0 && si == 0)...)
			for _, a := range cts {
				wantPt, w := p.PKEDecryptW(ks.dk, a.ct)
				wBoundary(&w)
				got := make([]byte, 32)
				lib.Case([]byte(im.name), []byte(flavour), []byte("decrypt"), ks.dk, a.ct)
				if pn := lib.Try("pke.DecryptTo:"+im.name, a.ct, func() { ks.sk.DecryptTo(got, a.ct) }); pn != nil {
					eviol(im, "panic", ml, "ct", a.ct, "panic", pn.Value)
					continue
				}
				lib.Count("pke-decrypt-compared")
				if !lib.Eq(got, wantPt) {
					eviol(im, "pke-decrypt-mismatch", ml, "keys", ks.name, "dk", ks.dk, "ct", a.ct, "class", a.class, "want", wantPt, "got", got)
				}
				if a.class == "honest" && si < 2 && !lib.Eq(got, pt) {
					// correctness of the scheme itself; failure probability < 2^-139
					eviol(im, "pke-decrypt-of-honest-ct-differs", ml, "seed", seed, "pt", pt, "coins", coins, "got", got)
				}
			}
		}
	}
}
