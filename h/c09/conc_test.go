//go:build verif

package c09

import (
	"sync"
	"sync/atomic"
	"testing"

	GG "github.com/cloudflare/circl/ecc/bls12381"
	"github.com/cloudflare/circl/ecc/goldilocks"
	"github.com/cloudflare/circl/group"
	"github.com/cloudflare/circl/internal/zzverif/lib"
)

// TestVerifConcurrentDecoders: "yields a value that re-serialises to exactly
// the bytes that were parsed" for every call, also for the calls that overlap
// in time: 8 goroutines decode DIFFERENT valid encodings (BLS12-381 G1 and G2,
// compressed and uncompressed; Goldilocks points; P-256 and ristretto255
// group elements) in tight loops; every decode must succeed and re-serialise
// to its own input.
func TestVerifConcurrentDecoders(t *testing.T) {
	const mon = "TestVerifConcurrentDecoders"
	const G = 8
	lib.Mandatory("concurrent-decoders:decodes")
	type dec struct {
		name string
		encs [][]byte
		f    func(in []byte) ([]byte, error) // decode and re-serialise in the same format
	}
	r := lib.NewRng("c09/concurrent-decoders", 0)
	var g1c, g1u, g2c, g2u, gold, p256, r255 [][]byte
	for i := 0; i < 4*G; i++ {
		var k GG.Scalar
		k.SetUint64(uint64(1000 + i*7919))
		var a GG.G1
		a.ScalarMult(&k, GG.G1Generator())
		g1c = append(g1c, a.BytesCompressed())
		g1u = append(g1u, a.Bytes())
		var b GG.G2
		b.ScalarMult(&k, GG.G2Generator())
		g2c = append(g2c, b.BytesCompressed())
		g2u = append(g2u, b.Bytes())
		var gs goldilocks.Scalar
		gs[0], gs[1] = byte(i+1), byte(r.Intn(256))
		gb, _ := goldilocks.Curve{}.ScalarBaseMult(&gs).MarshalBinary()
		gold = append(gold, gb)
		e1, _ := group.P256.NewElement().MulGen(group.P256.NewScalar().SetUint64(uint64(i + 2))).MarshalBinaryCompress()
		p256 = append(p256, e1)
		e2, _ := group.Ristretto255.NewElement().MulGen(group.Ristretto255.NewScalar().SetUint64(uint64(i + 2))).MarshalBinary()
		r255 = append(r255, e2)
	}
	decs := []dec{
		{"G1.SetBytes(compressed)", g1c, func(in []byte) ([]byte, error) {
			var p GG.G1
			if err := p.SetBytes(in); err != nil {
				return nil, err
			}
			return p.BytesCompressed(), nil
		}},
		{"G1.SetBytes(uncompressed)", g1u, func(in []byte) ([]byte, error) {
			var p GG.G1
			if err := p.SetBytes(in); err != nil {
				return nil, err
			}
			return p.Bytes(), nil
		}},
		{"G2.SetBytes(compressed)", g2c, func(in []byte) ([]byte, error) {
			var p GG.G2
			if err := p.SetBytes(in); err != nil {
				return nil, err
			}
			return p.BytesCompressed(), nil
		}},
		{"G2.SetBytes(uncompressed)", g2u, func(in []byte) ([]byte, error) {
			var p GG.G2
			if err := p.SetBytes(in); err != nil {
				return nil, err
			}
			return p.Bytes(), nil
		}},
		{"goldilocks.FromBytes", gold, func(in []byte) ([]byte, error) {
			p, err := goldilocks.FromBytes(in)
			if err != nil {
				return nil, err
			}
			return p.MarshalBinary()
		}},
		{"group.P256.Element.UnmarshalBinary", p256, func(in []byte) ([]byte, error) {
			e := group.P256.NewElement()
			if err := e.UnmarshalBinary(in); err != nil {
				return nil, err
			}
			return e.MarshalBinaryCompress()
		}},
		{"group.Ristretto255.Element.UnmarshalBinary", r255, func(in []byte) ([]byte, error) {
			e := group.Ristretto255.NewElement()
			if err := e.UnmarshalBinary(in); err != nil {
				return nil, err
			}
			return e.MarshalBinary()
		}},
	}
	rounds := lib.Scale(300, 3000)
	for _, d := range decs {
		d := d
		var wg sync.WaitGroup
		var reported int32
		start := make(chan struct{})
		for g := 0; g < G; g++ {
			wg.Add(1)
			go func(g int) {
				defer wg.Done()
				<-start
				for i := 0; i < rounds; i++ {
					in := d.encs[(g*4+i%4)%len(d.encs)]
					var out []byte
					var err error
					pn := lib.Try("concurrent-decoders:"+d.name, in, func() { out, err = d.f(lib.Clone(in)) })
					lib.Count("concurrent-decoders:decodes")
					if (pn != nil || err != nil || !lib.Eq(out, in)) && atomic.AddInt32(&reported, 1) == 1 {
						viol("decode-depends-on-concurrent-decodes", d.name, "", mon, "encoding", in, "err", err, "reserialised", out, "goroutines", G)
					}
				}
			}(g)
		}
		close(start)
		wg.Wait()
		lib.CaseS("concurrent-decoders", d.name)
	}
}
