//go:build verif

package c14

import (
	"math/big"
	"testing"
	"unsafe"

	"github.com/cloudflare/circl/internal/zzverif/lib"
	"github.com/cloudflare/circl/math/fp25519"
	"github.com/cloudflare/circl/math/fp448"
)

// fpAPI hides the two element types behind pointers so that one set of
// operations serves fp25519 and fp448.  Every operand lives in a guarded
// buffer (flush against a PROT_NONE page) so an over-read or over-write of a
// back-end faults, is recovered by lib.Try and shows up as a "panic" line in
// that configuration's transcript only.
type fpAPI struct {
	name     string
	size     int
	c        []uint64 // reduction constants for edge limbs
	specials [][]byte
	pairs    [][]byte // boundary values whose whole cross product is run (see pairKinds)
	zeros    [][]byte // every encoding of 0 that fits
	add, sub, mul  func(z, x, y unsafe.Pointer)
	sqr, neg, inv  func(z, x unsafe.Pointer)
	invsqrt        func(z, x, y unsafe.Pointer) bool
	modp           func(z unsafe.Pointer)
	addsub         func(x, y unsafe.Pointer)
	cmov, cswap    func(x, y unsafe.Pointer, n uint)
	iszero         func(x unsafe.Pointer) bool
	isone          func(x unsafe.Pointer) bool
	tobytes        func(b []byte, x unsafe.Pointer) error
	setone         func(x unsafe.Pointer)
}

func e25(p unsafe.Pointer) *fp25519.Elt { return (*fp25519.Elt)(p) }
func e448(p unsafe.Pointer) *fp448.Elt  { return (*fp448.Elt)(p) }

func leBytes(v *big.Int, n int) []byte {
	b := make([]byte, n)
	be := v.Bytes()
	for i := 0; i < len(be) && i < n; i++ {
		b[i] = be[len(be)-1-i]
	}
	return b
}

// fieldSpecials lists the values around every reduction boundary that fit
// into n bytes.
func fieldZeros(p *big.Int, n int) [][]byte {
	lim := new(big.Int).Lsh(big.NewInt(1), uint(8*n))
	var out [][]byte
	for v := big.NewInt(0); v.Cmp(lim) < 0; v = new(big.Int).Add(v, p) {
		out = append(out, leBytes(v, n))
	}
	return out
}

func fieldSpecials(p *big.Int, n int, extra ...*big.Int) [][]byte {
	lim := new(big.Int).Lsh(big.NewInt(1), uint(8*n))
	var out [][]byte
	add := func(v *big.Int) {
		for d := int64(-2); d <= 2; d++ {
			w := new(big.Int).Add(v, big.NewInt(d))
			if w.Sign() >= 0 && w.Cmp(lim) < 0 {
				out = append(out, leBytes(w, n))
			}
		}
	}
	add(big.NewInt(0))
	add(p)
	add(new(big.Int).Lsh(p, 1))
	add(new(big.Int).Rsh(p, 1))
	add(lim)
	add(new(big.Int).Rsh(lim, 1))
	for _, e := range extra {
		add(e)
	}
	return out
}

var fp25519API, fp448API *fpAPI

func init() {
	p25 := new(big.Int).Sub(new(big.Int).Lsh(big.NewInt(1), 255), big.NewInt(19))
	fp25519API = &fpAPI{
		name: "fp25519", size: fp25519.Size, c: []uint64{19, 38}, zeros: fieldZeros(p25, 32),
		specials: fieldSpecials(p25, 32, new(big.Int).Lsh(big.NewInt(1), 128), new(big.Int).Lsh(big.NewInt(1), 192),
			new(big.Int).Sub(new(big.Int).Lsh(big.NewInt(1), 256), big.NewInt(38))),
		add:     func(z, x, y unsafe.Pointer) { fp25519.Add(e25(z), e25(x), e25(y)) },
		sub:     func(z, x, y unsafe.Pointer) { fp25519.Sub(e25(z), e25(x), e25(y)) },
		mul:     func(z, x, y unsafe.Pointer) { fp25519.Mul(e25(z), e25(x), e25(y)) },
		sqr:     func(z, x unsafe.Pointer) { fp25519.Sqr(e25(z), e25(x)) },
		neg:     func(z, x unsafe.Pointer) { fp25519.Neg(e25(z), e25(x)) },
		inv:     func(z, x unsafe.Pointer) { fp25519.Inv(e25(z), e25(x)) },
		invsqrt: func(z, x, y unsafe.Pointer) bool { return fp25519.InvSqrt(e25(z), e25(x), e25(y)) },
		modp:    func(z unsafe.Pointer) { fp25519.Modp(e25(z)) },
		addsub:  func(x, y unsafe.Pointer) { fp25519.AddSub(e25(x), e25(y)) },
		cmov:    func(x, y unsafe.Pointer, n uint) { fp25519.Cmov(e25(x), e25(y), n) },
		cswap:   func(x, y unsafe.Pointer, n uint) { fp25519.Cswap(e25(x), e25(y), n) },
		iszero:  func(x unsafe.Pointer) bool { return fp25519.IsZero(e25(x)) },
		tobytes: func(b []byte, x unsafe.Pointer) error { return fp25519.ToBytes(b, e25(x)) },
		setone:  func(x unsafe.Pointer) { fp25519.SetOne(e25(x)) },
	}
	p448 := new(big.Int).Lsh(big.NewInt(1), 448)
	p448.Sub(p448, new(big.Int).Lsh(big.NewInt(1), 224))
	p448.Sub(p448, big.NewInt(1))
	fp448API = &fpAPI{
		name: "fp448", size: fp448.Size, c: []uint64{1, 2, 1 << 32}, zeros: fieldZeros(p448, 56),
		specials: fieldSpecials(p448, 56, new(big.Int).Lsh(big.NewInt(1), 224), new(big.Int).Lsh(big.NewInt(1), 225),
			new(big.Int).Lsh(big.NewInt(1), 256), new(big.Int).Lsh(big.NewInt(1), 447)),
		add:     func(z, x, y unsafe.Pointer) { fp448.Add(e448(z), e448(x), e448(y)) },
		sub:     func(z, x, y unsafe.Pointer) { fp448.Sub(e448(z), e448(x), e448(y)) },
		mul:     func(z, x, y unsafe.Pointer) { fp448.Mul(e448(z), e448(x), e448(y)) },
		sqr:     func(z, x unsafe.Pointer) { fp448.Sqr(e448(z), e448(x)) },
		neg:     func(z, x unsafe.Pointer) { fp448.Neg(e448(z), e448(x)) },
		inv:     func(z, x unsafe.Pointer) { fp448.Inv(e448(z), e448(x)) },
		invsqrt: func(z, x, y unsafe.Pointer) bool { return fp448.InvSqrt(e448(z), e448(x), e448(y)) },
		modp:    func(z unsafe.Pointer) { fp448.Modp(e448(z)) },
		addsub:  func(x, y unsafe.Pointer) { fp448.AddSub(e448(x), e448(y)) },
		cmov:    func(x, y unsafe.Pointer, n uint) { fp448.Cmov(e448(x), e448(y), n) },
		cswap:   func(x, y unsafe.Pointer, n uint) { fp448.Cswap(e448(x), e448(y), n) },
		iszero:  func(x unsafe.Pointer) bool { return fp448.IsZero(e448(x)) },
		isone:   func(x unsafe.Pointer) bool { return fp448.IsOne(e448(x)) },
		tobytes: func(b []byte, x unsafe.Pointer) error { return fp448.ToBytes(b, e448(x)) },
		setone:  func(x unsafe.Pointer) { fp448.SetOne(e448(x)) },
	}
}

// pairValues is the operand list of the boundary-pair kinds: the boundary
// values of `specials` plus the neighbourhoods of c, 2^(8n)-c for every
// reduction constant c (a borrow or carry that is folded with c can borrow or
// carry a second time only when one operand is within c of 0 and the other
// within c of 2^(8n); random and single-boundary draws meet that pair about
// once in 2000 operations).
func (a *fpAPI) pairValues() [][]byte {
	if a.pairs != nil {
		return a.pairs
	}
	lim := new(big.Int).Lsh(big.NewInt(1), uint(8*a.size))
	seen := map[string]bool{}
	var out [][]byte
	put := func(b []byte) {
		if !seen[string(b)] {
			seen[string(b)] = true
			out = append(out, b)
		}
	}
	for _, b := range a.specials {
		put(b)
	}
	for _, c := range a.c {
		for d := int64(-1); d <= 1; d++ {
			lo := new(big.Int).Add(new(big.Int).SetUint64(c), big.NewInt(d))
			hi := new(big.Int).Sub(lim, lo)
			if lo.Sign() >= 0 {
				put(leBytes(lo, a.size))
			}
			if hi.Sign() >= 0 && hi.Cmp(lim) < 0 {
				put(leBytes(hi, a.size))
			}
		}
	}
	a.pairs = out
	return out
}

// operand draws one field operand: a boundary value, limb-edge bytes or
// random bytes (all 2^(8*size) byte strings are legal operands).
func (a *fpAPI) operand(r *lib.Rng) []byte {
	switch r.Intn(8) {
	case 0, 1:
		lib.Count("c14/Field/" + a.name + ":operand-boundary")
		return lib.Clone(a.specials[r.Intn(len(a.specials))])
	case 2:
		return r.Bytes(a.size)
	case 3, 4:
		return repLimbBytes(r, a.size, a.c[r.Intn(len(a.c))], 0xff)
	default:
		return r.EdgeBytes(a.size, a.c[r.Intn(len(a.c))])
	}
}

// triple is three guarded elements; which end of the mapping they touch
// alternates with k.
type triple struct{ g [3]*lib.Guarded }

func (a *fpAPI) alloc(k int) *triple {
	t := &triple{}
	for i := range t.g {
		t.g[i] = lib.NewGuarded(a.size, (k+i)&1 == 0)
	}
	return t
}
func (t *triple) free() {
	for _, g := range t.g {
		g.Free()
	}
}
func (t *triple) p(i int) unsafe.Pointer { return t.g[i].Ptr() }
func (t *triple) b(i int) []byte         { return t.g[i].Buf }

// canon appends the canonical encoding of element i (ToBytes works in place
// on the element, which is fine: it is the last use).
func (a *fpAPI) canon(o *rec, name string, t *triple, i int) {
	out := make([]byte, a.size)
	err := a.tobytes(out, t.p(i))
	o.OutErr(name+".err", err)
	o.Out(name, out)
}

func (a *fpAPI) kinds(q, th int) []kind {
	n := a.name
	// share of the budget per op
	w := func(num int) (int, int) { return q * num / 100, th * num / 100 }
	mk := func(name string, share int, f func(r *lib.Rng, k int, o *rec)) kind {
		qq, tt := w(share)
		if qq < 4 {
			qq = 4
		}
		return kind{n + "." + name, qq, tt, f}
	}
	bin := func(op func(z, x, y unsafe.Pointer)) func(r *lib.Rng, k int, o *rec) {
		return func(r *lib.Rng, k int, o *rec) {
			t := a.alloc(k)
			defer t.free()
			x, y := a.operand(r), a.operand(r)
			mode := r.Intn(5)
			o.In("x", x)
			o.In("y", y)
			o.In("alias", []byte{byte(mode)})
			copy(t.b(0), x)
			copy(t.b(1), y)
			switch mode {
			case 0, 4: // all distinct
				op(t.p(2), t.p(0), t.p(1))
				o.Out("x-after", t.b(0))
				o.Out("y-after", t.b(1))
				a.canon(o, "z", t, 2)
			case 1: // z == x
				op(t.p(0), t.p(0), t.p(1))
				o.Out("y-after", t.b(1))
				a.canon(o, "z", t, 0)
			case 2: // z == y
				op(t.p(1), t.p(0), t.p(1))
				o.Out("x-after", t.b(0))
				a.canon(o, "z", t, 1)
			case 3: // z == x == y
				op(t.p(0), t.p(0), t.p(0))
				a.canon(o, "z", t, 0)
			}
		}
	}
	un := func(op func(z, x unsafe.Pointer)) func(r *lib.Rng, k int, o *rec) {
		return func(r *lib.Rng, k int, o *rec) {
			t := a.alloc(k)
			defer t.free()
			x := a.operand(r)
			alias := r.Bool()
			o.In("x", x)
			o.In("alias", []byte{b2b(alias)})
			copy(t.b(0), x)
			if alias {
				op(t.p(0), t.p(0))
				a.canon(o, "z", t, 0)
			} else {
				op(t.p(2), t.p(0))
				o.Out("x-after", t.b(0))
				a.canon(o, "z", t, 2)
			}
		}
	}
	pv := a.pairValues()
	// pair runs op over the whole cross product pv x pv (k enumerates it; the
	// same count in both tiers), alternating distinct and z == x operands.
	pair := func(name string, run func(t *triple, o *rec, alt bool)) kind {
		return kind{n + "." + name, len(pv) * len(pv), len(pv) * len(pv), func(r *lib.Rng, k int, o *rec) {
			t := a.alloc(k)
			defer t.free()
			x, y := pv[k%len(pv)], pv[k/len(pv)%len(pv)]
			o.In("x", x)
			o.In("y", y)
			copy(t.b(0), x)
			copy(t.b(1), y)
			lib.Count("c14/Field/" + n + ":boundary-pair")
			run(t, o, (k/len(pv)+k)&1 == 1)
		}}
	}
	pairBin := func(op func(z, x, y unsafe.Pointer)) func(t *triple, o *rec, alt bool) {
		return func(t *triple, o *rec, alt bool) {
			if !alt {
				op(t.p(2), t.p(0), t.p(1))
				o.Out("x-after", t.b(0))
				o.Out("y-after", t.b(1))
				a.canon(o, "z", t, 2)
			} else {
				op(t.p(0), t.p(0), t.p(1))
				o.Out("y-after", t.b(1))
				a.canon(o, "z", t, 0)
			}
		}
	}
	ks := []kind{
		pair("AddPairs", pairBin(a.add)),
		pair("SubPairs", pairBin(a.sub)),
		pair("MulPairs", pairBin(a.mul)),
		pair("AddSubPairs", func(t *triple, o *rec, alt bool) {
			a.addsub(t.p(0), t.p(1))
			a.canon(o, "sum", t, 0)
			a.canon(o, "dif", t, 1)
		}),
		mk("Add", 9, bin(a.add)),
		mk("Sub", 9, bin(a.sub)),
		mk("Mul", 16, bin(a.mul)),
		mk("Sqr", 10, un(a.sqr)),
		mk("Neg", 4, un(a.neg)),
		mk("Inv", 5, un(a.inv)),
		mk("InvSqrt", 5, func(r *lib.Rng, k int, o *rec) {
			t := a.alloc(k)
			defer t.free()
			x, y := a.operand(r), a.operand(r)
			if r.Intn(3) == 0 { // force a square ratio: x = y*s^2
				s := lib.NewGuarded(a.size, true)
				copy(s.Buf, a.operand(r))
				copy(t.b(1), y)
				a.sqr(s.Ptr(), s.Ptr())
				a.mul(t.p(0), s.Ptr(), t.p(1))
				a.modp(t.p(0))
				x = lib.Clone(t.b(0))
				s.Free()
			}
			o.In("x", x)
			o.In("y", y)
			copy(t.b(0), x)
			copy(t.b(1), y)
			qr := a.invsqrt(t.p(2), t.p(0), t.p(1))
			o.OutBool("isQR", qr)
			if qr { // z is specified only when x/y is a square
				lib.Count("c14/Field/" + n + ":invsqrt-qr")
				a.canon(o, "z", t, 2)
			} else {
				lib.Count("c14/Field/" + n + ":invsqrt-nonqr")
			}
		}),
		mk("Modp", 6, func(r *lib.Rng, k int, o *rec) {
			t := a.alloc(k)
			defer t.free()
			x := a.operand(r)
			o.In("x", x)
			copy(t.b(0), x)
			a.modp(t.p(0))
			o.Out("z", t.b(0))
		}),
		mk("AddSub", 6, func(r *lib.Rng, k int, o *rec) {
			t := a.alloc(k)
			defer t.free()
			x, y := a.operand(r), a.operand(r)
			o.In("x", x)
			o.In("y", y)
			copy(t.b(0), x)
			copy(t.b(1), y)
			a.addsub(t.p(0), t.p(1))
			a.canon(o, "sum", t, 0)
			a.canon(o, "dif", t, 1)
		}),
		mk("Cmov", 3, func(r *lib.Rng, k int, o *rec) {
			t := a.alloc(k)
			defer t.free()
			x, y := a.operand(r), a.operand(r)
			b := uint(r.Intn(2))
			o.In("x", x)
			o.In("y", y)
			o.In("b", []byte{byte(b)})
			copy(t.b(0), x)
			copy(t.b(1), y)
			a.cmov(t.p(0), t.p(1), b)
			o.Out("x", t.b(0))
			o.Out("y", t.b(1))
		}),
		mk("Cswap", 3, func(r *lib.Rng, k int, o *rec) {
			t := a.alloc(k)
			defer t.free()
			x, y := a.operand(r), a.operand(r)
			b := uint(r.Intn(2))
			o.In("x", x)
			o.In("y", y)
			o.In("b", []byte{byte(b)})
			copy(t.b(0), x)
			copy(t.b(1), y)
			a.cswap(t.p(0), t.p(1), b)
			o.Out("x", t.b(0))
			o.Out("y", t.b(1))
		}),
		mk("IsZero", 4, func(r *lib.Rng, k int, o *rec) {
			t := a.alloc(k)
			defer t.free()
			x := a.operand(r)
			if r.Bool() {
				x = lib.Clone(a.specials[r.Intn(len(a.specials))])
			}
			if k%4 == 0 {
				x = lib.Clone(a.zeros[(k/4)%len(a.zeros)])
			}
			o.In("x", x)
			copy(t.b(0), x)
			z := a.iszero(t.p(0))
			if z {
				lib.Count("c14/Field/" + n + ":iszero-true")
			}
			o.OutBool("zero", z)
			o.Out("x-after", t.b(0))
			if a.isone != nil {
				copy(t.b(1), x)
				o.OutBool("one", a.isone(t.p(1)))
			}
		}),
		mk("ToBytes", 5, func(r *lib.Rng, k int, o *rec) {
			t := a.alloc(k)
			defer t.free()
			x := a.operand(r)
			o.In("x", x)
			copy(t.b(0), x)
			a.canon(o, "b", t, 0)
			o.Out("x-after", t.b(0))
			// wrong destination sizes must be refused identically
			o.OutErr("short", a.tobytes(make([]byte, a.size-1), t.p(0)))
		}),
		// a chain keeps the weakly reduced intermediate results of one
		// back-end as the operands of the next operation
		mk("chain", 15, func(r *lib.Rng, k int, o *rec) {
			t := a.alloc(k)
			defer t.free()
			for i := 0; i < 3; i++ {
				v := a.operand(r)
				o.In("v", v)
				copy(t.b(i), v)
			}
			steps := 8 + r.Intn(40)
			prog := make([]byte, 0, 3*steps)
			for s := 0; s < steps; s++ {
				op, d, x, y := r.Intn(7), r.Intn(3), r.Intn(3), r.Intn(3)
				prog = append(prog, byte(op), byte(d<<4|x<<2|y))
				switch op {
				case 0:
					a.add(t.p(d), t.p(x), t.p(y))
				case 1:
					a.sub(t.p(d), t.p(x), t.p(y))
				case 2, 3:
					a.mul(t.p(d), t.p(x), t.p(y))
				case 4:
					a.sqr(t.p(d), t.p(x))
				case 5:
					a.neg(t.p(d), t.p(x))
				case 6:
					if x != y {
						a.addsub(t.p(x), t.p(y))
					}
				}
			}
			o.In("prog", prog)
			for i := 0; i < 3; i++ {
				a.canon(o, "r", t, i)
			}
		}),
	}
	return ks
}

func b2b(b bool) byte {
	if b {
		return 1
	}
	return 0
}

func TestVerifTranscriptField(t *testing.T) {
	lib.Mandatory("c14/Field/fp25519:operand-boundary", "c14/Field/fp448:operand-boundary",
		"c14/Field/fp25519:boundary-pair", "c14/Field/fp448:boundary-pair",
		"c14/Field/fp25519:invsqrt-qr", "c14/Field/fp25519:invsqrt-nonqr",
		"c14/Field/fp448:invsqrt-qr", "c14/Field/fp448:invsqrt-nonqr",
		"c14/Field/fp25519:iszero-true", "c14/Field/fp448:iszero-true")
	ks := fp25519API.kinds(1500, 75000)
	ks = append(ks, fp448API.kinds(1500, 75000)...)
	runArea(t, "Field", ks)
}
