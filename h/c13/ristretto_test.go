//go:build verif

package c13

import (
	"math/big"
	"testing"

	"github.com/cloudflare/circl/group"
	"github.com/cloudflare/circl/internal/zzverif/lib"
	"github.com/cloudflare/circl/internal/zzverif/ref/c13ref"
)

const monRis = "TestVerifRistretto255"

// TestVerifRistretto255: elements with a known discrete logarithm are judged
// against the reference (k*B on Ed25519, encoded with RFC 9496 4.3.2); hashed
// elements (unknown logarithm) by the group axioms.
func TestVerifRistretto255(t *testing.T) {
	lib.Mandatory("ristretto.MulGen", "ristretto.Mul", "ristretto.Add", "ristretto.Add:Q=P", "ristretto.Add:Q=-P", "ristretto.Add:Q=O", "ristretto.Neg", "ristretto.Dbl",
		"ristretto.axioms", "ristretto.hash-roundtrip", "ristretto.l*P=O", "ristretto.scalar>=l")
	G := group.Ristretto255
	ri := c13ref.NewRistretto()
	ed := ri.E
	L := ed.N
	pool := buildEPool(ed, "c13/ristretto/pool", lib.Scale(24, 300), 0)

	elt := func(p c13ref.EPoint) (group.Element, []byte) {
		enc := ri.Encode(p)
		e := G.NewElement()
		if err := e.UnmarshalBinary(enc); err != nil {
			lib.Violation("C13:decode-refused:ristretto255", monRis, lib.D("enc", enc, "err", err))
			return nil, enc
		}
		return e, enc
	}
	scl := func(k *big.Int, r *lib.Rng) group.Scalar {
		s := G.NewScalar()
		if k.Cmp(L) < 0 && r.Bool() {
			if err := s.UnmarshalBinary(c13ref.LE(k, 32)); err == nil {
				return s
			}
		}
		return s.SetBigInt(k)
	}
	check := func(op, class string, want c13ref.EPoint, got group.Element, detail map[string]any) bool {
		detail["case-class"], class = class, c13ref.Coarse(class)
		var b []byte
		var err error
		w := ri.Encode(want)
		if pn := lib.Try("ristretto255.MarshalBinary", nil, func() { b, err = got.MarshalBinary() }); pn != nil {
			detail["panic"] = pn.Value
			lib.Violation("C13:panic:ristretto255."+op, monRis, detail)
			return false
		}
		if err != nil || !lib.Eq(b, w) {
			detail["want"], detail["got"] = w, b
			lib.Violation("C13:wrong-result:ristretto255."+op+":"+class, monRis, detail)
			return false
		}
		if got.IsIdentity() != ed.IsO(want) {
			lib.Violation("C13:wrong-result:ristretto255.IsIdentity", monRis, detail)
			return false
		}
		return true
	}
	{
		lib.CaseS("ristretto", "constants")
		check("Generator", "G", ed.G, G.Generator(), lib.D())
		check("Identity", "O", ed.O(), G.Identity(), lib.D())
		check("NewElement", "O", ed.O(), G.NewElement(), lib.D())
	}

	n := lib.Scale(400, 16000)
	lib.Par(n, func(i int) {
		r := lib.NewRng("c13/ristretto/diff", i)
		p, q, rel := relatedE(ed, pool, r)
		P, pe := elt(p.P)
		Q, qe := elt(q.P)
		if P == nil || Q == nil {
			return
		}
		det := func(kv ...any) map[string]any {
			d := lib.D(kv...)
			d["P"], d["Q"], d["rel"], d["dlogP"], d["dlogQ"] = pe, qe, rel, hexInt(p.K), hexInt(q.K)
			return d
		}
		lib.Case([]byte("ristretto.Add"), pe, qe)
		lib.Count("ristretto.Add")
		lib.Count("ristretto.Add:" + rel)
		var out group.Element
		if pn := lib.Try("ristretto.Add", append(append([]byte{}, pe...), qe...), func() { out = G.NewElement().Add(P, Q) }); pn != nil {
			lib.Violation("C13:panic:ristretto255.Add", monRis, det("panic", pn.Value))
			return
		}
		want := ed.MustAdd(p.P, q.P)
		if !check("Add", rel, want, out, det()) {
			return
		}
		if P.IsEqual(Q) != ed.Eq(p.P, q.P) {
			lib.Violation("C13:wrong-result:ristretto255.IsEqual", monRis, det())
		}
		lib.Case([]byte("ristretto.Dbl"), pe)
		lib.Count("ristretto.Dbl")
		if !check("Dbl", p.Class, ed.Double(p.P), G.NewElement().Dbl(P), det()) {
			return
		}
		lib.Case([]byte("ristretto.Neg"), pe)
		lib.Count("ristretto.Neg")
		neg := G.NewElement().Neg(P)
		if !check("Neg", p.Class, ed.Neg(p.P), neg, det()) {
			return
		}
		if !G.NewElement().Add(P, neg).IsIdentity() {
			lib.Violation("C13:wrong-result:ristretto255.Add:Q=-P", monRis, det())
		}
		// CMov / CSelect
		if !check("CMov", "0", p.P, P.Copy().CMov(0, Q), det()) || !check("CMov", "1", q.P, P.Copy().CMov(1, Q), det()) ||
			!check("CSelect", "1", p.P, G.NewElement().CSelect(1, P, Q), det()) || !check("CSelect", "0", q.P, G.NewElement().CSelect(0, P, Q), det()) {
			return
		}
		// Mul / MulGen
		k, kclass := c13ref.GenScalar(r, L, 32)
		if r.Intn(8) == 0 {
			k, _ = c13ref.GenScalar(r, L, 33+r.Intn(32))
			kclass = "wide"
		}
		if k.Cmp(L) >= 0 {
			lib.Count("ristretto.scalar>=l")
		}
		s := scl(k, r)
		lib.Case([]byte("ristretto.Mul"), pe, k.Bytes())
		lib.Count("ristretto.Mul")
		lib.Count("ristretto.scalar:" + kclass)
		if pn := lib.Try("ristretto.Mul", k.Bytes(), func() { out = G.NewElement().Mul(P, s) }); pn != nil {
			lib.Violation("C13:panic:ristretto255.Mul", monRis, det("k", k.Text(16), "panic", pn.Value))
		} else {
			check("Mul", kclass, ed.Mul(new(big.Int).Mod(k, L), p.P), out, det("k", k.Text(16)))
		}
		lib.Case([]byte("ristretto.MulGen"), k.Bytes())
		lib.Count("ristretto.MulGen")
		if pn := lib.Try("ristretto.MulGen", k.Bytes(), func() { out = G.NewElement().MulGen(s) }); pn != nil {
			lib.Violation("C13:panic:ristretto255.MulGen", monRis, lib.D("k", k.Text(16), "panic", pn.Value))
		} else {
			check("MulGen", kclass, ed.MulG(new(big.Int).Mod(k, L)), out, lib.D("k", k.Text(16)))
		}
		if i == 0 {
			lib.Sample(monRis, det("op", "Add", "result", ri.Encode(want)))
		}
	})

	// hashed elements: group axioms
	na := lib.Scale(200, 10000)
	lm1 := new(big.Int).Sub(L, big.NewInt(1))
	lib.Par(na, func(i int) {
		r := lib.NewRng("c13/ristretto/axioms", i)
		msg := r.Bytes(r.Intn(64))
		dst := r.Bytes(r.Intn(40))
		var H group.Element
		lib.Case([]byte("ristretto.Hash"), msg, dst)
		if pn := lib.Try("ristretto.HashToElement", msg, func() { H = G.HashToElement(msg, dst) }); pn != nil {
			lib.Violation("C13:panic:ristretto255.HashToElement", monRis, lib.D("msg", msg, "dst", dst, "panic", pn.Value))
			return
		}
		hb, _ := H.MarshalBinary()
		det := func(kv ...any) map[string]any {
			d := lib.D(kv...)
			d["msg"], d["dst"], d["H"] = lib.Hex(msg), lib.Hex(dst), lib.Hex(hb)
			return d
		}
		// lands in the group: canonical encoding that decodes to an equal element
		E := G.NewElement()
		if err := E.UnmarshalBinary(hb); err != nil || len(hb) != 32 {
			lib.Violation("C13:hash-outside-group:ristretto255.HashToElement", monRis, det("err", err))
			return
		}
		eb, _ := E.MarshalBinary()
		if !lib.Eq(eb, hb) || !E.IsEqual(H) {
			lib.Violation("C13:hash-outside-group:ristretto255.HashToElement", monRis, det("reencoded", eb))
			return
		}
		lib.Count("ristretto.hash-roundtrip")
		if !H.IsIdentity() {
			lib.Count("ristretto.hash:non-identity")
		}
		a, _ := c13ref.GenScalar(r, L, 32)
		b, _ := c13ref.GenScalar(r, L, 32)
		sa, sb := G.NewScalar().SetBigInt(a), G.NewScalar().SetBigInt(b)
		aH := G.NewElement().Mul(H, sa)
		bH := G.NewElement().Mul(H, sb)
		lib.Count("ristretto.axioms")
		// (a+b)H = aH + bH
		sab := G.NewScalar().SetBigInt(new(big.Int).Add(a, b))
		if !G.NewElement().Mul(H, sab).IsEqual(G.NewElement().Add(aH, bH)) {
			lib.Violation("C13:axiom:ristretto255:(a+b)P=aP+bP", monRis, det("a", a.Text(16), "b", b.Text(16)))
		}
		// a(bH) = (ab)H
		pab := G.NewScalar().SetBigInt(new(big.Int).Mul(a, b))
		if !G.NewElement().Mul(bH, sa).IsEqual(G.NewElement().Mul(H, pab)) {
			lib.Violation("C13:axiom:ristretto255:a(bP)=(ab)P", monRis, det("a", a.Text(16), "b", b.Text(16)))
		}
		// l*H = O  as (l-1)H + H
		lH := G.NewElement().Mul(H, G.NewScalar().SetBigInt(lm1))
		lH.Add(lH, H)
		lib.Count("ristretto.l*P=O")
		if !lH.IsIdentity() {
			lib.Violation("C13:axiom:ristretto255:l*P=O", monRis, det())
		}
		// H + (-H) = O, H + O = H, 2H = H + H, commutativity
		nH := G.NewElement().Neg(H)
		if !G.NewElement().Add(H, nH).IsIdentity() {
			lib.Violation("C13:axiom:ristretto255:P+(-P)=O", monRis, det())
		}
		if !G.NewElement().Add(H, G.Identity()).IsEqual(H) || !G.NewElement().Add(G.Identity(), H).IsEqual(H) {
			lib.Violation("C13:axiom:ristretto255:P+O=P", monRis, det())
		}
		if !G.NewElement().Dbl(H).IsEqual(G.NewElement().Mul(H, G.NewScalar().SetUint64(2))) {
			lib.Violation("C13:axiom:ristretto255:2P=P+P", monRis, det())
		}
		if !G.NewElement().Add(aH, bH).IsEqual(G.NewElement().Add(bH, aH)) {
			lib.Violation("C13:axiom:ristretto255:commutative", monRis, det())
		}
		// MulGen(a) == Mul(G, a)
		if !G.NewElement().MulGen(sa).IsEqual(G.NewElement().Mul(G.Generator(), sa)) {
			lib.Violation("C13:axiom:ristretto255:MulGen=Mul(G)", monRis, det("a", a.Text(16)))
		}
	})
}
