//go:build verif

package c13

import (
	"math/big"
	"sync"
	"testing"

	bls "github.com/cloudflare/circl/ecc/bls12381"
	"github.com/cloudflare/circl/internal/zzverif/lib"
	"github.com/cloudflare/circl/internal/zzverif/ref/c13ref"
)

const monBLS = "TestVerifBLSGroups"

// ---- encodings (uncompressed ZCash format): G1 = x||y, G2 = x1||x0||y1||y0,
// 48-byte big-endian each; bit 6 of byte 0 = infinity.

func g1Bytes(p c13ref.WPoint) []byte {
	if p.Inf {
		b := make([]byte, 96)
		b[0] = 0x40
		return b
	}
	return append(c13ref.BE(p.X.A, 48), c13ref.BE(p.Y.A, 48)...)
}

func g2Bytes(p c13ref.WPoint) []byte {
	if p.Inf {
		b := make([]byte, 192)
		b[0] = 0x40
		return b
	}
	b := append(c13ref.BE(p.X.B, 48), c13ref.BE(p.X.A, 48)...)
	b = append(b, c13ref.BE(p.Y.B, 48)...)
	return append(b, c13ref.BE(p.Y.A, 48)...)
}

func g1Parse(c *c13ref.WCurve, b []byte) (c13ref.WPoint, bool) {
	if len(b) != 96 || b[0]&0xA0 != 0 {
		return c.O(), false
	}
	if b[0]&0x40 != 0 {
		for i, v := range b {
			if (i == 0 && v != 0x40) || (i > 0 && v != 0) {
				return c.O(), false
			}
		}
		return c.O(), true
	}
	x, y := new(big.Int).SetBytes(b[:48]), new(big.Int).SetBytes(b[48:])
	if x.Cmp(c.F.P) >= 0 || y.Cmp(c.F.P) >= 0 {
		return c.O(), false
	}
	return c13ref.WPoint{X: c.F.New(x, nil), Y: c.F.New(y, nil)}, true
}

func g2Parse(c *c13ref.WCurve, b []byte) (c13ref.WPoint, bool) {
	if len(b) != 192 || b[0]&0xA0 != 0 {
		return c.O(), false
	}
	if b[0]&0x40 != 0 {
		for i, v := range b {
			if (i == 0 && v != 0x40) || (i > 0 && v != 0) {
				return c.O(), false
			}
		}
		return c.O(), true
	}
	v := make([]*big.Int, 4)
	for i := range v {
		v[i] = new(big.Int).SetBytes(b[48*i : 48*i+48])
		if v[i].Cmp(c.F.P) >= 0 {
			return c.O(), false
		}
	}
	return c13ref.WPoint{X: c.F.New(v[1], v[0]), Y: c.F.New(v[3], v[2])}, true
}

var (
	blsOnce  sync.Once
	blsC1    *c13ref.WCurve
	blsC2    *c13ref.WCurve
	blsPool1 []wpt
	blsPool2 []wpt
)

func blsSetup() {
	blsOnce.Do(func() {
		blsC1, blsC2 = c13ref.BLSG1(), c13ref.BLSG2()
		blsPool1 = buildWPool(blsC1, "c13/bls/pool1", lib.Scale(24, 200), lib.Scale(10, 60), blsH1)
		blsPool2 = buildWPool(blsC2, "c13/bls/pool2", lib.Scale(16, 120), lib.Scale(6, 30), blsH2)
	})
}

func mkG1(p c13ref.WPoint) (*bls.G1, error) {
	g := new(bls.G1)
	err := g.SetBytes(g1Bytes(p))
	return g, err
}

func mkG2(p c13ref.WPoint) (*bls.G2, error) {
	g := new(bls.G2)
	err := g.SetBytes(g2Bytes(p))
	return g, err
}

func mkScalar(k *big.Int) *bls.Scalar {
	s := new(bls.Scalar)
	s.SetBytes(k.Bytes())
	return s
}

func g1Check(op, class string, want c13ref.WPoint, got *bls.G1, detail map[string]any) bool {
	detail["case-class"], class = class, c13ref.Coarse(class)
	g, ok := g1Parse(blsC1, got.Bytes())
	if !ok || !blsC1.Eq(g, want) {
		detail["want"], detail["got"] = wstr(want), lib.Hex(got.Bytes())
		lib.Violation("C13:wrong-result:bls12381.G1."+op+":"+class, monBLS, detail)
		return false
	}
	if !got.IsOnG1() {
		lib.Violation("C13:wrong-result:bls12381.G1.IsOnG1", monBLS, detail)
		return false
	}
	if got.IsIdentity() != want.Inf {
		lib.Violation("C13:wrong-result:bls12381.G1.IsIdentity", monBLS, detail)
		return false
	}
	return true
}

func g2Check(op, class string, want c13ref.WPoint, got *bls.G2, detail map[string]any) bool {
	detail["case-class"], class = class, c13ref.Coarse(class)
	g, ok := g2Parse(blsC2, got.Bytes())
	if !ok || !blsC2.Eq(g, want) {
		detail["want"], detail["got"] = wstr(want), lib.Hex(got.Bytes())
		lib.Violation("C13:wrong-result:bls12381.G2."+op+":"+class, monBLS, detail)
		return false
	}
	if !got.IsOnG2() {
		lib.Violation("C13:wrong-result:bls12381.G2.IsOnG2", monBLS, detail)
		return false
	}
	if got.IsIdentity() != want.Inf {
		lib.Violation("C13:wrong-result:bls12381.G2.IsIdentity", monBLS, detail)
		return false
	}
	return true
}

func TestVerifBLSGroups(t *testing.T) {
	blsSetup()
	for _, g := range []string{"G1", "G2"} {
		lib.Mandatory(g+".Add", g+".Add:Q=P", g+".Add:Q=-P", g+".Add:Q=O", g+".Add:P=O", g+".Add:O+O", g+".Add:projective-input", g+".Double", g+".Double:O", g+".Neg",
			g+".ScalarMult", g+".ScalarMult:k>=r", g+".ScalarMult:P=O", g+".ScalarMult:result=O", g+".Hash", g+".Hash:non-identity", g+".Encode")
	}
	c1, c2 := blsC1, blsC2
	R := c1.N
	// constants
	{
		lib.CaseS("bls", "constants")
		g1Check("G1Generator", "G", c1.G, bls.G1Generator(), lib.D())
		g2Check("G2Generator", "G", c2.G, bls.G2Generator(), lib.D())
		var o1 bls.G1
		var o2 bls.G2
		o1.SetIdentity()
		o2.SetIdentity()
		g1Check("SetIdentity", "O", c1.O(), &o1, lib.D())
		g2Check("SetIdentity", "O", c2.O(), &o2, lib.D())
		if new(big.Int).SetBytes(bls.Order()).Cmp(R) != 0 {
			lib.Violation("C13:wrong-result:bls12381.Order", monBLS, lib.D("got", bls.Order()))
		}
	}

	n1 := lib.Scale(400, 30000)
	lib.Par(n1, func(i int) {
		r := lib.NewRng("c13/bls/g1", i)
		p, q, rel := relatedW(c1, blsPool1, r)
		det := func(kv ...any) map[string]any {
			d := lib.D(kv...)
			d["P"], d["Q"], d["rel"] = wstr(p.P), wstr(q.P), rel
			return d
		}
		P, e1 := mkG1(p.P)
		Q, e2 := mkG1(q.P)
		if e1 != nil || e2 != nil {
			lib.Violation("C13:decode-refused:bls12381.G1", monBLS, det("err1", e1, "err2", e2))
			return
		}
		if r.Intn(3) == 0 { // projective representative of P: (P-T)+T by the library, validated
			tt := blsPool1[r.Intn(len(blsPool1))]
			d0 := c1.Add(p.P, c1.Neg(tt.P))
			D0, _ := mkG1(d0)
			T, _ := mkG1(tt.P)
			S := new(bls.G1)
			S.Add(D0, T)
			lib.Case([]byte("G1.Add"), d0.Bytes(), tt.P.Bytes())
			lib.Count("G1.Add")
			if !g1Check("Add", "split", p.P, S, det("T", wstr(tt.P))) {
				return
			}
			P = S
			lib.Count("G1.Add:projective-input")
		}
		want := c1.Add(p.P, q.P)
		lib.Case([]byte("G1.Add"), p.P.Bytes(), q.P.Bytes())
		lib.Count("G1.Add")
		lib.Count("G1.Add:" + rel)
		S := new(bls.G1)
		if pn := lib.Try("G1.Add", nil, func() { S.Add(P, Q) }); pn != nil {
			lib.Violation("C13:panic:bls12381.G1.Add", monBLS, det("panic", pn.Value))
			return
		}
		if !g1Check("Add", rel, want, S, det()) {
			return
		}
		A := *P
		A.Add(&A, Q) // receiver aliases an operand
		if !g1Check("Add", "aliased-receiver", want, &A, det()) {
			return
		}
		if P.IsEqual(Q) != c1.Eq(p.P, q.P) || Q.IsEqual(P) != c1.Eq(p.P, q.P) {
			lib.Violation("C13:wrong-result:bls12381.G1.IsEqual", monBLS, det())
		}
		D := *P
		D.Double()
		lib.Case([]byte("G1.Double"), p.P.Bytes())
		lib.Count("G1.Double")
		if p.P.Inf {
			lib.Count("G1.Double:O")
		}
		if !g1Check("Double", p.Class, c1.Double(p.P), &D, det()) {
			return
		}
		D = *S
		D.Double()
		lib.Case([]byte("G1.Double"), want.Bytes())
		lib.Count("G1.Double")
		if want.Inf {
			lib.Count("G1.Double:O")
		}
		if !g1Check("Double", "projective", c1.Double(want), &D, det()) {
			return
		}
		M := *P
		M.Neg()
		lib.Case([]byte("G1.Neg"), p.P.Bytes())
		lib.Count("G1.Neg")
		if !g1Check("Neg", p.Class, c1.Neg(p.P), &M, det()) {
			return
		}
		Z := new(bls.G1)
		Z.Add(P, &M)
		if !g1Check("Add", "P+(-P)", c1.O(), Z, det()) {
			return
		}
		// scalar multiplication
		if i%2 == 0 {
			k, kclass := c13ref.GenScalar(r, R, 32)
			if r.Intn(8) == 0 {
				k, _ = c13ref.GenScalar(r, R, 33+r.Intn(32)) // Scalar.SetBytes reduces longer strings
				kclass = "wide"
			}
			sc := mkScalar(k)
			lib.Case([]byte("G1.ScalarMult"), p.P.Bytes(), k.Bytes())
			lib.Count("G1.ScalarMult")
			lib.Count("G1.scalar:" + kclass)
			wantM := c1.Mul(new(big.Int).Mod(k, R), p.P)
			if k.Cmp(R) >= 0 {
				lib.Count("G1.ScalarMult:k>=r")
			}
			if p.P.Inf {
				lib.Count("G1.ScalarMult:P=O")
			}
			if wantM.Inf {
				lib.Count("G1.ScalarMult:result=O")
			}
			var Mu bls.G1
			if pn := lib.Try("G1.ScalarMult", k.Bytes(), func() { Mu.ScalarMult(sc, P) }); pn != nil {
				lib.Violation("C13:panic:bls12381.G1.ScalarMult", monBLS, det("k", k.Text(16), "panic", pn.Value))
			} else {
				g1Check("ScalarMult", kclass, wantM, &Mu, det("k", k.Text(16), "dlogP", hexInt(p.K)))
			}
		}
		// hash / encode to G1: on the curve and killed by r, by the reference arithmetic
		if i%4 == 0 {
			msg := r.Bytes(r.Intn(80))
			dst := r.Bytes(r.Intn(50))
			if r.Intn(16) == 0 {
				dst = r.Bytes(256 + r.Intn(16))
			}
			for _, enc := range []bool{false, true} {
				var H bls.G1
				nm := "G1.Hash"
				if enc {
					nm = "G1.Encode"
				}
				lib.Case([]byte(nm), msg, dst)
				lib.Count(nm)
				if pn := lib.Try("bls12381."+nm, msg, func() {
					if enc {
						H.Encode(msg, dst)
					} else {
						H.Hash(msg, dst)
					}
				}); pn != nil {
					lib.Violation("C13:panic:bls12381."+nm, monBLS, lib.D("msg", msg, "dst", dst, "panic", pn.Value))
					continue
				}
				hp, ok := g1Parse(c1, H.Bytes())
				if !ok || !c1.IsOnCurve(hp) || !c1.Mul(R, hp).Inf {
					lib.Violation("C13:hash-outside-group:bls12381."+nm, monBLS, lib.D("msg", msg, "dst", dst, "out", H.Bytes()))
				} else if !hp.Inf {
					lib.Count(nm + ":non-identity")
				}
			}
		}
		if i == 0 {
			lib.Sample(monBLS, det("op", "G1.Add", "result", wstr(want)))
		}
	})

	n2 := lib.Scale(300, 12000)
	lib.Par(n2, func(i int) {
		r := lib.NewRng("c13/bls/g2", i)
		p, q, rel := relatedW(c2, blsPool2, r)
		det := func(kv ...any) map[string]any {
			d := lib.D(kv...)
			d["P"], d["Q"], d["rel"] = wstr(p.P), wstr(q.P), rel
			return d
		}
		P, e1 := mkG2(p.P)
		Q, e2 := mkG2(q.P)
		if e1 != nil || e2 != nil {
			lib.Violation("C13:decode-refused:bls12381.G2", monBLS, det("err1", e1, "err2", e2))
			return
		}
		if r.Intn(3) == 0 {
			tt := blsPool2[r.Intn(len(blsPool2))]
			d0 := c2.Add(p.P, c2.Neg(tt.P))
			D0, _ := mkG2(d0)
			T, _ := mkG2(tt.P)
			S := new(bls.G2)
			S.Add(D0, T)
			lib.Case([]byte("G2.Add"), d0.Bytes(), tt.P.Bytes())
			lib.Count("G2.Add")
			if !g2Check("Add", "split", p.P, S, det("T", wstr(tt.P))) {
				return
			}
			P = S
			lib.Count("G2.Add:projective-input")
		}
		want := c2.Add(p.P, q.P)
		lib.Case([]byte("G2.Add"), p.P.Bytes(), q.P.Bytes())
		lib.Count("G2.Add")
		lib.Count("G2.Add:" + rel)
		S := new(bls.G2)
		if pn := lib.Try("G2.Add", nil, func() { S.Add(P, Q) }); pn != nil {
			lib.Violation("C13:panic:bls12381.G2.Add", monBLS, det("panic", pn.Value))
			return
		}
		if !g2Check("Add", rel, want, S, det()) {
			return
		}
		A := *P
		A.Add(&A, Q)
		if !g2Check("Add", "aliased-receiver", want, &A, det()) {
			return
		}
		if P.IsEqual(Q) != c2.Eq(p.P, q.P) || Q.IsEqual(P) != c2.Eq(p.P, q.P) {
			lib.Violation("C13:wrong-result:bls12381.G2.IsEqual", monBLS, det())
		}
		D := *P
		D.Double()
		lib.Case([]byte("G2.Double"), p.P.Bytes())
		lib.Count("G2.Double")
		if p.P.Inf {
			lib.Count("G2.Double:O")
		}
		if !g2Check("Double", p.Class, c2.Double(p.P), &D, det()) {
			return
		}
		D = *S
		D.Double()
		lib.Case([]byte("G2.Double"), want.Bytes())
		lib.Count("G2.Double")
		if want.Inf {
			lib.Count("G2.Double:O")
		}
		if !g2Check("Double", "projective", c2.Double(want), &D, det()) {
			return
		}
		M := *P
		M.Neg()
		lib.Case([]byte("G2.Neg"), p.P.Bytes())
		lib.Count("G2.Neg")
		if !g2Check("Neg", p.Class, c2.Neg(p.P), &M, det()) {
			return
		}
		Z := new(bls.G2)
		Z.Add(P, &M)
		if !g2Check("Add", "P+(-P)", c2.O(), Z, det()) {
			return
		}
		if i%2 == 0 {
			k, kclass := c13ref.GenScalar(r, R, 32)
			if r.Intn(8) == 0 {
				k, _ = c13ref.GenScalar(r, R, 33+r.Intn(32))
				kclass = "wide"
			}
			sc := mkScalar(k)
			lib.Case([]byte("G2.ScalarMult"), p.P.Bytes(), k.Bytes())
			lib.Count("G2.ScalarMult")
			lib.Count("G2.scalar:" + kclass)
			wantM := c2.Mul(new(big.Int).Mod(k, R), p.P)
			if k.Cmp(R) >= 0 {
				lib.Count("G2.ScalarMult:k>=r")
			}
			if p.P.Inf {
				lib.Count("G2.ScalarMult:P=O")
			}
			if wantM.Inf {
				lib.Count("G2.ScalarMult:result=O")
			}
			var Mu bls.G2
			if pn := lib.Try("G2.ScalarMult", k.Bytes(), func() { Mu.ScalarMult(sc, P) }); pn != nil {
				lib.Violation("C13:panic:bls12381.G2.ScalarMult", monBLS, det("k", k.Text(16), "panic", pn.Value))
			} else {
				g2Check("ScalarMult", kclass, wantM, &Mu, det("k", k.Text(16), "dlogP", hexInt(p.K)))
			}
		}
		if i%4 == 0 {
			msg := r.Bytes(r.Intn(80))
			dst := r.Bytes(r.Intn(50))
			for _, enc := range []bool{false, true} {
				var H bls.G2
				nm := "G2.Hash"
				if enc {
					nm = "G2.Encode"
				}
				lib.Case([]byte(nm), msg, dst)
				lib.Count(nm)
				if pn := lib.Try("bls12381."+nm, msg, func() {
					if enc {
						H.Encode(msg, dst)
					} else {
						H.Hash(msg, dst)
					}
				}); pn != nil {
					lib.Violation("C13:panic:bls12381."+nm, monBLS, lib.D("msg", msg, "dst", dst, "panic", pn.Value))
					continue
				}
				hp, ok := g2Parse(c2, H.Bytes())
				if !ok || !c2.IsOnCurve(hp) || !c2.Mul(R, hp).Inf {
					lib.Violation("C13:hash-outside-group:bls12381."+nm, monBLS, lib.D("msg", msg, "dst", dst, "out", H.Bytes()))
				} else if !hp.Inf {
					lib.Count(nm + ":non-identity")
				}
			}
		}
		if i == 0 {
			lib.Sample(monBLS, det("op", "G2.Add", "result", wstr(want)))
		}
	})
}

// ---------------------------------------------------------------- pairing

const monPair = "TestVerifPairing"

func gtHex(g *bls.Gt) string { b, _ := g.MarshalBinary(); return lib.Hex(b) }

// gtPow is x^k for any integer k >= 0 built from Gt.Exp (which takes a
// reduced Scalar) - used with k < r only, plus one extra Mul for k = r.
func gtPowR(x *bls.Gt) *bls.Gt {
	rm1 := new(big.Int).Sub(blsC1.N, big.NewInt(1))
	y := new(bls.Gt)
	y.Exp(x, mkScalar(rm1))
	y.Mul(y, x)
	return y
}

func TestVerifPairing(t *testing.T) {
	blsSetup()
	lib.Mandatory("pair:bilinear", "pair:bilinear:ab=0", "pair:identity-arg", "pair:non-degenerate", "pair:order-r", "pair:additive-G1", "pair:additive-G2",
		"pair:ProdPair", "pair:ProdPair:empty", "pair:ProdPair:with-identity", "pair:ProdPair:identity-G1-term", "pair:ProdPairFrac", "pair:ProdPairFrac:negative", "pair:projective-Q", "pair:neg")
	c1, c2 := blsC1, blsC2
	R := c1.N
	one := new(bls.Gt)
	one.SetIdentity()

	// generators: e(G1,G2) != 1, has order r
	{
		e := bls.Pair(bls.G1Generator(), bls.G2Generator())
		lib.CaseS("pair", "generators")
		if e.IsIdentity() || e.IsEqual(one) {
			lib.Violation("C13:pairing:degenerate", monPair, lib.D("what", "e(G1,G2) = 1"))
		} else {
			lib.Count("pair:non-degenerate")
		}
		if !gtPowR(e).IsIdentity() {
			lib.Violation("C13:pairing:order", monPair, lib.D("what", "e(G1,G2)^r != 1"))
		} else {
			lib.Count("pair:order-r")
		}
	}

	// inputs: library points built from validated reference points; every third Q is
	// left in projective form (sum of two decoded points)
	getP := func(r *lib.Rng) (*bls.G1, wpt) {
		p := blsPool1[r.Intn(len(blsPool1))]
		if r.Intn(10) == 0 {
			p = wpt{big.NewInt(0), c1.O(), "O"}
		}
		P, _ := mkG1(p.P)
		return P, p
	}
	getQ := func(r *lib.Rng) (*bls.G2, wpt) {
		q := blsPool2[r.Intn(len(blsPool2))]
		if r.Intn(10) == 0 {
			q = wpt{big.NewInt(0), c2.O(), "O"}
		}
		if r.Intn(3) == 0 {
			tt := blsPool2[r.Intn(len(blsPool2))]
			D0, _ := mkG2(c2.Add(q.P, c2.Neg(tt.P)))
			T, _ := mkG2(tt.P)
			S := new(bls.G2)
			S.Add(D0, T)
			if g, ok := g2Parse(c2, S.Bytes()); ok && c2.Eq(g, q.P) {
				lib.Count("pair:projective-Q")
				return S, q
			}
		}
		Q, _ := mkG2(q.P)
		return Q, q
	}

	n := lib.Scale(160, 8000)
	lib.Par(n, func(i int) {
		guarded(monPair, "bls12381.Pair:case", nil, func() {
			r := lib.NewRng("c13/pair/bilinear", i)
			P, p := getP(r)
			Q, q := getQ(r)
			a, _ := c13ref.GenScalar(r, R, 32)
			b, _ := c13ref.GenScalar(r, R, 32)
			if r.Intn(3) == 0 {
				a = big.NewInt(int64(r.Intn(5)))
			}
			a.Mod(a, R)
			b.Mod(b, R)
			det := lib.D("P", wstr(p.P), "Q", wstr(q.P), "a", a.Text(16), "b", b.Text(16))
			// aP, bQ from the reference (so this monitor does not lean on ScalarMult)
			aP, _ := mkG1(c1.Mul(a, p.P))
			bQ, _ := mkG2(c2.Mul(b, q.P))
			lib.Case([]byte("pair:bilinear"), p.P.Bytes(), q.P.Bytes(), a.Bytes(), b.Bytes())
			lib.Count("pair:bilinear")
			var lhs, base, rhs *bls.Gt
			if pn := lib.Try("bls12381.Pair", nil, func() {
				lhs = bls.Pair(aP, bQ)
				base = bls.Pair(P, Q)
			}); pn != nil {
				det["panic"] = pn.Value
				lib.Violation("C13:panic:bls12381.Pair", monPair, det)
				return
			}
			ab := new(big.Int).Mul(a, b)
			ab.Mod(ab, R)
			if ab.Sign() == 0 {
				lib.Count("pair:bilinear:ab=0")
			}
			rhs = new(bls.Gt)
			rhs.Exp(base, mkScalar(ab))
			if !lhs.IsEqual(rhs) {
				lib.Violation("C13:pairing:not-bilinear", monPair, det)
				return
			}
			// two-step exponentiation gives the same
			t2 := new(bls.Gt)
			t2.Exp(base, mkScalar(a))
			t2.Exp(t2, mkScalar(b))
			if !t2.IsEqual(rhs) {
				lib.Violation("C13:pairing:Gt.Exp-inconsistent", monPair, det)
			}
			// identity arguments
			if p.P.Inf || q.P.Inf {
				lib.Count("pair:identity-arg")
				if !base.IsIdentity() {
					lib.Violation("C13:pairing:identity-not-mapped-to-one", monPair, det)
				}
			} else if base.IsIdentity() {
				lib.Violation("C13:pairing:degenerate", monPair, det)
			}
			// e(-P,Q) = e(P,-Q) = e(P,Q)^-1
			nP := *P
			nP.Neg()
			nQ := *Q
			nQ.Neg()
			inv := new(bls.Gt)
			inv.Inv(base)
			lib.Count("pair:neg")
			if !bls.Pair(&nP, Q).IsEqual(inv) || !bls.Pair(P, &nQ).IsEqual(inv) {
				lib.Violation("C13:pairing:negation", monPair, det)
			}
			chk := new(bls.Gt)
			chk.Mul(inv, base)
			if !chk.IsIdentity() {
				lib.Violation("C13:pairing:Gt.Inv", monPair, det)
			}
			// additivity in each argument
			P2, p2 := getP(r)
			Q2, q2 := getQ(r)
			sP, _ := mkG1(c1.Add(p.P, p2.P))
			sQ, _ := mkG2(c2.Add(q.P, q2.P))
			l1 := bls.Pair(sP, Q)
			r1 := new(bls.Gt)
			r1.Mul(base, bls.Pair(P2, Q))
			lib.Count("pair:additive-G1")
			if !l1.IsEqual(r1) {
				det["P2"] = wstr(p2.P)
				lib.Violation("C13:pairing:not-additive-G1", monPair, det)
			}
			l2 := bls.Pair(P, sQ)
			r2 := new(bls.Gt)
			r2.Mul(base, bls.Pair(P, Q2))
			lib.Count("pair:additive-G2")
			if !l2.IsEqual(r2) {
				det["Q2"] = wstr(q2.P)
				lib.Violation("C13:pairing:not-additive-G2", monPair, det)
			}
			if i == 0 {
				lib.Sample(monPair, lib.D("P", wstr(p.P), "Q", wstr(q.P), "a", a.Text(16), "b", b.Text(16), "e(aP,bQ)", gtHex(lhs)))
			}
		})
	})

	// explicit identity cases
	{
		var o1 bls.G1
		var o2 bls.G2
		o1.SetIdentity()
		o2.SetIdentity()
		lib.CaseS("pair", "identities")
		lib.Count("pair:identity-arg")
		if !bls.Pair(&o1, bls.G2Generator()).IsIdentity() || !bls.Pair(bls.G1Generator(), &o2).IsIdentity() || !bls.Pair(&o1, &o2).IsIdentity() {
			lib.Violation("C13:pairing:identity-not-mapped-to-one", monPair, lib.D("what", "generators"))
		}
	}

	// products: minimal deterministic shapes first (identity at each position)
	{
		g1, g2 := bls.G1Generator(), bls.G2Generator()
		var o1 bls.G1
		var o2 bls.G2
		o1.SetIdentity()
		o2.SetIdentity()
		e := bls.Pair(g1, g2)
		e2 := new(bls.Gt)
		e2.Sqr(e)
		s1 := mkScalar(big.NewInt(1))
		type shape struct {
			name string
			P    []*bls.G1
			Q    []*bls.G2
			want *bls.Gt
		}
		shapes := []shape{
			{"[G]x[H]", []*bls.G1{g1}, []*bls.G2{g2}, e},
			{"[O]x[H]", []*bls.G1{&o1}, []*bls.G2{g2}, one},
			{"[G]x[O]", []*bls.G1{g1}, []*bls.G2{&o2}, one},
			{"[G,G]x[H,H]", []*bls.G1{g1, g1}, []*bls.G2{g2, g2}, e2},
			{"[G,O]x[H,H]", []*bls.G1{g1, &o1}, []*bls.G2{g2, g2}, e},
			{"[O,G]x[H,H]", []*bls.G1{&o1, g1}, []*bls.G2{g2, g2}, e},
			{"[G,G]x[H,O]", []*bls.G1{g1, g1}, []*bls.G2{g2, &o2}, e},
			{"[G,G]x[O,H]", []*bls.G1{g1, g1}, []*bls.G2{&o2, g2}, e},
			{"[O,O]x[H,H]", []*bls.G1{&o1, &o1}, []*bls.G2{g2, g2}, one},
			{"[G,O,G]x[H,H,H]", []*bls.G1{g1, &o1, g1}, []*bls.G2{g2, g2, g2}, e2},
		}
		for _, sh := range shapes {
			ns := make([]*bls.Scalar, len(sh.P))
			sg := make([]int, len(sh.P))
			for j := range ns {
				ns[j], sg[j] = s1, 1
			}
			cl := "generic"
			for _, p := range sh.P {
				if p.IsIdentity() && len(sh.P) >= 2 {
					cl = "identity-G1-term"
				}
			}
			lib.CaseS("pair:prod:shape", sh.name)
			lib.Count("pair:ProdPair")
			lib.Count("pair:ProdPairFrac")
			if cl != "generic" {
				lib.Count("pair:ProdPair:identity-G1-term")
			}
			if got := bls.ProdPair(sh.P, sh.Q, ns); !got.IsEqual(sh.want) {
				lib.Violation("C13:pairing:ProdPair:"+cl, monPair, lib.D("shape", sh.name, "exponents", "all 1", "G", "G1Generator", "H", "G2Generator", "O", "identity", "want", gtHex(sh.want), "got", gtHex(got)))
			}
			if got := bls.ProdPairFrac(sh.P, sh.Q, sg); !got.IsEqual(sh.want) {
				lib.Violation("C13:pairing:ProdPairFrac:"+cl, monPair, lib.D("shape", sh.name, "signs", "all +1", "G", "G1Generator", "H", "G2Generator", "O", "identity", "want", gtHex(sh.want), "got", gtHex(got)))
			}
		}
	}
	np := lib.Scale(120, 6000)
	lib.Par(np, func(i int) {
		guarded(monPair, "bls12381.ProdPair:case", nil, func() {
			r := lib.NewRng("c13/pair/prod", i)
			l := r.Intn(6)
			if i == 0 {
				l = 0
			}
			var Ps []*bls.G1
			var Qs []*bls.G2
			var ns []*bls.Scalar
			var signs []int
			want := new(bls.Gt)
			want.SetIdentity()
			wantF := new(bls.Gt)
			wantF.SetIdentity()
			desc := []any{}
			hasO, hasNeg, hasO1 := false, false, false
			var ps, qs []wpt
			for j := 0; j < l; j++ {
				P, p := getP(r)
				Q, q := getQ(r)
				// the same point OBJECT in several terms (a caller pairing one
				// key with several messages passes one pointer repeatedly)
				if j > 0 && r.Intn(3) == 0 {
					i := r.Intn(j)
					P, p = Ps[i], ps[i]
					lib.Count("pair:ProdPair:same-G1-object-in-two-terms")
				}
				if j > 0 && r.Intn(3) == 0 {
					i := r.Intn(j)
					Q, q = Qs[i], qs[i]
					lib.Count("pair:ProdPair:same-G2-object-in-two-terms")
				}
				ps, qs = append(ps, p), append(qs, q)
				k, _ := c13ref.GenScalar(r, R, 32)
				k.Mod(k, R)
				s := 1
				if r.Bool() {
					s = -1
					hasNeg = true
				}
				if p.P.Inf || q.P.Inf {
					hasO = true
				}
				if p.P.Inf {
					hasO1 = true
				}
				Ps, Qs, ns, signs = append(Ps, P), append(Qs, Q), append(ns, mkScalar(k)), append(signs, s)
				e := bls.Pair(P, Q)
				ek := new(bls.Gt)
				ek.Exp(e, mkScalar(k))
				want.Mul(want, ek)
				if s == -1 {
					ei := new(bls.Gt)
					ei.Inv(e)
					wantF.Mul(wantF, ei)
				} else {
					wantF.Mul(wantF, e)
				}
				desc = append(desc, map[string]any{"P": wstr(p.P), "Q": wstr(q.P), "n": k.Text(16), "sign": s})
			}
			det := lib.D("terms", desc)
			lib.CaseS("pair:prod", gtHex(want), gtHex(wantF))
			lib.Count("pair:ProdPair")
			lib.Count("pair:ProdPairFrac")
			if l == 0 {
				lib.Count("pair:ProdPair:empty")
			}
			if hasO {
				lib.Count("pair:ProdPair:with-identity")
			}
			if hasNeg {
				lib.Count("pair:ProdPairFrac:negative")
			}
			// a G1 identity among several terms is a class of its own (batch
			// normalisation of the G1 inputs)
			vclass := "generic"
			if hasO1 && l >= 2 {
				vclass = "identity-G1-term"
				lib.Count("pair:ProdPair:identity-G1-term")
			}
			var got, gotF *bls.Gt
			if pn := lib.Try("bls12381.ProdPair", nil, func() { got = bls.ProdPair(Ps, Qs, ns) }); pn != nil {
				det["panic"] = pn.Value
				lib.Violation("C13:panic:bls12381.ProdPair", monPair, det)
			} else if !got.IsEqual(want) {
				lib.Violation("C13:pairing:ProdPair:"+vclass, monPair, det)
			}
			if pn := lib.Try("bls12381.ProdPairFrac", nil, func() { gotF = bls.ProdPairFrac(Ps, Qs, signs) }); pn != nil {
				det["panic"] = pn.Value
				lib.Violation("C13:panic:bls12381.ProdPairFrac", monPair, det)
			} else if !gotF.IsEqual(wantF) {
				lib.Violation("C13:pairing:ProdPairFrac:"+vclass, monPair, det)
			}
		})
	})
}
