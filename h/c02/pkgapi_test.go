//go:build verif

package c02

import (
	"testing"

	"github.com/cloudflare/circl/internal/zzverif/lib"
	"github.com/cloudflare/circl/sign"
	"github.com/cloudflare/circl/sign/dilithium/mode2"
	"github.com/cloudflare/circl/sign/dilithium/mode3"
	"github.com/cloudflare/circl/sign/dilithium/mode5"
	"github.com/cloudflare/circl/sign/eddilithium2"
	"github.com/cloudflare/circl/sign/eddilithium3"
	"github.com/cloudflare/circl/sign/mldsa/mldsa44"
	"github.com/cloudflare/circl/sign/mldsa/mldsa65"
	"github.com/cloudflare/circl/sign/mldsa/mldsa87"
)

const monPkg = "TestVerifPkgAPIs"

// pkgAPI abstracts the package-level SignTo / Verify functions of the
// lattice and hybrid packages.
type pkgAPI struct {
	name     string // = sign.Scheme name of the same package
	sigSize  int
	seedSize int
	hasCtx   bool
	scheme   sign.Scheme
	newKey   func(seed []byte) (pk, sk any)
	// signTo writes into sig; ctx and randomized only where supported
	signTo func(sk any, msg, ctx []byte, randomized bool, sig []byte) error
	verify func(pk any, msg, ctx, sig []byte) bool
}

func pkgAPIs() []*pkgAPI {
	return []*pkgAPI{
		{name: "ML-DSA-44", sigSize: mldsa44.SignatureSize, seedSize: mldsa44.SeedSize, hasCtx: true, scheme: mldsa44.Scheme(),
			newKey: func(seed []byte) (any, any) {
				var s [mldsa44.SeedSize]byte
				copy(s[:], seed)
				return mldsa44.NewKeyFromSeed(&s)
			},
			signTo: func(sk any, msg, ctx []byte, rnd bool, sig []byte) error {
				return mldsa44.SignTo(sk.(*mldsa44.PrivateKey), msg, ctx, rnd, sig)
			},
			verify: func(pk any, msg, ctx, sig []byte) bool { return mldsa44.Verify(pk.(*mldsa44.PublicKey), msg, ctx, sig) }},
		{name: "ML-DSA-65", sigSize: mldsa65.SignatureSize, seedSize: mldsa65.SeedSize, hasCtx: true, scheme: mldsa65.Scheme(),
			newKey: func(seed []byte) (any, any) {
				var s [mldsa65.SeedSize]byte
				copy(s[:], seed)
				return mldsa65.NewKeyFromSeed(&s)
			},
			signTo: func(sk any, msg, ctx []byte, rnd bool, sig []byte) error {
				return mldsa65.SignTo(sk.(*mldsa65.PrivateKey), msg, ctx, rnd, sig)
			},
			verify: func(pk any, msg, ctx, sig []byte) bool { return mldsa65.Verify(pk.(*mldsa65.PublicKey), msg, ctx, sig) }},
		{name: "ML-DSA-87", sigSize: mldsa87.SignatureSize, seedSize: mldsa87.SeedSize, hasCtx: true, scheme: mldsa87.Scheme(),
			newKey: func(seed []byte) (any, any) {
				var s [mldsa87.SeedSize]byte
				copy(s[:], seed)
				return mldsa87.NewKeyFromSeed(&s)
			},
			signTo: func(sk any, msg, ctx []byte, rnd bool, sig []byte) error {
				return mldsa87.SignTo(sk.(*mldsa87.PrivateKey), msg, ctx, rnd, sig)
			},
			verify: func(pk any, msg, ctx, sig []byte) bool { return mldsa87.Verify(pk.(*mldsa87.PublicKey), msg, ctx, sig) }},
		{name: "Dilithium2", sigSize: mode2.SignatureSize, seedSize: mode2.SeedSize, scheme: mode2.Scheme(),
			newKey: func(seed []byte) (any, any) {
				var s [mode2.SeedSize]byte
				copy(s[:], seed)
				return mode2.NewKeyFromSeed(&s)
			},
			signTo: func(sk any, msg, ctx []byte, rnd bool, sig []byte) error {
				mode2.SignTo(sk.(*mode2.PrivateKey), msg, sig)
				return nil
			},
			verify: func(pk any, msg, ctx, sig []byte) bool { return mode2.Verify(pk.(*mode2.PublicKey), msg, sig) }},
		{name: "Dilithium3", sigSize: mode3.SignatureSize, seedSize: mode3.SeedSize, scheme: mode3.Scheme(),
			newKey: func(seed []byte) (any, any) {
				var s [mode3.SeedSize]byte
				copy(s[:], seed)
				return mode3.NewKeyFromSeed(&s)
			},
			signTo: func(sk any, msg, ctx []byte, rnd bool, sig []byte) error {
				mode3.SignTo(sk.(*mode3.PrivateKey), msg, sig)
				return nil
			},
			verify: func(pk any, msg, ctx, sig []byte) bool { return mode3.Verify(pk.(*mode3.PublicKey), msg, sig) }},
		{name: "Dilithium5", sigSize: mode5.SignatureSize, seedSize: mode5.SeedSize, scheme: mode5.Scheme(),
			newKey: func(seed []byte) (any, any) {
				var s [mode5.SeedSize]byte
				copy(s[:], seed)
				return mode5.NewKeyFromSeed(&s)
			},
			signTo: func(sk any, msg, ctx []byte, rnd bool, sig []byte) error {
				mode5.SignTo(sk.(*mode5.PrivateKey), msg, sig)
				return nil
			},
			verify: func(pk any, msg, ctx, sig []byte) bool { return mode5.Verify(pk.(*mode5.PublicKey), msg, sig) }},
		{name: "Ed25519-Dilithium2", sigSize: eddilithium2.SignatureSize, seedSize: eddilithium2.SeedSize, scheme: eddilithium2.Scheme(),
			newKey: func(seed []byte) (any, any) {
				var s [eddilithium2.SeedSize]byte
				copy(s[:], seed)
				return eddilithium2.NewKeyFromSeed(&s)
			},
			signTo: func(sk any, msg, ctx []byte, rnd bool, sig []byte) error {
				eddilithium2.SignTo(sk.(*eddilithium2.PrivateKey), msg, sig)
				return nil
			},
			verify: func(pk any, msg, ctx, sig []byte) bool {
				return eddilithium2.Verify(pk.(*eddilithium2.PublicKey), msg, sig)
			}},
		{name: "Ed448-Dilithium3", sigSize: eddilithium3.SignatureSize, seedSize: eddilithium3.SeedSize, scheme: eddilithium3.Scheme(),
			newKey: func(seed []byte) (any, any) {
				var s [eddilithium3.SeedSize]byte
				copy(s[:], seed)
				return eddilithium3.NewKeyFromSeed(&s)
			},
			signTo: func(sk any, msg, ctx []byte, rnd bool, sig []byte) error {
				eddilithium3.SignTo(sk.(*eddilithium3.PrivateKey), msg, sig)
				return nil
			},
			verify: func(pk any, msg, ctx, sig []byte) bool {
				return eddilithium3.Verify(pk.(*eddilithium3.PublicKey), msg, sig)
			}},
	}
}

func TestVerifPkgAPIs(t *testing.T) {
	lib.Mandatory("honest-verified", "altered", "rejected", "alt:trunc", "alt:append", "alt:bitflip", "alt:s-plus-l",
		"alt:hint-order", "alt:hint-padding", "alt:ctx", "alt:msg", "alt:other-key", "alt:ctx-256",
		"ctx-256-sign-refused", "randomized-verified", "randomized-differs", "scheme-api-agrees", "nil-ctx-equals-empty", "alt:ctx-256-wrap")
	apis := pkgAPIs()
	for _, a := range apis {
		if a.scheme.Name() != a.name || a.scheme.SignatureSize() != a.sigSize || a.scheme.SeedSize() != a.seedSize {
			t.Fatalf("package table inconsistent for %s", a.name)
		}
	}
	nk := lib.Scale(2, 6)
	nm := len(testMessages(lib.NewRng("c02/len", 0)))
	type cs struct {
		a    *pkgAPI
		k, m int
	}
	var cases []cs
	for i := len(apis) - 1; i >= 0; i-- {
		for k := 0; k < nk; k++ {
			for m := 0; m < nm; m++ {
				cases = append(cases, cs{apis[i], k, m})
			}
		}
	}
	lib.Par(len(cases), func(i int) { pkgCase(cases[i].a, cases[i].k, cases[i].m) })
}

func pkgCase(a *pkgAPI, k, mi int) {
	name := a.name
	subject := name // same finding keys as the scheme-level monitor: same root causes
	meta, _ := metaFor(name)
	r := lib.NewRng("c02/pkg/"+name, k*100+mi)
	seed := keySeed("c02/pkg-key/"+name, k, a.seedSize)
	msg := testMessages(lib.NewRng("c02/pkg-msg/"+name, k))[mi]
	pk, sk := a.newKey(seed)
	pk2, _ := a.newKey(keySeed("c02/pkg-key/"+name, k+2, a.seedSize))
	_, ssk := a.scheme.DeriveKey(seed)

	ctxs := [][]byte{nil}
	if a.hasCtx {
		ctxs = append(ctxs, []byte{}, r.Bytes(1), r.Bytes(255), make([]byte, 3))
	}
	var nilSig []byte
	for ci, ctx := range ctxs {
		ctx := ctx
		det := func() map[string]any {
			return lib.D("api", name, "seed", seed, "msg", msg, "ctx", ctx, "ctx_nil", ctx == nil)
		}
		lib.Case([]byte("pkg"), []byte(name), seed, msg, ctx, []byte{byte(ci)})
		// a destination longer than SignatureSize is allowed; the signature is its prefix
		buf1 := make([]byte, a.sigSize+5)
		buf2 := make([]byte, a.sigSize)
		for j := range buf1 { // a re-used destination: the signature must not depend on what it held
			buf1[j] = 0xC3 ^ byte(j)
		}
		var e1, e2 error
		if p := lib.Try("SignTo:"+name, msg, func() {
			e1 = a.signTo(sk, msg, ctx, false, buf1)
			e2 = a.signTo(sk, msg, ctx, false, buf2)
		}); p != nil || e1 != nil || e2 != nil {
			d := det()
			if p != nil {
				d["panic"], d["frame"] = p.Value, p.TopFrame()
			}
			d["err"] = e1
			lib.Violation("C02:honest-sign-failed:"+subject, monPkg, d)
			continue
		}
		sig := buf2
		if !lib.Eq(buf1[:a.sigSize], sig) {
			lib.Violation("C02:nondeterministic:"+subject, monPkg, det())
		}
		if ctx == nil {
			nilSig = sig
		} else if len(ctx) == 0 {
			if lib.Eq(sig, nilSig) {
				lib.Count("nil-ctx-equals-empty")
			} else {
				lib.Violation("C02:nondeterministic:"+subject+":nil-vs-empty-ctx", monPkg, det())
			}
		}
		// the generic scheme API yields the same bytes for the same key
		{
			var o *sign.SignatureOpts
			if len(ctx) > 0 {
				o = &sign.SignatureOpts{Context: string(ctx)}
			}
			var s2 []byte
			p := lib.Try("Scheme.Sign:"+name, msg, func() { s2 = a.scheme.Sign(ssk, msg, o) })
			if p != nil || !lib.Eq(s2, sig) {
				lib.Violation("C02:nondeterministic:"+subject+":scheme-vs-package-api", monPkg, det())
			} else {
				lib.Count("scheme-api-agrees")
			}
		}
		var ok bool
		p := lib.Try("Verify:"+name+":honest", sig, func() { ok = a.verify(pk, msg, ctx, sig) })
		lib.Eval()
		if p != nil || !ok {
			d := det()
			d["sig"] = lib.Hex(sig)
			lib.Violation("C02:honest-rejected:"+subject, monPkg, d)
			continue
		}
		lib.Count("honest-verified")
		if a.hasCtx && len(ctx) == 0 {
			// nil and empty contexts are interchangeable on the verifying side too
			other := []byte{}
			if ctx != nil {
				other = nil
			}
			if !a.verify(pk, msg, other, sig) {
				lib.Violation("C02:honest-rejected:"+subject+":nil-vs-empty-ctx", monPkg, det())
			}
		}
		if k == 0 && mi == 0 && ci == 0 {
			lib.Sample(monPkg, lib.D("api", name, "seed", seed, "msg", msg, "sig_len", len(sig), "sig_head", sig[:16]))
		}

		// randomized signing: only "verifies" (and the size)
		if a.hasCtx {
			ra := make([]byte, a.sigSize)
			rb := make([]byte, a.sigSize)
			var ea, eb error
			var oka, okb bool
			p := lib.Try("SignTo:"+name+":randomized", msg, func() {
				ea = a.signTo(sk, msg, ctx, true, ra)
				eb = a.signTo(sk, msg, ctx, true, rb)
				oka = a.verify(pk, msg, ctx, ra)
				okb = a.verify(pk, msg, ctx, rb)
			})
			lib.Eval()
			if p != nil || ea != nil || eb != nil || !oka || !okb {
				d := det()
				d["err"] = ea
				lib.Violation("C02:honest-rejected:"+subject+":randomized", monPkg, d)
			} else {
				lib.Count("randomized-verified")
				if !lib.Eq(ra, rb) {
					lib.Count("randomized-differs")
				}
			}
		}

		tg := &target{subject: subject, entry: "Verify", mon: monPkg, detail: det,
			verify: func(x []byte) bool { return a.verify(pk, msg, ctx, x) }}
		// the scheme-level monitor sweeps the same code with every key; here
		// the full set runs on the first context, a light one on the others
		alterSig(tg, r, sig, altOpts{flips: lib.Scale(64, 256), scalars: meta.scalars, hint: meta.hint, light: ci > 0 && len(ctx) == 0})

		tgk := &target{subject: subject, entry: "Verify", mon: monPkg, detail: det,
			verify: func(x []byte) bool { return a.verify(pk2, msg, ctx, x) }}
		tgk.expectReject("other-key", sig)
		for _, m2 := range msgAlterations(r, msg) {
			m2 := m2
			tgm := &target{subject: subject, entry: "Verify", mon: monPkg, detail: det,
				verify: func(x []byte) bool { return a.verify(pk, m2, ctx, x) }}
			tgm.expectReject("msg", sig, "msg2", m2)
		}
		if a.hasCtx {
			for _, c2 := range ctxAlterations(r, ctx) {
				c2 := c2
				tgc := &target{subject: subject, entry: "Verify", mon: monPkg, detail: det,
					verify: func(x []byte) bool { return a.verify(pk, msg, c2, x) }}
				tgc.expectReject("ctx", sig, "ctx2", c2)
			}
			if len(msg) > 0 && len(ctx) < 255 {
				c2, m2 := cat(ctx, msg[:1]), clip(msg[1:])
				tgc := &target{subject: subject, entry: "Verify", mon: monPkg, detail: det,
					verify: func(x []byte) bool { return a.verify(pk, m2, c2, x) }}
				tgc.expectReject("ctx-msg-boundary", sig)
			}
			if len(msg) >= 256 {
				c2, m2 := cat(ctx, msg[:256]), clip(msg[256:])
				tgc := &target{subject: subject, entry: "Verify", mon: monPkg, detail: det,
					verify: func(x []byte) bool { return a.verify(pk, m2, c2, x) }}
				tgc.expectReject("ctx-256-wrap", sig, "ctx2_len", len(c2))
			}
			for _, c2 := range [][]byte{cat(ctx, make([]byte, 256-len(ctx))), cat(ctx, r.Bytes(256)), make([]byte, 256), r.Bytes(1000)} {
				c2 := c2
				tgc := &target{subject: subject, entry: "Verify", mon: monPkg, detail: det,
					verify: func(x []byte) bool { return a.verify(pk, msg, c2, x) }}
				tgc.expectReject("ctx-256", sig, "ctx2_len", len(c2))
			}
		}
	}
	if a.hasCtx {
		for _, l := range []int{256, 257, 512, 65536 + 3} {
			ctx := r.Bytes(l)
			buf := make([]byte, a.sigSize)
			var err error
			p := lib.Try("SignTo:"+name+":ctx-too-long", ctx[:256], func() { err = a.signTo(sk, msg, ctx, false, buf) })
			lib.Eval()
			if p != nil || err != nil {
				lib.Count("ctx-256-sign-refused")
				continue
			}
			ok := a.verify(pk, msg, ctx, buf)
			lib.Violation("C02:ctx-too-long-signed:"+subject, monPkg, lib.D("api", name, "seed", seed, "msg", msg, "ctx_len", l, "verifies", ok))
		}
	}
}
