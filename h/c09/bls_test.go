//go:build verif

package c09

import (
	"math/big"
	"sync"
	"testing"

	"github.com/cloudflare/circl/ecc/bls12381"
	"github.com/cloudflare/circl/internal/zzverif/lib"
	"github.com/cloudflare/circl/internal/zzverif/ref/c09ref"
	"github.com/cloudflare/circl/sign/bls"
)

const monBLS = "TestVerifBLS12381"

// blsAPI adapts circl's G1 / G2 to one shape.
type blsAPI struct {
	name string
	g    *c09ref.BLSGroup
	set  func(in []byte) (ok bool, ser func() (comp, unc []byte)) // decode; ser re-serialises the decoded value
	// cancel serialises kG + (-kG): the identity as arithmetic leaves it (its
	// internal coordinates are whatever the addition formulas produce)
	cancel func(k *big.Int) (comp, unc []byte)
	// setUsed decodes prime and then in into the same receiver
	setUsed func(prime, in []byte) (ok bool, ser func() (comp, unc []byte))
	mulGen  func(k *big.Int) (comp, unc []byte)
	hash    func(msg []byte) (comp, unc []byte)
	equal   func(a, b []byte) bool // both decode and circl says they are the same element
}

func blsScalar(k *big.Int) *bls12381.Scalar {
	s := new(bls12381.Scalar)
	s.SetBytes(k.Bytes())
	return s
}

var apiG1 = &blsAPI{
	name: "G1", g: c09ref.BLSG1,
	cancel: func(k *big.Int) ([]byte, []byte) {
		var p, q, s bls12381.G1
		p.ScalarMult(blsScalar(k), bls12381.G1Generator())
		q = p
		q.Neg()
		s.Add(&p, &q)
		return s.BytesCompressed(), s.Bytes()
	},
	setUsed: func(prime, in []byte) (bool, func() ([]byte, []byte)) {
		var p bls12381.G1
		if p.SetBytes(prime) != nil {
			return false, nil
		}
		if err := p.SetBytes(in); err != nil {
			return false, nil
		}
		return true, func() ([]byte, []byte) { return p.BytesCompressed(), p.Bytes() }
	},
	set: func(in []byte) (bool, func() ([]byte, []byte)) {
		var p bls12381.G1
		if err := p.SetBytes(in); err != nil {
			return false, nil
		}
		return true, func() ([]byte, []byte) { return p.BytesCompressed(), p.Bytes() }
	},
	mulGen: func(k *big.Int) ([]byte, []byte) {
		var p bls12381.G1
		p.ScalarMult(blsScalar(k), bls12381.G1Generator())
		return p.BytesCompressed(), p.Bytes()
	},
	hash: func(msg []byte) ([]byte, []byte) {
		var p bls12381.G1
		p.Hash(msg, []byte("VERIF-C09-G1"))
		return p.BytesCompressed(), p.Bytes()
	},
	equal: func(a, b []byte) bool {
		var p, q bls12381.G1
		return p.SetBytes(a) == nil && q.SetBytes(b) == nil && p.IsEqual(&q) && q.IsEqual(&p)
	},
}

var apiG2 = &blsAPI{
	name: "G2", g: c09ref.BLSG2,
	cancel: func(k *big.Int) ([]byte, []byte) {
		var p, q, s bls12381.G2
		p.ScalarMult(blsScalar(k), bls12381.G2Generator())
		q = p
		q.Neg()
		s.Add(&p, &q)
		return s.BytesCompressed(), s.Bytes()
	},
	setUsed: func(prime, in []byte) (bool, func() ([]byte, []byte)) {
		var p bls12381.G2
		if p.SetBytes(prime) != nil {
			return false, nil
		}
		if err := p.SetBytes(in); err != nil {
			return false, nil
		}
		return true, func() ([]byte, []byte) { return p.BytesCompressed(), p.Bytes() }
	},
	set: func(in []byte) (bool, func() ([]byte, []byte)) {
		var p bls12381.G2
		if err := p.SetBytes(in); err != nil {
			return false, nil
		}
		return true, func() ([]byte, []byte) { return p.BytesCompressed(), p.Bytes() }
	},
	mulGen: func(k *big.Int) ([]byte, []byte) {
		var p bls12381.G2
		p.ScalarMult(blsScalar(k), bls12381.G2Generator())
		return p.BytesCompressed(), p.Bytes()
	},
	hash: func(msg []byte) ([]byte, []byte) {
		var p bls12381.G2
		p.Hash(msg, []byte("VERIF-C09-G2"))
		return p.BytesCompressed(), p.Bytes()
	},
	equal: func(a, b []byte) bool {
		var p, q bls12381.G2
		return p.SetBytes(a) == nil && q.SetBytes(b) == nil && p.IsEqual(&q) && q.IsEqual(&p)
	},
}

// ---- reference verdicts, cached by input (the key monitors present the same strings again)

type blsVerdict struct {
	dec     c09ref.BLSDec
	subDone bool
	inSub   bool
}

var blsCache sync.Map

func (a *blsAPI) ref(in []byte, needSub bool) blsVerdict {
	k := a.name + string(in)
	var v blsVerdict
	if c, ok := blsCache.Load(k); ok {
		v = c.(blsVerdict)
	} else {
		v.dec = a.g.Decode(in)
	}
	if needSub && !v.subDone && v.dec.Why == "" {
		v.subDone = true
		v.inSub = v.dec.P.Inf || a.g.InSubgroup(v.dec.P)
		lib.Count("ref-subgroup-checks:" + a.name)
	}
	blsCache.Store(k, v)
	return v
}

// judge runs one string through SetBytes and the oracle.  subOneIn thins the
// reference subgroup check of strings that circl REJECTED (a random curve
// point is in the subgroup with probability 1/h < 2^-125, so that check only
// guards the reference itself); accepted strings are always checked in full.
func (a *blsAPI) judge(c tc, subOneIn uint64) {
	entry := a.name + ".SetBytes"
	in := c.data
	lib.Case([]byte(entry), in)
	lib.Count("presented:" + a.name + ":" + c.class)
	var ok bool
	var comp, unc []byte
	var ser func() ([]byte, []byte)
	if p := lib.Try(entry, in, func() { ok, ser = a.set(in) }); p != nil {
		lib.Count("panic-left-to-C10:" + entry)
		return
	}
	if ok {
		if p := lib.Try(entry+"/reserialise", in, func() { comp, unc = ser() }); p != nil {
			lib.Count("decoder-accepted:" + entry)
			viol("accepted-value-panics-on-reserialisation", entry, "", monBLS, "class", c.class, "input", in, "panic", p.Value)
			return
		}
	}
	if c.prime != nil && a.setUsed != nil {
		// the same string into a receiver that holds the valid point it was
		// derived from: verdict and value must not depend on the receiver
		var ok2 bool
		var ser2 func() ([]byte, []byte)
		if p := lib.Try(entry+"/used-receiver", in, func() { ok2, ser2 = a.setUsed(c.prime, in) }); p == nil {
			lib.Count("used-receiver:" + a.name)
			same := ok2 == ok
			if same && ok {
				c2, u2 := ser2()
				same = lib.Eq(c2, comp) && lib.Eq(u2, unc)
			}
			if !same {
				viol("noncanonical-accepted", entry, "decoder-result-depends-on-receiver-history", monBLS, "class", c.class, "input", in,
					"receiver_held", c.prime, "fresh_receiver_accepts", ok, "used_receiver_accepts", ok2)
				return
			}
		}
	}
	v := a.ref(in, false)
	if v.dec.Why == "form-length-mismatch" {
		// compressed flag on a string of the uncompressed length (or the reverse): SetBytes reads the
		// flagged form from the front and tolerates what follows (the repo's TestG1Serial/badLength pins
		// that down); strings with trailing bytes are not of the exact length of their format: C02 / C10.
		lib.Count("out-of-scope:trailing-bytes-after-flagged-form:" + a.name)
		return
	}
	if v.dec.Why != "" && v.dec.Why != "not-on-curve" {
		lib.Count("noncanonical-presented")
		lib.Count("noncanonical-presented:" + a.name + ":" + v.dec.Why)
	}
	if !ok {
		lib.Count("decoder-rejected:" + entry)
		if v.dec.Why == "" {
			if alwaysSub[c.class] || sampled(in, subOneIn) {
				v = a.ref(in, true)
				if v.inSub {
					viol("valid-rejected", entry, "", monBLS, "class", c.class, "input", in)
				} else {
					lib.Count("off-subgroup-candidates-presented")
					lib.Count("off-subgroup-rejected:" + a.name)
				}
			} else {
				lib.Count("on-curve-rejected-subgroup-check-thinned:" + a.name)
			}
		}
		return
	}
	lib.Count("decoder-accepted:" + entry)
	lib.Count("accepted:" + a.name + ":" + c.class)
	flagged := false
	same := unc
	if in[0]&0x80 != 0 {
		same = comp
	}
	if !lib.Eq(same, in) {
		sub := v.dec.Why
		if sub == "" {
			sub = "reserialises-differently"
		}
		viol("noncanonical-accepted", entry, sub, monBLS, "class", c.class, "input", in, "reserialised", same)
		flagged = true
	}
	// coordinates as circl holds them, read back from the uncompressed form by our own code
	x, y, inf := a.g.RawCoords(unc)
	pt := c09ref.WPt{X: x, Y: y, Inf: inf}
	if inf {
		pt = a.g.C.Infinity()
	} else {
		switch {
		case !a.g.C.OnCurve(pt):
			viol("off-curve-accepted", entry, "", monBLS, "class", c.class, "input", in, "decoded", unc)
			flagged = true
		case !a.g.InSubgroup(pt):
			viol("off-subgroup-accepted", entry, "", monBLS, "class", c.class, "input", in, "decoded", unc)
			flagged = true
		default:
			lib.Count("accepted-point-verified-in-subgroup:" + a.name)
		}
	}
	if v.dec.Why != "" {
		if !flagged {
			viol("accepted-but-reference-rejects", entry, v.dec.Why, monBLS, "class", c.class, "input", in)
		}
		return
	}
	if !a.g.C.Equal(v.dec.P, pt) {
		viol("decoded-value-differs", entry, "", monBLS, "class", c.class, "input", in, "decoded", unc,
			"expected", a.g.Encode(v.dec.P, false))
	}
}

// alwaysSub lists the classes whose on-curve members always get the reference
// subgroup test, even when circl refused them.
var alwaysSub = map[string]bool{"valid": true, "cofactor-torsion-point": true, "valid-plus-torsion": true,
	"off-subgroup-random-point": true, "order-3-point": true}

// ---- workload

type blsValid struct {
	comp, unc []byte
	pt        c09ref.WPt
}

func (a *blsAPI) validPoints(r *lib.Rng, nRand, nHash, nRef int) []blsValid {
	var out []blsValid
	add := func(comp, unc []byte) {
		d := a.g.Decode(unc)
		out = append(out, blsValid{comp, unc, d.P})
	}
	for _, k := range edgeScalars(a.g.R) {
		add(a.mulGen(k))
	}
	for i := 0; i < nRand; i++ {
		add(a.mulGen(randBelow(r, a.g.R)))
	}
	for i := 0; i < nHash; i++ {
		add(a.hash(r.Bytes(1 + r.Intn(40))))
	}
	// the identity as the sum of a point and its negative (24 different points)
	for i := 0; i < 24; i++ {
		add(a.cancel(randBelow(r, a.g.R)))
		lib.Count("identity-from-cancellation:" + a.name)
	}
	// encodings produced by the reference alone (never seen by circl's encoder)
	for i := 0; i < nRef; i++ {
		p := a.g.C.Mul(randBelow(r, a.g.R), a.g.G)
		out = append(out, blsValid{a.g.Encode(p, true), a.g.Encode(p, false), p})
	}
	return out
}

// randEl draws a field element; small bounds each component by 2^381-p so
// that adding p still fits below the flag bits.
func (a *blsAPI) randEl(r *lib.Rng, small bool) c09ref.El {
	bound := c09ref.BLSP
	if small {
		bound = new(big.Int).Sub(new(big.Int).Lsh(big.NewInt(1), 381), c09ref.BLSP)
	}
	e := c09ref.El{A: randBelow(r, bound), B: new(big.Int)}
	if a.g.Deg == 2 {
		e.B = randBelow(r, bound)
	}
	return e
}

// rawEnc serialises arbitrary (unreduced) coordinates: comps are the big
// endian integers in serialisation order (G1: x[,y]; G2: x.c1,x.c0[,y.c1,y.c0]).
func rawEnc(flags byte, comps ...*big.Int) []byte {
	var out []byte
	for _, c := range comps {
		out = append(out, c09ref.BE(c, 48)...)
	}
	out[0] |= flags
	return out
}

func (a *blsAPI) comps(e c09ref.El) []*big.Int {
	if a.g.Deg == 1 {
		return []*big.Int{e.A}
	}
	return []*big.Int{e.B, e.A}
}

func (a *blsAPI) workload(r *lib.Rng, q struct{ rnd, hash, ref, flipC, flipU, offsub, torsion, random int }) (tcs, []blsValid) {
	var w tcs
	g := a.g
	f := g.C.F
	p := c09ref.BLSP
	nc, nu := g.CompLen(), g.UncompLen()
	valid := a.validPoints(r, q.rnd, q.hash, q.ref)
	for _, v := range valid {
		w.add("valid", v.comp)
		w.add("valid", v.unc)
	}
	// every single-bit alteration (skip the identity/edge ones first: start at a random multiple)
	first := len(edgeScalars(g.R))
	for i := 0; i < q.flipC && first+i < len(valid); i++ {
		w.allFlips("bitflip-compressed", valid[first+i].comp)
	}
	for i := 0; i < q.flipU && first+i < len(valid); i++ {
		w.allFlips("bitflip-uncompressed", valid[first+i].unc)
	}
	w.allFlips("bitflip-infinity", valid[0].comp)
	w.allFlips("bitflip-infinity", valid[0].unc)
	w.allFlips("bitflip-generator", valid[1].comp)

	// coordinates in [p, 2^bits)
	for _, v := range valid[1:] {
		if v.pt.Inf {
			continue
		}
		xs, ys := a.comps(v.pt.X), a.comps(v.pt.Y)
		sort := byte(0)
		if g.IsBig(v.pt.Y) {
			sort = 0x20
		}
		for ci := range xs {
			for m := int64(1); m <= 9; m++ {
				xc := append([]*big.Int(nil), xs...)
				xc[ci] = new(big.Int).Add(xs[ci], new(big.Int).Mul(p, big.NewInt(m)))
				limit := 384
				if ci == 0 {
					limit = 381 // the top three bits of the first byte are flags
				}
				if xc[ci].BitLen() > limit {
					break
				}
				w.addPrimed("coordinate-plus-p", rawEnc(0x80|sort, xc...), rawEnc(0x80|sort, xs...))
				w.addPrimed("coordinate-plus-p", rawEnc(0, append(xc, ys...)...), rawEnc(0, append(append([]*big.Int(nil), xs...), ys...)...))
			}
		}
		for ci := range ys {
			for m := int64(1); m <= 9; m++ {
				yc := append([]*big.Int(nil), ys...)
				yc[ci] = new(big.Int).Add(ys[ci], new(big.Int).Mul(p, big.NewInt(m)))
				if yc[ci].BitLen() > 384 {
					break
				}
				w.addPrimed("coordinate-plus-p", rawEnc(0, append(append([]*big.Int(nil), xs...), yc...)...), rawEnc(0, append(append([]*big.Int(nil), xs...), ys...)...))
			}
		}
	}
	// curve points whose x is small enough for x+p to fit below the flag bits (aliases of on-curve x)
	for i := 0; i < q.offsub; i++ {
		x := a.randEl(r, true)
		if _, ok := g.Lift(x, false); !ok {
			continue
		}
		xs := a.comps(x)
		for ci := range xs {
			xc := append([]*big.Int(nil), xs...)
			xc[ci] = new(big.Int).Add(xs[ci], p)
			w.add("small-x-plus-p", rawEnc(0x80, xc...))
			w.add("small-x-plus-p", rawEnc(0xA0, xc...))
		}
	}
	pm1 := new(big.Int).Sub(p, big.NewInt(1))
	top := new(big.Int).Sub(new(big.Int).Lsh(big.NewInt(1), 381), big.NewInt(1))
	for _, xv := range []*big.Int{p, new(big.Int).Add(p, big.NewInt(1)), new(big.Int).Add(p, big.NewInt(2)), top, pm1} {
		for _, fl := range []byte{0x80, 0xA0, 0x00} {
			cs := []*big.Int{xv}
			if g.Deg == 2 {
				cs = []*big.Int{xv, big.NewInt(0)}
			}
			if fl == 0 {
				for len(cs) < 2*g.Deg {
					cs = append(cs, big.NewInt(2))
				}
			}
			w.add("x-at-field-boundary", rawEnc(fl, cs...))
			if g.Deg == 2 {
				cs2 := append([]*big.Int{big.NewInt(0), xv}, cs[2:]...)
				w.add("x-at-field-boundary", rawEnc(fl, cs2...))
			}
		}
	}

	// points of the curve outside the r-torsion: random x lifted with our own square root
	nOff := 0
	for i := 0; nOff < q.offsub && i < 4*q.offsub; i++ {
		x := a.randEl(r, false)
		pt, ok := g.Lift(x, r.Bool())
		if !ok {
			// x^3+b is not a square: a compressed string that must be refused for that reason
			w.add("x-not-on-curve", rawEnc(0x80, a.comps(x)...))
			continue
		}
		nOff++
		w.add("off-subgroup-random-point", g.Encode(pt, true))
		w.add("off-subgroup-random-point", g.Encode(pt, false))
		w.add("off-subgroup-random-point", g.Encode(g.C.Neg(pt), true))
	}
	// pure cofactor-torsion points [r]Q and valid points shifted by one
	var torsion []c09ref.WPt
	for i := 0; len(torsion) < q.torsion && i < 4*q.torsion; i++ {
		pt, ok := g.Lift(a.randEl(r, false), r.Bool())
		if !ok {
			continue
		}
		t := g.C.Mul(g.R, pt)
		if t.Inf {
			continue
		}
		torsion = append(torsion, t)
		w.add("cofactor-torsion-point", g.Encode(t, true))
		w.add("cofactor-torsion-point", g.Encode(t, false))
		s := g.C.Add(valid[first+i%(len(valid)-first)].pt, t)
		w.add("valid-plus-torsion", g.Encode(s, true))
		w.add("valid-plus-torsion", g.Encode(s, false))
	}
	// x = 0 has order 3 when it is on the curve
	for _, bg := range []bool{false, true} {
		if pt, ok := g.Lift(f.Zero(), bg); ok {
			w.add("order-3-point", g.Encode(pt, true))
			w.add("order-3-point", g.Encode(pt, false))
		}
	}
	// points of other curves y^2 = x^3 + b' (twists / invalid-curve points), uncompressed
	var bs []c09ref.El
	if g.Deg == 1 {
		for _, n := range []int64{0, 1, 2, 3, 5, 24, -4} {
			bs = append(bs, f.Int(n))
		}
	} else {
		bs = append(bs, f.Int(4), f.FromBig(big.NewInt(4), big.NewInt(-4)), f.FromBig(big.NewInt(1), big.NewInt(1)),
			f.Mul(f.Int(4), f.Inv(f.FromBig(big.NewInt(1), big.NewInt(1)))), f.Int(0))
	}
	for _, b := range bs {
		oc := &c09ref.WCurve{F: f, A: f.Zero(), B: b}
		for n := 0; n < 4; {
			x := a.randEl(r, false)
			y, ok := f.Sqrt(oc.RHS(x))
			if !ok {
				continue
			}
			n++
			w.add("other-curve-point", rawEnc(0, append(a.comps(x), a.comps(y)...)...))
		}
	}
	// y tampered on an otherwise valid uncompressed encoding
	for _, v := range valid[first : first+4] {
		w.add("valid", g.Encode(g.C.Neg(v.pt), false))
		w.add("valid", g.Encode(g.C.Neg(v.pt), true))
		w.add("wrong-y", g.Encode(c09ref.WPt{X: v.pt.X, Y: f.Add(v.pt.Y, f.One())}, false))
		w.add("wrong-y", g.Encode(c09ref.WPt{X: v.pt.Y, Y: v.pt.X}, false))
	}

	// infinity with stray flag / payload bits
	for _, n := range []int{nc, nu} {
		for _, fl := range []byte{0x40, 0xC0, 0x60, 0xE0} {
			z := make([]byte, n)
			z[0] = fl
			w.add("infinity-flags", z)
			for k := 0; k < 3; k++ {
				j := lib.Clone(z)
				copy(j[1:], r.Bytes(n-1))
				w.add("infinity-junk", j)
				j = lib.Clone(z)
				j[1+r.Intn(n-1)] = byte(1 + r.Intn(255))
				w.add("infinity-junk", j)
			}
			j := lib.Clone(z)
			j[n-1] = 1
			w.add("infinity-junk", j)
			j = lib.Clone(z)
			j[0] |= 1
			w.add("infinity-junk", j)
			if n == nu {
				j = lib.Clone(z)
				j[nc] = 0x80
				w.add("infinity-junk", j)
				j = lib.Clone(z)
				j[nc-1] = 1
				w.add("infinity-junk", j)
			}
		}
	}
	// every flag combination and every first byte over valid / zero / random bodies, both lengths
	bodies := [][]byte{valid[first].comp, valid[first].unc, valid[first+1].comp, valid[first+1].unc,
		make([]byte, nc), make([]byte, nu), r.Bytes(nc), r.Bytes(nu)}
	for _, b := range bodies {
		for v := 0; v < 256; v++ {
			c := lib.Clone(b)
			c[0] = byte(v)
			w.add("first-byte-sweep", c)
		}
		for fl := 0; fl < 8; fl++ {
			c := lib.Clone(b)
			c[0] = c[0]&0x1F | byte(fl)<<5
			w.add("flag-sweep", c)
		}
	}
	// the first byte of the second coordinate / component carries no flags: high bits there are range errors
	for _, v := range valid[first : first+2] {
		for off := 48; off < nu; off += 48 {
			for _, m := range []byte{0x80, 0x40, 0x20, 0xE0} {
				c := lib.Clone(v.unc)
				c[off] |= m
				w.add("high-bits-in-later-component", c)
				if off < nc {
					c = lib.Clone(v.comp)
					c[off] |= m
					w.add("high-bits-in-later-component", c)
				}
			}
		}
	}
	for i := 0; i < q.random; i++ {
		w.add("random", r.Bytes(nc))
		w.add("random", r.Bytes(nu))
		c := r.Bytes(nc)
		c[0] = c[0]&0x1F | 0x80
		if r.Bool() {
			c[0] &= 0x0F // likely below p
		}
		w.add("random-compressed-flag", c)
		u := r.Bytes(nu)
		u[0] &= 0x0F
		u[nc] &= 0x0F
		w.add("random-uncompressed-in-range", u)
	}
	return w, valid
}

type blsSizes = struct{ rnd, hash, ref, flipC, flipU, offsub, torsion, random int }

func runBLS(t *testing.T, a *blsAPI, q blsSizes, subOneIn uint64) tcs {
	entry := a.name + ".SetBytes"
	lib.Mandatory("decoder-accepted:"+entry, "decoder-rejected:"+entry,
		"off-subgroup-candidates-presented", "noncanonical-presented",
		"accepted-point-verified-in-subgroup:"+a.name, "converse-roundtrip:"+a.name,
		"presented:"+a.name+":cofactor-torsion-point", "presented:"+a.name+":coordinate-plus-p",
		"noncanonical-presented:"+a.name+":infinity-stray-bits", "noncanonical-presented:"+a.name+":coordinate-out-of-range")
	r := lib.NewRng("c09/bls/"+a.name, 0)
	w, valid := a.workload(r, q)
	lib.Par(len(w), func(i int) { a.judge(w[i], subOneIn) })
	// converse: what circl serialises is accepted again, in both forms, and compares equal
	lib.Par(len(valid), func(i int) {
		v := valid[i]
		if !a.equal(v.comp, v.unc) {
			viol("serialised-value-not-accepted-or-unequal", entry, "", monBLS, "compressed", v.comp, "uncompressed", v.unc)
		}
		ok, ser := a.set(v.comp)
		var comp, unc []byte
		if ok {
			comp, unc = ser()
		}
		if !ok || !lib.Eq(comp, v.comp) || !lib.Eq(unc, v.unc) {
			viol("serialised-value-not-accepted-or-unequal", entry, "", monBLS, "compressed", v.comp)
		}
		lib.Count("converse-roundtrip:" + a.name)
	})
	if len(valid) > 9 {
		lib.Sample(monBLS, lib.D("group", a.name, "valid_compressed", valid[9].comp, "strings", len(w)))
	}
	return w
}

func TestVerifG1(t *testing.T) {
	q := blsSizes{rnd: 24, hash: 8, ref: 4, flipC: 3, flipU: 1, offsub: 40, torsion: 8, random: 60}
	if lib.Thorough() {
		q = blsSizes{rnd: 400, hash: 100, ref: 40, flipC: 160, flipU: 120, offsub: 2000, torsion: 200, random: 6000}
	}
	runBLS(t, apiG1, q, uint64(lib.Scale(2, 8)))
}

func TestVerifG2(t *testing.T) {
	q := blsSizes{rnd: 16, hash: 6, ref: 3, flipC: 2, flipU: 1, offsub: 24, torsion: 6, random: 40}
	if lib.Thorough() {
		q = blsSizes{rnd: 300, hash: 80, ref: 24, flipC: 70, flipU: 60, offsub: 1200, torsion: 100, random: 4000}
	}
	runBLS(t, apiG2, q, uint64(lib.Scale(4, 16)))
}

// ---------------------------------------------------------------- BLS keys and signatures

const monBLSKeys = "TestVerifBLSKeys"

// pkAPI is PublicKey[G1] or PublicKey[G2] seen through bytes.
type pkAPI struct {
	name   string
	a      *blsAPI // group of the key
	sa     *blsAPI // group of the signature
	decode func(in []byte) (unmarshalOK, validateOK bool, remarshal []byte)
	// keygen returns the public key and a signature on msg
	keygen func(ikm, msg []byte) (pk, sig []byte)
	verify func(pk, msg, sig []byte) (pkOK, ok, okAgg bool) // Verify and VerifyAggregate over the single pair
}

func mkPK[K bls.KeyGroup](name string, a, sa *blsAPI) *pkAPI {
	return &pkAPI{
		name: name, a: a, sa: sa,
		decode: func(in []byte) (bool, bool, []byte) {
			pk := new(bls.PublicKey[K])
			if err := pk.UnmarshalBinary(in); err != nil {
				return false, false, nil
			}
			out, _ := pk.MarshalBinary()
			return true, pk.Validate(), out
		},
		keygen: func(ikm, msg []byte) ([]byte, []byte) {
			sk, err := bls.KeyGen[K](ikm, nil, nil)
			if err != nil {
				panic(err)
			}
			pk, _ := sk.PublicKey().MarshalBinary()
			return pk, bls.Sign(sk, msg)
		},
		verify: func(pkb, msg, sig []byte) (bool, bool, bool) {
			pk := new(bls.PublicKey[K])
			if err := pk.UnmarshalBinary(pkb); err != nil {
				return false, false, false
			}
			return true, bls.Verify(pk, msg, sig), bls.VerifyAggregate([]*bls.PublicKey[K]{pk}, [][]byte{msg}, sig)
		},
	}
}

func (k *pkAPI) judgeKey(c tc) {
	entry := "bls.PublicKey[" + k.a.name + "].UnmarshalBinary+Validate"
	in := c.data
	lib.Case([]byte(entry), in)
	var uok, vok bool
	var out []byte
	if p := lib.Try(entry, in, func() { uok, vok, out = k.decode(in) }); p != nil {
		lib.Count("panic-left-to-C10:" + entry)
		return
	}
	v := k.a.ref(in, false)
	if !(uok && vok) {
		lib.Count("decoder-rejected:" + entry)
		if v.dec.Why == "" && !v.dec.P.Inf && (alwaysSub[c.class] || sampled(in, uint64(lib.Scale(4, 16)))) {
			if v = k.a.ref(in, true); v.inSub {
				viol("valid-rejected", entry, "", monBLSKeys, "class", c.class, "input", in)
			}
		}
		return
	}
	lib.Count("decoder-accepted:" + entry)
	if !lib.Eq(out, in) {
		sub := v.dec.Why
		if sub == "" {
			sub = "reserialises-differently"
		}
		viol("noncanonical-accepted", entry, sub, monBLSKeys, "class", c.class, "input", in, "reserialised", out)
		return
	}
	if v.dec.Why != "" {
		viol("accepted-but-reference-rejects", entry, v.dec.Why, monBLSKeys, "class", c.class, "input", in)
		return
	}
	if v.dec.P.Inf {
		viol("identity-key-validated", entry, "", monBLSKeys, "input", in)
		return
	}
	if v = k.a.ref(in, true); !v.inSub {
		viol("off-subgroup-accepted", entry, "", monBLSKeys, "class", c.class, "input", in)
	}
}

// judgeVerify: with (pk, msg) fixed the only signature string of the
// compressed length that may verify is sig itself, and the only public key
// string is pk itself - any other accepted string is either a second encoding
// of the same point or a point outside the group that the pairing cannot tell
// apart (sig + cofactor-torsion).
func (k *pkAPI) judgeVerify(what string, pk, msg, sig []byte, c tc) {
	entry := "bls.Verify[key " + k.a.name + "]:" + what
	lib.Case([]byte(entry), pk, msg, sig, c.data)
	usePK, useSig := pk, sig
	orig := sig
	if what == "public-key" {
		usePK, orig = c.data, pk
	} else {
		useSig = c.data
	}
	var ok, okV, okA bool
	if p := lib.Try(entry, c.data, func() { _, okV, okA = k.verify(usePK, msg, useSig) }); p != nil {
		lib.Count("panic-left-to-C10:" + entry)
		return
	}
	ok = okV || okA
	if lib.Eq(c.data, orig) {
		if !okV || !okA {
			viol("valid-rejected", entry, "", monBLSKeys, "pk", pk, "msg", msg, "sig", sig)
		}
		lib.Count("verify-honest-accepted")
		return
	}
	if !ok {
		lib.Count("decoder-rejected:" + entry)
		return
	}
	lib.Count("decoder-accepted:" + entry)
	// a string other than the honest one verified: say what it is
	api := k.sa
	if what == "public-key" {
		api = k.a
	}
	if len(c.data) != len(orig) {
		// the other (uncompressed) form of the very same point is a legitimate
		// second spelling; anything else of that length is judged below
		if vv := api.ref(c.data, false); vv.dec.Why == "" {
			if ho := api.g.Decode(orig); ho.Why == "" && api.g.C.Equal(vv.dec.P, ho.P) {
				lib.Count("alternate-form-of-the-honest-point-accepted:" + entry)
				return
			}
		}
	}
	v := api.ref(c.data, true)
	cls := "foreign-valid-point-verifies"
	switch {
	case v.dec.Why != "":
		cls = "noncanonical-accepted"
	case !v.inSub:
		cls = "off-subgroup-accepted"
	case v.dec.P.Inf:
		cls = "identity-" + what + "-verifies"
	}
	viol(cls, "bls.Verify[key "+k.a.name+"]", what, monBLSKeys, "class", c.class, "reference", v.dec.Why, "Verify", okV, "VerifyAggregate", okA,
		"pk", usePK, "msg", msg, "sig", useSig, "honest", orig)
}

func TestVerifBLSKeys(t *testing.T) {
	keys := []*pkAPI{mkPK[bls.G1]("KeyG1SigG2", apiG1, apiG2), mkPK[bls.G2]("KeyG2SigG1", apiG2, apiG1)}
	for _, k := range keys {
		entry := "bls.PublicKey[" + k.a.name + "].UnmarshalBinary+Validate"
		lib.Mandatory("decoder-accepted:"+entry, "decoder-rejected:"+entry,
			"decoder-rejected:bls.Verify[key "+k.a.name+"]:signature", "decoder-rejected:bls.Verify[key "+k.a.name+"]:public-key",
			"verify-honest-accepted", "verify:torsion-shifted-presented")
		q := blsSizes{rnd: 12, hash: 4, ref: 2, flipC: 2, flipU: 0, offsub: 16, torsion: 4, random: 30}
		if lib.Thorough() {
			q = blsSizes{rnd: 200, hash: 40, ref: 12, flipC: 60, flipU: 0, offsub: 800, torsion: 60, random: 3000}
			if k.a.g.Deg == 2 {
				q.flipC, q.offsub, q.torsion = 30, 400, 40
			}
		}
		r := lib.NewRng("c09/blskeys/"+k.name, 0)
		w, _ := k.a.workload(r, q)
		var kw tcs
		for _, c := range w {
			if len(c.data) == k.a.g.CompLen() { // the key format is the compressed one
				kw = append(kw, c)
			}
		}
		lib.Par(len(kw), func(i int) { k.judgeKey(kw[i]) })

		// signatures and keys as consumed by Verify
		nk := lib.Scale(2, 24)
		for ki := 0; ki < nk; ki++ {
			kr := lib.NewRng("c09/blsverify/"+k.name, ki)
			msg := kr.Bytes(1 + kr.Intn(64))
			pk, sig := k.keygen(kr.Bytes(32), msg)
			for _, part := range []struct {
				what string
				api  *blsAPI
				enc  []byte
			}{{"signature", k.sa, sig}, {"public-key", k.a, pk}} {
				var vw tcs
				g := part.api.g
				vw.add("honest", part.enc)
				vw.allFlips("bitflip", part.enc)
				d := g.Decode(part.enc)
				if d.Why != "" {
					t.Fatalf("reference cannot decode circl's own %s: %s", part.what, d.Why)
				}
				// the point shifted by cofactor-torsion points, and the negated point
				nt := lib.Scale(3, 6)
				for n := 0; n < nt; {
					pt, ok := g.Lift(part.api.randEl(kr, false), kr.Bool())
					if !ok {
						continue
					}
					tp := g.C.Mul(g.R, pt)
					if tp.Inf {
						continue
					}
					n++
					vw.add("plus-cofactor-torsion", g.Encode(g.C.Add(d.P, tp), true))
					vw.add("cofactor-torsion-only", g.Encode(tp, true))
					lib.Count("verify:torsion-shifted-presented")
				}
				// strings of the UNCOMPRESSED length: the honest point in that form
				// (a legitimate second spelling), the same with the compression flag
				// set, and the compressed encoding followed by other bytes up to that
				// length (a decoder that reads only a prefix accepts it)
				unc := g.Encode(d.P, false)
				vw.add("uncompressed-form", unc)
				fl := lib.Clone(unc)
				fl[0] |= 0x80
				vw.add("uncompressed-length-with-compression-flag", fl)
				tail := g.UncompLen() - g.CompLen()
				vw.add("compressed-padded-to-uncompressed-length", append(lib.Clone(part.enc), make([]byte, tail)...))
				vw.add("compressed-padded-to-uncompressed-length", append(lib.Clone(part.enc), kr.Bytes(tail)...))
				vw.add("compressed-padded-to-uncompressed-length", append(lib.Clone(part.enc), part.enc[:tail]...))
				lib.Count("verify:uncompressed-length-strings-presented")
				vw.add("negated", g.Encode(g.C.Neg(d.P), true))
				vw.add("infinity", g.Encode(g.C.Infinity(), true))
				// the same x with p added where it fits, flags toggled
				for fl := 0; fl < 8; fl++ {
					c := lib.Clone(part.enc)
					c[0] = c[0]&0x1F | byte(fl)<<5
					vw.add("flag-sweep", c)
				}
				xs := part.api.comps(d.P.X)
				for ci := range xs {
					xc := append([]*big.Int(nil), xs...)
					xc[ci] = new(big.Int).Add(xs[ci], c09ref.BLSP)
					lim := 384
					if ci == 0 {
						lim = 381
					}
					if xc[ci].BitLen() <= lim {
						vw.add("coordinate-plus-p", rawEnc(part.enc[0]&0xE0, xc...))
					}
				}
				what := part.what
				lib.Par(len(vw), func(i int) { k.judgeVerify(what, pk, msg, sig, vw[i]) })
			}
		}
	}
}
