//go:build verif

package c02

import (
	"encoding"
	"testing"

	"github.com/cloudflare/circl/internal/zzverif/lib"
	"github.com/cloudflare/circl/sign"
	"github.com/cloudflare/circl/sign/bls"
	"github.com/cloudflare/circl/sign/eddilithium2"
	"github.com/cloudflare/circl/sign/eddilithium3"
	"github.com/cloudflare/circl/sign/mldsa/mldsa44"
	"github.com/cloudflare/circl/sign/mldsa/mldsa65"
	"github.com/cloudflare/circl/sign/mldsa/mldsa87"
)

// TestVerifRekey: "signing yields a signature that verifies under the matching
// public key" must also hold for a private-key object that held (and used)
// another key before: decode key B into the object of key A, then an honest
// signature of the object must verify under the object's own Public() and
// under B's public key, and must not verify under A's.
func TestVerifRekey(t *testing.T) {
	lib.Mandatory("rekey:bls-G1", "rekey:bls-G2", "rekey:mldsa65")
	n := lib.Scale(6, 200)
	for i := 0; i < n; i++ {
		r := lib.NewRng("c02/rekey", i)
		msg := r.Bytes(1 + r.Intn(40))
		rekeyBLS[bls.G1]("bls-G1", r, msg)
		rekeyBLS[bls.G2]("bls-G2", r, msg)
		var sA, sB [32]byte
		copy(sA[:], r.Bytes(32))
		copy(sB[:], r.Bytes(32))
		{
			pkA, skA := mldsa65.NewKeyFromSeed(&sA)
			pkB, skB := mldsa65.NewKeyFromSeed(&sB)
			rekey("mldsa65", skA, skB.Bytes(), msg, func(sk any) ([]byte, sign.PublicKey) {
				k := sk.(*mldsa65.PrivateKey)
				s := make([]byte, mldsa65.SignatureSize)
				_ = mldsa65.SignTo(k, msg, nil, false, s)
				return s, k.Public().(*mldsa65.PublicKey)
			}, func(pk sign.PublicKey, s []byte) bool { return mldsa65.Verify(pk.(*mldsa65.PublicKey), msg, nil, s) }, pkA, pkB)
		}
		{
			pkA, skA := mldsa44.NewKeyFromSeed(&sA)
			pkB, skB := mldsa44.NewKeyFromSeed(&sB)
			rekey("mldsa44", skA, skB.Bytes(), msg, func(sk any) ([]byte, sign.PublicKey) {
				k := sk.(*mldsa44.PrivateKey)
				s := make([]byte, mldsa44.SignatureSize)
				_ = mldsa44.SignTo(k, msg, nil, false, s)
				return s, k.Public().(*mldsa44.PublicKey)
			}, func(pk sign.PublicKey, s []byte) bool { return mldsa44.Verify(pk.(*mldsa44.PublicKey), msg, nil, s) }, pkA, pkB)
		}
		{
			pkA, skA := mldsa87.NewKeyFromSeed(&sA)
			pkB, skB := mldsa87.NewKeyFromSeed(&sB)
			rekey("mldsa87", skA, skB.Bytes(), msg, func(sk any) ([]byte, sign.PublicKey) {
				k := sk.(*mldsa87.PrivateKey)
				s := make([]byte, mldsa87.SignatureSize)
				_ = mldsa87.SignTo(k, msg, nil, false, s)
				return s, k.Public().(*mldsa87.PublicKey)
			}, func(pk sign.PublicKey, s []byte) bool { return mldsa87.Verify(pk.(*mldsa87.PublicKey), msg, nil, s) }, pkA, pkB)
		}
		{
			pkA, skA := eddilithium2.NewKeyFromSeed(&sA)
			pkB, skB := eddilithium2.NewKeyFromSeed(&sB)
			rekey("eddilithium2", skA, skB.Bytes(), msg, func(sk any) ([]byte, sign.PublicKey) {
				k := sk.(*eddilithium2.PrivateKey)
				s := make([]byte, eddilithium2.SignatureSize)
				eddilithium2.SignTo(k, msg, s)
				return s, k.Public().(*eddilithium2.PublicKey)
			}, func(pk sign.PublicKey, s []byte) bool {
				return eddilithium2.Verify(pk.(*eddilithium2.PublicKey), msg, s)
			}, pkA, pkB)
		}
		{
			var tA, tB [eddilithium3.SeedSize]byte
			copy(tA[:], r.Bytes(len(tA)))
			copy(tB[:], r.Bytes(len(tB)))
			pkA, skA := eddilithium3.NewKeyFromSeed(&tA)
			pkB, skB := eddilithium3.NewKeyFromSeed(&tB)
			rekey("eddilithium3", skA, skB.Bytes(), msg, func(sk any) ([]byte, sign.PublicKey) {
				k := sk.(*eddilithium3.PrivateKey)
				s := make([]byte, eddilithium3.SignatureSize)
				eddilithium3.SignTo(k, msg, s)
				return s, k.Public().(*eddilithium3.PublicKey)
			}, func(pk sign.PublicKey, s []byte) bool {
				return eddilithium3.Verify(pk.(*eddilithium3.PublicKey), msg, s)
			}, pkA, pkB)
		}
	}
}

func rekey(subject string, sk encoding.BinaryUnmarshaler, encB, msg []byte,
	signWith func(sk any) ([]byte, sign.PublicKey), verify func(sign.PublicKey, []byte) bool, pkA, pkB sign.PublicKey,
) {
	lib.Case([]byte("rekey"), []byte(subject), encB, msg)
	lib.Count("rekey:" + subject)
	_, _ = signWith(sk) // use key A: fills every cache
	if err := sk.UnmarshalBinary(encB); err != nil {
		lib.Violation("C02:honest-rejected:"+subject+":rekey-own-encoding-refused", "TestVerifRekey", lib.D("err", err))
		return
	}
	sig, pub := signWith(sk)
	if !verify(pub, sig) || !verify(pkB, sig) {
		lib.Violation("C02:honest-rejected:"+subject+":rekeyed-object", "TestVerifRekey",
			lib.D("subject", subject, "msg", msg, "verifies_under_own_Public", verify(pub, sig), "verifies_under_key_B", verify(pkB, sig)))
	}
	if verify(pkA, sig) {
		lib.Violation("C02:accept-altered:"+subject+":rekeyed-object-verifies-under-old-key", "TestVerifRekey", lib.D("subject", subject, "msg", msg))
	}
}

func rekeyBLS[K bls.KeyGroup](subject string, r *lib.Rng, msg []byte) {
	kA, _ := bls.KeyGen[K](r.Bytes(32), nil, nil)
	kB, _ := bls.KeyGen[K](r.Bytes(32), nil, nil)
	encB, _ := kB.MarshalBinary()
	lib.Case([]byte("rekey"), []byte(subject), encB, msg)
	lib.Count("rekey:" + subject)
	pkA := kA.PublicKey()
	_ = bls.Sign(kA, msg)
	if err := kA.UnmarshalBinary(encB); err != nil {
		lib.Violation("C02:honest-rejected:"+subject+":rekey-own-encoding-refused", "TestVerifRekey", lib.D("err", err))
		return
	}
	sig := bls.Sign(kA, msg)
	okOwn := bls.Verify(kA.PublicKey(), msg, sig)
	okB := bls.Verify(kB.PublicKey(), msg, sig)
	if !okOwn || !okB {
		lib.Violation("C02:honest-rejected:"+subject+":rekeyed-object", "TestVerifRekey",
			lib.D("subject", subject, "msg", msg, "verifies_under_own_PublicKey", okOwn, "verifies_under_key_B", okB))
	}
	if bls.Verify(pkA, msg, sig) {
		lib.Violation("C02:accept-altered:"+subject+":rekeyed-object-verifies-under-old-key", "TestVerifRekey", lib.D("subject", subject))
	}
}
